(* C09 proofs: the state machine of Refine.v never changes what a number denotes.
   Reals: an arbitrary real closed field R (MathComp rcfType); no axioms.  A coefficient list p : seq Z acts on R
   as pR p = map_poly ZR (Poly p); a dyadic end point (a, n) denotes dyR (a, n) = a / 2^n.

   Why rcfType and not the Sturm counting functions of UPoly.v: "exactly one root of f in (a, b)" and "the
   denotation" are statements about real numbers; MathComp's `roots p a b : seq R` gives both (den = its only
   element) with IVT (ivt_sign), sign constancy between roots (polyrN0_itv) and uniqueness of the sorted root
   list available axiom-free, whereas the Sturm functions of UPoly.v have no correctness theorem yet. *)
From Coq Require Import ZArith NArith List.
From LP Require Import UPoly Refine.
Set Warnings "-notation-overridden,-ambiguous-paths".
From mathcomp Require Import all_ssreflect all_algebra all_real_closed.
From mathcomp Require Import ssrZ zify ring.
Set Warnings "notation-overridden,ambiguous-paths".
From LP Require Import UPolySpec.
Import GRing.Theory Num.Theory Num.Def Order.TTheory.
Set Implicit Arguments.
Unset Strict Implicit.
Unset Printing Implicit Defensive.
Local Open Scope ring_scope.
Delimit Scope Z_scope with ZZ.

Section Den.
Variable R : rcfType.
Implicit Types (p q : {poly R}) (a b m r : R) (x : anum) (l : seq Z) (d e : dyq).

(* ---------------------------------------------------------------- Z, dyadics, rationals inside R *)
Definition ZR (z : Z) : R := (int_of_Z z)%:~R.

Fact ZR_is_additive : additive ZR.
Proof. by move=> u v; rewrite /ZR raddfB /= rmorphB. Qed.
Canonical ZR_additive := Additive ZR_is_additive.
Fact ZR_is_multiplicative : multiplicative ZR.
Proof. by split=> [u v|]; rewrite /ZR ?rmorphM ?rmorph1. Qed.
Canonical ZR_rmorphism := AddRMorphism ZR_is_multiplicative.

Lemma ZR_add (u v : Z) : ZR (u + v)%ZZ = ZR u + ZR v. Proof. exact: rmorphD. Qed.
Lemma ZR_sub (u v : Z) : ZR (u - v)%ZZ = ZR u - ZR v. Proof. exact: rmorphB. Qed.
Lemma ZR_mul (u v : Z) : ZR (u * v)%ZZ = ZR u * ZR v. Proof. exact: rmorphM. Qed.
Lemma ZR_opp (u : Z) : ZR (- u)%ZZ = - ZR u. Proof. exact: rmorphN. Qed.
Lemma ZR_0 : ZR 0%ZZ = 0. Proof. exact: rmorph0. Qed.
Lemma ZR_1 : ZR 1%ZZ = 1. Proof. exact: rmorph1. Qed.
Lemma ZR_2 : ZR 2%ZZ = 2%:R. Proof. by rewrite /ZR. Qed.

Lemma ZR_lt (u v : Z) : (ZR u < ZR v) = (Z.ltb u v).
Proof. by rewrite /ZR ltr_int; apply/idP/idP; lia. Qed.
Lemma ZR_le (u v : Z) : (ZR u <= ZR v) = (Z.leb u v).
Proof. by rewrite /ZR ler_int; apply/idP/idP; lia. Qed.
Lemma ZR_eq (u v : Z) : (ZR u == ZR v) = (Z.eqb u v).
Proof. by rewrite /ZR eqr_int; apply/idP/idP => [/eqP|/eqP]; lia. Qed.
Lemma ZR_gt0 (u : Z) : (0 < ZR u) = (Z.ltb 0 u).
Proof. by rewrite -(ZR_lt 0) rmorph0. Qed.
Lemma ZR_sgn (u : Z) : ZR (Z.sgn u) = sgr (ZR u).
Proof.
case: u => [|u|u] /=; first by rewrite ZR_0 sgr0.
  by rewrite gtr0_sg ?ZR_1 // ZR_gt0.
by rewrite ltr0_sg ?(ZR_opp 1) ?ZR_1 // -ZR_0 ZR_lt.
Qed.

Lemma ZR_eq0 (u : Z) : (ZR u == 0) = (Z.eqb u 0).
Proof. by rewrite -(ZR_eq u 0) rmorph0. Qed.

Definition tw (n : N) : R := 2%:R ^+ N.to_nat n.
Lemma tw_gt0 n : 0 < tw n. Proof. by rewrite /tw exprn_gt0 // ltr0n. Qed.
Lemma tw_neq0 n : tw n != 0. Proof. by rewrite gt_eqF // tw_gt0. Qed.
Lemma twD (i j : N) : tw (i + j) = tw i * tw j.
Proof. by rewrite /tw N2Nat.inj_add exprD. Qed.

Lemma ZR_p2 n : ZR (p2 n) = tw n.
Proof.
rewrite /p2 /tw; elim/N.peano_ind: n => [|n IH]; first by rewrite /= ZR_1 expr0.
rewrite N2Z.inj_succ Z.pow_succ_r; last by lia.
by rewrite ZR_mul IH N2Nat.inj_succ exprS ZR_2.
Qed.
Lemma p2_gt0 n : (0 < p2 n)%ZZ.
Proof. by have := tw_gt0 n; rewrite -ZR_p2 ZR_gt0 => /Z.ltb_lt. Qed.

Definition dyR (d : dyq) : R := ZR d.1 / tw d.2.
Definition qR (q : Z * Z) : R := ZR q.1 / ZR q.2.

Lemma sgr_divp (u v : R) : 0 < v -> sgr (u / v) = sgr u.
Proof. by move=> v0; rewrite sgrM sgrV (gtr0_sg v0) mulr1. Qed.

Lemma dyq_cmp_sgr (d e : dyq) : ZR (dyq_cmp d e) = sgr (dyR d - dyR e).
Proof.
rewrite /dyq_cmp ZR_sgn ZR_sub !ZR_mul !ZR_p2 /dyR.
have -> : ZR d.1 / tw d.2 - ZR e.1 / tw e.2 = (ZR d.1 * tw e.2 - ZR e.1 * tw d.2) / (tw d.2 * tw e.2).
  by field; rewrite !tw_neq0.
by rewrite sgr_divp // mulr_gt0 ?tw_gt0.
Qed.

Lemma ZR_lt0 (u : Z) : (ZR u < 0) = (Z.ltb u 0).
Proof. by rewrite -(ZR_lt u 0) rmorph0. Qed.
Lemma ZR_le0 (u : Z) : (ZR u <= 0) = (Z.leb u 0).
Proof. by rewrite -(ZR_le u 0) rmorph0. Qed.
Lemma ZR_ge0 (u : Z) : (0 <= ZR u) = (Z.leb 0 u).
Proof. by rewrite -(ZR_le 0 u) rmorph0. Qed.

Lemma dyq_ltP (d e : dyq) : dyq_lt d e = (dyR d < dyR e).
Proof. by rewrite /dyq_lt -ZR_lt0 dyq_cmp_sgr sgr_lt0 subr_lt0. Qed.
Lemma dyq_leP (d e : dyq) : dyq_le d e = (dyR d <= dyR e).
Proof. by rewrite /dyq_le -ZR_le0 dyq_cmp_sgr sgr_le0 subr_le0. Qed.
Lemma dyq_eqP (d e : dyq) : dyq_eq d e = (dyR d == dyR e).
Proof. by rewrite /dyq_eq -ZR_eq0 dyq_cmp_sgr sgr_eq0 subr_eq0. Qed.

Lemma dyq_maxP (d e : dyq) : dyR (dyq_max d e) = Num.max (dyR d) (dyR e).
Proof. by rewrite /dyq_max dyq_ltP; case: ltP. Qed.
Lemma dyq_minP (d e : dyq) : dyR (dyq_min d e) = Num.min (dyR d) (dyR e).
Proof. by rewrite /dyq_min dyq_ltP; case: ltgtP. Qed.

Lemma p2_sub (k n : N) : (n <= k)%N -> tw (k - n) * tw n = tw k.
Proof. by move=> le; rewrite -twD; congr tw; lia. Qed.

Lemma dyq_midP (d e : dyq) : dyR (dyq_mid d e) = (dyR d + dyR e) / 2%:R.
Proof.
rewrite /dyq_mid /dyR /=; set k := N.max d.2 e.2.
have hd : tw (k - d.2) * tw d.2 = tw k by apply: p2_sub; rewrite /k; lia.
have he : tw (k - e.2) * tw e.2 = tw k by apply: p2_sub; rewrite /k; lia.
have ed : ZR d.1 / tw d.2 = ZR d.1 * tw (k - d.2) / tw k.
  by rewrite -hd; field; rewrite !tw_neq0.
have ee : ZR e.1 / tw e.2 = ZR e.1 * tw (k - e.2) / tw k.
  by rewrite -he; field; rewrite !tw_neq0.
rewrite ZR_add !ZR_mul !ZR_p2 twD ed ee.
have -> : tw 1 = 2%:R by rewrite /tw /= expr1.
have n2 : (2%:R : R) != 0 by rewrite pnatr_eq0.
by field; rewrite ?tw_neq0 ?n2.
Qed.

Lemma dyq_cmp_q_sgr (d : dyq) (q : Z * Z) : (0 < q.2)%ZZ -> ZR (dyq_cmp_q d q) = sgr (dyR d - qR q).
Proof.
move=> q0; have q0R : 0 < ZR q.2 by rewrite ZR_gt0; apply/Z.ltb_lt.
rewrite /dyq_cmp_q ZR_sgn ZR_sub !ZR_mul !ZR_p2 /dyR /qR.
have -> : ZR d.1 / tw d.2 - ZR q.1 / ZR q.2 = (ZR d.1 * ZR q.2 - ZR q.1 * tw d.2) / (tw d.2 * ZR q.2).
  by field; rewrite tw_neq0 gt_eqF.
by rewrite sgr_divp // mulr_gt0 ?tw_gt0.
Qed.

Lemma dyq_floorP (d : dyq) : ZR (dyq_floor d) <= dyR d < ZR (dyq_floor d) + 1.
Proof.
rewrite /dyq_floor /dyR; set t := p2 d.2; set a := d.1.
have t0 : (0 < t)%ZZ := p2_gt0 d.2.
have tR : 0 < tw d.2 := tw_gt0 d.2.
rewrite ler_pdivl_mulr // ltr_pdivr_mulr // -ZR_p2 -/t -ZR_1 -ZR_add -!ZR_mul ZR_le ZR_lt.
have h1 := Z.mul_div_le a t t0; have h2 := Z.mul_succ_div_gt a t t0.
apply/andP; split; [apply/Z.leb_le|apply/Z.ltb_lt]; lia.
Qed.

(* ---------------------------------------------------------------- polynomials *)
Definition pR (l : seq Z) : {poly R} := Poly [seq ZR c | c <- l].

Lemma pR_cons c l u : (pR (c :: l)).[u] = (pR l).[u] * u + ZR c.
Proof. by rewrite /pR /= horner_cons. Qed.

Lemma pR_map l : pR l = map_poly ZR (Poly l).
Proof. by rewrite /pR map_Poly // rmorph0. Qed.

Lemma peval_homP (l : seq Z) (a b : Z) : ZR b != 0 ->
  ZR (peval_hom_aux l a b).2 = ZR b ^+ size l /\
  ZR (peval_hom_aux l a b).1 * ZR b = ZR (peval_hom_aux l a b).2 * (pR l).[ZR a / ZR b].
Proof.
move=> b0; elim: l => [|c l [IH1 IH2]] /=.
  by rewrite /pR /= horner0 ZR_0 ZR_1 expr0 mul0r mulr0.
case E: (peval_hom_aux l a b) IH1 IH2 => [v bp] /= IH1 IH2.
rewrite ZR_mul IH1 exprSr; split=> //.
rewrite pR_cons ZR_add !ZR_mul mulrDl mulrDr -[ZR a * ZR v * ZR b]mulrA IH2 IH1.
move: ((pR l).[_]) => P; move: (ZR b ^+ size l) => B.
by field.
Qed.

Lemma psgn_at_ratP (l : seq Z) (a b : Z) : (0 < b)%ZZ -> ZR (psgn_at_rat l a b) = sgr (pR l).[ZR a / ZR b].
Proof.
move=> b0; have bR : 0 < ZR b by rewrite ZR_gt0; apply/Z.ltb_lt.
have [h1 h2] := peval_homP l a (lt0r_neq0 bR).
rewrite /psgn_at_rat ZR_sgn.
have: sgr (ZR (peval_hom_aux l a b).1 * ZR b) = sgr (ZR (peval_hom_aux l a b).2 * (pR l).[ZR a / ZR b]) by rewrite h2.
by rewrite !sgrM (gtr0_sg bR) mulr1 h1 (gtr0_sg (exprn_gt0 _ bR)) mul1r.
Qed.

Lemma psgn_dyP (l : seq Z) (d : dyq) : ZR (psgn_dy l d) = sgr (pR l).[dyR d].
Proof. by rewrite /psgn_dy psgn_at_ratP ?ZR_p2 //; exact: p2_gt0. Qed.
Lemma psgn_ratP (l : seq Z) (q : Z * Z) : (0 < q.2)%ZZ -> ZR (psgn_rat l q) = sgr (pR l).[qR q].
Proof. by move=> q0; rewrite /psgn_rat psgn_at_ratP. Qed.

(* ---------------------------------------------------------------- exactly one root in an interval *)
Lemma roots1P p a b r : p != 0 -> r \in `]a, b[ -> root p r ->
  (forall y, y \in `]a, b[ -> root p y -> y = r) -> roots p a b = [:: r].
Proof.
move=> p0 rab rr uq.
have rin : r \in roots p a b by rewrite in_roots rr rab p0.
have sub z : z \in roots p a b -> z = r by rewrite in_roots => /and3P[rz zab _]; exact: uq.
have := uniq_roots a b p.
case: (roots p a b) sub rin => [|z [|z' s]] //= sub.
  by rewrite inE => /eqP ->.
move=> _ /andP[]; rewrite inE negb_or => /andP[zz' _] _.
by rewrite (sub z) ?inE ?eqxx // (sub z') ?inE ?eqxx ?orbT // in zz'.
Qed.

Lemma roots1E p a b r : roots p a b = [:: r] ->
  [/\ p != 0, r \in `]a, b[, root p r & forall y, y \in `]a, b[ -> root p y -> y = r].
Proof.
move=> E; have : r \in roots p a b by rewrite E inE.
rewrite in_roots => /and3P[rr rab p0]; split=> // y yab ry.
have : y \in roots p a b by rewrite in_roots ry yab p0.
by rewrite E inE => /eqP.
Qed.

Lemma sub_itv_oo a b a' b' y : a <= a' -> b' <= b -> y \in `]a', b'[ -> y \in `]a, b[.
Proof.
move=> la lb; rewrite !in_itv /= => /andP[h1 h2].
by rewrite (le_lt_trans la h1) (lt_le_trans h2 lb).
Qed.

(* a sub-interval that still contains a root isolates the same root *)
Lemma roots1_sub p a b a' b' r : roots p a b = [:: r] -> a <= a' -> b' <= b ->
  (exists2 y, y \in `]a', b'[ & root p y) -> roots p a' b' = [:: r].
Proof.
move=> /roots1E[p0 rab rr uq] la lb [y yab ry].
have yr : y = r by apply: uq => //; exact: sub_itv_oo yab.
apply: roots1P => //; first by rewrite -yr.
by move=> z zab rz; apply: uq => //; exact: sub_itv_oo zab.
Qed.

Lemma narrow_right p a b m r : roots p a b = [:: r] -> a < m < b ->
  sgr p.[m] * sgr p.[b] = -1 -> roots p m b = [:: r].
Proof.
move=> E /andP[am mb] sg; apply: (roots1_sub E (ltW am) (lexx b)).
by have [y ymb ry] := ivt_sign (ltW mb) sg; exists y.
Qed.

Lemma narrow_left p a b m r : roots p a b = [:: r] -> a < m < b ->
  sgr p.[a] * sgr p.[m] = -1 -> roots p a m = [:: r].
Proof.
move=> E /andP[am mb] sg; apply: (roots1_sub E (lexx a) (ltW mb)).
by have [y yam ry] := ivt_sign (ltW am) sg; exists y.
Qed.

Lemma narrow_hit p a b m r : roots p a b = [:: r] -> a < m < b -> p.[m] = 0 -> m = r.
Proof.
by move=> /roots1E[_ _ _ uq] amb pm; apply: uq; rewrite ?in_itv //=; apply/rootP.
Qed.

(* signs: s, t in {-1, 0, 1} as elements of R *)
Lemma sgr_mul_eqN1 (u v : R) : sgr u * sgr v = -1 -> sgr v = - sgr u.
Proof.
by case: (sgrP u) => _; case: (sgrP v) => _; rewrite ?mulr0 ?mul0r ?mul1r ?mulr1 ?mulN1r ?opprK ?oppr0 // => /eqP;
   rewrite -?eqr_oppLR ?oppr0 ?oner_eq0 ?eqr_opp // => /eqP; rewrite ?eq_sym ?oner_eq0 //; move/eqP; rewrite -subr_eq0 opprK -mulr2n pnatr_eq0.
Qed.

(* ---------------------------------------------------------------- well-formed representations and what they denote *)
Definition noint a b : Prop := forall z : Z, ~~ (a < ZR z < b).

Definition WF (x : anum) : Prop :=
  match af x with
  | None => [/\ aa x = ab x, asa x = 0%ZZ & asb x = 0%ZZ]
  | Some l =>
    [/\ exists r, roots (pR l) (dyR (aa x)) (dyR (ab x)) = [:: r],
        ZR (asa x) = sgr (pR l).[dyR (aa x)],
        ZR (asb x) = sgr (pR l).[dyR (ab x)],
        sgr (pR l).[dyR (aa x)] * sgr (pR l).[dyR (ab x)] = -1 &
        noint (dyR (aa x)) (dyR (ab x))]
  end.

Definition den (x : anum) : R :=
  match af x with
  | None => dyR (aa x)
  | Some l => head 0 (roots (pR l) (dyR (aa x)) (dyR (ab x)))
  end.

Lemma WF_roots x l : WF x -> af x = Some l -> roots (pR l) (dyR (aa x)) (dyR (ab x)) = [:: den x].
Proof. by rewrite /WF /den => + E; rewrite E => -[[r Er] _ _ _ _]; rewrite Er. Qed.

Lemma WF_lt x l : WF x -> af x = Some l -> dyR (aa x) < dyR (ab x).
Proof.
move=> wf E; have /roots1E[_] := WF_roots wf E.
by rewrite in_itv /= => /andP[h1 h2] _ _; exact: lt_trans h1 h2.
Qed.

Lemma WF_den_in x l : WF x -> af x = Some l -> dyR (aa x) < den x < dyR (ab x).
Proof. by move=> wf E; have /roots1E[_] := WF_roots wf E; rewrite in_itv. Qed.

(* ---------------------------------------------------------------- narrowing *)
Lemma sgN1_neq0 (u w : R) : sgr u * sgr w = -1 -> (u != 0) && (w != 0).
Proof.
move=> h; apply/andP; split; apply/eqP => e; move: h; rewrite e sgr0 ?mul0r ?mulr0 => /eqP;
  by rewrite eq_sym oppr_eq0 oner_eq0.
Qed.

Lemma sg_same (u v w : R) : sgr u * sgr w = -1 -> 0 < sgr v * sgr u -> sgr v = sgr u /\ sgr v * sgr w = -1.
Proof.
move=> h pos; have /andP[u0 w0] := sgN1_neq0 h.
have e : sgr v * sgr u = 1 by move: pos; rewrite -sgrM sgr_gt0 => /gtr0_sg; rewrite sgrM.
have uu : sgr u * sgr u = 1 by rewrite -expr2 sqr_sg u0.
have ev : sgr v = sgr u by rewrite -[LHS]mulr1 -uu mulrA e mul1r.
by rewrite ev.
Qed.

Lemma sg_other (u v w : R) : sgr u * sgr w = -1 -> sgr v != 0 -> ~~ (0 < sgr v * sgr u) ->
  sgr v = sgr w /\ sgr u * sgr v = -1.
Proof.
move=> h v0 npos; have /andP[u0 w0] := sgN1_neq0 h.
have uu : sgr u * sgr u = 1 by rewrite -expr2 sqr_sg u0.
have e : sgr v * sgr u = -1.
  move: npos; rewrite -sgrM sgr_gt0 -leNgt le_eqVlt mulf_eq0 (negPf u0) orbF -sgr_eq0 (negPf v0) /=.
  by move=> /ltr0_sg.
have ev : sgr v = - sgr u by rewrite -[LHS]mulr1 -uu mulrA e mulN1r.
have ew : sgr w = - sgr u by rewrite -[LHS]mul1r -uu -mulrA [sgr u * sgr w]h mulrN1.
by rewrite ev ew mulrN uu.
Qed.

Definition Narrows x x' : Prop :=
  [/\ WF x', den x' = den x &
      af x' = None \/
      [/\ af x' = af x, asa x' = asa x, asb x' = asb x,
          dyR (aa x) <= dyR (aa x') & dyR (ab x') <= dyR (ab x)]].

Lemma Narrows_refl x : WF x -> Narrows x x.
Proof. by move=> wf; split=> //; right. Qed.

Lemma Narrows_trans x1 x2 x3 : Narrows x1 x2 -> Narrows x2 x3 -> Narrows x1 x3.
Proof.
move=> [wf2 d2 s2] [wf3 d3 s3]; split=> //; first by rewrite d3.
case: s3 => [->|[e1 e2 e3 e4 e5]]; first by left.
case: s2 => [e|[f1 f2 f3 f4 f5]]; first by left; rewrite e1.
by right; split; [rewrite e1|rewrite e2|rewrite e3|exact: le_trans f4 e4|exact: le_trans e5 f5].
Qed.

Lemma noint_sub a b a' b' : noint a b -> a <= a' -> b' <= b -> noint a' b'.
Proof.
move=> ni la lb z; apply/negP => /andP[h1 h2]; have /negP := ni z; apply.
by rewrite (le_lt_trans la h1) (lt_le_trans h2 lb).
Qed.

Lemma narrow_ok x l d : WF x -> af x = Some l -> dyR (aa x) < dyR d < dyR (ab x) ->
  Narrows x (an_narrow x l d).1.
Proof.
move=> wf E amb; have Er := WF_roots wf E.
move: (wf); rewrite /WF E => -[_ sa sb prod ni].
rewrite /an_narrow; have sm := psgn_dyP l d.
case: Z.eqb_spec => [s0|sn0] /=.
  have pm : (pR l).[dyR d] = 0.
    by apply/eqP; rewrite -sgr_eq0 -sm s0 ZR_0.
  have mr := narrow_hit Er amb pm.
  by split; [rewrite /WF /=; split| rewrite {1}/den /= mr | left].
have smn0 : sgr (pR l).[dyR d] != 0.
  by rewrite -sm ZR_eq0; apply/negP => /Z.eqb_eq.
have /andP[am mb] := amb.
case: Z.ltb_spec => [pos|npos] /=.
  have pos' : 0 < sgr (pR l).[dyR d] * sgr (pR l).[dyR (aa x)].
    by rewrite -sm -sa -ZR_mul ZR_gt0; apply/Z.ltb_lt.
  have [e1 e2] := sg_same prod pos'.
  have Er' := narrow_right Er amb e2.
  split.
  - rewrite /WF /= E; split=> //; first by exists (den x).
      by rewrite sa e1.
    exact: noint_sub ni (ltW am) (lexx _).
  - by rewrite {1}/den /= E Er'.
  - by right; split=> //=; exact: ltW.
have npos' : ~~ (0 < sgr (pR l).[dyR d] * sgr (pR l).[dyR (aa x)]).
  by rewrite -sm -sa -ZR_mul ZR_gt0; apply/negP => /Z.ltb_lt; lia.
have [e1 e2] := sg_other prod smn0 npos'.
have Er' := narrow_left Er amb e2.
split.
- rewrite /WF /= E; split=> //; first by exists (den x).
    by rewrite sb e1.
  exact: noint_sub ni (lexx _) (ltW mb).
- by rewrite {1}/den /= E Er'.
- by right; split=> //=; exact: ltW.
Qed.

Lemma refine_dir_ok x : WF x -> Narrows x (an_refine_dir x).1.
Proof.
move=> wf; rewrite /an_refine_dir; case E: (af x) => [l|]; last exact: Narrows_refl.
apply: narrow_ok => //; rewrite dyq_midP.
by have [h1 h2] := midf_lt (WF_lt wf E); rewrite h1 h2.
Qed.

Lemma refine_ok x : WF x -> Narrows x (an_refine x).
Proof. exact: refine_dir_ok. Qed.

Lemma contains_openP x d : an_contains_open x d = (dyR (aa x) < dyR d < dyR (ab x)).
Proof. by rewrite /an_contains_open !dyq_ltP. Qed.

Lemma refine_with_point_ok x d : WF x -> Narrows x (an_refine_with_point x d).
Proof.
move=> wf; rewrite /an_refine_with_point; case E: (af x) => [l|]; last exact: Narrows_refl.
case C: (an_contains_open x d); last exact: Narrows_refl.
by apply: narrow_ok => //; rewrite -contains_openP.
Qed.

(* ---------------------------------------------------------------- comparison with a rational *)
Lemma is_pointE x : an_is_point x = (af x == None).
Proof. by rewrite /an_is_point; case: (af x). Qed.

Lemma ivl_cmp_q_ok x (q : Z * Z) : WF x -> (0 < q.2)%ZZ ->
  (an_ivl_cmp_q x q = 0%ZZ /\ exists2 l, af x = Some l & dyR (aa x) < qR q < dyR (ab x)) \/
  ZR (an_ivl_cmp_q x q) = sgr (den x - qR q).
Proof.
move=> wf q0; rewrite /an_ivl_cmp_q /an_is_point.
case E: (af x) => [l|] /=; last by right; rewrite dyq_cmp_q_sgr // /den E.
have /andP[ad db] := WF_den_in wf E.
have ha := dyq_cmp_q_sgr (aa x) q0; have hb := dyq_cmp_q_sgr (ab x) q0.
case: Z.leb_spec => [ge|lt] /=.
  right; have : 0 <= sgr (dyR (aa x) - qR q) by rewrite -ha ZR_ge0; apply/Z.leb_le.
  rewrite sgr_ge0 subr_ge0 => qa; rewrite ZR_1 gtr0_sg // subr_gt0; exact: le_lt_trans qa ad.
have aq : dyR (aa x) < qR q.
  by rewrite -subr_lt0 -sgr_lt0 -ha ZR_lt0; apply/Z.ltb_lt.
case: Z.leb_spec => [le|gt] /=.
  right; have : sgr (dyR (ab x) - qR q) <= 0 by rewrite -hb ZR_le0; apply/Z.leb_le.
  rewrite sgr_le0 subr_le0 => bq; rewrite (ZR_opp 1) ZR_1 ltr0_sg // subr_lt0; exact: lt_le_trans db bq.
left; split=> //; exists l => //.
by rewrite aq /= -subr_gt0 -sgr_gt0 -hb ZR_gt0; apply/Z.ltb_lt.
Qed.

Lemma cmp_q_loop_ok fuel x (q : Z * Z) x' c : WF x -> (0 < q.2)%ZZ ->
  an_cmp_q_loop fuel x q = Some (x', c) -> Narrows x x' /\ ZR c = sgr (den x - qR q).
Proof.
move=> + q0; elim: fuel x => [|fuel IH] x wf //=.
have nr := refine_ok wf; have [wf1 d1 _] := nr.
have := ivl_cmp_q_ok wf1 q0.
case: Z.eqb_spec => [_ _|ne [[]//|h] [<- <-]]; last by rewrite h d1.
by move=> /(IH _ wf1) [n2 ->]; rewrite d1; split=> //; exact: Narrows_trans nr n2.
Qed.

Lemma cmp_q_ok fuel x (q : Z * Z) x' c : WF x -> (0 < q.2)%ZZ ->
  an_cmp_q fuel x q = Some (x', c) -> Narrows x x' /\ ZR c = sgr (den x - qR q).
Proof.
move=> wf q0; rewrite /an_cmp_q; case E: (af x) => [l|].
  have := ivl_cmp_q_ok wf q0.
  case: Z.eqb_spec => [c0|ne [[]//|h] [<- <-]] /=; last by split=> //; exact: Narrows_refl.
  case=> [[_ [l' El aqb]]|h].
    move=> {l' El}.
    case: Z.eqb_spec => [s0 [<- <-]|_]; last exact: cmp_q_loop_ok.
    split; first exact: Narrows_refl.
    have pq : (pR l).[qR q] = 0 by apply/eqP; rewrite -sgr_eq0 -psgn_ratP // s0 ZR_0.
    by rewrite (narrow_hit (WF_roots wf E) aqb pq) subrr sgr0 ZR_0.
  (* the interval test says "inside" (0) but the end points already decide: impossible branch made harmless *)
  case: Z.eqb_spec => [s0 [<- <-]|_]; last exact: cmp_q_loop_ok.
  by split; [exact: Narrows_refl | rewrite -h c0].
move=> [<- <-]; split; first exact: Narrows_refl.
by rewrite dyq_cmp_q_sgr // /den E.
Qed.

(* ---------------------------------------------------------------- floor *)
Lemma floor_ok x : WF x -> ZR (an_floor x) <= den x < ZR (an_floor x) + 1.
Proof.
move=> wf; rewrite /an_floor; have /andP[h1 h2] := dyq_floorP (aa x).
case E: (af x) => [l|]; last by rewrite /den E h1 h2.
have /andP[ad db] := WF_den_in wf E.
rewrite (le_trans h1 (ltW ad)) /= ltNge; apply/negP => le.
move: (wf); rewrite /WF E => -[_ _ _ _ ni].
have /negP := ni (dyq_floor (aa x) + 1)%ZZ; apply.
by rewrite ZR_add ZR_1 h2 (le_lt_trans le db).
Qed.

(* ---------------------------------------------------------------- replacing the polynomial by a common divisor *)
(* the premise on the gcd oracle of OCmp: g divides l over Q (c * l = h * g with c <> 0) *)
Definition divides_poly (g l : seq Z) : Prop :=
  exists (c : Z) (h : seq Z), c <> 0%ZZ /\ Poly (pscale c l) = Poly (pmul h g) :> {poly Z}.

Lemma divides_root (g l : seq Z) t : divides_poly g l -> root (pR g) t -> root (pR l) t.
Proof.
move=> [c [h [c0 E]]] /rootP rg; apply/rootP.
have : (map_poly ZR (Poly (pscale c l))).[t] = (map_poly ZR (Poly (pmul h g))).[t] by rewrite E.
rewrite Poly_pscale Poly_pmul map_polyZ rmorphM /= -!pR_map hornerZ hornerM rg mulr0 => /eqP.
by rewrite mulf_eq0 ZR_eq0 => /orP[/Z.eqb_eq|/eqP].
Qed.

Lemma sign_const p (u v : R) : (forall t, t \in `[Num.min u v, Num.max u v] -> ~~ root p t) -> sgr p.[u] = sgr p.[v].
Proof.
move=> nr; apply: (@polyrN0_itv _ `[Num.min u v, Num.max u v]) => //; rewrite in_itv /=.
  by rewrite le_minl le_maxr !lexx !orbT.
by rewrite le_minl le_maxr !lexx.
Qed.

Lemma reduce_roots p g a b r : roots p a b = [:: r] -> (forall t, root g t -> root p t) ->
  sgr g.[a] * sgr g.[b] = -1 -> roots g a b = [:: r].
Proof.
move=> E sub sg; have [p0 rab rr uq] := roots1E E.
have ab : a <= b by move: rab; rewrite in_itv /= => /andP[h1 h2]; exact: ltW (lt_trans h1 h2).
have [y yab ry] := ivt_sign ab sg.
have yr : y = r by apply: uq => //; exact: sub.
have g0 : g != 0.
  by apply/eqP => g0; move: sg; rewrite g0 !horner0 sgr0 mul0r => /eqP; rewrite eq_sym oppr_eq0 oner_eq0.
apply: roots1P => //; first by rewrite -yr.
by move=> z zab rz; apply: uq => //; exact: sub.
Qed.

Lemma reduce_wide p g a b A B r : roots p a b = [:: r] -> roots p A B = [:: r] ->
  (forall t, root g t -> root p t) -> sgr g.[a] * sgr g.[b] = -1 -> sgr p.[A] * sgr p.[B] = -1 ->
  [/\ roots g A B = [:: r], sgr g.[A] = sgr g.[a] & sgr g.[B] = sgr g.[b]].
Proof.
move=> E EW sub sg sW.
have Eg := reduce_roots E sub sg.
have [p0 rab rr uq] := roots1E E; have [_ rAB _ uqW] := roots1E EW.
have [g0 _ rg _] := roots1E Eg.
have /andP[ga0 gb0] := sgN1_neq0 sg; have /andP[pA0 pB0] := sgN1_neq0 sW.
move: rab rAB; rewrite !in_itv /= => /andP[ar rb] /andP[Ar rB].
split.
- apply: roots1P => //; first by rewrite in_itv /= Ar rB.
  by move=> z zab rz; apply: uqW => //; exact: sub.
- apply: sign_const => t; rewrite in_itv /= le_minl le_maxr => /andP[lo hi]; apply/negP => rt.
  have rpt := sub _ rt.
  have tr : t < r by case/orP: hi => h; [exact: le_lt_trans h Ar | exact: le_lt_trans h ar].
  have tb : t < b := lt_trans tr rb; have tB : t < B := lt_trans tr rB.
  case/orP: lo => lo.
    move: lo; rewrite le_eqVlt => /orP[/eqP e|At]; first by move: rpt; rewrite -e rootE (negPf pA0).
    by have := uqW t _ rpt; rewrite in_itv /= At tB => /(_ isT) e; rewrite e ltxx in tr.
  move: lo; rewrite le_eqVlt => /orP[/eqP e|lat]; first by move: rt; rewrite -e rootE (negPf ga0).
  by have := uq t _ rpt; rewrite in_itv /= lat tb => /(_ isT) e; rewrite e ltxx in tr.
- apply: sign_const => t; rewrite in_itv /= le_minl le_maxr => /andP[lo hi]; apply/negP => rt.
  have rpt := sub _ rt.
  have tr : r < t by case/orP: lo => h; [exact: lt_le_trans rB h | exact: lt_le_trans rb h].
  have ta : a < t := lt_trans ar tr; have tA : A < t := lt_trans Ar tr.
  case/orP: hi => hi.
    move: hi; rewrite le_eqVlt => /orP[/eqP e|tB]; first by move: rpt; rewrite e rootE (negPf pB0).
    by have := uqW t _ rpt; rewrite in_itv /= tA tB => /(_ isT) e; rewrite e ltxx in tr.
  move: hi; rewrite le_eqVlt => /orP[/eqP e|tb]; first by move: rt; rewrite e rootE (negPf gb0).
  by have := uq t _ rpt; rewrite in_itv /= ta tb => /(_ isT) e; rewrite e ltxx in tr.
Qed.

(* ---------------------------------------------------------------- what every step does to a number: Keeps *)
(* x' is again well formed, denotes the same real, a point stays a point, and every interval (A, B) that was a valid
   (wider) isolating interval for x with the caches of x is one for x' with the caches of x' *)
Definition Keeps x x' : Prop :=
  [/\ WF x', den x' = den x, (af x = None -> af x' = None) &
      forall A B, WF (an_set_I x A B) -> den (an_set_I x A B) = den x -> af x' <> None ->
                  WF (an_set_I x' A B) /\ den (an_set_I x' A B) = den x'].

Lemma Narrows_Keeps x x' : Narrows x x' -> Keeps x x'.
Proof.
move=> [wf dd sh]; split=> //.
  by case: sh => [//|[-> _ _ _ _]].
move=> A B wfW dW nn; case: sh => [//|[e1 e2 e3 _ _]].
by rewrite /an_set_I e1 e2 e3 dd.
Qed.

Lemma Keeps_refl x : WF x -> Keeps x x.
Proof. by move=> wf; apply: Narrows_Keeps; exact: Narrows_refl. Qed.

Lemma Keeps_trans x1 x2 x3 : Keeps x1 x2 -> Keeps x2 x3 -> Keeps x1 x3.
Proof.
move=> [wf2 d2 n2 k2] [wf3 d3 n3 k3]; split=> //; first by rewrite d3.
  by move=> /n2 /n3.
move=> A B wfW dW nn.
have nn2 : af x2 <> None by move=> /n3.
by have [w2 e2] := k2 A B wfW dW nn2; apply: k3.
Qed.

Lemma ZR_mul_lt0 (u v : Z) (a b : R) : ZR u = sgr a -> ZR v = sgr b -> (u * v <? 0)%ZZ -> sgr a * sgr b = -1.
Proof.
move=> eu ev /Z.ltb_lt lt; have : ZR (u * v) < 0 by rewrite ZR_lt0; apply/Z.ltb_lt.
by rewrite ZR_mul eu ev -sgrM sgr_lt0 => /ltr0_sg.
Qed.

Lemma reduce_Keeps x l (g : seq Z) : WF x -> af x = Some l -> divides_poly g l ->
  (psgn_dy g (aa x) * psgn_dy g (ab x) <? 0)%ZZ ->
  Keeps x (an_reduce x g (psgn_dy g (aa x)) (psgn_dy g (ab x))).
Proof.
move=> wf E dv neg; have Er := WF_roots wf E.
have sub t : root (pR g) t -> root (pR l) t := divides_root dv.
have sg := ZR_mul_lt0 (psgn_dyP g (aa x)) (psgn_dyP g (ab x)) neg.
have Eg := reduce_roots Er sub sg.
move: (wf); rewrite /WF E => -[_ _ _ _ ni].
split.
- by rewrite /WF /=; split=> //; [exists (den x) | exact: psgn_dyP | exact: psgn_dyP].
- by rewrite {1}/den /= Eg.
- by rewrite E.
move=> A B wfW dW _.
have EW : af (an_set_I x A B) = Some l by [].
have ErW := WF_roots wfW EW; rewrite dW /= in ErW.
move: (wfW); rewrite /WF EW /= => -[_ _ _ sW niW].
have [EgW sA sB] := reduce_wide Er ErW sub sg sW.
split; last by rewrite /den /= EgW Eg.
rewrite /WF /=; split=> //; first by exists (den x).
- by rewrite psgn_dyP sA.
- by rewrite psgn_dyP sB.
- by rewrite sA sB.
Qed.

(* ---------------------------------------------------------------- comparison of two numbers: what happens to them *)
Lemma prepare_ok x (y : anum) : WF x -> WF y ->
  Narrows x (an_cmp_prepare x y).1 /\ Narrows y (an_cmp_prepare x y).2.
Proof.
move=> wfx wfy; rewrite /an_cmp_prepare.
case: (an_disjoint x y); first by split; exact: Narrows_refl.
case: (an_intersection x y) => [[lo hi] pt].
have nx := refine_with_point_ok lo wfx; have ny := refine_with_point_ok lo wfy.
case: pt => //=; have [wx1 _ _] := nx; have [wy1 _ _] := ny.
split; [apply: Narrows_trans nx _ | apply: Narrows_trans ny _]; exact: refine_with_point_ok.
Qed.

Lemma bisect_ok fuel x (y : anum) x' y' : WF x -> WF y ->
  an_bisect_away fuel x y = Some (x', y') -> Narrows x x' /\ Narrows y y'.
Proof.
elim: fuel x y => [|fuel IH] x y wfx wfy //=.
have nx := refine_dir_ok wfx; have ny := refine_dir_ok wfy.
case: (an_refine_dir x) nx => [x1 d1] /= nx; case: (an_refine_dir y) ny => [y1 d2] /= ny.
have [wx1 _ _] := nx; have [wy1 _ _] := ny.
case: ifP => _; last by move=> [<- <-].
by move=> /(IH _ _ wx1 wy1) [n1 n2]; split; [exact: Narrows_trans nx n1 | exact: Narrows_trans ny n2].
Qed.

Definition gcd_ok (g : seq Z) x (y : anum) : Prop :=
  forall lx ly, af x = Some lx -> af y = Some ly -> divides_poly g lx /\ divides_poly g ly.

Lemma Narrows_af x x' l : Narrows x x' -> af x' = Some l -> af x = Some l.
Proof. by move=> [_ _ [->//|[<-]]]. Qed.

Lemma same_intervalP x (y : anum) : an_same_interval x y ->
  [/\ af x <> None, af y <> None, dyR (aa x) = dyR (aa y) & dyR (ab x) = dyR (ab y)].
Proof.
rewrite /an_same_interval !is_pointE !dyq_eqP => /andP[/andP[/andP[/eqP h1 /eqP h2] /eqP h3] /eqP h4].
by split.
Qed.

Lemma cmp_keeps fuel x (y : anum) g x' y' c : WF x -> WF y -> gcd_ok g x y ->
  an_cmp fuel x y g = Some ((x', y'), c) -> Keeps x x' /\ Keeps y y'.
Proof.
move=> wfx wfy gok; rewrite /an_cmp.
have [] := prepare_ok wfx wfy; case: (an_cmp_prepare x y) => [x1 y1] /= nx ny.
have [wx1 _ _] := nx; have [wy1 _ _] := ny.
have kx := Narrows_Keeps nx; have ky := Narrows_Keeps ny.
case S: (an_same_interval x1 y1); last by move=> [<- <- _].
have [nnx nny ea eb] := same_intervalP S.
case N: (_ <? 0)%ZZ.
  move=> [<- <- _].
  case Ex: (af x1) nnx => [lx|//] _; case Ey: (af y1) nny => [ly|//] _.
  have [dx dy] := gok _ _ (Narrows_af nx Ex) (Narrows_af ny Ey).
  split; [apply: Keeps_trans kx _ | apply: Keeps_trans ky _].
    exact: (reduce_Keeps wx1 Ex dx N).
  have ea' : psgn_dy g (aa x1) = psgn_dy g (aa y1).
    have := psgn_dyP g (aa x1); rewrite ea -psgn_dyP => /eqP; rewrite -subr_eq0 -ZR_sub ZR_eq0 => /Z.eqb_eq; lia.
  have eb' : psgn_dy g (ab x1) = psgn_dy g (ab y1).
    have := psgn_dyP g (ab x1); rewrite eb -psgn_dyP => /eqP; rewrite -subr_eq0 -ZR_sub ZR_eq0 => /Z.eqb_eq; lia.
  have -> : an_reduce y1 g (psgn_dy g (aa x1)) (psgn_dy g (ab x1)) = an_reduce y1 g (psgn_dy g (aa y1)) (psgn_dy g (ab y1)).
    by rewrite ea' eb'.
  by apply: (reduce_Keeps wy1 Ey dy); rewrite -ea' -eb'.
case B: (an_bisect_away fuel x1 y1) => [[x2 y2]|//] [<- <- _].
have [n1 n2] := bisect_ok wx1 wy1 B.
by split; [apply: Keeps_trans kx _ | apply: Keeps_trans ky _]; exact: Narrows_Keeps.
Qed.

(* ---------------------------------------------------------------- comparison of two numbers: the answer *)
Definition sep x (y : anum) : Prop := dyR (ab x) <= dyR (aa y) \/ dyR (ab y) <= dyR (aa x).

Lemma den_bounds x : WF x ->
  (af x = None /\ dyR (aa x) = den x /\ dyR (ab x) = den x) \/
  (af x <> None /\ dyR (aa x) < den x < dyR (ab x)).
Proof.
move=> wf; case E: (af x) => [l|]; first by right; split=> //; exact: WF_den_in wf E.
by left; move: wf; rewrite /WF /den E => -[<- _ _].
Qed.

Lemma dyq_cmpE (d e : dyq) :
  [/\ (dyq_cmp d e =? 0)%ZZ = (dyR d == dyR e), ZR (dyq_cmp d e) = sgr (dyR d - dyR e)
    & (dyq_cmp d e =? 0)%ZZ = false -> ZR (dyq_cmp d e) = sgr (dyR d - dyR e)].
Proof. by split; rewrite ?dyq_cmp_sgr // -ZR_eq0 dyq_cmp_sgr sgr_eq0 subr_eq0. Qed.

Lemma sgr_lt (u v : R) : u < v -> sgr (u - v) = -1.
Proof. by move=> h; rewrite ltr0_sg // subr_lt0. Qed.
Lemma sgr_gt (u v : R) : v < u -> sgr (u - v) = 1.
Proof. by move=> h; rewrite gtr0_sg // subr_gt0. Qed.

Lemma cmp_ends_ok x (y : anum) : WF x -> WF y -> sep x y -> ZR (an_cmp_ends x y) = sgr (den x - den y).
Proof.
move=> wfx wfy sp; rewrite /an_cmp_ends !is_pointE.
have [e0 ec _] := dyq_cmpE (aa x) (aa y).
have [[ex [ax bx]]|[nx /andP[ax bx]]] := den_bounds wfx; have [[ey [ay by_]]|[ny /andP[ay by_]]] := den_bounds wfy.
- (* both points *)
  by rewrite ex ey /= -ax -ay; case: ifP.
- (* x point, y interval *)
  rewrite ex /= (negbTE (introN eqP ny)) /=.
  case: sp => [le|le].
    rewrite bx in le; case: Z.eqb_spec => [_|ne]; first by rewrite (ZR_opp 1) ZR_1 sgr_lt //; exact: le_lt_trans le ay.
    rewrite ec ax; move: e0; rewrite (introF (Z.eqb_spec _ _) ne) ax => /esym/negbT ne'.
    have lt : den x < dyR (aa y) by rewrite lt_neqAle ne'.
    by rewrite !sgr_lt //; exact: lt_trans lt ay.
  rewrite ax in le; have lt : dyR (aa y) < den x by apply: lt_le_trans le; exact: lt_trans ay by_.
  have -> : (dyq_cmp (aa x) (aa y) =? 0)%ZZ = false by rewrite e0 ax gt_eqF.
  by rewrite ec ax !sgr_gt //; exact: lt_le_trans by_ le.
- (* x interval, y point *)
  rewrite ey /= (negbTE (introN eqP nx)) /=.
  case: sp => [le|le].
    rewrite ay in le; have lt : dyR (aa x) < den y by apply: lt_le_trans le; exact: lt_trans ax bx.
    have -> : (dyq_cmp (aa x) (aa y) =? 0)%ZZ = false by rewrite e0 ay lt_eqF.
    by rewrite ec ay !sgr_lt //; exact: lt_le_trans bx le.
  rewrite by_ in le; case: Z.eqb_spec => [_|ne]; first by rewrite ZR_1 sgr_gt //; exact: le_lt_trans le ax.
  rewrite ec ay; move: e0; rewrite (introF (Z.eqb_spec _ _) ne) ay => /esym/negbT ne'.
  have lt : den y < dyR (aa x) by rewrite lt_neqAle eq_sym ne'.
  by rewrite !sgr_gt //; exact: lt_trans lt ax.
- (* both intervals *)
  rewrite (negbTE (introN eqP nx)) (negbTE (introN eqP ny)) /=.
  have -> : (if (dyq_cmp (aa x) (aa y) =? 0)%ZZ then dyq_cmp (aa x) (aa y) else dyq_cmp (aa x) (aa y)) = dyq_cmp (aa x) (aa y) by case: ifP.
  rewrite ec; case: sp => [le|le].
    have h1 : dyR (aa x) < dyR (aa y) by apply: lt_le_trans le; exact: lt_trans ax bx.
    have h2 : den x < den y by apply: lt_trans bx _; exact: le_lt_trans le ay.
    by rewrite !sgr_lt.
  have h1 : dyR (aa y) < dyR (aa x) by apply: lt_le_trans le; exact: lt_trans ay by_.
  have h2 : den y < den x by apply: lt_trans by_ _; exact: le_lt_trans le ax.
  by rewrite !sgr_gt.
Qed.

Lemma narrow_shape x l d :
  [\/ (an_narrow x l d).1 = an_point d, (an_narrow x l d).1 = an_set_a x d | (an_narrow x l d).1 = an_set_b x d].
Proof.
rewrite /an_narrow; case: (_ =? 0)%ZZ; first by constructor 1.
by case: (0 <? _)%ZZ; [constructor 2 | constructor 3].
Qed.

Lemma rwp_shape x d : af x <> None ->
  (an_refine_with_point x d = x /\ ~~ (dyR (aa x) < dyR d < dyR (ab x))) \/
  (dyR (aa x) < dyR d < dyR (ab x) /\
   [\/ an_refine_with_point x d = an_point d, an_refine_with_point x d = an_set_a x d |
       an_refine_with_point x d = an_set_b x d]).
Proof.
rewrite /an_refine_with_point; case E: (af x) => [l|//] _; rewrite contains_openP.
case C: (_ < _ < _); last by left.
by right; split=> //; exact: narrow_shape.
Qed.

(* where a proper number x ends up after refine_with_point lo, then refine_with_point hi (a <= lo < hi <= b) *)
Definition zone x x1 (lo hi : R) : Prop :=
  [\/ [/\ af x1 = None, dyR (aa x1) = dyR (ab x1) & dyR (aa x1) = lo \/ dyR (aa x1) = hi],
      [/\ af x1 <> None, dyR (ab x1) <= lo & dyR (aa x) < lo],
      [/\ af x1 <> None, dyR (aa x1) = lo & dyR (ab x1) = hi] |
      [/\ af x1 <> None, hi <= dyR (aa x1) & hi < dyR (ab x)]].

Lemma prep_zone x (lo hi : dyq) : af x <> None -> dyR (aa x) <= dyR lo -> dyR lo < dyR hi -> dyR hi <= dyR (ab x) ->
  zone x (an_refine_with_point (an_refine_with_point x lo) hi) (dyR lo) (dyR hi).
Proof.
move=> nx alo lohi hib.
have second x' : af x' <> None -> dyR (aa x') = dyR lo -> dyR (ab x') = dyR (ab x) ->
    zone x (an_refine_with_point x' hi) (dyR lo) (dyR hi).
  move=> nx' ea eb; case: (rwp_shape hi nx') => [[-> nc]|[/andP[c1 c2] [] ->]].
  - constructor 3; split=> //; apply/eqP; rewrite eq_le eb hib andbT leNgt; apply/negP => lt.
    by move: nc; rewrite ea eb lohi lt.
  - by constructor 1; split=> //; right.
  - by constructor 4; split=> //=; rewrite -eb.
  - by constructor 3; split.
case: (rwp_shape lo nx) => [[-> nc]|[/andP[c1 c2] [] ->]].
- apply: second => //; apply/eqP; rewrite eq_le alo /= leNgt; apply/negP => lt.
  by move: nc; rewrite lt /=; rewrite (lt_le_trans lohi hib).
- by constructor 1; split=> //; left.
- exact: second.
- have nx' : af (an_set_b x lo) <> None by [].
  case: (rwp_shape hi nx') => [[-> _]|[/andP[_ /=]]]; first by constructor 2; split.
  by rewrite ltNge (ltW lohi).
Qed.

Lemma same_interval_intro x (y : anum) : af x <> None -> af y <> None ->
  dyR (aa x) = dyR (aa y) -> dyR (ab x) = dyR (ab y) -> an_same_interval x y.
Proof.
move=> nx ny ea eb; rewrite /an_same_interval !is_pointE !dyq_eqP ea eb !eqxx !andbT.
by apply/andP; split; apply/eqP.
Qed.

Lemma zones_sep x (y : anum) x1 y1 (lo hi : R) : zone x x1 lo hi -> zone y y1 lo hi -> lo < hi ->
  ~ (dyR (aa x) < lo /\ dyR (aa y) < lo) -> ~ (hi < dyR (ab x) /\ hi < dyR (ab y)) ->
  ~~ an_same_interval x1 y1 -> sep x1 y1.
Proof.
move=> zx zy lohi nlo nhi ns; rewrite /sep.
case: zx => [[px ex tx]|[nx1 bx ax]|[nx1 ax bx]|[nx1 ax bx]]; case: zy => [[py ey ty]|[ny1 by_ ay]|[ny1 ay by_]|[ny1 ay by_]].
- by rewrite -ex -ey; case: (leP (dyR (aa x1)) (dyR (aa y1))) => [|/ltW]; [left | right].
- by right; apply: le_trans by_ _; case: tx => ->; rewrite ?lexx // ltW.
- by case: tx => e; [left; rewrite -ex e ay | right; rewrite by_ e].
- by left; rewrite -ex; apply: le_trans _ ay; case: tx => ->; rewrite ?lexx // ltW.
- by left; apply: le_trans bx _; case: ty => ->; rewrite ?lexx // ltW.
- by case: nlo.
- by left; rewrite ay.
- by left; apply: le_trans bx _; apply: le_trans (ltW lohi) ay.
- by case: ty => e; [right; rewrite -ey e ax | left; rewrite bx e].
- by right; rewrite ax.
- by move: ns; rewrite (same_interval_intro nx1 ny1) // ?ax ?ay ?bx ?by_.
- by left; rewrite bx.
- by right; rewrite -ey; apply: le_trans _ ax; case: ty => ->; rewrite ?lexx // ltW.
- by right; apply: le_trans by_ _; apply: le_trans (ltW lohi) ax.
- by right; rewrite by_.
- by case: nhi.
Qed.

Lemma WF_point x : WF x -> af x = None -> aa x = ab x.
Proof. by rewrite /WF => + E; rewrite E => -[]. Qed.

Lemma rwp_point x d : af x = None -> an_refine_with_point x d = x.
Proof. by rewrite /an_refine_with_point => ->. Qed.

Lemma prepare_sep x (y : anum) : WF x -> WF y ->
  ~~ an_same_interval (an_cmp_prepare x y).1 (an_cmp_prepare x y).2 ->
  sep (an_cmp_prepare x y).1 (an_cmp_prepare x y).2.
Proof.
move=> wfx wfy; rewrite /an_cmp_prepare /an_disjoint /an_intersection /an_contains !is_pointE.
case Ex: (af x) => [lx|] /=; case Ey: (af y) => [ly|] /=.
- (* two proper numbers *)
  have ltx := WF_lt wfx Ex; have lty := WF_lt wfy Ey.
  rewrite !dyq_leP; case D: (_ || _) => /=; first by move=> _; case/orP: D => D; [left | right].
  move: D => /norP[]; rewrite -!ltNge => ayb axb.
  have nx : af x <> None by rewrite Ex.
  have ny : af y <> None by rewrite Ey.
  have lohi : dyR (dyq_max (aa x) (aa y)) < dyR (dyq_min (ab x) (ab y)).
    by rewrite dyq_maxP dyq_minP lt_maxl !lt_minr ltx ayb axb lty.
  move=> ns.
  have zx : zone x (an_refine_with_point (an_refine_with_point x (dyq_max (aa x) (aa y))) (dyq_min (ab x) (ab y)))
                 (dyR (dyq_max (aa x) (aa y))) (dyR (dyq_min (ab x) (ab y))).
    by apply: prep_zone => //; rewrite ?dyq_maxP ?dyq_minP ?le_maxr ?le_minl ?lexx.
  have zy : zone y (an_refine_with_point (an_refine_with_point y (dyq_max (aa x) (aa y))) (dyq_min (ab x) (ab y)))
                 (dyR (dyq_max (aa x) (aa y))) (dyR (dyq_min (ab x) (ab y))).
    by apply: prep_zone => //; rewrite ?dyq_maxP ?dyq_minP ?le_maxr ?le_minl ?lexx ?orbT.
  apply: (zones_sep zx zy lohi) => //.
  + rewrite dyq_maxP !lt_maxr !ltxx /= orbF => -[h1 h2].
    by move: (lt_asym (dyR (aa x)) (dyR (aa y))); rewrite h1 h2.
  + rewrite dyq_minP !lt_minl !ltxx /= orbF => -[h1 h2].
    by move: (lt_asym (dyR (ab x)) (dyR (ab y))); rewrite h1 h2.
- (* x proper, y a point *)
  have eb := WF_point wfy Ey; rewrite contains_openP.
  case C: (_ < _ < _) => /=.
    have nx : af x <> None by rewrite Ex.
    move=> _; rewrite (rwp_point _ Ey).
    case: (rwp_shape (aa y) nx) => [[_]|[_ [] ->]]; rewrite ?C // /sep /= -?eb; by [left | right].
  move=> _; rewrite /sep -eb; move: C => /negbT; rewrite negb_and -!leNgt => /orP[h|h]; by [right | left].
- (* x a point, y proper *)
  have eb := WF_point wfx Ex; rewrite contains_openP.
  case C: (_ < _ < _) => /=.
    have ny : af y <> None by rewrite Ey.
    move=> _; rewrite (rwp_point _ Ex).
    case: (rwp_shape (aa x) ny) => [[_]|[_ [] ->]]; rewrite ?C // /sep /= -?eb; by [left | right].
  move=> _; rewrite /sep -eb; move: C => /negbT; rewrite negb_and -!leNgt => /orP[h|h]; by [left | right].
- (* two points *)
  have ebx := WF_point wfx Ex; have eby := WF_point wfy Ey.
  have sp : sep x y by rewrite /sep -ebx -eby; case: (leP (dyR (aa x)) (dyR (aa y))) => [|/ltW]; [left | right].
  by case: ifP => _ _ //; rewrite (rwp_point _ Ex) (rwp_point _ Ey).
Qed.

Lemma refine_dir_shape x l : af x = Some l ->
  let m := dyq_mid (aa x) (ab x) in
  [\/ an_refine_dir x = (an_point m, 0%ZZ), an_refine_dir x = (an_set_a x m, 1%ZZ) |
      an_refine_dir x = (an_set_b x m, (-1)%ZZ)].
Proof.
move=> E /=; rewrite /an_refine_dir E /an_narrow; case: (_ =? 0)%ZZ; first by constructor 1.
by case: (0 <? _)%ZZ; [constructor 2 | constructor 3].
Qed.

Lemma bisect_sep fuel x (y : anum) x' y' : an_same_interval x y ->
  an_bisect_away fuel x y = Some (x', y') -> sep x' y'.
Proof.
elim: fuel x y => [|fuel IH] x y //= S.
have [nx ny ea eb] := same_intervalP S.
case Ex: (af x) nx => [lx|//] _; case Ey: (af y) ny => [ly|//] _.
have em : dyR (dyq_mid (aa x) (ab x)) = dyR (dyq_mid (aa y) (ab y)) by rewrite !dyq_midP ea eb.
have nx' d : af (an_set_a x d) <> None /\ af (an_set_b x d) <> None by rewrite /= Ex.
have ny' d : af (an_set_a y d) <> None /\ af (an_set_b y d) <> None by rewrite /= Ey.
case: (refine_dir_shape Ex) => ->; case: (refine_dir_shape Ey) => -> /=.
- by move=> [<- <-]; left; rewrite /= em.
- by move=> [<- <-]; left; rewrite /= em.
- by move=> [<- <-]; right; rewrite /= em.
- by move=> [<- <-]; right; rewrite /= em.
- by apply: IH; apply: same_interval_intro => //=; [case: (nx' (dyq_mid (aa x) (ab x))) | case: (ny' (dyq_mid (aa y) (ab y)))].
- by move=> [<- <-]; right; rewrite /= em.
- by move=> [<- <-]; left; rewrite /= em.
- by move=> [<- <-]; left; rewrite /= em.
- by apply: IH; apply: same_interval_intro => //=; [case: (nx' (dyq_mid (aa x) (ab x))) | case: (ny' (dyq_mid (aa y) (ab y)))].
Qed.

Theorem cmp_ok fuel x (y : anum) g x' y' c : WF x -> WF y -> gcd_ok g x y ->
  an_cmp fuel x y g = Some ((x', y'), c) -> ZR c = sgr (den x - den y).
Proof.
move=> wfx wfy gok E.
have [[wx' dx _ _] [wy' dy _ _]] := cmp_keeps wfx wfy gok E.
move: E; rewrite /an_cmp.
have [] := prepare_ok wfx wfy; have := prepare_sep wfx wfy.
case: (an_cmp_prepare x y) => [x1 y1] /= psep nx ny.
have [wx1 dx1 _] := nx; have [wy1 dy1 _] := ny.
case S: (an_same_interval x1 y1); last first.
  by move=> [_ _ <-]; rewrite (cmp_ends_ok wx1 wy1) ?dx1 ?dy1 //; apply: psep; rewrite S.
have [nnx nny ea eb] := same_intervalP S.
case N: (_ <? 0)%ZZ.
  move=> [_ _ <-]; rewrite ZR_0.
  case Ex: (af x1) nnx => [lx|//] _; case Ey: (af y1) nny => [ly|//] _.
  have [dvx dvy] := gok _ _ (Narrows_af nx Ex) (Narrows_af ny Ey).
  have sg := ZR_mul_lt0 (psgn_dyP g (aa x1)) (psgn_dyP g (ab x1)) N.
  have Egx := reduce_roots (WF_roots wx1 Ex) (fun t => divides_root dvx (t:=t)) sg.
  have Egy : roots (pR g) (dyR (aa x1)) (dyR (ab x1)) = [:: den y1].
    by rewrite ea eb; apply: (reduce_roots (WF_roots wy1 Ey) (fun t => divides_root dvy (t:=t))); rewrite -ea -eb.
  have : [:: den x1] = [:: den y1] by rewrite -Egx -Egy.
  by rewrite -dx1 -dy1 => -[->]; rewrite subrr sgr0.
case B: (an_bisect_away fuel x1 y1) => [[x2 y2]|//] [_ _ <-].
have [n1 n2] := bisect_ok wx1 wy1 B.
have [wx2 dx2 _] := n1; have [wy2 dy2 _] := n2.
by rewrite (cmp_ends_ok wx2 wy2) ?dx2 ?dy2 ?dx1 ?dy1 //; exact: bisect_sep S B.
Qed.

(* ---------------------------------------------------------------- the pool *)
Lemma nth_set_same (l : list (option anum)) i v : (i < List.length l)%N -> List.nth i (Refine.set_nth l i v) None = v.
Proof. by elim: l i => [|h t IH] [|i] //=; exact: IH. Qed.
Lemma nth_set_other (l : list (option anum)) i k v : k <> i -> List.nth k (Refine.set_nth l i v) None = List.nth k l None.
Proof.
elim: l i k => [|h t IH] [|i] [|k] //= ne.
by apply: IH => e; apply: ne; rewrite e.
Qed.
Lemma nth_Some_lt (l : list (option anum)) i v : List.nth i l None = Some v -> (i < List.length l)%N.
Proof. by elim: l i => [|h t IH] [|i] //=; exact: IH. Qed.
Lemma length_set (l : list (option anum)) i v : List.length (Refine.set_nth l i v) = List.length l.
Proof. by elim: l i => [|h t IH] [|i] //=; rewrite IH. Qed.

Lemma get_put_same s i v w : get s i = Some w -> get (put s i v) i = v.
Proof. by move=> /nth_Some_lt; exact: nth_set_same. Qed.
Lemma get_put_other s i k v : k <> i -> get (put s i v) k = get s k.
Proof. exact: nth_set_other. Qed.

Definition dens (s : state) (i : nat) : option R := omap den (get s i).

Definition SavedOK (s : state) : Prop :=
  forall i A B x, List.In (i, Some (A, B)) (saved s) -> get s i = Some x -> af x <> None ->
    WF (an_set_I x A B) /\ den (an_set_I x A B) = den x.

Definition Inv (s : state) : Prop := (forall i x, get s i = Some x -> WF x) /\ SavedOK s.

Definition op_ok (s : state) (o : op) : Prop :=
  match o with
  | OCmp i j g => forall x y, get s i = Some x -> get s j = Some y -> gcd_ok g x y
  | OCmpQ _ q => (0 < q.2)%ZZ
  | _ => Logic.True
  end.

Lemma eq_natP (i k : nat) : reflect (i = k) (Nat.eqb i k).
Proof. exact: Nat.eqb_spec. Qed.

Lemma Inv_put s i x x' : Inv s -> get s i = Some x -> Keeps x x' ->
  Inv (put s i (Some x')) /\ (forall k, dens (put s i (Some x')) k = dens s k).
Proof.
move=> [wfs sv] gi [wf' dd nn kk]; split; first split.
- move=> k z; have [->|ne] := eqVneq k i; first by rewrite (get_put_same _ gi) => -[<-].
  by rewrite get_put_other; [exact: wfs | exact/eqP].
- move=> k A B z /= hin; have [e|ne] := eqVneq k i.
    rewrite e (get_put_same _ gi) => -[<-] nz; rewrite e in hin.
    have nx : af x <> None by move=> /nn.
    by have [w d] := sv _ _ _ _ hin gi nx; apply: kk.
  by rewrite get_put_other; [exact: sv | exact/eqP].
- move=> k; rewrite /dens; have [->|ne] := eqVneq k i; first by rewrite (get_put_same _ gi) gi /= dd.
  by rewrite get_put_other //; exact/eqP.
Qed.

Lemma has_savedF s i c : has_saved s i = false -> ~ List.In (i, c) (saved s).
Proof.
rewrite /has_saved; elim: (saved s) => [|e t IH] /=; first by move=> _ [].
move=> /negbT /norP[ne /negbTE nt] [ee|]; last exact: IH.
by move: ne; rewrite ee /= Nat.eqb_refl.
Qed.

Lemma take_savedP (l : list (nat * option (dyq * dyq))) i c rest : take_saved l i = Some (c, rest) ->
  List.In (i, c) l /\ (forall w, List.In w rest -> List.In w l).
Proof.
elim: l rest => [|[k ck] t IH] rest //=.
case: eq_natP => [->|ne].
  by move=> [<- <-]; split; [left | move=> e; right].
case T: (take_saved t i) => [[c' t']|//] [ec et]; rewrite ec in T; have [h1 h2] := IH _ T.
split; first by right.
by rewrite -et => e [<-|/h2]; [left | right].
Qed.

Lemma set_I_id x : an_set_I x (aa x) (ab x) = x.
Proof. by case: x. Qed.

(* ---------------------------------------------------------------- one step *)
Theorem step_ok fuel s o s' (ob : obs) : Inv s -> op_ok s o -> step fuel s o = Some (s', ob) ->
  Inv s' /\ (forall k, ~~ assigns o k -> dens s' k = dens s k).
Proof.
move=> inv; have [wfs sv] := inv; case: o => /=.
- (* ORefine *)
  move=> i _; case G: (get s i) => [x|//] [<- _].
  have [? h] := Inv_put inv G (Narrows_Keeps (refine_ok (wfs _ _ G))); split=> // k _; exact: h.
- (* ORefinePt *)
  move=> i q _; case G: (get s i) => [x|//] [<- _].
  have [? h] := Inv_put inv G (Narrows_Keeps (refine_with_point_ok q (wfs _ _ G))); split=> // k _; exact: h.
- (* OCmpQ *)
  move=> i q q0; case G: (get s i) => [x|//]; case C: (an_cmp_q fuel x q) => [[x' c]|//] [<- _].
  have [nr _] := cmp_q_ok (wfs _ _ G) q0 C.
  have [? h] := Inv_put inv G (Narrows_Keeps nr); split=> // k _; exact: h.
- (* OSgn *)
  move=> i _; case G: (get s i) => [x|//]; case C: (an_cmp_q fuel x (0%ZZ, 1%ZZ)) => [[x' c]|//] [<- _].
  have q0 : (0 < (0%ZZ, 1%ZZ).2)%ZZ by [].
  have [nr _] := cmp_q_ok (wfs _ _ G) q0 C.
  have [? h] := Inv_put inv G (Narrows_Keeps nr); split=> // k _; exact: h.
- (* OCmp *)
  move=> i j g gok; case: eq_natP => [//|ne].
  case Gi: (get s i) => [x|//]; case Gj: (get s j) => [y|//].
  case C: (an_cmp fuel x y g) => [[[x' y'] c]|//] [<- _].
  have [kx ky] := cmp_keeps (wfs _ _ Gi) (wfs _ _ Gj) (gok _ _ Gi Gj) C.
  have [inv1 h1] := Inv_put inv Gi kx.
  have Gj1 : get (put s i (Some x')) j = Some y by rewrite get_put_other // => e; apply: ne.
  have [inv2 h2] := Inv_put inv1 Gj1 ky.
  by split=> // k _; rewrite h2 h1.
- (* OFloor *)
  by move=> i _; case G: (get s i) => [x|//] [<- _].
- (* OCopy *)
  move=> i j _; case H: (has_saved s j || _) => //; move: H => /norP[/negbTE hs /negPn /Nat.ltb_lt jlt].
  case G: (get s i) => [x|//] [<- _].
  have gsame : get (put s j (Some x)) j = Some x by apply: nth_set_same; apply/ssrnat.ltP.
  split; first split.
  + move=> k z; have [->|nk] := eqVneq k j; first by rewrite gsame => -[<-]; exact: wfs G.
    by rewrite get_put_other; [exact: wfs | exact/eqP].
  + move=> k A B z /= hin; have [e|nk] := eqVneq k j; first by rewrite e in hin; case: (has_savedF hs hin).
    by rewrite get_put_other; [exact: sv | exact/eqP].
  + move=> k; case: eq_natP => // nk _; rewrite /dens get_put_other // => e; exact: nk.
- (* ODestroy *)
  move=> i _; case hs: (has_saved s i) => //; case G: (get s i) => [x|//] [<- _].
  split; first split.
  + move=> k z; have [->|nk] := eqVneq k i; first by rewrite (get_put_same _ G).
    by rewrite get_put_other; [exact: wfs | exact/eqP].
  + move=> k A B z /= hin; have [e|nk] := eqVneq k i; first by rewrite e in hin; case: (has_savedF hs hin).
    by rewrite get_put_other; [exact: sv | exact/eqP].
  + move=> k; case: eq_natP => // nk _; rewrite /dens get_put_other // => e; exact: nk.
- (* ORemember *)
  move=> i _; case G: (get s i) => [x|//] [<- _]; split=> //; split=> //.
  move=> k A B z /= [[<-]|hin]; last exact: sv hin.
  rewrite /an_remember; case: (an_is_rational x) => // -[<- <-] Gz _.
  have : get s i = Some z by []. rewrite G => -[<-].
  by rewrite set_I_id; split=> //; exact: wfs G.
- (* ORestore *)
  move=> i _; case G: (get s i) => [x|//]; case T: (take_saved (saved s) i) => [[c rest]|//] [<- _].
  have [hin hsub] := take_savedP T.
  have kr : Keeps x (an_restore x c) /\ (forall A B, af (an_restore x c) <> None ->
              an_set_I (an_restore x c) A B = an_set_I x A B).
    rewrite /an_restore; case: c hin {T} => [[A B]|] hin; last by split=> //; exact: Keeps_refl (wfs _ _ G).
    rewrite is_pointE; case E: (af x) => [l|] /=; last by split=> //; exact: Keeps_refl (wfs _ _ G).
    have nx : af x <> None by rewrite E.
    have [w d] := sv _ _ _ _ hin G nx.
    split=> //; split=> //.
    by move=> A' B' w' d' _; split=> //; rewrite d -d'.
  have [[wf' dd nn kk] same] := kr.
  have gsame : get (mkState (Refine.set_nth (pool s) i (Some (an_restore x c))) rest) i = Some (an_restore x c).
    exact: (get_put_same _ G).
  have gother k : k <> i -> get (mkState (Refine.set_nth (pool s) i (Some (an_restore x c))) rest) k = get s k.
    by move=> nk; exact: nth_set_other.
  split; first split.
  + move=> k z; have [->|nk] := eqVneq k i; first by rewrite gsame => -[<-].
    by rewrite gother; [exact: wfs | exact/eqP].
  + move=> k A B z /= /hsub hin'; have [e|nk] := eqVneq k i.
      rewrite e gsame => -[<-] nz; rewrite e in hin'.
      have nx : af x <> None by move=> /nn.
      by have [w d] := sv _ _ _ _ hin' G nx; rewrite same // dd.
    by rewrite gother; [exact: sv | exact/eqP].
  + move=> k _; rewrite /dens; have [->|nk] := eqVneq k i; first by rewrite gsame G /= dd.
    by rewrite gother //; exact/eqP.
Qed.

(* ---------------------------------------------------------------- all histories *)
Fixpoint hist_ok (fuel : nat) (s : state) (ops : list op) : Prop :=
  match ops with
  | nil => Logic.True
  | o :: rest => op_ok s o /\ (forall s' ob, step fuel s o = Some (s', ob) -> hist_ok fuel s' rest)
  end.

Definition assigned_in (ops : list op) (k : nat) : bool := List.existsb (fun o => assigns o k) ops.

Theorem run_ok fuel ops s s' (obl : list obs) : Inv s -> hist_ok fuel s ops -> run fuel s ops = Some (s', obl) ->
  Inv s' /\ (forall k, ~~ assigned_in ops k -> dens s' k = dens s k).
Proof.
elim: ops s s' obl => [|o ops IH] s s' obl inv /=; first by move=> _ [<- _].
move=> [ok hk]; case S: (step fuel s o) => [[s1 ob]|//].
case Rn: (run fuel s1 ops) => [[s2 obl2]|//] [<- _].
have [inv1 d1] := step_ok inv ok S.
have [inv2 d2] := IH _ _ _ inv1 (hk _ _ S) Rn.
by split=> // k /norP[na nb]; rewrite d2 // d1.
Qed.

(* ---------------------------------------------------------------- observations are functions of the denotations *)
Definition obs_spec (dn : nat -> option R) (o : op) (ob : obs) : Prop :=
  match o, ob with
  | OCmpQ i q, OInt c => exists2 v, dn i = Some v & ZR c = sgr (v - qR q)
  | OSgn i, OInt c => exists2 v, dn i = Some v & ZR c = sgr v
  | OFloor i, OInt z => exists2 v, dn i = Some v & ZR z <= v < ZR z + 1
  | OCmp i j _, OInt c => exists v w, [/\ dn i = Some v, dn j = Some w & ZR c = sgr (v - w)]
  | ORefine _, ONone | ORefinePt _ _, ONone | OCopy _ _, ONone | ODestroy _, ONone
  | ORemember _, ONone | ORestore _, ONone => Logic.True
  | _, _ => Logic.False
  end.

Definition is_cmp (o : op) : bool := match o with OCmp _ _ _ => true | _ => false end.

Lemma step_obs_nocmp fuel s o s' (ob : obs) : Inv s -> op_ok s o -> ~~ is_cmp o ->
  step fuel s o = Some (s', ob) -> obs_spec (dens s) o ob.
Proof.
move=> [wfs _]; case: o => //=.
- by move=> i _ _; case: (get s i) => [x|//] [_ <-].
- by move=> i q _ _; case: (get s i) => [x|//] [_ <-].
- move=> i q q0 _; case G: (get s i) => [x|//]; case C: (an_cmp_q fuel x q) => [[x' c]|//] [_ <-].
  by have [_ h] := cmp_q_ok (wfs _ _ G) q0 C; exists (den x) => //; rewrite /dens G.
- move=> i _ _; case G: (get s i) => [x|//]; case C: (an_cmp_q fuel x (0%ZZ, 1%ZZ)) => [[x' c]|//] [_ <-].
  have q0 : (0 < (0%ZZ, 1%ZZ).2)%ZZ by [].
  have [_ h] := cmp_q_ok (wfs _ _ G) q0 C; exists (den x); first by rewrite /dens G.
  by rewrite h /qR /= ZR_0 mul0r subr0.
- move=> i _ _; case G: (get s i) => [x|//] [_ <-].
  by exists (den x); [rewrite /dens G | exact: floor_ok (wfs _ _ G)].
- by move=> i j _ _; case: (_ || _) => //; case: (get s i) => [x|//] [_ <-].
- by move=> i _ _; case: (has_saved s i) => //; case: (get s i) => [x|//] [_ <-].
- by move=> i _ _; case: (get s i) => [x|//] [_ <-].
- by move=> i _ _; case: (get s i) => [x|//]; case: (take_saved _ _) => [[c rest]|//] [_ <-].
Qed.

Lemma ZR_inj (u v : Z) : ZR u = ZR v -> u = v.
Proof. by move=> /eqP; rewrite ZR_eq => /Z.eqb_eq. Qed.

Lemma floor_unique (u v : Z) (t : R) : ZR u <= t < ZR u + 1 -> ZR v <= t < ZR v + 1 -> u = v.
Proof.
move=> /andP[a1 a2] /andP[b1 b2].
have h1 : ZR u < ZR (v + 1)%ZZ by rewrite ZR_add ZR_1; exact: le_lt_trans a1 b2.
have h2 : ZR v < ZR (u + 1)%ZZ by rewrite ZR_add ZR_1; exact: le_lt_trans b1 a2.
by move: h1 h2; rewrite !ZR_lt => /Z.ltb_lt h1 /Z.ltb_lt h2; lia.
Qed.

(* the slots an operation reads *)
Definition reads (o : op) (k : nat) : bool :=
  match o with
  | OCmpQ i _ | OSgn i | OFloor i => Nat.eqb i k
  | OCmp i j _ => Nat.eqb i k || Nat.eqb j k
  | _ => false
  end.
(* the same query (the gcd oracle of a comparison is not part of the question) *)
Definition same_query (o o' : op) : Prop :=
  match o, o' with
  | OCmp i j _, OCmp i' j' _ => i = i' /\ j = j'
  | _, _ => o = o'
  end.

Lemma obs_spec_functional (dn dn' : nat -> option R) o o' (ob ob' : obs) : same_query o o' ->
  (forall k, reads o k -> dn' k = dn k) ->
  obs_spec dn o ob -> obs_spec dn' o' ob' -> ob = ob'.
Proof.
have triv : (match ob with ONone => Logic.True | OInt _ => Logic.False end) ->
            (match ob' with ONone => Logic.True | OInt _ => Logic.False end) -> ob = ob'.
  by case: ob => //; case: ob'.
case: o => [i|i q|i q|i|i j g|i|i j|i|i|i]; case: o' => [i'|i' q'|i' q'|i'|i' j' g'|i'|i' j'|i'|i'|i'] //=; try (by move=> _ _; exact: triv).
all: clear triv.
- move=> [<- <-] ag; case: ob => // c; case: ob' => // c' [v e1 e2] [v' e1' e2'].
  have := ag i; rewrite Nat.eqb_refl e1 e1' => /(_ isT) [ev]; rewrite ev in e2'.
  by congr OInt; apply: ZR_inj; rewrite e2 e2'.
- move=> [<-] ag; case: ob => // c; case: ob' => // c' [v e1 e2] [v' e1' e2'].
  have := ag i; rewrite Nat.eqb_refl e1 e1' => /(_ isT) [ev]; rewrite ev in e2'.
  by congr OInt; apply: ZR_inj; rewrite e2 e2'.
- move=> [<- <-] ag; case: ob => // c; case: ob' => // c' [v [w [e1 e2 e3]]] [v' [w' [e1' e2' e3']]].
  have := ag i; rewrite Nat.eqb_refl e1 e1' => /(_ isT) [ev].
  have := ag j; rewrite Nat.eqb_refl orbT e2 e2' => /(_ isT) [ew]; rewrite ev ew in e3'.
  by congr OInt; apply: ZR_inj; rewrite e3 e3'.
- move=> [<-] ag; case: ob => // c; case: ob' => // c' [v e1 e2] [v' e1' e2'].
  have := ag i; rewrite Nat.eqb_refl e1 e1' => /(_ isT) [ev]; rewrite ev in e2'.
  by congr OInt; exact: floor_unique e2 e2'.
Qed.

Lemma reads_not_assign o k k' : reads o k -> assigns o k' = false.
Proof. by case: o. Qed.

Lemma same_query_cmp o o' : same_query o o' -> is_cmp o' = is_cmp o.
Proof. by case: o => [i|i q|i q|i|i j g|i|i j|i|i|i]; case: o' => //= *; try discriminate. Qed.

(* the generic stability argument; step_obs is the correctness of single observations *)
Lemma obs_stable_gen (P : op -> bool) fuel s o o' mid s1 (ob1 : obs) s2 (obl : list obs) s3 (ob2 : obs) :
  (forall fuel s o s' (ob : obs), Inv s -> op_ok s o -> P o -> step fuel s o = Some (s', ob) -> obs_spec (dens s) o ob) ->
  P o -> P o' ->
  Inv s -> same_query o o' ->
  op_ok s o -> step fuel s o = Some (s1, ob1) ->
  hist_ok fuel s1 mid -> run fuel s1 mid = Some (s2, obl) ->
  op_ok s2 o' -> step fuel s2 o' = Some (s3, ob2) ->
  (forall k, reads o k -> ~~ assigned_in mid k) ->
  ob1 = ob2.
Proof.
move=> sobs Po Po' inv sq ok1 S1 hk Rn ok2 S2 na.
have sp1 := sobs _ _ _ _ _ inv ok1 Po S1.
have [inv1 d1] := step_ok inv ok1 S1.
have [inv2 d2] := run_ok inv1 hk Rn.
have sp2 := sobs _ _ _ _ _ inv2 ok2 Po' S2.
apply: (obs_spec_functional sq _ sp1 sp2) => k rk.
by rewrite d2 ?na // d1 // (reads_not_assign _ rk).
Qed.

Theorem obs_stable_nocmp fuel s o o' mid s1 (ob1 : obs) s2 (obl : list obs) s3 (ob2 : obs) :
  Inv s -> same_query o o' -> ~~ is_cmp o ->
  op_ok s o -> step fuel s o = Some (s1, ob1) ->
  hist_ok fuel s1 mid -> run fuel s1 mid = Some (s2, obl) ->
  op_ok s2 o' -> step fuel s2 o' = Some (s3, ob2) ->
  (forall k, reads o k -> ~~ assigned_in mid k) ->
  ob1 = ob2.
Proof.
move=> inv sq nc; apply: (@obs_stable_gen (fun o => ~~ is_cmp o)) => //.
  by move=> f0 s0 o0 s0' ob0 i0 k0 n0 S0; exact: (step_obs_nocmp i0 k0 n0 S0).
by rewrite (same_query_cmp sq).
Qed.

Theorem step_obs fuel s o s' (ob : obs) : Inv s -> op_ok s o ->
  step fuel s o = Some (s', ob) -> obs_spec (dens s) o ob.
Proof.
move=> inv ok; case C: (is_cmp o); last by apply: step_obs_nocmp => //; rewrite C.
have [wfs _] := inv; case: o ok C => //= i j g gok _.
case: eq_natP => [//|ne]; case Gi: (get s i) => [x|//]; case Gj: (get s j) => [y|//].
case E: (an_cmp fuel x y g) => [[[x' y'] c]|//] [_ <-].
exists (den x), (den y); split; rewrite /dens ?Gi ?Gj //.
exact: cmp_ok (wfs _ _ Gi) (wfs _ _ Gj) (gok _ _ Gi Gj) E.
Qed.

Theorem obs_stable fuel s o o' mid s1 (ob1 : obs) s2 (obl : list obs) s3 (ob2 : obs) :
  Inv s -> same_query o o' ->
  op_ok s o -> step fuel s o = Some (s1, ob1) ->
  hist_ok fuel s1 mid -> run fuel s1 mid = Some (s2, obl) ->
  op_ok s2 o' -> step fuel s2 o' = Some (s3, ob2) ->
  (forall k, reads o k -> ~~ assigned_in mid k) ->
  ob1 = ob2.
Proof.
move=> inv sq; apply: (@obs_stable_gen (fun _ => true)) => //.
by move=> f0 s0 o0 s0' ob0 i0 k0 _ S0; exact: (step_obs i0 k0 S0).
Qed.

(* wrappers in the exact form of Properties_C09.v *)
Lemma refine_keeps x : WF x -> WF (an_refine x) /\ den (an_refine x) = den x.
Proof. by move=> wf; have [? ? _] := refine_ok wf. Qed.
Lemma refine_with_point_keeps x d : WF x ->
  WF (an_refine_with_point x d) /\ den (an_refine_with_point x d) = den x.
Proof. by move=> wf; have [? ? _] := refine_with_point_ok d wf. Qed.
Lemma cmp_rational_ok fuel x (q : Z * Z) x' c : WF x -> (0 < q.2)%ZZ -> an_cmp_q fuel x q = Some (x', c) ->
  [/\ WF x', den x' = den x & ZR c = sgr (den x - qR q)].
Proof. by move=> wf q0 E; have [[? ? _] ?] := cmp_q_ok wf q0 E. Qed.
Lemma cmp_two_ok fuel x (y : anum) g x' y' c : WF x -> WF y -> gcd_ok g x y ->
  an_cmp fuel x y g = Some ((x', y'), c) ->
  [/\ WF x', den x' = den x, WF y', den y' = den y & ZR c = sgr (den x - den y)].
Proof.
move=> wx wy gk E; have [[? ? _ _] [? ? _ _]] := cmp_keeps wx wy gk E.
by split=> //; exact: cmp_ok E.
Qed.

(* ---------------------------------------------------------------- copies stay equal to the original *)
Theorem copy_stays_equal fuel s i j s1 (ob : obs) ops s2 (obl : list obs) :
  Inv s -> step fuel s (OCopy i j) = Some (s1, ob) ->
  hist_ok fuel s1 ops -> run fuel s1 ops = Some (s2, obl) ->
  ~~ assigned_in ops i -> ~~ assigned_in ops j ->
  exists v, [/\ dens s i = Some v, dens s2 i = Some v & dens s2 j = Some v].
Proof.
move=> inv S hk Rn ni nj.
have [inv1 d1] := step_ok inv (I : op_ok s (OCopy i j)) S.
have [inv2 d2] := run_ok inv1 hk Rn.
move: S => /=; case H: (_ || _) => //; move: H => /norP[_ /negPn /Nat.ltb_lt jlt].
case G: (get s i) => [x|//] [e _]; exists (den x).
have gj : get s1 j = Some x by rewrite -e; apply: nth_set_same; apply/ssrnat.ltP.
have gi : get s1 i = Some x.
  have [ij|/eqP ne] := eqVneq i j; first by rewrite ij.
  by rewrite -e get_put_other.
by split; rewrite ?d2 // /dens ?G ?gi ?gj.
Qed.

(* ---------------------------------------------------------------- remember ... restore *)
Definition is_query (o : op) : bool :=
  match o with
  | ORefine _ | ORefinePt _ _ | OCmpQ _ _ | OSgn _ | OCmp _ _ _ | OFloor _ => true
  | _ => false
  end.

Lemma run_app fuel ops1 ops2 s : run fuel s (ops1 ++ ops2) =
  match run fuel s ops1 with
  | Some (s1, o1) => match run fuel s1 ops2 with Some (s2, o2) => Some (s2, o1 ++ o2) | None => None end
  | None => None
  end.
Proof.
elim: ops1 s => [|o ops1 IH] s /=; first by case: (run fuel s ops2) => [[]|].
case: (step fuel s o) => [[s1 ob]|//]; rewrite IH.
case: (run fuel s1 ops1) => [[s2 o1]|//]; by case: (run fuel s2 ops2) => [[]|].
Qed.

Lemma query_saved fuel s o s' (ob : obs) : is_query o -> step fuel s o = Some (s', ob) -> saved s' = saved s.
Proof.
case: o => //=.
- by move=> i _; case: (get s i) => [x|//] [<- _].
- by move=> i q _; case: (get s i) => [x|//] [<- _].
- by move=> i q _; case: (get s i) => [x|//]; case: (an_cmp_q _ _ _) => [[x' c]|//] [<- _].
- by move=> i _; case: (get s i) => [x|//]; case: (an_cmp_q _ _ _) => [[x' c]|//] [<- _].
- move=> i j g _; case: (Nat.eqb i j) => //; case: (get s i) => [x|//]; case: (get s j) => [y|//].
  by case: (an_cmp _ _ _ _) => [[[x' y'] c]|//] [<- _].
- by move=> i _; case: (get s i) => [x|//] [<- _].
Qed.

Lemma queries_saved fuel ops s s' (obl : list obs) : List.forallb is_query ops ->
  run fuel s ops = Some (s', obl) -> saved s' = saved s.
Proof.
elim: ops s s' obl => [|o ops IH] s s' obl /=; first by move=> _ [<- _].
move=> /andP[q qs]; case S: (step fuel s o) => [[s1 ob]|//].
case Rn: (run fuel s1 ops) => [[s2 obl2]|//] [<- _].
by rewrite (IH _ _ _ qs Rn) (query_saved q S).
Qed.

Lemma query_not_assign o k : is_query o -> assigns o k = false.
Proof. by case: o. Qed.
Lemma queries_not_assign ops k : List.forallb is_query ops -> assigned_in ops k = false.
Proof. by elim: ops => [|o ops IH] //= /andP[q /IH ->]; rewrite (query_not_assign _ q). Qed.

Theorem restore_ok fuel s i x mid s' (obl : list obs) :
  Inv s -> get s i = Some x -> List.forallb is_query mid ->
  hist_ok fuel s (ORemember i :: mid ++ [:: ORestore i]) ->
  run fuel s (ORemember i :: mid ++ [:: ORestore i]) = Some (s', obl) ->
  exists x', [/\ get s' i = Some x', WF x', den x' = den x, saved s' = saved s &
                 an_is_rational x = false -> af x' <> None -> aa x' = aa x /\ ab x' = ab x].
Proof.
move=> inv G qs hk Rn.
have [inv' dd] := run_ok inv hk Rn.
have na : ~~ assigned_in (ORemember i :: mid ++ [:: ORestore i]) i.
  rewrite /assigned_in /= List.existsb_app /= !orbF; apply/negP => h.
  by have := queries_not_assign i qs; rewrite /assigned_in h.
have di := dd _ na.
move: Rn => /=; rewrite G run_app.
set s0 := mkState _ _.
case R1: (run fuel s0 mid) => [[s1 o1]|//] /=.
have sv1 : saved s1 = (i, an_remember x) :: saved s by rewrite (queries_saved qs R1).
case G1: (get s1 i) => [x1|//]; rewrite sv1 /= Nat.eqb_refl => -[es _].
exists (an_restore x1 (an_remember x)).
have gs : get s' i = Some (an_restore x1 (an_remember x)) by rewrite -es; exact: (get_put_same _ G1).
have [wfs' _] := inv'.
split=> //; first exact: wfs' gs.
- by move: di; rewrite /dens gs G /= => -[].
- by rewrite -es.
- rewrite /an_remember => -> /=; rewrite /an_is_point.
  by case E1: (af x1) => [l1|] //=; rewrite E1.
Qed.

(* ---------------------------------------------------------------- concrete numbers: square roots (for the examples) *)
Lemma pR_nil u : (pR [::]).[u] = 0.
Proof. by rewrite /pR /= horner0. Qed.

Lemma pR_sqr (c : Z) (u : R) : (pR [:: (- c)%ZZ; 0%ZZ; 1%ZZ]).[u] = u ^+ 2 - ZR c.
Proof. by rewrite !pR_cons pR_nil ZR_opp ZR_0 ZR_1 mul0r add0r addr0 mul1r expr2. Qed.

Lemma noint_check d e : dyq_le e ((dyq_floor d + 1)%ZZ, N0) -> noint (dyR d) (dyR e).
Proof.
rewrite dyq_leP {2}/dyR /= /tw expr0 divr1 => le z; apply/negP => /andP[h1 h2].
have /andP[f1 f2] := dyq_floorP d.
have : ZR (dyq_floor d) < ZR z by exact: le_lt_trans f1 h1.
have : ZR z < ZR (dyq_floor d + 1)%ZZ by exact: lt_le_trans h2 le.
by rewrite !ZR_lt => /Z.ltb_lt a1 /Z.ltb_lt a2; lia.
Qed.

Lemma WF_sqrt (c : Z) x : af x = Some [:: (- c)%ZZ; 0%ZZ; 1%ZZ] -> (0 <=? (aa x).1)%ZZ ->
  asa x = psgn_dy [:: (- c)%ZZ; 0%ZZ; 1%ZZ] (aa x) -> asb x = psgn_dy [:: (- c)%ZZ; 0%ZZ; 1%ZZ] (ab x) ->
  (asa x * asb x <? 0)%ZZ -> dyq_lt (aa x) (ab x) ->
  dyq_le (ab x) ((dyq_floor (aa x) + 1)%ZZ, N0) -> WF x.
Proof.
set l := [:: _; _; _] => E a0 sa sb neg lt ni; rewrite /WF E.
have sg := ZR_mul_lt0 (psgn_dyP l (aa x)) (psgn_dyP l (ab x)); rewrite -sa -sb in sg; have {sg} sg := sg neg.
have leab : dyR (aa x) <= dyR (ab x) by apply: ltW; rewrite -dyq_ltP.
have a0R : 0 <= dyR (aa x) by rewrite /dyR divr_ge0 ?ZR_ge0 // ltW // tw_gt0.
have [r rab rr] := ivt_sign leab sg.
have p0 : pR l != 0.
  by apply/eqP => e; move: sg; rewrite e !horner0 sgr0 mul0r => /eqP; rewrite eq_sym oppr_eq0 oner_eq0.
split=> //; [|by rewrite sa psgn_dyP | by rewrite sb psgn_dyP | exact: noint_check].
exists r; apply: roots1P => // t tab /rootP; move/rootP: rr; rewrite !pR_sqr => /eqP; rewrite subr_eq0 => /eqP <- /eqP.
rewrite subr_eq0 eqr_expn2 //; first by move=> /eqP.
  by move: tab; rewrite in_itv /= => /andP[h _]; exact: ltW (le_lt_trans a0R h).
by move: rab; rewrite in_itv /= => /andP[h _]; exact: ltW (le_lt_trans a0R h).
Qed.

Lemma divides_one l : divides_poly [:: 1%ZZ] l.
Proof.
exists 1%ZZ, l; split=> //; rewrite Poly_pscale Poly_pmul /= cons_poly_def mul0r add0r.
by rewrite scale1r mulr1.
Qed.
Lemma divides_refl l : divides_poly l l.
Proof.
exists 1%ZZ, [:: 1%ZZ]; split=> //; rewrite Poly_pscale Poly_pmul /= cons_poly_def mul0r add0r.
by rewrite scale1r mul1r.
Qed.
Lemma gcd_ok_one x (y : anum) : gcd_ok [:: 1%ZZ] x y.
Proof. by move=> lx ly _ _; split; exact: divides_one. Qed.
Lemma gcd_ok_same l x (y : anum) : af x = Some l -> af y = Some l -> gcd_ok l x y.
Proof. by move=> ex ey lx ly; rewrite ex ey => -[<-] [<-]; split; exact: divides_refl. Qed.

End Den.

(* ---------------------------------------------------------------- a computable sufficient condition for hist_ok *)
Definition op_okb (s : state) (o : op) : bool :=
  match o with
  | OCmp i j g =>
    match get s i, get s j with
    | Some x, Some y => (g == [:: 1%ZZ]) || ((af x == Some g) && (af y == Some g))
    | _, _ => true
    end
  | OCmpQ _ q => (0 <? q.2)%ZZ
  | _ => true
  end.
Fixpoint hist_okb (fuel : nat) (s : state) (ops : list op) : bool :=
  match ops with
  | nil => true
  | o :: rest => op_okb s o && match step fuel s o with Some (s', _) => hist_okb fuel s' rest | None => true end
  end.

Lemma op_okbP s o : op_okb s o -> op_ok s o.
Proof.
case: o => //= [i q /Z.ltb_lt //|i j g].
move=> h x y Gi Gj; move: h; rewrite Gi Gj => /orP[/eqP ->|/andP[/eqP ex /eqP ey]].
  exact: gcd_ok_one.
exact: gcd_ok_same.
Qed.

Lemma hist_okbP fuel s ops : hist_okb fuel s ops -> hist_ok fuel s ops.
Proof.
elim: ops s => [|o ops IH] s //= /andP[ok rest]; split; first exact: op_okbP.
by move=> s' ob E; move: rest; rewrite E; exact: IH.
Qed.

(* ---------------------------------------------------------------- a concrete history (non-vacuity) *)
Section Example.
Variable R : rcfType.
Local Open Scope Z_scope.

Definition ex_sqrt2 : anum := mkAnum (Some [:: -2; 0; 1]) (1, N0) (2, N0) (-1) 1.
Definition ex_sqrt3 : anum := mkAnum (Some [:: -3; 0; 1]) (1, N0) (2, N0) (-1) 1.
Definition ex_state : state := mkState [:: Some ex_sqrt2; Some ex_sqrt3; None] [::].
(* compare (the intervals are equal: bisect away), refine, copy, query the copy, remember / refine / restore,
   compare the copy with the original (equal: both are reduced to the gcd), sign, floor, destroy the copy *)
Definition ex_history : list op :=
  [:: OCmp 0 1 [:: 1]; ORefine 0; OCopy 0 2; OCmpQ 2 (3, 2); ORemember 1; ORefine 1; ORefine 1; ORestore 1;
      OCmp 2 0 [:: -2; 0; 1]; OSgn 1; OFloor 0; OCmpQ 1 (7, 4); ODestroy 2].

Lemma ex_WF2 : WF R ex_sqrt2.
Proof. by apply: (@WF_sqrt R 2). Qed.
Lemma ex_WF3 : WF R ex_sqrt3.
Proof. by apply: (@WF_sqrt R 3). Qed.

Lemma ex_Inv : Inv R ex_state.
Proof.
split; last by move=> i A B x [].
move=> [|[|[|i]]] x; rewrite /get /=.
- by move=> [<-]; exact: ex_WF2.
- by move=> [<-]; exact: ex_WF3.
- by [].
- by case: i.
Qed.

Lemma ex_hist_ok : hist_ok 50 ex_state ex_history.
Proof. by apply: hist_okbP; vm_compute. Qed.

Definition ex_obs : list obs :=
  [:: OInt (-1); ONone; ONone; OInt (-1); ONone; ONone; ONone; ONone; OInt 0; OInt 1; OInt 1; OInt (-1); ONone].
Lemma ex_run : exists s', run 50 ex_state ex_history = Some (s', ex_obs).
Proof. by eexists; vm_compute; reflexivity. Qed.
End Example.
