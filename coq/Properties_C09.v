(* Property C09 - querying a number never changes the number (lazy refinement is invisible).
   ONLY theorem statements, each closed by `exact` of a lemma of RefineProofs.v, with Print Assumptions beneath.
   Model: Refine.v (the state machine `step` / `run` over a pool of representations {f; (a, b); sgn_at_a; sgn_at_b}).
   Reals: every statement is for an ARBITRARY real closed field R (MathComp rcfType); den R x : R is the point, or
   the only root of f in (a, b); WF R x is libpoly's representation invariant (sign caches = signs of f at the ends,
   opposite and non-zero, exactly one root inside, no integer strictly inside the interval);
   Inv R s = every live slot is WF and every remembered interval is a valid wider isolating interval of its slot.

   Premises that are not proved here (named in the statements):
     op_ok / hist_ok   the polynomial handed to OCmp as "the gcd" divides both defining polynomials (c * f = h * g over
                       Z, c <> 0) - a property of lp_upolynomial_gcd (C03/C05); rationals have positive denominators;
     fuel              `step ... = Some _`: the bisection loops ended (termination needs an Archimedean field and is
                       not proved); `None` also stands for operations outside the API contract (destroyed slot, ...). *)
From Coq Require Import ZArith NArith List.
From LP Require Import UPoly Refine.
Set Warnings "-notation-overridden,-ambiguous-paths".
From mathcomp Require Import all_ssreflect all_algebra all_real_closed.
Set Warnings "notation-overridden,ambiguous-paths".
From LP Require Import RefAlg RefAlgSpec RefAlgArith RefAlgRoots RefineProofs RefineCheck RefineCheckProofs.
Import GRing.Theory Num.Theory Num.Def.
Local Open Scope ring_scope.

(* 1. ONE STEP.  Whatever the operation (refinement, comparison with a rational or with another number including the
      reduction of both polynomials to the gcd, sign, floor, copy, destroy, remember, restore): the invariant survives
      and every slot the operation does not (re-)assign denotes the same real as before. *)
Theorem C09_step_invariant : forall (R : rcfType) fuel s o s' (ob : obs),
  Inv R s -> op_ok s o -> step fuel s o = Some (s', ob) ->
  Inv R s' /\ (forall k, ~~ assigns o k -> dens R s' k = dens R s k).
Proof. exact step_ok. Qed.
Print Assumptions C09_step_invariant.

(* 2. ALL HISTORIES (induction over the list of operations). *)
Theorem C09_history_invariant : forall (R : rcfType) fuel ops s s' (obl : list obs),
  Inv R s -> hist_ok fuel s ops -> run fuel s ops = Some (s', obl) ->
  Inv R s' /\ (forall k, ~~ assigned_in ops k -> dens R s' k = dens R s k).
Proof. exact run_ok. Qed.
Print Assumptions C09_history_invariant.

(* 3. The building blocks, stated on single numbers.
      refinement (bisection; collapse to a point on an exact hit) and refinement with a point: *)
Theorem C09_refine_keeps : forall (R : rcfType) x, WF R x -> WF R (an_refine x) /\ den R (an_refine x) = den R x.
Proof. exact refine_keeps. Qed.
Print Assumptions C09_refine_keeps.

Theorem C09_refine_with_point_keeps : forall (R : rcfType) x d, WF R x ->
  WF R (an_refine_with_point x d) /\ den R (an_refine_with_point x d) = den R x.
Proof. exact refine_with_point_keeps. Qed.
Print Assumptions C09_refine_with_point_keeps.

(*    comparison with a rational (integer / dyadic / rational entry points share the code): refines until decided,
      the answer is the sign of den x - q *)
Theorem C09_cmp_rational : forall (R : rcfType) fuel x (q : Z * Z) x' c, WF R x -> (0 < q.2)%ZZ ->
  an_cmp_q fuel x q = Some (x', c) ->
  [/\ WF R x', den R x' = den R x & ZR R c = sgr (den R x - qR R q)].
Proof. exact cmp_rational_ok. Qed.
Print Assumptions C09_cmp_rational.

(*    comparison of two numbers: both keep their denotation, whichever branch is taken (refine with the end points of
      the intersection, reduce both polynomials to the gcd, bisect away), and the answer is the sign of den x - den y *)
Theorem C09_cmp_two_numbers : forall (R : rcfType) fuel x y g x' y' c, WF R x -> WF R y -> gcd_ok g x y ->
  an_cmp fuel x y g = Some ((x', y'), c) ->
  [/\ WF R x', den R x' = den R x, WF R y', den R y' = den R y & ZR R c = sgr (den R x - den R y)].
Proof. exact cmp_two_ok. Qed.
Print Assumptions C09_cmp_two_numbers.

Theorem C09_floor : forall (R : rcfType) x, WF R x -> ZR R (an_floor x) <= den R x < ZR R (an_floor x) + 1.
Proof. exact floor_ok. Qed.
Print Assumptions C09_floor.

(* 4. OBSERVATIONS ARE FUNCTIONS OF THE DENOTATIONS: what a step reports is determined by the reals the slots denote. *)
Theorem C09_observation_correct : forall (R : rcfType) fuel s o s' (ob : obs),
  Inv R s -> op_ok s o -> step fuel s o = Some (s', ob) -> obs_spec (dens R s) o ob.
Proof. exact step_obs. Qed.
Print Assumptions C09_observation_correct.

(* 5. STABILITY: the same question asked again after ANY history in between that does not re-assign the slots it
      reads gets the same answer. *)
Theorem C09_obs_stable : forall (R : rcfType) fuel s o o' mid s1 (ob1 : obs) s2 (obl : list obs) s3 (ob2 : obs),
  Inv R s -> same_query o o' ->
  op_ok s o -> step fuel s o = Some (s1, ob1) ->
  hist_ok fuel s1 mid -> run fuel s1 mid = Some (s2, obl) ->
  op_ok s2 o' -> step fuel s2 o' = Some (s3, ob2) ->
  (forall k, reads o k -> ~~ assigned_in mid k) ->
  ob1 = ob2.
Proof. exact obs_stable. Qed.
Print Assumptions C09_obs_stable.

(* 6. COPIES made at any time stay equal to the original. *)
Theorem C09_copy_stays_equal : forall (R : rcfType) fuel s i j s1 (ob : obs) ops s2 (obl : list obs),
  Inv R s -> step fuel s (OCopy i j) = Some (s1, ob) ->
  hist_ok fuel s1 ops -> run fuel s1 ops = Some (s2, obl) ->
  ~~ assigned_in ops i -> ~~ assigned_in ops j ->
  exists v, [/\ dens R s i = Some v, dens R s2 i = Some v & dens R s2 j = Some v].
Proof. exact copy_stays_equal. Qed.
Print Assumptions C09_copy_stays_equal.

(* 7. REMEMBER ... RESTORE (coefficient_sgn / coefficient_evaluate): after any queries in between, the value is well
      formed, denotes the same real, the stack of remembered intervals is as before, and - unless the value was
      rational (not remembered) or collapsed to a point meanwhile (the is_point skip) - its interval is literally the
      remembered, wider one. *)
Theorem C09_restore : forall (R : rcfType) fuel s i x mid s' (obl : list obs),
  Inv R s -> get s i = Some x -> List.forallb is_query mid ->
  hist_ok fuel s (ORemember i :: mid ++ [:: ORestore i]) ->
  run fuel s (ORemember i :: mid ++ [:: ORestore i]) = Some (s', obl) ->
  exists x', [/\ get s' i = Some x', WF R x', den R x' = den R x, saved s' = saved s &
                 an_is_rational x = false -> af x' <> None -> aa x' = aa x /\ ab x' = ab x].
Proof. exact restore_ok. Qed.
Print Assumptions C09_restore.

(* ---------------------------------------------------------------- non-vacuity: sqrt2 and sqrt3 *)
Example C09_example_invariant : forall R : rcfType, Inv R ex_state.
Proof. exact ex_Inv. Qed.
Example C09_example_history_ok : hist_ok 50 ex_state ex_history.
Proof. exact ex_hist_ok. Qed.
(* cmp(sqrt2, sqrt3) = -1; refine; copy; copy < 3/2; remember, refine twice, restore; cmp(copy, original) = 0 (both
   reduced to the gcd); sgn sqrt3 = 1; floor sqrt2 = 1; sqrt3 < 7/4; destroy the copy *)
Example C09_example_run : exists s', run 50 ex_state ex_history = Some (s', ex_obs).
Proof. exact ex_run. Qed.
Example C09_example_obs : ex_obs =
  [:: OInt (-1)%ZZ; ONone; ONone; OInt (-1)%ZZ; ONone; ONone; ONone; ONone; OInt 0%ZZ; OInt 1%ZZ; OInt 1%ZZ; OInt (-1)%ZZ; ONone].
Proof. reflexivity. Qed.

(* ---------------------------------------------------------------- 8. VERIFIED CHECKERS: what the model driver accepts is true.
   The driver (ocaml/p_c09.ml) accepts a printed step of libpoly iff RefineCheck.check_step accepts it (run with memoised
   closures sn / cmpf / flf of same_number, rn_cmp, rn_floor).  rn_denotes is the denotation of the proved reference
   (Properties_Base.v); dens pool vals = slot k of the reference pool denotes the real vals_k. *)

(* a representation read from libpoly that passes same_number denotes the real of the reference number *)
Theorem C09_same_number_sound : forall (R : rcfType) fuel (r x : rnum) (v : R),
  same_number fuel r x = true -> rn_denotes x v -> rn_denotes (rn_norm r) v.
Proof. exact same_number_sound. Qed.
Print Assumptions C09_same_number_sound.

(* ONE ACCEPTED STEP: the observation libpoly reported is the mathematical answer (sign of a difference, sign, floor,
   ceiling, integrality, sign / value of a polynomial under the assignment), the new reference pool denotes the reals
   the operation assigns (sum, product, quotient, inverse, negation, copy; nothing for a query), and every
   representation libpoly printed after the step denotes the real of its slot *)
Theorem C09_checked_step : forall (R : rcfType) sn cmpf flf fuel,
  (forall r x, sn r x = true -> same_number fuel r x = true) ->
  (forall x y s, cmpf x y = Some s -> rn_cmp fuel x y = Some s) ->
  (forall x z, flf x = Some z -> rn_floor fuel x = Some z) ->
  forall pool (vals : seq R) it pool', RefAlgRoots.dens pool vals ->
  check_step sn cmpf flf fuel pool it = Some pool' ->
  [/\ obs_true vals (it_op it) (it_obs it),
      RefAlgRoots.dens pool' (sem vals (it_op it)) &
      forall rs, it_reps it = Some rs -> RefAlgRoots.dens [seq rn_norm r | r <- rs] (sem vals (it_op it))].
Proof. exact check_step_sound. Qed.
Print Assumptions C09_checked_step.

(* ALL ACCEPTED HISTORIES, by induction over the history *)
Theorem C09_checked_history : forall (R : rcfType) sn cmpf flf fuel,
  (forall r x, sn r x = true -> same_number fuel r x = true) ->
  (forall x y s, cmpf x y = Some s -> rn_cmp fuel x y = Some s) ->
  (forall x z, flf x = Some z -> rn_floor fuel x = Some z) ->
  forall pool (vals : seq R) items, RefAlgRoots.dens pool vals ->
  check_run sn cmpf flf fuel pool items = true -> run_true vals items.
Proof. exact check_run_sound. Qed.
Print Assumptions C09_checked_history.

(* the closed instance: the checker run with the Gallina reference functions themselves *)
Theorem C09_checked_history_ref : forall (R : rcfType) fuel pool (vals : seq R) items,
  RefAlgRoots.dens pool vals -> check_run_ref fuel pool items = true -> run_true vals items.
Proof. exact check_run_ref_sound. Qed.
Print Assumptions C09_checked_history_ref.

(* QUERYING NEVER CHANGES THE NUMBER, as a theorem about accepted runs: after an accepted const call (comparison, sign,
   floor, ceiling, integrality, polynomial sign / evaluation, or any other call after which the slots are re-read) the
   reference pool is unchanged, the observation is the mathematical answer, and every representation libpoly printed
   afterwards denotes exactly the real its slot had before the call *)
Theorem C09_accepted_query_keeps : forall (R : rcfType) sn cmpf flf fuel,
  (forall r x, sn r x = true -> same_number fuel r x = true) ->
  (forall x y s, cmpf x y = Some s -> rn_cmp fuel x y = Some s) ->
  (forall x z, flf x = Some z -> rn_floor fuel x = Some z) ->
  forall pool (vals : seq R) it pool', RefAlgRoots.dens pool vals -> cop_is_query (it_op it) = true ->
  check_step sn cmpf flf fuel pool it = Some pool' ->
  [/\ pool' = pool, obs_true vals (it_op it) (it_obs it) &
      forall rs, it_reps it = Some rs -> RefAlgRoots.dens [seq rn_norm r | r <- rs] vals].
Proof. exact accepted_query_keeps. Qed.
Print Assumptions C09_accepted_query_keeps.

(* bridge to the state machine: a representation satisfying the invariant WF of theorems 1-7, read the way the driver
   reads it (anum_rn), denotes den in the sense of the reference *)
Theorem C09_WF_denotes : forall (R : rcfType) x, WF R x -> rn_denotes (anum_rn x) (den R x).
Proof. exact WF_denotes. Qed.
Print Assumptions C09_WF_denotes.

(* non-vacuity: an accepted history (cmp, floor, add, polynomial sign = 0, cmp) and a pool that denotes *)
Example C09_check_example_accepted : check_run_ref 60 ck_pool ck_items = true.
Proof. exact ck_accepted. Qed.
Example C09_check_example_true : forall R : rcfType, exists vals : seq R, RefAlgRoots.dens ck_pool vals /\ run_true vals ck_items.
Proof. exact ck_true. Qed.
