(* Property C01, API coverage: what the reference predictions of CoefficientObs.v mean in MathComp's {poly Z}
   (via UPolySpec.v).  Only the univariate transformers and signs are proved here; the multivariate observers
   (is_linear, lc chain, reductum, ...) are compared with the library by the correspondence only. *)
From Coq Require Import ZArith NArith List.
From LP Require Import Scalar UPoly MPoly Coefficient CoefficientOps CoefficientObs.
Set Warnings "-notation-overridden,-ambiguous-paths".
From mathcomp Require Import all_ssreflect all_algebra.
From mathcomp Require Import ssrZ zify ring.
Set Warnings "notation-overridden,ambiguous-paths".
From LP Require Import UPolySpec.
Import GRing.Theory.
Set Implicit Arguments.
Unset Strict Implicit.
Unset Printing Implicit Defensive.
Local Open Scope ring_scope.
Delimit Scope Z_scope with SZ.

(* p(-x) *)
Lemma Poly_psubst_neg (p : seq Z) : Poly (psubst_neg p) = Poly p \Po (- 'X) :> {poly Z}.
Proof.
elim: p => [|c p IH] /=; first by rewrite comp_poly0.
rewrite !cons_poly_def Poly_pneg IH comp_polyD comp_polyM comp_polyX comp_polyC.
by rewrite mulNr mulrN.
Qed.

(* p(x^n) *)
Lemma Poly_psubst_pow (n : nat) (p : seq Z) : (0 < n)%N -> Poly (psubst_pow n p) = Poly p \Po 'X^n :> {poly Z}.
Proof.
case: n => [//|n] _; elim: p => [|c p IH] /=; first by rewrite comp_poly0.
rewrite !cons_poly_def Poly_pshift IH comp_polyD comp_polyM comp_polyX comp_polyC.
by rewrite -mulrA -exprSr.
Qed.

(* c * x^d *)
Lemma Poly_ppower (d : nat) (c : Z) : Poly (ppower d c) = c *: 'X^d :> {poly Z}.
Proof.
have -> : ppower d c = pshift d [:: c] by [].
by rewrite Poly_pshift /= cons_poly_def mul0r add0r mul_polyC.
Qed.

(* reversal: coefficient i of the result is coefficient deg - i of the operand *)
Lemma Poly_prev_coef (p : seq Z) (i : nat) : (i < size (pnorm p))%N ->
  (Poly (preverse p))`_i = (Poly p)`_((size (pnorm p)).-1 - i).
Proof.
move=> Hi; rewrite /preverse Poly_pnorm -(Poly_pnorm p) !coef_Poly.
have -> : List.rev (pnorm p) = rev (pnorm p).
  by elim: (pnorm p) => [|a l IH] //=; rewrite IH rev_cons -cats1.
rewrite nth_rev //; congr (nth _ _ _).
by rewrite -[in RHS]subn1 -subnDA add1n.
Qed.

(* sign at an integer point = sign of the Horner value *)
Lemma psgn_at_int_horner (p : seq Z) (x : Z) : psgn_at_int None p x = Z.sgn ((Poly p).[x]).
Proof. by rewrite /psgn_at_int /= horner_peval. Qed.

(* homogeneous evaluation used for the sign at a rational / dyadic point a/b:
   fst = b^(len-1) * p(a/b) as integers, i.e.  fst * b = \sum_i c_i a^i b^(len-i),  snd = b^len *)
Definition hom_sum (p : seq Z) (a b : Z) : Z := \sum_(i < size p) nth 0 p i * a ^+ i * b ^+ (size p - i).

Lemma peval_hom_aux_spec (p : seq Z) (a b : Z) :
  (peval_hom_aux p a b).2 = b ^+ size p /\ (peval_hom_aux p a b).1 * b = hom_sum p a b.
Proof.
rewrite /hom_sum; elim: p => [|c p [IH1 IH2]] /=; first by rewrite big_ord0 mul0r expr0.
case E: (peval_hom_aux p a b) IH1 IH2 => [v bp] /= IH1 IH2.
split; first by rewrite IH1 exprSr.
rewrite big_ord_recl /= expr0 mulr1 subn0.
rewrite (eq_bigr (fun i : 'I_(size p) => a * (nth 0 p i * a ^+ i * b ^+ (size p - i)))); last first.
  by move=> i _; rewrite /bump /= add1n subSS exprS; ring.
rewrite -mulr_sumr -IH2 IH1 exprS.
have EA (x y : Z) : (x + y)%SZ = x + y by [].
have EM (x y : Z) : (x * y)%SZ = x * y by [].
by rewrite EA !EM; ring.
Qed.

(* consequently, for b > 0 the sign computed by psgn_at_rat is the sign of b^len * p(a/b) *)
Lemma psgn_at_rat_spec (p : seq Z) (a b : Z) : (0 < b)%SZ ->
  psgn_at_rat p a b = Z.sgn (hom_sum p a b).
Proof.
move=> Hb; rewrite /psgn_at_rat; have [_ <-] := peval_hom_aux_spec p a b.
have -> : (peval_hom_aux p a b).1 * b = ((peval_hom_aux p a b).1 * b)%SZ by [].
by rewrite Z.sgn_mul (Z.sgn_pos b) // Z.mul_1_r.
Qed.
