(* C07: soundness of the acceptance test AlgNumCheck.accept_op, in every real closed field.
   If the operand representations (as libpoly printed them, normalised by rn_norm) denote the reals a, b and
   `accept_op fuel op args result = true`, then the result is the mathematically right one: the printed representation
   denotes a + b, a - b, - a, a * b, 1 / a, a / b, a ^ n, the non-negative n-th root of a; the printed integer is the sign
   of a, the sign of a - b, of a - q, the floor, the ceiling; the printed truth value is right; the printed rational is
   the number (to_rational) or within eps of it.  Built on the proved reference arithmetic (Properties_Base.v) and
   RefineCheckProofs.same_number_sound. *)
From Coq Require Import ZArith NArith List.
From LP Require Import Scalar UPoly MPoly RefAlg RefineCheck AlgNum AlgNumCheck.
Set Warnings "-notation-overridden,-ambiguous-paths".
From mathcomp Require Import all_ssreflect all_algebra all_real_closed.
From mathcomp Require Import ssrZ zify.
Set Warnings "notation-overridden,ambiguous-paths".
From LP Require Import UPolySpec ScalarProofs RefAlgSpec RefAlgLoops RefAlgOps RefAlgDet RefAlgAnn RefAlgArith RefAlgSqfree RefAlgFinal RefAlgRoots RefAlgRat RefAlgPow RefAlgCmp RefineCheckProofs.
Import GRing.Theory Num.Theory Num.Def Order.TTheory.
Set Implicit Arguments.
Unset Strict Implicit.
Unset Printing Implicit Defensive.
Local Open Scope ring_scope.

(* ---------------------------------------------------------------- the chain-sharing operations ARE the reference ones *)
Lemma sel_sharedE fuel r encl x y : sel_shared fuel r encl x y = rn_select fuel r encl x y.
Proof.
rewrite /sel_shared; elim: fuel x y => [|f IH] x y //=.
by case: (encl x y) => l h; rewrite IH.
Qed.

Lemma add_shE fuel x y : add_sh fuel x y = rn_add fuel x y.
Proof. by case: x => [a|p lo hi]; case: y => [b|q lo' hi']; rewrite /add_sh /rn_add ?sel_sharedE. Qed.

Lemma sub_shE fuel x y : sub_sh fuel x y = rn_sub fuel x y.
Proof. by rewrite /sub_sh add_shE. Qed.

Lemma mul_shE fuel x y : mul_sh fuel x y = rn_mul fuel x y.
Proof. by case: x => [a|p lo hi]; case: y => [b|q lo' hi']; rewrite /mul_sh /rn_mul ?sel_sharedE. Qed.

Lemma div_shE fuel x y : div_sh fuel x y = rn_div fuel x y.
Proof. by rewrite /div_sh /rn_div; case: (rn_inv fuel y) => // i; rewrite mul_shE. Qed.

Lemma pow_shE fuel x n : pow_sh fuel x n = rn_pow_direct fuel x n.
Proof. by case: n => [|[|n]] //; case: x => [a|p lo hi] //; rewrite /pow_sh /rn_pow_direct sel_sharedE. Qed.

Lemma zl_eqbP (a b : seq Z) : zl_eqb a b -> a = b.
Proof. by elim: a b => [|x a IH] [|y b] //= /andP[/Z.eqb_eq -> /IH ->]. Qed.

Lemma q_eqrepP (a b : Z * Z) : q_eqrep a b -> a = b.
Proof. by case: a => a1 a2; case: b => b1 b2 /andP[/= /Z.eqb_eq -> /Z.eqb_eq ->]. Qed.

Lemma rn_eqrepP (x y : rnum) : rn_eqrep x y -> x = y.
Proof.
case: x => [a|p lo hi]; case: y => [b|q lo' hi'] //=; first by move/q_eqrepP ->.
by move=> /andP[/andP[/zl_eqbP -> /q_eqrepP ->] /q_eqrepP ->].
Qed.

Section Sound.
Variable R : rcfType.
Notation denotes := (@rn_denotes R).
Notation dens := (@RefAlgRoots.dens R).
Local Notation zr := (@RefAlgSpec.zr R).
Local Notation qr := (@RefAlgSpec.qr R).

(* what the operand list means: the normalised representations denote the given reals, one by one *)
Definition args_denote (args : seq rnum) (vals : seq R) : Prop := dens (List.map rn_norm args) vals.

Local Notation pr := (@RefAlgSpec.pr R).

(* opposite strict signs of a polynomial at two points give a root strictly between them *)
Lemma ivt_strict (q : {poly R}) (a b : R) : a < b -> q.[a] < 0 -> 0 < q.[b] -> exists2 u, a < u < b & root q u.
Proof.
move=> ab qa qb; have [u /andP[au ub] ru] := @poly_ivt _ q a b (ltW ab) (introT andP (conj (ltW qa) (ltW qb))).
exists u => //; rewrite !lt_neqAle au ub !andbT; apply/andP; split; apply/eqP => E.
  by move: ru qa; rewrite -E rootE => /eqP ->; rewrite ltxx.
by move: ru qb; rewrite E rootE => /eqP ->; rewrite ltxx.
Qed.

Lemma zr_sg_lt0 (s : Z) (x : R) : zr s = sgr x -> Z.lt s 0 -> x < 0.
Proof. by rewrite /RefAlgSpec.zr => /esym H s0; rewrite -sgr_lt0 H ltrz0; lia. Qed.
Lemma zr_sg_gt0 (s : Z) (x : R) : zr s = sgr x -> Z.lt 0 s -> 0 < x.
Proof. by rewrite /RefAlgSpec.zr => /esym H s0; rewrite -sgr_gt0 H ltr0z; lia. Qed.

Lemma cert_eq_sound (r z : rnum) (v : R) : cert_eq r z -> denotes z v -> denotes (rn_norm r) v.
Proof.
case: r => [//|f lo hi]; case: z => [//|q l h]; rewrite /cert_eq.
move=> /andP[/andP[/andP[val /Z.ltb_lt clo] /Z.ltb_lt chi] sg] dz.
have [w dw] := RefAlgFinal.rn_valid_denotes R val.
move: (dz) => [[Hl Hh] /andP[lv vh] rv uq sgz].
move: (dw) => /= [[Hlo Hhi] _ rw uw _].
have f0 : Poly f != 0.
  by move: val => /= /andP[/andP[/andP[/andP[_ /pis_zeroP/eqP]]]].
(* lo < v < hi *)
have lov : qr lo < v by rewrite -subr_gt0; exact: zr_sg_gt0 (rn_cmp_q_spec dz Hlo) clo.
have vhi : v < qr hi by rewrite -subr_lt0; exact: zr_sg_lt0 (rn_cmp_q_spec dz Hhi) chi.
(* the gcd has opposite signs at l and h: a common root in (l, h), which is v *)
set g := pgcd f q in sg.
have lh := lt_trans lv vh.
have [u /andP[lu uh] ru] : exists2 u, qr l < u < qr h & root (pr g) u.
  case/orP: sg => /andP[/Z.ltb_lt s1 /Z.ltb_lt s2].
    exact: ivt_strict lh (zr_sg_lt0 (psgn_qP R g Hl) s1) (zr_sg_gt0 (psgn_qP R g Hh) s2).
  have [u Hu ru] : exists2 u, qr l < u < qr h & root (- pr g) u.
    apply: ivt_strict lh _ _; rewrite hornerN ?oppr_lt0 ?oppr_gt0.
      exact: zr_sg_gt0 (psgn_qP R g Hl) s1.
    exact: zr_sg_lt0 (psgn_qP R g Hh) s2.
  by exists u => //; move: ru; rewrite rootN.
have : root (gcdp (pr f) (pr q)) u by rewrite -(eqp_root (pr_pgcd R q f0)).
rewrite root_gcd => /andP[rfu rqu].
have uv : u = v by apply: uq => //; rewrite lu uh.
have [_ _ Hroot] := psqfree_correct R f0.
have rfv : root (pr (psqfree f)) v by rewrite Hroot -uv.
have -> : v = w by apply: uw => //; rewrite lov vhi.
exact: dw.
Qed.

Lemma same_num_sound fuel (r z : rnum) (v : R) : same_num fuel r z -> denotes z v -> denotes (rn_norm r) v.
Proof. by move=> /orP[c|s] dz; [exact: cert_eq_sound c dz | exact: same_number_sound s dz]. Qed.

Lemma same_as_sound fuel r o : same_as fuel r o -> exists2 z, o = Some z & same_num fuel r z.
Proof. by case: o => [z|//] s; exists z. Qed.

Lemma qposbP q : qposb q -> qpos q.
Proof. by move=> /Z.ltb_lt. Qed.

Lemma sg_zr_eq0 (c : Z) (v : R) : zr c = sgr v -> (Z.eqb c 0) = (v == 0).
Proof.
by move=> E; rewrite -sgr_eq0 -E zr_eq0.
Qed.

(* ---------------------------------------------------------------- field operations *)
Lemma accept_add_sound fuel x y r a b : denotes (rn_norm x) a -> denotes (rn_norm y) b ->
  accept_op fuel KAdd [:: x; y] (VNum r) -> denotes (rn_norm r) (a + b).
Proof.
move=> dx dy /same_as_sound[z E s].
exact: same_num_sound s (rn_add_spec dx dy (etrans (esym (add_shE _ _ _)) E)).
Qed.

Lemma accept_sub_sound fuel x y r a b : denotes (rn_norm x) a -> denotes (rn_norm y) b ->
  accept_op fuel KSub [:: x; y] (VNum r) -> denotes (rn_norm r) (a - b).
Proof.
move=> dx dy /same_as_sound[z E s].
exact: same_num_sound s (rn_sub_spec dx dy (etrans (esym (sub_shE _ _ _)) E)).
Qed.

Lemma accept_mul_sound fuel x y r a b : denotes (rn_norm x) a -> denotes (rn_norm y) b ->
  accept_op fuel KMul [:: x; y] (VNum r) -> denotes (rn_norm r) (a * b).
Proof.
move=> dx dy /same_as_sound[z E s].
exact: same_num_sound s (rn_mul_spec dx dy (etrans (esym (mul_shE _ _ _)) E)).
Qed.

Lemma accept_div_sound fuel x y r a b : denotes (rn_norm x) a -> denotes (rn_norm y) b ->
  accept_op fuel KDiv [:: x; y] (VNum r) -> b != 0 /\ denotes (rn_norm r) (a / b).
Proof.
move=> dx dy /same_as_sound[z E s].
have [b0 dz] := rn_div_spec dx dy (etrans (esym (div_shE _ _ _)) E); split=> //.
exact: same_num_sound s dz.
Qed.

Lemma accept_div_undef_sound fuel x y a b : denotes (rn_norm x) a -> denotes (rn_norm y) b ->
  accept_op fuel KDiv [:: x; y] VUndef -> b = 0.
Proof.
move=> _ dy; rewrite /accept_op /= (sg_zr_eq0 (rn_sgn_spec dy)).
by move/eqP.
Qed.

Lemma accept_neg_sound fuel x r a : denotes (rn_norm x) a ->
  accept_op fuel KNeg [:: x] (VNum r) -> denotes (rn_norm r) (- a).
Proof.
move=> dx s.
exact: same_num_sound s (rn_neg_spec dx).
Qed.

Lemma accept_inv_sound fuel x r a : denotes (rn_norm x) a ->
  accept_op fuel KInv [:: x] (VNum r) -> a != 0 /\ denotes (rn_norm r) a^-1.
Proof.
move=> dx /same_as_sound[z E s].
have [a0 dz] := rn_inv_spec dx E; split=> //.
exact: same_num_sound s dz.
Qed.

Lemma accept_inv_undef_sound fuel x a : denotes (rn_norm x) a ->
  accept_op fuel KInv [:: x] VUndef -> a = 0.
Proof.
move=> dx; rewrite /accept_op /= (sg_zr_eq0 (rn_sgn_spec dx)).
by move/eqP.
Qed.

Lemma accept_pow_sound fuel n x r a : denotes (rn_norm x) a ->
  accept_op fuel (KPow n) [:: x] (VNum r) -> denotes (rn_norm r) (a ^+ n).
Proof.
move=> dx /same_as_sound[z E s].
exact: same_num_sound s (rn_pow_direct_spec dx (etrans (esym (pow_shE _ _ _)) E)).
Qed.

(* positive_root: the printed representation denotes THE non-negative n-th root of a *)
Lemma accept_root_sound fuel n x r a : denotes (rn_norm x) a ->
  accept_op fuel (KRoot n) [:: x] (VNum r) ->
  exists v : R, [/\ denotes (rn_norm r) v, 0 <= v, v ^+ n = a & forall w : R, 0 <= w -> w ^+ n = a -> w = v].
Proof.
move=> dx; rewrite /accept_op /=.
move=> /andP[/andP[/andP[/Nat.ltb_lt n0 val] sg]].
have [v dv] := RefAlgFinal.rn_valid_denotes R val.
case E: (pow_sh fuel _ n) => [pw|//] /opt_isP c.
have dw := rn_pow_direct_spec dv (etrans (esym (pow_shE _ _ _)) E).
have := rn_cmp_spec dw dx c.
rewrite /RefAlgSpec.zr /= => /esym/eqP; rewrite sgr_eq0 subr_eq0 => /eqP e.
have v0 : 0 <= v.
  have := rn_sgn_spec dv; move: sg; case: (rn_sgn _) => [|p|p] // _.
    by rewrite /RefAlgSpec.zr /= => /esym/eqP; rewrite sgr_eq0 => /eqP ->.
  rewrite /RefAlgSpec.zr => /esym H; rewrite -sgr_ge0 H ler0z; lia.
exists v; split=> // w w0 ew.
have n0' : (0 < n)%N by lia.
by apply: (pexpIrn n0') => //; rewrite ew.
Qed.

Lemma accept_root_undef_sound fuel n x a : denotes (rn_norm x) a ->
  accept_op fuel (KRoot n) [:: x] VUndef -> n = 0%N \/ a < 0.
Proof.
move=> dx; rewrite /accept_op /= => /orP[/Nat.eqb_eq ->|/Z.ltb_lt sg]; [by left|right].
have := rn_sgn_spec dx; move: sg; case: (rn_sgn _) => [|p|p] // _.
by rewrite /RefAlgSpec.zr => /esym H; rewrite -sgr_lt0 H ltrz0; lia.
Qed.

(* ---------------------------------------------------------------- sign and order *)
Lemma accept_sgn_sound fuel x c a : denotes (rn_norm x) a ->
  accept_op fuel KSgn [:: x] (VInt c) -> zr c = sgr a.
Proof. by move=> dx /Z.eqb_eq <-; exact: rn_sgn_spec dx. Qed.

Lemma accept_cmp_sound fuel x y c a b : denotes (rn_norm x) a -> denotes (rn_norm y) b ->
  accept_op fuel KCmp [:: x; y] (VInt c) -> zr c = sgr (a - b).
Proof. by move=> dx dy /opt_isP E; exact: rn_cmp_spec dx dy E. Qed.

Lemma cmp_q_is_sound x q c a : denotes x a -> cmp_q_is x q c -> zr c = sgr (a - qr q).
Proof. by move=> dx /andP[/qposbP q0 /Z.eqb_eq <-]; exact: rn_cmp_q_spec dx q0. Qed.

Lemma accept_cmp_rational_sound fuel q x c a : denotes (rn_norm x) a ->
  accept_op fuel (KCmpQ q) [:: x] (VInt c) -> zr c = sgr (a - qr q).
Proof. by move=> dx; exact: cmp_q_is_sound. Qed.

Lemma accept_cmp_integer_sound fuel z x c a : denotes (rn_norm x) a ->
  accept_op fuel (KCmpZ z) [:: x] (VInt c) -> zr c = sgr (a - zr z).
Proof. by move=> dx /(cmp_q_is_sound dx); rewrite -[qr (z_q z)]/(qr (q_of_Z z)) qr_of_Z. Qed.

Lemma accept_cmp_dyadic_sound fuel d x c a : denotes (rn_norm x) a ->
  accept_op fuel (KCmpD d) [:: x] (VInt c) -> zr c = sgr (a - zr (da d) / zr (pow2 (dn d))).
Proof. by move=> dx /(cmp_q_is_sound dx). Qed.

(* ---------------------------------------------------------------- floor, ceiling, integrality, rationality *)
Lemma accept_floor_sound fuel x z a : denotes (rn_norm x) a ->
  accept_op fuel KFloor [:: x] (VInt z) -> zr z <= a < zr z + 1.
Proof. by move=> dx /opt_isP E; exact: rn_floor_spec dx E. Qed.

Lemma accept_ceiling_sound fuel x z a : denotes (rn_norm x) a ->
  accept_op fuel KCeil [:: x] (VInt z) -> zr z - 1 < a <= zr z.
Proof. by move=> dx /opt_isP E; exact: rn_ceiling_spec dx E. Qed.

Lemma accept_is_integer_sound fuel x w a : denotes (rn_norm x) a ->
  accept_op fuel KIsInt [:: x] (VBool w) -> w = true <-> exists z : Z, a = zr z.
Proof.
move=> dx; rewrite /accept_op /=; case E: (rn_is_integer fuel _) => [w'|//] /Bool.eqb_prop ew.
by rewrite -ew; exact: rn_is_integer_spec dx E.
Qed.

Lemma accept_is_rational_sound fuel x a : denotes (rn_norm x) a ->
  accept_op fuel KIsRat [:: x] (VBool true) -> exists q : Z * Z, qpos q /\ a = qr q.
Proof.
move=> dx; rewrite /accept_op /=; case E: (rn_is_rational fuel _) => [w|//] ew.
by have [H _] := rn_is_rational_spec dx E; apply: H; rewrite ew.
Qed.

Lemma q_is_canon_qpos' (q : Z * Z) : q_is_canon q -> qpos q.
Proof. by rewrite /q_is_canon => /andP[/Z.ltb_lt]. Qed.

Lemma accept_to_rational_sound fuel x q a : denotes (rn_norm x) a ->
  accept_op fuel KToRat [:: x] (VRat q) -> qpos q /\ a = qr q.
Proof.
move=> dx /andP[/q_is_canon_qpos' q0 /Z.eqb_eq c]; split=> //.
have := rn_cmp_q_spec dx q0; rewrite c /RefAlgSpec.zr /= => /esym/eqP.
by rewrite sgr_eq0 subr_eq0 => /eqP.
Qed.

Lemma accept_approx_sound fuel eps x q a : denotes (rn_norm x) a ->
  accept_op fuel (KApprox eps) [:: x] (VRat q) -> `|a - qr q| <= qr eps.
Proof.
move=> dx /andP[/andP[/andP[/andP[/qposbP q0 /qposbP e0] _] /Z.leb_le lo] /Z.leb_le hi].
have [ne0 Ene] := qr_neg R e0.
have [l0 El] := qr_add R q0 ne0; have [h0 Eh] := qr_add R q0 e0.
have Hlo := rn_cmp_q_spec dx l0; have Hhi := rn_cmp_q_spec dx h0.
rewrite ler_distl; apply/andP; split.
  rewrite -subr_ge0 -sgr_ge0; move: Hlo; rewrite El Ene => <-.
  by rewrite /RefAlgSpec.zr ler0z; lia.
rewrite -subr_le0 -sgr_le0; move: Hhi; rewrite Eh => <-.
by rewrite /RefAlgSpec.zr lerz0; lia.
Qed.

Lemma accept_same_sound fuel x r a : denotes (rn_norm x) a ->
  accept_op fuel KSame [:: x] (VNum r) -> denotes (rn_norm r) a.
Proof.
move=> dx; rewrite /accept_op => /orP[/rn_eqrepP <- //|s].
exact: same_num_sound s dx.
Qed.

(* ---------------------------------------------------------------- ONE statement for all operations *)
Definition result_true (op : c07_op) (vals : seq R) (res : c07_result) : Prop :=
  match op, vals, res with
  | KAdd, [:: a; b], VNum r => denotes (rn_norm r) (a + b)
  | KSub, [:: a; b], VNum r => denotes (rn_norm r) (a - b)
  | KMul, [:: a; b], VNum r => denotes (rn_norm r) (a * b)
  | KDiv, [:: a; b], VNum r => b != 0 /\ denotes (rn_norm r) (a / b)
  | KDiv, [:: a; b], VUndef => b = 0
  | KNeg, [:: a], VNum r => denotes (rn_norm r) (- a)
  | KInv, [:: a], VNum r => a != 0 /\ denotes (rn_norm r) a^-1
  | KInv, [:: a], VUndef => a = 0
  | KPow n, [:: a], VNum r => denotes (rn_norm r) (a ^+ n)
  | KRoot n, [:: a], VNum r =>
    exists v : R, [/\ denotes (rn_norm r) v, 0 <= v, v ^+ n = a & forall w : R, 0 <= w -> w ^+ n = a -> w = v]
  | KRoot n, [:: a], VUndef => n = 0%N \/ a < 0
  | KSgn, [:: a], VInt c => zr c = sgr a
  | KCmp, [:: a; b], VInt c => zr c = sgr (a - b)
  | KCmpZ z, [:: a], VInt c => zr c = sgr (a - zr z)
  | KCmpD d, [:: a], VInt c => zr c = sgr (a - zr (da d) / zr (pow2 (dn d)))
  | KCmpQ q, [:: a], VInt c => zr c = sgr (a - qr q)
  | KFloor, [:: a], VInt z => zr z <= a < zr z + 1
  | KCeil, [:: a], VInt z => zr z - 1 < a <= zr z
  | KIsInt, [:: a], VBool w => w = true <-> exists z : Z, a = zr z
  | KIsRat, [:: a], VBool w => w = true -> exists q : Z * Z, qpos q /\ a = qr q
  | KToRat, [:: a], VRat q => qpos q /\ a = qr q
  | KApprox eps, [:: a], VRat q => `|a - qr q| <= qr eps
  | KSame, [:: a], VNum r => denotes (rn_norm r) a
  | _, _, _ => Logic.False
  end.

Lemma args1 x vals : args_denote [:: x] vals -> exists2 a, vals = [:: a] & denotes (rn_norm x) a.
Proof.
rewrite /args_denote; case: vals => [|a [|b vals]] //=; last by move=> [_ []].
by move=> [dx _]; exists a.
Qed.

Lemma args2 x y vals : args_denote [:: x; y] vals ->
  exists a b, [/\ vals = [:: a; b], denotes (rn_norm x) a & denotes (rn_norm y) b].
Proof.
rewrite /args_denote; case: vals => [|a [|b [|c vals]]] //=; try (by move=> [_ []]); try (by move=> [_ [_ []]]).
by move=> [dx [dy _]]; exists a, b.
Qed.

Lemma accept_nil fuel op res : accept_op fuel op [::] res = false.
Proof. by case: op => *; cbn. Qed.

Lemma accept_three fuel op x y z args res : accept_op fuel op [:: x, y, z & args] res = false.
Proof. by case: op => *; cbn. Qed.

Theorem accept_op_sound fuel op args vals res :
  args_denote args vals -> accept_op fuel op args res -> result_true op vals res.
Proof.
case: args => [|x [|y [|z args]]]; [by rewrite accept_nil| | |by rewrite accept_three].
- move=> /args1[a -> dx].
  case: op => [| | | | | |n|n| | |z|d|q| | | | | |eps| ] //; case: res => [r|c|w|q'|] //= acc.
  + exact: accept_neg_sound dx acc.
  + exact: accept_inv_sound dx acc.
  + exact: accept_inv_undef_sound dx acc.
  + exact: accept_pow_sound dx acc.
  + exact: accept_root_sound dx acc.
  + exact: accept_root_undef_sound dx acc.
  + exact: accept_sgn_sound dx acc.
  + exact: accept_cmp_integer_sound dx acc.
  + exact: accept_cmp_dyadic_sound dx acc.
  + exact: accept_cmp_rational_sound dx acc.
  + exact: accept_floor_sound dx acc.
  + exact: accept_ceiling_sound dx acc.
  + exact: accept_is_integer_sound dx acc.
  + by move=> ew; move: acc; rewrite ew; exact: accept_is_rational_sound dx.
  + exact: accept_to_rational_sound dx acc.
  + exact: accept_approx_sound dx acc.
  + exact: accept_same_sound dx acc.
- move=> /args2[a [b [-> dx dy]]].
  case: op => [| | | | | |n|n| | |z|d|q| | | | | |eps| ] //; case: res => [r|c|w|q'|] //= acc.
  + exact: accept_add_sound dx dy acc.
  + exact: accept_sub_sound dx dy acc.
  + exact: accept_mul_sound dx dy acc.
  + exact: accept_div_sound dx dy acc.
  + exact: accept_div_undef_sound dx dy acc.
  + exact: accept_cmp_sound dx dy acc.
Qed.

(* operands that pass the driver's validity test denote real numbers: the hypothesis of accept_op_sound is satisfiable
   for every list of valid representations *)
Lemma valid_args_denote args : List.forallb rn_valid args -> exists vals : seq R, args_denote args vals.
Proof.
elim: args => [|x args IH] /=; first by exists [::].
move=> /andP[vx /IH[vals dv]].
have [v dx] := RefAlgFinal.rn_valid_denotes R vx.
by exists (v :: vals); split.
Qed.

End Sound.
