(* L0 model: src/number/integer.h, rational.h, dyadic_rational.h/.c  (property C17).
   Executable Gallina, stdlib only, no proofs in this file.

   Conventions
   - mpz_t                -> Z (unbounded)
   - unsigned long        -> N (no wrap-around: the property is not about overflow)
   - lp_int_ring_t* K     -> option Z   (None = lp_Z, Some M with M >= 1... the API asserts M > 0)
   - mpq_t                -> (num, den) : Z * Z, canonical: den > 0, gcd = 1  (GMP canonical form)
   - lp_dyadic_rational_t -> record { da : Z; dn : N } denoting da / 2^dn
   - functions that write a struct field by field take the PREVIOUS contents of the output
     operand (`dst`) and an aliasing pattern as arguments, and are written as the same sequence
     of field assignments as the C code, so that "result independent of dst / aliasing" is a
     statement about the model and not an assumption.                                         *)
From Coq Require Import ZArith List Bool Znumtheory.
Import ListNotations.
Local Open Scope Z_scope.

(* ------------------------------------------------------------------ GMP primitives used *)

(* mpz_scan1(a, 0) for a <> 0: index of the lowest set bit = 2-adic valuation *)
Fixpoint pos_val2 (p : positive) : N :=
  match p with xO p' => N.succ (pos_val2 p') | _ => 0%N end.
Definition z_val2 (a : Z) : N :=
  match a with Z0 => 0%N | Zpos p => pos_val2 p | Zneg p => pos_val2 p end.

Definition pow2 (n : N) : Z := Z.pow 2 (Z.of_N n).

(* mpz_sizeinbase(a, 2): number of bits of |a|, 1 for a = 0 *)
Definition z_bits (a : Z) : Z := if a =? 0 then 1 else Z.log2 (Z.abs a) + 1.

(* mpz_cdiv_q *)
Definition z_cdiv (a b : Z) : Z := - ((- a) / b).

(* extended Euclid: the standard library's certified `euclid` (Znumtheory); returns (g, u, v) with
   u*a + v*b = g and g a gcd of a and b, normalised to g >= 0 *)
Definition egcd (a b : Z) : Z * Z * Z :=
  match euclid a b with
  | Euclid_intro _ _ u v d _ _ => if d <? 0 then (- d, - u, - v) else (d, u, v)
  end.

(* ------------------------------------------------------------------ integer.h / integer.c *)

Definition ring := option Z.

Definition ring_ub (M : Z) : Z := Z.quot M 2.               (* mpz_tdiv_q_2exp(ub, M, 1) *)
Definition ring_lb (M : Z) : Z := - Z.quot (M - 1) 2.       (* -[(M-1)/2]               *)

Definition in_ring (K : ring) (c : Z) : bool :=
  match K with
  | None => true
  | Some M =>
    match Z.sgn c with
    | 0 => true
    | Zpos _ => c <=? ring_ub M
    | Zneg _ => ring_lb M <=? c
    end
  end.

(* integer_ring_normalize: same statement order as the C code *)
Definition ring_norm (K : ring) (c : Z) : Z :=
  match K with
  | None => c
  | Some M =>
    if in_ring K c then c
    else
      let c1 := Z.rem c M in                       (* mpz_tdiv_r *)
      let sgn := Z.sgn c1 in
      let c2 := if (0 <? sgn) && (ring_ub M <? c1) then c1 - M else c1 in
      let c3 := if (sgn <? 0) && (c2 <? ring_lb M) then c2 + M else c2 in
      c3
  end.

Definition int_construct_from_int (K : ring) (x : Z) := ring_norm K x.
Definition int_assign (K : ring) (x : Z) := ring_norm K x.
Definition int_is_zero (K : ring) (c : Z) : bool := Z.sgn (ring_norm K c) =? 0.
Definition int_sgn (K : ring) (c : Z) : Z := Z.sgn (ring_norm K c).
Definition cmp_to_Z (c : comparison) : Z := match c with Lt => -1 | Eq => 0 | Gt => 1 end.
Definition int_cmp (K : ring) (a b : Z) : Z := cmp_to_Z (Z.compare (ring_norm K a) (ring_norm K b)).
Definition int_inc (K : ring) (a : Z) := ring_norm K (a + 1).
Definition int_dec (K : ring) (a : Z) := ring_norm K (a - 1).
Definition int_add (K : ring) (a b : Z) := ring_norm K (a + b).
Definition int_sub (K : ring) (a b : Z) := ring_norm K (a - b).
Definition int_neg (K : ring) (a : Z) := ring_norm K (- a).
Definition int_abs (K : ring) (a : Z) := ring_norm K (Z.abs a).
Definition int_mul (K : ring) (a b : Z) := ring_norm K (a * b).
Definition int_mul_pow2 (K : ring) (a : Z) (n : N) := ring_norm K (a * pow2 n).
(* mpz_powm_ui gives a residue in [0,M); any representative normalises to the same value *)
Definition int_pow (K : ring) (a : Z) (n : N) : Z :=
  match K with
  | None => Z.pow a (Z.of_N n)
  | Some M => ring_norm K ((Z.pow a (Z.of_N n)) mod M)
  end.
(* sum_product is the output AND an input *)
Definition int_add_mul (K : ring) (s a b : Z) := ring_norm K (s + a * b).
Definition int_sub_mul (K : ring) (s a b : Z) := ring_norm K (s - a * b).

(* mpz_invert: None when no inverse exists (C asserts) *)
Definition int_inv (K : ring) (a : Z) : option Z :=
  match K with
  | None => None
  | Some M =>
    let '(g, u, _) := egcd a M in
    if g =? 1 then Some (ring_norm K (u mod M)) else None
  end.

(* integer_divides(K, a, b): "a divides b" *)
Definition int_divides (K : ring) (is_prime : bool) (a b : Z) : bool :=
  match K with
  | None => if a =? 0 then b =? 0 else (b mod a =? 0)          (* mpz_divisible_p(b, a) *)
  | Some M =>
    if is_prime then negb (Z.sgn a =? 0)
    else let g := Z.gcd a M in (b mod g =? 0)
  end.

(* integer_div_exact in Z_M is determined only modulo M/gcd(b,M): the model provides the CHECKER
   of the defining congruence (used on the implementation's result), and one solution. *)
Definition int_div_exact (K : ring) (a b : Z) : option Z :=
  match K with
  | None => if b =? 0 then None else if a mod b =? 0 then Some (a / b) else None
  | Some M =>
    let '(g, c1, _) := egcd b M in
    if g =? 0 then None else
    if a mod g =? 0 then Some (ring_norm K (c1 * (a / g))) else None
  end.
Definition int_div_exact_ok (K : ring) (a b d : Z) : bool :=
  match K with
  | None => (d * b =? a)
  | Some M => ((d * b - a) mod M =? 0) && in_ring K d
  end.

Definition int_div_Z (a b : Z) := Z.quot a b.
Definition int_rem_Z (a b : Z) := Z.rem a b.
Definition int_gcd_Z (a b : Z) := Z.gcd a b.
Definition int_lcm_Z (a b : Z) := Z.lcm a b.
Definition int_sqrt_Z (a : Z) := Z.sqrt a.

(* ------------------------------------------------------------------ rational.h *)

Definition rat := (Z * Z)%type.

(* mpq_canonicalize; den = 0 is a division by zero in GMP: None *)
Definition q_canon (q : rat) : option rat :=
  let '(n, d) := q in
  if d =? 0 then None else
  let g := Z.gcd n d in
  let n' := n / g in
  let d' := d / g in
  if d' <? 0 then Some (- n', - d') else Some (n', d').

Definition q_canon' (q : rat) : rat := match q_canon q with Some r => r | None => (0, 1) end.

Definition q_is_canon (q : rat) : bool := (0 <? snd q) && (Z.gcd (fst q) (snd q) =? 1).

Definition q_from_int (a b : Z) : option rat := q_canon (a, b).
Definition q_from_integer (a : Z) : rat := (a, 1).
Definition q_add (a b : rat) : rat := q_canon' (fst a * snd b + fst b * snd a, snd a * snd b).
Definition q_sub (a b : rat) : rat := q_canon' (fst a * snd b - fst b * snd a, snd a * snd b).
Definition q_neg (a : rat) : rat := (- fst a, snd a).
Definition q_mul (a b : rat) : rat := q_canon' (fst a * fst b, snd a * snd b).
Definition q_inv (a : rat) : option rat := q_canon (snd a, fst a).
Definition q_div (a b : rat) : option rat := q_canon (fst a * snd b, snd a * fst b).
Definition q_mul_2exp (a : rat) (n : N) : rat := q_canon' (fst a * pow2 n, snd a).
Definition q_div_2exp (a : rat) (n : N) : rat := q_canon' (fst a, snd a * pow2 n).
Definition q_sgn (a : rat) : Z := Z.sgn (fst a).
Definition q_cmp (a b : rat) : Z := cmp_to_Z (Z.compare (fst a * snd b) (fst b * snd a)).
Definition q_floor (a : rat) : Z := fst a / snd a.                 (* mpz_fdiv_q *)
Definition q_ceiling (a : rat) : Z := z_cdiv (fst a) (snd a).      (* mpz_cdiv_q *)
Definition q_is_integer (a : rat) : bool := snd a =? 1.
Definition q_add_integer (a : rat) (b : Z) : rat := q_add a (q_from_integer b).
Definition q_cmp_integer (a : rat) (b : Z) : Z := q_cmp a (q_from_integer b).

(* rational_pow: square-and-multiply loop on the bits of n, as in the C code *)
Fixpoint q_pow_pos (res tmp : rat) (p : positive) : rat :=
  match p with
  | xH => q_mul res tmp
  | xO p' => q_pow_pos res (q_mul tmp tmp) p'
  | xI p' => q_pow_pos (q_mul res tmp) (q_mul tmp tmp) p'
  end.
Definition q_pow (a : rat) (n : N) : rat :=
  match n with N0 => (1, 1) | Npos p => q_pow_pos (1, 1) a p end.

(* ------------------------------------------------------------------ dyadic_rational.h *)

Record dyadic := mkDy { da : Z; dn : N }.

Definition set_a (d : dyadic) (a : Z) := mkDy a (dn d).
Definition set_n (d : dyadic) (n : N) := mkDy (da d) n.

(* dyadic_rational_normalize *)
Definition dy_normalize (q : dyadic) : dyadic :=
  if da q =? 0 then set_n q 0%N
  else if (0 <? dn q)%N then
    let first1 := z_val2 (da q) in
    if (0 <? first1)%N then
      let mn := if (dn q <=? first1)%N then dn q else first1 in
      mkDy (da q / pow2 mn) (dn q - mn)
    else q
  else q.

Definition dy_is_normalized (q : dyadic) : bool :=
  ((da q =? 0) && (dn q =? 0)%N) || ((z_val2 (da q) =? 0)%N && negb (da q =? 0)) || ((dn q =? 0)%N).

Definition dy_from_int (a : Z) (n : N) : dyadic := dy_normalize (mkDy a n).
Definition dy_from_integer (a : Z) : dyadic := dy_normalize (mkDy a 0).

(* Aliasing pattern of the output operand of a binary operation *)
Inductive alias := NoAlias | AliasA | AliasB | AliasAB.
Definition rdA (al : alias) (dst a : dyadic) :=
  match al with AliasA | AliasAB => dst | _ => a end.
Definition rdB (al : alias) (dst b : dyadic) :=
  match al with AliasB | AliasAB => dst | _ => b end.

(* Every function below: `dst` = previous contents of the output operand; inputs are re-read
   through rdA/rdB after each write to dst, exactly where the C code reads them. *)

Definition dy_add (al : alias) (dst a b : dyadic) : dyadic :=
  let an := dn (rdA al dst a) in
  let bn := dn (rdB al dst b) in
  if (an =? bn)%N then
    let d1 := set_a dst (da (rdA al dst a) + da (rdB al dst b)) in
    let d2 := set_n d1 (dn (rdA al d1 a)) in
    dy_normalize d2
  else if (bn <? an)%N then
    let b2n := da (rdB al dst b) * pow2 (an - bn) in
    let d1 := set_a dst (da (rdA al dst a) + b2n) in
    let d2 := set_n d1 (dn (rdA al d1 a)) in
    dy_normalize d2
  else
    let a2n := da (rdA al dst a) * pow2 (bn - an) in
    let d1 := set_a dst (a2n + da (rdB al dst b)) in
    let d2 := set_n d1 (dn (rdB al d1 b)) in
    dy_normalize d2.

Definition dy_sub (al : alias) (dst a b : dyadic) : dyadic :=
  let an := dn (rdA al dst a) in
  let bn := dn (rdB al dst b) in
  if (an =? bn)%N then
    let d1 := set_a dst (da (rdA al dst a) - da (rdB al dst b)) in
    let d2 := set_n d1 (dn (rdA al d1 a)) in
    dy_normalize d2
  else if (bn <? an)%N then
    let b2n := da (rdB al dst b) * pow2 (an - bn) in
    let d1 := set_a dst (da (rdA al dst a) - b2n) in
    let d2 := set_n d1 (dn (rdA al d1 a)) in
    dy_normalize d2
  else
    let a2n := da (rdA al dst a) * pow2 (bn - an) in
    let d1 := set_a dst (a2n - da (rdB al dst b)) in
    let d2 := set_n d1 (dn (rdB al d1 b)) in
    dy_normalize d2.

Definition dy_add_integer (al : alias) (dst a : dyadic) (b : Z) : dyadic :=
  let a0 := rdA al dst a in
  let d1 := if (0 <? dn a0)%N then set_a dst (da a0 + b * pow2 (dn a0)) else set_a dst (da a0 + b) in
  let d2 := set_n d1 (dn (rdA al d1 a)) in
  dy_normalize d2.

(* dyadic_rational_neg, as repaired: the exponent is copied too.  The pinned code wrote only the
   numerator (History.v keeps that version and its refutation). *)
Definition dy_neg (al : alias) (dst a : dyadic) : dyadic :=
  let d1 := set_a dst (- da (rdA al dst a)) in
  set_n d1 (dn (rdA al d1 a)).

Definition dy_mul (al : alias) (dst a b : dyadic) : dyadic :=
  let d1 := set_a dst (da (rdA al dst a) * da (rdB al dst b)) in
  let d2 := set_n d1 (dn (rdA al d1 a) + dn (rdB al d1 b)) in
  dy_normalize d2.

(* dyadic_rational_mul_2exp, as repaired: shift by n - a->n (the pinned code used mul->n). *)
Definition dy_mul_2exp (al : alias) (dst a : dyadic) (n : N) : dyadic :=
  let d1 := set_a dst (da (rdA al dst a)) in
  let a1 := rdA al d1 a in
  if (n <=? dn a1)%N then set_n d1 (dn a1 - n)
  else
    let d2 := set_a d1 (da a1 * pow2 (n - dn a1)) in
    set_n d2 0%N.

Definition dy_div_2exp (al : alias) (dst a : dyadic) (n : N) : dyadic :=
  let d1 := set_a dst (da (rdA al dst a)) in
  let d2 := set_n d1 (dn (rdA al d1 a) + n) in
  dy_normalize d2.

Definition dy_pow (al : alias) (dst a : dyadic) (n : N) : dyadic :=
  let d1 := set_a dst (Z.pow (da (rdA al dst a)) (Z.of_N n)) in
  set_n d1 (dn (rdA al d1 a) * n).

Definition dy_sgn (q : dyadic) : Z := Z.sgn (da q).

Definition dy_cmp (q1 q2 : dyadic) : Z :=
  let s1 := dy_sgn q1 in
  let s2 := dy_sgn q2 in
  if s1 =? s2 then
    if s1 =? 0 then 0
    else if (dn q1 =? dn q2)%N then cmp_to_Z (da q1 ?= da q2)
    else if (dn q2 <? dn q1)%N then cmp_to_Z (da q1 ?= da q2 * pow2 (dn q1 - dn q2))
    else cmp_to_Z (da q1 * pow2 (dn q2 - dn q1) ?= da q2)
  else s1 - s2.

Definition dy_cmp_integer (q : dyadic) (z : Z) : Z := dy_cmp q (dy_from_integer z).
Definition dy_get_num (q : dyadic) : Z := da q.
Definition dy_get_den (q : dyadic) : Z := pow2 (dn q).
Definition dy_is_integer (q : dyadic) : bool := (dn q =? 0)%N.
Definition dy_floor_int (q : dyadic) : Z := if (0 <? dn q)%N then da q / pow2 (dn q) else da q.
Definition dy_ceiling_int (q : dyadic) : Z := if (0 <? dn q)%N then z_cdiv (da q) (pow2 (dn q)) else da q.

Definition q_from_dyadic (d : dyadic) : rat :=
  if (0 <? dn d)%N then q_div_2exp (da d, 1) (dn d) else (da d, 1).
Definition q_cmp_dyadic (q : rat) (d : dyadic) : Z := q_cmp q (q_from_dyadic d).
Definition dy_cmp_rational (d : dyadic) (q : rat) : Z := - q_cmp_dyadic q d.

(* integer n-th root, floor: mpz_root.  Newton-free: bisection on fuel = bit length. *)
Fixpoint iroot_fuel (fuel : nat) (n : N) (a lo hi : Z) : Z :=
  (* invariant lo^n <= a < hi^n *)
  match fuel with
  | O => lo
  | S f =>
    if hi - lo <=? 1 then lo
    else let m := (lo + hi) / 2 in
         if Z.pow m (Z.of_N n) <=? a then iroot_fuel f n a m hi else iroot_fuel f n a lo m
  end.
Definition iroot (n : N) (a : Z) : Z :=
  if a <=? 0 then 0 else
  iroot_fuel (S (Z.to_nat (Z.log2 a + 2))) n a 0 (pow2 (Z.to_N (Z.log2 a / Z.of_N n + 1))).

(* dyadic_rational_root_approx as repaired: k is padded up to a multiple of n.
   Returns (result, exact). Requires a >= 0, n >= 1. *)
Definition dy_root_approx (a : dyadic) (n prec : N) (ceil : bool) : dyadic * bool :=
  if da a =? 0 then (mkDy (da a) (dn a), true)
  else
    let k0 := if (dn a <? prec)%N then prec else dn a in
    let k := (if (k0 mod n =? 0)%N then k0 else k0 + (n - k0 mod n))%N in
    let x := da a * pow2 (k - dn a) in
    let r := iroot n x in
    let exact := Z.pow r (Z.of_N n) =? x in
    let r' := if ceil && negb exact then r + 1 else r in
    (dy_normalize (mkDy r' (k / n)%N), exact).

(* dyadic_rational_get_value_between (dyadic_rational.c): a < b rationals *)
Fixpoint dy_between_loop (fuel : nat) (a b : rat) (lb ub : dyadic) : option dyadic :=
  match fuel with
  | O => None
  | S f =>
    let m0 := dy_add NoAlias (mkDy 0 0) lb ub in
    let m := dy_div_2exp AliasA m0 m0 1 in
    if 0 <=? q_cmp_dyadic a m then dy_between_loop f a b m ub
    else if q_cmp_dyadic b m <=? 0 then dy_between_loop f a b lb m
    else Some m
  end.
Definition dy_get_value_between (fuel : nat) (a b : rat) : option dyadic :=
  let m_q := q_div_2exp (q_add a b) 1 in
  let m_floor := q_floor m_q in
  let m_ceil := m_floor + 1 in
  if q_cmp_integer a m_floor <? 0 then Some (dy_from_integer m_floor)
  else if 0 <? q_cmp_integer b m_ceil then Some (dy_from_integer m_ceil)
  else dy_between_loop fuel a b (dy_from_integer m_floor) (dy_from_integer m_ceil).
