(* C18 proofs, part 2: the facts about the reference model MPoly.v that the order proofs need.
   A term list is read through its coefficient function `coeff`; canonical lists (strictly decreasing monomials,
   non-zero coefficients) are determined by it; monomials are read through their exponent function `mexp`. *)
From Coq Require Import ZArith NArith List Bool Lia Sorted Permutation.
From LP Require Import MPoly.
Import ListNotations.
Local Open Scope Z_scope.

(* ---------------------------------------------------------------- mono_cmp is a decidable total order *)
Lemma mono_cmp_refl : forall a, mono_cmp a a = Eq.
Proof. induction a as [|[x e] a IH]; cbn; auto. now rewrite !N.compare_refl. Qed.

Lemma mono_cmp_eq : forall a b, mono_cmp a b = Eq -> a = b.
Proof.
  induction a as [|[x e] a IH]; intros [|[y f] b]; cbn; try discriminate; auto.
  destruct (N.compare_spec x y) as [Hxy| |]; try discriminate. destruct (N.compare_spec e f) as [Hef| |]; try discriminate.
  intros Hab; subst; f_equal; auto.
Qed.

Lemma mono_cmp_antisym : forall a b, mono_cmp b a = CompOpp (mono_cmp a b).
Proof.
  induction a as [|[x e] a IH]; intros [|[y f] b]; cbn; auto.
  rewrite (N.compare_antisym x y). destruct (N.compare x y); cbn; auto.
  rewrite (N.compare_antisym e f). destruct (N.compare e f); cbn; auto.
Qed.

Lemma mono_cmp_trans : forall a b c, mono_cmp a b = Gt -> mono_cmp b c = Gt -> mono_cmp a c = Gt.
Proof.
  induction a as [|[x e] a IH]; intros [|[y f] b] [|[z g] c]; cbn; try discriminate; auto.
  destruct (N.compare_spec x y) as [Hxy|Hxy|Hxy]; try discriminate;
    destruct (N.compare_spec y z) as [Hyz|Hyz|Hyz]; try discriminate; subst.
  - rewrite N.compare_refl.
    destruct (N.compare_spec e f) as [Hef|Hef|Hef]; try discriminate;
      destruct (N.compare_spec f g) as [Hfg|Hfg|Hfg]; try discriminate; subst.
    + rewrite N.compare_refl. apply IH.
    + intros _ _; match goal with |- match (?u ?= ?v)%N with _ => _ end = Gt => rewrite (proj2 (N.compare_gt_iff u v)) by lia end; reflexivity.
    + intros _ _; match goal with |- match (?u ?= ?v)%N with _ => _ end = Gt => rewrite (proj2 (N.compare_gt_iff u v)) by lia end; reflexivity.
    + intros _ _; match goal with |- match (?u ?= ?v)%N with _ => _ end = Gt => rewrite (proj2 (N.compare_gt_iff u v)) by lia end; reflexivity.
  - intros _ _; match goal with |- match (?u ?= ?v)%N with _ => _ end = Gt => rewrite (proj2 (N.compare_gt_iff u v)) by lia end; reflexivity.
  - intros _ _; match goal with |- match (?u ?= ?v)%N with _ => _ end = Gt => rewrite (proj2 (N.compare_gt_iff u v)) by lia end; reflexivity.
  - intros _ _; match goal with |- match (?u ?= ?v)%N with _ => _ end = Gt => rewrite (proj2 (N.compare_gt_iff u v)) by lia end; reflexivity.
Qed.

(* ---------------------------------------------------------------- coefficient function of a term list *)
Definition tcoef (t : term) (m : mono) : Z := match mono_cmp (fst t) m with Eq => snd t | _ => 0 end.
Fixpoint coeff (p : list term) (m : mono) : Z :=
  match p with [] => 0 | t :: p' => tcoef t m + coeff p' m end.

Lemma coeff_app : forall p q m, coeff (p ++ q) m = coeff p m + coeff q m.
Proof. induction p; intros; cbn; [lia|]. rewrite IHp; lia. Qed.

Lemma coeff_perm : forall p q, Permutation p q -> forall m, coeff p m = coeff q m.
Proof. induction 1; intros m; cbn; auto; try lia. rewrite IHPermutation; lia. now rewrite IHPermutation1. Qed.

Lemma coeff_add_term : forall t p m, coeff (mp_add_term t p) m = tcoef t m + coeff p m.
Proof.
  intros [mt c] p m. induction p as [|[m' c'] p IH]; cbn [mp_add_term].
  - destruct (Z.eqb_spec c 0); cbn; [|lia]. unfold tcoef; cbn. subst. now destruct (mono_cmp mt m).
  - destruct (Z.eqb_spec c 0) as [->|Hc].
    { unfold tcoef at 1; cbn [fst snd]. destruct (mono_cmp mt m); lia. }
    destruct (mono_cmp mt m') eqn:E.
    + apply mono_cmp_eq in E; subst m'.
      destruct (Z.eqb_spec (c + c') 0) as [Hz|Hz]; cbn [coeff]; unfold tcoef; cbn [fst snd]; destruct (mono_cmp mt m); lia.
    + cbn [coeff]. cbn [mp_add_term] in IH. destruct (Z.eqb_spec c 0); [contradiction|]. rewrite IH. lia.
    + cbn [coeff]. lia.
Qed.

Lemma coeff_of_terms : forall l m, coeff (mp_of_terms l) m = coeff l m.
Proof. induction l as [|t l IH]; intros m; cbn [mp_of_terms fold_right coeff]; auto. rewrite coeff_add_term. unfold mp_of_terms in IH. now rewrite IH. Qed.

(* ---------------------------------------------------------------- canonical lists *)
Definition mgt (t u : term) : Prop := mono_cmp (fst t) (fst u) = Gt.
Definition canon (p : list term) : Prop := StronglySorted mgt p /\ Forall (fun t => snd t <> 0) p.

Lemma canon_nil : canon []. Proof. split; constructor. Qed.
Lemma canon_tail : forall t p, canon (t :: p) -> canon p.
Proof. intros t p [H1 H2]; inversion H1; inversion H2; subst; split; auto. Qed.

Lemma coeff_above : forall p m, Forall (fun u => mono_cmp m (fst u) = Gt) p -> coeff p m = 0.
Proof.
  induction 1 as [|u p Hu _ IH]; cbn; auto. unfold tcoef. rewrite mono_cmp_antisym, Hu. cbn. lia.
Qed.

Lemma canon_add_term : forall t p, canon p -> canon (mp_add_term t p) /\
  (forall m, Forall (fun u => mono_cmp m (fst u) = Gt) p -> mono_cmp m (fst t) = Gt ->
             Forall (fun u => mono_cmp m (fst u) = Gt) (mp_add_term t p)).
Proof.
  intros [mt c] p. induction p as [|[m' c'] p IH]; intros Hc.
  - cbn [mp_add_term]. destruct (Z.eqb_spec c 0).
    + split; [apply canon_nil|auto].
    + split; [split; repeat constructor; auto|]. intros m _ H; constructor; auto.
  - cbn [mp_add_term]. destruct (Z.eqb_spec c 0) as [|Hnz]; [split; auto|].
    pose proof (canon_tail _ _ Hc) as Hct. destruct Hc as [Hs Hf]. inversion Hs as [|? ? Hs' Hall]; subst. inversion Hf as [|? ? Hc' Hf']; subst.
    destruct (mono_cmp mt m') eqn:E.
    + apply mono_cmp_eq in E; subst m'. destruct (Z.eqb_spec (c + c') 0).
      * split; [exact Hct|]. intros m Hm _. now inversion Hm.
      * split. { split; constructor; auto. } intros m Hm Hmt. inversion Hm; subst. constructor; auto.
    + (* Lt: goes further down *)
      specialize (IH Hct). cbn [mp_add_term] in IH. destruct (Z.eqb_spec c 0); [contradiction|].
      destruct IH as [[IHs IHf] IHb]. split.
      * split; constructor; auto. apply (IHb m'); auto. cbn [fst]. rewrite mono_cmp_antisym, E. reflexivity.
      * intros m Hm Hmt. inversion Hm; subst. constructor; auto.
    + split.
      * split.
        -- constructor; [exact Hs|]. constructor; [exact E|]. rewrite Forall_forall in Hall |- *. intros u Hu.
           specialize (Hall u Hu). unfold mgt in *; cbn [fst] in *. apply (mono_cmp_trans _ m'); auto.
        -- constructor; [cbn; exact Hnz|exact Hf].
      * intros m Hm Hmt. constructor; auto.
Qed.

Lemma canon_of_terms : forall l, canon (mp_of_terms l).
Proof. induction l as [|t l IH]; [apply canon_nil|]. apply canon_add_term, IH. Qed.

Lemma canon_unique : forall p q, canon p -> canon q -> (forall m, coeff p m = coeff q m) -> p = q.
Proof.
  induction p as [|[m1 c1] p IH]; intros q Hp Hq He.
  - destruct q as [|[m2 c2] q]; auto. exfalso.
    destruct Hq as [Hs Hf]. inversion Hs as [|? ? Hs' Ha]; subst. inversion Hf as [|? ? Hc Hf']; subst.
    specialize (He m2). cbn in He. unfold tcoef in He; cbn in He. rewrite mono_cmp_refl in He.
    rewrite (coeff_above q m2 Ha) in He. cbn in *; lia.
  - destruct q as [|[m2 c2] q].
    + exfalso. destruct Hp as [Hs Hf]. inversion Hs as [|? ? Hs' Ha]; subst. inversion Hf as [|? ? Hc Hf']; subst.
      specialize (He m1). cbn in He. unfold tcoef in He; cbn in He. rewrite mono_cmp_refl in He.
      rewrite (coeff_above p m1 Ha) in He. cbn in *; lia.
    + pose proof (canon_tail _ _ Hp) as Hpt. pose proof (canon_tail _ _ Hq) as Hqt.
      destruct Hp as [Hs1 Hf1]. inversion Hs1 as [|? ? _ Ha1]; subst. inversion Hf1 as [|? ? Hc1 _]; subst.
      destruct Hq as [Hs2 Hf2]. inversion Hs2 as [|? ? _ Ha2]; subst. inversion Hf2 as [|? ? Hc2 _]; subst.
      cbn [snd] in *.
      assert (Hp0 : coeff p m1 = 0) by (apply coeff_above; exact Ha1).
      assert (Hq0 : coeff q m2 = 0) by (apply coeff_above; exact Ha2).
      destruct (mono_cmp m1 m2) eqn:E.
      * apply mono_cmp_eq in E; subst m2.
        pose proof (He m1) as H1. cbn in H1. unfold tcoef in H1; cbn in H1. rewrite mono_cmp_refl in H1.
        assert (c1 = c2) by lia. subst c2. f_equal. apply IH; auto.
        intros m. specialize (He m). cbn in He. lia.
      * (* m1 < m2: q has m2, p does not *)
        exfalso. pose proof (He m2) as H2. cbn in H2. unfold tcoef in H2; cbn in H2. rewrite mono_cmp_refl, E in H2.
        rewrite (coeff_above p m2) in H2.
        -- lia.
        -- rewrite Forall_forall in Ha1 |- *. intros u Hu. apply (mono_cmp_trans _ m1); [|now apply Ha1].
           rewrite mono_cmp_antisym, E; reflexivity.
      * exfalso. pose proof (He m1) as H1. cbn in H1. unfold tcoef in H1; cbn in H1. rewrite mono_cmp_refl in H1.
        rewrite mono_cmp_antisym, E in H1. cbn in H1.
        rewrite (coeff_above q m1) in H1.
        -- lia.
        -- rewrite Forall_forall in Ha2 |- *. intros u Hu. apply (mono_cmp_trans _ m2); [exact E|now apply Ha2].
Qed.

(* two term lists have the same canonical form iff they have the same coefficient function *)
Lemma of_terms_ext : forall l1 l2, (forall m, coeff l1 m = coeff l2 m) -> mp_of_terms l1 = mp_of_terms l2.
Proof. intros l1 l2 H. apply canon_unique; try apply canon_of_terms. intros m; now rewrite !coeff_of_terms. Qed.

Lemma of_terms_canon : forall p, canon p -> mp_of_terms p = p.
Proof. intros p H. apply canon_unique; auto; [apply canon_of_terms|]. intros; apply coeff_of_terms. Qed.

Lemma add_term_of_terms : forall t l, mp_add_term t (mp_of_terms l) = mp_of_terms (t :: l).
Proof. reflexivity. Qed.

(* ---------------------------------------------------------------- exponent function of a power list *)
Fixpoint mexp (m : list (var * N)) (x : var) : N :=
  match m with [] => 0%N | (y, e) :: m' => ((if N.eqb y x then e else 0) + mexp m' x)%N end.

Lemma mexp_app : forall a b x, mexp (a ++ b) x = (mexp a x + mexp b x)%N.
Proof. induction a as [|[y e] a IH]; intros; cbn; auto. rewrite IH; lia. Qed.

Lemma mexp_perm : forall a b, Permutation a b -> forall x, mexp a x = mexp b x.
Proof.
  induction 1 as [|[y e] a b _ IH|[y e] [z f] a|a b c _ IH1 _ IH2]; intros x; cbn; auto.
  - now rewrite IH.
  - lia.
  - now rewrite IH1.
Qed.

Lemma mexp_mono_mul : forall a b x, mexp (mono_mul a b) x = (mexp a x + mexp b x)%N.
Proof.
  induction a as [|[y e] a IHa]; intros b x; [reflexivity|].
  induction b as [|[z f] b IHb]; [cbn; lia|].
  cbn [mono_mul]. destruct (N.compare_spec y z) as [->|Hlt|Hgt].
  - cbn [mexp]. rewrite IHa. destruct (N.eqb z x); lia.
  - cbn [mexp]. rewrite IHa. cbn [mexp]. lia.
  - cbn [mexp]. cbn [mono_mul] in IHb. rewrite IHb. cbn [mexp]. lia.
Qed.

Lemma mexp_mono_var : forall y e x, mexp (mono_var y e) x = if N.eqb y x then e else 0%N.
Proof.
  intros y e x. unfold mono_var. destruct (N.eqb_spec e 0) as [->|]; cbn; [now destruct (N.eqb y x)|]. destruct (N.eqb y x); lia.
Qed.

(* canonical monomials *)
Lemma mono_wf_from_weaken : forall m lo, mono_wf_from lo m = true -> mono_wf_from None m = true.
Proof. intros [|[x e] m] lo; cbn; auto. rewrite !andb_true_iff. tauto. Qed.

Lemma mexp_below : forall m y x, mono_wf_from (Some y) m = true -> (x <= y)%N -> mexp m x = 0%N.
Proof.
  induction m as [|[z e] m IH]; intros y x H Hle; cbn in *; auto.
  rewrite !andb_true_iff in H. destruct H as [[_ Hyz] Hm]. apply N.ltb_lt in Hyz.
  destruct (N.eqb_spec z x); [lia|]. rewrite (IH z x); auto; lia.
Qed.

Lemma mono_wf_unique_from : forall a b lo, mono_wf_from lo a = true -> mono_wf_from lo b = true ->
  (forall x, mexp a x = mexp b x) -> a = b.
Proof.
  induction a as [|[x e] a IH]; intros [|[y f] b] lo Ha Hb He; auto.
  - exfalso. cbn in Hb. rewrite !andb_true_iff in Hb. destruct Hb as [[Hf _] Hb']. apply N.ltb_lt in Hf.
    specialize (He y). cbn in He. rewrite N.eqb_refl in He. lia.
  - exfalso. cbn in Ha. rewrite !andb_true_iff in Ha. destruct Ha as [[Hf _] _]. apply N.ltb_lt in Hf.
    specialize (He x). cbn in He. rewrite N.eqb_refl in He. lia.
  - cbn in Ha, Hb. rewrite !andb_true_iff in Ha, Hb. destruct Ha as [[He0 _] Ha]. destruct Hb as [[Hf0 _] Hb].
    apply N.ltb_lt in He0, Hf0.
    destruct (N.compare_spec x y) as [->|Hlt|Hgt].
    + pose proof (He y) as H. cbn in H. rewrite N.eqb_refl in H.
      rewrite (mexp_below a y y), (mexp_below b y y) in H by (auto; lia). assert (e = f) by lia. subst f.
      f_equal. apply (IH b (Some y)); auto. intros z. specialize (He z). cbn in He. lia.
    + exfalso. pose proof (He x) as H. cbn in H. rewrite N.eqb_refl in H.
      destruct (N.eqb_spec y x); [lia|]. rewrite (mexp_below b y x) in H by (auto; lia). lia.
    + exfalso. pose proof (He y) as H. cbn in H. rewrite N.eqb_refl in H.
      destruct (N.eqb_spec x y); [lia|]. rewrite (mexp_below a x y) in H by (auto; lia). lia.
Qed.

Lemma mono_wf_unique : forall a b, mono_wf a = true -> mono_wf b = true -> (forall x, mexp a x = mexp b x) -> a = b.
Proof. intros a b; apply mono_wf_unique_from. Qed.

Definition lo_ok (lo : option var) (m : mono) : Prop :=
  match lo, m with Some y, (x, _) :: _ => (y < x)%N | _, _ => True end.

Lemma mono_wf_from_lo : forall lo m, mono_wf_from lo m = true <-> (mono_wf_from None m = true /\ lo_ok lo m).
Proof.
  intros lo [|[x e] m]; [destruct lo; cbn; tauto|]. cbn. rewrite !andb_true_iff. destruct lo as [y|]; cbn; rewrite ?N.ltb_lt; intuition.
Qed.

Lemma mono_wf_mul_from : forall a b lo, mono_wf_from lo a = true -> mono_wf_from lo b = true ->
  mono_wf_from lo (mono_mul a b) = true.
Proof.
  induction a as [|[x e] a IHa]; intros b lo Ha Hb; [exact Hb|].
  induction b as [|[y f] b IHb] in lo, Ha, Hb |- *; [exact Ha|].
  cbn [mono_mul]. pose proof Ha as Ha0. pose proof Hb as Hb0.
  cbn [mono_wf_from] in Ha, Hb. rewrite !andb_true_iff in Ha, Hb.
  destruct Ha as [[He Hlx] Ha]. destruct Hb as [[Hf Hly] Hb].
  destruct (N.compare_spec x y) as [->|Hlt|Hgt]; cbn [mono_wf_from]; rewrite !andb_true_iff.
  - repeat split; auto.
    apply N.ltb_lt in He. apply N.ltb_lt. lia.
  - repeat split; auto.
    apply IHa; auto. apply mono_wf_from_lo. split; [eapply mono_wf_from_weaken; exact Hb0|]. cbn. exact Hlt.
  - repeat split; auto.
    cbn [mono_mul] in IHb. apply IHb; auto.
    apply mono_wf_from_lo. split; [eapply mono_wf_from_weaken; exact Ha0|]. cbn. lia.
Qed.

Lemma mono_wf_mul : forall a b, mono_wf a = true -> mono_wf b = true -> mono_wf (mono_mul a b) = true.
Proof. intros a b; apply mono_wf_mul_from. Qed.

Lemma mono_wf_var : forall x e, mono_wf (mono_var x e) = true.
Proof. intros x e. unfold mono_var. destruct (N.eqb_spec e 0); cbn; auto. rewrite !andb_true_r. apply N.ltb_lt; lia. Qed.
