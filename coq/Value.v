(* L4 model: the DISPATCH logic of src/number/value.c (property C08).
   Executable Gallina, stdlib only, no proofs in this file.

   Conventions
   - lp_value_t                  -> value  (the tag LP_VALUE_NONE is not a number and is not modelled)
   - integer / dyadic / rational payloads and their operations: Scalar.v (property C17)
   - algebraic payload           -> the REFERENCE real algebraic number `rnum` of RefAlg.v:
        RQ q        an lp_algebraic_number_t that is a point (f == NULL); q its (dyadic) value
        RA p lo hi  a proper one: defining polynomial f = p, open isolating interval I = (lo, hi)
     The algorithms of algebraic_number.c (cmp, add, mul, inv, refine ...) are property C07's; here they are
     replaced by the reference operations rn_cmp, rn_add, ... and only what value.c itself reads from the
     struct (is the interval a point? degree of f? the two interval ends) is taken from the representation.
   - functions that can hit `assert(0)` / a GMP division by zero return `Undef`; data-dependent loops take
     `fuel` and return `NoFuel` on exhaustion.
   - the result operand of every lp_value_* operation is a local `result` that is constructed fresh and then
     swapped into the output, so the previous contents of the output never reach the computation:
     dyadic operations are therefore called with the fresh destination 0/2^0 and NoAlias.              *)
From Coq Require Import ZArith NArith List Bool.
From LP Require Import Scalar UPoly RefAlg.
Import ListNotations.
Local Open Scope Z_scope.

Inductive value :=
| VInt (z : Z)        (* LP_VALUE_INTEGER          = 1 *)
| VDy (d : dyadic)    (* LP_VALUE_DYADIC_RATIONAL  = 2 *)
| VRat (q : rat)      (* LP_VALUE_RATIONAL         = 3 *)
| VAlg (x : rnum)     (* LP_VALUE_ALGEBRAIC        = 4 *)
| VPinf               (* LP_VALUE_PLUS_INFINITY    = 5 *)
| VMinf.              (* LP_VALUE_MINUS_INFINITY   = 6 *)

(* numeric value of the enum lp_value_type_t (the code compares `v1->type < v2->type`) *)
Definition vtype (v : value) : Z :=
  match v with VInt _ => 1 | VDy _ => 2 | VRat _ => 3 | VAlg _ => 4 | VPinf => 5 | VMinf => 6 end.

Inductive vres (A : Type) := ROk (a : A) | RUndef | RFuel.
Arguments ROk {A} a.
Arguments RUndef {A}.
Arguments RFuel {A}.

Definition r_of_opt {A} (o : option A) : vres A := match o with Some a => ROk a | None => RFuel end.
Definition r_of_opt_undef {A} (o : option A) : vres A := match o with Some a => ROk a | None => RUndef end.
Definition vr_map {A B} (f : A -> B) (r : vres A) : vres B :=
  match r with ROk a => ROk (f a) | RUndef => RUndef | RFuel => RFuel end.
Definition vr_bind {A B} (r : vres A) (f : A -> vres B) : vres B :=
  match r with ROk a => f a | RUndef => RUndef | RFuel => RFuel end.

Definition dy_fresh : dyadic := mkDy 0 0.           (* lp_dyadic_rational_construct *)

(* ------------------------------------------------------------------ what value.c reads from an algebraic number *)
Definition va_is_point (x : rnum) : bool := match x with RQ _ => true | RA _ _ _ => false end.
(* lp_algebraic_number_is_rational: a point, or degree 1 (documented as incomplete) *)
Definition va_is_rational (x : rnum) : bool :=
  match x with RQ _ => true | RA p _ _ => Nat.eqb (pdeg p) 1 end.
(* lp_algebraic_number_is_integer: only a point can be *)
Definition va_is_integer (x : rnum) : bool :=
  match x with RQ q => q_is_integer q | RA _ _ _ => false end.
(* lp_algebraic_number_floor: floor of the LOWER interval end; _ceiling: ceiling of the UPPER end (a point: of it) *)
Definition va_floor (x : rnum) : Z := match x with RQ q => q_floor q | RA _ lo _ => q_floor lo end.
Definition va_ceiling (x : rnum) : Z := match x with RQ q => q_ceiling q | RA _ _ hi => q_ceiling hi end.
(* p = a x + b  =>  x = -b/a : rational_construct_from_div(b, a); rational_neg *)
Definition va_lin_root (p : poly) : rat := q_neg (q_canon' (pcoef (pnorm p) 0, pcoef (pnorm p) 1)).
(* the ALGEBRAIC case of lp_value_get_rational / get_num / get_den *)
Definition va_get_rational (x : rnum) : vres rat :=
  match x with
  | RQ q => ROk q
  | RA p _ _ => if Nat.eqb (pdeg p) 1 then ROk (va_lin_root p) else RUndef     (* assert(0) *)
  end.
(* lp_algebraic_number_construct_from_integer / _dyadic_rational / _rational *)
Definition va_of_rat (q : rat) : rnum := RQ q.

(* ------------------------------------------------------------------ sign, comparison *)
Definition v_sgn (v : value) : Z :=
  match v with
  | VPinf => 1
  | VMinf => -1
  | VInt z => int_sgn None z
  | VRat q => q_sgn q
  | VDy d => dy_sgn d
  | VAlg x => rn_sgn x
  end.

(* second half of lp_value_cmp: different types, no infinity, v1->type > v2->type *)
Definition v_cmp_hi (v1 v2 : value) : vres Z :=
  match v1, v2 with
  | VDy d, VInt z => ROk (dy_cmp_integer d z)
  | VRat q, VInt z => ROk (q_cmp_integer q z)
  | VRat q, VDy d => ROk (q_cmp_dyadic q d)
  | VAlg x, VInt z => ROk (rn_cmp_q x (q_from_integer z))
  | VAlg x, VDy d => ROk (rn_cmp_q x (q_from_dyadic d))
  | VAlg x, VRat q => ROk (rn_cmp_q x q)
  | _, _ => RUndef                                                        (* assert(0) *)
  end.

Definition v_cmp (fuel : nat) (v1 v2 : value) : vres Z :=
  if vtype v1 =? vtype v2 then
    match v1, v2 with
    | VInt a, VInt b => ROk (int_cmp None a b)
    | VRat a, VRat b => ROk (q_cmp a b)
    | VDy a, VDy b => ROk (dy_cmp a b)
    | VAlg x, VAlg y => r_of_opt (rn_cmp fuel x y)
    | _, _ => ROk 0
    end
  else
    match v1, v2 with
    | VMinf, _ => ROk (-1)
    | _, VMinf => ROk 1
    | VPinf, _ => ROk 1
    | _, VPinf => ROk (-1)
    | _, _ => if vtype v1 <? vtype v2 then vr_map Z.opp (v_cmp_hi v2 v1) else v_cmp_hi v1 v2
    end.

(* `if (v1 == v2) return 0;` : the two arguments are the same object *)
Definition v_cmp_ptr (same : bool) (fuel : nat) (v1 v2 : value) : vres Z :=
  if same then ROk 0 else v_cmp fuel v1 v2.

Definition v_cmp_rational (v : value) (q : rat) : vres Z :=
  match v with
  | VPinf => ROk 1
  | VMinf => ROk (-1)
  | VInt z => ROk (- q_cmp_integer q z)
  | VDy d => ROk (- q_cmp_dyadic q d)
  | VRat r => ROk (q_cmp r q)
  | VAlg x => ROk (rn_cmp_q x q)
  end.

(* ------------------------------------------------------------------ predicates, rounding, extraction *)
Definition v_is_rational (v : value) : bool :=
  match v with
  | VInt _ | VDy _ | VRat _ => true
  | VAlg x => va_is_rational x
  | _ => false
  end.
Definition v_is_integer (v : value) : bool :=
  match v with
  | VInt _ => true
  | VDy d => dy_is_integer d
  | VRat q => q_is_integer q
  | VAlg x => va_is_integer x
  | _ => false
  end.
Definition v_is_infinity (v : value) : bool := match v with VPinf | VMinf => true | _ => false end.

Definition v_ceiling (v : value) : vres Z :=
  match v with
  | VInt z => ROk z
  | VDy d => ROk (dy_ceiling_int d)
  | VRat q => ROk (q_ceiling q)
  | VAlg x => ROk (va_ceiling x)
  | _ => RUndef
  end.
Definition v_floor (v : value) : vres Z :=
  match v with
  | VInt z => ROk z
  | VDy d => ROk (dy_floor_int d)
  | VRat q => ROk (q_floor q)
  | VAlg x => ROk (va_floor x)
  | _ => RUndef
  end.

Definition v_get_rational (v : value) : vres rat :=
  match v with
  | VInt z => ROk (q_from_integer z)
  | VDy d => ROk (q_from_dyadic d)
  | VRat q => ROk q
  | VAlg x => va_get_rational x
  | _ => RUndef
  end.
(* get_num / get_den start with assert(lp_value_is_rational(v)) *)
Definition v_get_num (v : value) : vres Z :=
  if negb (v_is_rational v) then RUndef else
  match v with
  | VInt z => ROk z
  | VDy d => ROk (dy_get_num d)
  | VRat q => ROk (fst q)
  | VAlg x => vr_map fst (va_get_rational x)      (* a point: dyadic_rational_get_num of it *)
  | _ => RUndef
  end.
Definition v_get_den (v : value) : vres Z :=
  if negb (v_is_rational v) then RUndef else
  match v with
  | VInt z => ROk 1
  | VDy d => ROk (dy_get_den d)
  | VRat q => ROk (snd q)
  | VAlg x => vr_map snd (va_get_rational x)
  | _ => RUndef
  end.

(* ------------------------------------------------------------------ lp_value_to_same_type *)
Definition v_to_same_type (v1 v2 : value) : option (value * value) :=
  if vtype v1 =? vtype v2 then Some (v1, v2) else
  match v1, v2 with
  | VInt z, VDy _ => Some (VDy (dy_from_integer z), v2)
  | VInt z, VRat _ => Some (VRat (q_from_integer z), v2)
  | VInt z, VAlg _ => Some (VAlg (va_of_rat (q_from_integer z)), v2)
  | VDy _, VInt z => Some (v1, VDy (dy_from_integer z))
  | VDy d, VRat _ => Some (VRat (q_from_dyadic d), v2)
  | VDy d, VAlg _ => Some (VAlg (va_of_rat (q_from_dyadic d)), v2)
  | VRat _, VInt z => Some (v1, VRat (q_from_integer z))
  | VRat _, VDy d => Some (v1, VRat (q_from_dyadic d))
  | VRat q, VAlg _ => Some (VAlg (va_of_rat q), v2)
  | VAlg _, VInt z => Some (v1, VAlg (va_of_rat (q_from_integer z)))
  | VAlg _, VDy d => Some (v1, VAlg (va_of_rat (q_from_dyadic d)))
  | VAlg _, VRat q => Some (v1, VAlg (va_of_rat q))
  | _, _ => None                                                          (* unsupported: return 0 *)
  end.

(* ------------------------------------------------------------------ arithmetic *)
Definition v_add (fuel : nat) (a b : value) : vres value :=
  match a with
  | VPinf => match b with VMinf => RUndef | _ => ROk VPinf end
  | VMinf => match b with VPinf => RUndef | _ => ROk VMinf end
  | _ =>
    match b with
    | VPinf => ROk VPinf        (* a is not -inf here *)
    | VMinf => ROk VMinf        (* a is not +inf here *)
    | _ =>
      match v_to_same_type a b with
      | None => RUndef                                                     (* assert(ret) *)
      | Some (a', b') =>
        match a', b' with
        | VInt x, VInt y => ROk (VInt (int_add None x y))
        | VDy x, VDy y => ROk (VDy (dy_add NoAlias dy_fresh x y))
        | VRat x, VRat y => ROk (VRat (q_add x y))
        | VAlg x, VAlg y => vr_map VAlg (r_of_opt (rn_add fuel x y))
        | _, _ => RUndef
        end
      end
    end
  end.

Definition v_neg (a : value) : value :=
  match a with
  | VInt z => VInt (int_neg None z)
  | VDy d => VDy (dy_neg NoAlias dy_fresh d)
  | VRat q => VRat (q_neg q)
  | VAlg x => VAlg (rn_neg x)
  | VPinf => VMinf
  | VMinf => VPinf
  end.

Definition v_sub (fuel : nat) (a b : value) : vres value := v_add fuel a (v_neg b).

Definition v_mul (fuel : nat) (a b : value) : vres value :=
  if v_is_infinity a || v_is_infinity b then
    let s := v_sgn a * v_sgn b in
    if 0 <? s then ROk VPinf else if negb (s =? 0) then ROk VMinf else RUndef
  else
    match v_to_same_type a b with
    | None => RUndef
    | Some (a', b') =>
      match a', b' with
      | VInt x, VInt y => ROk (VInt (int_mul None x y))
      | VDy x, VDy y => ROk (VDy (dy_mul NoAlias dy_fresh x y))
      | VRat x, VRat y => ROk (VRat (q_mul x y))
      | VAlg x, VAlg y => vr_map VAlg (r_of_opt (rn_mul fuel x y))
      | _, _ => RUndef
      end
    end.

(* mpq_inv of 0 is a GMP division by zero; lp_algebraic_number_inv asserts sgn != 0 *)
Definition v_inv (fuel : nat) (a : value) : vres value :=
  match a with
  | VInt z => vr_map VRat (r_of_opt_undef (q_inv (q_from_integer z)))
  | VDy d => vr_map VRat (r_of_opt_undef (q_inv (q_from_dyadic d)))
  | VRat q => vr_map VRat (r_of_opt_undef (q_inv q))
  | VAlg x => if rn_sgn x =? 0 then RUndef else vr_map VAlg (r_of_opt (rn_inv fuel x))
  | VPinf | VMinf => ROk (VInt 0)                                          (* lp_value_construct_zero *)
  end.

Definition v_div (fuel : nat) (a b : value) : vres value :=
  vr_bind (v_inv fuel b) (fun bi => v_mul fuel a bi).

(* lp_value_pow, as repaired: (+inf)^n = +inf.  The pinned code set -inf (History_C08.v). *)
Definition v_pow (fuel : nat) (a : value) (n : N) : vres value :=
  match a with
  | VInt z => ROk (VInt (int_pow None z n))
  | VDy d => ROk (VDy (dy_pow NoAlias dy_fresh d n))
  | VRat q => ROk (VRat (q_pow q n))
  | VAlg x => vr_map VAlg (r_of_opt (rn_pow fuel x (N.to_nat n)))
  | VPinf => ROk VPinf
  | VMinf => if N.odd n then ROk VMinf else ROk VPinf
  end.

(* ------------------------------------------------------------------ lp_value_get_value_between *)
(* The comparison at the top of the function refines the isolating intervals of algebraic operands (through the
   const pointers) until they are separated from the other operand; the hull computation below reads the refined
   intervals.  `cmp_sep` returns the comparison result together with the separated operands; the refinement
   schedule itself (C07's) is replaced by the reference one: bisect until the closed hulls are disjoint. *)
Definition v_fin_rat (v : value) : option rat :=
  match v with
  | VInt z => Some (q_from_integer z)
  | VDy d => Some (q_from_dyadic d)
  | VRat q => Some q
  | _ => None
  end.

Fixpoint va_sep (fuel : nat) (x y : rnum) : option (rnum * rnum) :=
  match fuel with
  | O => None
  | S f =>
    match x, y with
    | RQ a, _ => option_map (fun y' => (x, y')) (rn_refine_away (S f) y a)
    | _, RQ b => option_map (fun x' => (x', y)) (rn_refine_away (S f) x b)
    | RA _ lo hi, RA _ lo' hi' =>
      if q_le hi lo' || q_le hi' lo then Some (x, y) else va_sep f (rn_refine x) (rn_refine y)
    end
  end.

Definition v_cmp_sep (fuel : nat) (a b : value) : vres (Z * value * value) :=
  vr_bind (v_cmp fuel a b) (fun c =>
    if c =? 0 then ROk (c, a, b) else
    match a, b with
    | VAlg x, VAlg y => vr_map (fun xy => (c, VAlg (fst xy), VAlg (snd xy))) (r_of_opt (va_sep fuel x y))
    | VAlg x, _ =>
      match v_fin_rat b with
      | Some q => vr_map (fun x' => (c, VAlg x', b)) (r_of_opt (rn_refine_away fuel x q))
      | None => ROk (c, a, b)
      end
    | _, VAlg y =>
      match v_fin_rat a with
      | Some q => vr_map (fun y' => (c, a, VAlg y')) (r_of_opt (rn_refine_away fuel y q))
      | None => ROk (c, a, b)
      end
    | _, _ => ROk (c, a, b)
    end).

(* rational a_ub with a <= a_ub, and whether a_ub itself is excluded (first switch of the function) *)
Definition v_hull_upper (a : value) (strict : bool) : vres (rat * bool) :=
  match a with
  | VInt z => ROk (q_from_integer z, strict)
  | VDy d => ROk (q_from_dyadic d, strict)
  | VRat q => ROk (q, strict)
  | VAlg x =>
    if va_is_rational x then vr_map (fun q => (q, strict)) (va_get_rational x)
    else ROk (rn_hi x, false)          (* the upper end of the isolating interval can be picked *)
  | _ => RUndef
  end.
(* rational b_lb with b_lb <= b (second switch) *)
Definition v_hull_lower (b : value) (strict : bool) : vres (rat * bool) :=
  match b with
  | VInt z => ROk (q_from_integer z, strict)
  | VDy d => ROk (q_from_dyadic d, strict)
  | VRat q => ROk (q, strict)
  | VAlg x =>
    if va_is_rational x then vr_map (fun q => (q, strict)) (va_get_rational x)
    else ROk (rn_lo x, false)
  | _ => RUndef
  end.

(* the `for (;;)` search: lb <= a_ub < b_lb <= ub *)
Fixpoint v_pick_loop (fuel : nat) (a_ub b_lb lb ub : rat) : option rat :=
  match fuel with
  | O => None
  | S f =>
    let m := q_div_2exp (q_add lb ub) 1 in
    if 0 <=? q_cmp a_ub m then v_pick_loop f a_ub b_lb m ub
    else if 0 <=? q_cmp m b_lb then v_pick_loop f a_ub b_lb lb m
    else Some m
  end.

(* a_ub < b_lb: prefer floor / ceiling of the midpoint, else bisect [floor, ceiling] *)
Definition v_pick (fuel : nat) (a_ub : rat) (a_strict : bool) (b_lb : rat) (b_strict : bool) : option rat :=
  let m := q_div_2exp (q_add a_ub b_lb) 1 in
  let m_floor := q_floor m in
  let m_ceil := int_inc None m_floor in
  let c1 := q_cmp_integer a_ub m_floor in
  if (c1 <? 0) || ((c1 =? 0) && negb a_strict) then Some (q_from_integer m_floor)
  else
    let c2 := q_cmp_integer b_lb m_ceil in
    if (0 <? c2) || ((c2 =? 0) && negb b_strict) then Some (q_from_integer m_ceil)
    else v_pick_loop fuel a_ub b_lb (q_from_integer m_floor) (q_from_integer m_ceil).

(* lp_algebraic_number_refine_const on a bound that does not report itself rational *)
Definition v_refine_bound (v : value) : value :=
  match v with
  | VAlg x => if v_is_rational v then v else VAlg (rn_refine x)
  | _ => v
  end.

Fixpoint v_between_rec (k : nat) (fuel : nat) (a : value) (a_strict : bool) (b : value) (b_strict : bool)
  : vres value :=
  match k with
  | O => RFuel
  | S k' =>
    vr_bind (v_cmp_sep fuel a b) (fun r =>
      let '(c, a1, b1) := r in
      if c =? 0 then
        if a_strict || b_strict then RUndef else ROk a           (* lp_value_assign(v, a) *)
      else
        (* swap so that lo < hi *)
        let '(lo, slo, hi, shi) :=
          if 0 <? c then (b1, b_strict, a1, a_strict) else (a1, a_strict, b1, b_strict) in
        match lo, hi with
        | VMinf, VPinf => ROk (VInt 0)
        | VMinf, _ =>
          vr_bind (v_hull_lower hi shi) (fun h => ROk (VInt (int_dec None (q_floor (fst h)))))
        | _, VPinf =>
          vr_bind (v_hull_upper lo slo) (fun h => ROk (VInt (int_inc None (q_ceiling (fst h)))))
        | _, _ =>
          vr_bind (v_hull_upper lo slo) (fun ha =>
          vr_bind (v_hull_lower hi shi) (fun hb =>
            if q_cmp (fst ha) (fst hb) =? 0 then
              (* equal hull ends come from algebraic intervals: refine once more and retry *)
              v_between_rec k' fuel (v_refine_bound lo) slo (v_refine_bound hi) shi
            else
              vr_map VRat (r_of_opt (v_pick fuel (fst ha) (snd ha) (fst hb) (snd hb)))))
        end)
  end.
Definition v_between (fuel : nat) (a : value) (a_strict : bool) (b : value) (b_strict : bool) : vres value :=
  v_between_rec fuel fuel a a_strict b b_strict.

(* ------------------------------------------------------------------ lp_value_hash_approx: the bisection path *)
(* every representation finally hashes ONE object with ONE function: an integer (integer_hash) or the dyadic m
   left in the variable `m` when the loop stops (lp_dyadic_rational_hash).  The word mixing is not modelled. *)
Inductive hpath := HInt (z : Z) | HDy (m : dyadic) | HPinf | HMinf.

(* for (i = 0; i < precision; ++i) { m = (lb+ub)/2; cmp(q, m): 0 break; <0 swap(m, ub); >0 swap(m, lb); } *)
Fixpoint v_hash_loop (prec : nat) (cmpm : dyadic -> Z) (lb m ub : dyadic) : dyadic :=
  match prec with
  | O => m
  | S p =>
    let m1 := dy_add NoAlias m lb ub in
    let m2 := dy_div_2exp AliasA m1 m1 1 in
    let c := cmpm m2 in
    if c =? 0 then m2
    else if c <? 0 then v_hash_loop p cmpm lb ub m2      (* swap(m, ub): ub := midpoint, m := old ub *)
    else v_hash_loop p cmpm m2 lb ub                     (* swap(m, lb): lb := midpoint, m := old lb *)
  end.
Definition v_hash_frac (prec : N) (cmpm : dyadic -> Z) (fl ce : Z) : hpath :=
  HDy (v_hash_loop (N.to_nat prec) cmpm (dy_from_integer fl) (dy_from_integer fl) (dy_from_integer ce)).

Definition v_hash_path (prec : N) (v : value) : hpath :=
  match v with
  | VPinf => HPinf
  | VMinf => HMinf
  | VInt z => HInt z
  | VDy d =>
    if dy_is_integer d then HInt (da d)
    else v_hash_frac prec (fun m => dy_cmp d m) (dy_floor_int d) (dy_ceiling_int d)
  | VRat q =>
    if q_is_integer q then HInt (fst q)
    else v_hash_frac prec (fun m => q_cmp_dyadic q m) (q_floor q) (q_ceiling q)
  | VAlg x =>
    if va_is_integer x then HInt (fst (rn_lo x))
    else v_hash_frac prec (fun m => rn_cmp_q x (q_from_dyadic m)) (va_floor x) (va_ceiling x)
  end.

(* ------------------------------------------------------------------ the number a value stands for (reference side) *)
Definition v_to_xval (v : value) : xval :=
  match v with
  | VInt z => XFin (RQ (q_from_integer z))
  | VDy d => XFin (RQ (q_from_dyadic d))
  | VRat q => XFin (RQ q)
  | VAlg x => XFin x
  | VPinf => XPinf
  | VMinf => XMinf
  end.
