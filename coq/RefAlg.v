(* Shared base: REFERENCE real algebraic numbers (the "mathematical object" side for C07-C12).
   Executable, stdlib only, no proofs here.  Not a model of libpoly's algorithms: a deliberately simple
   exact arithmetic (square-free defining polynomial + rational isolating interval, Sturm counting,
   resultants by Laplace expansion) against which libpoly's results are compared BY DENOTATION.

   rnum:  RQ q            the rational q (canonical pair, den > 0)
          RA p lo hi      the unique real root of p in the open interval (lo, hi), where p is square-free
                          (primitive), p(lo) <> 0 <> p(hi), lo < hi rationals, and p has exactly one root there. *)
From Coq Require Import ZArith NArith List Bool.
From LP Require Import Scalar UPoly.
Import ListNotations.
Local Open Scope Z_scope.

Inductive rnum := RQ (q : rat) | RA (p : poly) (lo hi : rat).

Definition xr (q : rat) : xrat := Fin (fst q) (snd q).
Definition q_lt (a b : rat) : bool := q_cmp a b <? 0.
Definition q_le (a b : rat) : bool := q_cmp a b <=? 0.
Definition q_eq (a b : rat) : bool := q_cmp a b =? 0.
Definition q_mid (a b : rat) : rat := q_div_2exp (q_add a b) 1.
Definition q_min (a b : rat) := if q_le a b then a else b.
Definition q_max (a b : rat) := if q_le a b then b else a.
Definition q_of_Z (z : Z) : rat := (z, 1).
Definition psgn_q (p : poly) (q : rat) : Z := psgn_at_rat p (fst q) (snd q).

(* number of distinct real roots of square-free p in the OPEN interval (lo, hi), given p(hi) <> 0 or not *)
Definition count_open (p : poly) (lo hi : rat) : nat :=
  let c := count_roots_oc p (xr lo) (xr hi) in
  if psgn_q p hi =? 0 then Nat.pred c else c.

(* validity of a representation (checked on everything read from the implementation) *)
Definition rn_valid (x : rnum) : bool :=
  match x with
  | RQ q => q_is_canon q
  | RA p lo hi =>
    q_is_canon lo && q_is_canon hi && q_lt lo hi && negb (pis_zero p) &&
    negb (psgn_q p lo =? 0) && negb (psgn_q p hi =? 0) &&
    Nat.eqb (count_open (psqfree p) lo hi) 1
  end.

(* normalise the defining polynomial to its square-free primitive part *)
Definition rn_norm (x : rnum) : rnum :=
  match x with RQ q => RQ q | RA p lo hi => RA (psqfree p) lo hi end.

(* one bisection step (p square-free): halves the interval or discovers that the number is rational *)
Definition rn_refine (x : rnum) : rnum :=
  match x with
  | RQ q => x
  | RA p lo hi =>
    let m := q_mid lo hi in
    let sm := psgn_q p m in
    if sm =? 0 then RQ m
    else if psgn_q p lo * sm <? 0 then RA p lo m else RA p m hi
  end.

(* comparison with a rational *)
Definition rn_cmp_q (x : rnum) (q : rat) : Z :=
  match x with
  | RQ a => q_cmp a q
  | RA p lo hi =>
    if q_le q lo then 1
    else if q_le hi q then -1
    else if psgn_q p q =? 0 then 0
    else if psgn_q p lo * psgn_q p q <? 0 then -1 else 1   (* sign change on (lo,q): the root is below q *)
  end.
Definition rn_sgn (x : rnum) : Z := rn_cmp_q x (0, 1).

(* refine until the interval excludes q (or the number turns out rational) *)
Fixpoint rn_refine_away (fuel : nat) (x : rnum) (q : rat) : option rnum :=
  match fuel with
  | O => None
  | S f =>
    match x with
    | RQ _ => Some x
    | RA p lo hi => if q_le q lo || q_le hi q then Some x else rn_refine_away f (rn_refine x) q
    end
  end.

Definition rn_lo (x : rnum) : rat := match x with RQ q => q | RA _ lo _ => lo end.
Definition rn_hi (x : rnum) : rat := match x with RQ q => q | RA _ _ hi => hi end.
Definition rn_poly (x : rnum) : poly :=
  match x with RQ q => [- fst q; snd q] | RA p _ _ => p end.   (* den*x - num *)

(* comparison of two numbers: equal iff the gcd of the defining polynomials has a root in the intersection of
   the isolating intervals; otherwise bisect both until the intervals are disjoint *)
Fixpoint rn_cmp_loop (fuel : nat) (x y : rnum) : option Z :=
  match fuel with
  | O => None
  | S f =>
    match x, y with
    | RQ a, _ => Some (- rn_cmp_q y a)
    | _, RQ b => Some (rn_cmp_q x b)
    | RA p lo hi, RA p' lo' hi' =>
      if q_le hi lo' then Some (-1)
      else if q_le hi' lo then Some 1
      else rn_cmp_loop f (rn_refine x) (rn_refine y)
    end
  end.
Definition rn_eqb (x y : rnum) : bool :=
  match x, y with
  | RQ a, _ => rn_cmp_q y a =? 0
  | _, RQ b => rn_cmp_q x b =? 0
  | RA p lo hi, RA p' lo' hi' =>
    let l := q_max lo lo' in
    let h := q_min hi hi' in
    if q_lt l h then
      let g := pgcd p p' in
      if Nat.ltb (pdeg g) 1 then false
      else Nat.ltb 0 (count_open (psqfree g) l h)
    else false
  end.
Definition rn_cmp (fuel : nat) (x y : rnum) : option Z :=
  if rn_eqb x y then Some 0 else rn_cmp_loop fuel x y.

(* floor: refine until no integer lies strictly inside the interval *)
Fixpoint rn_floor (fuel : nat) (x : rnum) : option Z :=
  match fuel with
  | O => None
  | S f =>
    match x with
    | RQ q => Some (q_floor q)
    | RA p lo hi =>
      let fl := q_floor lo in
      (* integers in (lo, hi): fl+1 .. ; none iff fl+1 >= hi *)
      if q_le hi (q_of_Z (fl + 1)) then Some fl
      else match rn_cmp_q x (q_of_Z (fl + 1)) with
           | 0 => Some (fl + 1)
           | _ => rn_floor f (rn_refine x)
           end
    end
  end.
Definition rn_ceiling (fuel : nat) (x : rnum) : option Z :=
  match x with
  | RQ q => Some (q_ceiling q)
  | _ => match rn_floor fuel x with
         | Some fl => if rn_cmp_q x (q_of_Z fl) =? 0 then Some fl else Some (fl + 1)
         | None => None
         end
  end.
Definition rn_is_integer (fuel : nat) (x : rnum) : option bool :=
  match rn_floor fuel x with Some fl => Some (rn_cmp_q x (q_of_Z fl) =? 0) | None => None end.

(* is the number rational?  decided exactly: a rational root a/b of primitive p has (b x - a) | p;
   search the rational root inside the interval by refinement with the rational-root bound *)
(* (kept simple: x is rational iff some linear factor's root lies in the interval - tested via gcd with candidates
   is expensive; instead use: x rational <-> after removing all rational roots found by bisection ... )
   Here: decide by refining until the interval width is below 1/(lc^2) - two distinct rationals with denominators
   dividing lc differ by >= 1/lc^2 ... not needed by the checks; rationality is compared one-sidedly (C07.7). *)

(* ---------------------------------------------------------------- resultants over Z[z] by Laplace expansion *)
(* matrices of polynomials in z: list of rows *)
Definition pmat := list (list poly).

Fixpoint remove_nth {A} (n : nat) (l : list A) : list A :=
  match l, n with
  | [], _ => []
  | _ :: t, O => t
  | h :: t, S n' => h :: remove_nth n' t
  end.

(* determinant by expansion along the first row; fuel = dimension *)
Fixpoint pdet (fuel : nat) (m : pmat) : poly :=
  match fuel with
  | O => [1]
  | S f =>
    match m with
    | [] => [1]
    | row :: rest =>
      snd (fold_left (fun (acc : nat * poly) (a : poly) =>
             let j := fst acc in
             let minor := map (remove_nth j) rest in
             let t := if pis_zero a then [] else pmul a (pdet f minor) in
             (S j, if Nat.even j then padd (snd acc) t else psub (snd acc) t))
           row (O, []))
    end
  end.

(* fraction-free (Bareiss) determinant: same value as pdet, cubic cost; exact divisions by the previous pivot *)
Definition pdivx (a b : poly) : poly := match pdiv_exact a b with Some q => q | None => [] end.
Fixpoint pdet_bareiss (fuel : nat) (m : pmat) (prev : poly) (neg : bool) : poly :=
  match fuel with
  | O => []
  | S f =>
    match m with
    | [] => if neg then pneg prev else prev
    | _ =>
      (* find the first row whose head is non-zero *)
      let fix find (before after : pmat) : option (pmat * list poly * pmat) :=
          match after with
          | [] => None
          | r :: after' =>
            match r with
            | [] => None
            | h :: _ => if pis_zero h then find (before ++ [r]) after' else Some (before, r, after')
            end
          end in
      match find [] m with
      | None => []                                  (* a zero column: determinant 0 *)
      | Some (before, prow, after) =>
        let neg' := if Nat.odd (length before) then negb neg else neg in
        match prow with
        | [] => []
        | piv :: ptl =>
          let elim (r : list poly) : list poly :=
            match r with
            | [] => []
            | h :: tl => map (fun ab => pdivx (psub (pmul (fst ab) piv) (pmul h (snd ab))) prev) (combine tl ptl)
            end in
          match before ++ after with
          | [] => if neg' then pneg piv else piv
          | rest => pdet_bareiss f (map elim rest) piv neg'
          end
        end
      end
    end
  end.
Definition pdet_fast (m : pmat) : poly := pdet_bareiss (S (length m)) m [1] false.

(* Sylvester matrix of A = sum a_i t^i (deg m) and B = sum b_j t^j (deg n), coefficients polynomials in z,
   given HIGH degree first: n rows of shifted A, m rows of shifted B, size m+n *)
Definition sylvester (a b : list poly) : pmat :=
  let m := Nat.pred (length a) in
  let n := Nat.pred (length b) in
  map (fun i => repeat [] i ++ a ++ repeat [] (n - 1 - i)) (seq 0 n) ++
  map (fun i => repeat [] i ++ b ++ repeat [] (m - 1 - i)) (seq 0 m).
(* resultant in t of two bivariate polynomials given as coefficient lists in t (LOW degree first, leading
   coefficient non-zero), entries polynomials in z *)
Definition bires (a b : list poly) : poly :=
  let m := sylvester (rev a) (rev b) in pnorm (pdet_fast m).
Definition bires_ref (a b : list poly) : poly :=
  let m := sylvester (rev a) (rev b) in pnorm (pdet (length m) m).

(* bivariate helpers: polynomial in t with coefficients in Z[z] *)
Definition bp_of_upoly (p : poly) : list poly := map (fun c => if c =? 0 then [] else [c]) (pnorm p).
(* p(z - t) as polynomial in t with coefficients in Z[z]:  sum_k c_k (z - t)^k *)
Definition bp_add (a b : list poly) : list poly :=
  (fix go (a b : list poly) : list poly :=
     match a, b with
     | [], _ => b
     | _, [] => a
     | x :: a', y :: b' => padd x y :: go a' b'
     end) a b.
Definition bp_scale (c : poly) (a : list poly) : list poly := map (pmul c) a.
Fixpoint bp_mul (a b : list poly) : list poly :=
  match a with
  | [] => []
  | x :: a' => bp_add (bp_scale x b) ([] :: bp_mul a' b)
  end.
Fixpoint bp_pow (a : list poly) (n : nat) : list poly :=
  match n with O => [[1]] | S n' => bp_mul a (bp_pow a n') end.
(* substitute t := s(t,z) (a bivariate polynomial) into univariate p *)
Fixpoint bp_comp (p : poly) (s : list poly) : list poly :=
  match p with
  | [] => []
  | c :: p' => bp_add [if c =? 0 then [] else [c]] (bp_mul s (bp_comp p' s))
  end.
Definition bp_trim (a : list poly) : list poly :=
  rev ((fix drop (l : list poly) := match l with [] => [] | x :: l' => if pis_zero x then drop l' else l end) (rev a)).

(* annihilating polynomials (in z) of x+y, x*y, from p(x) = 0, q(y) = 0:
     sum:   Res_t (p(t), q(z - t))          product:  Res_t (p(t), t^deg(q) q(z/t))   *)
Definition ann_add (p q : poly) : poly :=
  bires (bp_of_upoly p) (bp_trim (bp_comp (pnorm q) [[0; 1]; [-1]])).
Definition ann_mul (p q : poly) : poly :=
  let q := pnorm q in
  let n := Nat.pred (length q) in
  (* t^n q(z/t) = sum_k q_k z^k t^(n-k) : coefficient of t^j is q_(n-j) z^(n-j) *)
  let b := map (fun j => let k := (n - j)%nat in pshift k [nth k q 0]) (seq 0 (S n)) in
  bires (bp_of_upoly p) (bp_trim (map pnorm b)).

(* ---------------------------------------------------------------- field operations by "refine until unique" *)
Definition rn_of_Z (z : Z) : rnum := RQ (z, 1).
Definition rn_neg (x : rnum) : rnum :=
  match x with
  | RQ q => RQ (q_neg q)
  | RA p lo hi => RA (ppp (pcomp p [0; -1])) (q_neg hi) (q_neg lo)
  end.

(* interval sum / product of the current enclosures *)
Definition iv_add (a b c d : rat) : rat * rat := (q_add a c, q_add b d).
Definition iv_mul (a b c d : rat) : rat * rat :=
  let p1 := q_mul a c in let p2 := q_mul a d in let p3 := q_mul b c in let p4 := q_mul b d in
  (q_min (q_min p1 p2) (q_min p3 p4), q_max (q_max p1 p2) (q_max p3 p4)).

(* generic selection: r = square-free annihilating polynomial of the result; refine x,y until the enclosure of
   the result (open interval (l,h), or the point when both are rational) contains exactly one root of r and
   r(l) <> 0 <> r(h) *)
Fixpoint rn_select (fuel : nat) (r : poly) (encl : rnum -> rnum -> rat * rat) (x y : rnum) : option rnum :=
  match fuel with
  | O => None
  | S f =>
    let '(l, h) := encl x y in
    if q_eq l h then Some (RQ l)
    else if negb (psgn_q r l =? 0) && negb (psgn_q r h =? 0) && Nat.eqb (count_open r l h) 1
    then Some (RA r l h)
    else rn_select f r encl (rn_refine x) (rn_refine y)
  end.

(* collapse to RQ when the isolated root is rational and happens to be hit; otherwise leave *)
Definition rn_add (fuel : nat) (x y : rnum) : option rnum :=
  match x, y with
  | RQ a, RQ b => Some (RQ (q_add a b))
  | _, _ =>
    let r := psqfree (ann_add (rn_poly x) (rn_poly y)) in
    rn_select fuel r (fun x y => iv_add (rn_lo x) (rn_hi x) (rn_lo y) (rn_hi y)) x y
  end.
Definition rn_sub (fuel : nat) (x y : rnum) : option rnum := rn_add fuel x (rn_neg y).
Definition rn_mul (fuel : nat) (x y : rnum) : option rnum :=
  match x, y with
  | RQ a, RQ b => Some (RQ (q_mul a b))
  | _, _ =>
    if (rn_sgn x =? 0) || (rn_sgn y =? 0) then Some (RQ (0, 1)) else
    let r := psqfree (ann_mul (rn_poly x) (rn_poly y)) in
    rn_select fuel r (fun x y => iv_mul (rn_lo x) (rn_hi x) (rn_lo y) (rn_hi y)) x y
  end.
(* inverse of a non-zero number: reversed polynomial, interval (1/hi, 1/lo) once both ends have the sign of x *)
Fixpoint rn_inv_loop (fuel : nat) (x : rnum) : option rnum :=
  match fuel with
  | O => None
  | S f =>
    match x with
    | RQ q => match q_inv q with Some i => Some (RQ i) | None => None end
    | RA p lo hi =>
      if 0 <? q_sgn lo * q_sgn hi then
        match q_inv hi, q_inv lo with
        | Some l, Some h => Some (RA (psqfree (rev (pnorm p))) l h)
        | _, _ => None
        end
      else rn_inv_loop f (rn_refine x)
    end
  end.
Definition rn_inv (fuel : nat) (x : rnum) : option rnum :=
  if rn_sgn x =? 0 then None else rn_inv_loop fuel x.
Definition rn_div (fuel : nat) (x y : rnum) : option rnum :=
  match rn_inv fuel y with Some i => rn_mul fuel x i | None => None end.
Fixpoint rn_pow (fuel : nat) (x : rnum) (n : nat) : option rnum :=
  match n with
  | O => Some (RQ (1, 1))
  | S O => Some x
  | S n' => match rn_pow fuel x n' with Some y => rn_mul fuel x y | None => None end
  end.
(* x^n directly: annihilator Res_t (p(t), z - t^n) (degree deg p in z) and selection by the enclosure (lo^n, hi^n)
   hull; much cheaper than n-1 successive products for large n *)
Definition ann_pow (p : poly) (n : nat) : poly :=
  bires (bp_of_upoly p) (bp_trim ([[0; 1]] ++ repeat [] (Nat.pred n) ++ [[-1]])).
Definition iv_pow (a b : rat) (n : nat) : rat * rat :=
  let pa := q_pow a (N.of_nat n) in let pb := q_pow b (N.of_nat n) in
  if Nat.even n && (q_sgn a * q_sgn b <? 0) then ((0, 1), q_max pa pb)     (* interval straddles 0, even power *)
  else (q_min pa pb, q_max pa pb).
Definition rn_pow_direct (fuel : nat) (x : rnum) (n : nat) : option rnum :=
  match n with
  | O => Some (RQ (1, 1))
  | S O => Some x
  | _ =>
    match x with
    | RQ q => Some (RQ (q_pow q (N.of_nat n)))
    | RA p _ _ =>
      if rn_sgn x =? 0 then Some (RQ (0, 1)) else
      let r := psqfree (ann_pow p n) in
      rn_select fuel r (fun x _ => iv_pow (rn_lo x) (rn_hi x) n) x x
    end
  end.

(* positive n-th root of x >= 0: the unique non-negative root of p(z^n) that is the n-th root; checked by
   comparing its n-th power with x, so only the annihilator and a selection are needed *)
Definition ann_root (p : poly) (n : nat) : poly := pcomp p (pshift n [1]).

(* multiplication by a non-zero rational a/b directly on the representation: y = (a/b) x, p(b y / a) = 0 *)
Definition rn_mul_q (x : rnum) (q : rat) : rnum :=
  match x with
  | RQ r => RQ (q_mul r q)
  | RA p lo hi =>
    if q_sgn q =? 0 then RQ (0, 1) else
    let p := pnorm p in
    let n := Nat.pred (length p) in
    let a := fst q in let b := snd q in
    let p' := map (fun kc => snd kc * Z.pow b (Z.of_nat (fst kc)) * Z.pow a (Z.of_nat (n - fst kc)))
                  (combine (seq 0 (length p)) p) in
    let l := q_mul lo q in let h := q_mul hi q in
    if 0 <? q_sgn q then RA (psqfree p') l h else RA (psqfree p') h l
  end.
(* x is rational iff lc(p) * x is an integer (rational root theorem) *)
Definition rn_is_rational (fuel : nat) (x : rnum) : option bool :=
  match x with
  | RQ _ => Some true
  | RA p _ _ => rn_is_integer fuel (rn_mul_q x (plc p, 1))
  end.
(* the rational value when there is one *)
Definition rn_to_rational (fuel : nat) (x : rnum) : option rat :=
  match x with
  | RQ q => Some q
  | RA p _ _ =>
    let w := rn_mul_q x (plc p, 1) in
    match rn_floor fuel w with
    | Some fl => if rn_cmp_q w (q_of_Z fl) =? 0 then q_canon (fl, plc p) else None
    | None => None
    end
  end.

(* ---------------------------------------------------------------- extended values (C08) *)
Inductive xval := XMinf | XFin (x : rnum) | XPinf.
Definition xv_cmp (fuel : nat) (a b : xval) : option Z :=
  match a, b with
  | XMinf, XMinf => Some 0 | XMinf, _ => Some (-1)
  | XPinf, XPinf => Some 0 | XPinf, _ => Some 1
  | XFin _, XMinf => Some 1 | XFin _, XPinf => Some (-1)
  | XFin x, XFin y => rn_cmp fuel x y
  end.

(* ---------------------------------------------------------------- exact evaluation of a multivariate polynomial
   at real algebraic points (reference for C10-C12; cost grows quickly with the degrees involved) *)
From LP Require Import MPoly.
Definition obind {A B} (o : option A) (f : A -> option B) : option B := match o with Some a => f a | None => None end.
Definition mono_eval_rn (fuel : nat) (rho : var -> rnum) (m : mono) : option rnum :=
  fold_right (fun ve acc => obind acc (fun a => obind (rn_pow fuel (rho (fst ve)) (N.to_nat (snd ve))) (fun b => rn_mul fuel b a)))
             (Some (RQ (1, 1))) m.
Definition mp_eval_rn (fuel : nat) (rho : var -> rnum) (p : mpoly) : option rnum :=
  fold_right (fun t acc =>
      obind acc (fun a => obind (mono_eval_rn fuel rho (fst t)) (fun mv => rn_add fuel (rn_mul_q mv (snd t, 1)) a)))
    (Some (RQ (0, 1))) p.

(* ---------------------------------------------------------------- all real roots of a polynomial, increasing *)
(* isolate the roots of square-free p inside (lo, hi] given that p(lo) <> 0: bisection with Sturm counts *)
Fixpoint rn_isolate (fuel : nat) (p : poly) (lo hi : rat) : option (list rnum) :=
  match fuel with
  | O => None
  | S f =>
    let c := count_roots_oc p (xr lo) (xr hi) in
    match c with
    | O => Some []
    | S O =>
      if psgn_q p hi =? 0 then Some [RQ hi] else Some [RA p lo hi]
    | _ =>
      let m := q_mid lo hi in
      if psgn_q p m =? 0 then
        (* m is a root: isolate left of it with a slightly smaller right end, i.e. count on (lo, m) by removing m *)
        match pdiv_exact p (ppp [- fst m; snd m]) with
        | Some p' =>
          match rn_isolate f p' lo hi with
          | Some rs =>
            (* insert the rational root m in order *)
            Some ((filter (fun r => rn_cmp_q r m <? 0) rs) ++ [RQ m] ++ (filter (fun r => 0 <? rn_cmp_q r m) rs))
          | None => None
          end
        | None => None
        end
      else
        match rn_isolate f p lo m, rn_isolate f p m hi with
        | Some l, Some r => Some (l ++ r)
        | _, _ => None
        end
    end
  end.
Definition rn_roots (fuel : nat) (p : poly) : option (list rnum) :=
  let p := psqfree p in
  if Nat.ltb (pdeg p) 1 then Some [] else
  let b := root_bound p in
  rn_isolate fuel p (- b, 1) (b, 1).
