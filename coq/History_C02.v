(* Regression memory for property C02: the pre-repair versions of the functions whose defects this check
   found in the pinned tree of /repo, each with a machine-checked refutation of the property on the faithful
   model.  The witnesses are in corpus/C02.txt and are replayed against the library on every run.
   Repairs: fixes/C02-*.patch. *)
From Coq Require Import ZArith NArith List Bool Lia.
From LP Require Import Scalar UPoly MPoly Division DivisionProofs.
Import ListNotations.
Local Open Scope Z_scope.

Definition X0 : mpoly := [([(0%N, 1%N)], 1)].      (* y = x0 *)
Definition X1 : mpoly := [([(1%N, 1%N)], 1)].      (* x = x1 *)

(* ------------------------------------------------------------------ 1. coefficient_divides *)
(* coefficient_divides of the pinned tree: the pseudo-remainder of C2 by C1 vanishes *)
Definition m_divides_prefix (lcmf : mpoly -> mpoly -> mpoly) (fuel : nat) (C1 C2 : mpoly) : option bool :=
  match m_prem lcmf fuel C2 C1 with Some R => Some (mp_is_zero R) | None => None end.

(* lp_polynomial_divides(2x, x) = 1 although x = Q * 2x has no solution in Z[x]: at x = 1 it reads 1 = 2*Q(1) *)
Theorem C02_divides_prefix_refuted :
  exists C1 C2, m_divides_prefix lcm_standin 20 C1 C2 = Some true /\
    ~ exists Q, forall rho, mp_eval rho C2 = mp_eval rho Q * mp_eval rho C1.
Proof.
  exists (mp_scale 2 X1), X1. split; [vm_compute; reflexivity|].
  intros [Q H]. specialize (H (fun _ : var => 1)).
  remember (mp_eval (fun _ : var => 1) Q) as q eqn:Eq. clear Eq. change (1 = q * 2) in H. lia.
Qed.

(* the same with a non-constant content: 2y*x "divides" y*x^2 *)
Theorem C02_divides_prefix_refuted_2 :
  exists C1 C2, m_divides_prefix lcm_standin 20 C1 C2 = Some true /\
    ~ exists Q, forall rho, mp_eval rho C2 = mp_eval rho Q * mp_eval rho C1.
Proof.
  exists (mp_scale 2 (mp_mul X0 X1)), (mp_mul X0 (mp_mul X1 X1)). split; [vm_compute; reflexivity|].
  intros [Q H]. specialize (H (fun _ : var => 1)).
  remember (mp_eval (fun _ : var => 1) Q) as q eqn:Eq. clear Eq. change (1 = q * 2) in H. lia.
Qed.

(* ------------------------------------------------------------------ 2. lp_upolynomial_divides *)
Definition udivides_prefix (K : ring) (is_prime : bool) (p q : list Z) : option bool :=
  match p with [] => None | _ =>
    if (udeg q <? udeg p)%nat then Some false
    else if (fst (ulow q) <? fst (ulow p))%nat then Some false
    else if negb (int_divides K is_prime (snd (ulow p)) (snd (ulow q))) then Some false
    else if (match K with Some _ => is_prime | None => false end) then
      match urem_exact K q p with Some r => Some (pis_zero r) | None => None end
    else
      match udiv_pseudo K q p with Some (d, r) => Some (pis_zero r) | None => None end
  end.

(* lp_upolynomial_divides(2x+4, x^2+4x+4) = 1; at x = 1: 9 = 6*d(1) is impossible *)
Theorem C02_udivides_prefix_refuted :
  exists p q, udivides_prefix None false p q = Some true /\
    ~ exists d, forall x, peval q x = peval d x * peval p x.
Proof.
  exists [4; 2], [4; 4; 1]. split; [vm_compute; reflexivity|].
  intros [d H]. specialize (H 1). remember (peval d 1) as v eqn:Ev. clear Ev. change (9 = v * 6) in H. lia.
Qed.

(* lp_upolynomial_divides(x, 0) = 0 although 0 = 0 * x *)
Theorem C02_udivides_prefix_zero_refuted :
  exists p q, udivides_prefix None false p q = Some false /\
    exists d, forall x, peval q x = peval d x * peval p x.
Proof. exists [0; 1], []. split; [vm_compute; reflexivity|]. exists []. intros x. reflexivity. Qed.

(* ------------------------------------------------------------------ 3. missed power of a vanished remainder *)
(* the pinned rule: only looks at the degrees, and a zero remainder has "degree 0" *)
Definition missed_power_prefix (R_zero : bool) (R_deg R_deg_prev B_deg : Z) : Z :=
  if 1 <? R_deg_prev - R_deg
  then (if R_deg <? B_deg then R_deg_prev - B_deg else R_deg_prev - R_deg - 1)
  else 0.

(* lp_polynomial_reduce(x, y): P = y, but lc(B)^(deg A - deg B + 1) = y^2 (at y = 2: 2 <> 4); the same for
   A = x, B = 2.  Whenever B is constant in x and the low coefficients of A vanish, one power is lost. *)
Theorem C02_dense_power_prefix_refuted :
  exists A B P Q R,
    reduce (fun _ _ => None) (fun a _ => a) missed_power_prefix PseudoDense 20 A B = Some (P, Q, R) /\
    cp_is_zero A = false /\ cp_deg B <= cp_deg A /\
    exists rho, mp_eval rho P <> mp_eval rho (cp_lc B) ^ (cp_deg A - cp_deg B + 1).
Proof.
  exists [[]; mp_const 1], [X0]. eexists. eexists. eexists.
  split; [vm_compute; reflexivity|]. split; [reflexivity|]. split; [vm_compute; discriminate|].
  exists (fun _ => 2). vm_compute. discriminate.
Qed.

(* ------------------------------------------------------------------ 4. coefficient_divrem, lower-variable divisor *)
Definition m_divrem_prefix (lcmf : mpoly -> mpoly -> mpoly) (fuel : nat) (C1 C2 : mpoly) : option (mpoly * mpoly) :=
  if mp_is_zero C2 then None else
  match cmp_type C1 C2 with
  | Lt => None
  | Eq => m_divrem_with lcmf fuel ExactSparse C1 C2
  | Gt =>
    match mp_top C1 with
    | None => None
    | Some x =>
      (* coefficient_rem(R, COEFF(C1, 0), C2); coefficient_div(D, C1, C2) *)
      match m_rem lcmf fuel (mp_coeff x 0 C1) C2, mp_div fuel C1 C2 with
      | Some R, Some D => Some (D, R)
      | _, _ => None
      end
    end
  end.

(* lp_polynomial_divrem(D, R, y*x, y): the constant coefficient of y*x in x is 0, a constant, and
   coefficient_rem asserts cmp_type >= 0: the call aborts (None) although y*x = x * y exactly *)
Theorem C02_divrem_prefix_refuted :
  exists C1 C2 Q, mp_mul Q C2 = C1 /\ cmp_type C1 C2 = Gt /\ m_divrem_prefix lcm_standin 20 C1 C2 = None.
Proof. exists (mp_mul X0 X1), X0, X1. vm_compute. auto. Qed.
