(* Regression memory for property C08: the pre-repair functions of value.c whose defects this development
   found or confirmed, each with a machine-checked refutation on the faithful model of the pinned code.
   The witnesses are in corpus/C08.txt and replayed on every run. *)
From Coq Require Import ZArith NArith QArith List Bool.
From LP Require Import Scalar ScalarProofs History UPoly RefAlg Value ValueProofs.
Local Open Scope Z_scope.

(* lp_value_pow of the pinned tree: case LP_VALUE_PLUS_INFINITY sets result.type = LP_VALUE_MINUS_INFINITY *)
Definition v_pow_prefix (fuel : nat) (a : value) (n : N) : vres value :=
  match a with
  | VPinf => ROk VMinf
  | _ => v_pow fuel a n
  end.

(* (+inf)^2 = -inf : the result is not even >= 0, and differs from the -inf case's own even-power answer *)
Theorem C08_pow_prefix_refuted :
  exists n w, n <> 0%N /\ v_pow_prefix 0 VPinf n = ROk w /\ qden w <> EPinf /\
              v_pow_prefix 0 VMinf n = ROk VPinf.
Proof. exists 2%N, VMinf. repeat split; try discriminate; reflexivity. Qed.

(* lp_value_neg of the pinned tree on a dyadic: dyadic_rational_neg wrote only the numerator, and lp_value_neg
   hands it a freshly constructed output (0/2^0), so the exponent of the result is always 0 *)
Definition v_neg_prefix (a : value) : value :=
  match a with
  | VDy d => VDy (dy_neg_prefix NoAlias dy_fresh d)
  | _ => v_neg a
  end.

(* -(1/2) = -1 *)
Theorem C08_neg_prefix_refuted :
  exists d, dy_wf d /\ v_neg_prefix (VDy d) = VDy (mkDy (-1) 0) /\
            ~ (QofD (mkDy (-1) 0) == - QofD d)%Q.
Proof.
  exists (mkDy 1 1). split; [right; left; reflexivity|]. split; [reflexivity|].
  unfold QofD, Qeq; cbn. discriminate.
Qed.
