(* C03: list-level facts about the integer content (stdlib only), used by GcdSpec.v *)
From Coq Require Import ZArith List Lia Bool.
From LP Require Import Scalar ScalarProofs UPoly Gcd.
Import ListNotations.
Local Open Scope Z_scope.

Lemma pcontent_cons c l : pcontent (c :: l) = Z.gcd c (pcontent l).
Proof. reflexivity. Qed.

Lemma pcontent_nonneg l : 0 <= pcontent l.
Proof. destruct l as [|c l]; [cbn; lia|rewrite pcontent_cons; apply Z.gcd_nonneg]. Qed.

Lemma pcontent_divide l x : In x l -> (pcontent l | x).
Proof.
  induction l as [|c l IH]; [intros []|].
  rewrite pcontent_cons. intros [->|Hin].
  - apply Z.gcd_divide_l.
  - eapply Z.divide_trans; [apply Z.gcd_divide_r|auto].
Qed.

Lemma pcontent_greatest l z : (forall x, In x l -> (z | x)) -> (z | pcontent l).
Proof.
  induction l as [|c l IH]; intros H.
  - cbn. apply Z.divide_0_r.
  - rewrite pcontent_cons. apply Z.gcd_greatest.
    + apply H; left; reflexivity.
    + apply IH; intros x Hx; apply H; right; exact Hx.
Qed.

Lemma pcontent_zero_all l : pcontent l = 0 -> forall x, In x l -> x = 0.
Proof.
  intros H x Hx. pose proof (pcontent_divide l x Hx) as D. rewrite H in D.
  now apply Z.divide_0_l in D.
Qed.

Lemma all_zero_pcontent l : (forall x, In x l -> x = 0) -> pcontent l = 0.
Proof.
  induction l as [|c l IH]; intros H; [reflexivity|].
  rewrite pcontent_cons, IH, (H c); [reflexivity|left; reflexivity|].
  intros x Hx; apply H; right; exact Hx.
Qed.

Lemma pnorm_nil_all_zero l : pnorm l = [] -> forall x, In x l -> x = 0.
Proof.
  induction l as [|c l IH]; [intros _ x []|].
  cbn [pnorm]. destruct (pnorm l) eqn:E.
  - destruct (Z.eqb_spec c 0) as [->|]; [|discriminate].
    intros _ x [<-|Hx]; [reflexivity|apply IH; auto].
  - discriminate.
Qed.

Lemma all_zero_pnorm_nil l : (forall x, In x l -> x = 0) -> pnorm l = [].
Proof.
  induction l as [|c l IH]; intros H; [reflexivity|].
  cbn [pnorm]. rewrite IH by (intros x Hx; apply H; right; exact Hx).
  rewrite (H c) by (left; reflexivity). reflexivity.
Qed.

Lemma pcontent_eq0_pnorm l : pcontent l = 0 <-> pnorm l = [].
Proof.
  split; intros H.
  - apply all_zero_pnorm_nil, pcontent_zero_all, H.
  - apply all_zero_pcontent, pnorm_nil_all_zero, H.
Qed.

Lemma pcontent_pnorm l : pcontent (pnorm l) = pcontent l.
Proof.
  induction l as [|c l IH]; [reflexivity|].
  cbn [pnorm]. destruct (pnorm l) as [|d l'] eqn:E.
  - assert (H0 : pcontent l = 0) by (apply pcontent_eq0_pnorm; exact E).
    rewrite pcontent_cons, H0.
    destruct (Z.eqb_spec c 0) as [->|]; [reflexivity|].
    cbn. rewrite !Z.gcd_0_r. reflexivity.
  - rewrite !pcontent_cons, <- IH. reflexivity.
Qed.

Lemma In_pnorm l x : In x (pnorm l) -> In x l.
Proof.
  revert x; induction l as [|c l IH]; intros x; [intros []|].
  cbn [pnorm]. destruct (pnorm l) as [|d l'] eqn:E.
  - destruct (Z.eqb_spec c 0); [intros []|]. intros [<-|[]]; left; reflexivity.
  - intros [<-|Hx]; [left; reflexivity|right; apply IH; exact Hx].
Qed.

Lemma pscale_pdivc l c : c <> 0 -> (forall x, In x l -> (c | x)) -> pscale c (pdivc l c) = l.
Proof.
  intros Hc H. unfold pscale, pdivc. rewrite map_map.
  rewrite <- (map_id l) at 2. apply map_ext_in. intros x Hx.
  destruct (H x Hx) as [k ->]. rewrite Z.div_mul by exact Hc. lia.
Qed.

Lemma pcontent_pdivc l : pcontent l <> 0 -> pcontent (pdivc l (pcontent l)) = 1.
Proof.
  intros Hc. set (c := pcontent l) in *.
  assert (Hpos : 0 < c) by (pose proof (pcontent_nonneg l); subst c; lia).
  set (d := pcontent (pdivc l c)).
  assert (Hd : (c * d | c)).
  { apply pcontent_greatest. intros x Hx.
    destruct (pcontent_divide l x Hx) as [k Hk]. fold c in Hk.
    assert (Hin : In (x / c) (pdivc l c)) by (unfold pdivc; apply (in_map (fun y => y / c)); exact Hx).
    destruct (pcontent_divide _ _ Hin) as [m Hm]. fold d in Hm.
    exists m. rewrite Hk in Hm. rewrite Z.div_mul in Hm by lia. subst k. lia. }
  destruct Hd as [m Hm].
  assert (d * m = 1) by nia.
  pose proof (pcontent_nonneg (pdivc l c)) as Hn. fold d in Hn.
  assert (Hd1 : d = 1 \/ d = -1) by (apply Z.mul_eq_1 with m; lia). lia.
Qed.

Lemma pcontent_pneg l : pcontent (pneg l) = pcontent l.
Proof.
  induction l as [|c l IH]; [reflexivity|].
  unfold pneg in *. cbn [map]. rewrite !pcontent_cons, IH. apply Z.gcd_opp_l.
Qed.

Lemma pdivc_opp l c : (forall x, In x l -> (c | x)) -> c <> 0 -> pdivc l (- c) = pneg (pdivc l c).
Proof.
  intros H Hc. unfold pdivc, pneg. rewrite map_map. apply map_ext_in. intros x Hx.
  destruct (H x Hx) as [k ->].
  replace (k * c) with ((- k) * (- c)) at 1 by lia.
  rewrite !Z.div_mul by lia. reflexivity.
Qed.

Lemma pnorm_pneg l : pnorm (pneg l) = pneg (pnorm l).
Proof.
  induction l as [|c l IH]; [reflexivity|].
  unfold pneg in *. cbn [map pnorm]. rewrite IH.
  destruct (pnorm l) as [|d l']; cbn [map].
  - destruct (Z.eqb_spec c 0) as [->|Hc]; [reflexivity|].
    destruct (Z.eqb_spec (- c) 0); [lia|reflexivity].
  - reflexivity.
Qed.

(* ring_norm changes a number by a multiple of the modulus *)
Lemma ring_norm_diff p c : 0 < p -> exists k, Scalar.ring_norm (Some p) c - c = p * k.
Proof.
  intros Hp. pose proof (ScalarProofs.ring_norm_cong p c Hp) as H.
  exists (Scalar.ring_norm (Some p) c / p - c / p).
  pose proof (Z.div_mod (Scalar.ring_norm (Some p) c) p ltac:(lia)).
  pose proof (Z.div_mod c p ltac:(lia)). lia.
Qed.

Lemma low_coef_neq0 l : (exists x, In x l /\ x <> 0) -> low_coef l <> 0.
Proof.
  unfold low_coef. induction l as [|c l IH]; intros [x [Hin Hx]]; [destruct Hin|].
  cbn [low_deg]. destruct (Z.eqb_spec c 0) as [->|Hc]; cbn [nth]; [|exact Hc].
  apply IH. destruct Hin as [<-|Hin]; [contradiction|]. exists x. split; assumption.
Qed.

Lemma low_coef_eq0 l : low_coef l = 0 -> forall x, In x l -> x = 0.
Proof.
  unfold low_coef. induction l as [|c l IH]; intros H x Hin; [destruct Hin|].
  cbn [low_deg] in H. destruct (Z.eqb_spec c 0) as [Hc|Hc]; cbn [nth] in H.
  - destruct Hin as [<-|Hin]; [exact Hc|apply IH; assumption].
  - contradiction.
Qed.

