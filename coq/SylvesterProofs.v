(* C04: the Sylvester-determinant reference (Sylvester.v) against MathComp.
   1. Laplace expansion on lists = \det                       (mdet_det, for every commutative ring and every
      coefficient type with a ring morphism `den` into it; instances Z and mpoly-under-evaluation)
   2. the list Sylvester matrix = MathComp's Sylvester_mx up to the reversal of the rows of each block and of the
      columns; hence resultant_ref = (-1)^(m n) * mxpoly.resultant (MathComp's matrix lists LOW degree first, which
      gives the classical resultant of (q, p))
   3. the swap law, the common-factor criterion and the specialisation statements. *)
From Coq Require Import ZArith List.
From LP Require Import UPoly MPoly Scalar ScalarProofs Sylvester SylvesterEval.
Set Warnings "-notation-overridden,-ambiguous-paths".
From mathcomp Require Import all_ssreflect all_fingroup all_algebra.
From mathcomp Require Import ssrZ zify.
From LP Require Import UPolySpec.
Set Warnings "notation-overridden,ambiguous-paths".
Import GRing.Theory.
Set Implicit Arguments.
Unset Strict Implicit.
Unset Printing Implicit Defensive.
Local Open Scope ring_scope.

(* ---------------------------------------------------------------- stdlib list functions in ssreflect terms *)
Lemma List_nth_nth (T : Type) (d : T) (l : seq T) (i : nat) : List.nth i l d = nth d l i.
Proof. by elim: l i => [|a l IH] [|i] //=. Qed.

Lemma List_seq_iota (a n : nat) : List.seq a n = iota a n.
Proof. by elim: n a => [|n IH] a //=; rewrite IH. Qed.

Lemma List_map_map (T U : Type) (f : T -> U) (l : seq T) : List.map f l = map f l.
Proof. by []. Qed.

Lemma List_app_cat (T : Type) (a b : seq T) : (a ++ b)%list = a ++ b.
Proof. by []. Qed.

Lemma List_length_size (T : Type) (l : seq T) : length l = size l.
Proof. by []. Qed.

Lemma List_fold_right_foldr (T U : Type) (f : T -> U -> U) (z : U) (l : seq T) : List.fold_right f z l = foldr f z l.
Proof. by []. Qed.

Lemma Nat_even_odd (j : nat) : Nat.even j = ~~ odd j.
Proof.
suff: (Nat.even j = ~~ odd j) /\ (Nat.even j.+1 = ~~ odd j.+1) by case.
elim: j => [|j [IH1 IH2]] //; split=> //.
by rewrite [LHS]/= IH1 /= negbK.
Qed.

Lemma Nat_leb_leq (a b : nat) : Nat.leb a b = (a <= b)%N.
Proof. by elim: a b => [|a IH] [|b] //=; rewrite IH. Qed.

Lemma iota_last (N : nat) : (0 < N)%N -> iota 0 (N - 1) ++ [:: (N - 1)%N] = iota 0 N.
Proof. by case: N => // N _; rewrite subn1 [N.+1.-1]/= -[N.+1]addn1 iotaD add0n. Qed.

(* nth through map when the default is mapped to the default *)
Lemma nth_map_default (T U : Type) (f : T -> U) (d : T) (d' : U) (l : seq T) (i : nat) :
  f d = d' -> nth d' (map f l) i = f (nth d l i).
Proof. by move=> E; elim: l i => [|a l IH] [|i] //=. Qed.

Lemma nth_drop_nth (T : Type) (d : T) (j : nat) (l : seq T) (k : nat) :
  nth d (sy_drop_nth T j l) k = nth d l (bump j k).
Proof.
elim: l j k => [|a l IH] [|j] [|k] //=; rewrite ?nth_nil //.
by rewrite IH /bump ltnS; case: (j <= k)%N.
Qed.

(* ---------------------------------------------------------------- reversal permutations and their parity *)
Definition rev_perm n : 'S_n := perm (@rev_ord_inj n).
Fixpoint rpar (n : nat) : bool := if n is k.+1 then odd k (+) rpar k else false.

Lemma rev_permS n : rev_perm n.+1 = lift_perm ord0 ord_max (rev_perm n).
Proof.
apply/permP => i; rewrite permE.
case: (unliftP ord0 i) => [k ->|->].
  rewrite lift_perm_lift permE; apply: val_inj; rewrite /= /bump /= add1n subSS.
  by case: k => k /= Hk; lia.
by rewrite lift_perm_id; apply: val_inj; rewrite /= subn1.
Qed.

Lemma odd_rev_perm n : odd_perm (rev_perm n) = rpar n.
Proof.
elim: n => [|n IH] /=.
  have -> : rev_perm 0 = 1%g by apply/permP; case.
  by rewrite odd_perm1.
by rewrite rev_permS odd_lift_perm IH.
Qed.

Lemma rparD n m : rpar (n + m) = rpar n (+) rpar m (+) odd (n * m).
Proof.
elim: n => [|n IH] //=; first by rewrite addbF.
rewrite IH mulSn !oddD.
by case: (odd n) (odd m) (rpar n) (rpar m) (odd (n * m)) => [] [] [] [] [].
Qed.

Section DetPerm.
Variable R : comRingType.

Lemma det_row_perm n (s : 'S_n) (M : 'M[R]_n) : \det (row_perm s M) = (-1) ^+ s * \det M.
Proof. by rewrite row_permE det_mulmx det_perm. Qed.

Lemma det_col_perm n (s : 'S_n) (M : 'M[R]_n) : \det (col_perm s M) = (-1) ^+ s * \det M.
Proof. by rewrite col_permE det_mulmx det_perm odd_permV mulrC. Qed.

Lemma det_col_mx_row_perm n m (s : 'S_n) (t : 'S_m) (X : 'M[R]_(n, n + m)) (Y : 'M[R]_(m, n + m)) :
  \det (col_mx (row_perm s X) (row_perm t Y)) = (-1) ^+ s * (-1) ^+ t * \det (col_mx X Y).
Proof.
have -> : col_mx (row_perm s X) (row_perm t Y) = block_mx (perm_mx s) 0 0 (perm_mx t) *m col_mx X Y.
  by rewrite mul_block_col !mul0mx addr0 add0r !row_permE.
by rewrite det_mulmx det_ublock !det_perm.
Qed.

Lemma col_mx_col_perm n m w (s : 'S_w) (X : 'M[R]_(n, w)) (Y : 'M[R]_(m, w)) :
  col_mx (col_perm s X) (col_perm s Y) = col_perm s (col_mx X Y).
Proof. by rewrite !col_permE mul_col_mx. Qed.

End DetPerm.

(* ---------------------------------------------------------------- 1. Laplace expansion on lists = \det *)
Section Det.
Variables (R : comRingType) (A : Type).
Variables (zero one : A) (add : A -> A -> A) (opp : A -> A) (mul : A -> A -> A) (is_zero : A -> bool).
Variable den : A -> R.
Hypothesis den0 : den zero = 0.
Hypothesis den1 : den one = 1.
Hypothesis denD : forall a b, den (add a b) = den a + den b.
Hypothesis denN : forall a, den (opp a) = - den a.
Hypothesis denM : forall a b, den (mul a b) = den a * den b.
Hypothesis den_is0 : forall a, is_zero a = true -> den a = 0.

(* entry (i, j) of a list of rows, missing entries read as zero; the n x n matrix of a list of rows *)
Definition ent (m : seq (seq A)) (i j : nat) : R := den (nth zero (nth [::] m i) j).
Definition mx_of (n : nat) (m : seq (seq A)) : 'M[R]_n := \matrix_(i, j) ent m i j.

Local Notation mdetA := (mdet A zero one add opp mul is_zero).

Lemma mx_of_minor n (m : seq (seq A)) (j : 'I_n.+1) :
  mx_of n (map (sy_drop_nth A j) (behead m)) = row' ord0 (col' j (mx_of n.+1 m)).
Proof.
apply/matrixP => i k; rewrite !mxE /ent.
rewrite (@nth_map_default _ _ _ [::] [::]); last by case: (j : nat).
by rewrite nth_behead nth_drop_nth.
Qed.

Lemma den_foldr (g : nat -> R) (step : nat -> A -> A) (js : seq nat) :
  (forall j acc, den (step j acc) = g j + den acc) ->
  den (foldr step zero js) = \sum_(j <- js) g j.
Proof.
move=> H; elim: js => [|j js IH] /=; first by rewrite big_nil.
by rewrite big_cons H IH.
Qed.

Lemma mdetS n m :
  mdetA n.+1 m =
  foldr (fun j acc =>
           let a := sy_nth A zero (List.hd [::] m) j in
           if is_zero a then acc
           else let t := mul a (mdetA n (map (sy_drop_nth A j) (behead m))) in
                add (if Nat.even j then t else opp t) acc) zero (List.seq 0 n.+1).
Proof. by []. Qed.

Theorem mdet_det n m : den (mdetA n m) = \det (mx_of n m).
Proof.
elim: n m => [|n IH] m; first by rewrite det_mx00.
rewrite (expand_det_row _ ord0) mdetS List_seq_iota.
pose g (j : nat) : R := ent m 0 j * ((-1) ^+ j * \det (mx_of n (map (sy_drop_nth A j) (behead m)))).
rewrite (@den_foldr g); last first.
  move=> j acc; rewrite /g /sy_nth List_nth_nth.
  have -> : List.hd [::] m = nth [::] m 0 by case: (m).
  rewrite -/(ent m 0 j) /ent.
  case Hz: (is_zero _); first by rewrite (den_is0 Hz) mul0r add0r.
  rewrite denD Nat_even_odd -signr_odd; congr (_ + _).
  by case: (odd j); rewrite /= ?denN denM IH ?expr1 ?expr0 ?mulN1r ?mul1r ?mulrN.
rewrite -[iota 0 n.+1]/(index_iota 0 n.+1) big_mkord.
apply: eq_bigr => j _; rewrite /g /cofactor mxE add0n -mx_of_minor.
by [].
Qed.


(* ---- blocks of rows, reversal of a list of rows, swapping two blocks *)
Definition mxr (k w : nat) (X : seq (seq A)) : 'M[R]_(k, w) := \matrix_(i, j) ent X i j.

Lemma mx_of_cat a b X Y :
  size X = a -> mx_of (a + b) (X ++ Y) = col_mx (mxr a (a + b) X) (mxr b (a + b) Y).
Proof.
move=> HX; apply/matrixP => i j; rewrite !mxE /ent nth_cat HX.
by case: splitP => i' Hi; rewrite mxE /ent Hi ?addKn.
Qed.

Lemma mxr_rev k w X : size X = k -> mxr k w (rev X) = row_perm (rev_perm k) (mxr k w X).
Proof.
move=> HX; apply/matrixP => i j; rewrite !mxE /ent permE /= nth_rev HX //.
Qed.

Lemma det_swap_blocks a b X Y : size X = a -> size Y = b ->
  \det (mx_of (a + b) (X ++ Y)) = (-1) ^+ (a * b) * \det (mx_of (b + a) (Y ++ X)).
Proof.
move=> HX HY.
have E1 : \det (mx_of (a + b) (rev (X ++ Y))) = (-1) ^+ (rpar (a + b)) * \det (mx_of (a + b) (X ++ Y)).
  have -> : mx_of (a + b) (rev (X ++ Y)) = row_perm (rev_perm (a + b)) (mx_of (a + b) (X ++ Y)).
    by apply: mxr_rev; rewrite size_cat HX HY.
  by rewrite det_row_perm odd_rev_perm.
have E2 : \det (mx_of (b + a) (rev Y ++ rev X)) =
          (-1) ^+ (rpar b) * (-1) ^+ (rpar a) * \det (mx_of (b + a) (Y ++ X)).
  by rewrite !mx_of_cat ?size_rev // !mxr_rev // det_col_mx_row_perm !odd_rev_perm.
move: E1; rewrite rev_cat (addnC a b) E2 => E1.
have -> : \det (mx_of (b + a) (X ++ Y)) =
          (-1) ^+ (rpar (b + a)) * ((-1) ^+ (rpar (b + a)) * \det (mx_of (b + a) (X ++ Y))).
  by rewrite mulrA -expr2 sqrr_sign mul1r.
rewrite -E1 -(signr_odd _ (a * b)) (mulnC a b) rparD !signr_addb.
by case: (rpar b) (rpar a) (odd (b * a)) => [] [] []; rewrite /= ?expr1 ?expr0;
  do ?[rewrite mul1r | rewrite mulr1 | rewrite mulN1r | rewrite mulrN1 | rewrite mulNr | rewrite mulrN | rewrite opprK].
Qed.

(* ---- entries of the list Sylvester matrix (k = 0) *)
Lemma den_sy_cf l a b :
  den (sy_cf A zero l a b) = if (b <= a)%N then den (nth zero l (a - b)) else 0.
Proof. by rewrite /sy_cf Nat_leb_leq /sy_nth List_nth_nth minusE; case: ifP. Qed.

Lemma sylv_cols0 m n : (0 < n + m)%N -> sylv_cols m n 0 0 = iota 0 (n + m).
Proof.
move=> H; rewrite /sylv_cols List_seq_iota -(iota_last H).
by congr (iota 0 _ ++ [:: _]); lia.
Qed.

Lemma ent_sylv0 p q i c :
  let m := (size p).-1 in let n := (size q).-1 in
  (i < n + m)%N -> (c < n + m)%N ->
  ent (sylv_mat A zero 0 0 p q) i c =
  if (i < n)%N then (if (c <= m + i)%N then den (nth zero p (m + i - c)) else 0)
  else (if (c <= n + (i - n))%N then den (nth zero q (n + (i - n) - c)) else 0).
Proof.
move=> m n Hi Hc; rewrite /ent /sylv_mat.
have -> : Nat.pred (length p) = m by [].
have -> : Nat.pred (length q) = n by [].
rewrite sylv_cols0; last by apply: leq_ltn_trans Hi.
rewrite !List_seq_iota !Nat.sub_0_r nth_cat size_map size_iota.
case: ltnP => Hin.
  rewrite (nth_map 0%N) ?size_iota // nth_iota // add0n.
  by rewrite (nth_map 0%N) ?size_iota // nth_iota // add0n den_sy_cf plusE.
have Him : (i - n < m)%N by lia.
rewrite (nth_map 0%N) ?size_iota // nth_iota // add0n.
by rewrite (nth_map 0%N) ?size_iota // nth_iota // add0n den_sy_cf plusE.
Qed.

(* ---- the list Sylvester matrix against MathComp's Sylvester_mx *)
Lemma sylv_mx_correspondence (P Q : {poly R}) (p q : seq A) :
  (forall t, P`_t = den (nth zero p t)) -> (forall t, Q`_t = den (nth zero q t)) ->
  (size p).-1 = (size P).-1 -> (size q).-1 = (size Q).-1 ->
  mx_of ((size Q).-1 + (size P).-1) (sylv_mat A zero 0 0 p q) =
  col_perm (rev_perm _)
    (col_mx (row_perm (rev_perm _) (lin1_mx (poly_rV \o P \o* rVpoly)))
            (row_perm (rev_perm _) (lin1_mx (poly_rV \o Q \o* rVpoly)))).
Proof.
move=> HP HQ HsP HsQ; apply/matrixP => i c.
rewrite mxE ent_sylv0 ?HsP ?HsQ ?ltn_ord //.
rewrite [RHS]mxE [RHS]mxE.
case: splitP => i' Hi.
  rewrite Hi !mxE /= rVpoly_delta coefXnM !permE /= HP.
  move: (ltn_ord c) (ltn_ord i'); move: (nat_of_ord c) (nat_of_ord i') => cc ii.
  move: ((size Q).-1) ((size P).-1) => n m Hc Hi'.
  case: leqP => H1; case: ltnP => H2 //; try lia.
  by congr (den (nth _ _ _)); lia.
rewrite Hi addKn !mxE /= rVpoly_delta coefXnM !permE /= HQ.
move: (ltn_ord c) (ltn_ord i'); move: (nat_of_ord c) (nat_of_ord i') => cc ii.
move: ((size Q).-1) ((size P).-1) => n m Hc Hi'.
case: leqP => H1; case: ltnP => H2 //; try lia.
by congr (den (nth _ _ _)); lia.
Qed.

Lemma Poly_map_den (p : seq A) :
  last 1 (map den p) != 0 ->
  (forall t, (Poly (map den p))`_t = den (nth zero p t)) /\ size (Poly (map den p)) = size p.
Proof.
move=> H; split=> [t|]; first by rewrite coef_Poly (nth_map_default _ _ den0).
by rewrite (PolyK H) size_map.
Qed.

(* resultant_ref is the classical resultant; MathComp's Sylvester matrix lists the coefficients LOW degree first,
   which costs the sign (-1)^(m n) (its `resultant p q` is the classical resultant of (q, p)) *)
Theorem resultant_ref_mathcomp (p q : seq A) :
  last 1 (map den p) != 0 -> last 1 (map den q) != 0 ->
  den (resultant_ref A zero one add opp mul is_zero p q) =
  (-1) ^+ ((size p).-1 * (size q).-1) * resultant (Poly (map den p)) (Poly (map den q)).
Proof.
move=> Hp Hq.
have [HP HsP] := Poly_map_den Hp; have [HQ HsQ] := Poly_map_den Hq.
set P := Poly (map den p) in HP HsP *; set Q := Poly (map den q) in HQ HsQ *.
rewrite /resultant_ref /sylv_det mdet_det.
have -> : (Nat.pred (length p) + Nat.pred (length q) - 2 * 0)%coq_nat = ((size Q).-1 + (size P).-1)%N.
  by rewrite HsP HsQ; change ((size p).-1 + (size q).-1 - 0 = (size q).-1 + (size p).-1)%N; lia.
have HsP' : (size p).-1 = (size P).-1 by rewrite HsP.
have HsQ' : (size q).-1 = (size Q).-1 by rewrite HsQ.
rewrite (sylv_mx_correspondence HP HQ HsP' HsQ').
rewrite det_col_perm det_col_mx_row_perm !odd_rev_perm.
set S := col_mx _ _; have -> : S = Sylvester_mx P Q by [].
rewrite -/(resultant P Q) {S}.
rewrite rparD HsP' HsQ' -(signr_odd _ (_ * _)) (mulnC (size P).-1) !signr_addb.
by case: (rpar _) (rpar _) (odd _) => [] [] []; rewrite /= ?expr1 ?expr0;
  do ?[rewrite mul1r | rewrite mulr1 | rewrite mulN1r | rewrite mulrN1 | rewrite mulNr | rewrite mulrN | rewrite opprK].
Qed.

(* swap law of the reference determinant, for ALL coefficient lists (no condition on leading coefficients) *)
Theorem resultant_ref_swap (p q : seq A) :
  den (resultant_ref A zero one add opp mul is_zero q p) =
  (-1) ^+ ((size p).-1 * (size q).-1) * den (resultant_ref A zero one add opp mul is_zero p q).
Proof.
rewrite /resultant_ref /sylv_det !mdet_det /sylv_mat.
have -> : Nat.pred (length p) = (size p).-1 by [].
have -> : Nat.pred (length q) = (size q).-1 by [].
move: ((size p).-1) ((size q).-1) => m n.
have -> : sylv_cols n m 0 0 = sylv_cols m n 0 0 by rewrite /sylv_cols (Nat.add_comm n m).
set X := List.map _ (List.seq 0 (n - 0)); set Y := List.map _ (List.seq 0 (m - 0)).
have HX : size X = n by rewrite /X size_map List_seq_iota size_iota ?Nat.sub_0_r ?subn0.
have HY : size Y = m by rewrite /Y size_map List_seq_iota size_iota ?Nat.sub_0_r ?subn0.
have -> : (n + m - 2 * 0)%coq_nat = (m + n)%N by lia.
have -> : (m + n - 2 * 0)%coq_nat = (n + m)%N by lia.
exact: det_swap_blocks.
Qed.

End Det.

(* ---------------------------------------------------------------- instances *)

(* ---- A = R, den = id: statements about MathComp's resultant itself *)
Section SwapMathComp.
Variable R : comRingType.

Lemma last_polyseq_neq0 (P : {poly R}) : last 1 (map id (polyseq P)) != 0.
Proof. by rewrite map_id; case: P. Qed.

(* C04_swap_sign on the Spec side: resultant q p = (-1)^(deg p deg q) resultant p q *)
Theorem resultant_swap (P Q : {poly R}) :
  resultant Q P = (-1) ^+ ((size P).-1 * (size Q).-1) * resultant P Q.
Proof.
pose nz (_ : R) := false.
have H := @resultant_ref_mathcomp R R 0 1 +%R -%R *%R nz id erefl erefl
            (fun _ _ => erefl) (fun _ => erefl) (fun _ _ => erefl) (fun _ (E : false = true) => match notF E with end).
have HPQ := H P Q (last_polyseq_neq0 P) (last_polyseq_neq0 Q).
have HQP := H Q P (last_polyseq_neq0 Q) (last_polyseq_neq0 P).
have HS := @resultant_ref_swap R R 0 1 +%R -%R *%R nz id erefl erefl
            (fun _ _ => erefl) (fun _ => erefl) (fun _ _ => erefl) (fun _ (E : false = true) => match notF E with end) P Q.
move: HS; rewrite HPQ HQP !map_id !polyseqK mulrA -expr2 sqrr_sign mul1r (mulnC (size Q).-1) => <-.
by rewrite mulrA -expr2 sqrr_sign mul1r.
Qed.

End SwapMathComp.

(* ---- A = Z, den = id: dense univariate integer polynomials (UPoly.v / UPolySpec.v) *)
Lemma z_is_zeroP (a : Z) : z_is_zero a = true -> a = 0.
Proof. by move/Z.eqb_eq. Qed.

Definition mxZ (n : nat) (m : seq (seq Z)) : 'M[Z]_n := \matrix_(i, j) nth 0 (nth [::] m i) j.

Theorem mdet_Z_det (n : nat) (m : seq (seq Z)) : mdet_Z n m = \det (mxZ n m).
Proof.
exact: (@mdet_det _ Z 0 1 Z.add Z.opp Z.mul z_is_zero id erefl erefl
          (fun _ _ => erefl) (fun _ => erefl) (fun _ _ => erefl) z_is_zeroP).
Qed.

Theorem resultant_Z_mathcomp (p q : seq Z) :
  last 1 p != 0 -> last 1 q != 0 ->
  resultant_Z p q = (-1) ^+ ((size p).-1 * (size q).-1) * resultant (Poly p) (Poly q).
Proof.
move=> Hp Hq.
have := @resultant_ref_mathcomp _ Z 0 1 Z.add Z.opp Z.mul z_is_zero id erefl erefl
          (fun _ _ => erefl) (fun _ => erefl) (fun _ _ => erefl) z_is_zeroP p q.
by rewrite !map_id; apply.
Qed.

(* the same for arbitrary lists, through the canonical form of the model *)
Theorem resultant_Z_pnorm (p q : seq Z) :
  resultant_Z (pnorm p) (pnorm q) = (-1) ^+ (pdeg p * pdeg q) * resultant (Poly p) (Poly q).
Proof.
by rewrite (resultant_Z_mathcomp (last_pnorm_neq0 p) (last_pnorm_neq0 q)) !Poly_pnorm.
Qed.

Theorem resultant_Z_swap (p q : seq Z) :
  resultant_Z q p = (-1) ^+ ((size p).-1 * (size q).-1) * resultant_Z p q.
Proof.
exact: (@resultant_ref_swap _ Z 0 1 Z.add Z.opp Z.mul z_is_zero id erefl erefl
          (fun _ _ => erefl) (fun _ => erefl) (fun _ _ => erefl) z_is_zeroP p q).
Qed.

Lemma sign_mul_eq0 (R : idomainType) (k : nat) (x : R) : ((-1) ^+ k * x == 0) = (x == 0).
Proof. by rewrite mulf_eq0 signr_eq0. Qed.

(* the resultant vanishes exactly when the two polynomials have a common factor of positive degree *)
Theorem resultant_Z_eq0 (p q : seq Z) :
  (resultant_Z (pnorm p) (pnorm q) == 0) = (1 < size (gcdp (Poly p) (Poly q)))%N.
Proof. by rewrite resultant_Z_pnorm sign_mul_eq0 resultant_eq0. Qed.

(* ---- A = mpoly, den = evaluation at an integer point of the parameters *)
Section InstMP.
Variable rho : var -> Z.
Let ev : mpoly -> Z := mp_eval rho.

Definition mx_ev (n : nat) (m : seq (seq mpoly)) : 'M[Z]_n := \matrix_(i, j) ev (nth [::] (nth [::] m i) j).

Theorem mdet_mp_eval (n : nat) (m : seq (seq mpoly)) : ev (mdet_mp n m) = \det (mx_ev n m).
Proof.
exact: (@mdet_det _ mpoly [::] mp_one mp_add mp_neg mp_mul mp_is_zero ev erefl (sy_eval_const rho 1)
          (sy_eval_add rho) (sy_eval_neg rho) (sy_eval_mul rho) (sy_eval_is_zero rho)).
Qed.

Theorem resultant_mp_mathcomp (p q : seq mpoly) :
  last 1 (map ev p) != 0 -> last 1 (map ev q) != 0 ->
  ev (resultant_mp p q) =
  (-1) ^+ ((size p).-1 * (size q).-1) * resultant (Poly (map ev p)) (Poly (map ev q)).
Proof.
exact: (@resultant_ref_mathcomp _ mpoly [::] mp_one mp_add mp_neg mp_mul mp_is_zero ev erefl (sy_eval_const rho 1)
          (sy_eval_add rho) (sy_eval_neg rho) (sy_eval_mul rho) (sy_eval_is_zero rho) p q).
Qed.

Theorem resultant_mp_swap (p q : seq mpoly) :
  ev (resultant_mp q p) = (-1) ^+ ((size p).-1 * (size q).-1) * ev (resultant_mp p q).
Proof.
exact: (@resultant_ref_swap _ mpoly [::] mp_one mp_add mp_neg mp_mul mp_is_zero ev erefl (sy_eval_const rho 1)
          (sy_eval_add rho) (sy_eval_neg rho) (sy_eval_mul rho) (sy_eval_is_zero rho) p q).
Qed.

(* under an assignment that keeps both leading coefficients: zero iff the specialised polynomials share a factor *)
Theorem resultant_mp_spec_eq0 (p q : seq mpoly) :
  last 1 (map ev p) != 0 -> last 1 (map ev q) != 0 ->
  (ev (resultant_mp p q) == 0) = (1 < size (gcdp (Poly (map ev p)) (Poly (map ev q))))%N.
Proof. by move=> Hp Hq; rewrite resultant_mp_mathcomp // sign_mul_eq0 resultant_eq0. Qed.

End InstMP.

(* ---------------------------------------------------------------- specialisation commutes with all the determinants *)
Lemma map_sylv_mat (T U : Type) (f : T -> U) (zT : T) (zU : U) (k j : nat) (p q : seq T) :
  f zT = zU ->
  map (map f) (sylv_mat T zT k j p q) = sylv_mat U zU k j (map f p) (map f q).
Proof.
move=> Hz; rewrite /sylv_mat !List_length_size !size_map.
have Hcf l a b : f (sy_cf T zT l a b) = sy_cf U zU (map f l) a b.
  by rewrite /sy_cf /sy_nth !List_nth_nth; case: Nat.leb => //; rewrite (nth_map_default _ _ Hz).
by rewrite map_cat -!map_comp; congr (_ ++ _); apply: eq_map => i /=; rewrite -map_comp;
   apply: eq_map => c /=.
Qed.

Section SpecCommute.
Variable rho : var -> Z.

(* the value of every reference determinant (resultant, psc, subresultant coefficients) at an integer point of the
   parameters is the same determinant of the specialised coefficient lists (formal degrees kept) *)
Theorem sylv_det_spec (k j : nat) (p q : seq mpoly) :
  mp_eval rho (sylv_det mpoly [::] mp_one mp_add mp_neg mp_mul mp_is_zero k j p q) =
  sylv_det Z 0 1 Z.add Z.opp Z.mul z_is_zero k j (spec_coeffs rho p) (spec_coeffs rho q).
Proof.
rewrite /sylv_det /spec_coeffs !List_length_size !size_map.
rewrite -(map_sylv_mat k j p q (erefl : mp_eval rho [::] = 0)).
rewrite -/(mdet_mp _ _) -/(mdet_Z _ _) mdet_mp_eval mdet_Z_det; congr (\det _).
apply/matrixP => i c; rewrite !mxE.
by rewrite (@nth_map_default _ _ (map (mp_eval rho)) [::] [::]) // (@nth_map_default _ _ (mp_eval rho) [::] 0).
Qed.

Corollary resultant_spec (p q : seq mpoly) :
  mp_eval rho (resultant_mp p q) = resultant_Z (spec_coeffs rho p) (spec_coeffs rho q).
Proof. exact: sylv_det_spec. Qed.

Corollary psc_spec (k : nat) (p q : seq mpoly) :
  mp_eval rho (psc_mp k p q) = psc_Z k (spec_coeffs rho p) (spec_coeffs rho q).
Proof. exact: sylv_det_spec. Qed.

Corollary subres_spec (k : nat) (p q : seq mpoly) :
  map (mp_eval rho) (subres_mp k p q) = subres_Z k (spec_coeffs rho p) (spec_coeffs rho q).
Proof.
rewrite /subres_mp /subres_Z /subres_ref !List_map_map -map_comp; apply: eq_map => j /=; exact: sylv_det_spec.
Qed.

End SpecCommute.

(* ---------------------------------------------------------------- vanishing leading coefficients *)
Section Vanish.
Variables (R : comRingType) (A : Type).
Variables (zero one : A) (add : A -> A -> A) (opp : A -> A) (mul : A -> A -> A) (is_zero : A -> bool).
Variable den : A -> R.
Hypothesis den0 : den zero = 0.
Hypothesis den1 : den one = 1.
Hypothesis denD : forall a b, den (add a b) = den a + den b.
Hypothesis denN : forall a, den (opp a) = - den a.
Hypothesis denM : forall a b, den (mul a b) = den a * den b.
Hypothesis den_is0 : forall a, is_zero a = true -> den a = 0.

Local Notation res_ref := (resultant_ref A zero one add opp mul is_zero).

Lemma res_ref_det (p q : seq A) :
  den (res_ref p q) = \det (mx_of zero den ((size q).-1 + (size p).-1) (sylv_mat A zero 0 0 p q)).
Proof.
rewrite /resultant_ref /sylv_det (mdet_det den0 den1 denD denN denM den_is0).
have -> // : (Nat.pred (length p) + Nat.pred (length q) - 2 * 0)%coq_nat = ((size q).-1 + (size p).-1)%N.
by change ((size p).-1 + (size q).-1 - 0 = (size q).-1 + (size p).-1)%N; lia.
Qed.

(* both (formal) leading coefficients vanish: the first column of the Sylvester matrix is zero *)
Theorem resultant_ref_lc0_lc0 (p q : seq A) :
  (0 < (size q).-1 + (size p).-1)%N ->
  den (nth zero p (size p).-1) = 0 -> den (nth zero q (size q).-1) = 0 ->
  den (res_ref p q) = 0.
Proof.
rewrite res_ref_det; set N := (_ + _)%N; move=> HN Hp Hq.
case E: N HN => [|N'] // _.
rewrite (expand_det_col _ ord0) big1 // => i _.
rewrite mxE (ent_sylv0 den0) -/N ?E // leq0n !subn0.
case: ltnP => Hi.
  case: (nat_of_ord i) => [|i']; first by rewrite addn0 Hp mul0r.
  by rewrite nth_default ?den0 ?mul0r //; lia.
case E2: (i - (size q).-1)%N => [|i']; first by rewrite addn0 Hq mul0r.
by rewrite nth_default ?den0 ?mul0r //; lia.
Qed.

Lemma den_nth_rcons0 (p : seq A) (a : A) (t : nat) :
  den a = 0 -> den (nth zero (rcons p a) t) = den (nth zero p t).
Proof.
move=> Ha; rewrite nth_rcons; case: ltngtP => // Ht; first by rewrite nth_default ?den0 // ltnW.
by rewrite Ha nth_default ?den0 // Ht.
Qed.

(* the (formal) leading coefficient of the first operand vanishes: expansion along the first column *)
Theorem resultant_ref_lcp0 (p : seq A) (a : A) (q : seq A) :
  (0 < size p)%N -> den a = 0 ->
  den (res_ref (rcons p a) q) =
  (-1) ^+ (size q).-1 * den (nth zero q (size q).-1) * den (res_ref p q).
Proof.
move=> Hp Ha; set n := (size q).-1.
have Hk : size p = (size p).-1.+1 by rewrite prednK.
set k := (size p).-1 in Hk *.
have Hsz : (size (rcons p a)).-1 = k.+1 by rewrite size_rcons Hk.
have Hszp : (size p).-1 = k by [].
rewrite !res_ref_det -/n Hsz -/k.
rewrite addnS.
pose i0 : 'I_(n + k).+1 := Ordinal (leq_addr k n : n < (n + k).+1)%N.
rewrite (expand_det_col _ ord0) (bigD1 i0) //= big1 ?addr0; last first.
  move=> i Hi; rewrite mxE (ent_sylv0 den0) ?Hsz -/n ?addnS // leq0n !subn0.
  have Hin : (nat_of_ord i != n) by apply: contra Hi => /eqP E; apply/eqP/val_inj.
  case: ltnP => Hlt.
    by rewrite den_nth_rcons0 // nth_default ?den0 ?mul0r //; lia.
  by rewrite nth_default ?den0 ?mul0r //; lia.
rewrite mxE (ent_sylv0 den0) ?Hsz -/n ?addnS // ltnn leq0n subnn addn0 subn0.
rewrite /cofactor /= addn0 mulrCA mulrA; congr (_ * _ * \det _).
apply/matrixP => i c; rewrite !mxE.
have -> : nat_of_ord (lift i0 i) = bump n i by [].
have -> : nat_of_ord (lift ord0 c) = c.+1 by [].
move: (ltn_ord i) (ltn_ord c); move: (nat_of_ord i) (nat_of_ord c) => ii cc Hi Hc.
rewrite !(ent_sylv0 den0) ?Hsz ?Hszp -/n ?addnS /bump //; try lia.
case: (leqP n ii) => Hn; rewrite ?add1n ?add0n.
  rewrite [(ii.+1 < n)%N]ltnNge (leqW Hn) /=.
  have -> : (n + (ii.+1 - n) = (n + (ii - n)).+1)%N by lia.
  by rewrite ltnS subSS.
by rewrite Hn addSn ltnS subSS den_nth_rcons0.
Qed.

End Vanish.

(* ---------------------------------------------------------------- the complete vanishing criterion (integral domains) *)
Section Criterion.
Variables (R : idomainType) (A : Type).
Variables (zero one : A) (add : A -> A -> A) (opp : A -> A) (mul : A -> A -> A) (is_zero : A -> bool).
Variable den : A -> R.
Hypothesis den0 : den zero = 0.
Hypothesis den1 : den one = 1.
Hypothesis denD : forall a b, den (add a b) = den a + den b.
Hypothesis denN : forall a, den (opp a) = - den a.
Hypothesis denM : forall a b, den (mul a b) = den a * den b.
Hypothesis den_is0 : forall a, is_zero a = true -> den a = 0.

Local Notation res_ref := (resultant_ref A zero one add opp mul is_zero).
Local Notation PolyD l := (Poly (map den l)).

Lemma Poly_rcons0 (s : seq R) : Poly (rcons s 0) = Poly s.
Proof.
apply/polyP => i; rewrite !coef_Poly nth_rcons.
by case: ltngtP => // Hi; rewrite nth_default // ?Hi // ltnW.
Qed.

(* a zero constant as first operand: all rows of the first block vanish *)
Lemma res_ref_zero_const (a : A) (q : seq A) :
  den a = 0 -> (0 < (size q).-1)%N -> den (res_ref [:: a] q) = 0.
Proof.
move=> Ha Hn; rewrite (res_ref_det den0 den1 denD denN denM den_is0) /= addn0.
case E: (size q).-1 Hn => [|n'] // _.
rewrite (expand_det_row _ ord0) big1 // => c _.
rewrite mxE (ent_sylv0 den0) /= ?E ?addn0 //.
by rewrite Ha; case: ifP; rewrite mul0r.
Qed.

Lemma lc_last (q : seq A) : (0 < size q)%N -> den (nth zero q (size q).-1) = last 1 (map den q).
Proof. by case: q => // a q _; rewrite nth_last /= last_map. Qed.

Lemma res_ref_eq0_lcq (p q : seq A) :
  (0 < size p)%N -> (0 < (size q).-1)%N -> last 1 (map den q) != 0 ->
  (den (res_ref p q) == 0) = (1 < size (gcdp (PolyD p) (PolyD q)))%N.
Proof.
move=> Hp Hn Hq; elim/last_ind: p Hp => [|p a IH] // _.
case Ha: (den a == 0); last first.
  rewrite (resultant_ref_mathcomp den0 den1 denD denN denM den_is0) //; last by rewrite map_rcons last_rcons Ha.
  by rewrite sign_mul_eq0 resultant_eq0.
move/eqP: Ha => Ha; rewrite map_rcons Ha Poly_rcons0.
case: p IH => [|a0 p'] IH.
  rewrite (res_ref_zero_const Ha Hn) eqxx /=.
  by rewrite /= gcd0p (PolyK Hq) size_map; case: (size q) Hn => [|[|s]].
rewrite (resultant_ref_lcp0 den0 den1 denD denN denM den_is0) // !mulf_eq0 signr_eq0 /=.
have -> /= : (den (nth zero q (size q).-1) == 0) = false.
  by rewrite lc_last ?(negbTE Hq) //; case: (size q) Hn.
exact: IH.
Qed.

(* C04, last sentence: for operands of formal degree >= 1, the (value of the) resultant is zero exactly when both
   leading coefficients vanish or the (specialised) polynomials have a common factor of positive degree *)
Theorem resultant_ref_eq0 (p q : seq A) :
  (0 < (size p).-1)%N -> (0 < (size q).-1)%N ->
  (den (res_ref p q) == 0) =
  ((den (nth zero p (size p).-1) == 0) && (den (nth zero q (size q).-1) == 0))
  || (1 < size (gcdp (PolyD p) (PolyD q)))%N.
Proof.
move=> Hm Hn.
have Hp0 : (0 < size p)%N by case: (size p) Hm.
have Hq0 : (0 < size q)%N by case: (size q) Hn.
case Hq: (den (nth zero q (size q).-1) == 0); last first.
  by rewrite andbF /= res_ref_eq0_lcq // -lc_last // Hq.
case Hp: (den (nth zero p (size p).-1) == 0) => /=.
  rewrite (resultant_ref_lc0_lc0 den0 den1 denD denN denM den_is0) ?eqxx //; try exact/eqP.
  by rewrite addn_gt0 Hn.
have := resultant_ref_swap den0 den1 denD denN denM den_is0 q p.
move/(congr1 (fun x => x == 0)); rewrite sign_mul_eq0 => ->.
by rewrite res_ref_eq0_lcq // -?lc_last ?Hp // (eqp_size (gcdpC _ _)).
Qed.

End Criterion.

(* ---- the criterion for the two instances *)
Theorem resultant_mp_eq0 (rho : var -> Z) (p q : seq mpoly) :
  (0 < (size p).-1)%N -> (0 < (size q).-1)%N ->
  (mp_eval rho (resultant_mp p q) == 0) =
  ((mp_eval rho (nth [::] p (size p).-1) == 0) && (mp_eval rho (nth [::] q (size q).-1) == 0))
  || (1 < size (gcdp (Poly (spec_coeffs rho p)) (Poly (spec_coeffs rho q))))%N.
Proof.
exact: (@resultant_ref_eq0 _ mpoly [::] mp_one mp_add mp_neg mp_mul mp_is_zero (mp_eval rho) erefl (sy_eval_const rho 1)
          (sy_eval_add rho) (sy_eval_neg rho) (sy_eval_mul rho) (sy_eval_is_zero rho) p q).
Qed.

Theorem resultant_Z_eq0_formal (p q : seq Z) :
  (0 < (size p).-1)%N -> (0 < (size q).-1)%N ->
  (resultant_Z p q == 0) =
  ((nth 0 p (size p).-1 == 0) && (nth 0 q (size q).-1 == 0)) || (1 < size (gcdp (Poly p) (Poly q)))%N.
Proof.
move=> Hm Hn.
have := @resultant_ref_eq0 _ Z 0 1 Z.add Z.opp Z.mul z_is_zero id erefl erefl
          (fun _ _ => erefl) (fun _ => erefl) (fun _ _ => erefl) z_is_zeroP p q Hm Hn.
by rewrite !map_id.
Qed.

(* psc_k is the coefficient of x^k of the k-th subresultant *)
Lemma psc_is_top_coefficient (T : Type) (zero one : T) add opp mul is_zero (k : nat) (p q : seq T) :
  nth zero (subres_ref T zero one add opp mul is_zero k p q) k = psc_ref T zero one add opp mul is_zero k p q.
Proof.
rewrite /subres_ref /psc_ref List_map_map List_seq_iota.
by rewrite (nth_map 0%N) ?size_iota // nth_iota.
Qed.

(* reduction step for a vanishing formal leading coefficient, integer instance *)
Theorem resultant_Z_lcp0 (p q : seq Z) :
  (0 < size p)%N ->
  resultant_Z (rcons p 0) q = (-1) ^+ (size q).-1 * nth 0 q (size q).-1 * resultant_Z p q.
Proof.
move=> Hp.
exact: (@resultant_ref_lcp0 _ Z 0 1 Z.add Z.opp Z.mul z_is_zero id erefl erefl
          (fun _ _ => erefl) (fun _ => erefl) (fun _ _ => erefl) z_is_zeroP p 0 q Hp erefl).
Qed.

(* ---------------------------------------------------------------- other coefficient rings: ring morphisms out of Z
   (reduction modulo a prime p, Z -> Z_p, is one).  Every reference determinant commutes with the morphism; hence the
   resultant / psc / subresultants over Z_p of the reduced operands are the reductions of the integer ones. *)
Section Morph.
Variables (R : comRingType) (f : {rmorphism Z -> R}).

Local Notation nz := (fun _ : R => false).
Local Notation detR := (sylv_det R 0 1 +%R -%R *%R nz).

Lemma nz_sound (a : R) : nz a = true -> id a = 0.
Proof. by []. Qed.

Lemma f_is0 (a : Z) : z_is_zero a = true -> f a = 0.
Proof. by move/z_is_zeroP => ->; rewrite rmorph0. Qed.

Theorem sylv_det_Z_morph (k j : nat) (p q : seq Z) :
  f (sylv_det Z 0 1 Z.add Z.opp Z.mul z_is_zero k j p q) = detR k j (map f p) (map f q).
Proof.
rewrite /sylv_det !List_length_size !size_map.
rewrite (@mdet_det R Z 0 1 Z.add Z.opp Z.mul z_is_zero f (rmorph0 f) (rmorph1 f) (rmorphD f) (rmorphN f) (rmorphM f) f_is0).
rewrite (@mdet_det R R 0 1 +%R -%R *%R nz id erefl erefl (fun _ _ => erefl) (fun _ => erefl) (fun _ _ => erefl) nz_sound).
rewrite -(map_sylv_mat k j p q (rmorph0 f)); congr (\det _).
apply/matrixP => i c; rewrite !mxE /ent.
by rewrite (@nth_map_default _ _ (map f) [::] [::]) // (@nth_map_default _ _ f 0 0) ?rmorph0.
Qed.

(* operands that are first reduced by any map g that f does not see (f (g c) = f c: e.g. g = reduction into the
   symmetric range of Z_p and f : Z -> Z_p) give the same image *)
Theorem sylv_det_Z_reduce_first (g : Z -> Z) (k j : nat) (p q : seq Z) :
  (forall c, f (g c) = f c) ->
  f (sylv_det Z 0 1 Z.add Z.opp Z.mul z_is_zero k j (map g p) (map g q)) =
  f (sylv_det Z 0 1 Z.add Z.opp Z.mul z_is_zero k j p q).
Proof.
move=> Hg; rewrite !sylv_det_Z_morph -!map_comp.
by congr (detR k j _ _); apply: eq_map => c /=.
Qed.

Theorem sylv_det_mp_morph (rho : var -> Z) (k j : nat) (p q : seq mpoly) :
  f (mp_eval rho (sylv_det mpoly [::] mp_one mp_add mp_neg mp_mul mp_is_zero k j p q)) =
  detR k j (map (f \o mp_eval rho) p) (map (f \o mp_eval rho) q).
Proof. by rewrite sylv_det_spec sylv_det_Z_morph /spec_coeffs -!map_comp. Qed.

(* with surviving leading coefficients the image is (up to the convention sign) MathComp's resultant over R *)
Theorem resultant_Z_morph (p q : seq Z) :
  last 1 (map f p) != 0 -> last 1 (map f q) != 0 ->
  f (resultant_Z p q) = (-1) ^+ ((size p).-1 * (size q).-1) * resultant (Poly (map f p)) (Poly (map f q)).
Proof.
exact: (@resultant_ref_mathcomp R Z 0 1 Z.add Z.opp Z.mul z_is_zero f (rmorph0 f) (rmorph1 f) (rmorphD f) (rmorphN f)
          (rmorphM f) f_is0 p q).
Qed.

End Morph.

(* the canonical morphism Z -> Z_p does not see the reduction into the symmetric range *)
Definition to_Fp (p : nat) : Z -> 'F_p := intr \o int_of_Z.

Definition Fp_morph (p : nat) : {rmorphism Z -> 'F_p} := [rmorphism of to_Fp p].

Lemma to_Fp_modulus (p : nat) : prime p -> to_Fp p (Z.of_nat p) = 0.
Proof.
move=> Hp; rewrite /to_Fp /=.
have -> : int_of_Z (Z.of_nat p) = p%:Z by lia.
by rewrite -[p%:Z%:~R]/(p%:R) (charf0 (char_Fp Hp)).
Qed.

Lemma to_Fp_ring_norm (p : nat) (c : Z) : prime p ->
  to_Fp p (ring_norm (Some (Z.of_nat p)) c) = to_Fp p c.
Proof.
move=> Hp; have Hpos : Z.lt 0 (Z.of_nat p) by have := prime_gt0 Hp; lia.
have H := ring_norm_cong (Z.of_nat p) c Hpos.
set r := ring_norm _ c in H *.
pose k := Z.sub (Z.div r (Z.of_nat p)) (Z.div c (Z.of_nat p)).
have -> : r = c + Z.of_nat p * k.
  have H1 := Z.div_mod r (Z.of_nat p); have H2 := Z.div_mod c (Z.of_nat p).
  rewrite /k; move: (Z.div r _) (Z.div c _) (Z.modulo r _) (Z.modulo c _) H H1 H2 => a b x y -> H1 H2.
  have Hne : Z.of_nat p <> Z0 by lia.
  rewrite [r]H1 // [in RHS](H2 Hne); lia.
have E : to_Fp p =1 Fp_morph p by [].
by rewrite !E rmorphD rmorphM -!E to_Fp_modulus // mul0r addr0.
Qed.

(* coefficientwise reduction of a multivariate polynomial is invisible to f o eval when f does not see g *)
Lemma morph_eval_map_coeff (R : comRingType) (f : {rmorphism Z -> R}) (g : Z -> Z) (rho : var -> Z) (x : mpoly) :
  (forall c, f (g c) = f c) -> f (mp_eval rho (mp_map_coeff g x)) = f (mp_eval rho x).
Proof.
move=> Hg; rewrite /mp_map_coeff sy_eval_of_terms.
elim: x => [|[m c] x IH] //=.
by rewrite -/(mp_eval rho _) -/(mp_eval rho x) !rmorphD !rmorphM IH Hg.
Qed.

(* C04 over Z_p: for a prime p, reducing the operands into the symmetric range of Z_p first (what a Z_p context does
   when the polynomials are built) and then taking any reference determinant over Z gives, in Z_p, the determinant
   of the Sylvester matrix over Z_p - the same image as the integer determinant of the unreduced operands *)
Theorem sylv_det_Z_mod_p (p : nat) (k j : nat) (P Q : seq Z) :
  prime p ->
  let red := ring_norm (Some (Z.of_nat p)) in
  to_Fp p (sylv_det Z 0 1 Z.add Z.opp Z.mul z_is_zero k j (map red P) (map red Q)) =
  sylv_det 'F_p 0 1 +%R -%R *%R (fun _ => false) k j (map (to_Fp p) P) (map (to_Fp p) Q).
Proof.
move=> Hp red; have E : to_Fp p =1 Fp_morph p by [].
rewrite E (@sylv_det_Z_reduce_first _ (Fp_morph p) red k j P Q (fun c => to_Fp_ring_norm c Hp)).
exact: (sylv_det_Z_morph (Fp_morph p)).
Qed.

Theorem sylv_det_mp_mod_p (p : nat) (rho : var -> Z) (k j : nat) (P Q : seq mpoly) :
  prime p ->
  let red := mp_map_coeff (ring_norm (Some (Z.of_nat p))) in
  to_Fp p (mp_eval rho (sylv_det mpoly [::] mp_one mp_add mp_neg mp_mul mp_is_zero k j (map red P) (map red Q))) =
  to_Fp p (mp_eval rho (sylv_det mpoly [::] mp_one mp_add mp_neg mp_mul mp_is_zero k j P Q)).
Proof.
move=> Hp red; have E : to_Fp p =1 Fp_morph p by [].
rewrite !E !(sylv_det_mp_morph (Fp_morph p)) -!map_comp.
by congr (sylv_det _ _ _ _ _ _ _ k j _ _); apply: eq_map => x /=;
   apply: (morph_eval_map_coeff (f:=Fp_morph p)) => c; apply: to_Fp_ring_norm.
Qed.
