(* The arithmetic of the reference algebraic numbers, UNCONDITIONALLY: the interval Sturm count proved for C06
   (RefAlgValid.count_open_correct, on top of SturmItv.v) inhabits the premise of RefAlgArith.v / RefAlgSqfree.v. *)
From Coq Require Import ZArith.
From LP Require Import Scalar UPoly MPoly RefAlg.
Set Warnings "-notation-overridden,-ambiguous-paths".
From mathcomp Require Import all_ssreflect all_algebra all_real_closed.
From mathcomp Require Import ssrZ.
Set Warnings "notation-overridden,ambiguous-paths".
From LP Require Import UPolySpec RefAlgSpec RefAlgLoops RefAlgOps RefAlgArith RefAlgSqfree.
From LP Require RefAlgValid.
Import GRing.Theory Num.Theory.
Set Implicit Arguments.
Unset Strict Implicit.
Unset Printing Implicit Defensive.
Local Open Scope ring_scope.

Section Final.
Variable R : rcfType.
Local Notation rn_denotes := (@rn_denotes R).

Theorem count_open_holds : count_open_correct_premise R.
Proof. by move=> r l h Hl Hh lh r0 _ rl rh; exact: RefAlgValid.count_open_correct. Qed.

Theorem rn_select_spec (fuel : nat) (r : seq Z) encl (x y z : rnum) (a b v : R) :
  Poly r != 0 -> coprimep (@pr R r) (@pr R r)^`() -> root (pr r) v -> encl_ok encl a b v ->
  rn_denotes x a -> rn_denotes y b -> rn_select fuel r encl x y = Some z -> rn_denotes z v.
Proof. exact: (rn_select_spec_cond count_open_holds). Qed.

Theorem rn_add_spec (fuel : nat) (x y z : rnum) (a b : R) :
  rn_denotes x a -> rn_denotes y b -> rn_add fuel x y = Some z -> rn_denotes z (a + b).
Proof. exact: (rn_add_spec_sturm count_open_holds). Qed.

Theorem rn_sub_spec (fuel : nat) (x y z : rnum) (a b : R) :
  rn_denotes x a -> rn_denotes y b -> rn_sub fuel x y = Some z -> rn_denotes z (a - b).
Proof. exact: (rn_sub_spec_sturm count_open_holds). Qed.

Theorem rn_mul_spec (fuel : nat) (x y z : rnum) (a b : R) :
  rn_denotes x a -> rn_denotes y b -> rn_mul fuel x y = Some z -> rn_denotes z (a * b).
Proof. exact: (rn_mul_spec_sturm count_open_holds). Qed.

Theorem rn_div_spec (fuel : nat) (x y z : rnum) (a b : R) :
  rn_denotes x a -> rn_denotes y b -> rn_div fuel x y = Some z -> b != 0 /\ rn_denotes z (a / b).
Proof. exact: (rn_div_spec_sturm count_open_holds). Qed.

Theorem rn_pow_spec (fuel : nat) (x z : rnum) (a : R) (n : nat) :
  rn_denotes x a -> rn_pow fuel x n = Some z -> rn_denotes z (a ^+ n).
Proof. exact: (rn_pow_spec_sturm count_open_holds). Qed.

Theorem mp_eval_rn_spec (fuel : nat) (rho : MPoly.var -> rnum) (rhoR : MPoly.var -> R) (p : MPoly.mpoly) (z : rnum) :
  (forall v, rn_denotes (rho v) (rhoR v)) ->
  mp_eval_rn fuel rho p = Some z -> rn_denotes z (mp_evalR rhoR p).
Proof. exact: (mp_eval_rn_spec_sturm count_open_holds). Qed.

Theorem rn_eqb_sound (x y : rnum) (a b : R) :
  rn_denotes x a -> rn_denotes y b -> rn_eqb x y = true -> a = b.
Proof. exact: (rn_eqb_sound_cond count_open_holds). Qed.

Theorem rn_cmp_spec (fuel : nat) (x y : rnum) (a b : R) (s : Z) :
  rn_denotes x a -> rn_denotes y b -> rn_cmp fuel x y = Some s -> zr s = Num.sg (a - b).
Proof. exact: (rn_cmp_spec_sturm count_open_holds). Qed.

Theorem rn_valid_denotes (x : rnum) : rn_valid x = true -> exists v : R, rn_denotes (rn_norm x) v.
Proof. exact: (rn_valid_denotes_cond count_open_holds). Qed.

End Final.
