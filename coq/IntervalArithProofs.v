(* Proofs for property C15 (interval arithmetic never loses a point).  Model: IntervalArith.v.
   Semantics: stdlib Q (QArith); end points of value-level intervals denote extended rationals eQ. *)
From Coq Require Import ZArith List Bool Lia Lqa QArith Qfield Qpower Znumtheory.
From LP Require Import Scalar ScalarProofs IntervalArith.
Import ListNotations.
Local Open Scope Q_scope.
Set Warnings "-unused-intro-pattern".
Ltac Zify.zify_post_hook ::= Z.div_mod_to_equations.

(* ================================================================== extended rationals, end points *)

Inductive eQ := NInf | Fin (q : Q) | PInf.

(* z is admitted by the lower end e (open iff o) / by the upper end e *)
Definition lowok (e : eQ) (o : bool) (z : Q) : Prop :=
  match e with NInf => True | Fin v => v < z \/ (v == z /\ o = false) | PInf => False end.
Definition upok (e : eQ) (o : bool) (z : Q) : Prop :=
  match e with PInf => True | Fin v => z < v \/ (z == v /\ o = false) | NInf => False end.

(* extended product with 0 * inf = 0 (the convention of lp_value_mul_approx) *)
Definition eflip (e : eQ) : eQ := match e with NInf => PInf | PInf => NInf | Fin q => Fin (- q) end.
Definition emul (e1 e2 : eQ) : eQ :=
  match e1, e2 with
  | Fin a, Fin b => Fin (a * b)
  | Fin a, i => match a ?= 0 with Eq => Fin 0 | Gt => i | Lt => eflip i end
  | i, Fin b => match b ?= 0 with Eq => Fin 0 | Gt => i | Lt => eflip i end
  | NInf, NInf | PInf, PInf => PInf
  | _, _ => NInf
  end.

Definition ezero_closed (e : eQ) (o : bool) : Prop := match e with Fin v => v == 0 /\ o = false | _ => False end.

Lemma lowok_compat e o z z' : z == z' -> lowok e o z -> lowok e o z'.
Proof. intros E. destruct e; cbn; auto. rewrite E. auto. Qed.
Lemma upok_compat e o z z' : z == z' -> upok e o z -> upok e o z'.
Proof. intros E. destruct e; cbn; auto. rewrite E. auto. Qed.
Lemma lowok_close e o z : lowok e o z -> lowok e false z.
Proof. destruct e; cbn; auto. intros [H|[H _]]; auto. Qed.
Lemma upok_close e o z : upok e o z -> upok e false z.
Proof. destruct e; cbn; auto. intros [H|[H _]]; auto. Qed.

Ltac qcmp a b := let E := fresh "E" in destruct (Qcompare_spec a b) as [E|E|E].

(* scalar (finite, non-zero) times an end point *)
Lemma scale_pos_low k e o t : 0 < k -> lowok e o t -> lowok (emul (Fin k) e) o (k * t).
Proof.
  intros Hk. destruct e as [|a|]; cbn; qcmp k 0; try lra; cbn; auto.
  intros [H|[H Ho]]; [left; nra|right; split; [nra|assumption]].
Qed.
Lemma scale_pos_up k e o t : 0 < k -> upok e o t -> upok (emul (Fin k) e) o (k * t).
Proof.
  intros Hk. destruct e as [|a|]; cbn; qcmp k 0; try lra; cbn; auto.
  intros [H|[H Ho]]; [left; nra|right; split; [nra|assumption]].
Qed.
Lemma scale_neg_low k e o t : k < 0 -> upok e o t -> lowok (emul (Fin k) e) o (k * t).
Proof.
  intros Hk. destruct e as [|a|]; cbn; qcmp k 0; try lra; cbn; auto.
  intros [H|[H Ho]]; [left; nra|right; split; [nra|assumption]].
Qed.
Lemma scale_neg_up k e o t : k < 0 -> lowok e o t -> upok (emul (Fin k) e) o (k * t).
Proof.
  intros Hk. destruct e as [|a|]; cbn; qcmp k 0; try lra; cbn; auto.
  intros [H|[H Ho]]; [left; nra|right; split; [nra|assumption]].
Qed.

Lemma low_trans v o1 z e o2 : lowok (Fin v) o1 z -> lowok e o2 v -> lowok e (o1 || o2) z.
Proof.
  destruct e as [|a|]; cbn; auto. intros [H|[H Ho]] [G|[G Go]].
  - left; lra. - left; lra. - left; lra. - right. subst. split; [lra|reflexivity].
Qed.
Lemma up_trans v o1 z e o2 : upok (Fin v) o1 z -> upok e o2 v -> upok e (o1 || o2) z.
Proof.
  destruct e as [|a|]; cbn; auto. intros [H|[H Ho]] [G|[G Go]].
  - left; lra. - left; lra. - left; lra. - right. subst. split; [lra|reflexivity].
Qed.

Lemma emul_comm e1 e2 : match emul e1 e2, emul e2 e1 with
                        | Fin a, Fin b => a == b | NInf, NInf | PInf, PInf => True | _, _ => False end.
Proof.
  destruct e1 as [|a|], e2 as [|b|]; cbn; try exact I; try (qcmp a 0; cbn; auto; lra); try (qcmp b 0; cbn; auto; lra).
Qed.
Lemma lowok_emul_comm e1 e2 o z : lowok (emul e1 e2) o z -> lowok (emul e2 e1) o z.
Proof.
  pose proof (emul_comm e1 e2) as H. destruct (emul e1 e2), (emul e2 e1); cbn in *; try tauto.
  rewrite H. auto.
Qed.

(* sign classes of end points *)
Definition eneg (e : eQ) := match e with NInf => True | Fin a => a < 0 | PInf => False end.
Definition epos (e : eQ) := match e with PInf => True | Fin a => 0 < a | NInf => False end.
Lemma emul_neg_pos e1 e2 o : eneg e1 -> epos e2 -> lowok (emul e1 e2) o 0.
Proof.
  destruct e1 as [|a|], e2 as [|b|]; cbn; try tauto; intros H1 H2.
  - qcmp b 0; try lra. exact I.
  - left. nra.
  - qcmp a 0; try lra. exact I.
Qed.
Lemma emul_pos_neg e1 e2 o : epos e1 -> eneg e2 -> lowok (emul e1 e2) o 0.
Proof. intros. apply lowok_emul_comm. apply emul_neg_pos; assumption. Qed.

(* THE KEY LEMMA (lower end): a product x*y of members is admitted by one of the four corner
   products as a lower end (open iff one of the two ends is open), or it is 0 and some end point of
   an operand is a closed 0 *)
Definition czero (a1 b1 a2 b2 : eQ) (a1o b1o a2o b2o : bool) : Prop :=
  ezero_closed a1 a1o \/ ezero_closed b1 b1o \/ ezero_closed a2 a2o \/ ezero_closed b2 b2o.

Lemma corner_low (a1 b1 a2 b2 : eQ) (a1o b1o a2o b2o : bool) (x y : Q)
  (L1 : lowok a1 a1o x) (U1 : upok b1 b1o x) (L2 : lowok a2 a2o y) (U2 : upok b2 b2o y) :
  lowok (emul a1 a2) (a1o || a2o) (x * y) \/ lowok (emul a1 b2) (a1o || b2o) (x * y) \/
  lowok (emul b1 a2) (b1o || a2o) (x * y) \/ lowok (emul b1 b2) (b1o || b2o) (x * y) \/
  (x * y == 0 /\ czero a1 b1 a2 b2 a1o b1o a2o b2o).
Proof.
  unfold czero.
  qcmp y 0.
  - (* y = 0 *)
    assert (Hz : x * y == 0) by (rewrite E; ring).
    destruct a2 as [|a|]; [| |contradiction].
    + destruct b2 as [|b|]; [contradiction| |].
      * cbn in U2. qcmp b 0; [right; right; right; right; split; [assumption|right; right; right; cbn; split; [assumption|destruct U2 as [?|[_ ?]]; [lra|assumption]]]|lra|].
        (* a2 = -inf, b2 > 0 *)
        qcmp x 0.
        -- destruct a1 as [|c|]; [| |contradiction].
           ++ right. left. eapply lowok_compat; [symmetry; exact Hz|]. apply emul_neg_pos; cbn; auto.
           ++ cbn in L1. qcmp c 0.
              ** right; right; right; right. split; [assumption|left; cbn; split; [assumption|destruct L1 as [?|[_ ?]]; [lra|assumption]]].
              ** right. left. eapply lowok_compat; [symmetry; exact Hz|]. apply emul_neg_pos; cbn; auto.
              ** lra.
        -- destruct a1 as [|c|]; [| |contradiction].
           ++ right. left. eapply lowok_compat; [symmetry; exact Hz|]. apply emul_neg_pos; cbn; auto.
           ++ right. left. eapply lowok_compat; [symmetry; exact Hz|]. apply emul_neg_pos; cbn; auto. cbn in L1. lra.
        -- destruct b1 as [|c|]; [contradiction| |].
           ++ right. right. left. eapply lowok_compat; [symmetry; exact Hz|]. apply emul_pos_neg; cbn; auto. cbn in U1. lra.
           ++ right. right. left. eapply lowok_compat; [symmetry; exact Hz|]. apply emul_pos_neg; cbn; auto.
      * (* a2 = -inf, b2 = +inf *)
        qcmp x 0.
        -- destruct a1 as [|c|]; [| |contradiction].
           ++ right. left. eapply lowok_compat; [symmetry; exact Hz|]. apply emul_neg_pos; cbn; auto.
           ++ cbn in L1. qcmp c 0.
              ** right; right; right; right. split; [assumption|left; cbn; split; [assumption|destruct L1 as [?|[_ ?]]; [lra|assumption]]].
              ** right. left. eapply lowok_compat; [symmetry; exact Hz|]. apply emul_neg_pos; cbn; auto.
              ** lra.
        -- destruct a1 as [|c|]; [| |contradiction].
           ++ right. left. eapply lowok_compat; [symmetry; exact Hz|]. apply emul_neg_pos; cbn; auto.
           ++ right. left. eapply lowok_compat; [symmetry; exact Hz|]. apply emul_neg_pos; cbn; auto. cbn in L1. lra.
        -- destruct b1 as [|c|]; [contradiction| |].
           ++ right. right. left. eapply lowok_compat; [symmetry; exact Hz|]. apply emul_pos_neg; cbn; auto. cbn in U1. lra.
           ++ right. right. left. eapply lowok_compat; [symmetry; exact Hz|]. apply emul_pos_neg; cbn; auto.
    + cbn in L2. qcmp a 0; [right; right; right; right; split; [assumption|right; right; left; cbn; split; [assumption|destruct L2 as [?|[_ ?]]; [lra|assumption]]]| |lra].
      (* a2 < 0 finite *)
      assert (Hb2 : epos b2 \/ ezero_closed b2 b2o).
      { destruct b2 as [|b|]; [contradiction| |left; exact I]. cbn in U2. qcmp b 0; [right; cbn; split; [assumption|destruct U2 as [?|[_ ?]]; [lra|assumption]]|lra|left; assumption]. }
      destruct Hb2 as [Hb2|Hb2]; [|right; right; right; right; split; [assumption|right; right; right; assumption]].
      qcmp x 0.
      * destruct a1 as [|c|]; [| |contradiction].
        -- right. left. eapply lowok_compat; [symmetry; exact Hz|]. apply emul_neg_pos; cbn; auto.
        -- cbn in L1. qcmp c 0.
           ++ right; right; right; right. split; [assumption|left; cbn; split; [assumption|destruct L1 as [?|[_ ?]]; [lra|assumption]]].
           ++ right. left. eapply lowok_compat; [symmetry; exact Hz|]. apply emul_neg_pos; cbn; auto.
           ++ lra.
      * destruct a1 as [|c|]; [| |contradiction].
        -- right. left. eapply lowok_compat; [symmetry; exact Hz|]. apply emul_neg_pos; cbn; auto.
        -- right. left. eapply lowok_compat; [symmetry; exact Hz|]. apply emul_neg_pos; cbn; auto. cbn in L1. lra.
      * destruct b1 as [|c|]; [contradiction| |].
        -- right. right. left. eapply lowok_compat; [symmetry; exact Hz|]. apply emul_pos_neg; cbn; auto. cbn in U1. lra.
        -- right. right. left. eapply lowok_compat; [symmetry; exact Hz|]. apply emul_pos_neg; cbn; auto.
  - (* y < 0: x*y >= b1*y *)
    pose proof (scale_neg_low y b1 b1o x E U1) as S1.
    destruct b1 as [|b|]; [contradiction| |].
    + assert (Hyx : y * x == x * y) by ring.
      cbn [emul] in S1. destruct (Qcompare_spec y 0) as [Ey|Ey|Ey]; try lra. clear Ey.
      qcmp b 0.
      * (* b = 0 *)
        destruct S1 as [S1|[S1 S1o]].
        -- right. right. left. apply lowok_emul_comm.
           assert (Hc : emul a2 (Fin b) = Fin 0 \/ exists a, a2 = Fin a) by (destruct a2; cbn; [left|right; eauto|contradiction]; destruct (Qcompare_spec b 0); try lra; reflexivity).
           destruct Hc as [Hc|[a Hc]]; [rewrite Hc; cbn; left; nra|subst a2; cbn; left; nra].
        -- right; right; right; right. split; [nra|right; left; cbn; split; assumption].
      * (* b < 0 : b*y >= b*b2 *)
        pose proof (scale_neg_low b b2 b2o y E0 U2) as S2.
        right. right. right. left. eapply lowok_compat; [exact Hyx|].
        eapply lowok_compat; [|eapply low_trans; [exact S1|]].
        -- reflexivity.
        -- eapply lowok_compat; [|exact S2]. ring.
      * (* b > 0 : b*y >= b*a2 *)
        pose proof (scale_pos_low b a2 a2o y E0 L2) as S2.
        right. right. left. eapply lowok_compat; [exact Hyx|].
        eapply low_trans; [exact S1|]. eapply lowok_compat; [|exact S2]. ring.
    + (* b1 = +inf: the corner (+inf)*a2 with a2 <= y < 0 is -inf *)
      right. right. left. destruct a2 as [|a|]; cbn in *; [exact I| |contradiction].
      qcmp a 0; try lra. exact I.
  - (* y > 0: x*y >= a1*y *)
    pose proof (scale_pos_low y a1 a1o x E L1) as S1.
    destruct a1 as [|a|]; [| |contradiction].
    + right. left. destruct b2 as [|b|]; [contradiction| |]; cbn in *.
      * qcmp b 0; try lra. exact I.
      * exact I.
    + assert (Hyx : y * x == x * y) by ring.
      cbn [emul] in S1.
      qcmp a 0.
      * destruct S1 as [S1|[S1 S1o]].
        -- left.
           assert (Hc : emul (Fin a) a2 = Fin 0 \/ exists c, a2 = Fin c) by (destruct a2; cbn; [left|right; eauto|contradiction]; destruct (Qcompare_spec a 0); try lra; reflexivity).
           destruct Hc as [Hc|[c Hc]]; [rewrite Hc; cbn; left; nra|subst a2; cbn; left; nra].
        -- right; right; right; right. split; [nra|left; cbn; split; assumption].
      * pose proof (scale_neg_low a b2 b2o y E0 U2) as S2.
        right. left. eapply lowok_compat; [exact Hyx|].
        eapply low_trans; [exact S1|]. eapply lowok_compat; [|exact S2]. ring.
      * pose proof (scale_pos_low a a2 a2o y E0 L2) as S2.
        left. eapply lowok_compat; [exact Hyx|].
        eapply low_trans; [exact S1|]. eapply lowok_compat; [|exact S2]. ring.
Qed.

(* the upper end, by the symmetry x -> -x *)
Lemma low_flip e o z : upok e o z -> lowok (eflip e) o (- z).
Proof. destruct e; cbn; auto. intros [H|[H Ho]]; [left; lra|right; split; [lra|assumption]]. Qed.
Lemma up_flip e o z : lowok e o z -> upok (eflip e) o (- z).
Proof. destruct e; cbn; auto. intros [H|[H Ho]]; [left; lra|right; split; [lra|assumption]]. Qed.
Lemma emul_flip_up e1 e2 o z : lowok (emul (eflip e1) e2) o (- z) -> upok (emul e1 e2) o z.
Proof.
  destruct e1 as [|a|], e2 as [|b|]; cbn; auto.
  - qcmp b 0; cbn; auto. intros [H|[H Ho]]; [left; lra|right; split; [lra|assumption]].
  - qcmp a 0; qcmp (- a) 0; try lra; cbn; auto. intros [H|[H Ho]]; [left; lra|right; split; [lra|assumption]].
  - intros [H|[H Ho]]; [left; nra|right; split; [nra|assumption]].
  - qcmp a 0; qcmp (- a) 0; try lra; cbn; auto. intros [H|[H Ho]]; [left; lra|right; split; [lra|assumption]].
  - qcmp b 0; cbn; auto. intros [H|[H Ho]]; [left; lra|right; split; [lra|assumption]].
Qed.
Lemma ezero_closed_flip e o : ezero_closed (eflip e) o -> ezero_closed e o.
Proof. destruct e; cbn; auto. intros [H Ho]. split; [lra|assumption]. Qed.

Lemma corner_up (a1 b1 a2 b2 : eQ) (a1o b1o a2o b2o : bool) (x y : Q)
  (L1 : lowok a1 a1o x) (U1 : upok b1 b1o x) (L2 : lowok a2 a2o y) (U2 : upok b2 b2o y) :
  upok (emul a1 a2) (a1o || a2o) (x * y) \/ upok (emul a1 b2) (a1o || b2o) (x * y) \/
  upok (emul b1 a2) (b1o || a2o) (x * y) \/ upok (emul b1 b2) (b1o || b2o) (x * y) \/
  (x * y == 0 /\ czero a1 b1 a2 b2 a1o b1o a2o b2o).
Proof.
  pose proof (corner_low (eflip b1) (eflip a1) a2 b2 b1o a1o a2o b2o (- x) y
                (low_flip _ _ _ U1) (up_flip _ _ _ L1) L2 U2) as H.
  assert (Hm : - x * y == - (x * y)) by ring.
  destruct H as [H|[H|[H|[H|[H Hz]]]]].
  - right. right. left. apply emul_flip_up. eapply lowok_compat; [exact Hm|exact H].
  - right. right. right. left. apply emul_flip_up. eapply lowok_compat; [exact Hm|exact H].
  - left. apply emul_flip_up. eapply lowok_compat; [exact Hm|exact H].
  - right. left. apply emul_flip_up. eapply lowok_compat; [exact Hm|exact H].
  - right. right. right. right. split; [lra|]. unfold czero in *.
    destruct Hz as [Hz|[Hz|[Hz|Hz]]]; [right; left; apply ezero_closed_flip; assumption|left; apply ezero_closed_flip; assumption|tauto|tauto].
Qed.

(* ---- powers in Q *)
Lemma Qpow_succ (x : Q) (n : N) : x ^ Z.of_N (N.succ n) == x * x ^ Z.of_N n.
Proof.
  rewrite N2Z.inj_succ. unfold Z.succ. rewrite Z.add_comm.
  rewrite Qpower_plus' by lia. reflexivity.
Qed.
Lemma Qpow_nonneg (x : Q) (n : N) : 0 <= x -> 0 <= x ^ Z.of_N n.
Proof. intros. apply Qpower_0_le. assumption. Qed.
Lemma Qpow_pos (x : Q) (n : N) : 0 < x -> 0 < x ^ Z.of_N n.
Proof. intros. apply Qpower_0_lt. assumption. Qed.
Lemma Qpow_mono_strict (n : N) : forall a b, 0 <= a -> a < b -> (n <> 0)%N -> a ^ Z.of_N n < b ^ Z.of_N n.
Proof.
  induction n as [|n IH] using N.peano_ind; intros a b Ha Hab Hn; [congruence|].
  rewrite !Qpow_succ. destruct (N.eq_dec n 0) as [->|Hn0].
  - cbn. lra.
  - specialize (IH a b Ha Hab Hn0). pose proof (Qpow_nonneg a n Ha). nra.
Qed.
Lemma Qpow_mono (n : N) a b : 0 <= a -> a <= b -> a ^ Z.of_N n <= b ^ Z.of_N n.
Proof.
  intros Ha Hab. destruct (N.eq_dec n 0) as [->|Hn]; [cbn; lra|].
  destruct (Qlt_le_dec a b) as [H|H]; [apply Qlt_le_weak, Qpow_mono_strict; assumption|].
  assert (E : a == b) by lra. rewrite E. lra.
Qed.
Lemma Qpow_neg (n : N) a : (- a) ^ Z.of_N n == if N.odd n then - (a ^ Z.of_N n) else a ^ Z.of_N n.
Proof.
  induction n as [|n IH] using N.peano_ind; [cbn; reflexivity|].
  rewrite N.odd_succ, <- N.negb_odd.
  destruct (N.odd n); cbn [negb] in *; rewrite (Qpow_succ (- a)), (Qpow_succ a), IH; ring.
Qed.
Lemma Qpow_odd_mono_strict (n : N) a b : N.odd n = true -> a < b -> a ^ Z.of_N n < b ^ Z.of_N n.
Proof.
  intros Ho Hab. assert (Hn : (n <> 0)%N) by (intros ->; discriminate).
  pose proof (Qpow_neg n a) as Na. pose proof (Qpow_neg n b) as Nb. rewrite Ho in Na, Nb.
  destruct (Qlt_le_dec a 0) as [Ha|Ha]; destruct (Qlt_le_dec b 0) as [Hb|Hb].
  - assert (H : (- b) ^ Z.of_N n < (- a) ^ Z.of_N n) by (apply Qpow_mono_strict; [lra|lra|assumption]). lra.
  - pose proof (Qpow_pos (- a) n ltac:(lra)). pose proof (Qpow_nonneg b n Hb). lra.
  - lra.
  - apply Qpow_mono_strict; assumption.
Qed.
Lemma Qpow_even_abs (n : N) a : N.odd n = false -> (- a) ^ Z.of_N n == a ^ Z.of_N n.
Proof. intros Ho. rewrite Qpow_neg, Ho. reflexivity. Qed.
Lemma Qpow_even_nonneg (n : N) a : N.odd n = false -> 0 <= a ^ Z.of_N n.
Proof.
  intros Ho. destruct (Qlt_le_dec a 0); [|apply Qpow_nonneg; assumption].
  rewrite <- (Qpow_even_abs n a Ho). apply Qpow_nonneg. lra.
Qed.
Lemma Qpow_zero (n : N) : (n <> 0)%N -> 0 ^ Z.of_N n == 0.
Proof. intros Hn. destruct n; [congruence|]. cbn. apply Qpower_positive_0. Qed.


(* ================================================================== generic scalar intervals *)

Definition qlt (a : Q) (ao : bool) (b : Q) (bo : bool) : bool :=
  match a ?= b with Eq => negb ao && bo | Lt => true | Gt => false end.

Definition alias_ok_i {T} (al : alias) (dst a b : itv T) : Prop :=
  match al with NoAlias => True | AliasA => dst = a | AliasB => dst = b | AliasAB => dst = a /\ dst = b end.
Definition alias1_ok_i {T} (al : alias) (dst a : itv T) : Prop :=
  match al with NoAlias => True | AliasA => dst = a | _ => False end.

Section GenericProofs.
Context {T : Type} (O : sops T) (den : T -> Q) (wfT : T -> Prop).

(* membership of a rational in (the denotation of) an interval *)
Definition Qin (z : Q) (I : itv T) : Prop :=
  if ipt I then den (ia I) == z
  else (den (ia I) < z \/ (den (ia I) == z /\ ia_open I = false)) /\
       (z < den (ib I) \/ (z == den (ib I) /\ ib_open I = false)).

(* data-structure invariant: a point has closed ends and an unused (zero) b field *)
Definition pt_ok (I : itv T) : Prop :=
  ipt I = true -> ia_open I = false /\ ib_open I = false /\ ib I = s_zero O.
Definition iwf (I : itv T) : Prop := wfT (ia I) /\ wfT (ib I) /\ pt_ok I.

(* ---- the dst-free functions *)
Definition gi_add_pure (I1 I2 : itv T) : itv T :=
  if ipt I1 && ipt I2 then gi_point O (s_add O (ia I1) (ia I2))
  else if ipt I2 then mkI (s_add O (ia I1) (ia I2)) (s_add O (ib I1) (ia I2)) (ia_open I1) (ib_open I1) false
  else if ipt I1 then mkI (s_add O (ia I2) (ia I1)) (s_add O (ib I2) (ia I1)) (ia_open I2) (ib_open I2) false
  else mkI (s_add O (ia I1) (ia I2)) (s_add O (ib I1) (ib I2)) (ia_open I1 || ia_open I2) (ib_open I1 || ib_open I2) false.

Definition gi_neg_pure (I : itv T) : itv T :=
  if ipt I then gi_point O (s_neg O (ia I))
  else mkI (s_neg O (ib I)) (s_neg O (ia I)) (ib_open I) (ia_open I) false.

Definition gi_sub_pure (I1 I2 : itv T) : itv T := gi_add_pure I1 (gi_neg_pure I2).

Definition gi_mul_gen (I1 I2 : itv T) : itv T :=
  let c1 := s_mul O (ia I1) (ia I2) in
  let o1 := ia_open I1 || ia_open I2 in
  let st1 := corner_step O (c1, o1, c1, o1) (s_mul O (ia I1) (ib I2)) (ia_open I1 || ib_open I2) in
  let st2 := corner_step O st1 (s_mul O (ib I1) (ia I2)) (ib_open I1 || ia_open I2) in
  let st3 := corner_step O st2 (s_mul O (ib I1) (ib I2)) (ib_open I1 || ib_open I2) in
  let '(ra, rao, rb, rbo) := st3 in
  let cz := closed_zero_end O I1 I2 in
  mkI ra rb (if (s_sgn O ra =? 0)%Z && cz then false else rao) (if (s_sgn O rb =? 0)%Z && cz then false else rbo) false.

Definition gi_mul_pt (P J : itv T) : itv T :=      (* P a point *)
  if ipt J then gi_point O (s_mul O (ia P) (ia J))
  else
    let a_sgn := s_sgn O (ia P) in
    if (a_sgn =? 0)%Z then gi_point O (s_zero O)
    else if (0 <? a_sgn)%Z then mkI (s_mul O (ia P) (ia J)) (s_mul O (ia P) (ib J)) (ia_open J) (ib_open J) false
    else mkI (s_mul O (ia P) (ib J)) (s_mul O (ia P) (ia J)) (ib_open J) (ia_open J) false.

Definition gi_mul_pure (I1 I2 : itv T) : itv T :=
  if ipt I1 then gi_mul_pt I1 I2 else if ipt I2 then gi_mul_pt I2 I1 else gi_mul_gen I1 I2.

Definition gi_pow_pure (I : itv T) (n : N) : itv T :=
  if (n =? 0)%N then gi_point O (s_one O)
  else if ipt I then gi_point O (s_pow O (ia I) n)
  else
    let pa := s_pow O (ia I) n in
    let pb := s_pow O (ib I) n in
    if N.odd n then mkI pa pb (ia_open I) (ib_open I) false
    else
      let sgn := gi_sgn O I in
      if (sgn =? 0)%Z then
        if endpoint_lt O pb (negb (ib_open I)) pa (negb (ia_open I))
        then mkI (s_zero O) pa false (ia_open I) false
        else mkI (s_zero O) pb false (ib_open I) false
      else if (0 <? sgn)%Z then mkI pa pb (ia_open I) (ib_open I) false
      else mkI pb pa (ib_open I) (ia_open I) false.

(* ---- independence of the previous contents of the output operand and of aliasing *)
Ltac crush_dst :=
  repeat match goal with
         | I : itv T |- _ => destruct I
         end; cbn in *;
  repeat match goal with
         | H : ?p = true -> _ |- _ => match type of p with bool => destruct p end
         end; cbn in *;
  repeat match goal with
         | H : true = true -> _ |- _ => specialize (H eq_refl); destruct H as (? & ? & ?); subst
         | H : false = true -> _ |- _ => clear H
         end; cbn in *.

Lemma gi_add_dst al S I1 I2 : alias_ok_i al S I1 I2 -> pt_ok S -> gi_add O al S I1 I2 = gi_add_pure I1 I2.
Proof.
  unfold pt_ok. intros Hal HS.
  destruct al; cbn in Hal; [|subst S|subst S|destruct Hal; subst S; subst I2];
    destruct I1 as [a1 b1 ao1 bo1 p1]; try destruct I2 as [a2 b2 ao2 bo2 p2]; try destruct S as [sa sb sao sbo sp];
    cbn in *; unfold gi_add, gi_add_core, gi_add_pure, gi_point; cbn;
    repeat match goal with
           | |- context [if ?b then _ else _] => is_var b; destruct b; cbn
           | |- context [if negb ?b then _ else _] => is_var b; destruct b; cbn
           end;
    try reflexivity;
    try (destruct HS as (? & ? & ?); [reflexivity|]; subst; reflexivity).
Qed.

Lemma gi_neg_dst al N I : alias1_ok_i al N I -> pt_ok N -> gi_neg O al N I = gi_neg_pure I.
Proof.
  unfold pt_ok. intros Hal HS.
  destruct al; cbn in Hal; try contradiction; [|subst N];
    destruct I as [a1 b1 ao1 bo1 p1]; try destruct N as [sa sb sao sbo sp];
    cbn in *; unfold gi_neg, gi_neg_pure, gi_point; cbn;
    repeat match goal with
           | |- context [if ?b then _ else _] => is_var b; destruct b; cbn
           | |- context [if negb ?b then _ else _] => is_var b; destruct b; cbn
           end;
    try reflexivity;
    try (destruct HS as (? & ? & ?); [reflexivity|]; subst; reflexivity).
Qed.

Lemma gi_neg_pure_pt_ok I : pt_ok (gi_neg_pure I).
Proof. unfold gi_neg_pure, pt_ok, gi_point. destruct (ipt I); cbn; intros; try discriminate; auto. Qed.

Lemma gi_sub_dst al S I1 I2 : alias_ok_i al S I1 I2 -> pt_ok S -> pt_ok I2 -> gi_sub O al S I1 I2 = gi_sub_pure I1 I2.
Proof.
  intros Hal HS H2. unfold gi_sub, gi_sub_pure.
  assert (Hn : forall J, pt_ok J -> gi_neg O AliasA J J = gi_neg_pure J)
    by (intros J HJ; apply gi_neg_dst; [reflexivity|assumption]).
  destruct al; cbn in Hal; cbn [irdB].
  - rewrite Hn by assumption. apply gi_add_dst; [exact I|assumption].
  - subst S. rewrite Hn by assumption. apply gi_add_dst; [reflexivity|assumption].
  - subst S. rewrite Hn by assumption. apply gi_add_dst; [exact I|assumption].
  - destruct Hal; subst S; subst I2. rewrite Hn by assumption. apply gi_add_dst; [reflexivity|assumption].
Qed.

Lemma gi_mul_dst al P I1 I2 : alias_ok_i al P I1 I2 -> pt_ok P -> gi_mul O al P I1 I2 = gi_mul_pure I1 I2.
Proof.
  unfold pt_ok. intros Hal HS.
  destruct al; cbn in Hal; [|subst P|subst P|destruct Hal; subst P; subst I2];
    destruct I1 as [a1 b1 ao1 bo1 p1]; try destruct I2 as [a2 b2 ao2 bo2 p2]; try destruct P as [sa sb sao sbo sp];
    cbn in *; unfold gi_mul, gi_mul_core, gi_mul_pure, gi_mul_pt, gi_mul_gen, gi_point; cbn;
    repeat match goal with
           | |- context [if ?b then _ else _] => is_var b; destruct b; cbn
           | |- context [if negb ?b then _ else _] => is_var b; destruct b; cbn
           end;
    try reflexivity;
    repeat match goal with
           | |- context [if (?x =? 0)%Z then _ else _] => destruct (x =? 0)%Z; cbn
           | |- context [if (0 <? ?x)%Z then _ else _] => destruct (0 <? x)%Z; cbn
           end;
    try reflexivity;
    try (destruct HS as (? & ? & ?); [reflexivity|]; subst; reflexivity).
Qed.

Lemma gi_pow_dst al P I n : alias1_ok_i al P I -> pt_ok P -> gi_pow O al P I n = gi_pow_pure I n.
Proof.
  unfold pt_ok. intros Hal HS.
  destruct al; cbn in Hal; try contradiction; [|subst P];
    destruct I as [a1 b1 ao1 bo1 p1]; try destruct P as [sa sb sao sbo sp];
    cbn in *; unfold gi_pow, gi_pow_pure, gi_point; cbn;
    destruct (n =? 0)%N; cbn;
    repeat match goal with
           | |- context [if ?b then _ else _] => is_var b; destruct b; cbn
           | |- context [if negb ?b then _ else _] => is_var b; destruct b; cbn
           end;
    try reflexivity;
    try (destruct HS as (? & ? & ?); [reflexivity|]; subst; reflexivity);
    destruct (N.odd n); cbn; try reflexivity;
    repeat match goal with
           | |- context [if (?x =? 0)%Z then _ else _] => destruct (x =? 0)%Z; cbn
           | |- context [if (0 <? ?x)%Z then _ else _] => destruct (0 <? x)%Z; cbn
           | |- context [if endpoint_lt ?o ?a ?b ?c ?d then _ else _] => destruct (endpoint_lt o a b c d); cbn
           end;
    try reflexivity.
Qed.

(* ---- semantics: the scalar layer is exact (instantiated below with the C17 theorems) *)
Hypothesis H_zero : wfT (s_zero O) /\ den (s_zero O) == 0.
Hypothesis H_one : wfT (s_one O) /\ den (s_one O) == 1.
Hypothesis H_add : forall a b, wfT a -> wfT b -> wfT (s_add O a b) /\ den (s_add O a b) == den a + den b.
Hypothesis H_neg : forall a, wfT a -> wfT (s_neg O a) /\ den (s_neg O a) == - den a.
Hypothesis H_mul : forall a b, wfT a -> wfT b -> wfT (s_mul O a b) /\ den (s_mul O a b) == den a * den b.
Hypothesis H_pow : forall a n, wfT a -> wfT (s_pow O a n) /\ den (s_pow O a n) == den a ^ Z.of_N n.
Hypothesis H_cmp : forall a b, wfT a -> wfT b -> Z.sgn (s_cmp O a b) = cmp_to_Z (den a ?= den b).
Hypothesis H_sgn : forall a, wfT a -> s_sgn O a = cmp_to_Z (den a ?= 0).

Lemma Qin_compat z z' I : z == z' -> Qin z I -> Qin z' I.
Proof. unfold Qin. intros E. destruct (ipt I); rewrite E; auto. Qed.

Lemma endpoint_lt_spec a ao b bo : wfT a -> wfT b -> endpoint_lt O a ao b bo = qlt (den a) ao (den b) bo.
Proof.
  intros Ha Hb. unfold endpoint_lt, qlt. pose proof (H_cmp a b Ha Hb) as H.
  destruct (den a ?= den b); cbn in H.
  - assert (E : s_cmp O a b = 0%Z) by lia. rewrite E. reflexivity.
  - assert (E : (s_cmp O a b < 0)%Z) by lia.
    destruct (Z.eqb_spec (s_cmp O a b) 0); [lia|]. destruct (Z.ltb_spec (s_cmp O a b) 0); [reflexivity|lia].
  - assert (E : (0 < s_cmp O a b)%Z) by lia.
    destruct (Z.eqb_spec (s_cmp O a b) 0); [lia|]. destruct (Z.ltb_spec (s_cmp O a b) 0); [lia|reflexivity].
Qed.

Lemma sgn_cases a : wfT a ->
  (s_sgn O a = (-1)%Z /\ den a < 0) \/ (s_sgn O a = 0%Z /\ den a == 0) \/ (s_sgn O a = 1%Z /\ 0 < den a).
Proof.
  intros Ha. rewrite (H_sgn a Ha). destruct (Qcompare_spec (den a) 0); cbn; auto.
Qed.

(* ---- add / neg / sub *)
Lemma gi_add_pure_wf I1 I2 : iwf I1 -> iwf I2 -> iwf (gi_add_pure I1 I2).
Proof.
  intros (A1 & B1 & P1) (A2 & B2 & P2). unfold gi_add_pure, iwf, pt_ok, gi_point.
  destruct (ipt I1), (ipt I2); cbn; repeat split; try discriminate; try apply H_add; try apply H_zero; auto.
Qed.

Lemma gi_add_pure_incl I1 I2 x y : iwf I1 -> iwf I2 -> Qin x I1 -> Qin y I2 -> Qin (x + y) (gi_add_pure I1 I2).
Proof.
  intros (A1 & B1 & P1) (A2 & B2 & P2). unfold gi_add_pure, Qin, gi_point.
  destruct (H_add (ia I1) (ia I2) A1 A2) as [_ Eaa]. destruct (H_add (ib I1) (ia I2) B1 A2) as [_ Eba].
  destruct (H_add (ia I2) (ia I1) A2 A1) as [_ Eaa']. destruct (H_add (ib I2) (ia I1) B2 A1) as [_ Eba'].
  destruct (H_add (ib I1) (ib I2) B1 B2) as [_ Ebb].
  destruct (ipt I1), (ipt I2); cbn.
  - intros H1 H2. rewrite Eaa. lra.
  - intros H1 [L U]. rewrite Eaa', Eba'. split.
    + destruct L as [L|[L Lo]]; [left; lra|right; split; [lra|assumption]].
    + destruct U as [U|[U Uo]]; [left; lra|right; split; [lra|assumption]].
  - intros [L U] H2. rewrite Eaa, Eba. split.
    + destruct L as [L|[L Lo]]; [left; lra|right; split; [lra|assumption]].
    + destruct U as [U|[U Uo]]; [left; lra|right; split; [lra|assumption]].
  - intros [L1 U1] [L2 U2]. rewrite Eaa, Ebb. split.
    + destruct L1 as [L1|[L1 Lo1]], L2 as [L2|[L2 Lo2]]; try (left; lra). right. split; [lra|]. rewrite Lo1, Lo2. reflexivity.
    + destruct U1 as [U1|[U1 Uo1]], U2 as [U2|[U2 Uo2]]; try (left; lra). right. split; [lra|]. rewrite Uo1, Uo2. reflexivity.
Qed.

Lemma gi_neg_pure_wf I : iwf I -> iwf (gi_neg_pure I).
Proof.
  intros (A1 & B1 & P1). unfold gi_neg_pure, iwf, pt_ok, gi_point.
  destruct (ipt I); cbn; repeat split; try discriminate; try apply H_neg; try apply H_zero; auto.
Qed.

Lemma gi_neg_pure_incl I x : iwf I -> Qin x I -> Qin (- x) (gi_neg_pure I).
Proof.
  intros (A1 & B1 & P1). unfold gi_neg_pure, Qin, gi_point.
  destruct (H_neg (ia I) A1) as [_ Ea]. destruct (H_neg (ib I) B1) as [_ Eb].
  destruct (ipt I); cbn.
  - intros H. rewrite Ea. lra.
  - intros [L U]. rewrite Ea, Eb. split.
    + destruct U as [U|[U Uo]]; [left; lra|right; split; [lra|assumption]].
    + destruct L as [L|[L Lo]]; [left; lra|right; split; [lra|assumption]].
Qed.

Lemma gi_sub_pure_wf I1 I2 : iwf I1 -> iwf I2 -> iwf (gi_sub_pure I1 I2).
Proof. intros. apply gi_add_pure_wf; [assumption|apply gi_neg_pure_wf; assumption]. Qed.

Lemma gi_sub_pure_incl I1 I2 x y : iwf I1 -> iwf I2 -> Qin x I1 -> Qin y I2 -> Qin (x - y) (gi_sub_pure I1 I2).
Proof.
  intros W1 W2 H1 H2. unfold gi_sub_pure. apply (Qin_compat (x + - y)); [ring|].
  apply gi_add_pure_incl; [assumption|apply gi_neg_pure_wf; assumption|assumption|apply gi_neg_pure_incl; assumption].
Qed.

(* ---- mul: point times interval *)
Lemma gi_mul_pt_wf P J : iwf P -> iwf J -> iwf (gi_mul_pt P J).
Proof.
  intros (A1 & B1 & P1) (A2 & B2 & P2). unfold gi_mul_pt, iwf, pt_ok, gi_point.
  destruct (ipt J); cbn; [repeat split; try apply H_mul; try apply H_zero; auto|].
  destruct (s_sgn O (ia P) =? 0)%Z; cbn; [repeat split; try apply H_zero; auto|].
  destruct (0 <? s_sgn O (ia P))%Z; cbn; repeat split; try discriminate; try apply H_mul; auto.
Qed.

Lemma gi_mul_pt_incl P J x y : iwf P -> iwf J -> ipt P = true -> Qin x P -> Qin y J -> Qin (x * y) (gi_mul_pt P J).
Proof.
  intros (A1 & B1 & P1) (A2 & B2 & P2) Hp. unfold gi_mul_pt, Qin, gi_point. rewrite Hp.
  destruct (H_mul (ia P) (ia J) A1 A2) as [_ Eaa]. destruct (H_mul (ia P) (ib J) A1 B2) as [_ Eab].
  destruct H_zero as [_ E0].
  intros Hx. destruct (ipt J); cbn.
  - intros Hy. rewrite Eaa. rewrite Hx, Hy. reflexivity.
  - intros [L U]. destruct (sgn_cases (ia P) A1) as [[Es Ev]|[[Es Ev]|[Es Ev]]]; rewrite Es; cbn.
    + rewrite Eaa, Eab. split.
      * destruct U as [U|[U Uo]]; [left; nra|right; split; [nra|assumption]].
      * destruct L as [L|[L Lo]]; [left; nra|right; split; [nra|assumption]].
    + rewrite E0. nra.
    + rewrite Eaa, Eab. split.
      * destruct L as [L|[L Lo]]; [left; nra|right; split; [nra|assumption]].
      * destruct U as [U|[U Uo]]; [left; nra|right; split; [nra|assumption]].
Qed.

(* ---- mul: the general case.  Invariant of the running result (ra, rao, rb, rbo) w.r.t. the corner
   products processed so far (value, open flag).  Exc = "the value is 0 and an operand has a closed
   zero end" is the only situation in which the `else if` may leave the upper end open although a
   closed corner attains it; the final zero fix-up closes exactly that. *)
Section MulInv.
Variable Exc : Q -> Prop.
Definition Inv1 (st : T * bool * T * bool) (c : Q * bool) : Prop :=
  let '(ra, rao, rb, rbo) := st in
  den ra <= fst c /\ fst c <= den rb /\
  (fst c == den ra -> snd c = false -> rao = false) /\
  (fst c == den rb -> snd c = false -> rbo = false \/ Exc (fst c)).
Definition Inv (S : list (Q * bool)) (st : T * bool * T * bool) : Prop :=
  let '(ra, rao, rb, rbo) := st in
  wfT ra /\ wfT rb /\ den ra <= den rb /\ Forall (Inv1 st) S.

Lemma Inv_step S st tmp tmpo :
  Inv S st -> wfT tmp ->
  (Forall (fun c => fst c == den tmp /\ snd c = true) S -> tmpo = false -> Exc (den tmp)) ->
  Inv ((den tmp, tmpo) :: S) (corner_step O st tmp tmpo).
Proof.
  destruct st as [[[ra rao] rb] rbo]. intros (Wa & Wb & Hab & HS) Wt Hconf.
  unfold corner_step. rewrite !endpoint_lt_spec by assumption. unfold qlt.
  rewrite Forall_forall in HS.
  assert (Hold : forall ra' rao' rb' rbo',
             (forall c, In c S -> Inv1 (ra, rao, rb, rbo) c -> Inv1 (ra', rao', rb', rbo') c) ->
             wfT ra' -> wfT rb' -> den ra' <= den rb' -> Inv1 (ra', rao', rb', rbo') (den tmp, tmpo) ->
             Inv ((den tmp, tmpo) :: S) (ra', rao', rb', rbo')).
  { intros ra' rao' rb' rbo' Hc W1 W2 Hle Hn. repeat split; try assumption. constructor; [assumption|].
    rewrite Forall_forall. intros c Hin. apply Hc; [assumption|apply HS; assumption]. }
  destruct (Qcompare_spec (den tmp) (den ra)) as [E1|E1|E1].
  - (* same value as the lower end *)
    destruct (negb tmpo && rao) eqn:F1.
    + (* tmp closed, ra open: tmp becomes the lower end; rb is not examined *)
      apply andb_prop in F1. destruct F1 as [F1 F2]. apply negb_true_iff in F1. subst tmpo rao.
      apply Hold; try assumption; [|lra|].
      * intros c _ (C1 & C2 & C3 & C4). cbn. repeat split; try lra; auto.
      * cbn. repeat split; try lra; auto. intros Eb _.
        destruct rbo; [right|left; reflexivity]. apply Hconf; [|reflexivity].
        rewrite Forall_forall. intros c Hc. destruct (HS c Hc) as (C1 & C2 & C3 & C4). split; [lra|].
        destruct (snd c) eqn:Ec; [reflexivity|]. assert (true = false) by (apply C3; [lra|reflexivity]). discriminate.
    + assert (F1' : tmpo = false -> rao = false) by (intros ->; exact F1).
      destruct (Qcompare_spec (den rb) (den tmp)) as [E2|E2|E2].
      * destruct (negb (negb rbo) && negb tmpo) eqn:F2.
        -- apply andb_prop in F2. destruct F2 as [F2 F3]. apply negb_true_iff in F2, F3. apply negb_false_iff in F2. subst rbo tmpo.
           apply Hold; try assumption; [|lra|].
           ++ intros c _ (C1 & C2 & C3 & C4). cbn. repeat split; try lra; auto.
           ++ cbn. repeat split; try lra; auto.
        -- apply Hold; try assumption; [auto|].
           cbn. repeat split; try lra; auto. intros _ ->. left. destruct rbo; [discriminate|reflexivity].
      * apply Hold; try assumption; [|lra|].
        -- intros c _ (C1 & C2 & C3 & C4). cbn. repeat split; try lra; auto; try (intros; lra).
        -- cbn. repeat split; try lra; auto.
      * apply Hold; try assumption; [auto|].
        cbn. repeat split; try lra; auto; try (intros; lra).
  - (* strictly below the lower end *)
    apply Hold; try assumption; [|lra|].
    + intros c _ (C1 & C2 & C3 & C4). cbn. repeat split; try lra; auto; try (intros; lra).
    + cbn. repeat split; try lra; auto; try (intros; lra).
  - (* strictly above the lower end *)
    destruct (Qcompare_spec (den rb) (den tmp)) as [E2|E2|E2].
    + destruct (negb (negb rbo) && negb tmpo) eqn:F2.
      * apply andb_prop in F2. destruct F2 as [F2 F3]. apply negb_true_iff in F2, F3. apply negb_false_iff in F2. subst rbo tmpo.
        apply Hold; try assumption; [|lra|].
        -- intros c _ (C1 & C2 & C3 & C4). cbn. repeat split; try lra; auto.
        -- cbn. repeat split; try lra; auto; try (intros; lra).
      * apply Hold; try assumption; [auto|].
        cbn. repeat split; try lra; auto; try (intros; lra). intros _ ->. left. destruct rbo; [discriminate|reflexivity].
    + apply Hold; try assumption; [|lra|].
      * intros c _ (C1 & C2 & C3 & C4). cbn. repeat split; try lra; auto; try (intros; lra).
      * cbn. repeat split; try lra; auto; try (intros; lra).
    + apply Hold; try assumption; [auto|].
      cbn. repeat split; try lra; intros; lra.
Qed.
End MulInv.

Lemma corner_step_wf st tmp tmpo :
  (let '(ra, _, rb, _) := st in wfT ra /\ wfT rb) -> wfT tmp ->
  (let '(ra, _, rb, _) := corner_step O st tmp tmpo in wfT ra /\ wfT rb).
Proof.
  destruct st as [[[ra rao] rb] rbo]. intros [Wa Wb] Wt. unfold corner_step.
  destruct (endpoint_lt O tmp tmpo ra rao); [auto|]. destruct (endpoint_lt O rb (negb rbo) tmp (negb tmpo)); auto.
Qed.

Lemma closed_zero_end_spec I1 I2 : iwf I1 -> iwf I2 ->
  (closed_zero_end O I1 I2 = true <->
   czero (Fin (den (ia I1))) (Fin (den (ib I1))) (Fin (den (ia I2))) (Fin (den (ib I2)))
         (ia_open I1) (ib_open I1) (ia_open I2) (ib_open I2)).
Proof.
  intros (A1 & B1 & _) (A2 & B2 & _). unfold closed_zero_end, czero, ezero_closed.
  assert (Hs : forall a o, wfT a -> ((s_sgn O a =? 0)%Z && negb o = true <-> den a == 0 /\ o = false)).
  { intros a o Wa. destruct (sgn_cases a Wa) as [[Es Ev]|[[Es Ev]|[Es Ev]]]; rewrite Es; destruct o; cbn; split; try discriminate; try tauto; intros [? ?]; try discriminate; lra. }
  rewrite !orb_true_iff. rewrite !Hs by assumption. tauto.
Qed.

Lemma gi_mul_gen_incl I1 I2 x y : iwf I1 -> iwf I2 -> ipt I1 = false -> ipt I2 = false ->
  Qin x I1 -> Qin y I2 -> Qin (x * y) (gi_mul_gen I1 I2) /\ iwf (gi_mul_gen I1 I2).
Proof.
  intros W1 W2 P1 P2. pose proof (closed_zero_end_spec I1 I2 W1 W2) as Hcz.
  destruct W1 as (A1 & B1 & _), W2 as (A2 & B2 & _).
  unfold Qin. rewrite P1, P2. intros [L1 U1] [L2 U2].
  unfold gi_mul_gen.
  set (cz := closed_zero_end O I1 I2) in *.
  destruct (H_mul _ _ A1 A2) as [Wc1 Ec1]. destruct (H_mul _ _ A1 B2) as [Wc2 Ec2].
  destruct (H_mul _ _ B1 A2) as [Wc3 Ec3]. destruct (H_mul _ _ B1 B2) as [Wc4 Ec4].
  set (c1 := s_mul O (ia I1) (ia I2)) in *. set (c2 := s_mul O (ia I1) (ib I2)) in *.
  set (c3 := s_mul O (ib I1) (ia I2)) in *. set (c4 := s_mul O (ib I1) (ib I2)) in *.
  set (a1 := den (ia I1)) in *. set (b1 := den (ib I1)) in *. set (a2 := den (ia I2)) in *. set (b2 := den (ib I2)) in *.
  set (a1o := ia_open I1) in *. set (b1o := ib_open I1) in *. set (a2o := ia_open I2) in *. set (b2o := ib_open I2) in *.
  set (Exc := fun v : Q => v == 0 /\ cz = true).
  assert (Hlt1 : a1o = true -> a1 < b1) by (intros Ho; destruct L1 as [?|[_ ?]]; [|congruence]; destruct U1 as [?|[? _]]; lra).
  assert (Hlt2 : a2o = true -> a2 < b2) by (intros Ho; destruct L2 as [?|[_ ?]]; [|congruence]; destruct U2 as [?|[? _]]; lra).
  (* the three steps *)
  assert (I0 : Inv Exc [(den c1, a1o || a2o)] (c1, a1o || a2o, c1, a1o || a2o)).
  { repeat split; try assumption; [lra|]. constructor; [|constructor]. cbn. repeat split; try lra; auto. }
  pose proof (Inv_step Exc _ _ c2 (a1o || b2o) I0 Wc2) as I1'.
  assert (S1 : Inv Exc [(den c2, a1o || b2o); (den c1, a1o || a2o)] (corner_step O (c1, a1o || a2o, c1, a1o || a2o) c2 (a1o || b2o))).
  { apply I1'. intros HF Ho. inversion HF as [|? ? [Ev Eo] _]; subst. cbn in Ev, Eo.
    apply orb_false_iff in Ho. destruct Ho as [Ho1 Ho2]. rewrite Ho1 in Eo. cbn in Eo.
    specialize (Hlt2 Eo). assert (Ea : a1 == 0) by nra.
    split; [rewrite Ec2; nra|]. apply Hcz. left. cbn. split; assumption. }
  clear I1'. set (st1 := corner_step O (c1, a1o || a2o, c1, a1o || a2o) c2 (a1o || b2o)) in *.
  pose proof (Inv_step Exc _ _ c3 (b1o || a2o) S1 Wc3) as I2'.
  assert (S2 : Inv Exc [(den c3, b1o || a2o); (den c2, a1o || b2o); (den c1, a1o || a2o)] (corner_step O st1 c3 (b1o || a2o))).
  { apply I2'. intros HF Ho. inversion HF as [|? ? _ HF']; subst. inversion HF' as [|? ? [Ev Eo] _]; subst. cbn in Ev, Eo.
    apply orb_false_iff in Ho. destruct Ho as [Ho1 Ho2]. rewrite Ho2, orb_false_r in Eo.
    specialize (Hlt1 Eo). assert (Ea : a2 == 0) by nra.
    split; [rewrite Ec3; nra|]. apply Hcz. right. right. left. cbn. split; assumption. }
  clear I2'. set (st2 := corner_step O st1 c3 (b1o || a2o)) in *.
  pose proof (Inv_step Exc _ _ c4 (b1o || b2o) S2 Wc4) as I3'.
  assert (S3 : Inv Exc [(den c4, b1o || b2o); (den c3, b1o || a2o); (den c2, a1o || b2o); (den c1, a1o || a2o)] (corner_step O st2 c4 (b1o || b2o))).
  { apply I3'. intros HF Ho. inversion HF as [|? ? _ HF']; subst. inversion HF' as [|? ? [Ev Eo] _]; subst. cbn in Ev, Eo.
    apply orb_false_iff in Ho. destruct Ho as [Ho1 Ho2]. rewrite Ho2, orb_false_r in Eo.
    specialize (Hlt1 Eo). assert (Ea : b2 == 0) by nra.
    split; [rewrite Ec4; nra|]. apply Hcz. right. right. right. cbn. split; assumption. }
  clear I3'. set (st3 := corner_step O st2 c4 (b1o || b2o)) in *.
  destruct st3 as [[[ra rao] rb] rbo]. destruct S3 as (Wra & Wrb & Hab & HS).
  rewrite Forall_forall in HS.
  (* a zero-valued corner exists when an operand has a closed zero end *)
  assert (Hzc : cz = true -> den ra <= 0 /\ 0 <= den rb).
  { intros Hc. apply Hcz in Hc. unfold czero, ezero_closed in Hc.
    destruct Hc as [[Hc _]|[[Hc _]|[[Hc _]|[Hc _]]]].
    - destruct (HS (den c1, a1o || a2o)) as (C1 & C2 & _); [cbn; tauto|]. cbn in C1, C2. rewrite Ec1 in *. nra.
    - destruct (HS (den c3, b1o || a2o)) as (C1 & C2 & _); [cbn; tauto|]. cbn in C1, C2. rewrite Ec3 in *. nra.
    - destruct (HS (den c1, a1o || a2o)) as (C1 & C2 & _); [cbn; tauto|]. cbn in C1, C2. rewrite Ec1 in *. nra.
    - destruct (HS (den c2, a1o || b2o)) as (C1 & C2 & _); [cbn; tauto|]. cbn in C1, C2. rewrite Ec2 in *. nra. }
  assert (Hsa : den ra == 0 -> (s_sgn O ra =? 0)%Z = true)
    by (intros E; destruct (sgn_cases ra Wra) as [[Es Ev]|[[Es Ev]|[Es Ev]]]; rewrite Es; try reflexivity; lra).
  assert (Hsb : den rb == 0 -> (s_sgn O rb =? 0)%Z = true)
    by (intros E; destruct (sgn_cases rb Wrb) as [[Es Ev]|[[Es Ev]|[Es Ev]]]; rewrite Es; try reflexivity; lra).
  split; [|repeat split; try assumption; cbn; discriminate].
  cbn [ipt ia ib ia_open ib_open].
  set (rao' := if (s_sgn O ra =? 0)%Z && cz then false else rao).
  set (rbo' := if (s_sgn O rb =? 0)%Z && cz then false else rbo).
  assert (Hif : forall (b c : bool), c = false -> (if b then false else c) = false) by (intros [] [] ?; auto).
  assert (Hrao : rao = false -> rao' = false) by (apply Hif).
  assert (Hrbo : rbo = false -> rbo' = false) by (apply Hif).
  assert (Low : forall c o, In (den c, o) [(den c4, b1o || b2o); (den c3, b1o || a2o); (den c2, a1o || b2o); (den c1, a1o || a2o)] ->
                 lowok (Fin (den c)) o (x * y) -> den ra < x * y \/ (den ra == x * y /\ rao' = false)).
  { intros c o Hin Hl. destruct (HS _ Hin) as (C1 & C2 & C3 & C4). cbn in C1, C2, C3, C4. cbn in Hl.
    destruct Hl as [Hl|[Hl Ho]]; [left; lra|]. destruct (Qlt_le_dec (den ra) (den c)); [left; lra|].
    right. split; [lra|]. apply Hrao. apply C3; [lra|assumption]. }
  assert (Up : forall c o, In (den c, o) [(den c4, b1o || b2o); (den c3, b1o || a2o); (den c2, a1o || b2o); (den c1, a1o || a2o)] ->
                 upok (Fin (den c)) o (x * y) -> x * y < den rb \/ (x * y == den rb /\ rbo' = false)).
  { intros c o Hin Hl. destruct (HS _ Hin) as (C1 & C2 & C3 & C4). cbn in C1, C2, C3, C4. cbn in Hl.
    destruct Hl as [Hl|[Hl Ho]]; [left; lra|]. destruct (Qlt_le_dec (den c) (den rb)); [left; lra|].
    right. split; [lra|]. destruct C4 as [C4|[C4 C5]]; [lra|assumption|apply Hrbo; assumption|].
    unfold rbo'. rewrite Hsb by lra. rewrite C5. reflexivity. }
  split.
  - destruct (corner_low (Fin a1) (Fin b1) (Fin a2) (Fin b2) a1o b1o a2o b2o x y L1 U1 L2 U2) as [H|[H|[H|[H|[Hz Hc]]]]].
    + apply (Low c1 (a1o || a2o)); [cbn; tauto|]. cbn in H |- *. rewrite Ec1. exact H.
    + apply (Low c2 (a1o || b2o)); [cbn; tauto|]. cbn in H |- *. rewrite Ec2. exact H.
    + apply (Low c3 (b1o || a2o)); [cbn; tauto|]. cbn in H |- *. rewrite Ec3. exact H.
    + apply (Low c4 (b1o || b2o)); [cbn; tauto|]. cbn in H |- *. rewrite Ec4. exact H.
    + apply Hcz in Hc. destruct (Hzc Hc) as [Z1 Z2]. destruct (Qlt_le_dec (den ra) 0); [left; lra|].
      right. split; [lra|]. unfold rao'. rewrite Hsa by lra. rewrite Hc. reflexivity.
  - destruct (corner_up (Fin a1) (Fin b1) (Fin a2) (Fin b2) a1o b1o a2o b2o x y L1 U1 L2 U2) as [H|[H|[H|[H|[Hz Hc]]]]].
    + apply (Up c1 (a1o || a2o)); [cbn; tauto|]. cbn in H |- *. rewrite Ec1. exact H.
    + apply (Up c2 (a1o || b2o)); [cbn; tauto|]. cbn in H |- *. rewrite Ec2. exact H.
    + apply (Up c3 (b1o || a2o)); [cbn; tauto|]. cbn in H |- *. rewrite Ec3. exact H.
    + apply (Up c4 (b1o || b2o)); [cbn; tauto|]. cbn in H |- *. rewrite Ec4. exact H.
    + apply Hcz in Hc. destruct (Hzc Hc) as [Z1 Z2]. destruct (Qlt_le_dec 0 (den rb)); [left; lra|].
      right. split; [lra|]. unfold rbo'. rewrite Hsb by lra. rewrite Hc. reflexivity.
Qed.

Lemma gi_mul_pure_incl I1 I2 x y : iwf I1 -> iwf I2 -> Qin x I1 -> Qin y I2 ->
  Qin (x * y) (gi_mul_pure I1 I2) /\ iwf (gi_mul_pure I1 I2).
Proof.
  intros W1 W2 H1 H2. unfold gi_mul_pure.
  destruct (ipt I1) eqn:P1; [split; [apply gi_mul_pt_incl|apply gi_mul_pt_wf]; assumption|].
  destruct (ipt I2) eqn:P2.
  - split; [|apply gi_mul_pt_wf; assumption]. apply (Qin_compat (y * x)); [ring|]. apply gi_mul_pt_incl; assumption.
  - apply gi_mul_gen_incl; assumption.
Qed.

(* ---- sgn, contains_zero, contains *)
Lemma gi_sgn_sound I x : iwf I -> Qin x I ->
  ((0 < gi_sgn O I)%Z -> 0 < x) /\ ((gi_sgn O I < 0)%Z -> x < 0) /\ (gi_sgn O I = 0%Z -> Qin 0 I).
Proof.
  intros (A & B & _). unfold Qin, gi_sgn. destruct (ipt I).
  - intros Hx. destruct (sgn_cases (ia I) A) as [[Es Ev]|[[Es Ev]|[Es Ev]]]; rewrite Es; repeat split; intros; try lia; lra.
  - intros [L U].
    destruct (sgn_cases (ia I) A) as [[Es Ev]|[[Es Ev]|[Es Ev]]]; rewrite Es;
    destruct (sgn_cases (ib I) B) as [[Fs Fv]|[[Fs Fv]|[Fs Fv]]]; rewrite Fs; cbn;
    destruct (ia_open I) eqn:Ao, (ib_open I) eqn:Bo; cbn; repeat split; intros; try lia; try lra;
    try (destruct L as [L|[L Lo]]; try discriminate; destruct U as [U|[U Uo]]; try discriminate; try lra;
         first [left; lra|right; split; [lra|reflexivity]]).
Qed.

Lemma gi_contains_zero_spec I : iwf I -> (gi_contains_zero O I = true <-> Qin 0 I).
Proof.
  intros (A & B & _). unfold Qin, gi_contains_zero. destruct (ipt I).
  - destruct (sgn_cases (ia I) A) as [[Es Ev]|[[Es Ev]|[Es Ev]]]; rewrite Es; cbn; split; intros; try discriminate; try lra; reflexivity.
  - destruct (sgn_cases (ia I) A) as [[Es Ev]|[[Es Ev]|[Es Ev]]]; rewrite Es;
    destruct (sgn_cases (ib I) B) as [[Fs Fv]|[[Fs Fv]|[Fs Fv]]]; rewrite Fs;
    destruct (ia_open I), (ib_open I); cbn; split; intros H; try discriminate; try reflexivity;
    try (destruct H as [[L|[L Lo]] [U|[U Uo]]]; try discriminate; lra);
    try (split; first [left; lra|right; split; [lra|reflexivity]]).
Qed.

Lemma cmp_cases a b : wfT a -> wfT b ->
  ((s_cmp O a b < 0)%Z /\ den a < den b) \/ (s_cmp O a b = 0%Z /\ den a == den b) \/ ((0 < s_cmp O a b)%Z /\ den b < den a).
Proof.
  intros Ha Hb. pose proof (H_cmp a b Ha Hb) as H. destruct (Qcompare_spec (den a) (den b)); cbn in H; [right; left|left|right; right]; split; try assumption; lia.
Qed.

Lemma gi_contains_spec I q : iwf I -> wfT q -> (gi_contains O I q = true <-> Qin (den q) I).
Proof.
  intros (A & B & _) Wq. unfold Qin, gi_contains. destruct (ipt I).
  - destruct (cmp_cases (ia I) q A Wq) as [[Es Ev]|[[Es Ev]|[Es Ev]]];
      (split; intros H; [apply Z.eqb_eq in H|apply Z.eqb_eq]); try lra; try lia.
  - destruct (cmp_cases (ia I) q A Wq) as [[Es Ev]|[[Es Ev]|[Es Ev]]];
    destruct (cmp_cases q (ib I) Wq B) as [[Fs Fv]|[[Fs Fv]|[Fs Fv]]];
    destruct (ia_open I), (ib_open I); cbn;
    repeat match goal with
           | |- context [(0 <=? ?z)%Z] => destruct (Z.leb_spec 0 z); try lia
           | |- context [(0 <? ?z)%Z] => destruct (Z.ltb_spec 0 z); try lia
           end; cbn; split; intros Hm; try discriminate; try reflexivity;
    try (destruct Hm as [[L|[L Lo]] [U|[U Uo]]]; try discriminate; lra);
    try (split; first [left; lra|right; split; [lra|reflexivity]]).
Qed.

(* ---- pow *)
Lemma gi_pow_pure_wf I n : iwf I -> iwf (gi_pow_pure I n).
Proof.
  intros (A & B & P). unfold gi_pow_pure, iwf, pt_ok, gi_point.
  destruct (H_pow (ia I) n A) as [Wa _]. destruct (H_pow (ib I) n B) as [Wb _].
  destruct H_zero as [W0 _]. destruct H_one as [W1 _].
  destruct (n =? 0)%N; cbn; [repeat split; auto|].
  destruct (ipt I); cbn; [repeat split; auto|].
  destruct (N.odd n); cbn; [repeat split; auto; discriminate|].
  destruct (gi_sgn O I =? 0)%Z; [destruct (endpoint_lt _ _ _ _ _); cbn; repeat split; auto; discriminate|].
  destruct (0 <? gi_sgn O I)%Z; cbn; repeat split; auto; discriminate.
Qed.

Lemma gi_pow_pure_incl I n x : iwf I -> Qin x I -> Qin (x ^ Z.of_N n) (gi_pow_pure I n).
Proof.
  intros W Hx. pose proof (gi_sgn_sound I x W Hx) as (Sp & Sn & _).
  destruct W as (A & B & P). unfold gi_pow_pure, gi_point.
  destruct (H_pow (ia I) n A) as [Wa Ea]. destruct (H_pow (ib I) n B) as [Wb Eb].
  destruct H_zero as [W0 E0]. destruct H_one as [W1 E1].
  destruct (N.eqb_spec n 0) as [->|Hn].
  { unfold Qin. cbn [ipt ia]. rewrite E1. reflexivity. }
  unfold Qin in Hx. destruct (ipt I) eqn:Pt.
  { unfold Qin. cbn [ipt ia]. rewrite Ea, Hx. reflexivity. }
  destruct Hx as [L U].
  set (a := den (ia I)) in *. set (b := den (ib I)) in *.
  set (pa := s_pow O (ia I) n) in *. set (pb := s_pow O (ib I) n) in *.
  destruct (N.odd n) eqn:Odd.
  { unfold Qin. cbn [ipt ia ib ia_open ib_open]. rewrite Ea, Eb. split.
    - destruct L as [L|[L Lo]]; [left; apply Qpow_odd_mono_strict; assumption|right; split; [rewrite L; reflexivity|assumption]].
    - destruct U as [U|[U Uo]]; [left; apply Qpow_odd_mono_strict; assumption|right; split; [rewrite U; reflexivity|assumption]]. }
  pose proof (Qpow_even_abs n x Odd) as Ax. pose proof (Qpow_even_abs n a Odd) as Aa. pose proof (Qpow_even_abs n b Odd) as Ab.
  destruct (Z.eqb_spec (gi_sgn O I) 0) as [S0|S0].
  - (* [0, max] *)
    assert (Up2 : (x ^ Z.of_N n < b ^ Z.of_N n \/ (x ^ Z.of_N n == b ^ Z.of_N n /\ ib_open I = false)) \/
                  (x ^ Z.of_N n < a ^ Z.of_N n \/ (x ^ Z.of_N n == a ^ Z.of_N n /\ ia_open I = false))).
    { destruct (Qlt_le_dec x 0) as [Hx0|Hx0].
      - right. destruct L as [L|[L Lo]]; [left|right; split; [rewrite L; reflexivity|assumption]].
        rewrite <- Ax, <- Aa. apply Qpow_mono_strict; [lra|lra|assumption].
      - left. destruct U as [U|[U Uo]]; [left|right; split; [rewrite U; reflexivity|assumption]].
        apply Qpow_mono_strict; assumption. }
    pose proof (Qpow_even_nonneg n x Odd) as Nx.
    assert (Lo0 : 0 < x ^ Z.of_N n \/ (0 == x ^ Z.of_N n /\ false = false))
      by (destruct (Qlt_le_dec 0 (x ^ Z.of_N n)); [left; assumption|right; split; [lra|reflexivity]]).
    destruct (endpoint_lt O pb (negb (ib_open I)) pa (negb (ia_open I))) eqn:El;
      rewrite endpoint_lt_spec in El by assumption; unfold qlt in El;
      unfold Qin; cbn [ipt ia ib ia_open ib_open]; rewrite E0; (split; [exact Lo0|]).
    + rewrite Ea. destruct (Qcompare_spec (den pb) (den pa)) as [Ec|Ec|Ec]; try discriminate.
      * apply andb_prop in El. destruct El as [F1 F2]. apply negb_true_iff in F1, F2. apply negb_false_iff in F1.
        destruct Up2 as [[H|[H Ho]]|H]; [left; lra|congruence|exact H].
      * destruct Up2 as [[H|[H Ho]]|H]; [left; lra|left; lra|exact H].
    + rewrite Eb. destruct (Qcompare_spec (den pb) (den pa)) as [Ec|Ec|Ec]; try discriminate.
      * destruct Up2 as [H|[H|[H Ho]]]; [exact H|left; lra|].
        rewrite Ho in El. cbn in El. rewrite andb_true_r in El. apply negb_false_iff in El. apply negb_true_iff in El.
        right. split; [lra|assumption].
      * destruct Up2 as [H|[H|[H Ho]]]; [exact H|left; lra|left; lra].
  - destruct (Z.ltb_spec 0 (gi_sgn O I)) as [S1|S1]; unfold Qin; cbn [ipt ia ib ia_open ib_open]; rewrite Ea, Eb.
    + (* positive interval *)
      specialize (Sp S1).
      assert (Ha0 : 0 <= a).
      { unfold gi_sgn in S1. rewrite Pt in S1.
        destruct (sgn_cases (ia I) A) as [[Es Ev]|[[Es Ev]|[Es Ev]]]; fold a in Ev; try lra.
        exfalso. rewrite Es in S1. destruct (sgn_cases (ib I) B) as [[Fs Fv]|[[Fs Fv]|[Fs Fv]]]; rewrite Fs in S1; cbn in S1;
          try lia; destruct (ib_open I); cbn in S1; lia. }
      split.
      * destruct L as [L|[L Lo]]; [left; apply Qpow_mono_strict; assumption|right; split; [rewrite L; reflexivity|assumption]].
      * destruct U as [U|[U Uo]]; [left; apply Qpow_mono_strict; [lra|assumption|assumption]|right; split; [rewrite U; reflexivity|assumption]].
    + (* negative interval *)
      assert (S2 : (gi_sgn O I < 0)%Z) by lia. specialize (Sn S2).
      assert (Hb0 : b <= 0).
      { unfold gi_sgn in S2. rewrite Pt in S2.
        destruct (sgn_cases (ib I) B) as [[Fs Fv]|[[Fs Fv]|[Fs Fv]]]; fold b in Fv; try lra.
        exfalso. rewrite Fs in S2. destruct (sgn_cases (ia I) A) as [[Es Ev]|[[Es Ev]|[Es Ev]]]; rewrite Es in S2; cbn in S2;
          try lia; destruct (ia_open I); cbn in S2; lia. }
      split.
      * destruct U as [U|[U Uo]]; [left|right; split; [rewrite U; reflexivity|assumption]].
        rewrite <- Ax, <- Ab. apply Qpow_mono_strict; [lra|lra|assumption].
      * destruct L as [L|[L Lo]]; [left|right; split; [rewrite L; reflexivity|assumption]].
        rewrite <- Ax, <- Aa. apply Qpow_mono_strict; [lra|lra|assumption].
Qed.

(* ---- the statements about the C-shaped functions (any previous output contents, any aliasing) *)
Theorem gi_add_correct al S I1 I2 x y : alias_ok_i al S I1 I2 -> pt_ok S -> iwf I1 -> iwf I2 ->
  Qin x I1 -> Qin y I2 -> Qin (x + y) (gi_add O al S I1 I2) /\ iwf (gi_add O al S I1 I2).
Proof. intros. rewrite gi_add_dst by assumption. split; [apply gi_add_pure_incl|apply gi_add_pure_wf]; assumption. Qed.

Theorem gi_neg_correct al S I x : alias1_ok_i al S I -> pt_ok S -> iwf I ->
  Qin x I -> Qin (- x) (gi_neg O al S I) /\ iwf (gi_neg O al S I).
Proof. intros. rewrite gi_neg_dst by assumption. split; [apply gi_neg_pure_incl|apply gi_neg_pure_wf]; assumption. Qed.

Theorem gi_sub_correct al S I1 I2 x y : alias_ok_i al S I1 I2 -> pt_ok S -> iwf I1 -> iwf I2 ->
  Qin x I1 -> Qin y I2 -> Qin (x - y) (gi_sub O al S I1 I2) /\ iwf (gi_sub O al S I1 I2).
Proof.
  intros Hal HS W1 W2 H1 H2. rewrite gi_sub_dst; [|assumption|assumption|apply W2].
  split; [apply gi_sub_pure_incl|apply gi_sub_pure_wf]; assumption.
Qed.

Theorem gi_mul_correct al S I1 I2 x y : alias_ok_i al S I1 I2 -> pt_ok S -> iwf I1 -> iwf I2 ->
  Qin x I1 -> Qin y I2 -> Qin (x * y) (gi_mul O al S I1 I2) /\ iwf (gi_mul O al S I1 I2).
Proof. intros. rewrite gi_mul_dst by assumption. apply gi_mul_pure_incl; assumption. Qed.

Theorem gi_pow_correct al S I n x : alias1_ok_i al S I -> pt_ok S -> iwf I ->
  Qin x I -> Qin (x ^ Z.of_N n) (gi_pow O al S I n) /\ iwf (gi_pow O al S I n).
Proof. intros. rewrite gi_pow_dst by assumption. split; [apply gi_pow_pure_incl|apply gi_pow_pure_wf]; assumption. Qed.

(* exactness on points: the result is the point interval of the exact value *)
Definition is_point_of (I : itv T) (v : Q) : Prop :=
  ipt I = true /\ ia_open I = false /\ ib_open I = false /\ den (ia I) == v.

Theorem gi_point_exact al S I1 I2 n : alias_ok_i al S I1 I2 -> pt_ok S -> iwf I1 -> iwf I2 ->
  ipt I1 = true -> ipt I2 = true ->
  is_point_of (gi_add O al S I1 I2) (den (ia I1) + den (ia I2)) /\
  is_point_of (gi_sub O al S I1 I2) (den (ia I1) - den (ia I2)) /\
  is_point_of (gi_mul O al S I1 I2) (den (ia I1) * den (ia I2)) /\
  is_point_of (gi_pow O (match al with AliasA | AliasAB => AliasA | _ => NoAlias end) S I1 n) (den (ia I1) ^ Z.of_N n) /\
  is_point_of (gi_neg O (match al with AliasA | AliasAB => AliasA | _ => NoAlias end) S I1) (- den (ia I1)).
Proof.
  intros Hal HS (A1 & B1 & Q1) (A2 & B2 & Q2) P1 P2.
  assert (Hal1 : alias1_ok_i (match al with AliasA | AliasAB => AliasA | _ => NoAlias end) S I1)
    by (destruct al; cbn in *; tauto).
  rewrite gi_add_dst, gi_mul_dst, gi_pow_dst, gi_neg_dst by assumption.
  rewrite gi_sub_dst; [|assumption|assumption|assumption].
  unfold gi_sub_pure, gi_add_pure, gi_mul_pure, gi_mul_pt, gi_pow_pure, gi_neg_pure, is_point_of, gi_point.
  rewrite ?P1, ?P2. cbn. rewrite ?P1, ?P2. cbn.
  destruct (H_add _ _ A1 A2) as [_ E1]. destruct (H_mul _ _ A1 A2) as [_ E2]. destruct (H_neg _ A2) as [Wn E3].
  destruct (H_add _ _ A1 Wn) as [_ E4]. destruct (H_pow _ n A1) as [_ E5]. destruct (H_neg _ A1) as [_ E6].
  destruct H_one as [_ E7].
  repeat split; try assumption; try (rewrite E4, E3; ring).
  - destruct (n =? 0)%N; reflexivity.
  - destruct (n =? 0)%N; reflexivity.
  - destruct (n =? 0)%N; reflexivity.
  - destruct (N.eqb_spec n 0) as [->|Hn]; cbn; [rewrite E7; reflexivity|assumption].
Qed.

End GenericProofs.

(* ================================================================== the two instances *)

(* rationals: the scalar hypotheses are the C17 theorems *)
Lemma rat_H_zero : q_wf (s_zero rat_ops) /\ QofR (s_zero rat_ops) == 0.
Proof. split; [split; reflexivity|reflexivity]. Qed.
Lemma rat_H_one : q_wf (s_one rat_ops) /\ QofR (s_one rat_ops) == 1.
Proof. split; [split; reflexivity|reflexivity]. Qed.
Lemma rat_H_add a b : q_wf a -> q_wf b -> q_wf (s_add rat_ops a b) /\ QofR (s_add rat_ops a b) == QofR a + QofR b.
Proof. apply q_add_spec. Qed.
Lemma rat_H_neg a : q_wf a -> q_wf (s_neg rat_ops a) /\ QofR (s_neg rat_ops a) == - QofR a.
Proof. apply q_neg_spec. Qed.
Lemma rat_H_mul a b : q_wf a -> q_wf b -> q_wf (s_mul rat_ops a b) /\ QofR (s_mul rat_ops a b) == QofR a * QofR b.
Proof. apply q_mul_spec. Qed.
Lemma rat_H_pow a n : q_wf a -> q_wf (s_pow rat_ops a n) /\ QofR (s_pow rat_ops a n) == QofR a ^ Z.of_N n.
Proof. apply q_pow_spec. Qed.
Lemma rat_H_cmp a b : q_wf a -> q_wf b -> Z.sgn (s_cmp rat_ops a b) = cmp_to_Z (QofR a ?= QofR b).
Proof. intros Ha Hb. cbn. rewrite (q_cmp_spec a b Ha Hb). destruct (QofR a ?= QofR b); reflexivity. Qed.
Lemma rat_H_sgn a : q_wf a -> s_sgn rat_ops a = cmp_to_Z (QofR a ?= 0).
Proof. apply q_sgn_spec. Qed.

(* dyadics *)
Lemma dy_H_zero : dy_wf (s_zero dy_ops) /\ QofD (s_zero dy_ops) == 0.
Proof. split; [left; split; reflexivity|reflexivity]. Qed.
Lemma dy_H_one : dy_wf (s_one dy_ops) /\ QofD (s_one dy_ops) == 1.
Proof. split; [right; left; reflexivity|reflexivity]. Qed.
Lemma dy_H_add a b : dy_wf a -> dy_wf b -> dy_wf (s_add dy_ops a b) /\ QofD (s_add dy_ops a b) == QofD a + QofD b.
Proof. intros _ _. cbn. rewrite dy_add_dst by exact I. apply dy_add_spec. Qed.
Lemma dy_H_neg a : dy_wf a -> dy_wf (s_neg dy_ops a) /\ QofD (s_neg dy_ops a) == - QofD a.
Proof. intros Ha. cbn. rewrite dy_neg_dst by exact I. apply dy_neg_spec. assumption. Qed.
Lemma dy_H_mul a b : dy_wf a -> dy_wf b -> dy_wf (s_mul dy_ops a b) /\ QofD (s_mul dy_ops a b) == QofD a * QofD b.
Proof. intros _ _. cbn. rewrite dy_mul_dst by exact I. apply dy_mul_spec. Qed.
Lemma dy_H_pow a n : dy_wf a -> dy_wf (s_pow dy_ops a n) /\ QofD (s_pow dy_ops a n) == QofD a ^ Z.of_N n.
Proof. intros Ha. cbn. rewrite dy_pow_dst by exact I. apply dy_pow_spec. assumption. Qed.
Lemma dy_H_cmp a b : dy_wf a -> dy_wf b -> Z.sgn (s_cmp dy_ops a b) = cmp_to_Z (QofD a ?= QofD b).
Proof. intros _ _. apply dy_cmp_spec. Qed.
Lemma dy_H_sgn a : dy_wf a -> s_sgn dy_ops a = cmp_to_Z (QofD a ?= 0).
Proof. intros _. apply dy_sgn_spec. Qed.

Definition rin := Qin QofR.
Definition rwf := iwf rat_ops q_wf.
Definition rpt_ok := pt_ok rat_ops.
Definition din := Qin QofD.
Definition dwf := iwf dy_ops dy_wf.
Definition dpt_ok := pt_ok dy_ops.

Ltac use_rat L :=
  intros; eapply (L rat rat_ops QofR q_wf); eauto using rat_H_zero, rat_H_one, rat_H_add, rat_H_neg, rat_H_mul, rat_H_pow, rat_H_cmp, rat_H_sgn.
Ltac use_dy L :=
  intros; eapply (L dyadic dy_ops QofD dy_wf); eauto using dy_H_zero, dy_H_one, dy_H_add, dy_H_neg, dy_H_mul, dy_H_pow, dy_H_cmp, dy_H_sgn.

Lemma ri_add_correct al S I1 I2 x y : alias_ok_i al S I1 I2 -> rpt_ok S -> rwf I1 -> rwf I2 ->
  rin x I1 -> rin y I2 -> rin (x + y) (ri_add al S I1 I2) /\ rwf (ri_add al S I1 I2).
Proof. use_rat @gi_add_correct. Qed.
Lemma ri_sub_correct al S I1 I2 x y : alias_ok_i al S I1 I2 -> rpt_ok S -> rwf I1 -> rwf I2 ->
  rin x I1 -> rin y I2 -> rin (x - y) (ri_sub al S I1 I2) /\ rwf (ri_sub al S I1 I2).
Proof. use_rat @gi_sub_correct. Qed.
Lemma ri_neg_correct al S I x : alias1_ok_i al S I -> rpt_ok S -> rwf I ->
  rin x I -> rin (- x) (ri_neg al S I) /\ rwf (ri_neg al S I).
Proof. use_rat @gi_neg_correct. Qed.
Lemma ri_mul_correct al S I1 I2 x y : alias_ok_i al S I1 I2 -> rpt_ok S -> rwf I1 -> rwf I2 ->
  rin x I1 -> rin y I2 -> rin (x * y) (ri_mul al S I1 I2) /\ rwf (ri_mul al S I1 I2).
Proof. use_rat @gi_mul_correct. Qed.
Lemma ri_pow_correct al S I n x : alias1_ok_i al S I -> rpt_ok S -> rwf I ->
  rin x I -> rin (x ^ Z.of_N n) (ri_pow al S I n) /\ rwf (ri_pow al S I n).
Proof. use_rat @gi_pow_correct. Qed.

Lemma di_add_correct al S I1 I2 x y : alias_ok_i al S I1 I2 -> dpt_ok S -> dwf I1 -> dwf I2 ->
  din x I1 -> din y I2 -> din (x + y) (di_add al S I1 I2) /\ dwf (di_add al S I1 I2).
Proof. use_dy @gi_add_correct. Qed.
Lemma di_sub_correct al S I1 I2 x y : alias_ok_i al S I1 I2 -> dpt_ok S -> dwf I1 -> dwf I2 ->
  din x I1 -> din y I2 -> din (x - y) (di_sub al S I1 I2) /\ dwf (di_sub al S I1 I2).
Proof. use_dy @gi_sub_correct. Qed.
Lemma di_neg_correct al S I x : alias1_ok_i al S I -> dpt_ok S -> dwf I ->
  din x I -> din (- x) (di_neg al S I) /\ dwf (di_neg al S I).
Proof. use_dy @gi_neg_correct. Qed.
Lemma di_mul_correct al S I1 I2 x y : alias_ok_i al S I1 I2 -> dpt_ok S -> dwf I1 -> dwf I2 ->
  din x I1 -> din y I2 -> din (x * y) (di_mul al S I1 I2) /\ dwf (di_mul al S I1 I2).
Proof. use_dy @gi_mul_correct. Qed.
Lemma di_pow_correct al S I n x : alias1_ok_i al S I -> dpt_ok S -> dwf I ->
  din x I -> din (x ^ Z.of_N n) (di_pow al S I n) /\ dwf (di_pow al S I n).
Proof. use_dy @gi_pow_correct. Qed.

Definition r_is_point_of := is_point_of QofR.
Definition d_is_point_of := is_point_of QofD.
Definition alias_un (al : alias) : alias := match al with AliasA | AliasAB => AliasA | _ => NoAlias end.

Lemma ri_point_exact al S I1 I2 n : alias_ok_i al S I1 I2 -> rpt_ok S -> rwf I1 -> rwf I2 ->
  ipt I1 = true -> ipt I2 = true ->
  r_is_point_of (ri_add al S I1 I2) (QofR (ia I1) + QofR (ia I2)) /\
  r_is_point_of (ri_sub al S I1 I2) (QofR (ia I1) - QofR (ia I2)) /\
  r_is_point_of (ri_mul al S I1 I2) (QofR (ia I1) * QofR (ia I2)) /\
  r_is_point_of (ri_pow (alias_un al) S I1 n) (QofR (ia I1) ^ Z.of_N n) /\
  r_is_point_of (ri_neg (alias_un al) S I1) (- QofR (ia I1)).
Proof. use_rat @gi_point_exact. Qed.
Lemma di_point_exact al S I1 I2 n : alias_ok_i al S I1 I2 -> dpt_ok S -> dwf I1 -> dwf I2 ->
  ipt I1 = true -> ipt I2 = true ->
  d_is_point_of (di_add al S I1 I2) (QofD (ia I1) + QofD (ia I2)) /\
  d_is_point_of (di_sub al S I1 I2) (QofD (ia I1) - QofD (ia I2)) /\
  d_is_point_of (di_mul al S I1 I2) (QofD (ia I1) * QofD (ia I2)) /\
  d_is_point_of (di_pow (alias_un al) S I1 n) (QofD (ia I1) ^ Z.of_N n) /\
  d_is_point_of (di_neg (alias_un al) S I1) (- QofD (ia I1)).
Proof. use_dy @gi_point_exact. Qed.

Lemma ri_sgn_sound I x : rwf I -> rin x I ->
  ((0 < ri_sgn I)%Z -> 0 < x) /\ ((ri_sgn I < 0)%Z -> x < 0) /\ (ri_sgn I = 0%Z -> rin 0 I).
Proof. use_rat @gi_sgn_sound. Qed.
Lemma di_sgn_sound I x : dwf I -> din x I ->
  ((0 < di_sgn I)%Z -> 0 < x) /\ ((di_sgn I < 0)%Z -> x < 0) /\ (di_sgn I = 0%Z -> din 0 I).
Proof. use_dy @gi_sgn_sound. Qed.
Lemma ri_contains_zero_spec I : rwf I -> (ri_contains_zero I = true <-> rin 0 I).
Proof. use_rat @gi_contains_zero_spec. Qed.
Lemma di_contains_zero_spec I : dwf I -> (di_contains_zero I = true <-> din 0 I).
Proof. use_dy @gi_contains_zero_spec. Qed.
Lemma ri_contains_spec I q : rwf I -> q_wf q -> (ri_contains I q = true <-> rin (QofR q) I).
Proof. use_rat @gi_contains_spec. Qed.
Lemma di_contains_spec I q : dwf I -> dy_wf q -> (di_contains I q = true <-> din (QofD q) I).
Proof. use_dy @gi_contains_spec. Qed.

(* ================================================================== value level (lp_interval_t) *)

Definition vden (v : value) : eQ :=
  match v with
  | VMinf => NInf | VPinf => PInf
  | VInt z => Fin (inject_Z z) | VDy d => Fin (QofD d) | VRat q => Fin (QofR q)
  | VNone => Fin 0
  end.
Definition vwf (v : value) : Prop :=
  match v with VNone => False | VRat q => q_wf q | VDy d => dy_wf d | _ => True end.

(* membership of a rational in a value-level interval *)
Definition vin (z : Q) (I : vitv) : Prop :=
  if ipt I then match vden (ia I) with Fin v => v == z | _ => False end
  else lowok (vden (ia I)) (ia_open I) z /\ upok (vden (ib I)) (ib_open I) z.
Definition viwf (I : vitv) : Prop :=
  vwf (ia I) /\ (if ipt I then ia_open I = false /\ ib_open I = false else vwf (ib I)).

Definition eeq (e1 e2 : eQ) : Prop :=
  match e1, e2 with Fin a, Fin b => a == b | NInf, NInf | PInf, PInf => True | _, _ => False end.
Lemma eeq_refl e : eeq e e. Proof. destruct e; cbn; auto. reflexivity. Qed.
Lemma eeq_sym e1 e2 : eeq e1 e2 -> eeq e2 e1. Proof. destruct e1, e2; cbn; auto. intros; symmetry; assumption. Qed.
Lemma eeq_trans e1 e2 e3 : eeq e1 e2 -> eeq e2 e3 -> eeq e1 e3.
Proof. destruct e1, e2, e3; cbn; auto; try tauto. intros; etransitivity; eassumption. Qed.
Lemma lowok_eeq e1 e2 o z : eeq e1 e2 -> lowok e1 o z -> lowok e2 o z.
Proof. destruct e1, e2; cbn; try tauto. intros E. rewrite E. auto. Qed.
Lemma upok_eeq e1 e2 o z : eeq e1 e2 -> upok e1 o z -> upok e2 o z.
Proof. destruct e1, e2; cbn; try tauto. intros E. rewrite E. auto. Qed.

Definition esgn (e : eQ) : Z := match e with NInf => -1 | PInf => 1 | Fin a => cmp_to_Z (a ?= 0) end.

Lemma inject_Z_cmp a b : (inject_Z a ?= inject_Z b) = (a ?= b)%Z.
Proof. unfold Qcompare. cbn. rewrite !Z.mul_1_r. reflexivity. Qed.

Lemma value_sgn_spec v : vwf v -> value_sgn v = esgn (vden v).
Proof.
  destruct v; cbn; try tauto; intros W.
  - change 0 with (inject_Z 0). rewrite inject_Z_cmp. destruct z; reflexivity.
  - apply dy_sgn_spec.
  - apply q_sgn_spec. assumption.
Qed.

Lemma esgn_cases e : (esgn e = (-1)%Z /\ eneg e) \/ (esgn e = 0%Z /\ exists a, e = Fin a /\ a == 0) \/ (esgn e = 1%Z /\ epos e).
Proof.
  destruct e as [|a|]; cbn; auto. destruct (Qcompare_spec a 0); cbn; auto. right. left. split; [reflexivity|]. exists a. split; [reflexivity|assumption].
Qed.

(* lp_interval_sgn *)
Lemma vi_sgn_sound I x : viwf I -> vin x I ->
  ((0 < vi_sgn I)%Z -> 0 < x) /\ ((vi_sgn I < 0)%Z -> x < 0) /\ (vi_sgn I = 0%Z -> vin 0 I).
Proof.
  intros [Wa Wb]. unfold vin, vi_sgn. rewrite (value_sgn_spec _ Wa). destruct (ipt I).
  - destruct (vden (ia I)) as [|a|]; try tauto. cbn. intros Hx.
    destruct (Qcompare_spec a 0); cbn; repeat split; intros; try lia; lra.
  - rewrite (value_sgn_spec _ Wb). intros [L U].
    set (ea := vden (ia I)) in *. set (eb := vden (ib I)) in *. clearbody ea eb.
    destruct ea as [|a|], eb as [|b|]; cbn in *; try tauto;
      try (destruct (Qcompare_spec a 0)); try (destruct (Qcompare_spec b 0)); cbn;
      destruct (ia_open I) eqn:Ao, (ib_open I) eqn:Bo; cbn; repeat split; intros; try lia; try exact I;
      try (destruct L as [L|[L Lo]]; try discriminate); try (destruct U as [U|[U Uo]]; try discriminate); try lra;
      try (first [left; lra|right; split; [lra|reflexivity]]).
Qed.

(* lp_sign_condition_consistent_interval: a `true` answer holds for every point of the interval *)
Definition Qsgn (x : Q) : Z := cmp_to_Z (x ?= 0).

Lemma sc_interval_sound c I x : viwf I -> vin x I ->
  sc_consistent_interval c I = true -> sc_consistent c (Qsgn x) = true.
Proof.
  intros [Wa Wb]. unfold vin, sc_consistent_interval, Qsgn. destruct (ipt I).
  - rewrite (value_sgn_spec _ Wa). destruct (vden (ia I)) as [|a|]; try tauto. cbn. intros Hx. rewrite Hx. auto.
  - rewrite (value_sgn_spec _ Wa), (value_sgn_spec _ Wb). intros [L U].
    set (ea := vden (ia I)) in *. set (eb := vden (ib I)) in *. clearbody ea eb.
    destruct c; destruct ea as [|a|], eb as [|b|]; cbn in *; try tauto;
      try (destruct (Qcompare_spec a 0)); try (destruct (Qcompare_spec b 0)); cbn;
      destruct (ia_open I) eqn:Ao, (ib_open I) eqn:Bo; cbn; intros Hc; try discriminate;
      try (destruct L as [L|[L Lo]]; try discriminate); try (destruct U as [U|[U Uo]]; try discriminate);
      destruct (Qcompare_spec x 0); cbn; try reflexivity; try lra.
Qed.

(* ---- comparison of values *)
Definition ecmp (e1 e2 : eQ) : comparison :=
  match e1, e2 with
  | NInf, NInf | PInf, PInf => Eq
  | NInf, _ => Lt | _, NInf => Gt
  | PInf, _ => Gt | _, PInf => Lt
  | Fin a, Fin b => a ?= b
  end.

Lemma sgn_cmp_to_Z c : Z.sgn (cmp_to_Z c) = cmp_to_Z c. Proof. destruct c; reflexivity. Qed.
Lemma cmp_to_Z_opp c : (- cmp_to_Z c)%Z = cmp_to_Z (CompOpp c). Proof. destruct c; reflexivity. Qed.

Lemma QofR_integer z : QofR (q_from_integer z) == inject_Z z.
Proof. unfold QofR, q_from_integer. cbn. field. Qed.
Lemma q_wf_integer z : q_wf (q_from_integer z).
Proof. split; cbn; [lia|]. apply Z.gcd_1_r. Qed.

Lemma value_cmp_spec v1 v2 : vwf v1 -> vwf v2 ->
  Z.sgn (value_cmp v1 v2) = cmp_to_Z (ecmp (vden v1) (vden v2)).
Proof.
  destruct v1 as [| |a|a|a|], v2 as [| |b|b|b|]; cbn [vwf]; try tauto; intros W1 W2; cbn [value_cmp vden ecmp value_rank value_cmp_ord];
    try reflexivity.
  - rewrite inject_Z_cmp. apply sgn_cmp_to_Z.
  - (* int, dyadic *) cbn. rewrite Z.sgn_opp. unfold dy_cmp_integer. rewrite dy_cmp_spec.
    destruct (dy_from_integer_spec a) as [_ E]. rewrite E. rewrite cmp_to_Z_opp, Qcompare_antisym. reflexivity.
  - (* int, rat *) cbn. rewrite Z.sgn_opp. unfold q_cmp_integer. rewrite (q_cmp_spec _ _ W2 (q_wf_integer a)).
    rewrite sgn_cmp_to_Z, QofR_integer, cmp_to_Z_opp, Qcompare_antisym. reflexivity.
  - (* dyadic, int *) cbn. unfold dy_cmp_integer. rewrite dy_cmp_spec.
    destruct (dy_from_integer_spec b) as [_ E]. rewrite E. reflexivity.
  - apply dy_cmp_spec.
  - (* dyadic, rat *) cbn. rewrite Z.sgn_opp. rewrite (q_cmp_dyadic_spec _ _ W2).
    rewrite sgn_cmp_to_Z, cmp_to_Z_opp, Qcompare_antisym. reflexivity.
  - (* rat, int *) cbn. unfold q_cmp_integer. rewrite (q_cmp_spec _ _ W1 (q_wf_integer b)).
    rewrite sgn_cmp_to_Z, QofR_integer. reflexivity.
  - (* rat, dyadic *) cbn. rewrite (q_cmp_dyadic_spec _ _ W1). apply sgn_cmp_to_Z.
  - rewrite (q_cmp_spec _ _ W1 W2). apply sgn_cmp_to_Z.
Qed.

Definition eqlt (a : eQ) (ao : bool) (b : eQ) (bo : bool) : bool :=
  match ecmp a b with Eq => negb ao && bo | Lt => true | Gt => false end.

Lemma v_endpoint_lt_spec a ao b bo : vwf a -> vwf b -> v_endpoint_lt a ao b bo = eqlt (vden a) ao (vden b) bo.
Proof.
  intros Wa Wb. unfold v_endpoint_lt, eqlt. pose proof (value_cmp_spec a b Wa Wb) as H.
  destruct (ecmp (vden a) (vden b)); cbn in H.
  - assert (E : value_cmp a b = 0%Z) by lia. rewrite E. reflexivity.
  - assert (E : (value_cmp a b < 0)%Z) by lia.
    destruct (Z.eqb_spec (value_cmp a b) 0); [lia|]. destruct (Z.ltb_spec (value_cmp a b) 0); [reflexivity|lia].
  - assert (E : (0 < value_cmp a b)%Z) by lia.
    destruct (Z.eqb_spec (value_cmp a b) 0); [lia|]. destruct (Z.ltb_spec (value_cmp a b) 0); [lia|reflexivity].
Qed.

(* the order of end points, semantically *)
Lemma eqlt_low_true t to r ro z : eqlt t to r ro = true -> lowok r ro z -> lowok t to z.
Proof.
  unfold eqlt. destruct t as [|a|], r as [|b|]; cbn; try discriminate; try tauto.
  destruct (Qcompare_spec a b) as [E|E|E]; try discriminate.
  - intros F. apply andb_prop in F. destruct F as [F1 F2]. apply negb_true_iff in F1. subst.
    intros [H|[H Ho]]; [left; lra|discriminate].
  - intros _ [H|[H Ho]]; left; lra.
Qed.
Lemma eqlt_low_false t to r ro z : eqlt t to r ro = false -> lowok t to z -> lowok r ro z.
Proof.
  unfold eqlt. destruct t as [|a|], r as [|b|]; cbn; try discriminate; try tauto.
  destruct (Qcompare_spec a b) as [E|E|E]; try discriminate.
  - intros F [H|[H Ho]]; [left; lra|]. subst. cbn in F. subst. right. split; [lra|reflexivity].
  - intros _ [H|[H Ho]]; left; lra.
Qed.
Lemma eqlt_up_true r ro t to z : eqlt r (negb ro) t (negb to) = true -> upok r ro z -> upok t to z.
Proof.
  unfold eqlt. destruct t as [|a|], r as [|b|]; cbn; try discriminate; try tauto.
  destruct (Qcompare_spec b a) as [E|E|E]; try discriminate.
  - intros F. apply andb_prop in F. destruct F as [F1 F2]. apply negb_true_iff in F1, F2. apply negb_false_iff in F1. subst.
    intros [H|[H Ho]]; [left; lra|discriminate].
  - intros _ [H|[H Ho]]; left; lra.
Qed.
Lemma eqlt_up_false r ro t to z : eqlt r (negb ro) t (negb to) = false -> upok t to z -> upok r ro z.
Proof.
  unfold eqlt. destruct t as [|a|], r as [|b|]; cbn; try discriminate; try tauto.
  destruct (Qcompare_spec b a) as [E|E|E]; try discriminate.
  - intros F [H|[H Ho]]; [left; lra|]. subst. cbn in F. rewrite andb_true_r in F. apply negb_false_iff in F. apply negb_true_iff in F.
    subst. right. split; [lra|reflexivity].
  - intros _ [H|[H Ho]]; left; lra.
Qed.

(* ---- the approx functions on non-algebraic values are exact in the extended rationals *)
Lemma int_mul_Z a b : int_mul None a b = (a * b)%Z. Proof. reflexivity. Qed.
Lemma int_add_Z a b : int_add None a b = (a + b)%Z. Proof. reflexivity. Qed.
Lemma int_pow_Z a n : int_pow None a n = (a ^ Z.of_N n)%Z. Proof. reflexivity. Qed.

Lemma vden_dy_mul a b : dy_wf (dy_mul NoAlias dy0 a b) /\ QofD (dy_mul NoAlias dy0 a b) == QofD a * QofD b.
Proof. rewrite dy_mul_dst by exact I. apply dy_mul_spec. Qed.
Lemma vden_dy_add a b : dy_wf (dy_add NoAlias dy0 a b) /\ QofD (dy_add NoAlias dy0 a b) == QofD a + QofD b.
Proof. rewrite dy_add_dst by exact I. apply dy_add_spec. Qed.

Lemma zsgn_inject z : Z.sgn z = cmp_to_Z (inject_Z z ?= 0).
Proof. change 0 with (inject_Z 0). rewrite inject_Z_cmp. destruct z; reflexivity. Qed.

Lemma value_mul_approx_spec v1 v2 : vwf v1 -> vwf v2 ->
  vwf (value_mul_approx v1 v2) /\ eeq (vden (value_mul_approx v1 v2)) (emul (vden v1) (vden v2)).
Proof.
  destruct v1 as [| |a|a|a|], v2 as [| |b|b|b|]; cbn [vwf]; try tauto; intros W1 W2;
    unfold value_mul_approx; cbn [value_to_same_type value_mul_same value_sgn value_is_infinity vden emul eflip orb vwf].
  all: try (split; [exact I|exact I]).
  (* infinity times finite, finite times infinity: the sign analysis *)
  all: try (rewrite zsgn_inject; destruct (Qcompare_spec (inject_Z a) 0); cbn; split; try exact I; reflexivity).
  all: try (rewrite zsgn_inject; destruct (Qcompare_spec (inject_Z b) 0); cbn; split; try exact I; reflexivity).
  all: try (rewrite dy_sgn_spec; destruct (Qcompare_spec (QofD a) 0); cbn; split; try exact I; reflexivity).
  all: try (rewrite dy_sgn_spec; destruct (Qcompare_spec (QofD b) 0); cbn; split; try exact I; reflexivity).
  all: try (rewrite (q_sgn_spec a W1); destruct (Qcompare_spec (QofR a) 0); cbn; split; try exact I; reflexivity).
  all: try (rewrite (q_sgn_spec b W2); destruct (Qcompare_spec (QofR b) 0); cbn; split; try exact I; reflexivity).
  - (* int int *) split; [exact I|]. unfold int_mul, ring_norm. cbn. rewrite inject_Z_mult. reflexivity.
  - (* int dy *) destruct (vden_dy_mul (dy_from_integer a) b) as [W E]. split; [exact W|]. cbn. rewrite E.
    destruct (dy_from_integer_spec a) as [_ E']. rewrite E'. reflexivity.
  - (* int rat *) destruct (q_mul_spec _ _ (q_wf_integer a) W2) as [W E]. split; [exact W|]. cbn. rewrite E, QofR_integer. reflexivity.
  - (* dy int *) destruct (vden_dy_mul a (dy_from_integer b)) as [W E]. split; [exact W|]. cbn. rewrite E.
    destruct (dy_from_integer_spec b) as [_ E']. rewrite E'. reflexivity.
  - (* dy dy *) destruct (vden_dy_mul a b) as [W E]. split; [exact W|]. cbn. exact E.
  - (* dy rat *) destruct (q_from_dyadic_spec a) as [Wd Ed]. destruct (q_mul_spec _ _ Wd W2) as [W E]. split; [exact W|]. cbn. rewrite E, Ed. reflexivity.
  - (* rat int *) destruct (q_mul_spec _ _ W1 (q_wf_integer b)) as [W E]. split; [exact W|]. cbn. rewrite E, QofR_integer. reflexivity.
  - (* rat dy *) destruct (q_from_dyadic_spec b) as [Wd Ed]. destruct (q_mul_spec _ _ W1 Wd) as [W E]. split; [exact W|]. cbn. rewrite E, Ed. reflexivity.
  - (* rat rat *) destruct (q_mul_spec _ _ W1 W2) as [W E]. split; [exact W|]. cbn. exact E.
Qed.

(* ---- lp_interval_mul *)
Lemma vin_point I x : ipt I = true -> vin x I -> exists v, vden (ia I) = Fin v /\ v == x.
Proof. unfold vin. intros ->. destruct (vden (ia I)) as [|v|]; try tauto. intros H. exists v. split; [reflexivity|assumption]. Qed.

Lemma vi_mul_pt_incl P J x y : viwf P -> viwf J -> ipt P = true -> vin x P -> vin y J ->
  vin (x * y) (vi_mul_core P J) /\ viwf (vi_mul_core P J).
Proof.
  intros [WP WP'] [WJ WJ'] Pt Hx Hy. destruct (vin_point P x Pt Hx) as (vx & Ex & Evx).
  unfold vi_mul_core. rewrite Pt.
  destruct (ipt J) eqn:PJ.
  - destruct (vin_point J y PJ Hy) as (vy & Ey & Evy).
    destruct (value_mul_approx_spec _ _ WP WJ) as [W E]. rewrite Ex, Ey in E. cbn in E.
    split; [|split; [exact W|cbn; auto]]. unfold vin. cbn [ipt ia].
    destruct (vden (value_mul_approx (ia P) (ia J))) as [|m|]; cbn in E; try tauto. rewrite E, Evx, Evy. reflexivity.
  - unfold vin in Hy. rewrite PJ in Hy. destruct Hy as [L U].
    rewrite (value_sgn_spec _ WP), Ex. cbn [esgn].
    destruct (value_mul_approx_spec _ _ WP WJ) as [Wa Ea]. destruct (value_mul_approx_spec _ _ WP WJ') as [Wb Eb].
    rewrite Ex in Ea, Eb.
    assert (Hxy : vx * y == x * y) by (rewrite Evx; reflexivity).
    destruct (Qcompare_spec vx 0) as [E0|E0|E0]; cbn.
    + split; [|split; [exact I|cbn; auto]]. unfold vin. cbn. rewrite <- Evx, E0. ring.
    + split; [|split; [exact Wb|exact Wa]]. unfold vin. cbn [ipt ia ib ia_open ib_open]. split.
      * eapply lowok_eeq; [apply eeq_sym; exact Eb|]. eapply lowok_compat; [exact Hxy|]. apply scale_neg_low; assumption.
      * eapply upok_eeq; [apply eeq_sym; exact Ea|]. eapply upok_compat; [exact Hxy|]. apply scale_neg_up; assumption.
    + split; [|split; [exact Wa|exact Wb]]. unfold vin. cbn [ipt ia ib ia_open ib_open]. split.
      * eapply lowok_eeq; [apply eeq_sym; exact Ea|]. eapply lowok_compat; [exact Hxy|]. apply scale_pos_low; assumption.
      * eapply upok_eeq; [apply eeq_sym; exact Eb|]. eapply upok_compat; [exact Hxy|]. apply scale_pos_up; assumption.
Qed.

Definition st_wf (st : value * bool * value * bool) : Prop := let '(ra, _, rb, _) := st in vwf ra /\ vwf rb.
Definition st_low (st : value * bool * value * bool) (z : Q) : Prop := let '(ra, rao, _, _) := st in lowok (vden ra) rao z.
Definition st_up (st : value * bool * value * bool) (z : Q) : Prop := let '(_, _, rb, rbo) := st in upok (vden rb) rbo z.

Lemma v_corner_step_sem st tmp to : st_wf st -> vwf tmp ->
  st_wf (v_corner_step st tmp to) /\
  (forall z, st_low st z -> st_low (v_corner_step st tmp to) z) /\
  (forall z, lowok (vden tmp) to z -> st_low (v_corner_step st tmp to) z) /\
  (forall z, st_up st z -> st_up (v_corner_step st tmp to) z) /\
  (forall z, upok (vden tmp) to z -> st_up (v_corner_step st tmp to) z).
Proof.
  destruct st as [[[ra rao] rb] rbo]. intros [Wa Wb] Wt. unfold v_corner_step.
  rewrite !v_endpoint_lt_spec by assumption.
  destruct (eqlt (vden tmp) to (vden ra) rao) eqn:E1; destruct (eqlt (vden rb) (negb rbo) (vden tmp) (negb to)) eqn:E2;
    cbn; repeat split; auto; intros z H;
    try (eapply eqlt_low_true; eassumption); try (eapply eqlt_low_false; eassumption);
    try (eapply eqlt_up_true; eassumption); try (eapply eqlt_up_false; eassumption).
Qed.

Lemma emul_zero_l a e : a == 0 -> eeq (emul (Fin a) e) (Fin 0).
Proof. intros E. destruct e as [|b|]; cbn; [destruct (Qcompare_spec a 0); try lra; cbn; reflexivity|nra|destruct (Qcompare_spec a 0); try lra; cbn; reflexivity]. Qed.
Lemma emul_zero_r a e : a == 0 -> eeq (emul e (Fin a)) (Fin 0).
Proof. intros E. destruct e as [|b|]; cbn; [destruct (Qcompare_spec a 0); try lra; cbn; reflexivity|nra|destruct (Qcompare_spec a 0); try lra; cbn; reflexivity]. Qed.

Lemma low_le_zero e o : (forall z, 0 < z -> lowok e o z) -> e = NInf \/ exists r, e = Fin r /\ r <= 0.
Proof.
  destruct e as [|r|]; cbn; intros H; [left; reflexivity| |exfalso; apply (H 1); lra].
  right. exists r. split; [reflexivity|]. destruct (Qlt_le_dec 0 r) as [Hr|Hr]; [|assumption].
  exfalso. destruct (H (r * (1 # 2))) as [H1|[H1 _]]; lra.
Qed.
Lemma up_ge_zero e o : (forall z, z < 0 -> upok e o z) -> e = PInf \/ exists r, e = Fin r /\ 0 <= r.
Proof.
  destruct e as [|r|]; cbn; intros H; [exfalso; apply (H (-1)); lra| |left; reflexivity].
  right. exists r. split; [reflexivity|]. destruct (Qlt_le_dec r 0) as [Hr|Hr]; [|assumption].
  exfalso. destruct (H (r * (1 # 2))) as [H1|[H1 _]]; lra.
Qed.

Lemma v_closed_zero_end_spec I1 I2 : viwf I1 -> viwf I2 -> ipt I1 = false -> ipt I2 = false ->
  (v_closed_zero_end I1 I2 = true <->
   czero (vden (ia I1)) (vden (ib I1)) (vden (ia I2)) (vden (ib I2)) (ia_open I1) (ib_open I1) (ia_open I2) (ib_open I2)).
Proof.
  intros [A1 B1] [A2 B2] P1 P2. rewrite P1 in B1. rewrite P2 in B2. unfold v_closed_zero_end, czero.
  assert (Hs : forall v o, vwf v -> ((value_sgn v =? 0)%Z && negb o = true <-> ezero_closed (vden v) o)).
  { intros v o W. rewrite (value_sgn_spec v W). destruct (vden v) as [|a|]; cbn; [split; [discriminate|tauto]| |split; [discriminate|tauto]].
    destruct (Qcompare_spec a 0); destruct o; cbn; split; try discriminate; try tauto; intros [? ?]; try discriminate; lra. }
  rewrite !orb_true_iff. rewrite !Hs by assumption. tauto.
Qed.

Lemma vi_mul_gen_incl I1 I2 x y : viwf I1 -> viwf I2 -> ipt I1 = false -> ipt I2 = false ->
  vin x I1 -> vin y I2 -> vin (x * y) (vi_mul_core I1 I2) /\ viwf (vi_mul_core I1 I2).
Proof.
  intros W1 W2 P1 P2. pose proof (v_closed_zero_end_spec I1 I2 W1 W2 P1 P2) as Hcz.
  destruct W1 as [A1 B1], W2 as [A2 B2]. rewrite P1 in B1. rewrite P2 in B2.
  unfold vin. rewrite P1, P2. intros [L1 U1] [L2 U2].
  unfold vi_mul_core. rewrite P1.
  set (cz := v_closed_zero_end I1 I2) in *.
  destruct (value_mul_approx_spec _ _ A1 A2) as [Wc1 Ec1]. destruct (value_mul_approx_spec _ _ A1 B2) as [Wc2 Ec2].
  destruct (value_mul_approx_spec _ _ B1 A2) as [Wc3 Ec3]. destruct (value_mul_approx_spec _ _ B1 B2) as [Wc4 Ec4].
  set (c1 := value_mul_approx (ia I1) (ia I2)) in *. set (c2 := value_mul_approx (ia I1) (ib I2)) in *.
  set (c3 := value_mul_approx (ib I1) (ia I2)) in *. set (c4 := value_mul_approx (ib I1) (ib I2)) in *.
  set (a1 := vden (ia I1)) in *. set (b1 := vden (ib I1)) in *. set (a2 := vden (ia I2)) in *. set (b2 := vden (ib I2)) in *.
  set (a1o := ia_open I1) in *. set (b1o := ib_open I1) in *. set (a2o := ia_open I2) in *. set (b2o := ib_open I2) in *.
  set (st0 := (c1, a1o || a2o, c1, a1o || a2o)).
  assert (W0 : st_wf st0) by (split; assumption).
  destruct (v_corner_step_sem st0 c2 (a1o || b2o) W0 Wc2) as (W1' & L1a & L1b & U1a & U1b).
  set (st1 := v_corner_step st0 c2 (a1o || b2o)) in *.
  destruct (v_corner_step_sem st1 c3 (b1o || a2o) W1' Wc3) as (W2' & L2a & L2b & U2a & U2b).
  set (st2 := v_corner_step st1 c3 (b1o || a2o)) in *.
  destruct (v_corner_step_sem st2 c4 (b1o || b2o) W2' Wc4) as (W3' & L3a & L3b & U3a & U3b).
  set (st3 := v_corner_step st2 c4 (b1o || b2o)) in *.
  assert (Lc1 : forall z, lowok (vden c1) (a1o || a2o) z -> st_low st3 z) by (intros z H; apply L3a, L2a, L1a; exact H).
  assert (Lc2 : forall z, lowok (vden c2) (a1o || b2o) z -> st_low st3 z) by (intros z H; apply L3a, L2a, L1b; exact H).
  assert (Lc3 : forall z, lowok (vden c3) (b1o || a2o) z -> st_low st3 z) by (intros z H; apply L3a, L2b; exact H).
  assert (Lc4 : forall z, lowok (vden c4) (b1o || b2o) z -> st_low st3 z) by (intros z H; apply L3b; exact H).
  assert (Uc1 : forall z, upok (vden c1) (a1o || a2o) z -> st_up st3 z) by (intros z H; apply U3a, U2a, U1a; exact H).
  assert (Uc2 : forall z, upok (vden c2) (a1o || b2o) z -> st_up st3 z) by (intros z H; apply U3a, U2a, U1b; exact H).
  assert (Uc3 : forall z, upok (vden c3) (b1o || a2o) z -> st_up st3 z) by (intros z H; apply U3a, U2b; exact H).
  assert (Uc4 : forall z, upok (vden c4) (b1o || b2o) z -> st_up st3 z) by (intros z H; apply U3b; exact H).
  (* when an operand has a closed zero end, some corner product is 0 *)
  assert (Hzero : cz = true -> (forall z, 0 < z -> st_low st3 z) /\ (forall z, z < 0 -> st_up st3 z)).
  { intros Hc. apply Hcz in Hc. unfold czero, ezero_closed in Hc.
    assert (Z0l : forall o z, 0 < z -> lowok (Fin 0) o z) by (intros; cbn; left; assumption).
    assert (Z0u : forall o z, z < 0 -> upok (Fin 0) o z) by (intros; cbn; left; assumption).
    destruct Hc as [Hc|[Hc|[Hc|Hc]]].
    - destruct a1 as [|v|]; try tauto. destruct Hc as [Hv _]. pose proof (eeq_trans _ _ _ Ec1 (emul_zero_l v a2 Hv)) as E.
      split; intros z Hz; [apply Lc1; eapply lowok_eeq; [apply eeq_sym; exact E|apply Z0l; assumption]|apply Uc1; eapply upok_eeq; [apply eeq_sym; exact E|apply Z0u; assumption]].
    - destruct b1 as [|v|]; try tauto. destruct Hc as [Hv _]. pose proof (eeq_trans _ _ _ Ec3 (emul_zero_l v a2 Hv)) as E.
      split; intros z Hz; [apply Lc3; eapply lowok_eeq; [apply eeq_sym; exact E|apply Z0l; assumption]|apply Uc3; eapply upok_eeq; [apply eeq_sym; exact E|apply Z0u; assumption]].
    - destruct a2 as [|v|]; try tauto. destruct Hc as [Hv _]. pose proof (eeq_trans _ _ _ Ec1 (emul_zero_r v a1 Hv)) as E.
      split; intros z Hz; [apply Lc1; eapply lowok_eeq; [apply eeq_sym; exact E|apply Z0l; assumption]|apply Uc1; eapply upok_eeq; [apply eeq_sym; exact E|apply Z0u; assumption]].
    - destruct b2 as [|v|]; try tauto. destruct Hc as [Hv _]. pose proof (eeq_trans _ _ _ Ec2 (emul_zero_r v a1 Hv)) as E.
      split; intros z Hz; [apply Lc2; eapply lowok_eeq; [apply eeq_sym; exact E|apply Z0l; assumption]|apply Uc2; eapply upok_eeq; [apply eeq_sym; exact E|apply Z0u; assumption]]. }
  clearbody st3. destruct st3 as [[[ra rao] rb] rbo]. destruct W3' as [Wra Wrb]. cbn [st_low st_up] in *.
  split; [|split; [exact Wra|exact Wrb]].
  cbn [ipt ia ib ia_open ib_open]. split.
  - destruct (corner_low a1 b1 a2 b2 a1o b1o a2o b2o x y L1 U1 L2 U2) as [H|[H|[H|[H|[Hz Hc]]]]].
    + apply (lowok_eeq _ _ _ _ (eeq_sym _ _ Ec1)) in H. apply Lc1 in H. destruct (_ && _); [eapply lowok_close|]; exact H.
    + apply (lowok_eeq _ _ _ _ (eeq_sym _ _ Ec2)) in H. apply Lc2 in H. destruct (_ && _); [eapply lowok_close|]; exact H.
    + apply (lowok_eeq _ _ _ _ (eeq_sym _ _ Ec3)) in H. apply Lc3 in H. destruct (_ && _); [eapply lowok_close|]; exact H.
    + apply (lowok_eeq _ _ _ _ (eeq_sym _ _ Ec4)) in H. apply Lc4 in H. destruct (_ && _); [eapply lowok_close|]; exact H.
    + apply Hcz in Hc. destruct (Hzero Hc) as [Hl _]. rewrite Hc, andb_true_r.
      eapply lowok_compat; [symmetry; exact Hz|].
      destruct (low_le_zero _ _ Hl) as [E|(r & E & Hr)]; rewrite E; [exact I|].
      rewrite (value_sgn_spec _ Wra), E. cbn. destruct (Qcompare_spec r 0); cbn; [right; split; [assumption|reflexivity]|left; assumption|lra].
  - destruct (corner_up a1 b1 a2 b2 a1o b1o a2o b2o x y L1 U1 L2 U2) as [H|[H|[H|[H|[Hz Hc]]]]].
    + apply (upok_eeq _ _ _ _ (eeq_sym _ _ Ec1)) in H. apply Uc1 in H. destruct (_ && _); [eapply upok_close|]; exact H.
    + apply (upok_eeq _ _ _ _ (eeq_sym _ _ Ec2)) in H. apply Uc2 in H. destruct (_ && _); [eapply upok_close|]; exact H.
    + apply (upok_eeq _ _ _ _ (eeq_sym _ _ Ec3)) in H. apply Uc3 in H. destruct (_ && _); [eapply upok_close|]; exact H.
    + apply (upok_eeq _ _ _ _ (eeq_sym _ _ Ec4)) in H. apply Uc4 in H. destruct (_ && _); [eapply upok_close|]; exact H.
    + apply Hcz in Hc. destruct (Hzero Hc) as [_ Hu]. rewrite Hc, andb_true_r.
      eapply upok_compat; [symmetry; exact Hz|].
      destruct (up_ge_zero _ _ Hu) as [E|(r & E & Hr)]; rewrite E; [exact I|].
      rewrite (value_sgn_spec _ Wrb), E. cbn. destruct (Qcompare_spec r 0); cbn; [right; split; [symmetry; assumption|reflexivity]|lra|left; assumption].
Qed.

Theorem vi_mul_correct I1 I2 x y : viwf I1 -> viwf I2 -> vin x I1 -> vin y I2 ->
  vin (x * y) (vi_mul I1 I2) /\ viwf (vi_mul I1 I2).
Proof.
  intros W1 W2 H1 H2. unfold vi_mul.
  destruct (ipt I1) eqn:P1; [apply vi_mul_pt_incl; assumption|].
  destruct (ipt I2) eqn:P2.
  - destruct (vi_mul_pt_incl I2 I1 y x W2 W1 P2 H2 H1) as [H W]. split; [|exact W].
    unfold vin in *. destruct (ipt (vi_mul_core I2 I1)).
    + destruct (vden (ia (vi_mul_core I2 I1))); try tauto. rewrite H. ring.
    + destruct H as [L U]. split; [eapply lowok_compat; [|exact L]|eapply upok_compat; [|exact U]]; ring.
  - apply vi_mul_gen_incl; assumption.
Qed.

(* ---- lp_interval_add *)
Definition eadd (e1 e2 : eQ) : eQ :=
  match e1, e2 with
  | Fin a, Fin b => Fin (a + b)
  | NInf, PInf | PInf, NInf => Fin 0
  | NInf, _ | _, NInf => NInf
  | _, _ => PInf
  end.
Definition eopposite (e1 e2 : eQ) : Prop :=
  match e1, e2 with NInf, PInf | PInf, NInf => True | _, _ => False end.

Lemma value_add_approx_spec v1 v2 : vwf v1 -> vwf v2 -> ~ eopposite (vden v1) (vden v2) ->
  snd (value_add_approx v1 v2) = true /\ vwf (fst (value_add_approx v1 v2)) /\
  eeq (vden (fst (value_add_approx v1 v2))) (eadd (vden v1) (vden v2)).
Proof.
  destruct v1 as [| |a|a|a|], v2 as [| |b|b|b|]; cbn [vwf]; try tauto; intros W1 W2 Hop;
    unfold value_add_approx; cbn [value_to_same_type value_add_same vden eadd fst snd vwf eopposite] in *; try tauto.
  all: try (repeat split; exact I).
  - split; [reflexivity|]. split; [exact I|]. unfold int_add, ring_norm. cbn. rewrite inject_Z_plus. reflexivity.
  - destruct (vden_dy_add (dy_from_integer a) b) as [W E]. split; [reflexivity|]. split; [exact W|]. cbn. rewrite E.
    destruct (dy_from_integer_spec a) as [_ E']. rewrite E'. reflexivity.
  - destruct (q_add_spec _ _ (q_wf_integer a) W2) as [W E]. split; [reflexivity|]. split; [exact W|]. cbn. rewrite E, QofR_integer. reflexivity.
  - destruct (vden_dy_add a (dy_from_integer b)) as [W E]. split; [reflexivity|]. split; [exact W|]. cbn. rewrite E.
    destruct (dy_from_integer_spec b) as [_ E']. rewrite E'. reflexivity.
  - destruct (vden_dy_add a b) as [W E]. split; [reflexivity|]. split; [exact W|]. cbn. exact E.
  - destruct (q_from_dyadic_spec a) as [Wd Ed]. destruct (q_add_spec _ _ Wd W2) as [W E]. split; [reflexivity|]. split; [exact W|]. cbn. rewrite E, Ed. reflexivity.
  - destruct (q_add_spec _ _ W1 (q_wf_integer b)) as [W E]. split; [reflexivity|]. split; [exact W|]. cbn. rewrite E, QofR_integer. reflexivity.
  - destruct (q_from_dyadic_spec b) as [Wd Ed]. destruct (q_add_spec _ _ W1 Wd) as [W E]. split; [reflexivity|]. split; [exact W|]. cbn. rewrite E, Ed. reflexivity.
  - destruct (q_add_spec _ _ W1 W2) as [W E]. split; [reflexivity|]. split; [exact W|]. cbn. exact E.
Qed.

Lemma eadd_low e1 o1 x e2 o2 y : lowok e1 o1 x -> lowok e2 o2 y -> lowok (eadd e1 e2) (o1 || o2) (x + y) /\ ~ eopposite e1 e2.
Proof.
  destruct e1 as [|a|], e2 as [|b|]; cbn; try tauto. intros [H|[H Ho]] [G|[G Go]]; (split; [|tauto]);
    try (left; lra). right. subst. split; [lra|reflexivity].
Qed.
Lemma eadd_up e1 o1 x e2 o2 y : upok e1 o1 x -> upok e2 o2 y -> upok (eadd e1 e2) (o1 || o2) (x + y) /\ ~ eopposite e1 e2.
Proof.
  destruct e1 as [|a|], e2 as [|b|]; cbn; try tauto. intros [H|[H Ho]] [G|[G Go]]; (split; [|tauto]);
    try (left; lra). right. subst. split; [lra|reflexivity].
Qed.

(* the lower and upper end point an operand contributes (a point contributes its value, closed) *)
Lemma vin_low I x : viwf I -> vin x I -> lowok (vden (ia I)) (ia_open I) x.
Proof.
  intros [_ W]. unfold vin. destruct (ipt I); [|tauto]. destruct W as [-> _].
  destruct (vden (ia I)); cbn; tauto.
Qed.
Lemma vin_up I x : viwf I -> vin x I -> upok (vden (if ipt I then ia I else ib I)) (ib_open I) x.
Proof.
  intros [_ W]. unfold vin. destruct (ipt I); [|tauto]. destruct W as [_ ->].
  destruct (vden (ia I)); cbn; try tauto. intros H. right. split; [symmetry; assumption|reflexivity].
Qed.
Lemma viwf_hi I : viwf I -> vwf (if ipt I then ia I else ib I).
Proof. intros [W1 W2]. destruct (ipt I); assumption. Qed.

Theorem vi_add_correct I1 I2 x y : viwf I1 -> viwf I2 -> vin x I1 -> vin y I2 ->
  vin (x + y) (vi_add I1 I2) /\ viwf (vi_add I1 I2).
Proof.
  intros W1 W2 H1 H2. unfold vi_add.
  pose proof (vin_low I1 x W1 H1) as L1. pose proof (vin_low I2 y W2 H2) as L2.
  pose proof (vin_up I1 x W1 H1) as U1. pose proof (vin_up I2 y W2 H2) as U2.
  pose proof (viwf_hi I1 W1) as Wh1. pose proof (viwf_hi I2 W2) as Wh2.
  destruct (eadd_low _ _ _ _ _ _ L1 L2) as [La Lopp]. destruct (eadd_up _ _ _ _ _ _ U1 U2) as [Ua Uopp].
  destruct W1 as [A1 B1], W2 as [A2 B2].
  destruct (value_add_approx_spec _ _ A1 A2 Lopp) as (Pa & Wa & Ea).
  destruct (value_add_approx_spec _ _ Wh1 Wh2 Uopp) as (Pb & Wb & Eb).
  destruct (ipt I1) eqn:P1, (ipt I2) eqn:P2; cbn [andb].
  - (* point + point *)
    destruct (value_add_approx (ia I1) (ia I2)) as [r p] eqn:Er. cbn [fst snd] in *. subst p.
    split; [|split; [exact Wa|cbn; auto]]. unfold vin. cbn [ipt ia].
    destruct (vin_point I1 x P1 H1) as (vx & Ex & Evx). destruct (vin_point I2 y P2 H2) as (vy & Ey & Evy).
    rewrite Ex, Ey in Ea. cbn in Ea. destruct (vden r); cbn in Ea; try tauto. rewrite Ea, Evx, Evy. reflexivity.
  - destruct (value_add_approx (ia I1) (ia I2)) as [ra pa] eqn:Era. destruct (value_add_approx (ia I1) (ib I2)) as [rb pb] eqn:Erb.
    cbn [fst snd] in *. subst pa pb. split; [|split; [exact Wa|exact Wb]]. unfold vin. cbn [ipt ia ib ia_open ib_open negb].
    rewrite !orb_false_r. split; [eapply lowok_eeq; [apply eeq_sym; exact Ea|exact La]|eapply upok_eeq; [apply eeq_sym; exact Eb|exact Ua]].
  - destruct (value_add_approx (ia I1) (ia I2)) as [ra pa] eqn:Era. destruct (value_add_approx (ib I1) (ia I2)) as [rb pb] eqn:Erb.
    cbn [fst snd] in *. subst pa pb. split; [|split; [exact Wa|exact Wb]]. unfold vin. cbn [ipt ia ib ia_open ib_open negb].
    rewrite !orb_false_r. split; [eapply lowok_eeq; [apply eeq_sym; exact Ea|exact La]|eapply upok_eeq; [apply eeq_sym; exact Eb|exact Ua]].
  - destruct (value_add_approx (ia I1) (ia I2)) as [ra pa] eqn:Era. destruct (value_add_approx (ib I1) (ib I2)) as [rb pb] eqn:Erb.
    cbn [fst snd] in *. subst pa pb. split; [|split; [exact Wa|exact Wb]]. unfold vin. cbn [ipt ia ib ia_open ib_open negb].
    rewrite !orb_false_r. split; [eapply lowok_eeq; [apply eeq_sym; exact Ea|exact La]|eapply upok_eeq; [apply eeq_sym; exact Eb|exact Ua]].
Qed.

(* ---- lp_interval_pow *)
Definition epow (e : eQ) (n : N) : eQ :=
  match e with Fin a => Fin (a ^ Z.of_N n) | PInf => PInf | NInf => if N.odd n then NInf else PInf end.

Lemma value_pow_approx_spec v n : vwf v ->
  vwf (value_pow_approx v n) /\ eeq (vden (value_pow_approx v n)) (epow (vden v) n).
Proof.
  destruct v as [| |a|a|a|]; cbn [vwf]; try tauto; intros W; cbn [value_pow_approx value_sgn vden epow].
  - destruct (N.odd n); cbn; split; exact I.
  - split; [exact I|]. unfold int_pow. cbn. apply Zpower_Qpower. lia.
  - rewrite dy_pow_dst by exact I. destruct (dy_pow_spec a n W) as [W' E]. split; [exact W'|exact E].
  - destruct (q_pow_spec a n W) as [W' E]. split; [exact W'|exact E].
  - destruct (N.odd n); cbn; split; exact I.
Qed.

Lemma epow_low_odd e o x n : N.odd n = true -> lowok e o x -> lowok (epow e n) o (x ^ Z.of_N n).
Proof.
  intros Ho. destruct e as [|a|]; cbn; [rewrite Ho; auto| |auto].
  intros [H|[H Hf]]; [left; apply Qpow_odd_mono_strict; assumption|right; split; [rewrite H; reflexivity|assumption]].
Qed.
Lemma epow_up_odd e o x n : N.odd n = true -> upok e o x -> upok (epow e n) o (x ^ Z.of_N n).
Proof.
  intros Ho. destruct e as [|a|]; cbn; [rewrite Ho; auto| |auto].
  intros [H|[H Hf]]; [left; apply Qpow_odd_mono_strict; assumption|right; split; [rewrite H; reflexivity|assumption]].
Qed.
Lemma epow_up_even_pos e o x n : N.odd n = false -> (n <> 0)%N -> 0 <= x -> upok e o x -> upok (epow e n) o (x ^ Z.of_N n).
Proof.
  intros Ho Hn Hx. destruct e as [|a|]; cbn; [tauto| |auto].
  intros [H|[H Hf]]; [left; apply Qpow_mono_strict; assumption|right; split; [rewrite H; reflexivity|assumption]].
Qed.
Lemma epow_up_even_neg e o x n : N.odd n = false -> (n <> 0)%N -> x <= 0 -> lowok e o x -> upok (epow e n) o (x ^ Z.of_N n).
Proof.
  intros Ho Hn Hx. destruct e as [|a|]; cbn; [rewrite Ho; exact (fun _ => I)| |tauto].
  intros [H|[H Hf]]; [left|right; split; [rewrite H; reflexivity|assumption]].
  rewrite <- (Qpow_even_abs n x Ho), <- (Qpow_even_abs n a Ho). apply Qpow_mono_strict; [lra|lra|assumption].
Qed.
Lemma epow_low_even_pos a o x n : (n <> 0)%N -> 0 <= a -> lowok (Fin a) o x -> lowok (Fin (a ^ Z.of_N n)) o (x ^ Z.of_N n).
Proof.
  intros Hn Ha. cbn. intros [H|[H Hf]]; [left; apply Qpow_mono_strict; assumption|right; split; [rewrite H; reflexivity|assumption]].
Qed.
Lemma epow_low_even_neg b o x n : N.odd n = false -> (n <> 0)%N -> b <= 0 -> upok (Fin b) o x -> lowok (Fin (b ^ Z.of_N n)) o (x ^ Z.of_N n).
Proof.
  intros Ho Hn Hb. cbn. intros [H|[H Hf]]; [left|right; split; [rewrite H; reflexivity|assumption]].
  rewrite <- (Qpow_even_abs n x Ho), <- (Qpow_even_abs n b Ho). apply Qpow_mono_strict; [lra|lra|assumption].
Qed.

Lemma vi_sgn_ends I x : viwf I -> ipt I = false -> vin x I ->
  ((0 < vi_sgn I)%Z -> exists a, vden (ia I) = Fin a /\ 0 <= a) /\
  ((vi_sgn I < 0)%Z -> exists b, vden (ib I) = Fin b /\ b <= 0).
Proof.
  intros [Wa Wb] Pt. rewrite Pt in Wb. unfold vi_sgn, vin. rewrite Pt, (value_sgn_spec _ Wa), (value_sgn_spec _ Wb).
  intros [L U].
  destruct (vden (ia I)) as [|a|], (vden (ib I)) as [|b|]; cbn in *; try tauto;
    try (destruct (Qcompare_spec a 0)); try (destruct (Qcompare_spec b 0)); cbn;
    destruct (ia_open I), (ib_open I); cbn; split; intros; try lia;
    try (eexists; split; [reflexivity|lra]).
Qed.

Theorem vi_pow_correct I n x : viwf I -> vin x I -> vin (x ^ Z.of_N n) (vi_pow I n) /\ viwf (vi_pow I n).
Proof.
  intros W Hx. pose proof (vi_sgn_sound I x W Hx) as (Sp & Sn & _).
  unfold vi_pow. destruct (N.eqb_spec n 0) as [->|Hn].
  { split; [|split; [exact Logic.I|cbn; auto]]. unfold vin. cbn. reflexivity. }
  destruct (ipt I) eqn:Pt.
  { destruct W as [Wa _]. destruct (value_pow_approx_spec _ n Wa) as [W' E].
    destruct (vin_point I x Pt Hx) as (vx & Ex & Evx). rewrite Ex in E. cbn in E.
    split; [|split; [exact W'|cbn; auto]]. unfold vin. cbn [ipt ia].
    destruct (vden (value_pow_approx (ia I) n)); cbn in E; try tauto. rewrite E, Evx. reflexivity. }
  pose proof (vi_sgn_ends I x W Pt Hx) as [Ep En].
  destruct W as [Wa Wb]. rewrite Pt in Wb.
  destruct (value_pow_approx_spec _ n Wa) as [Wpa Epa]. destruct (value_pow_approx_spec _ n Wb) as [Wpb Epb].
  unfold vin in Hx. rewrite Pt in Hx. destruct Hx as [L U].
  set (pa := value_pow_approx (ia I) n) in *. set (pb := value_pow_approx (ib I) n) in *.
  destruct (N.odd n) eqn:Odd.
  { split; [|split; [exact Wpa|exact Wpb]]. unfold vin. cbn [ipt ia ib ia_open ib_open]. split.
    - eapply lowok_eeq; [apply eeq_sym; exact Epa|]. apply epow_low_odd; assumption.
    - eapply upok_eeq; [apply eeq_sym; exact Epb|]. apply epow_up_odd; assumption. }
  destruct (Z.eqb_spec (vi_sgn I) 0) as [S0|S0].
  - (* [0, max] *)
    assert (Up2 : upok (vden pb) (ib_open I) (x ^ Z.of_N n) \/ upok (vden pa) (ia_open I) (x ^ Z.of_N n)).
    { destruct (Qlt_le_dec x 0) as [Hx0|Hx0].
      - right. eapply upok_eeq; [apply eeq_sym; exact Epa|]. apply epow_up_even_neg; try assumption. lra.
      - left. eapply upok_eeq; [apply eeq_sym; exact Epb|]. apply epow_up_even_pos; assumption. }
    pose proof (Qpow_even_nonneg n x Odd) as Nx.
    assert (Lo0 : lowok (vden (VInt 0)) false (x ^ Z.of_N n)).
    { change (vden (VInt 0)) with (Fin 0). unfold lowok.
      destruct (Qlt_le_dec 0 (x ^ Z.of_N n)); [left; assumption|right; split; [lra|reflexivity]]. }
    destruct (v_endpoint_lt pb (negb (ib_open I)) pa (negb (ia_open I))) eqn:El;
      rewrite v_endpoint_lt_spec in El by assumption.
    + split; [|split; [exact Logic.I|exact Wpa]]. unfold vin. cbn [ipt ia ib ia_open ib_open]. split; [exact Lo0|].
      destruct Up2 as [H|H]; [eapply eqlt_up_true; eassumption|exact H].
    + split; [|split; [exact Logic.I|exact Wpb]]. unfold vin. cbn [ipt ia ib ia_open ib_open]. split; [exact Lo0|].
      destruct Up2 as [H|H]; [exact H|eapply eqlt_up_false; eassumption].
  - destruct (Z.ltb_spec 0 (vi_sgn I)) as [S1|S1].
    + destruct (Ep S1) as (a & Ea & Ha). specialize (Sp S1).
      split; [|split; [exact Wpa|exact Wpb]]. unfold vin. cbn [ipt ia ib ia_open ib_open]. split.
      * eapply lowok_eeq; [apply eeq_sym; exact Epa|]. rewrite Ea in L |- *. cbn [epow]. apply epow_low_even_pos; assumption.
      * eapply upok_eeq; [apply eeq_sym; exact Epb|]. apply epow_up_even_pos; try assumption. lra.
    + assert (S2 : (vi_sgn I < 0)%Z) by lia. destruct (En S2) as (b & Eb & Hb). specialize (Sn S2).
      split; [|split; [exact Wpb|exact Wpa]]. unfold vin. cbn [ipt ia ib ia_open ib_open]. split.
      * eapply lowok_eeq; [apply eeq_sym; exact Epb|]. rewrite Eb in U |- *. cbn [epow]. apply epow_low_even_neg; assumption.
      * eapply upok_eeq; [apply eeq_sym; exact Epa|]. apply epow_up_even_neg; try assumption. lra.
Qed.

Lemma vin_compat z z' I : z == z' -> vin z I -> vin z' I.
Proof.
  intros E. unfold vin. destruct (ipt I).
  - destruct (vden (ia I)); try tauto. rewrite E. auto.
  - intros [L U]. split; [eapply lowok_compat|eapply upok_compat]; eassumption.
Qed.

(* ---- coefficient_interval_value / lp_polynomial_interval_value *)
Section CoefInd.
Variable P : coef -> Prop.
Hypothesis Hn : forall z, P (CNum z).
Hypothesis Hr : forall x cs, Forall P cs -> P (CRec x cs).
Fixpoint coef_ind' (c : coef) : P c :=
  match c with
  | CNum z => Hn z
  | CRec x cs => Hr x cs ((fix go (l : list coef) : Forall P l :=
                             match l with [] => Forall_nil _ | c :: r => Forall_cons _ (coef_ind' c) (go r) end) cs)
  end.
End CoefInd.

(* the value of the polynomial at a rational point *)
Fixpoint ceval (rho : nat -> Q) (c : coef) : Q :=
  match c with
  | CNum z => inject_Z z
  | CRec x cs =>
    (fix go (cs : list coef) (i : N) : Q :=
       match cs with [] => 0 | ci :: rest => ceval rho ci * rho x ^ Z.of_N i + go rest (N.succ i) end) cs 0%N
  end.

Definition ceval_list (f : coef -> Q) (xv : Q) :=
  fix go (cs : list coef) (i : N) : Q :=
    match cs with [] => 0 | ci :: rest => f ci * xv ^ Z.of_N i + go rest (N.succ i) end.
Definition civ_loop (f : coef -> vitv) (x_value : vitv) :=
  fix loop (cs : list coef) (i : N) (result : vitv) : vitv :=
    match cs with
    | [] => result
    | ci :: rest =>
      let result' :=
        if coef_is_zero ci then result
        else vi_add result (vi_mul (vi_pow x_value i) (f ci)) in
      loop rest (N.succ i) result'
    end.

Lemma ceval_rec rho x cs : ceval rho (CRec x cs) = ceval_list (ceval rho) (rho x) cs 0%N.
Proof. reflexivity. Qed.
Lemma civ_rec m x cs : coef_interval_value m (CRec x cs) =
  civ_loop (coef_interval_value m) (m x) cs 0%N (mkI (VInt 0) VNone false false true).
Proof. reflexivity. Qed.

Theorem coef_interval_value_correct m rho c :
  (forall x, viwf (m x)) -> (forall x, vin (rho x) (m x)) ->
  vin (ceval rho c) (coef_interval_value m c) /\ viwf (coef_interval_value m c).
Proof.
  intros Wm Hm. induction c as [z|x cs IH] using coef_ind'.
  - cbn. split; [unfold vin; cbn; reflexivity|split; [exact I|cbn; auto]].
  - rewrite ceval_rec, civ_rec.
    assert (Hloop : forall cs, Forall (fun c => vin (ceval rho c) (coef_interval_value m c) /\ viwf (coef_interval_value m c)) cs ->
              forall i r result, vin r result -> viwf result ->
              vin (r + ceval_list (ceval rho) (rho x) cs i) (civ_loop (coef_interval_value m) (m x) cs i result) /\
              viwf (civ_loop (coef_interval_value m) (m x) cs i result)).
    { clear IH cs. induction cs as [|ci rest IHr]; intros HF i r result Hr Wr.
      - cbn. split; [|exact Wr]. eapply vin_compat; [|exact Hr]. ring.
      - inversion HF as [|? ? [Hci Wci] HF']; subst. cbn [ceval_list civ_loop].
        set (res' := if coef_is_zero ci then result else vi_add result (vi_mul (vi_pow (m x) i) (coef_interval_value m ci))).
        assert (Hres : vin (r + ceval rho ci * rho x ^ Z.of_N i) res' /\ viwf res').
        { unfold res'. destruct (coef_is_zero ci) eqn:Ez.
          - destruct ci as [z|]; [|discriminate]. cbn in Ez. apply Z.eqb_eq in Ez. subst z. cbn [ceval]. split; [|exact Wr].
            eapply vin_compat; [|exact Hr]. change (inject_Z 0) with 0. ring.
          - destruct (vi_pow_correct (m x) i (rho x) (Wm x) (Hm x)) as [Hp Wp].
            destruct (vi_mul_correct _ _ _ _ Wp Wci Hp Hci) as [Hmul Wmul].
            destruct (vi_add_correct _ _ _ _ Wr Wmul Hr Hmul) as [Ha Wa]. split; [|exact Wa].
            eapply vin_compat; [|exact Ha]. ring. }
        destruct Hres as [Hres Wres].
        destruct (IHr HF' (N.succ i) _ res' Hres Wres) as [H W]. split; [|exact W].
        eapply vin_compat; [|exact H]. ring. }
    assert (H0 : vin 0 (mkI (VInt 0) VNone false false true)) by (unfold vin; cbn; reflexivity).
    assert (W0 : viwf (mkI (VInt 0) VNone false false true)) by (split; [exact I|cbn; auto]).
    destruct (Hloop cs IH 0%N 0 _ H0 W0) as [H W]. split; [|exact W].
    eapply vin_compat; [|exact H]. ring.
Qed.

(* exactness on points at the value level: the results are points (and, by the inclusion theorems,
   the point is the exact value) *)
Lemma vin_point_iff I z : ipt I = true -> (vin z I <-> exists v, vden (ia I) = Fin v /\ v == z).
Proof.
  intros Pt. split; [apply vin_point; assumption|]. intros (v & E & Ev). unfold vin. rewrite Pt, E. assumption.
Qed.

Theorem vi_point_exact I1 I2 n x y : viwf I1 -> viwf I2 -> ipt I1 = true -> ipt I2 = true -> vin x I1 -> vin y I2 ->
  (ipt (vi_add I1 I2) = true /\ forall z, vin z (vi_add I1 I2) <-> z == x + y) /\
  (ipt (vi_mul I1 I2) = true /\ forall z, vin z (vi_mul I1 I2) <-> z == x * y) /\
  (ipt (vi_pow I1 n) = true /\ forall z, vin z (vi_pow I1 n) <-> z == x ^ Z.of_N n).
Proof.
  intros W1 W2 P1 P2 H1 H2.
  assert (Hex : forall J v, ipt J = true -> vin v J -> forall z, vin z J <-> z == v).
  { intros J v PJ Hv z. destruct (vin_point J v PJ Hv) as (w & Ew & Evw). rewrite (vin_point_iff J z PJ). split.
    - intros (w' & Ew' & Evw'). rewrite Ew in Ew'. injection Ew' as <-. rewrite <- Evw', Evw. reflexivity.
    - intros Ez. exists w. split; [assumption|]. rewrite Ez. assumption. }
  destruct (vi_add_correct I1 I2 x y W1 W2 H1 H2) as [Ha _].
  destruct (vi_mul_correct I1 I2 x y W1 W2 H1 H2) as [Hm _].
  destruct (vi_pow_correct I1 n x W1 H1) as [Hp _].
  assert (Pa : ipt (vi_add I1 I2) = true).
  { unfold vi_add. rewrite P1, P2. cbn [andb].
    destruct (vin_point I1 x P1 H1) as (vx & Ex & _). destruct (vin_point I2 y P2 H2) as (vy & Ey & _).
    destruct W1 as [A1 _], W2 as [A2 _].
    assert (Hop : ~ eopposite (vden (ia I1)) (vden (ia I2))) by (rewrite Ex, Ey; cbn; tauto).
    destruct (value_add_approx_spec _ _ A1 A2 Hop) as (Ps & _ & _).
    destruct (value_add_approx (ia I1) (ia I2)) as [r p]. cbn in Ps. subst p. reflexivity. }
  assert (Pm : ipt (vi_mul I1 I2) = true) by (unfold vi_mul, vi_mul_core; rewrite P1, P2; reflexivity).
  assert (Pp : ipt (vi_pow I1 n) = true) by (unfold vi_pow; rewrite P1; destruct (n =? 0)%N; reflexivity).
  split; [split; [exact Pa|exact (Hex _ _ Pa Ha)]|split; [split; [exact Pm|exact (Hex _ _ Pm Hm)]|split; [exact Pp|exact (Hex _ _ Pp Hp)]]].
Qed.
