(* Proofs for property C15 (interval arithmetic never loses a point).  Model: IntervalArith.v.
   Semantics: stdlib Q (QArith); end points of value-level intervals denote extended rationals eQ. *)
From Coq Require Import ZArith List Bool Lia Lqa QArith Qfield Qpower Znumtheory.
From LP Require Import Scalar ScalarProofs IntervalArith.
Import ListNotations.
Local Open Scope Q_scope.
Set Warnings "-unused-intro-pattern".
Ltac Zify.zify_post_hook ::= Z.div_mod_to_equations.

(* ================================================================== extended rationals, end points *)

Inductive eQ := NInf | Fin (q : Q) | PInf.

(* z is admitted by the lower end e (open iff o) / by the upper end e *)
Definition lowok (e : eQ) (o : bool) (z : Q) : Prop :=
  match e with NInf => True | Fin v => v < z \/ (v == z /\ o = false) | PInf => False end.
Definition upok (e : eQ) (o : bool) (z : Q) : Prop :=
  match e with PInf => True | Fin v => z < v \/ (z == v /\ o = false) | NInf => False end.

(* extended product with 0 * inf = 0 (the convention of lp_value_mul_approx) *)
Definition eflip (e : eQ) : eQ := match e with NInf => PInf | PInf => NInf | Fin q => Fin (- q) end.
Definition emul (e1 e2 : eQ) : eQ :=
  match e1, e2 with
  | Fin a, Fin b => Fin (a * b)
  | Fin a, i => match a ?= 0 with Eq => Fin 0 | Gt => i | Lt => eflip i end
  | i, Fin b => match b ?= 0 with Eq => Fin 0 | Gt => i | Lt => eflip i end
  | NInf, NInf | PInf, PInf => PInf
  | _, _ => NInf
  end.

Definition ezero_closed (e : eQ) (o : bool) : Prop := match e with Fin v => v == 0 /\ o = false | _ => False end.

Lemma lowok_compat e o z z' : z == z' -> lowok e o z -> lowok e o z'.
Proof. intros E. destruct e; cbn; auto. rewrite E. auto. Qed.
Lemma upok_compat e o z z' : z == z' -> upok e o z -> upok e o z'.
Proof. intros E. destruct e; cbn; auto. rewrite E. auto. Qed.
Lemma lowok_close e o z : lowok e o z -> lowok e false z.
Proof. destruct e; cbn; auto. intros [H|[H _]]; auto. Qed.
Lemma upok_close e o z : upok e o z -> upok e false z.
Proof. destruct e; cbn; auto. intros [H|[H _]]; auto. Qed.

Ltac qcmp a b := let E := fresh "E" in destruct (Qcompare_spec a b) as [E|E|E].

(* scalar (finite, non-zero) times an end point *)
Lemma scale_pos_low k e o t : 0 < k -> lowok e o t -> lowok (emul (Fin k) e) o (k * t).
Proof.
  intros Hk. destruct e as [|a|]; cbn; qcmp k 0; try lra; cbn; auto.
  intros [H|[H Ho]]; [left; nra|right; split; [nra|assumption]].
Qed.
Lemma scale_pos_up k e o t : 0 < k -> upok e o t -> upok (emul (Fin k) e) o (k * t).
Proof.
  intros Hk. destruct e as [|a|]; cbn; qcmp k 0; try lra; cbn; auto.
  intros [H|[H Ho]]; [left; nra|right; split; [nra|assumption]].
Qed.
Lemma scale_neg_low k e o t : k < 0 -> upok e o t -> lowok (emul (Fin k) e) o (k * t).
Proof.
  intros Hk. destruct e as [|a|]; cbn; qcmp k 0; try lra; cbn; auto.
  intros [H|[H Ho]]; [left; nra|right; split; [nra|assumption]].
Qed.
Lemma scale_neg_up k e o t : k < 0 -> lowok e o t -> upok (emul (Fin k) e) o (k * t).
Proof.
  intros Hk. destruct e as [|a|]; cbn; qcmp k 0; try lra; cbn; auto.
  intros [H|[H Ho]]; [left; nra|right; split; [nra|assumption]].
Qed.

Lemma low_trans v o1 z e o2 : lowok (Fin v) o1 z -> lowok e o2 v -> lowok e (o1 || o2) z.
Proof.
  destruct e as [|a|]; cbn; auto. intros [H|[H Ho]] [G|[G Go]].
  - left; lra. - left; lra. - left; lra. - right. subst. split; [lra|reflexivity].
Qed.
Lemma up_trans v o1 z e o2 : upok (Fin v) o1 z -> upok e o2 v -> upok e (o1 || o2) z.
Proof.
  destruct e as [|a|]; cbn; auto. intros [H|[H Ho]] [G|[G Go]].
  - left; lra. - left; lra. - left; lra. - right. subst. split; [lra|reflexivity].
Qed.

Lemma emul_comm e1 e2 : match emul e1 e2, emul e2 e1 with
                        | Fin a, Fin b => a == b | NInf, NInf | PInf, PInf => True | _, _ => False end.
Proof.
  destruct e1 as [|a|], e2 as [|b|]; cbn; try exact I; try (qcmp a 0; cbn; auto; lra); try (qcmp b 0; cbn; auto; lra).
Qed.
Lemma lowok_emul_comm e1 e2 o z : lowok (emul e1 e2) o z -> lowok (emul e2 e1) o z.
Proof.
  pose proof (emul_comm e1 e2) as H. destruct (emul e1 e2), (emul e2 e1); cbn in *; try tauto.
  rewrite H. auto.
Qed.

(* sign classes of end points *)
Definition eneg (e : eQ) := match e with NInf => True | Fin a => a < 0 | PInf => False end.
Definition epos (e : eQ) := match e with PInf => True | Fin a => 0 < a | NInf => False end.
Lemma emul_neg_pos e1 e2 o : eneg e1 -> epos e2 -> lowok (emul e1 e2) o 0.
Proof.
  destruct e1 as [|a|], e2 as [|b|]; cbn; try tauto; intros H1 H2.
  - qcmp b 0; try lra. exact I.
  - left. nra.
  - qcmp a 0; try lra. exact I.
Qed.
Lemma emul_pos_neg e1 e2 o : epos e1 -> eneg e2 -> lowok (emul e1 e2) o 0.
Proof. intros. apply lowok_emul_comm. apply emul_neg_pos; assumption. Qed.

(* THE KEY LEMMA (lower end): a product x*y of members is admitted by one of the four corner
   products as a lower end (open iff one of the two ends is open), or it is 0 and some end point of
   an operand is a closed 0 *)
Definition czero (a1 b1 a2 b2 : eQ) (a1o b1o a2o b2o : bool) : Prop :=
  ezero_closed a1 a1o \/ ezero_closed b1 b1o \/ ezero_closed a2 a2o \/ ezero_closed b2 b2o.

Lemma corner_low (a1 b1 a2 b2 : eQ) (a1o b1o a2o b2o : bool) (x y : Q)
  (L1 : lowok a1 a1o x) (U1 : upok b1 b1o x) (L2 : lowok a2 a2o y) (U2 : upok b2 b2o y) :
  lowok (emul a1 a2) (a1o || a2o) (x * y) \/ lowok (emul a1 b2) (a1o || b2o) (x * y) \/
  lowok (emul b1 a2) (b1o || a2o) (x * y) \/ lowok (emul b1 b2) (b1o || b2o) (x * y) \/
  (x * y == 0 /\ czero a1 b1 a2 b2 a1o b1o a2o b2o).
Proof.
  unfold czero.
  qcmp y 0.
  - (* y = 0 *)
    assert (Hz : x * y == 0) by (rewrite E; ring).
    destruct a2 as [|a|]; [| |contradiction].
    + destruct b2 as [|b|]; [contradiction| |].
      * cbn in U2. qcmp b 0; [right; right; right; right; split; [assumption|right; right; right; cbn; split; [assumption|destruct U2 as [?|[_ ?]]; [lra|assumption]]]|lra|].
        (* a2 = -inf, b2 > 0 *)
        qcmp x 0.
        -- destruct a1 as [|c|]; [| |contradiction].
           ++ right. left. eapply lowok_compat; [symmetry; exact Hz|]. apply emul_neg_pos; cbn; auto.
           ++ cbn in L1. qcmp c 0.
              ** right; right; right; right. split; [assumption|left; cbn; split; [assumption|destruct L1 as [?|[_ ?]]; [lra|assumption]]].
              ** right. left. eapply lowok_compat; [symmetry; exact Hz|]. apply emul_neg_pos; cbn; auto.
              ** lra.
        -- destruct a1 as [|c|]; [| |contradiction].
           ++ right. left. eapply lowok_compat; [symmetry; exact Hz|]. apply emul_neg_pos; cbn; auto.
           ++ right. left. eapply lowok_compat; [symmetry; exact Hz|]. apply emul_neg_pos; cbn; auto. cbn in L1. lra.
        -- destruct b1 as [|c|]; [contradiction| |].
           ++ right. right. left. eapply lowok_compat; [symmetry; exact Hz|]. apply emul_pos_neg; cbn; auto. cbn in U1. lra.
           ++ right. right. left. eapply lowok_compat; [symmetry; exact Hz|]. apply emul_pos_neg; cbn; auto.
      * (* a2 = -inf, b2 = +inf *)
        qcmp x 0.
        -- destruct a1 as [|c|]; [| |contradiction].
           ++ right. left. eapply lowok_compat; [symmetry; exact Hz|]. apply emul_neg_pos; cbn; auto.
           ++ cbn in L1. qcmp c 0.
              ** right; right; right; right. split; [assumption|left; cbn; split; [assumption|destruct L1 as [?|[_ ?]]; [lra|assumption]]].
              ** right. left. eapply lowok_compat; [symmetry; exact Hz|]. apply emul_neg_pos; cbn; auto.
              ** lra.
        -- destruct a1 as [|c|]; [| |contradiction].
           ++ right. left. eapply lowok_compat; [symmetry; exact Hz|]. apply emul_neg_pos; cbn; auto.
           ++ right. left. eapply lowok_compat; [symmetry; exact Hz|]. apply emul_neg_pos; cbn; auto. cbn in L1. lra.
        -- destruct b1 as [|c|]; [contradiction| |].
           ++ right. right. left. eapply lowok_compat; [symmetry; exact Hz|]. apply emul_pos_neg; cbn; auto. cbn in U1. lra.
           ++ right. right. left. eapply lowok_compat; [symmetry; exact Hz|]. apply emul_pos_neg; cbn; auto.
    + cbn in L2. qcmp a 0; [right; right; right; right; split; [assumption|right; right; left; cbn; split; [assumption|destruct L2 as [?|[_ ?]]; [lra|assumption]]]| |lra].
      (* a2 < 0 finite *)
      assert (Hb2 : epos b2 \/ ezero_closed b2 b2o).
      { destruct b2 as [|b|]; [contradiction| |left; exact I]. cbn in U2. qcmp b 0; [right; cbn; split; [assumption|destruct U2 as [?|[_ ?]]; [lra|assumption]]|lra|left; assumption]. }
      destruct Hb2 as [Hb2|Hb2]; [|right; right; right; right; split; [assumption|right; right; right; assumption]].
      qcmp x 0.
      * destruct a1 as [|c|]; [| |contradiction].
        -- right. left. eapply lowok_compat; [symmetry; exact Hz|]. apply emul_neg_pos; cbn; auto.
        -- cbn in L1. qcmp c 0.
           ++ right; right; right; right. split; [assumption|left; cbn; split; [assumption|destruct L1 as [?|[_ ?]]; [lra|assumption]]].
           ++ right. left. eapply lowok_compat; [symmetry; exact Hz|]. apply emul_neg_pos; cbn; auto.
           ++ lra.
      * destruct a1 as [|c|]; [| |contradiction].
        -- right. left. eapply lowok_compat; [symmetry; exact Hz|]. apply emul_neg_pos; cbn; auto.
        -- right. left. eapply lowok_compat; [symmetry; exact Hz|]. apply emul_neg_pos; cbn; auto. cbn in L1. lra.
      * destruct b1 as [|c|]; [contradiction| |].
        -- right. right. left. eapply lowok_compat; [symmetry; exact Hz|]. apply emul_pos_neg; cbn; auto. cbn in U1. lra.
        -- right. right. left. eapply lowok_compat; [symmetry; exact Hz|]. apply emul_pos_neg; cbn; auto.
  - (* y < 0: x*y >= b1*y *)
    pose proof (scale_neg_low y b1 b1o x E U1) as S1.
    destruct b1 as [|b|]; [contradiction| |].
    + assert (Hyx : y * x == x * y) by ring.
      cbn [emul] in S1. destruct (Qcompare_spec y 0) as [Ey|Ey|Ey]; try lra. clear Ey.
      qcmp b 0.
      * (* b = 0 *)
        destruct S1 as [S1|[S1 S1o]].
        -- right. right. left. apply lowok_emul_comm.
           assert (Hc : emul a2 (Fin b) = Fin 0 \/ exists a, a2 = Fin a) by (destruct a2; cbn; [left|right; eauto|contradiction]; destruct (Qcompare_spec b 0); try lra; reflexivity).
           destruct Hc as [Hc|[a Hc]]; [rewrite Hc; cbn; left; nra|subst a2; cbn; left; nra].
        -- right; right; right; right. split; [nra|right; left; cbn; split; assumption].
      * (* b < 0 : b*y >= b*b2 *)
        pose proof (scale_neg_low b b2 b2o y E0 U2) as S2.
        right. right. right. left. eapply lowok_compat; [exact Hyx|].
        eapply lowok_compat; [|eapply low_trans; [exact S1|]].
        -- reflexivity.
        -- eapply lowok_compat; [|exact S2]. ring.
      * (* b > 0 : b*y >= b*a2 *)
        pose proof (scale_pos_low b a2 a2o y E0 L2) as S2.
        right. right. left. eapply lowok_compat; [exact Hyx|].
        eapply low_trans; [exact S1|]. eapply lowok_compat; [|exact S2]. ring.
    + (* b1 = +inf: the corner (+inf)*a2 with a2 <= y < 0 is -inf *)
      right. right. left. destruct a2 as [|a|]; cbn in *; [exact I| |contradiction].
      qcmp a 0; try lra. exact I.
  - (* y > 0: x*y >= a1*y *)
    pose proof (scale_pos_low y a1 a1o x E L1) as S1.
    destruct a1 as [|a|]; [| |contradiction].
    + right. left. destruct b2 as [|b|]; [contradiction| |]; cbn in *.
      * qcmp b 0; try lra. exact I.
      * exact I.
    + assert (Hyx : y * x == x * y) by ring.
      cbn [emul] in S1.
      qcmp a 0.
      * destruct S1 as [S1|[S1 S1o]].
        -- left.
           assert (Hc : emul (Fin a) a2 = Fin 0 \/ exists c, a2 = Fin c) by (destruct a2; cbn; [left|right; eauto|contradiction]; destruct (Qcompare_spec a 0); try lra; reflexivity).
           destruct Hc as [Hc|[c Hc]]; [rewrite Hc; cbn; left; nra|subst a2; cbn; left; nra].
        -- right; right; right; right. split; [nra|left; cbn; split; assumption].
      * pose proof (scale_neg_low a b2 b2o y E0 U2) as S2.
        right. left. eapply lowok_compat; [exact Hyx|].
        eapply low_trans; [exact S1|]. eapply lowok_compat; [|exact S2]. ring.
      * pose proof (scale_pos_low a a2 a2o y E0 L2) as S2.
        left. eapply lowok_compat; [exact Hyx|].
        eapply low_trans; [exact S1|]. eapply lowok_compat; [|exact S2]. ring.
Qed.

(* the upper end, by the symmetry x -> -x *)
Lemma low_flip e o z : upok e o z -> lowok (eflip e) o (- z).
Proof. destruct e; cbn; auto. intros [H|[H Ho]]; [left; lra|right; split; [lra|assumption]]. Qed.
Lemma up_flip e o z : lowok e o z -> upok (eflip e) o (- z).
Proof. destruct e; cbn; auto. intros [H|[H Ho]]; [left; lra|right; split; [lra|assumption]]. Qed.
Lemma emul_flip_up e1 e2 o z : lowok (emul (eflip e1) e2) o (- z) -> upok (emul e1 e2) o z.
Proof.
  destruct e1 as [|a|], e2 as [|b|]; cbn; auto.
  - qcmp b 0; cbn; auto. intros [H|[H Ho]]; [left; lra|right; split; [lra|assumption]].
  - qcmp a 0; qcmp (- a) 0; try lra; cbn; auto. intros [H|[H Ho]]; [left; lra|right; split; [lra|assumption]].
  - intros [H|[H Ho]]; [left; nra|right; split; [nra|assumption]].
  - qcmp a 0; qcmp (- a) 0; try lra; cbn; auto. intros [H|[H Ho]]; [left; lra|right; split; [lra|assumption]].
  - qcmp b 0; cbn; auto. intros [H|[H Ho]]; [left; lra|right; split; [lra|assumption]].
Qed.
Lemma ezero_closed_flip e o : ezero_closed (eflip e) o -> ezero_closed e o.
Proof. destruct e; cbn; auto. intros [H Ho]. split; [lra|assumption]. Qed.

Lemma corner_up (a1 b1 a2 b2 : eQ) (a1o b1o a2o b2o : bool) (x y : Q)
  (L1 : lowok a1 a1o x) (U1 : upok b1 b1o x) (L2 : lowok a2 a2o y) (U2 : upok b2 b2o y) :
  upok (emul a1 a2) (a1o || a2o) (x * y) \/ upok (emul a1 b2) (a1o || b2o) (x * y) \/
  upok (emul b1 a2) (b1o || a2o) (x * y) \/ upok (emul b1 b2) (b1o || b2o) (x * y) \/
  (x * y == 0 /\ czero a1 b1 a2 b2 a1o b1o a2o b2o).
Proof.
  pose proof (corner_low (eflip b1) (eflip a1) a2 b2 b1o a1o a2o b2o (- x) y
                (low_flip _ _ _ U1) (up_flip _ _ _ L1) L2 U2) as H.
  assert (Hm : - x * y == - (x * y)) by ring.
  destruct H as [H|[H|[H|[H|[H Hz]]]]].
  - right. right. left. apply emul_flip_up. eapply lowok_compat; [exact Hm|exact H].
  - right. right. right. left. apply emul_flip_up. eapply lowok_compat; [exact Hm|exact H].
  - left. apply emul_flip_up. eapply lowok_compat; [exact Hm|exact H].
  - right. left. apply emul_flip_up. eapply lowok_compat; [exact Hm|exact H].
  - right. right. right. right. split; [lra|]. unfold czero in *.
    destruct Hz as [Hz|[Hz|[Hz|Hz]]]; [right; left; apply ezero_closed_flip; assumption|left; apply ezero_closed_flip; assumption|tauto|tauto].
Qed.

(* ================================================================== generic scalar intervals *)

Definition qlt (a : Q) (ao : bool) (b : Q) (bo : bool) : bool :=
  match a ?= b with Eq => negb ao && bo | Lt => true | Gt => false end.

Definition alias_ok_i {T} (al : alias) (dst a b : itv T) : Prop :=
  match al with NoAlias => True | AliasA => dst = a | AliasB => dst = b | AliasAB => dst = a /\ dst = b end.
Definition alias1_ok_i {T} (al : alias) (dst a : itv T) : Prop :=
  match al with NoAlias => True | AliasA => dst = a | _ => False end.

Section GenericProofs.
Context {T : Type} (O : sops T) (den : T -> Q) (wfT : T -> Prop).

(* membership of a rational in (the denotation of) an interval *)
Definition Qin (z : Q) (I : itv T) : Prop :=
  if ipt I then den (ia I) == z
  else (den (ia I) < z \/ (den (ia I) == z /\ ia_open I = false)) /\
       (z < den (ib I) \/ (z == den (ib I) /\ ib_open I = false)).

(* data-structure invariant: a point has closed ends and an unused (zero) b field *)
Definition pt_ok (I : itv T) : Prop :=
  ipt I = true -> ia_open I = false /\ ib_open I = false /\ ib I = s_zero O.
Definition iwf (I : itv T) : Prop := wfT (ia I) /\ wfT (ib I) /\ pt_ok I.

(* ---- the dst-free functions *)
Definition gi_add_pure (I1 I2 : itv T) : itv T :=
  if ipt I1 && ipt I2 then gi_point O (s_add O (ia I1) (ia I2))
  else if ipt I2 then mkI (s_add O (ia I1) (ia I2)) (s_add O (ib I1) (ia I2)) (ia_open I1) (ib_open I1) false
  else if ipt I1 then mkI (s_add O (ia I2) (ia I1)) (s_add O (ib I2) (ia I1)) (ia_open I2) (ib_open I2) false
  else mkI (s_add O (ia I1) (ia I2)) (s_add O (ib I1) (ib I2)) (ia_open I1 || ia_open I2) (ib_open I1 || ib_open I2) false.

Definition gi_neg_pure (I : itv T) : itv T :=
  if ipt I then gi_point O (s_neg O (ia I))
  else mkI (s_neg O (ib I)) (s_neg O (ia I)) (ib_open I) (ia_open I) false.

Definition gi_sub_pure (I1 I2 : itv T) : itv T := gi_add_pure I1 (gi_neg_pure I2).

Definition gi_mul_gen (I1 I2 : itv T) : itv T :=
  let c1 := s_mul O (ia I1) (ia I2) in
  let o1 := ia_open I1 || ia_open I2 in
  let st1 := corner_step O (c1, o1, c1, o1) (s_mul O (ia I1) (ib I2)) (ia_open I1 || ib_open I2) in
  let st2 := corner_step O st1 (s_mul O (ib I1) (ia I2)) (ib_open I1 || ia_open I2) in
  let st3 := corner_step O st2 (s_mul O (ib I1) (ib I2)) (ib_open I1 || ib_open I2) in
  let '(ra, rao, rb, rbo) := st3 in
  let cz := closed_zero_end O I1 I2 in
  mkI ra rb (if (s_sgn O ra =? 0)%Z && cz then false else rao) (if (s_sgn O rb =? 0)%Z && cz then false else rbo) false.

Definition gi_mul_pt (P J : itv T) : itv T :=      (* P a point *)
  if ipt J then gi_point O (s_mul O (ia P) (ia J))
  else
    let a_sgn := s_sgn O (ia P) in
    if (a_sgn =? 0)%Z then gi_point O (s_zero O)
    else if (0 <? a_sgn)%Z then mkI (s_mul O (ia P) (ia J)) (s_mul O (ia P) (ib J)) (ia_open J) (ib_open J) false
    else mkI (s_mul O (ia P) (ib J)) (s_mul O (ia P) (ia J)) (ib_open J) (ia_open J) false.

Definition gi_mul_pure (I1 I2 : itv T) : itv T :=
  if ipt I1 then gi_mul_pt I1 I2 else if ipt I2 then gi_mul_pt I2 I1 else gi_mul_gen I1 I2.

Definition gi_pow_pure (I : itv T) (n : N) : itv T :=
  if (n =? 0)%N then gi_point O (s_one O)
  else if ipt I then gi_point O (s_pow O (ia I) n)
  else
    let pa := s_pow O (ia I) n in
    let pb := s_pow O (ib I) n in
    if N.odd n then mkI pa pb (ia_open I) (ib_open I) false
    else
      let sgn := gi_sgn O I in
      if (sgn =? 0)%Z then
        if endpoint_lt O pb (negb (ib_open I)) pa (negb (ia_open I))
        then mkI (s_zero O) pa false (ia_open I) false
        else mkI (s_zero O) pb false (ib_open I) false
      else if (0 <? sgn)%Z then mkI pa pb (ia_open I) (ib_open I) false
      else mkI pb pa (ib_open I) (ia_open I) false.

(* ---- independence of the previous contents of the output operand and of aliasing *)
Ltac crush_dst :=
  repeat match goal with
         | I : itv T |- _ => destruct I
         end; cbn in *;
  repeat match goal with
         | H : ?p = true -> _ |- _ => match type of p with bool => destruct p end
         end; cbn in *;
  repeat match goal with
         | H : true = true -> _ |- _ => specialize (H eq_refl); destruct H as (? & ? & ?); subst
         | H : false = true -> _ |- _ => clear H
         end; cbn in *.

Lemma gi_add_dst al S I1 I2 : alias_ok_i al S I1 I2 -> pt_ok S -> gi_add O al S I1 I2 = gi_add_pure I1 I2.
Proof.
  unfold pt_ok. intros Hal HS.
  destruct al; cbn in Hal; [|subst S|subst S|destruct Hal; subst S; subst I2];
    destruct I1 as [a1 b1 ao1 bo1 p1]; try destruct I2 as [a2 b2 ao2 bo2 p2]; try destruct S as [sa sb sao sbo sp];
    cbn in *; unfold gi_add, gi_add_core, gi_add_pure, gi_point; cbn;
    repeat match goal with
           | |- context [if ?b then _ else _] => is_var b; destruct b; cbn
           | |- context [if negb ?b then _ else _] => is_var b; destruct b; cbn
           end;
    try reflexivity;
    try (destruct HS as (? & ? & ?); [reflexivity|]; subst; reflexivity).
Qed.

Lemma gi_neg_dst al N I : alias1_ok_i al N I -> pt_ok N -> gi_neg O al N I = gi_neg_pure I.
Proof.
  unfold pt_ok. intros Hal HS.
  destruct al; cbn in Hal; try contradiction; [|subst N];
    destruct I as [a1 b1 ao1 bo1 p1]; try destruct N as [sa sb sao sbo sp];
    cbn in *; unfold gi_neg, gi_neg_pure, gi_point; cbn;
    repeat match goal with
           | |- context [if ?b then _ else _] => is_var b; destruct b; cbn
           | |- context [if negb ?b then _ else _] => is_var b; destruct b; cbn
           end;
    try reflexivity;
    try (destruct HS as (? & ? & ?); [reflexivity|]; subst; reflexivity).
Qed.

Lemma gi_neg_pure_pt_ok I : pt_ok (gi_neg_pure I).
Proof. unfold gi_neg_pure, pt_ok, gi_point. destruct (ipt I); cbn; intros; try discriminate; auto. Qed.

Lemma gi_sub_dst al S I1 I2 : alias_ok_i al S I1 I2 -> pt_ok S -> pt_ok I2 -> gi_sub O al S I1 I2 = gi_sub_pure I1 I2.
Proof.
  intros Hal HS H2. unfold gi_sub, gi_sub_pure.
  assert (Hn : forall J, pt_ok J -> gi_neg O AliasA J J = gi_neg_pure J)
    by (intros J HJ; apply gi_neg_dst; [reflexivity|assumption]).
  destruct al; cbn in Hal; cbn [irdB].
  - rewrite Hn by assumption. apply gi_add_dst; [exact I|assumption].
  - subst S. rewrite Hn by assumption. apply gi_add_dst; [reflexivity|assumption].
  - subst S. rewrite Hn by assumption. apply gi_add_dst; [exact I|assumption].
  - destruct Hal; subst S; subst I2. rewrite Hn by assumption. apply gi_add_dst; [reflexivity|assumption].
Qed.

Lemma gi_mul_dst al P I1 I2 : alias_ok_i al P I1 I2 -> pt_ok P -> gi_mul O al P I1 I2 = gi_mul_pure I1 I2.
Proof.
  unfold pt_ok. intros Hal HS.
  destruct al; cbn in Hal; [|subst P|subst P|destruct Hal; subst P; subst I2];
    destruct I1 as [a1 b1 ao1 bo1 p1]; try destruct I2 as [a2 b2 ao2 bo2 p2]; try destruct P as [sa sb sao sbo sp];
    cbn in *; unfold gi_mul, gi_mul_core, gi_mul_pure, gi_mul_pt, gi_mul_gen, gi_point; cbn;
    repeat match goal with
           | |- context [if ?b then _ else _] => is_var b; destruct b; cbn
           | |- context [if negb ?b then _ else _] => is_var b; destruct b; cbn
           end;
    try reflexivity;
    repeat match goal with
           | |- context [if (?x =? 0)%Z then _ else _] => destruct (x =? 0)%Z; cbn
           | |- context [if (0 <? ?x)%Z then _ else _] => destruct (0 <? x)%Z; cbn
           end;
    try reflexivity;
    try (destruct HS as (? & ? & ?); [reflexivity|]; subst; reflexivity).
Qed.

Lemma gi_pow_dst al P I n : alias1_ok_i al P I -> pt_ok P -> gi_pow O al P I n = gi_pow_pure I n.
Proof.
  unfold pt_ok. intros Hal HS.
  destruct al; cbn in Hal; try contradiction; [|subst P];
    destruct I as [a1 b1 ao1 bo1 p1]; try destruct P as [sa sb sao sbo sp];
    cbn in *; unfold gi_pow, gi_pow_pure, gi_point; cbn;
    destruct (n =? 0)%N; cbn;
    repeat match goal with
           | |- context [if ?b then _ else _] => is_var b; destruct b; cbn
           | |- context [if negb ?b then _ else _] => is_var b; destruct b; cbn
           end;
    try reflexivity;
    try (destruct HS as (? & ? & ?); [reflexivity|]; subst; reflexivity);
    destruct (N.odd n); cbn; try reflexivity;
    repeat match goal with
           | |- context [if (?x =? 0)%Z then _ else _] => destruct (x =? 0)%Z; cbn
           | |- context [if (0 <? ?x)%Z then _ else _] => destruct (0 <? x)%Z; cbn
           | |- context [if endpoint_lt ?o ?a ?b ?c ?d then _ else _] => destruct (endpoint_lt o a b c d); cbn
           end;
    try reflexivity.
Qed.

(* ---- semantics: the scalar layer is exact (instantiated below with the C17 theorems) *)
Hypothesis H_zero : wfT (s_zero O) /\ den (s_zero O) == 0.
Hypothesis H_one : wfT (s_one O) /\ den (s_one O) == 1.
Hypothesis H_add : forall a b, wfT a -> wfT b -> wfT (s_add O a b) /\ den (s_add O a b) == den a + den b.
Hypothesis H_neg : forall a, wfT a -> wfT (s_neg O a) /\ den (s_neg O a) == - den a.
Hypothesis H_mul : forall a b, wfT a -> wfT b -> wfT (s_mul O a b) /\ den (s_mul O a b) == den a * den b.
Hypothesis H_pow : forall a n, wfT a -> wfT (s_pow O a n) /\ den (s_pow O a n) == den a ^ Z.of_N n.
Hypothesis H_cmp : forall a b, wfT a -> wfT b -> Z.sgn (s_cmp O a b) = cmp_to_Z (den a ?= den b).
Hypothesis H_sgn : forall a, wfT a -> s_sgn O a = cmp_to_Z (den a ?= 0).

Lemma Qin_compat z z' I : z == z' -> Qin z I -> Qin z' I.
Proof. unfold Qin. intros E. destruct (ipt I); rewrite E; auto. Qed.

Lemma endpoint_lt_spec a ao b bo : wfT a -> wfT b -> endpoint_lt O a ao b bo = qlt (den a) ao (den b) bo.
Proof.
  intros Ha Hb. unfold endpoint_lt, qlt. pose proof (H_cmp a b Ha Hb) as H.
  destruct (den a ?= den b); cbn in H.
  - assert (E : s_cmp O a b = 0%Z) by lia. rewrite E. reflexivity.
  - assert (E : (s_cmp O a b < 0)%Z) by lia.
    destruct (Z.eqb_spec (s_cmp O a b) 0); [lia|]. destruct (Z.ltb_spec (s_cmp O a b) 0); [reflexivity|lia].
  - assert (E : (0 < s_cmp O a b)%Z) by lia.
    destruct (Z.eqb_spec (s_cmp O a b) 0); [lia|]. destruct (Z.ltb_spec (s_cmp O a b) 0); [lia|reflexivity].
Qed.

Lemma sgn_cases a : wfT a ->
  (s_sgn O a = (-1)%Z /\ den a < 0) \/ (s_sgn O a = 0%Z /\ den a == 0) \/ (s_sgn O a = 1%Z /\ 0 < den a).
Proof.
  intros Ha. rewrite (H_sgn a Ha). destruct (Qcompare_spec (den a) 0); cbn; auto.
Qed.

(* ---- add / neg / sub *)
Lemma gi_add_pure_wf I1 I2 : iwf I1 -> iwf I2 -> iwf (gi_add_pure I1 I2).
Proof.
  intros (A1 & B1 & P1) (A2 & B2 & P2). unfold gi_add_pure, iwf, pt_ok, gi_point.
  destruct (ipt I1), (ipt I2); cbn; repeat split; try discriminate; try apply H_add; try apply H_zero; auto.
Qed.

Lemma gi_add_pure_incl I1 I2 x y : iwf I1 -> iwf I2 -> Qin x I1 -> Qin y I2 -> Qin (x + y) (gi_add_pure I1 I2).
Proof.
  intros (A1 & B1 & P1) (A2 & B2 & P2). unfold gi_add_pure, Qin, gi_point.
  destruct (H_add (ia I1) (ia I2) A1 A2) as [_ Eaa]. destruct (H_add (ib I1) (ia I2) B1 A2) as [_ Eba].
  destruct (H_add (ia I2) (ia I1) A2 A1) as [_ Eaa']. destruct (H_add (ib I2) (ia I1) B2 A1) as [_ Eba'].
  destruct (H_add (ib I1) (ib I2) B1 B2) as [_ Ebb].
  destruct (ipt I1), (ipt I2); cbn.
  - intros H1 H2. rewrite Eaa. lra.
  - intros H1 [L U]. rewrite Eaa', Eba'. split.
    + destruct L as [L|[L Lo]]; [left; lra|right; split; [lra|assumption]].
    + destruct U as [U|[U Uo]]; [left; lra|right; split; [lra|assumption]].
  - intros [L U] H2. rewrite Eaa, Eba. split.
    + destruct L as [L|[L Lo]]; [left; lra|right; split; [lra|assumption]].
    + destruct U as [U|[U Uo]]; [left; lra|right; split; [lra|assumption]].
  - intros [L1 U1] [L2 U2]. rewrite Eaa, Ebb. split.
    + destruct L1 as [L1|[L1 Lo1]], L2 as [L2|[L2 Lo2]]; try (left; lra). right. split; [lra|]. rewrite Lo1, Lo2. reflexivity.
    + destruct U1 as [U1|[U1 Uo1]], U2 as [U2|[U2 Uo2]]; try (left; lra). right. split; [lra|]. rewrite Uo1, Uo2. reflexivity.
Qed.

Lemma gi_neg_pure_wf I : iwf I -> iwf (gi_neg_pure I).
Proof.
  intros (A1 & B1 & P1). unfold gi_neg_pure, iwf, pt_ok, gi_point.
  destruct (ipt I); cbn; repeat split; try discriminate; try apply H_neg; try apply H_zero; auto.
Qed.

Lemma gi_neg_pure_incl I x : iwf I -> Qin x I -> Qin (- x) (gi_neg_pure I).
Proof.
  intros (A1 & B1 & P1). unfold gi_neg_pure, Qin, gi_point.
  destruct (H_neg (ia I) A1) as [_ Ea]. destruct (H_neg (ib I) B1) as [_ Eb].
  destruct (ipt I); cbn.
  - intros H. rewrite Ea. lra.
  - intros [L U]. rewrite Ea, Eb. split.
    + destruct U as [U|[U Uo]]; [left; lra|right; split; [lra|assumption]].
    + destruct L as [L|[L Lo]]; [left; lra|right; split; [lra|assumption]].
Qed.

Lemma gi_sub_pure_wf I1 I2 : iwf I1 -> iwf I2 -> iwf (gi_sub_pure I1 I2).
Proof. intros. apply gi_add_pure_wf; [assumption|apply gi_neg_pure_wf; assumption]. Qed.

Lemma gi_sub_pure_incl I1 I2 x y : iwf I1 -> iwf I2 -> Qin x I1 -> Qin y I2 -> Qin (x - y) (gi_sub_pure I1 I2).
Proof.
  intros W1 W2 H1 H2. unfold gi_sub_pure. apply (Qin_compat (x + - y)); [ring|].
  apply gi_add_pure_incl; [assumption|apply gi_neg_pure_wf; assumption|assumption|apply gi_neg_pure_incl; assumption].
Qed.

(* ---- mul: point times interval *)
Lemma gi_mul_pt_wf P J : iwf P -> iwf J -> iwf (gi_mul_pt P J).
Proof.
  intros (A1 & B1 & P1) (A2 & B2 & P2). unfold gi_mul_pt, iwf, pt_ok, gi_point.
  destruct (ipt J); cbn; [repeat split; try apply H_mul; try apply H_zero; auto|].
  destruct (s_sgn O (ia P) =? 0)%Z; cbn; [repeat split; try apply H_zero; auto|].
  destruct (0 <? s_sgn O (ia P))%Z; cbn; repeat split; try discriminate; try apply H_mul; auto.
Qed.

Lemma gi_mul_pt_incl P J x y : iwf P -> iwf J -> ipt P = true -> Qin x P -> Qin y J -> Qin (x * y) (gi_mul_pt P J).
Proof.
  intros (A1 & B1 & P1) (A2 & B2 & P2) Hp. unfold gi_mul_pt, Qin, gi_point. rewrite Hp.
  destruct (H_mul (ia P) (ia J) A1 A2) as [_ Eaa]. destruct (H_mul (ia P) (ib J) A1 B2) as [_ Eab].
  destruct H_zero as [_ E0].
  intros Hx. destruct (ipt J); cbn.
  - intros Hy. rewrite Eaa. rewrite Hx, Hy. reflexivity.
  - intros [L U]. destruct (sgn_cases (ia P) A1) as [[Es Ev]|[[Es Ev]|[Es Ev]]]; rewrite Es; cbn.
    + rewrite Eaa, Eab. split.
      * destruct U as [U|[U Uo]]; [left; nra|right; split; [nra|assumption]].
      * destruct L as [L|[L Lo]]; [left; nra|right; split; [nra|assumption]].
    + rewrite E0. nra.
    + rewrite Eaa, Eab. split.
      * destruct L as [L|[L Lo]]; [left; nra|right; split; [nra|assumption]].
      * destruct U as [U|[U Uo]]; [left; nra|right; split; [nra|assumption]].
Qed.

(* ---- mul: the general case.  Invariant of the running result (ra, rao, rb, rbo) w.r.t. the corner
   products processed so far (value, open flag).  Exc = "the value is 0 and an operand has a closed
   zero end" is the only situation in which the `else if` may leave the upper end open although a
   closed corner attains it; the final zero fix-up closes exactly that. *)
Section MulInv.
Variable Exc : Q -> Prop.
Definition Inv1 (st : T * bool * T * bool) (c : Q * bool) : Prop :=
  let '(ra, rao, rb, rbo) := st in
  den ra <= fst c /\ fst c <= den rb /\
  (fst c == den ra -> snd c = false -> rao = false) /\
  (fst c == den rb -> snd c = false -> rbo = false \/ Exc (fst c)).
Definition Inv (S : list (Q * bool)) (st : T * bool * T * bool) : Prop :=
  let '(ra, rao, rb, rbo) := st in
  wfT ra /\ wfT rb /\ den ra <= den rb /\ Forall (Inv1 st) S.

Lemma Inv_step S st tmp tmpo :
  Inv S st -> wfT tmp ->
  (Forall (fun c => fst c == den tmp /\ snd c = true) S -> tmpo = false -> Exc (den tmp)) ->
  Inv ((den tmp, tmpo) :: S) (corner_step O st tmp tmpo).
Proof.
  destruct st as [[[ra rao] rb] rbo]. intros (Wa & Wb & Hab & HS) Wt Hconf.
  unfold corner_step. rewrite !endpoint_lt_spec by assumption. unfold qlt.
  rewrite Forall_forall in HS.
  assert (Hold : forall ra' rao' rb' rbo',
             (forall c, In c S -> Inv1 (ra, rao, rb, rbo) c -> Inv1 (ra', rao', rb', rbo') c) ->
             wfT ra' -> wfT rb' -> den ra' <= den rb' -> Inv1 (ra', rao', rb', rbo') (den tmp, tmpo) ->
             Inv ((den tmp, tmpo) :: S) (ra', rao', rb', rbo')).
  { intros ra' rao' rb' rbo' Hc W1 W2 Hle Hn. repeat split; try assumption. constructor; [assumption|].
    rewrite Forall_forall. intros c Hin. apply Hc; [assumption|apply HS; assumption]. }
  destruct (Qcompare_spec (den tmp) (den ra)) as [E1|E1|E1].
  - (* same value as the lower end *)
    destruct (negb tmpo && rao) eqn:F1.
    + (* tmp closed, ra open: tmp becomes the lower end; rb is not examined *)
      apply andb_prop in F1. destruct F1 as [F1 F2]. apply negb_true_iff in F1. subst tmpo rao.
      apply Hold; try assumption; [|lra|].
      * intros c _ (C1 & C2 & C3 & C4). cbn. repeat split; try lra; auto.
      * cbn. repeat split; try lra; auto. intros Eb _.
        destruct rbo; [right|left; reflexivity]. apply Hconf; [|reflexivity].
        rewrite Forall_forall. intros c Hc. destruct (HS c Hc) as (C1 & C2 & C3 & C4). split; [lra|].
        destruct (snd c) eqn:Ec; [reflexivity|]. assert (true = false) by (apply C3; [lra|reflexivity]). discriminate.
    + assert (F1' : tmpo = false -> rao = false) by (intros ->; exact F1).
      destruct (Qcompare_spec (den rb) (den tmp)) as [E2|E2|E2].
      * destruct (negb (negb rbo) && negb tmpo) eqn:F2.
        -- apply andb_prop in F2. destruct F2 as [F2 F3]. apply negb_true_iff in F2, F3. apply negb_false_iff in F2. subst rbo tmpo.
           apply Hold; try assumption; [|lra|].
           ++ intros c _ (C1 & C2 & C3 & C4). cbn. repeat split; try lra; auto.
           ++ cbn. repeat split; try lra; auto.
        -- apply Hold; try assumption; [auto|].
           cbn. repeat split; try lra; auto. intros _ ->. left. destruct rbo; [discriminate|reflexivity].
      * apply Hold; try assumption; [|lra|].
        -- intros c _ (C1 & C2 & C3 & C4). cbn. repeat split; try lra; auto; try (intros; lra).
        -- cbn. repeat split; try lra; auto.
      * apply Hold; try assumption; [auto|].
        cbn. repeat split; try lra; auto; try (intros; lra).
  - (* strictly below the lower end *)
    apply Hold; try assumption; [|lra|].
    + intros c _ (C1 & C2 & C3 & C4). cbn. repeat split; try lra; auto; try (intros; lra).
    + cbn. repeat split; try lra; auto; try (intros; lra).
  - (* strictly above the lower end *)
    destruct (Qcompare_spec (den rb) (den tmp)) as [E2|E2|E2].
    + destruct (negb (negb rbo) && negb tmpo) eqn:F2.
      * apply andb_prop in F2. destruct F2 as [F2 F3]. apply negb_true_iff in F2, F3. apply negb_false_iff in F2. subst rbo tmpo.
        apply Hold; try assumption; [|lra|].
        -- intros c _ (C1 & C2 & C3 & C4). cbn. repeat split; try lra; auto.
        -- cbn. repeat split; try lra; auto; try (intros; lra).
      * apply Hold; try assumption; [auto|].
        cbn. repeat split; try lra; auto; try (intros; lra). intros _ ->. left. destruct rbo; [discriminate|reflexivity].
    + apply Hold; try assumption; [|lra|].
      * intros c _ (C1 & C2 & C3 & C4). cbn. repeat split; try lra; auto; try (intros; lra).
      * cbn. repeat split; try lra; auto; try (intros; lra).
    + apply Hold; try assumption; [auto|].
      cbn. repeat split; try lra; intros; lra.
Qed.
End MulInv.

Lemma corner_step_wf st tmp tmpo :
  (let '(ra, _, rb, _) := st in wfT ra /\ wfT rb) -> wfT tmp ->
  (let '(ra, _, rb, _) := corner_step O st tmp tmpo in wfT ra /\ wfT rb).
Proof.
  destruct st as [[[ra rao] rb] rbo]. intros [Wa Wb] Wt. unfold corner_step.
  destruct (endpoint_lt O tmp tmpo ra rao); [auto|]. destruct (endpoint_lt O rb (negb rbo) tmp (negb tmpo)); auto.
Qed.

Lemma closed_zero_end_spec I1 I2 : iwf I1 -> iwf I2 ->
  (closed_zero_end O I1 I2 = true <->
   czero (Fin (den (ia I1))) (Fin (den (ib I1))) (Fin (den (ia I2))) (Fin (den (ib I2)))
         (ia_open I1) (ib_open I1) (ia_open I2) (ib_open I2)).
Proof.
  intros (A1 & B1 & _) (A2 & B2 & _). unfold closed_zero_end, czero, ezero_closed.
  assert (Hs : forall a o, wfT a -> ((s_sgn O a =? 0)%Z && negb o = true <-> den a == 0 /\ o = false)).
  { intros a o Wa. destruct (sgn_cases a Wa) as [[Es Ev]|[[Es Ev]|[Es Ev]]]; rewrite Es; destruct o; cbn; split; try discriminate; try tauto; intros [? ?]; try discriminate; lra. }
  rewrite !orb_true_iff. rewrite !Hs by assumption. tauto.
Qed.

Lemma gi_mul_gen_incl I1 I2 x y : iwf I1 -> iwf I2 -> ipt I1 = false -> ipt I2 = false ->
  Qin x I1 -> Qin y I2 -> Qin (x * y) (gi_mul_gen I1 I2) /\ iwf (gi_mul_gen I1 I2).
Proof.
  intros W1 W2 P1 P2. pose proof (closed_zero_end_spec I1 I2 W1 W2) as Hcz.
  destruct W1 as (A1 & B1 & _), W2 as (A2 & B2 & _).
  unfold Qin. rewrite P1, P2. intros [L1 U1] [L2 U2].
  unfold gi_mul_gen.
  set (cz := closed_zero_end O I1 I2) in *.
  destruct (H_mul _ _ A1 A2) as [Wc1 Ec1]. destruct (H_mul _ _ A1 B2) as [Wc2 Ec2].
  destruct (H_mul _ _ B1 A2) as [Wc3 Ec3]. destruct (H_mul _ _ B1 B2) as [Wc4 Ec4].
  set (c1 := s_mul O (ia I1) (ia I2)) in *. set (c2 := s_mul O (ia I1) (ib I2)) in *.
  set (c3 := s_mul O (ib I1) (ia I2)) in *. set (c4 := s_mul O (ib I1) (ib I2)) in *.
  set (a1 := den (ia I1)) in *. set (b1 := den (ib I1)) in *. set (a2 := den (ia I2)) in *. set (b2 := den (ib I2)) in *.
  set (a1o := ia_open I1) in *. set (b1o := ib_open I1) in *. set (a2o := ia_open I2) in *. set (b2o := ib_open I2) in *.
  set (Exc := fun v : Q => v == 0 /\ cz = true).
  assert (Hlt1 : a1o = true -> a1 < b1) by (intros Ho; destruct L1 as [?|[_ ?]]; [|congruence]; destruct U1 as [?|[? _]]; lra).
  assert (Hlt2 : a2o = true -> a2 < b2) by (intros Ho; destruct L2 as [?|[_ ?]]; [|congruence]; destruct U2 as [?|[? _]]; lra).
  (* the three steps *)
  assert (I0 : Inv Exc [(den c1, a1o || a2o)] (c1, a1o || a2o, c1, a1o || a2o)).
  { repeat split; try assumption; [lra|]. constructor; [|constructor]. cbn. repeat split; try lra; auto. }
  pose proof (Inv_step Exc _ _ c2 (a1o || b2o) I0 Wc2) as I1'.
  assert (S1 : Inv Exc [(den c2, a1o || b2o); (den c1, a1o || a2o)] (corner_step O (c1, a1o || a2o, c1, a1o || a2o) c2 (a1o || b2o))).
  { apply I1'. intros HF Ho. inversion HF as [|? ? [Ev Eo] _]; subst. cbn in Ev, Eo.
    apply orb_false_iff in Ho. destruct Ho as [Ho1 Ho2]. rewrite Ho1 in Eo. cbn in Eo.
    specialize (Hlt2 Eo). assert (Ea : a1 == 0) by nra.
    split; [rewrite Ec2; nra|]. apply Hcz. left. cbn. split; assumption. }
  clear I1'. set (st1 := corner_step O (c1, a1o || a2o, c1, a1o || a2o) c2 (a1o || b2o)) in *.
  pose proof (Inv_step Exc _ _ c3 (b1o || a2o) S1 Wc3) as I2'.
  assert (S2 : Inv Exc [(den c3, b1o || a2o); (den c2, a1o || b2o); (den c1, a1o || a2o)] (corner_step O st1 c3 (b1o || a2o))).
  { apply I2'. intros HF Ho. inversion HF as [|? ? _ HF']; subst. inversion HF' as [|? ? [Ev Eo] _]; subst. cbn in Ev, Eo.
    apply orb_false_iff in Ho. destruct Ho as [Ho1 Ho2]. rewrite Ho2, orb_false_r in Eo.
    specialize (Hlt1 Eo). assert (Ea : a2 == 0) by nra.
    split; [rewrite Ec3; nra|]. apply Hcz. right. right. left. cbn. split; assumption. }
  clear I2'. set (st2 := corner_step O st1 c3 (b1o || a2o)) in *.
  pose proof (Inv_step Exc _ _ c4 (b1o || b2o) S2 Wc4) as I3'.
  assert (S3 : Inv Exc [(den c4, b1o || b2o); (den c3, b1o || a2o); (den c2, a1o || b2o); (den c1, a1o || a2o)] (corner_step O st2 c4 (b1o || b2o))).
  { apply I3'. intros HF Ho. inversion HF as [|? ? _ HF']; subst. inversion HF' as [|? ? [Ev Eo] _]; subst. cbn in Ev, Eo.
    apply orb_false_iff in Ho. destruct Ho as [Ho1 Ho2]. rewrite Ho2, orb_false_r in Eo.
    specialize (Hlt1 Eo). assert (Ea : b2 == 0) by nra.
    split; [rewrite Ec4; nra|]. apply Hcz. right. right. right. cbn. split; assumption. }
  clear I3'. set (st3 := corner_step O st2 c4 (b1o || b2o)) in *.
  destruct st3 as [[[ra rao] rb] rbo]. destruct S3 as (Wra & Wrb & Hab & HS).
  rewrite Forall_forall in HS.
  (* a zero-valued corner exists when an operand has a closed zero end *)
  assert (Hzc : cz = true -> den ra <= 0 /\ 0 <= den rb).
  { intros Hc. apply Hcz in Hc. unfold czero, ezero_closed in Hc.
    destruct Hc as [[Hc _]|[[Hc _]|[[Hc _]|[Hc _]]]].
    - destruct (HS (den c1, a1o || a2o)) as (C1 & C2 & _); [cbn; tauto|]. cbn in C1, C2. rewrite Ec1 in *. nra.
    - destruct (HS (den c3, b1o || a2o)) as (C1 & C2 & _); [cbn; tauto|]. cbn in C1, C2. rewrite Ec3 in *. nra.
    - destruct (HS (den c1, a1o || a2o)) as (C1 & C2 & _); [cbn; tauto|]. cbn in C1, C2. rewrite Ec1 in *. nra.
    - destruct (HS (den c2, a1o || b2o)) as (C1 & C2 & _); [cbn; tauto|]. cbn in C1, C2. rewrite Ec2 in *. nra. }
  assert (Hsa : den ra == 0 -> (s_sgn O ra =? 0)%Z = true)
    by (intros E; destruct (sgn_cases ra Wra) as [[Es Ev]|[[Es Ev]|[Es Ev]]]; rewrite Es; try reflexivity; lra).
  assert (Hsb : den rb == 0 -> (s_sgn O rb =? 0)%Z = true)
    by (intros E; destruct (sgn_cases rb Wrb) as [[Es Ev]|[[Es Ev]|[Es Ev]]]; rewrite Es; try reflexivity; lra).
  split; [|repeat split; try assumption; cbn; discriminate].
  cbn [ipt ia ib ia_open ib_open].
  set (rao' := if (s_sgn O ra =? 0)%Z && cz then false else rao).
  set (rbo' := if (s_sgn O rb =? 0)%Z && cz then false else rbo).
  assert (Hif : forall (b c : bool), c = false -> (if b then false else c) = false) by (intros [] [] ?; auto).
  assert (Hrao : rao = false -> rao' = false) by (apply Hif).
  assert (Hrbo : rbo = false -> rbo' = false) by (apply Hif).
  assert (Low : forall c o, In (den c, o) [(den c4, b1o || b2o); (den c3, b1o || a2o); (den c2, a1o || b2o); (den c1, a1o || a2o)] ->
                 lowok (Fin (den c)) o (x * y) -> den ra < x * y \/ (den ra == x * y /\ rao' = false)).
  { intros c o Hin Hl. destruct (HS _ Hin) as (C1 & C2 & C3 & C4). cbn in C1, C2, C3, C4. cbn in Hl.
    destruct Hl as [Hl|[Hl Ho]]; [left; lra|]. destruct (Qlt_le_dec (den ra) (den c)); [left; lra|].
    right. split; [lra|]. apply Hrao. apply C3; [lra|assumption]. }
  assert (Up : forall c o, In (den c, o) [(den c4, b1o || b2o); (den c3, b1o || a2o); (den c2, a1o || b2o); (den c1, a1o || a2o)] ->
                 upok (Fin (den c)) o (x * y) -> x * y < den rb \/ (x * y == den rb /\ rbo' = false)).
  { intros c o Hin Hl. destruct (HS _ Hin) as (C1 & C2 & C3 & C4). cbn in C1, C2, C3, C4. cbn in Hl.
    destruct Hl as [Hl|[Hl Ho]]; [left; lra|]. destruct (Qlt_le_dec (den c) (den rb)); [left; lra|].
    right. split; [lra|]. destruct C4 as [C4|[C4 C5]]; [lra|assumption|apply Hrbo; assumption|].
    unfold rbo'. rewrite Hsb by lra. rewrite C5. reflexivity. }
  split.
  - destruct (corner_low (Fin a1) (Fin b1) (Fin a2) (Fin b2) a1o b1o a2o b2o x y L1 U1 L2 U2) as [H|[H|[H|[H|[Hz Hc]]]]].
    + apply (Low c1 (a1o || a2o)); [cbn; tauto|]. cbn in H |- *. rewrite Ec1. exact H.
    + apply (Low c2 (a1o || b2o)); [cbn; tauto|]. cbn in H |- *. rewrite Ec2. exact H.
    + apply (Low c3 (b1o || a2o)); [cbn; tauto|]. cbn in H |- *. rewrite Ec3. exact H.
    + apply (Low c4 (b1o || b2o)); [cbn; tauto|]. cbn in H |- *. rewrite Ec4. exact H.
    + apply Hcz in Hc. destruct (Hzc Hc) as [Z1 Z2]. destruct (Qlt_le_dec (den ra) 0); [left; lra|].
      right. split; [lra|]. unfold rao'. rewrite Hsa by lra. rewrite Hc. reflexivity.
  - destruct (corner_up (Fin a1) (Fin b1) (Fin a2) (Fin b2) a1o b1o a2o b2o x y L1 U1 L2 U2) as [H|[H|[H|[H|[Hz Hc]]]]].
    + apply (Up c1 (a1o || a2o)); [cbn; tauto|]. cbn in H |- *. rewrite Ec1. exact H.
    + apply (Up c2 (a1o || b2o)); [cbn; tauto|]. cbn in H |- *. rewrite Ec2. exact H.
    + apply (Up c3 (b1o || a2o)); [cbn; tauto|]. cbn in H |- *. rewrite Ec3. exact H.
    + apply (Up c4 (b1o || b2o)); [cbn; tauto|]. cbn in H |- *. rewrite Ec4. exact H.
    + apply Hcz in Hc. destruct (Hzc Hc) as [Z1 Z2]. destruct (Qlt_le_dec 0 (den rb)); [left; lra|].
      right. split; [lra|]. unfold rbo'. rewrite Hsb by lra. rewrite Hc. reflexivity.
Qed.

Lemma gi_mul_pure_incl I1 I2 x y : iwf I1 -> iwf I2 -> Qin x I1 -> Qin y I2 ->
  Qin (x * y) (gi_mul_pure I1 I2) /\ iwf (gi_mul_pure I1 I2).
Proof.
  intros W1 W2 H1 H2. unfold gi_mul_pure.
  destruct (ipt I1) eqn:P1; [split; [apply gi_mul_pt_incl|apply gi_mul_pt_wf]; assumption|].
  destruct (ipt I2) eqn:P2.
  - split; [|apply gi_mul_pt_wf; assumption]. apply (Qin_compat (y * x)); [ring|]. apply gi_mul_pt_incl; assumption.
  - apply gi_mul_gen_incl; assumption.
Qed.

(* ---- powers in Q *)
Lemma Qpow_succ (x : Q) (n : N) : x ^ Z.of_N (N.succ n) == x * x ^ Z.of_N n.
Proof.
  rewrite N2Z.inj_succ. unfold Z.succ. rewrite Z.add_comm.
  rewrite Qpower_plus' by lia. reflexivity.
Qed.
Lemma Qpow_nonneg (x : Q) (n : N) : 0 <= x -> 0 <= x ^ Z.of_N n.
Proof. intros. apply Qpower_0_le. assumption. Qed.
Lemma Qpow_pos (x : Q) (n : N) : 0 < x -> 0 < x ^ Z.of_N n.
Proof. intros. apply Qpower_0_lt. assumption. Qed.
Lemma Qpow_mono_strict (n : N) : forall a b, 0 <= a -> a < b -> (n <> 0)%N -> a ^ Z.of_N n < b ^ Z.of_N n.
Proof.
  induction n as [|n IH] using N.peano_ind; intros a b Ha Hab Hn; [congruence|].
  rewrite !Qpow_succ. destruct (N.eq_dec n 0) as [->|Hn0].
  - cbn. lra.
  - specialize (IH a b Ha Hab Hn0). pose proof (Qpow_nonneg a n Ha). nra.
Qed.
Lemma Qpow_mono (n : N) a b : 0 <= a -> a <= b -> a ^ Z.of_N n <= b ^ Z.of_N n.
Proof.
  intros Ha Hab. destruct (N.eq_dec n 0) as [->|Hn]; [cbn; lra|].
  destruct (Qlt_le_dec a b) as [H|H]; [apply Qlt_le_weak, Qpow_mono_strict; assumption|].
  assert (E : a == b) by lra. rewrite E. lra.
Qed.
Lemma Qpow_neg (n : N) a : (- a) ^ Z.of_N n == if N.odd n then - (a ^ Z.of_N n) else a ^ Z.of_N n.
Proof.
  induction n as [|n IH] using N.peano_ind; [cbn; reflexivity|].
  rewrite N.odd_succ, <- N.negb_odd.
  destruct (N.odd n); cbn [negb] in *; rewrite (Qpow_succ (- a)), (Qpow_succ a), IH; ring.
Qed.
Lemma Qpow_odd_mono_strict (n : N) a b : N.odd n = true -> a < b -> a ^ Z.of_N n < b ^ Z.of_N n.
Proof.
  intros Ho Hab. assert (Hn : (n <> 0)%N) by (intros ->; discriminate).
  pose proof (Qpow_neg n a) as Na. pose proof (Qpow_neg n b) as Nb. rewrite Ho in Na, Nb.
  destruct (Qlt_le_dec a 0) as [Ha|Ha]; destruct (Qlt_le_dec b 0) as [Hb|Hb].
  - assert (H : (- b) ^ Z.of_N n < (- a) ^ Z.of_N n) by (apply Qpow_mono_strict; [lra|lra|assumption]). lra.
  - pose proof (Qpow_pos (- a) n ltac:(lra)). pose proof (Qpow_nonneg b n Hb). lra.
  - lra.
  - apply Qpow_mono_strict; assumption.
Qed.
Lemma Qpow_even_abs (n : N) a : N.odd n = false -> (- a) ^ Z.of_N n == a ^ Z.of_N n.
Proof. intros Ho. rewrite Qpow_neg, Ho. reflexivity. Qed.
Lemma Qpow_even_nonneg (n : N) a : N.odd n = false -> 0 <= a ^ Z.of_N n.
Proof.
  intros Ho. destruct (Qlt_le_dec a 0); [|apply Qpow_nonneg; assumption].
  rewrite <- (Qpow_even_abs n a Ho). apply Qpow_nonneg. lra.
Qed.
Lemma Qpow_zero (n : N) : (n <> 0)%N -> 0 ^ Z.of_N n == 0.
Proof. intros Hn. destruct n; [congruence|]. cbn. apply Qpower_positive_0. Qed.

(* ---- sgn, contains_zero, contains *)
Lemma gi_sgn_sound I x : iwf I -> Qin x I ->
  ((0 < gi_sgn O I)%Z -> 0 < x) /\ ((gi_sgn O I < 0)%Z -> x < 0) /\ (gi_sgn O I = 0%Z -> Qin 0 I).
Proof.
  intros (A & B & _). unfold Qin, gi_sgn. destruct (ipt I).
  - intros Hx. destruct (sgn_cases (ia I) A) as [[Es Ev]|[[Es Ev]|[Es Ev]]]; rewrite Es; repeat split; intros; try lia; lra.
  - intros [L U].
    destruct (sgn_cases (ia I) A) as [[Es Ev]|[[Es Ev]|[Es Ev]]]; rewrite Es;
    destruct (sgn_cases (ib I) B) as [[Fs Fv]|[[Fs Fv]|[Fs Fv]]]; rewrite Fs; cbn;
    destruct (ia_open I) eqn:Ao, (ib_open I) eqn:Bo; cbn; repeat split; intros; try lia; try lra;
    try (destruct L as [L|[L Lo]]; try discriminate; destruct U as [U|[U Uo]]; try discriminate; try lra;
         first [left; lra|right; split; [lra|reflexivity]]).
Qed.

Lemma gi_contains_zero_spec I : iwf I -> (gi_contains_zero O I = true <-> Qin 0 I).
Proof.
  intros (A & B & _). unfold Qin, gi_contains_zero. destruct (ipt I).
  - destruct (sgn_cases (ia I) A) as [[Es Ev]|[[Es Ev]|[Es Ev]]]; rewrite Es; cbn; split; intros; try discriminate; try lra; reflexivity.
  - destruct (sgn_cases (ia I) A) as [[Es Ev]|[[Es Ev]|[Es Ev]]]; rewrite Es;
    destruct (sgn_cases (ib I) B) as [[Fs Fv]|[[Fs Fv]|[Fs Fv]]]; rewrite Fs;
    destruct (ia_open I), (ib_open I); cbn; split; intros H; try discriminate; try reflexivity;
    try (destruct H as [[L|[L Lo]] [U|[U Uo]]]; try discriminate; lra);
    try (split; first [left; lra|right; split; [lra|reflexivity]]).
Qed.

Lemma cmp_cases a b : wfT a -> wfT b ->
  ((s_cmp O a b < 0)%Z /\ den a < den b) \/ (s_cmp O a b = 0%Z /\ den a == den b) \/ ((0 < s_cmp O a b)%Z /\ den b < den a).
Proof.
  intros Ha Hb. pose proof (H_cmp a b Ha Hb) as H. destruct (Qcompare_spec (den a) (den b)); cbn in H; [right; left|left|right; right]; split; try assumption; lia.
Qed.

Lemma gi_contains_spec I q : iwf I -> wfT q -> (gi_contains O I q = true <-> Qin (den q) I).
Proof.
  intros (A & B & _) Wq. unfold Qin, gi_contains. destruct (ipt I).
  - destruct (cmp_cases (ia I) q A Wq) as [[Es Ev]|[[Es Ev]|[Es Ev]]];
      (split; intros H; [apply Z.eqb_eq in H|apply Z.eqb_eq]); try lra; try lia.
  - destruct (cmp_cases (ia I) q A Wq) as [[Es Ev]|[[Es Ev]|[Es Ev]]];
    destruct (cmp_cases q (ib I) Wq B) as [[Fs Fv]|[[Fs Fv]|[Fs Fv]]];
    destruct (ia_open I), (ib_open I); cbn;
    repeat match goal with
           | |- context [(0 <=? ?z)%Z] => destruct (Z.leb_spec 0 z); try lia
           | |- context [(0 <? ?z)%Z] => destruct (Z.ltb_spec 0 z); try lia
           end; cbn; split; intros Hm; try discriminate; try reflexivity;
    try (destruct Hm as [[L|[L Lo]] [U|[U Uo]]]; try discriminate; lra);
    try (split; first [left; lra|right; split; [lra|reflexivity]]).
Qed.

(* ---- pow *)
Lemma gi_pow_pure_wf I n : iwf I -> iwf (gi_pow_pure I n).
Proof.
  intros (A & B & P). unfold gi_pow_pure, iwf, pt_ok, gi_point.
  destruct (H_pow (ia I) n A) as [Wa _]. destruct (H_pow (ib I) n B) as [Wb _].
  destruct H_zero as [W0 _]. destruct H_one as [W1 _].
  destruct (n =? 0)%N; cbn; [repeat split; auto|].
  destruct (ipt I); cbn; [repeat split; auto|].
  destruct (N.odd n); cbn; [repeat split; auto; discriminate|].
  destruct (gi_sgn O I =? 0)%Z; [destruct (endpoint_lt _ _ _ _ _); cbn; repeat split; auto; discriminate|].
  destruct (0 <? gi_sgn O I)%Z; cbn; repeat split; auto; discriminate.
Qed.

Lemma gi_pow_pure_incl I n x : iwf I -> Qin x I -> Qin (x ^ Z.of_N n) (gi_pow_pure I n).
Proof.
  intros W Hx. pose proof (gi_sgn_sound I x W Hx) as (Sp & Sn & _).
  destruct W as (A & B & P). unfold gi_pow_pure, gi_point.
  destruct (H_pow (ia I) n A) as [Wa Ea]. destruct (H_pow (ib I) n B) as [Wb Eb].
  destruct H_zero as [W0 E0]. destruct H_one as [W1 E1].
  destruct (N.eqb_spec n 0) as [->|Hn].
  { unfold Qin. cbn [ipt ia]. rewrite E1. reflexivity. }
  unfold Qin in Hx. destruct (ipt I) eqn:Pt.
  { unfold Qin. cbn [ipt ia]. rewrite Ea, Hx. reflexivity. }
  destruct Hx as [L U].
  set (a := den (ia I)) in *. set (b := den (ib I)) in *.
  set (pa := s_pow O (ia I) n) in *. set (pb := s_pow O (ib I) n) in *.
  destruct (N.odd n) eqn:Odd.
  { unfold Qin. cbn [ipt ia ib ia_open ib_open]. rewrite Ea, Eb. split.
    - destruct L as [L|[L Lo]]; [left; apply Qpow_odd_mono_strict; assumption|right; split; [rewrite L; reflexivity|assumption]].
    - destruct U as [U|[U Uo]]; [left; apply Qpow_odd_mono_strict; assumption|right; split; [rewrite U; reflexivity|assumption]]. }
  pose proof (Qpow_even_abs n x Odd) as Ax. pose proof (Qpow_even_abs n a Odd) as Aa. pose proof (Qpow_even_abs n b Odd) as Ab.
  destruct (Z.eqb_spec (gi_sgn O I) 0) as [S0|S0].
  - (* [0, max] *)
    assert (Up2 : (x ^ Z.of_N n < b ^ Z.of_N n \/ (x ^ Z.of_N n == b ^ Z.of_N n /\ ib_open I = false)) \/
                  (x ^ Z.of_N n < a ^ Z.of_N n \/ (x ^ Z.of_N n == a ^ Z.of_N n /\ ia_open I = false))).
    { destruct (Qlt_le_dec x 0) as [Hx0|Hx0].
      - right. destruct L as [L|[L Lo]]; [left|right; split; [rewrite L; reflexivity|assumption]].
        rewrite <- Ax, <- Aa. apply Qpow_mono_strict; [lra|lra|assumption].
      - left. destruct U as [U|[U Uo]]; [left|right; split; [rewrite U; reflexivity|assumption]].
        apply Qpow_mono_strict; assumption. }
    pose proof (Qpow_even_nonneg n x Odd) as Nx.
    assert (Lo0 : 0 < x ^ Z.of_N n \/ (0 == x ^ Z.of_N n /\ false = false))
      by (destruct (Qlt_le_dec 0 (x ^ Z.of_N n)); [left; assumption|right; split; [lra|reflexivity]]).
    destruct (endpoint_lt O pb (negb (ib_open I)) pa (negb (ia_open I))) eqn:El;
      rewrite endpoint_lt_spec in El by assumption; unfold qlt in El;
      unfold Qin; cbn [ipt ia ib ia_open ib_open]; rewrite E0; (split; [exact Lo0|]).
    + rewrite Ea. destruct (Qcompare_spec (den pb) (den pa)) as [Ec|Ec|Ec]; try discriminate.
      * apply andb_prop in El. destruct El as [F1 F2]. apply negb_true_iff in F1, F2. apply negb_false_iff in F1.
        destruct Up2 as [[H|[H Ho]]|H]; [left; lra|congruence|exact H].
      * destruct Up2 as [[H|[H Ho]]|H]; [left; lra|left; lra|exact H].
    + rewrite Eb. destruct (Qcompare_spec (den pb) (den pa)) as [Ec|Ec|Ec]; try discriminate.
      * destruct Up2 as [H|[H|[H Ho]]]; [exact H|left; lra|].
        rewrite Ho in El. cbn in El. rewrite andb_true_r in El. apply negb_false_iff in El. apply negb_true_iff in El.
        right. split; [lra|assumption].
      * destruct Up2 as [H|[H|[H Ho]]]; [exact H|left; lra|left; lra].
  - destruct (Z.ltb_spec 0 (gi_sgn O I)) as [S1|S1]; unfold Qin; cbn [ipt ia ib ia_open ib_open]; rewrite Ea, Eb.
    + (* positive interval *)
      specialize (Sp S1).
      assert (Ha0 : 0 <= a).
      { unfold gi_sgn in S1. rewrite Pt in S1.
        destruct (sgn_cases (ia I) A) as [[Es Ev]|[[Es Ev]|[Es Ev]]]; fold a in Ev; try lra.
        exfalso. rewrite Es in S1. destruct (sgn_cases (ib I) B) as [[Fs Fv]|[[Fs Fv]|[Fs Fv]]]; rewrite Fs in S1; cbn in S1;
          try lia; destruct (ib_open I); cbn in S1; lia. }
      split.
      * destruct L as [L|[L Lo]]; [left; apply Qpow_mono_strict; assumption|right; split; [rewrite L; reflexivity|assumption]].
      * destruct U as [U|[U Uo]]; [left; apply Qpow_mono_strict; [lra|assumption|assumption]|right; split; [rewrite U; reflexivity|assumption]].
    + (* negative interval *)
      assert (S2 : (gi_sgn O I < 0)%Z) by lia. specialize (Sn S2).
      assert (Hb0 : b <= 0).
      { unfold gi_sgn in S2. rewrite Pt in S2.
        destruct (sgn_cases (ib I) B) as [[Fs Fv]|[[Fs Fv]|[Fs Fv]]]; fold b in Fv; try lra.
        exfalso. rewrite Fs in S2. destruct (sgn_cases (ia I) A) as [[Es Ev]|[[Es Ev]|[Es Ev]]]; rewrite Es in S2; cbn in S2;
          try lia; destruct (ia_open I); cbn in S2; lia. }
      split.
      * destruct U as [U|[U Uo]]; [left|right; split; [rewrite U; reflexivity|assumption]].
        rewrite <- Ax, <- Ab. apply Qpow_mono_strict; [lra|lra|assumption].
      * destruct L as [L|[L Lo]]; [left|right; split; [rewrite L; reflexivity|assumption]].
        rewrite <- Ax, <- Aa. apply Qpow_mono_strict; [lra|lra|assumption].
Qed.

(* ---- the statements about the C-shaped functions (any previous output contents, any aliasing) *)
Theorem gi_add_correct al S I1 I2 x y : alias_ok_i al S I1 I2 -> pt_ok S -> iwf I1 -> iwf I2 ->
  Qin x I1 -> Qin y I2 -> Qin (x + y) (gi_add O al S I1 I2) /\ iwf (gi_add O al S I1 I2).
Proof. intros. rewrite gi_add_dst by assumption. split; [apply gi_add_pure_incl|apply gi_add_pure_wf]; assumption. Qed.

Theorem gi_neg_correct al S I x : alias1_ok_i al S I -> pt_ok S -> iwf I ->
  Qin x I -> Qin (- x) (gi_neg O al S I) /\ iwf (gi_neg O al S I).
Proof. intros. rewrite gi_neg_dst by assumption. split; [apply gi_neg_pure_incl|apply gi_neg_pure_wf]; assumption. Qed.

Theorem gi_sub_correct al S I1 I2 x y : alias_ok_i al S I1 I2 -> pt_ok S -> iwf I1 -> iwf I2 ->
  Qin x I1 -> Qin y I2 -> Qin (x - y) (gi_sub O al S I1 I2) /\ iwf (gi_sub O al S I1 I2).
Proof.
  intros Hal HS W1 W2 H1 H2. rewrite gi_sub_dst; [|assumption|assumption|apply W2].
  split; [apply gi_sub_pure_incl|apply gi_sub_pure_wf]; assumption.
Qed.

Theorem gi_mul_correct al S I1 I2 x y : alias_ok_i al S I1 I2 -> pt_ok S -> iwf I1 -> iwf I2 ->
  Qin x I1 -> Qin y I2 -> Qin (x * y) (gi_mul O al S I1 I2) /\ iwf (gi_mul O al S I1 I2).
Proof. intros. rewrite gi_mul_dst by assumption. apply gi_mul_pure_incl; assumption. Qed.

Theorem gi_pow_correct al S I n x : alias1_ok_i al S I -> pt_ok S -> iwf I ->
  Qin x I -> Qin (x ^ Z.of_N n) (gi_pow O al S I n) /\ iwf (gi_pow O al S I n).
Proof. intros. rewrite gi_pow_dst by assumption. split; [apply gi_pow_pure_incl|apply gi_pow_pure_wf]; assumption. Qed.

(* exactness on points: the result is the point interval of the exact value *)
Definition is_point_of (I : itv T) (v : Q) : Prop :=
  ipt I = true /\ ia_open I = false /\ ib_open I = false /\ den (ia I) == v.

Theorem gi_point_exact al S I1 I2 n : alias_ok_i al S I1 I2 -> pt_ok S -> iwf I1 -> iwf I2 ->
  ipt I1 = true -> ipt I2 = true ->
  is_point_of (gi_add O al S I1 I2) (den (ia I1) + den (ia I2)) /\
  is_point_of (gi_sub O al S I1 I2) (den (ia I1) - den (ia I2)) /\
  is_point_of (gi_mul O al S I1 I2) (den (ia I1) * den (ia I2)) /\
  is_point_of (gi_pow O (match al with AliasA | AliasAB => AliasA | _ => NoAlias end) S I1 n) (den (ia I1) ^ Z.of_N n) /\
  is_point_of (gi_neg O (match al with AliasA | AliasAB => AliasA | _ => NoAlias end) S I1) (- den (ia I1)).
Proof.
  intros Hal HS (A1 & B1 & Q1) (A2 & B2 & Q2) P1 P2.
  assert (Hal1 : alias1_ok_i (match al with AliasA | AliasAB => AliasA | _ => NoAlias end) S I1)
    by (destruct al; cbn in *; tauto).
  rewrite gi_add_dst, gi_mul_dst, gi_pow_dst, gi_neg_dst by assumption.
  rewrite gi_sub_dst; [|assumption|assumption|assumption].
  unfold gi_sub_pure, gi_add_pure, gi_mul_pure, gi_mul_pt, gi_pow_pure, gi_neg_pure, is_point_of, gi_point.
  rewrite ?P1, ?P2. cbn. rewrite ?P1, ?P2. cbn.
  destruct (H_add _ _ A1 A2) as [_ E1]. destruct (H_mul _ _ A1 A2) as [_ E2]. destruct (H_neg _ A2) as [Wn E3].
  destruct (H_add _ _ A1 Wn) as [_ E4]. destruct (H_pow _ n A1) as [_ E5]. destruct (H_neg _ A1) as [_ E6].
  destruct H_one as [_ E7].
  repeat split; try assumption; try (rewrite E4, E3; ring).
  - destruct (n =? 0)%N; reflexivity.
  - destruct (n =? 0)%N; reflexivity.
  - destruct (n =? 0)%N; reflexivity.
  - destruct (N.eqb_spec n 0) as [->|Hn]; cbn; [rewrite E7; reflexivity|assumption].
Qed.

End GenericProofs.

(* ================================================================== the two instances *)

(* rationals: the scalar hypotheses are the C17 theorems *)
Lemma rat_H_zero : q_wf (s_zero rat_ops) /\ QofR (s_zero rat_ops) == 0.
Proof. split; [split; reflexivity|reflexivity]. Qed.
Lemma rat_H_one : q_wf (s_one rat_ops) /\ QofR (s_one rat_ops) == 1.
Proof. split; [split; reflexivity|reflexivity]. Qed.
Lemma rat_H_add a b : q_wf a -> q_wf b -> q_wf (s_add rat_ops a b) /\ QofR (s_add rat_ops a b) == QofR a + QofR b.
Proof. apply q_add_spec. Qed.
Lemma rat_H_neg a : q_wf a -> q_wf (s_neg rat_ops a) /\ QofR (s_neg rat_ops a) == - QofR a.
Proof. apply q_neg_spec. Qed.
Lemma rat_H_mul a b : q_wf a -> q_wf b -> q_wf (s_mul rat_ops a b) /\ QofR (s_mul rat_ops a b) == QofR a * QofR b.
Proof. apply q_mul_spec. Qed.
Lemma rat_H_pow a n : q_wf a -> q_wf (s_pow rat_ops a n) /\ QofR (s_pow rat_ops a n) == QofR a ^ Z.of_N n.
Proof. apply q_pow_spec. Qed.
Lemma rat_H_cmp a b : q_wf a -> q_wf b -> Z.sgn (s_cmp rat_ops a b) = cmp_to_Z (QofR a ?= QofR b).
Proof. intros Ha Hb. cbn. rewrite (q_cmp_spec a b Ha Hb). destruct (QofR a ?= QofR b); reflexivity. Qed.
Lemma rat_H_sgn a : q_wf a -> s_sgn rat_ops a = cmp_to_Z (QofR a ?= 0).
Proof. apply q_sgn_spec. Qed.

(* dyadics *)
Lemma dy_H_zero : dy_wf (s_zero dy_ops) /\ QofD (s_zero dy_ops) == 0.
Proof. split; [left; split; reflexivity|reflexivity]. Qed.
Lemma dy_H_one : dy_wf (s_one dy_ops) /\ QofD (s_one dy_ops) == 1.
Proof. split; [right; left; reflexivity|reflexivity]. Qed.
Lemma dy_H_add a b : dy_wf a -> dy_wf b -> dy_wf (s_add dy_ops a b) /\ QofD (s_add dy_ops a b) == QofD a + QofD b.
Proof. intros _ _. cbn. rewrite dy_add_dst by exact I. apply dy_add_spec. Qed.
Lemma dy_H_neg a : dy_wf a -> dy_wf (s_neg dy_ops a) /\ QofD (s_neg dy_ops a) == - QofD a.
Proof. intros Ha. cbn. rewrite dy_neg_dst by exact I. apply dy_neg_spec. assumption. Qed.
Lemma dy_H_mul a b : dy_wf a -> dy_wf b -> dy_wf (s_mul dy_ops a b) /\ QofD (s_mul dy_ops a b) == QofD a * QofD b.
Proof. intros _ _. cbn. rewrite dy_mul_dst by exact I. apply dy_mul_spec. Qed.
Lemma dy_H_pow a n : dy_wf a -> dy_wf (s_pow dy_ops a n) /\ QofD (s_pow dy_ops a n) == QofD a ^ Z.of_N n.
Proof. intros Ha. cbn. rewrite dy_pow_dst by exact I. apply dy_pow_spec. assumption. Qed.
Lemma dy_H_cmp a b : dy_wf a -> dy_wf b -> Z.sgn (s_cmp dy_ops a b) = cmp_to_Z (QofD a ?= QofD b).
Proof. intros _ _. apply dy_cmp_spec. Qed.
Lemma dy_H_sgn a : dy_wf a -> s_sgn dy_ops a = cmp_to_Z (QofD a ?= 0).
Proof. intros _. apply dy_sgn_spec. Qed.

Definition rin := Qin QofR.
Definition rwf := iwf rat_ops q_wf.
Definition rpt_ok := pt_ok rat_ops.
Definition din := Qin QofD.
Definition dwf := iwf dy_ops dy_wf.
Definition dpt_ok := pt_ok dy_ops.

Ltac use_rat L :=
  intros; eapply (L rat rat_ops QofR q_wf); eauto using rat_H_zero, rat_H_one, rat_H_add, rat_H_neg, rat_H_mul, rat_H_pow, rat_H_cmp, rat_H_sgn.
Ltac use_dy L :=
  intros; eapply (L dyadic dy_ops QofD dy_wf); eauto using dy_H_zero, dy_H_one, dy_H_add, dy_H_neg, dy_H_mul, dy_H_pow, dy_H_cmp, dy_H_sgn.

Lemma ri_add_correct al S I1 I2 x y : alias_ok_i al S I1 I2 -> rpt_ok S -> rwf I1 -> rwf I2 ->
  rin x I1 -> rin y I2 -> rin (x + y) (ri_add al S I1 I2) /\ rwf (ri_add al S I1 I2).
Proof. use_rat @gi_add_correct. Qed.
Lemma ri_sub_correct al S I1 I2 x y : alias_ok_i al S I1 I2 -> rpt_ok S -> rwf I1 -> rwf I2 ->
  rin x I1 -> rin y I2 -> rin (x - y) (ri_sub al S I1 I2) /\ rwf (ri_sub al S I1 I2).
Proof. use_rat @gi_sub_correct. Qed.
Lemma ri_neg_correct al S I x : alias1_ok_i al S I -> rpt_ok S -> rwf I ->
  rin x I -> rin (- x) (ri_neg al S I) /\ rwf (ri_neg al S I).
Proof. use_rat @gi_neg_correct. Qed.
Lemma ri_mul_correct al S I1 I2 x y : alias_ok_i al S I1 I2 -> rpt_ok S -> rwf I1 -> rwf I2 ->
  rin x I1 -> rin y I2 -> rin (x * y) (ri_mul al S I1 I2) /\ rwf (ri_mul al S I1 I2).
Proof. use_rat @gi_mul_correct. Qed.
Lemma ri_pow_correct al S I n x : alias1_ok_i al S I -> rpt_ok S -> rwf I ->
  rin x I -> rin (x ^ Z.of_N n) (ri_pow al S I n) /\ rwf (ri_pow al S I n).
Proof. use_rat @gi_pow_correct. Qed.

Lemma di_add_correct al S I1 I2 x y : alias_ok_i al S I1 I2 -> dpt_ok S -> dwf I1 -> dwf I2 ->
  din x I1 -> din y I2 -> din (x + y) (di_add al S I1 I2) /\ dwf (di_add al S I1 I2).
Proof. use_dy @gi_add_correct. Qed.
Lemma di_sub_correct al S I1 I2 x y : alias_ok_i al S I1 I2 -> dpt_ok S -> dwf I1 -> dwf I2 ->
  din x I1 -> din y I2 -> din (x - y) (di_sub al S I1 I2) /\ dwf (di_sub al S I1 I2).
Proof. use_dy @gi_sub_correct. Qed.
Lemma di_neg_correct al S I x : alias1_ok_i al S I -> dpt_ok S -> dwf I ->
  din x I -> din (- x) (di_neg al S I) /\ dwf (di_neg al S I).
Proof. use_dy @gi_neg_correct. Qed.
Lemma di_mul_correct al S I1 I2 x y : alias_ok_i al S I1 I2 -> dpt_ok S -> dwf I1 -> dwf I2 ->
  din x I1 -> din y I2 -> din (x * y) (di_mul al S I1 I2) /\ dwf (di_mul al S I1 I2).
Proof. use_dy @gi_mul_correct. Qed.
Lemma di_pow_correct al S I n x : alias1_ok_i al S I -> dpt_ok S -> dwf I ->
  din x I -> din (x ^ Z.of_N n) (di_pow al S I n) /\ dwf (di_pow al S I n).
Proof. use_dy @gi_pow_correct. Qed.

Definition r_is_point_of := is_point_of QofR.
Definition d_is_point_of := is_point_of QofD.
Definition alias_un (al : alias) : alias := match al with AliasA | AliasAB => AliasA | _ => NoAlias end.

Lemma ri_point_exact al S I1 I2 n : alias_ok_i al S I1 I2 -> rpt_ok S -> rwf I1 -> rwf I2 ->
  ipt I1 = true -> ipt I2 = true ->
  r_is_point_of (ri_add al S I1 I2) (QofR (ia I1) + QofR (ia I2)) /\
  r_is_point_of (ri_sub al S I1 I2) (QofR (ia I1) - QofR (ia I2)) /\
  r_is_point_of (ri_mul al S I1 I2) (QofR (ia I1) * QofR (ia I2)) /\
  r_is_point_of (ri_pow (alias_un al) S I1 n) (QofR (ia I1) ^ Z.of_N n) /\
  r_is_point_of (ri_neg (alias_un al) S I1) (- QofR (ia I1)).
Proof. use_rat @gi_point_exact. Qed.
Lemma di_point_exact al S I1 I2 n : alias_ok_i al S I1 I2 -> dpt_ok S -> dwf I1 -> dwf I2 ->
  ipt I1 = true -> ipt I2 = true ->
  d_is_point_of (di_add al S I1 I2) (QofD (ia I1) + QofD (ia I2)) /\
  d_is_point_of (di_sub al S I1 I2) (QofD (ia I1) - QofD (ia I2)) /\
  d_is_point_of (di_mul al S I1 I2) (QofD (ia I1) * QofD (ia I2)) /\
  d_is_point_of (di_pow (alias_un al) S I1 n) (QofD (ia I1) ^ Z.of_N n) /\
  d_is_point_of (di_neg (alias_un al) S I1) (- QofD (ia I1)).
Proof. use_dy @gi_point_exact. Qed.

Lemma ri_sgn_sound I x : rwf I -> rin x I ->
  ((0 < ri_sgn I)%Z -> 0 < x) /\ ((ri_sgn I < 0)%Z -> x < 0) /\ (ri_sgn I = 0%Z -> rin 0 I).
Proof. use_rat @gi_sgn_sound. Qed.
Lemma di_sgn_sound I x : dwf I -> din x I ->
  ((0 < di_sgn I)%Z -> 0 < x) /\ ((di_sgn I < 0)%Z -> x < 0) /\ (di_sgn I = 0%Z -> din 0 I).
Proof. use_dy @gi_sgn_sound. Qed.
Lemma ri_contains_zero_spec I : rwf I -> (ri_contains_zero I = true <-> rin 0 I).
Proof. use_rat @gi_contains_zero_spec. Qed.
Lemma di_contains_zero_spec I : dwf I -> (di_contains_zero I = true <-> din 0 I).
Proof. use_dy @gi_contains_zero_spec. Qed.
Lemma ri_contains_spec I q : rwf I -> q_wf q -> (ri_contains I q = true <-> rin (QofR q) I).
Proof. use_rat @gi_contains_spec. Qed.
Lemma di_contains_spec I q : dwf I -> dy_wf q -> (di_contains I q = true <-> din (QofD q) I).
Proof. use_dy @gi_contains_spec. Qed.

(* ================================================================== value level (lp_interval_t) *)

Definition vden (v : value) : eQ :=
  match v with
  | VMinf => NInf | VPinf => PInf
  | VInt z => Fin (inject_Z z) | VDy d => Fin (QofD d) | VRat q => Fin (QofR q)
  | VNone => Fin 0
  end.
Definition vwf (v : value) : Prop :=
  match v with VNone => False | VRat q => q_wf q | VDy d => dy_wf d | _ => True end.

(* membership of a rational in a value-level interval *)
Definition vin (z : Q) (I : vitv) : Prop :=
  if ipt I then match vden (ia I) with Fin v => v == z | _ => False end
  else lowok (vden (ia I)) (ia_open I) z /\ upok (vden (ib I)) (ib_open I) z.
Definition viwf (I : vitv) : Prop :=
  vwf (ia I) /\ (if ipt I then ia_open I = false /\ ib_open I = false else vwf (ib I)).

Definition eeq (e1 e2 : eQ) : Prop :=
  match e1, e2 with Fin a, Fin b => a == b | NInf, NInf | PInf, PInf => True | _, _ => False end.
Lemma eeq_refl e : eeq e e. Proof. destruct e; cbn; auto. reflexivity. Qed.
Lemma eeq_sym e1 e2 : eeq e1 e2 -> eeq e2 e1. Proof. destruct e1, e2; cbn; auto. intros; symmetry; assumption. Qed.
Lemma eeq_trans e1 e2 e3 : eeq e1 e2 -> eeq e2 e3 -> eeq e1 e3.
Proof. destruct e1, e2, e3; cbn; auto; try tauto. intros; etransitivity; eassumption. Qed.
Lemma lowok_eeq e1 e2 o z : eeq e1 e2 -> lowok e1 o z -> lowok e2 o z.
Proof. destruct e1, e2; cbn; try tauto. intros E. rewrite E. auto. Qed.
Lemma upok_eeq e1 e2 o z : eeq e1 e2 -> upok e1 o z -> upok e2 o z.
Proof. destruct e1, e2; cbn; try tauto. intros E. rewrite E. auto. Qed.

Definition esgn (e : eQ) : Z := match e with NInf => -1 | PInf => 1 | Fin a => cmp_to_Z (a ?= 0) end.

Lemma inject_Z_cmp a b : (inject_Z a ?= inject_Z b) = (a ?= b)%Z.
Proof. unfold Qcompare. cbn. rewrite !Z.mul_1_r. reflexivity. Qed.

Lemma value_sgn_spec v : vwf v -> value_sgn v = esgn (vden v).
Proof.
  destruct v; cbn; try tauto; intros W.
  - change 0 with (inject_Z 0). rewrite inject_Z_cmp. destruct z; reflexivity.
  - apply dy_sgn_spec.
  - apply q_sgn_spec. assumption.
Qed.

Lemma esgn_cases e : (esgn e = (-1)%Z /\ eneg e) \/ (esgn e = 0%Z /\ exists a, e = Fin a /\ a == 0) \/ (esgn e = 1%Z /\ epos e).
Proof.
  destruct e as [|a|]; cbn; auto. destruct (Qcompare_spec a 0); cbn; auto. right. left. split; [reflexivity|]. exists a. split; [reflexivity|assumption].
Qed.

(* lp_interval_sgn *)
Lemma vi_sgn_sound I x : viwf I -> vin x I ->
  ((0 < vi_sgn I)%Z -> 0 < x) /\ ((vi_sgn I < 0)%Z -> x < 0) /\ (vi_sgn I = 0%Z -> vin 0 I).
Proof.
  intros [Wa Wb]. unfold vin, vi_sgn. rewrite (value_sgn_spec _ Wa). destruct (ipt I).
  - destruct (vden (ia I)) as [|a|]; try tauto. cbn. intros Hx.
    destruct (Qcompare_spec a 0); cbn; repeat split; intros; try lia; lra.
  - rewrite (value_sgn_spec _ Wb). intros [L U].
    set (ea := vden (ia I)) in *. set (eb := vden (ib I)) in *. clearbody ea eb.
    destruct ea as [|a|], eb as [|b|]; cbn in *; try tauto;
      try (destruct (Qcompare_spec a 0)); try (destruct (Qcompare_spec b 0)); cbn;
      destruct (ia_open I) eqn:Ao, (ib_open I) eqn:Bo; cbn; repeat split; intros; try lia; try exact I;
      try (destruct L as [L|[L Lo]]; try discriminate); try (destruct U as [U|[U Uo]]; try discriminate); try lra;
      try (first [left; lra|right; split; [lra|reflexivity]]).
Qed.

(* lp_sign_condition_consistent_interval: a `true` answer holds for every point of the interval *)
Definition Qsgn (x : Q) : Z := cmp_to_Z (x ?= 0).

Lemma sc_interval_sound c I x : viwf I -> vin x I ->
  sc_consistent_interval c I = true -> sc_consistent c (Qsgn x) = true.
Proof.
  intros [Wa Wb]. unfold vin, sc_consistent_interval, Qsgn. destruct (ipt I).
  - rewrite (value_sgn_spec _ Wa). destruct (vden (ia I)) as [|a|]; try tauto. cbn. intros Hx. rewrite Hx. auto.
  - rewrite (value_sgn_spec _ Wa), (value_sgn_spec _ Wb). intros [L U].
    set (ea := vden (ia I)) in *. set (eb := vden (ib I)) in *. clearbody ea eb.
    destruct c; destruct ea as [|a|], eb as [|b|]; cbn in *; try tauto;
      try (destruct (Qcompare_spec a 0)); try (destruct (Qcompare_spec b 0)); cbn;
      destruct (ia_open I) eqn:Ao, (ib_open I) eqn:Bo; cbn; intros Hc; try discriminate;
      try (destruct L as [L|[L Lo]]; try discriminate); try (destruct U as [U|[U Uo]]; try discriminate);
      destruct (Qcompare_spec x 0); cbn; try reflexivity; try lra.
Qed.
