(* Meaning of the fuelled loops of the reference algebraic numbers (RefAlg.v) over an arbitrary real closed field:
   comparison of two numbers by refinement, refine-away, floor, ceiling, integrality, negation.
   Every statement: IF the loop answers (does not run out of fuel) THEN the answer is the mathematical one. *)
From Coq Require Import ZArith Lia.
From LP Require Import Scalar UPoly RefAlg.
Set Warnings "-notation-overridden,-ambiguous-paths".
From mathcomp Require Import all_ssreflect all_algebra all_real_closed.
From mathcomp Require Import ssrZ zify ring.
Set Warnings "notation-overridden,ambiguous-paths".
From LP Require Import UPolySpec ScalarProofs RefAlgSpec.
Import GRing.Theory Num.Theory Num.Def Order.TTheory.
Set Implicit Arguments.
Unset Strict Implicit.
Unset Printing Implicit Defensive.
Local Open Scope ring_scope.

Section Loops.
Variable R : rcfType.
Local Notation zr := (@zr R).
Local Notation pr := (@pr R).
Local Notation qr := (@qr R).
Local Notation rn_denotes := (@rn_denotes R).

Lemma zrN (z : Z) : zr (Z.opp z) = - zr z. Proof. exact: (rmorphN (zr_rmorphism R)). Qed.
Local Notation Z1 := (Zpos xH).
Lemma zr1 : zr Z1 = 1. Proof. exact: (rmorph1 (zr_rmorphism R)). Qed.
Lemma zr_le (a b : Z) : (zr a <= zr b) = (Z.leb a b).
Proof. by rewrite /RefAlgSpec.zr ler_int; apply/idP/idP => H; lia. Qed.
Lemma zr_lt (a b : Z) : (zr a < zr b) = (Z.ltb a b).
Proof. by rewrite /RefAlgSpec.zr ltr_int; apply/idP/idP => H; lia. Qed.

Lemma qpos_of_Z (z : Z) : qpos (q_of_Z z). Proof. by []. Qed.
Lemma qr_of_Z (z : Z) : qr (q_of_Z z) = zr z.
Proof. by rewrite /RefAlgSpec.qr /= zr1 divr1. Qed.

Lemma rn_denotes_lo_hi p lo hi v : rn_denotes (RA p lo hi) v -> [/\ qpos lo, qpos hi & qr lo < v < qr hi].
Proof. by case=> [[? ?] ? _ _ _]. Qed.

(* ---- comparison of two numbers by refinement *)
Theorem rn_cmp_loop_spec (fuel : nat) (x y : rnum) (a b : R) (s : Z) :
  rn_denotes x a -> rn_denotes y b -> rn_cmp_loop fuel x y = Some s -> zr s = sgr (a - b).
Proof.
elim: fuel x y => [|f IH] x y //= Hx Hy.
case: x Hx => [qa|p lo hi] Hx.
  case=> <-; case: Hx => Hqa Ea.
  by rewrite zrN (rn_cmp_q_spec Hy Hqa) Ea -sgrN opprB.
case: y Hy => [qb|p' lo' hi'] Hy.
  by case=> <-; case: Hy => Hqb ->; exact: (rn_cmp_q_spec Hx Hqb).
have [Hlo Hhi /andP[loa ahi]] := rn_denotes_lo_hi Hx.
have [Hlo' Hhi' /andP[lob bhi]] := rn_denotes_lo_hi Hy.
rewrite (q_le_spec R Hhi Hlo') (q_le_spec R Hhi' Hlo).
case: ifP => [le1|_].
  case=> <-; rewrite ltr0_sg ?zrN ?zr1 // subr_lt0.
  exact: lt_trans (lt_le_trans ahi le1) lob.
case: ifP => [le2|_].
  case=> <-; rewrite gtr0_sg ?zr1 // subr_gt0.
  exact: lt_trans (lt_le_trans bhi le2) loa.
by apply: IH; exact: rn_refine_spec.
Qed.

(* ---- refine until the interval excludes q *)
Theorem rn_refine_away_spec (fuel : nat) (x x' : rnum) (q : Z * Z) (v : R) :
  rn_denotes x v -> qpos q -> rn_refine_away fuel x q = Some x' ->
  rn_denotes x' v /\
  match x' with RQ _ => Logic.True | RA _ lo hi => qr q <= qr lo \/ qr hi <= qr q end.
Proof.
elim: fuel x => [|f IH] x //= Hx Hq.
case: x Hx => [a|p lo hi] Hx; first by case=> <-.
have [Hlo Hhi _] := rn_denotes_lo_hi Hx.
rewrite (q_le_spec R Hq Hlo) (q_le_spec R Hhi Hq).
case: ifP => [/orP H|_]; first by case=> <-; split.
by apply: IH => //; exact: rn_refine_spec.
Qed.

(* ---- floor *)
Lemma q_floor_bounds (q : Z * Z) : qpos q -> zr (q_floor q) <= qr q < zr (q_floor q) + 1.
Proof.
case: q => n d; rewrite /qpos /q_floor /RefAlgSpec.qr /= => Hd.
have Hd0 : 0 < zr d by exact: zr_gt0.
rewrite ler_pdivl_mulr // ltr_pdivr_mulr // -zr1 -zrD -!zrM zr_le zr_lt.
by apply/andP; split; [apply/Z.leb_le|apply/Z.ltb_lt]; nia.
Qed.

Theorem rn_floor_spec (fuel : nat) (x : rnum) (v : R) (z : Z) :
  rn_denotes x v -> rn_floor fuel x = Some z -> zr z <= v < zr z + 1.
Proof.
elim: fuel x => [|f IH] x //= Hx.
case: x Hx => [q|p lo hi] Hx.
  by case=> <-; case: Hx => Hq ->; exact: q_floor_bounds.
have [Hlo Hhi /andP[lov vhi]] := rn_denotes_lo_hi Hx.
set fl := q_floor lo.
have /andP[fl1 fl2] := q_floor_bounds Hlo; rewrite -/fl in fl1 fl2.
rewrite (q_le_spec R Hhi (qpos_of_Z _)) qr_of_Z zrD zr1.
case: ifP => [hile|_].
  case=> <-; rewrite (le_trans fl1 (ltW lov)) /=.
  exact: lt_le_trans vhi hile.
have := rn_cmp_q_spec Hx (qpos_of_Z (Z.add fl Z1)); rewrite qr_of_Z zrD zr1.
case E: (rn_cmp_q _ _) => [|c|c] Hc.
- case=> <-; move/eqP: Hc; rewrite zr0 eq_sym sgr_eq0 subr_eq0 => /eqP ->.
  by rewrite zrD zr1 lexx ltr_addl ltr01.
- by apply: IH; exact: (rn_refine_spec Hx).
- by apply: IH; exact: (rn_refine_spec Hx).
Qed.

(* the floor is determined: any integer z with z <= v < z + 1 *)
Lemma floor_unique (v : R) (z1 z2 : Z) :
  zr z1 <= v < zr z1 + 1 -> zr z2 <= v < zr z2 + 1 -> z1 = z2.
Proof.
move=> /andP[a1 b1] /andP[a2 b2].
have H1 : zr z1 < zr (Z.add z2 Z1) by rewrite zrD zr1; exact: le_lt_trans a1 b2.
have H2 : zr z2 < zr (Z.add z1 Z1) by rewrite zrD zr1; exact: le_lt_trans a2 b1.
move: H1 H2; rewrite !zr_lt => /Z.ltb_lt H1 /Z.ltb_lt H2; lia.
Qed.

Theorem rn_is_integer_spec (fuel : nat) (x : rnum) (v : R) (b : bool) :
  rn_denotes x v -> rn_is_integer fuel x = Some b -> b = true <-> exists z : Z, v = zr z.
Proof.
move=> Hx; rewrite /rn_is_integer.
case E: (rn_floor fuel x) => [fl|] //; case=> <-.
have /andP[f1 f2] := rn_floor_spec Hx E.
have := rn_cmp_q_spec Hx (qpos_of_Z fl); rewrite qr_of_Z => Hc.
split.
  move/Z.eqb_eq => H0; exists fl; move: Hc; rewrite H0 zr0 => /esym/eqP.
  by rewrite sgr_eq0 subr_eq0 => /eqP.
case=> z Ez.
have Efl : z = fl.
  by apply: (@floor_unique v); rewrite ?f1 ?f2 // Ez lexx ltr_addl ltr01.
apply/Z.eqb_eq; apply: (@zr_inj R); rewrite Hc zr0 Ez Efl subrr.
by rewrite sgr0.
Qed.

Theorem rn_ceiling_spec (fuel : nat) (x : rnum) (v : R) (z : Z) :
  rn_denotes x v -> rn_ceiling fuel x = Some z -> zr z - 1 < v <= zr z.
Proof.
move=> Hx; rewrite /rn_ceiling.
case: x Hx => [q|p lo hi] Hx.
  case=> <-; case: Hx => Hq ->.
  case: q Hq => n d; rewrite /qpos /q_ceiling /RefAlgSpec.qr /= => Hd.
  have Hd0 : 0 < zr d by exact: zr_gt0.
  set c := z_cdiv n d.
  have [H1 H2] : Z.lt (Z.mul (Z.sub c Z1) d) n /\ Z.le n (Z.mul c d).
    by rewrite /c /z_cdiv; nia.
  have -> : zr c - 1 = zr (Z.sub c Z1) by rewrite -zr1 -(rmorphB (zr_rmorphism R)).
  rewrite ltr_pdivl_mulr // ler_pdivr_mulr // -!zrM zr_le zr_lt.
  by apply/andP; split; [apply/Z.ltb_lt|apply/Z.leb_le].
case E: (rn_floor fuel _) => [fl|] //.
have /andP[f1 f2] := rn_floor_spec Hx E.
have := rn_cmp_q_spec Hx (qpos_of_Z fl); rewrite qr_of_Z => Hc.
case: ifP => [/Z.eqb_eq H0|/Z.eqb_neq H0] [<-].
  move: Hc; rewrite H0 zr0 => /esym/eqP; rewrite sgr_eq0 subr_eq0 => /eqP ->.
  by rewrite lexx ltr_subl_addr ltr_addl ltr01.
rewrite zrD zr1 addrK (ltW f2) andbT lt_neqAle f1 andbT.
apply/eqP => Ev; apply: H0; apply: (@zr_inj R); rewrite Hc zr0 -Ev subrr.
by rewrite sgr0.
Qed.

End Loops.
