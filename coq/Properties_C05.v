(* Property C05 - factorizations multiply back and have the promised structure.
   ONLY theorem statements, each closed by `exact` of a lemma from FactorCheckProofs.v / FactorFp.v /
   FactorIrrZ.v / FactorMEval.v / FactorProofs.v, with Print Assumptions beneath, and non-vacuity Examples.

   Denotations:  Poly l : {poly Z}          coefficient list l (low degree first) as a polynomial over Z
                 PQ l   : {poly rat}        the same polynomial over the rationals
                 PF p l : {poly 'F_p}       the list read modulo the prime p
                 uprodP fs / uprodF p fs    prod_i (f_i)^(m_i) for a factor list fs = [(f_i, m_i)]
   Checkers (FactorCheck.v) are run by ocaml/p_c05.ml on what libpoly returned; models (Factor.v) are the
   square-free factorization loops as coded.  Labels: FULL / PARTIAL as in docs/C05.md. *)
From Coq Require Import ZArith List.
From LP Require Import UPoly MPoly FactorCheck Factor.
Set Warnings "-notation-overridden,-ambiguous-paths".
From mathcomp Require Import all_ssreflect all_algebra separable.
From mathcomp Require Import ssrZ zify.
Set Warnings "notation-overridden,ambiguous-paths".
From LP Require Import UPolySpec FactorCheckProofs FactorFp FactorIrrZ FactorMEval FactorProofs.
Import GRing.Theory.
Local Open Scope ring_scope.
Delimit Scope Z_scope with ZZ.
Delimit Scope N_scope with NN.

(* ================================================================== 1. multiply back (checkers, FULL: iff) *)
Theorem C05_multiply_back_Z : forall (c : Z) (fs : ufactors) (input : seq Z),
  mulback_Z c fs input = true <-> c *: uprodP fs = Poly input.
Proof. exact mulback_Z_spec. Qed.
Print Assumptions C05_multiply_back_Z.

Theorem C05_multiply_back_Zp : forall (p : nat), prime p -> forall (c : Z) (fs : ufactors) (input : seq Z),
  mulback_Zp (Z.of_nat p) c fs input = true <-> toFp p c *: uprodF p fs = PF p input.
Proof. exact mulback_Zp_spec. Qed.
Print Assumptions C05_multiply_back_Zp.

(* multivariate: the product of the factors IS the input (canonical term lists), hence equal at every point *)
Theorem C05_multiply_back_M : forall (fs : mfactors) (input : mpoly),
  mulback_M fs input = true -> mprod fs = input.
Proof. exact mulback_M_sound. Qed.
Print Assumptions C05_multiply_back_M.

Theorem C05_multiply_back_M_eval : forall (fs : mfactors) (input : mpoly),
  mulback_M fs input = true -> forall rho : var -> Z, mprod_eval rho fs = mp_eval rho input.
Proof. exact mulback_M_eval. Qed.
Print Assumptions C05_multiply_back_M_eval.

(* evaluation of the reference multivariate polynomials is a ring morphism (what makes the above meaningful) *)
Theorem C05_mp_eval_mul : forall rho p q, mp_eval rho (mp_mul p q) = (mp_eval rho p * mp_eval rho q)%ZZ.
Proof. exact mp_eval_mul. Qed.
Print Assumptions C05_mp_eval_mul.

(* ================================================================== 2. square-free / coprime checkers over Z[x] (FULL, both answers) *)
Theorem C05_coprime_checker_Z_accept : forall f g : seq Z,
  coprime_decide_Z f g = Some true -> coprimep (PQ f) (PQ g).
Proof. exact coprime_decide_Z_true. Qed.
Print Assumptions C05_coprime_checker_Z_accept.

Theorem C05_coprime_checker_Z_reject : forall f g : seq Z,
  coprime_decide_Z f g = Some false -> ~~ coprimep (PQ f) (PQ g).
Proof. exact coprime_decide_Z_false. Qed.
Print Assumptions C05_coprime_checker_Z_reject.

Theorem C05_sqfree_checker_Z_accept : forall f : seq Z,
  sqfree_decide_Z f = Some true -> separable_poly (PQ f).
Proof. exact sqfree_decide_Z_true. Qed.
Print Assumptions C05_sqfree_checker_Z_accept.

Theorem C05_sqfree_checker_Z_reject : forall f : seq Z,
  sqfree_decide_Z f = Some false -> ~~ separable_poly (PQ f).
Proof. exact sqfree_decide_Z_false. Qed.
Print Assumptions C05_sqfree_checker_Z_reject.

(* the certificates themselves: a Bezout identity u*f + v*g = c <> 0 / a common divisor of positive degree *)
Theorem C05_bezout_certificate_Z : forall (f g u v : seq Z) (c : Z),
  coprime_cert_Z f g u v c = true -> coprimep (PQ f) (PQ g).
Proof. exact coprime_cert_Z_sound. Qed.
Print Assumptions C05_bezout_certificate_Z.

(* ================================================================== 3. the same over F_p, every prime p (FULL) *)
Theorem C05_coprime_checker_Zp_accept : forall p, prime p -> forall f g : seq Z,
  coprime_decide_Zp (Z.of_nat p) f g = Some true -> coprimep (PF p f) (PF p g).
Proof. exact coprime_decide_Zp_true. Qed.
Print Assumptions C05_coprime_checker_Zp_accept.

Theorem C05_coprime_checker_Zp_reject : forall p, prime p -> forall f g : seq Z,
  coprime_decide_Zp (Z.of_nat p) f g = Some false -> ~~ coprimep (PF p f) (PF p g).
Proof. exact coprime_decide_Zp_false. Qed.
Print Assumptions C05_coprime_checker_Zp_reject.

Theorem C05_sqfree_checker_Zp_accept : forall p, prime p -> forall f : seq Z,
  sqfree_decide_Zp (Z.of_nat p) f = Some true -> separable_poly (PF p f).
Proof. exact sqfree_decide_Zp_true. Qed.
Print Assumptions C05_sqfree_checker_Zp_accept.

Theorem C05_sqfree_checker_Zp_reject : forall p, prime p -> forall f : seq Z,
  sqfree_decide_Zp (Z.of_nat p) f = Some false -> ~~ separable_poly (PF p f).
Proof. exact sqfree_decide_Zp_false. Qed.
Print Assumptions C05_sqfree_checker_Zp_reject.

(* the bridge is faithful: sizes (degrees) and equality modulo p are those of {poly 'F_p} *)
Theorem C05_size_mod_p : forall p, prime p -> forall l : seq Z, size (PF p l) = psize_p (Z.of_nat p) l.
Proof. exact size_PF. Qed.
Print Assumptions C05_size_mod_p.

Theorem C05_eq_mod_p : forall p, prime p -> forall a b : seq Z,
  reflect (PF p a = PF p b) (peqb_p (Z.of_nat p) a b).
Proof. exact peqb_pP. Qed.
Print Assumptions C05_eq_mod_p.

(* ================================================================== 4. irreducibility over F_p by exhaustive trial division (FULL soundness) *)
Theorem C05_irreducible_Zp_trial_division : forall p, prime p -> forall f : seq Z,
  irreducible_Zp_check (Z.of_nat p) f = true -> irreducible_poly (PF p f).
Proof. exact irreducible_Zp_check_sound. Qed.
Print Assumptions C05_irreducible_Zp_trial_division.

(* one certificate of NON-divisibility: f = quot*q + r, 0 <> r, deg r < deg q *)
Theorem C05_nondivisibility_certificate : forall p, prime p -> forall f q : seq Z,
  nodiv_cert (Z.of_nat p) f q = true -> ~~ (PF p q %| PF p f).
Proof. exact nodiv_cert_sound. Qed.
Print Assumptions C05_nondivisibility_certificate.

(* the moduli of certificates are checked, not assumed *)
Theorem C05_is_prime_checker : forall p : Z,
  is_prime_Z p = true -> prime (Z.to_nat p) /\ p = Z.of_nat (Z.to_nat p).
Proof. exact is_prime_Z_sound. Qed.
Print Assumptions C05_is_prime_checker.

(* ================================================================== 5. irreducibility over Z by degree certificates (FULL soundness, incomplete) *)
Theorem C05_irreducible_Z_degree_certificates : forall (f : seq Z) (certs : seq modcert),
  irred_Z_cert f certs = true ->
  forall g h : {poly Z}, Poly f = g * h -> size g = 1%N \/ size h = 1%N.
Proof. exact irred_Z_cert_sound. Qed.
Print Assumptions C05_irreducible_Z_degree_certificates.

(* ... hence (Gauss' lemma, mathcomp intdiv) irreducible over the rationals *)
Theorem C05_irreducible_Q_degree_certificates : forall (f : seq Z) (certs : seq modcert),
  irred_Z_cert f certs = true -> irreducible_poly (PQ f).
Proof. exact irred_Z_cert_rat. Qed.
Print Assumptions C05_irreducible_Q_degree_certificates.

(* one modular certificate: the degree of any divisor is a sub-sum of the modular factor degrees *)
Theorem C05_divisor_degree_is_subsum : forall (f : seq Z) (mc : modcert) (g h : {poly Z}),
  modcert_ok f mc = true -> Poly f = g * h ->
  List.In (size g).-1 (subsums (cert_degrees (fst mc) (snd mc))).
Proof. exact modcert_degree. Qed.
Print Assumptions C05_divisor_degree_is_subsum.

(* ================================================================== 6. C05.1: the square-free factorization loops as coded (Factor.v) *)
(* the loop invariant  (accumulated product) * P * L^k = const,  for ANY gcd function and any sound exact
   division: the multivariate coefficient_factor_square_free_pp runs the same loop (FULL) *)
Theorem C05_yun_loop_invariant :
  forall (R : comRingType) (T : Type) (den : T -> R)
         (tgcd : T -> T -> T) (tdiv : T -> T -> option T) (tconst : T -> bool) (teqb : T -> T -> bool),
  (forall a b q, tdiv a b = Some q -> den a = den b * den q) ->
  (forall a b, teqb a b = true -> den a = den b) ->
  forall fuel k P L acc acc' P' L' k',
  yun_loop T tgcd tdiv tconst teqb fuel k P L acc = Some (acc', P', L', k') ->
  prodden den acc' * den P' * den L' ^+ k' = prodden den acc * den P * den L ^+ k.
Proof. exact yun_loop_invariant. Qed.
Print Assumptions C05_yun_loop_invariant.

Theorem C05_yun_loop_Z_invariant : forall fuel k P L acc acc' P' L' k',
  yun_loop_Z fuel k P L acc = Some (acc', P', L', k') ->
  uprodP acc' * Poly P' * Poly L' ^+ k' = uprodP acc * Poly P * Poly L ^+ k.
Proof. exact yun_loop_Z_invariant. Qed.
Print Assumptions C05_yun_loop_Z_invariant.

Theorem C05_yun_loop_Zp_invariant : forall p, prime p -> forall fuel k P L acc acc' P' L' k',
  yun_loop_Zp (Z.of_nat p) fuel k P L acc = Some (acc', P', L', k') ->
  uprodF p acc' * PF p P' * PF p L' ^+ k' = uprodF p acc * PF p P * PF p L ^+ k.
Proof. exact yun_loop_Zp_invariant. Qed.
Print Assumptions C05_yun_loop_Zp_invariant.

(* the reference exact division used by the Z model is sound *)
Theorem C05_pdiv_exact_sound : forall a b q : seq Z, pdiv_exact a b = Some q -> Poly a = Poly b * Poly q.
Proof. exact pdiv_exact_sound. Qed.
Print Assumptions C05_pdiv_exact_sound.

(* the char-p branch: f(x) = g(x^p) is g(x)^p over F_p *)
Theorem C05_pth_root : forall p, prime p -> forall f g : seq Z,
  div_degrees p f = Some g -> PF p f = PF p g ^+ p.
Proof. exact div_degrees_spec. Qed.
Print Assumptions C05_pth_root.

(* FULL over Z: lp_upolynomial_factor_square_free as coded (content with sign, x^k split off, Yun loop on the
   primitive part with the reference gcd) multiplies back EXACTLY, for every input and every fuel *)
Theorem C05_factor_square_free_Z_multiply_back : forall fuel f c fs,
  factor_square_free_Z fuel f = Some (c, fs) -> Poly f = c *: uprodP fs.
Proof. exact factor_square_free_Z_multiply_back. Qed.
Print Assumptions C05_factor_square_free_Z_multiply_back.

(* upolynomial_factor_square_free_primitive under its C precondition (primitive, positive leading coefficient) *)
Theorem C05_sqfree_prim_Z_multiply_back : forall fuel f c fs,
  pcontent f = 1%ZZ -> (0 < plc f)%ZZ ->
  sqfree_prim_Z fuel f = Some (c, fs) -> Poly f = c *: uprodP fs.
Proof. exact sqfree_prim_Z_multiply_back. Qed.
Print Assumptions C05_sqfree_prim_Z_multiply_back.

(* ... and without the precondition, up to the constant left in P and L *)
Theorem C05_sqfree_prim_Z_multiply_back_partial : forall fuel f c fs,
  sqfree_prim_Z fuel f = Some (c, fs) -> exists u : Z, Poly f = (u * c) *: uprodP fs.
Proof. exact sqfree_prim_Z_multiply_back_partial. Qed.
Print Assumptions C05_sqfree_prim_Z_multiply_back_partial.

(* the reference gcd has a non-negative leading coefficient (what makes the left-over constant +1) *)
Theorem C05_pgcd_lc_nonneg : forall a b : seq Z, (0 <= plc (pgcd a b))%ZZ.
Proof. exact plc_pgcd_ge0. Qed.
Print Assumptions C05_pgcd_lc_nonneg.

(* PARTIAL over Z_p: both p-th-root branches included; multiplies back up to a constant u of F_p (u = 1 needs
   the modular gcd of the model to be monic, not proved - full statement below) *)
Theorem C05_sqfree_prim_Zp_multiply_back_partial : forall p, prime p -> forall fuel f c fs,
  sqfree_prim_Zp (Z.of_nat p) fuel f = Some (c, fs) -> exists u : 'F_p, PF p f = u *: uprodF p fs.
Proof. exact sqfree_prim_Zp_multiply_back_partial. Qed.
Print Assumptions C05_sqfree_prim_Zp_multiply_back_partial.

Definition C05_sqfree_prim_Zp_multiply_back_full_statement : Prop :=
  forall p, prime p -> forall fuel f c fs, PF p f \is monic ->
  sqfree_prim_Zp (Z.of_nat p) fuel f = Some (c, fs) -> PF p f = toFp p c *: uprodF p fs.
(* and C05.3 (not attempted): the factors returned by the loops are square-free, pairwise coprime and carry
   the right multiplicities - on the implementation's output this is decided by the checkers of section 2/3 *)
Definition C05_yun_structure_full_statement : Prop :=
  forall fuel f c fs, factor_square_free_Z fuel f = Some (c, fs) ->
  (forall g m, List.In (g, m) fs -> separable_poly (PQ g)) /\
  (forall g m h n, List.In (g, m) fs -> List.In (h, n) fs -> g <> h -> coprimep (PQ g) (PQ h)).

(* ================================================================== 7. the repaired Hensel precondition (see History_C05.v for the refutation) *)
Theorem C05_hensel_exact_division_defined : forall (q : Z) (F : seq Z) (As : seq (seq Z)),
  (0 < q)%ZZ -> peqb_p q F (uprod (ones As)) = true ->
  exists D, hensel_D q F As = Some D /\ Poly F = uprodP (ones As) + q *: Poly D.
Proof. exact hensel_D_defined. Qed.
Print Assumptions C05_hensel_exact_division_defined.

(* ================================================================== non-vacuity *)
Local Open Scope Z_scope.
Import ListNotations.
(* 2x^2 - 2 = 2 (x-1)(x+1) *)
Example ex_mulback_Z : mulback_Z 2 [([-1; 1], 1%nat); ([1; 1], 1%nat)] [-2; 0; 2] = true.
Proof. vm_compute. reflexivity. Qed.
(* 3x^7 + 3 = 3 (x+1)^7 over Z_7 *)
Example ex_mulback_Zp : mulback_Zp 7 3 [([1; 1], 7%nat)] [3; 0; 0; 0; 0; 0; 0; 3] = true.
Proof. vm_compute. reflexivity. Qed.
(* (x0 - 1)^2 = x0^2 - 2 x0 + 1 *)
Example ex_mulback_M : mulback_M [([([(0%NN, 1%NN)], 1); ([], -1)], 2%nat)] [([(0%NN, 2%NN)], 1); ([(0%NN, 1%NN)], -2); ([], 1)] = true.
Proof. vm_compute. reflexivity. Qed.
Example ex_sqfree_yes : sqfree_decide_Z [1; 0; 0; 0; 1] = Some true.       (* x^4 + 1 *)
Proof. vm_compute. reflexivity. Qed.
Example ex_sqfree_no : sqfree_decide_Z [1; 2; 1] = Some false.             (* (x+1)^2 *)
Proof. vm_compute. reflexivity. Qed.
Example ex_coprime_yes : coprime_decide_Z [-1; 1] [1; 0; 1] = Some true.
Proof. vm_compute. reflexivity. Qed.
Example ex_coprime_no : coprime_decide_Z [-1; 0; 1] [-1; 0; 0; 1] = Some false.   (* common factor x - 1 *)
Proof. vm_compute. reflexivity. Qed.
Example ex_sqfree_Zp_yes : sqfree_decide_Zp 5 [2; 0; 1] = Some true.
Proof. vm_compute. reflexivity. Qed.
Example ex_sqfree_Zp_no : sqfree_decide_Zp 2 [1; 0; 1] = Some false.       (* x^2 + 1 = (x+1)^2 mod 2 *)
Proof. vm_compute. reflexivity. Qed.
Example ex_irred_Zp : irreducible_Zp_check 2 [1; 1; 0; 0; 1] = true.       (* x^4 + x + 1 over F_2 *)
Proof. vm_compute. reflexivity. Qed.
Example ex_red_Zp : irreducible_Zp_check 2 [1; 0; 1; 0; 1] = false.        (* x^4 + x^2 + 1 = (x^2+x+1)^2 *)
Proof. vm_compute. reflexivity. Qed.
Example ex_prime : is_prime_Z 101 = true /\ is_prime_Z 91 = false.
Proof. vm_compute. auto. Qed.
(* x^4 + x + 1 is irreducible over Z: irreducible modulo 2 *)
Example ex_irred_Z_one_prime : irred_Z_cert [1; 1; 0; 0; 1] [(2, [[1; 1; 0; 0; 1]])] = true.
Proof. vm_compute. reflexivity. Qed.
(* x^4 + 3x + 7 (found by the untrusted search): degrees {1,3} mod 2 and {2,2} mod 3 share no proper sub-sum *)
Example ex_irred_Z_two_primes :
  irred_Z_cert [7; 3; 0; 0; 1] (find_modcerts [7; 3; 0; 0; 1] [2; 3]) = true.
Proof. vm_compute. reflexivity. Qed.
(* the certificate is (necessarily) refused for a reducible polynomial *)
Example ex_irred_Z_refused : irred_Z_cert [-1; 0; 1] (find_modcerts [-1; 0; 1] [3; 5; 7]) = false.
Proof. vm_compute. reflexivity. Qed.
(* -4x^4 + 8x^3 - 4x^2 = -4 (x-1)^2 x^2 *)
Example ex_yun_Z : factor_square_free_Z 20 [0; 0; -4; 8; -4] = Some (-4, [([-1; 1], 2%nat); ([0; 1], 2%nat)]).
Proof. vm_compute. reflexivity. Qed.
(* 3x^8 + 3x = 3 x (x+1)^7 over Z_7: the branch f' = 0 => 7-th root *)
Example ex_yun_Zp : factor_square_free_Zp 7 20 [0; 3; 0; 0; 0; 0; 0; 0; 3] = Some (3, [([1; 1], 7%nat); ([0; 1], 1%nat)]).
Proof. vm_compute. reflexivity. Qed.
(* x^2 (x+1)^3 (x^2+x+1)^2... over Z_2: the branch "P has positive degree at the end" *)
Example ex_yun_Zp_mixed :
  factor_square_free_Zp 2 30 (pmodp 2 (pmul (ppow [1; 1] 3) (ppow [1; 1; 1] 2))) = Some (1, [([1; 1], 3%nat); ([1; 1; 1], 2%nat)]).
Proof. vm_compute. reflexivity. Qed.
Example ex_hensel : hensel_D 3 [-1; 0; 1] [[-1; 1]; [1; 1]] = Some [].
Proof. vm_compute. reflexivity. Qed.
