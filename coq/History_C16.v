(* Regression memory for C16 (DESIGN 2.4): the sign test of lp_polynomial_constraint_resolve_fm as it is in the
   pinned tree, and machine-checked refutations of the property on that faithful model.  The witnesses are in
   corpus/C16.txt and are replayed against the real library on every run. *)
From Coq Require Import ZArith NArith List Bool.
From LP Require Import Scalar MPoly Bounds.
Import ListNotations.
Local Open Scope Z_scope.

(* pinned code:
     if (p1_lc_sgn == p2_lc_sgn) {
       if (p1_sgn == LP_SGN_EQ_0) p2_lc_sgn = -p2_lc_sgn;
       else if (p2_sgn == LP_SGN_EQ_0) p1_lc_sgn = -p1_lc_sgn;
     } else { ok = 0; }
   the `else { ok = 0; }` hangs on the outer `if`: two inequalities whose leading coefficients have the SAME
   sign are accepted, opposite signs (the resolvable case) are refused. *)
Definition fm_stest_prefix (c1 c2 : sgn_cond) (s1 s2 : Z) : option (Z * Z) :=
  if s1 =? s2 then
    match c1, c2 with
    | SgEQ, _ => Some (s1, - s2)
    | _, SgEQ => Some (- s1, s2)
    | _, _ => Some (s1, s2)
    end
  else None.

Definition resolve_fm_prefix := resolve_fm_with fm_stest_prefix.

(* the variables: x0 = 0, x1 = 1; order with x1 on top; the model assigns nothing that matters (numeric
   leading coefficients), so the sign oracle is never consulted *)
Definition h_ord : list var := [1%N; 0%N].
Definition h_x : mpoly := [([(1%N, 1%N)], 1)].
Definition h_p1 : mpoly := [([(1%N, 1%N)], 1); ([], -1)].     (* x - 1 *)
Definition h_p2 : mpoly := [([(1%N, 1%N)], 2); ([], -3)].     (* 2x - 3 *)
Definition h_p3 : mpoly := [([(1%N, 1%N)], -1)].              (* -x *)
Definition h_sgn (q : mpoly) : Z := 0.

(* x - 1 < 0, 2x - 3 < 0 (same signs): the pinned code "succeeds" with R = 4x - 5, which still contains the
   variable that was to be eliminated, and whose value depends on it *)
Theorem C16_fm_prefix_refuted :
  exists sgnM ord p1 c1 p2 c2 x,
    let r := resolve_fm_prefix sgnM ord p1 c1 p2 c2 [] SgNE [] in
    bd_top_var ord p1 = Some x /\ fm_ok r = true /\
    fm_R r = [([(1%N, 1%N)], 4); ([], -5)] /\
    mp_degree x (fm_R r) <> 0%N /\
    mp_eval (fun _ => 0) (fm_R r) <> mp_eval (fun _ => 1) (fm_R r).
Proof.
  exists h_sgn, h_ord, h_p1, SgLT, h_p2, SgLT, 1%N. vm_compute.
  repeat split; discriminate.
Qed.

(* x - 1 < 0, -x < 0 (opposite signs, the resolvable case) is refused by the pinned code, while the repaired
   function derives -1 < 0 *)
Theorem C16_fm_prefix_refuses_resolvable :
  fm_ok (resolve_fm_prefix h_sgn h_ord h_p1 SgLT h_p3 SgLT [] SgNE []) = false /\
  let r := resolve_fm h_sgn h_ord h_p1 SgLT h_p3 SgLT [] SgNE [] in
  fm_ok r = true /\ fm_R r = [([], -1)] /\ fm_cond r = SgLT.
Proof. vm_compute. repeat split. Qed.

(* and the repaired function refuses the same-sign pair *)
Theorem C16_fm_repaired_refuses_same_sign :
  fm_ok (resolve_fm h_sgn h_ord h_p1 SgLT h_p2 SgLT [] SgNE []) = false.
Proof. vm_compute. reflexivity. Qed.
