(* C04 FAITHFUL MODEL: transcription of /repo/src/polynomial/subres.c (the optimised, Ducos-style
   subresultant chain that is compiled by default: UNOPTIMIZED_SUBRESULTANT is not defined), of the dense
   pseudo-remainder loop of coefficient_reduce (REMAINDERING_PSEUDO_DENSE, the mode coefficient_prem uses),
   of the argument swap with parity sign in coefficient_resultant, of the swaps in lp_polynomial_psc /
   lp_polynomial_subres, and of polyxx' discriminant().  Executable, stdlib only, no proofs here.

   Operands: a polynomial in the main variable X is `srpoly` = list of coefficients (mpoly in the other
   variables), LOW degree first, kept normalised (no zero top entry; zero = []).  Coefficient arithmetic is the
   reference arithmetic of MPoly.v (the recursive coefficient_t arithmetic itself is C01's/C02's subject);
   coefficient_div, which libpoly calls only where the quotient is exact, is the exact-division helper
   sr_mp_div_exact below and reports `SrInexact` if a remainder appears. *)
From Coq Require Import ZArith NArith List Bool.
From LP Require Import MPoly.
Import ListNotations.

Inductive sres (A : Type) : Type := SrOk (a : A) | SrNoFuel | SrInexact.
Arguments SrOk {A} a.
Arguments SrNoFuel {A}.
Arguments SrInexact {A}.
Definition sr_bind {A B} (x : sres A) (f : A -> sres B) : sres B :=
  match x with SrOk a => f a | SrNoFuel => SrNoFuel | SrInexact => SrInexact end.
Notation "'do' x <- a ; b" := (sr_bind a (fun x => b)) (at level 200, x name, a at level 100, b at level 200).

(* ---------------------------------------------------------------- exact division in Z[x0, x1, ...] *)
Definition sr_max_var (p : mpoly) : option var :=
  match mp_vars p with [] => None | v :: vs => Some (fold_left N.max vs v) end.

(* a / b when b divides a (b <> 0): long division in the largest variable of b, leading coefficients divided
   recursively; one unit of fuel per nesting level and per division step *)
Fixpoint sr_mp_div_exact (fuel : nat) (a b : mpoly) : sres mpoly :=
  match fuel with
  | O => SrNoFuel
  | S f =>
    match a with
    | [] => SrOk []
    | _ =>
      match sr_max_var b with
      | None =>
        match b with
        | [] => SrInexact
        | (_, c) :: _ =>
          if forallb (fun t => (snd t mod c =? 0)%Z) a then SrOk (mp_divc a c) else SrInexact
        end
      | Some x =>
        let db := mp_degree x b in
        let lb := mp_lc x b in
        (fix loop (g : nat) (r q : mpoly) {struct g} : sres mpoly :=
           match g with
           | O => SrNoFuel
           | S g' =>
             match r with
             | [] => SrOk q
             | _ =>
               let dr := mp_degree x r in
               if (dr <? db)%N then SrInexact else
               do t <- sr_mp_div_exact f (mp_lc x r) lb;
               let tt := mp_mul t (mp_var_pow x (dr - db)) in
               loop g' (mp_sub r (mp_mul tt b)) (mp_add q tt)
             end
           end) (S f) a []
      end
    end
  end.

(* ---------------------------------------------------------------- polynomials in X over mpoly coefficients *)
Definition srpoly := list mpoly.

Fixpoint cp_norm (p : srpoly) : srpoly :=
  match p with
  | [] => []
  | c :: r =>
    match cp_norm r with
    | [] => if mp_is_zero c then [] else [c]
    | r' => c :: r'
    end
  end.
Definition cp_is_zero (p : srpoly) : bool := match p with [] => true | _ => false end.
(* coefficient_degree_safe: 0 for constants and for zero *)
Definition cp_deg (p : srpoly) : nat := pred (length p).
(* coefficient_get_coefficient_safe *)
Definition cp_coeff (p : srpoly) (d : nat) : mpoly := nth d p [].
(* coefficient_lc_safe *)
Definition cp_lc (p : srpoly) : mpoly := cp_coeff p (cp_deg p).
Definition cp_const (c : mpoly) : srpoly := cp_norm [c].

Fixpoint cp_add_raw (p q : srpoly) : srpoly :=
  match p, q with
  | [], _ => q
  | _, [] => p
  | a :: p', b :: q' => mp_add a b :: cp_add_raw p' q'
  end.
Definition cp_add (p q : srpoly) : srpoly := cp_norm (cp_add_raw p q).
Definition cp_neg (p : srpoly) : srpoly := map mp_neg p.
Definition cp_sub (p q : srpoly) : srpoly := cp_add p (cp_neg q).
(* multiplication by a coefficient (a polynomial not containing X) *)
Definition cp_scale (c : mpoly) (p : srpoly) : srpoly := cp_norm (map (mp_mul c) p).
(* coefficient_shl *)
Definition cp_shl (n : nat) (p : srpoly) : srpoly := match p with [] => [] | _ => repeat [] n ++ p end.
(* exact division of every coefficient by c *)
Fixpoint cp_divc (fuel : nat) (p : srpoly) (c : mpoly) : sres srpoly :=
  match p with
  | [] => SrOk []
  | a :: p' => do a' <- sr_mp_div_exact fuel a c; do r <- cp_divc fuel p' c; SrOk (a' :: r)
  end.

(* ---------------------------------------------------------------- coefficient_reduce, REMAINDERING_PSEUDO_DENSE, R only *)
Fixpoint sr_reduce_dense_loop (fuel : nat) (R : srpoly) (R_deg R_deg_prev : nat) (B : srpoly) (B_deg : nat) : sres srpoly :=
  match fuel with
  | O => SrNoFuel
  | S f =>
    let lc_B := cp_lc B in
    (* account for the skipped powers of lc(B) *)
    let R :=
      if (1 <? R_deg_prev - R_deg)%nat then
        let missed := if (R_deg <? B_deg)%nat then (R_deg_prev - B_deg)%nat else (R_deg_prev - R_deg - 1)%nat in
        if (0 <? missed)%nat then cp_scale (mp_pow lc_B missed) R else R
      else R in
    if cp_is_zero R || (R_deg <? B_deg)%nat then SrOk R
    else
      let d := (R_deg - B_deg)%nat in
      let lc_R := cp_lc R in
      (* r = lc(B); b = lc(R) * X^d;  R' = r * R - b * B *)
      let r := lc_B in
      let R' := cp_sub (cp_scale r R) (cp_shl d (cp_scale lc_R B)) in
      sr_reduce_dense_loop f R' (cp_deg R') R_deg B B_deg
  end.
(* coefficient_prem(R, A, B) for A a polynomial in X *)
Definition cp_prem (fuel : nat) (A B : srpoly) : sres srpoly :=
  sr_reduce_dense_loop fuel A (cp_deg A) (cp_deg A) B (cp_deg B).

(* ---------------------------------------------------------------- subres.c *)

(* while ((a << 1) <= n) a <<= 1 *)
Fixpoint sr_grow_a (fuel : nat) (a n : nat) : nat :=
  match fuel with
  | O => a
  | S f => if (2 * a <=? n)%nat then sr_grow_a f (2 * a) n else a
  end.

(* the for(;;) loop of sr_S_e_optimized: state (a, c, n) *)
Fixpoint sr_se_loop (fuel : nat) (a : nat) (c : mpoly) (n : nat) (x y : mpoly) : sres mpoly :=
  match fuel with
  | O => SrNoFuel
  | S f =>
    if (a =? 1)%nat then SrOk c
    else
      let a := Nat.div a 2 in
      do c <- sr_mp_div_exact fuel (mp_mul c c) y;
      if (a <=? n)%nat then
        do c <- sr_mp_div_exact fuel (mp_mul c x) y;
        sr_se_loop f a c (n - a)%nat x y
      else sr_se_loop f a c n x y
  end.

Definition sr_S_e_optimized (fuel : nat) (S_d S_d_1 : srpoly) : sres srpoly :=
  let n := (cp_deg S_d - cp_deg S_d_1 - 1)%nat in
  if (n =? 0)%nat then SrOk S_d_1
  else
    let x := cp_lc S_d_1 in
    let y := cp_lc S_d in
    let a := sr_grow_a fuel 1 n in
    let c := x in
    let n := (n - a)%nat in
    do c <- sr_se_loop fuel a c n x y;
    cp_divc fuel (cp_scale c S_d_1) y.

(* H_j for j = e+1 .. d-1, given H_{j-1}: returns the list H_{e+1} .. H_{d-1} *)
Fixpoint sr_H_loop (fuel : nat) (cnt : nat) (Hprev : srpoly) (e : nat) (S_d_1 : srpoly) (c_d_1 : mpoly) : sres (list srpoly) :=
  match cnt with
  | O => SrOk []
  | S cnt' =>
    let Hj := cp_shl 1 Hprev in
    let pi_e := cp_coeff Hj e in
    do tmp <- cp_divc fuel (cp_scale pi_e S_d_1) c_d_1;
    let Hj := cp_sub Hj tmp in
    do rest <- sr_H_loop fuel cnt' Hj e S_d_1 c_d_1;
    SrOk (Hj :: rest)
  end.

Definition sr_S_e_1_optimized (fuel : nat) (A S_d_1 S_e : srpoly) (s_d : mpoly) : sres srpoly :=
  let d := cp_deg A in
  let e := cp_deg S_d_1 in
  let c_d_1 := cp_lc S_d_1 in
  let s_e := cp_lc S_e in
  (* H_j = s_e X^j for j < e;  H_e = s_e X^e - S_e *)
  let H_low := map (fun j => cp_shl j (cp_const s_e)) (seq 0 e) in
  let H_e := cp_sub (cp_shl e (cp_const s_e)) S_e in
  do H_high <- sr_H_loop fuel (d - 1 - e)%nat H_e e S_d_1 c_d_1;
  let H := H_low ++ [H_e] ++ H_high in
  (* D = sum_{j<d} pi_j(A) H_j / lc(A) *)
  let D := fold_left (fun acc j => cp_add acc (cp_scale (cp_coeff A j) (nth j H []))) (seq 0 d) [] in
  do D <- cp_divc fuel D (cp_lc A);
  (* tmp = X * H_{d-1} *)
  let tmp := cp_shl 1 (nth (d - 1) H []) in
  let result := cp_scale (cp_coeff tmp e) S_d_1 in
  let tmp := cp_add tmp D in
  let tmp := cp_scale c_d_1 tmp in
  let result := cp_sub tmp result in
  do result <- cp_divc fuel result s_d;
  SrOk (if Nat.odd (d - e + 1) then cp_neg result else result).

Fixpoint sr_set_nth {A} (l : list A) (i : nat) (v : A) : list A :=
  match l, i with
  | [], _ => []
  | _ :: t, O => v :: t
  | h :: t, S i' => h :: sr_set_nth t i' v
  end.

(* the for(;;) loop of sr_subres(); S is the output array (Q_deg + 1 entries, as constructed by the caller) *)
Fixpoint sr_subres_loop (fuel : nat) (psc_only : bool) (Q_deg : nat) (A B : srpoly) (s : mpoly) (Sr : list srpoly)
  : sres (list srpoly) :=
  match fuel with
  | O => SrNoFuel
  | S f =>
    let d := cp_deg A in
    let e := cp_deg B in
    if cp_is_zero B then SrOk Sr
    else
      let Sr := sr_set_nth Sr (d - 1) (if psc_only then cp_const (cp_coeff B (d - 1)) else B) in
      let delta := (d - e)%nat in
      do CS <-
        (if (1 <? delta)%nat then
           do C <- (if (d <? Q_deg)%nat then sr_S_e_optimized fuel A B
                    else cp_divc fuel (cp_scale (mp_pow (cp_lc B) (delta - 1)) B) (mp_pow s (delta - 1)));
           SrOk (C, sr_set_nth Sr e (if psc_only then cp_const (cp_coeff C e) else C))
         else SrOk (B, Sr));
      let '(C, Sr) := CS in
      if (e =? 0)%nat then SrOk Sr
      else
        do B' <- sr_S_e_1_optimized fuel A B C s;
        let A' := C in
        let s' := cp_lc A' in
        sr_subres_loop f psc_only Q_deg A' B' s' Sr
  end.

(* sr_subres(ctx, Sr, P, Q, psc_only) for deg P >= deg Q >= 1; S0 = previous contents of the output array *)
Definition sr_subres (fuel : nat) (psc_only : bool) (P Q : srpoly) (S0 : list srpoly) : sres (list srpoly) :=
  let P_deg := cp_deg P in
  let Q_deg := cp_deg Q in
  let s := mp_pow (cp_lc Q) (P_deg - Q_deg) in
  let Sr :=
    if psc_only then sr_set_nth S0 Q_deg (cp_const s)
    else if (Q_deg <? P_deg)%nat then sr_set_nth S0 Q_deg (cp_scale (mp_pow (cp_lc Q) (P_deg - Q_deg - 1)) Q)
    else sr_set_nth S0 Q_deg Q in
  let A := Q in
  do B <- cp_prem fuel P (cp_neg Q);
  sr_subres_loop fuel psc_only Q_deg A B s Sr.

Definition sr_zeros (n : nat) : list srpoly := repeat [] n.

(* lp_polynomial_subres / lp_polynomial_psc: swap (WITHOUT a sign) when deg A < deg B *)
Definition sr_lp_subres (fuel : nat) (A B : srpoly) : sres (list srpoly) :=
  if (cp_deg A <? cp_deg B)%nat then sr_subres fuel false B A (sr_zeros (S (cp_deg A)))
  else sr_subres fuel false A B (sr_zeros (S (cp_deg B))).
Definition sr_lp_psc (fuel : nat) (A B : srpoly) : sres (list srpoly) :=
  if (cp_deg A <? cp_deg B)%nat then sr_subres fuel true B A (sr_zeros (S (cp_deg A)))
  else sr_subres fuel true A B (sr_zeros (S (cp_deg B))).

(* coefficient_resultant: swap with the sign (-1)^(deg A * deg B), then PSC[0] *)
Definition sr_lp_resultant (fuel : nat) (A B : srpoly) : sres srpoly :=
  let A_deg := cp_deg A in
  let B_deg := cp_deg B in
  if (A_deg <? B_deg)%nat then
    do psc <- sr_subres fuel true B A (sr_zeros (S A_deg));
    let r := nth 0 psc [] in
    SrOk (if Nat.odd A_deg && Nat.odd B_deg then cp_neg r else r)
  else
    do psc <- sr_subres fuel true A B (sr_zeros (S B_deg));
    SrOk (nth 0 psc []).

(* polyxx discriminant(p) = div(resultant(p, p'), lc(p)); 1 for degree 1 *)
Definition cp_deriv (p : srpoly) : srpoly :=
  match p with
  | [] => []
  | _ :: p' => cp_norm (map (fun kc => mp_scale (Z.of_nat (S (fst kc))) (snd kc)) (combine (seq 0 (length p')) p'))
  end.
Definition sr_lp_discriminant (fuel : nat) (p : srpoly) : sres srpoly :=
  if (cp_deg p =? 1)%nat then SrOk (cp_const (mp_const 1))
  else do r <- sr_lp_resultant fuel p (cp_deriv p); cp_divc fuel r (cp_lc p).
