(* Executable models of libpoly's polynomial containers (property C20):
     src/polynomial/polynomial_hash_set.c   open-addressing hash set, linear probing, table 64 * 2^k
     src/polynomial/polynomial_heap.c       binary max-heap in an array (1-based index macros)
     src/polynomial/polynomial_vector.c     append-only vector
   Elements are ABSTRACT: Section variables `elem`, `eqb` (lp_polynomial_eq) and a SUPPLIED hash
   `h : elem -> N` (lp_polynomial_hash), so every collision pattern is an instance; the heap's
   comparison callback is the Section variable `cmp : elem -> elem -> Z` (C `int`, only the sign is used).
   The functions mirror the C statement order of the REPAIRED code (fixes/C20-*.patch); the code as
   pinned is kept in History_C20.v with machine-checked refutations.  No proofs in this file.

   Conventions.  A C loop whose trip count depends on data takes `fuel : nat`; `None` means the C
   loop would not terminate (table full / probe cycle), an `assert` of the C code fails, or an array
   is read out of bounds (undefined behaviour in C).  The public operations pass `length (slots s)`
   (the table size) resp. `length a` as fuel: a probe or back-shift that has not stopped after
   visiting every slot never stops in C either. *)
From Coq Require Import ZArith NArith List Bool Arith.
Import ListNotations.

Section Containers.
Variable elem : Type.
Variable eqb : elem -> elem -> bool.      (* lp_polynomial_eq *)
Variable h : elem -> N.                   (* lp_polynomial_hash (size_t) *)
Variable zero : elem.                     (* the zero polynomial (what a moved-from source becomes) *)

(* ------------------------------------------------------------------------------------------- *)
(** * Arrays of slots *)

Definition table := list (option elem).
Definition get (t : table) (i : nat) : option elem := nth i t None.

Fixpoint upd {A : Type} (l : list A) (i : nat) (v : A) : list A :=
  match l, i with
  | [], _ => []
  | _ :: r, O => v :: r
  | x :: r, S i' => x :: upd r i' v
  end.

(* `x & mask` with mask = data_size - 1 *)
Definition andm (len : nat) (x : N) : nat := N.to_nat (N.land x (N.of_nat len - 1)).
Definition home (len : nat) (e : elem) : nat := andm len (h e).
(* `i ++; i &= mask`  /  `(i + 1) & mask` *)
Definition nxt (len : nat) (i : nat) : nat := andm len (N.of_nat i + 1).

(* The probe loop shared by _insert_copy/_insert_swap/_insert_move_check (chk = true),
   _insert_move_no_check (chk = false) and _search/_search_and_remove (chk = true):
     while (data[i] != 0) { if (eq(data[i], p)) return found; i ++; i &= mask; }
   Result: the slot where the loop stopped and whether it stopped on an equal element. *)
Fixpoint probe (fuel : nat) (t : table) (chk : bool) (e : elem) (i : nat) : option (nat * bool) :=
  match fuel with
  | O => None
  | S f =>
    match get t i with
    | None => Some (i, false)
    | Some q => if chk && eqb q e then Some (i, true)
                else probe f t chk e (nxt (length t) i)
    end
  end.

(* ------------------------------------------------------------------------------------------- *)
(** * Hash set *)

Record hset := mkHset {
  slots : table;          (* data[0 .. data_size) *)
  hsize : nat;            (* size *)
  thresh : nat;           (* resize_threshold = (size_t)(data_size * 0.7) *)
  closed : bool }.

Definition default_size : nat := 64.
(* (size_t)(n * 0.7): for n a power of two 0.7n is never an integer and the double product is the
   exactly scaled mantissa of 0.7, so truncation gives floor(7n/10) *)
Definition threshold_of (n : nat) : nat := (n * 7) / 10.

Definition hs_new : hset :=
  mkHset (repeat None default_size) 0 (threshold_of default_size) false.

Definition hs_size (s : hset) : nat := hsize s.
Definition hs_is_empty (s : hset) : bool := hsize s =? 0.

(* lp_polynomial_hash_set_contains: assert(!closed); _search *)
Definition hs_contains (s : hset) (e : elem) : option bool :=
  if closed s then None else
  let t := slots s in
  match probe (length t) t true e (home (length t) e) with
  | None => None
  | Some (_, found) => Some found
  end.

(* lp_polynomial_hash_set_extend: a zeroed table of twice the size, every element re-inserted
   with _insert_move_no_check in slot order *)
Fixpoint rehash (old : table) (new : table) : option table :=
  match old with
  | [] => Some new
  | None :: r => rehash r new
  | Some p :: r =>
    match probe (length new) new false p (home (length new) p) with
    | None => None
    | Some (i, _) => rehash r (upd new i (Some p))
    end
  end.

Definition hs_extend (s : hset) : option hset :=
  let n2 := 2 * length (slots s) in
  match rehash (slots s) (repeat None n2) with
  | None => None
  | Some t => Some (mkHset t (hsize s) (threshold_of n2) (closed s))
  end.

(* lp_polynomial_hash_set_insert / _insert_move / one round of _insert_vector:
   assert(data_size > size); assert(!closed); probe; on success size++ and extend if size > threshold *)
Definition hs_insert (s : hset) (e : elem) : option (hset * bool) :=
  if closed s then None else
  let t := slots s in
  if length t <=? hsize s then None else
  match probe (length t) t true e (home (length t) e) with
  | None => None
  | Some (_, true) => Some (s, false)
  | Some (i, false) =>
    let s1 := mkHset (upd t i (Some e)) (S (hsize s)) (thresh s) (closed s) in
    if thresh s1 <? hsize s1
    then match hs_extend s1 with Some s2 => Some (s2, true) | None => None end
    else Some (s1, true)
  end.

(* _insert_move: as _insert; when inserted the source becomes the zero polynomial, else it is unchanged *)
Definition hs_insert_move (s : hset) (e : elem) : option (hset * bool * elem) :=
  match hs_insert s e with
  | None => None
  | Some (s', r) => Some (s', r, if r then zero else e)
  end.

(* _insert_vector: the elements of the vector one after the other; returns the number inserted *)
Fixpoint hs_insert_list (s : hset) (l : list elem) (cnt : nat) : option (hset * nat) :=
  match l with
  | [] => Some (s, cnt)
  | e :: r =>
    match hs_insert s e with
    | None => None
    | Some (s', b) => hs_insert_list s' r (if b then S cnt else cnt)
    end
  end.

(* is k in the cyclic interval (i, j] ? *)
Definition in_cyc (i j k : nat) : bool :=
  if i <=? j then (i <? k) && (k <=? j) else (i <? k) || (k <=? j).

(* Back-shift deletion for linear probing (REPAIRED: fixes/C20-hash-set.patch).  data[i] is the hole;
     for (;;) { j = (j + 1) & mask;
                if (data[j] == 0) break;
                k = hash(data[j]) & mask;
                if (k cyclically in (i, j]) continue;
                data[i] = data[j]; data[j] = 0; i = j; }                                         *)
Fixpoint backshift (fuel : nat) (t : table) (i j : nat) : option table :=
  match fuel with
  | O => None
  | S f =>
    let j' := nxt (length t) j in
    match get t j' with
    | None => Some t
    | Some q =>
      if in_cyc i j' (home (length t) q) then backshift f t i j'
      else backshift f (upd (upd t i (Some q)) j' None) j' j'
    end
  end.

(* delete the element in slot i and close the gap *)
Definition remove_at (t : table) (i : nat) : option table :=
  backshift (length t) (upd t i None) i i.

(* lp_polynomial_hash_set_remove: assert(!closed); _search_and_remove; size-- when found *)
Definition hs_remove (s : hset) (e : elem) : option (hset * bool) :=
  if closed s then None else
  let t := slots s in
  match probe (length t) t true e (home (length t) e) with
  | None => None
  | Some (_, false) => Some (s, false)
  | Some (i, true) =>
    match remove_at t i with
    | None => None
    | Some t' => Some (mkHset t' (pred (hsize s)) (thresh s) (closed s), true)
    end
  end.

(* lp_polynomial_hash_set_intersect (REPAIRED): slot by slot; an element that is not in `other` is
   deleted with the back-shift, size-- and the same slot is looked at again; otherwise ++i *)
Fixpoint inter_loop (fuel : nat) (t : table) (sz : nat) (other : hset) (i : nat) : option (table * nat) :=
  match fuel with
  | O => None
  | S f =>
    if length t <=? i then Some (t, sz) else
    match get t i with
    | None => inter_loop f t sz other (S i)
    | Some q =>
      match hs_contains other q with
      | None => None
      | Some true => inter_loop f t sz other (S i)
      | Some false =>
        match remove_at t i with
        | None => None
        | Some t' => inter_loop f t' (pred sz) other i
        end
      end
    end
  end.

Definition hs_intersect (s other : hset) : option hset :=
  if closed s then None else
  match inter_loop (2 * length (slots s)) (slots s) (hsize s) other 0 with
  | None => None
  | Some (t, sz) => Some (mkHset t sz (thresh s) (closed s))
  end.

(* lp_polynomial_hash_set_close: for (i = 0, j = 0; j < data_size; ++j) if (data[j]) data[i++] = data[j];
   writes go to slots <= j that have been read already, so reading the unread suffix `rest` of the
   original array is the same as reading the array being written *)
Fixpoint close_loop (t : table) (rest : table) (i : nat) : table :=
  match rest with
  | [] => t
  | None :: r => close_loop t r i
  | Some p :: r => close_loop (upd t i (Some p)) r (S i)
  end.

Definition hs_close (s : hset) : hset :=
  if closed s then s
  else mkHset (close_loop (slots s) (slots s) 0) (hsize s) (thresh s) true.

(* lp_polynomial_hash_set_at: assert(closed); NULL when n >= size.  Outer None = assertion *)
Definition hs_at (s : hset) (n : nat) : option (option elem) :=
  if closed s then Some (if hsize s <=? n then None else get (slots s) n) else None.

(* lp_polynomial_hash_set_clear: destruct + construct *)
Definition hs_clear (s : hset) : hset := hs_new.

(* the stored elements in slot order *)
Fixpoint occ (t : table) : list elem :=
  match t with
  | [] => []
  | None :: r => occ r
  | Some p :: r => p :: occ r
  end.

(** Operation sequences on one set (the argument of Intersect is the list of elements from which
    the `other` set is built by insertion into a new set). *)
Inductive hs_op :=
| OInsert (e : elem) | OInsertMove (e : elem) | OInsertVec (l : list elem)
| ORemove (e : elem) | OContains (e : elem) | OSize
| OIntersect (l : list elem) | OClear | OClose | OAt (n : nat).

Inductive hs_res :=
| RBool (b : bool) | RNat (n : nat) | RUnit | RElem (e : option elem) | RMoved (b : bool) (src : elem).

Definition hs_of_list (l : list elem) : option hset :=
  match hs_insert_list hs_new l 0 with Some (s, _) => Some s | None => None end.

Definition hs_step (s : hset) (o : hs_op) : option (hset * hs_res) :=
  match o with
  | OInsert e => match hs_insert s e with Some (s', b) => Some (s', RBool b) | None => None end
  | OInsertMove e => match hs_insert_move s e with Some (s', b, src) => Some (s', RMoved b src) | None => None end
  | OInsertVec l => if closed s then None else
                    match hs_insert_list s l 0 with Some (s', n) => Some (s', RNat n) | None => None end
  | ORemove e => match hs_remove s e with Some (s', b) => Some (s', RBool b) | None => None end
  | OContains e => match hs_contains s e with Some b => Some (s, RBool b) | None => None end
  | OSize => Some (s, RNat (hs_size s))
  | OIntersect l => match hs_of_list l with
                    | None => None
                    | Some o => match hs_intersect s o with Some s' => Some (s', RUnit) | None => None end
                    end
  | OClear => Some (hs_clear s, RUnit)
  | OClose => Some (hs_close s, RUnit)
  | OAt n => match hs_at s n with Some r => Some (s, RElem r) | None => None end
  end.

Fixpoint hs_run (s : hset) (ops : list hs_op) : option (hset * list hs_res) :=
  match ops with
  | [] => Some (s, [])
  | o :: r =>
    match hs_step s o with
    | None => None
    | Some (s', x) => match hs_run s' r with Some (s'', xs) => Some (s'', x :: xs) | None => None end
    end
  end.

(* ------------------------------------------------------------------------------------------- *)
(** * Heap.  The C macros index 1..size: HEAP_CMP(heap,i,j) = cmp(data[i-1], data[j-1]). *)

Variable cmp : elem -> elem -> Z.          (* the lp_polynomial_heap_compare_f callback *)

Definition hget (a : list elem) (i : nat) : option elem := nth_error a (i - 1).
Definition hcmp (a : list elem) (i j : nat) : option Z :=
  match hget a i, hget a j with Some x, Some y => Some (cmp x y) | _, _ => None end.
Definition hswap (a : list elem) (i j : nat) : list elem :=
  match hget a i, hget a j with
  | Some x, Some y => upd (upd a (i - 1) y) (j - 1) x
  | _, _ => a
  end.

(* for (pos; pos > 1 && HEAP_CMP(heap, pos/2, pos) < 0; pos /= 2) HEAP_SWAP(heap, pos/2, pos);
   (REPAIRED code: the start position is a parameter; push passes heap->size) *)
Fixpoint sift_up (fuel : nat) (a : list elem) (pos : nat) : option (list elem) :=
  match fuel with
  | O => None
  | S f =>
    if pos <=? 1 then Some a else
    match hcmp a (pos / 2) pos with
    | None => None
    | Some c => if (c <? 0)%Z then sift_up f (hswap a (pos / 2) pos) (pos / 2) else Some a
    end
  end.

(* lp_polynomial_heap_heapify_down; `pos` is the 1-based position (the C argument + 1) *)
Fixpoint sift_down (fuel : nat) (a : list elem) (pos : nat) : option (list elem) :=
  match fuel with
  | O => None
  | S f =>
    let n := length a in
    if n <? 2 * pos then Some a else
    let l := 2 * pos in
    let r := 2 * pos + 1 in
    match (if r <=? n then hcmp a l r else Some 0%Z) with
    | None => None
    | Some clr =>
      let o := if (r <=? n) && (clr <? 0)%Z then r else l in
      match hcmp a pos o with
      | None => None
      | Some c => if (0 <=? c)%Z then Some a else sift_down f (hswap a pos o) o
      end
    end
  end.

(* _insert: size++; data[size-1] = p; heapify_up  (capacity doubling by realloc is not modelled) *)
Definition heap_push (a : list elem) (p : elem) : option (list elem) :=
  let a1 := a ++ [p] in sift_up (length a1) a1 (length a1).

Fixpoint heap_push_list (a : list elem) (l : list elem) : option (list elem) :=
  match l with
  | [] => Some a
  | p :: r => match heap_push a p with Some a' => heap_push_list a' r | None => None end
  end.

(* _push_move: as push; the source becomes the zero polynomial *)
Definition heap_push_move (a : list elem) (p : elem) : option (list elem * elem) :=
  match heap_push a p with Some a' => Some (a', zero) | None => None end.

(* data[i] = data[--size]  (i 0-based, on a non-empty array) *)
Definition take_last (a : list elem) (i : nat) : option (list elem) :=
  let n' := length a - 1 in
  match nth_error a n' with
  | None => None
  | Some lst => Some (firstn n' (upd a i lst))
  end.

(* lp_polynomial_heap_pop: NULL on the empty heap; else data[0] is returned, the last element
   moves to the top and is sifted down *)
Definition heap_pop (a : list elem) : option (option elem * list elem) :=
  match a with
  | [] => Some (None, [])
  | top :: _ =>
    match take_last a 0 with
    | None => None
    | Some a1 =>
      match sift_down (length a) a1 1 with
      | None => None
      | Some a2 => Some (Some top, a2)
      end
    end
  end.

Definition heap_peek (a : list elem) : option elem := nth_error a 0.
Definition heap_size (a : list elem) : nat := length a.

(* lp_polynomial_heap_remove (REPAIRED: fixes/C20-heap.patch):
     for (i = 0; i < size; ) {
       if (eq(p, data[i])) { park data[i] behind the end; data[i] = data[--size];
                             if (i < size) { heapify_down(i); heapify_up(i + 1); }  result++; }
       else ++i; }                                                                             *)
Fixpoint remove_loop (fuel : nat) (a : list elem) (p : elem) (i : nat) (cnt : nat) : option (list elem * nat) :=
  match fuel with
  | O => None
  | S f =>
    if length a <=? i then Some (a, cnt) else
    match nth_error a i with
    | None => None
    | Some x =>
      if eqb p x then
        match take_last a i with
        | None => None
        | Some a1 =>
          if i <? length a1 then
            match sift_down (length a) a1 (i + 1) with
            | None => None
            | Some a2 =>
              match sift_up (length a) a2 (i + 1) with
              | None => None
              | Some a3 => remove_loop f a3 p i (S cnt)
              end
            end
          else remove_loop f a1 p i (S cnt)
        end
      else remove_loop f a p (S i) cnt
    end
  end.

Definition heap_remove (a : list elem) (p : elem) : option (list elem * nat) :=
  remove_loop (2 * length a + 1) a p 0 0.

Inductive heap_op := HPush (p : elem) | HPushMove (p : elem) | HPushVec (l : list elem)
                   | HPop | HPeek | HRemove (p : elem) | HSize | HClear.
Inductive heap_res := HRUnit | HRElem (e : option elem) | HRNat (n : nat) | HRMoved (src : elem).

Definition heap_step (a : list elem) (o : heap_op) : option (list elem * heap_res) :=
  match o with
  | HPush p => match heap_push a p with Some a' => Some (a', HRUnit) | None => None end
  | HPushMove p => match heap_push_move a p with Some (a', z) => Some (a', HRMoved z) | None => None end
  | HPushVec l => match heap_push_list a l with Some a' => Some (a', HRUnit) | None => None end
  | HPop => match heap_pop a with Some (r, a') => Some (a', HRElem r) | None => None end
  | HPeek => Some (a, HRElem (heap_peek a))
  | HRemove p => match heap_remove a p with Some (a', n) => Some (a', HRNat n) | None => None end
  | HSize => Some (a, HRNat (heap_size a))
  | HClear => Some ([], HRUnit)
  end.

Fixpoint heap_run (a : list elem) (ops : list heap_op) : option (list elem * list heap_res) :=
  match ops with
  | [] => Some (a, [])
  | o :: r =>
    match heap_step a o with
    | None => None
    | Some (a', x) => match heap_run a' r with Some (a'', xs) => Some (a'', x :: xs) | None => None end
    end
  end.

(* Executable acceptance test for ONE observed heap step against the multiset specification: M is the
   multiset before the step (a list), r the result the implementation returned; the answer is the
   multiset after the step, or None when r is not allowed by the specification.  Used by the model
   driver on the implementation's outputs when ties of `cmp` leave the popped element undetermined.
   (Soundness w.r.t. heap_spec_step: ContainersHeapProofs.heap_check_step_sound.) *)
Fixpoint remove_one (x : elem) (l : list elem) : option (list elem) :=
  match l with
  | [] => None
  | y :: r => if eqb x y then Some r
              else match remove_one x r with Some r' => Some (y :: r') | None => None end
  end.

Definition heap_check_step (M : list elem) (o : heap_op) (r : heap_res) : option (list elem) :=
  match o, r with
  | HPush p, HRUnit => Some (p :: M)
  | HPushMove p, HRMoved z => if eqb z zero then Some (p :: M) else None
  | HPushVec l, HRUnit => Some (l ++ M)
  | HPop, HRElem None => match M with [] => Some [] | _ :: _ => None end
  | HPop, HRElem (Some m) => if forallb (fun x => (0 <=? cmp m x)%Z) M then remove_one m M else None
  | HPeek, HRElem None => match M with [] => Some [] | _ :: _ => None end
  | HPeek, HRElem (Some m) =>
      if existsb (eqb m) M && forallb (fun x => (0 <=? cmp m x)%Z) M then Some M else None
  | HRemove p, HRNat n =>
      if n =? length (filter (eqb p) M) then Some (filter (fun x => negb (eqb p x)) M) else None
  | HSize, HRNat n => if n =? length M then Some M else None
  | HClear, HRUnit => Some []
  | _, _ => None
  end.

(* ------------------------------------------------------------------------------------------- *)
(** * Vector: push_back copies, push_back_move leaves the source zero, at returns a new copy
      (no bounds check in C: reading past size is undefined, None here) *)

Definition vec_push (v : list elem) (p : elem) : list elem := v ++ [p].
Definition vec_push_move (v : list elem) (p : elem) : list elem * elem := (v ++ [p], zero).
Definition vec_at (v : list elem) (i : nat) : option elem := nth_error v i.
Definition vec_size (v : list elem) : nat := length v.
Definition vec_reset (v : list elem) : list elem := [].

Inductive vec_op := VPush (p : elem) | VPushMove (p : elem) | VReset.
Definition vec_step (v : list elem) (o : vec_op) : list elem :=
  match o with VPush p => vec_push v p | VPushMove p => fst (vec_push_move v p) | VReset => vec_reset v end.

End Containers.
