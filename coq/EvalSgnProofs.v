(* C10 proofs, stdlib part: the sign-condition table (hand-written and generated model), the integer core of the
   repaired root lower bound, and coefficient_evaluate_rationals against evaluation over Q.
   The real-number statements (Cauchy bound, exit logic of coefficient_sgn) are in EvalSgnReal.v. *)
From Coq Require Import ZArith NArith List Bool Lia QArith Qcanon.
From LP Require Import Scalar UPoly MPoly EvalSgn EvalSgnScGen.
Import ListNotations.
Local Open Scope Z_scope.
Ltac Zify.zify_post_hook ::= Z.div_mod_to_equations.

(* ================================================================ (b) sign conditions *)
(* the meaning of a sign condition for an integer "sign" s (any C int) *)
Definition sc_holds (c : sign_condition) (s : Z) : Prop :=
  match c with
  | SGN_LT_0 => s < 0 | SGN_LE_0 => s <= 0 | SGN_EQ_0 => s = 0
  | SGN_NE_0 => s <> 0 | SGN_GT_0 => s > 0 | SGN_GE_0 => s >= 0
  end.

Lemma sc_consistent_spec c s : sc_consistent c s = true <-> sc_holds c s.
Proof.
  destruct c; cbn [sc_consistent sc_holds].
  - apply Z.ltb_lt.
  - apply Z.leb_le.
  - apply Z.eqb_eq.
  - rewrite negb_true_iff, Z.eqb_neq. tauto.
  - rewrite Z.gtb_ltb, Z.ltb_lt. lia.
  - rewrite Z.geb_leb, Z.leb_le. lia.
Qed.

Lemma sc_consistent_sgn c s : sc_consistent c s = sc_consistent c (Z.sgn s).
Proof.
  destruct c; cbn [sc_consistent]; destruct s; reflexivity.
Qed.

Lemma sc_negate_complement c s : sc_consistent (sc_negate c) s = negb (sc_consistent c s).
Proof.
  destruct c; cbn [sc_consistent sc_negate]; destruct s; reflexivity.
Qed.

Lemma sc_negate_involutive c : sc_negate (sc_negate c) = c.
Proof. destruct c; reflexivity. Qed.

(* exactly the conditions satisfied by each of the three signs *)
Lemma sc_table :
  map (fun c => sc_consistent c (-1)) sc_all = [true; true; false; true; false; false] /\
  map (fun c => sc_consistent c 0) sc_all = [false; true; true; false; false; true] /\
  map (fun c => sc_consistent c 1) sc_all = [false; false; false; true; true; true].
Proof. repeat split. Qed.

(* the model generated from sign_condition.c of the tree under test is the hand-written one *)
Lemma sc_gen_agrees c s : sc_consistent_gen c s = sc_consistent c s.
Proof. destruct c; reflexivity. Qed.
Lemma sc_negate_gen_agrees c : sc_negate_gen c = sc_negate c.
Proof. destruct c; reflexivity. Qed.

Lemma sc_gen_spec c s : sc_consistent_gen c s = true <-> sc_holds c s.
Proof. rewrite sc_gen_agrees. apply sc_consistent_spec. Qed.

(* ================================================================ (d, integer core) the repaired root lower bound *)
Lemma log2_abs_bounds c : c <> 0 -> 2 ^ (log2_abs c - 1) <= Z.abs c < 2 ^ (log2_abs c).
Proof.
  intros Hc. unfold log2_abs.
  assert (H : 0 < Z.abs c) by lia.
  pose proof (Z.log2_spec (Z.abs c) H) as [H1 H2].
  replace (Z.log2 (Z.abs c) + 1 - 1) with (Z.log2 (Z.abs c)) by lia.
  replace (Z.log2 (Z.abs c) + 1) with (Z.succ (Z.log2 (Z.abs c))) by lia. lia.
Qed.

Lemma log2_abs_pos c : 1 <= log2_abs c.
Proof. unfold log2_abs. pose proof (Z.log2_nonneg (Z.abs c)). lia. Qed.

Lemma max_log_ge l0 rest : l0 <= max_log l0 rest.
Proof.
  unfold max_log. revert l0. induction rest as [|c rest IH]; intros l0; cbn [fold_left]; [lia|].
  destruct (c =? 0); [apply IH|].
  destruct (log2_abs c >? l0) eqn:E.
  - rewrite Z.gtb_ltb, Z.ltb_lt in E. specialize (IH (log2_abs c)). lia.
  - apply IH.
Qed.

Lemma max_log_bounds l0 rest c : In c rest -> c <> 0 -> log2_abs c <= max_log l0 rest.
Proof.
  unfold max_log. revert l0. induction rest as [|d rest IH]; intros l0 Hin Hc; [destruct Hin|].
  cbn [fold_left]. destruct Hin as [->|Hin].
  - apply Z.eqb_neq in Hc. rewrite Hc.
    destruct (log2_abs c >? l0) eqn:E.
    + apply (max_log_ge (log2_abs c) rest).
    + rewrite Z.gtb_ltb, Z.ltb_ge in E. pose proof (max_log_ge l0 rest). unfold max_log in H. lia.
  - destruct (d =? 0); [apply IH; assumption|].
    destruct (log2_abs d >? l0); apply IH; assumption.
Qed.

Lemma pmaxabs_lt_pow rest m : 0 <= m -> (forall c, In c rest -> c <> 0 -> log2_abs c <= m) -> pmaxabs rest < 2 ^ m.
Proof.
  intros Hm. induction rest as [|c rest IH]; intros H; cbn [pmaxabs fold_right].
  - apply Z.pow_pos_nonneg; lia.
  - fold (pmaxabs rest). assert (IH' : pmaxabs rest < 2 ^ m) by (apply IH; intros; apply H; [right|]; assumption).
    apply Z.max_lub_lt; [|assumption].
    destruct (Z.eq_dec c 0) as [->|Hc]; [cbn; apply Z.pow_pos_nonneg; lia|].
    pose proof (log2_abs_bounds c Hc) as [_ H2].
    specialize (H c (or_introl eq_refl) Hc).
    eapply Z.lt_le_trans; [exact H2|]. apply Z.pow_le_mono_r; lia.
Qed.

Lemma pmaxabs_ge rest c : In c rest -> Z.abs c <= pmaxabs rest.
Proof.
  induction rest as [|d rest IH]; intros Hin; [destruct Hin|].
  cbn [pmaxabs fold_right]. fold (pmaxabs rest). destruct Hin as [->|Hin]; [lia|]. specialize (IH Hin). lia.
Qed.

Lemma strip_zeros_head p c0 rest : strip_zeros p = c0 :: rest -> c0 <> 0.
Proof.
  induction p as [|c q IH]; cbn [strip_zeros]; [discriminate|].
  destruct (c =? 0) eqn:E; [exact IH|]. intros H; injection H as -> _. apply Z.eqb_neq; assumption.
Qed.

(* the coded exponent k = root_lower_bound B satisfies  |c0| + max|c_i| <= 2^k |c0|,  i.e.
   2^-k <= |c0| / (|c0| + max|c_i|)  (the Cauchy lower bound for the non-zero roots) *)
Lemma root_lower_bound_int B c0 rest :
  strip_zeros B = c0 :: rest ->
  2 <= root_lower_bound B /\ Z.abs c0 + pmaxabs rest <= 2 ^ (root_lower_bound B) * Z.abs c0.
Proof.
  intros HB. pose proof (strip_zeros_head _ _ _ HB) as Hc0.
  unfold root_lower_bound, root_lower_bound_off. rewrite HB.
  set (l0 := log2_abs c0). set (m := max_log l0 rest).
  pose proof (max_log_ge l0 rest) as Hge. fold m in Hge.
  pose proof (log2_abs_pos c0) as Hl0. fold l0 in Hl0.
  split; [lia|].
  assert (Hmax : pmaxabs rest < 2 ^ m).
  { apply pmaxabs_lt_pow; [lia|]. intros c Hin Hc. apply max_log_bounds; assumption. }
  pose proof (log2_abs_bounds c0 Hc0) as [Hlo _]. fold l0 in Hlo.
  replace (m - l0 + 2) with ((m - l0 + 1) + 1) by lia.
  rewrite Z.pow_add_r by lia. change (2 ^ 1) with 2.
  assert (Hsplit : 2 ^ m = 2 ^ (m - l0 + 1) * 2 ^ (l0 - 1)).
  { rewrite <- Z.pow_add_r by lia. f_equal. lia. }
  assert (Hp : 1 <= 2 ^ (m - l0 + 1)) by (apply (Z.pow_le_mono_r 2 0); lia).
  nia.
Qed.

(* the pre-repair exponent (offset 1) is one less *)
Lemma root_lower_bound_off_shift B : strip_zeros B <> [] -> root_lower_bound_off 1 B = root_lower_bound B - 1.
Proof.
  unfold root_lower_bound, root_lower_bound_off. destruct (strip_zeros B); [congruence|]. intros _. lia.
Qed.

(* ================================================================ (c, integer core) membership in the interval (-1/2^k, 1/2^k) *)
Lemma contains_L_int k q : ri_contains_q (L_interval k) q = true -> Z.abs (fst q) * 2 ^ k < snd q.
Proof.
  unfold ri_contains_q, L_interval, q_cmp. cbn [ri_a ri_b ri_point ri_aopen ri_bopen fst snd].
  destruct (Z.compare_spec (-1 * snd q) (fst q * 2 ^ k)) as [H1|H1|H1];
  destruct (Z.compare_spec (fst q * 2 ^ k) (1 * snd q)) as [H2|H2|H2]; cbn; try discriminate; intros _; lia.
Qed.

(* ================================================================ (a) evaluation over Q (canonical rationals Qc: Leibniz equality, `ring`/`field`) *)
Local Open Scope Qc_scope.

Definition zq (z : Z) : Qc := Q2Qc (inject_Z z).

Lemma zq_add a b : zq (a + b) = zq a + zq b.
Proof. unfold zq, Qcplus. apply Q2Qc_eq_iff. unfold Q2Qc, this. rewrite !Qred_correct, inject_Z_plus. reflexivity. Qed.
Lemma zq_mul a b : zq (a * b) = zq a * zq b.
Proof. unfold zq, Qcmult. apply Q2Qc_eq_iff. unfold Q2Qc, this. rewrite !Qred_correct, inject_Z_mult. reflexivity. Qed.
Lemma zq_0 : zq 0 = 0. Proof. reflexivity. Qed.
Lemma zq_1 : zq 1 = 1. Proof. reflexivity. Qed.
Lemma zq_eq0 a : zq a = 0 -> a = 0%Z.
Proof. unfold zq. intros H. apply Q2Qc_eq_iff in H. unfold Qeq in H. simpl in H. lia. Qed.
Lemma zq_pow a n : zq (a ^ Z.of_nat n) = Qcpower (zq a) n.
Proof. induction n as [|n IH]. reflexivity.
  rewrite Nat2Z.inj_succ, Z.pow_succ_r by lia. rewrite zq_mul, IH. reflexivity. Qed.
Lemma Qcpower_add (x : Qc) a b : Qcpower x (a + b) = Qcpower x a * Qcpower x b.
Proof. induction a as [|a IH]; simpl. ring. rewrite IH. ring. Qed.

Section EvalQ.
Variable rho : var -> Qc.

Definition mono_evalQ (m : mono) : Qc :=
  fold_right (fun ve acc => Qcpower (rho (fst ve)) (N.to_nat (snd ve)) * acc) 1 m.
Definition mp_evalQ (p : mpoly) : Qc :=
  fold_right (fun t acc => zq (snd t) * mono_evalQ (fst t) + acc) 0 p.

Lemma mono_cmp_eq a : forall b, mono_cmp a b = Eq -> a = b.
Proof.
  induction a as [|[x e] a IH]; intros [|[y f] b]; cbn [mono_cmp]; try discriminate; [reflexivity|].
  destruct (N.compare x y) eqn:E1; try discriminate.
  destruct (N.compare e f) eqn:E2; try discriminate.
  intros H. apply N.compare_eq in E1, E2. subst. f_equal. apply IH, H.
Qed.

Lemma evalQ_cons t p : mp_evalQ (t :: p) = zq (snd t) * mono_evalQ (fst t) + mp_evalQ p.
Proof. reflexivity. Qed.
Lemma evalQ_nil : mp_evalQ [] = 0.
Proof. reflexivity. Qed.

Ltac enil := change (mp_evalQ nil) with (Q2Qc 0).

Lemma evalQ_add_term t p : mp_evalQ (mp_add_term t p) = zq (snd t) * mono_evalQ (fst t) + mp_evalQ p.
Proof.
  destruct t as [m c]. cbn [fst snd].
  induction p as [|[m' c'] p IH]; cbn [mp_add_term].
  - destruct (Z.eqb_spec c 0) as [->|Hc]; rewrite ?evalQ_cons; enil; cbn [fst snd]; [rewrite zq_0|]; ring.
  - destruct (Z.eqb_spec c 0) as [->|Hc]; [rewrite zq_0; ring|].
    destruct (mono_cmp m m') eqn:E.
    + apply mono_cmp_eq in E. subst m'.
      destruct (Z.eqb_spec (c + c') 0) as [H0|H0]; rewrite ?evalQ_cons; cbn [fst snd].
      * assert (Hz : zq c + zq c' = 0) by (rewrite <- zq_add, H0; reflexivity).
        transitivity ((zq c + zq c') * mono_evalQ m + mp_evalQ p); [rewrite Hz|]; ring.
      * rewrite zq_add. ring.
    + rewrite !evalQ_cons. cbn [fst snd]. rewrite IH. ring.
    + rewrite !evalQ_cons. cbn [fst snd]. ring.
Qed.

Lemma evalQ_add p q : mp_evalQ (mp_add p q) = mp_evalQ p + mp_evalQ q.
Proof.
  unfold mp_add. induction p as [|t p IH]; cbn [fold_right]; [enil; ring|].
  rewrite evalQ_add_term, IH, evalQ_cons. ring.
Qed.

Lemma evalQ_map_scale c p : mp_evalQ (map (fun t => (fst t, (c * snd t)%Z)) p) = zq c * mp_evalQ p.
Proof.
  induction p as [|t p IH]; cbn [map]; [enil; ring|].
  rewrite !evalQ_cons, IH. cbn [fst snd]. rewrite zq_mul. ring.
Qed.

Lemma evalQ_scale c p : mp_evalQ (mp_scale c p) = zq c * mp_evalQ p.
Proof.
  unfold mp_scale. destruct (Z.eqb_spec c 0) as [->|Hc]; [enil; rewrite zq_0; ring|]. apply evalQ_map_scale.
Qed.

Lemma evalQ_neg p : mp_evalQ (mp_neg p) = - mp_evalQ p.
Proof.
  unfold mp_neg. induction p as [|t p IH]; cbn [map]; [enil; ring|].
  rewrite !evalQ_cons, IH. cbn [fst snd]. replace (- snd t)%Z with ((-1) * snd t)%Z by lia. rewrite zq_mul.
  change (zq (-1)) with (- (1)). ring.
Qed.

Lemma evalQ_of_terms l : mp_evalQ (mp_of_terms l) = mp_evalQ l.
Proof.
  unfold mp_of_terms. induction l as [|t l IH]; cbn [fold_right]; [reflexivity|].
  rewrite evalQ_add_term, IH, evalQ_cons. reflexivity.
Qed.

Lemma mono_evalQ_cons x e m : mono_evalQ ((x, e) :: m) = Qcpower (rho x) (N.to_nat e) * mono_evalQ m.
Proof. reflexivity. Qed.

Lemma mono_evalQ_mul a : forall b, mono_evalQ (mono_mul a b) = mono_evalQ a * mono_evalQ b.
Proof.
  induction a as [|[x e] a IHa]; intros b; [change (mono_evalQ (mono_mul [] b)) with (mono_evalQ b); change (mono_evalQ []) with 1; ring|].
  induction b as [|[y f] b IHb]; [cbn [mono_mul]; change (mono_evalQ []) with 1; ring|].
  cbn [mono_mul]. destruct (N.compare x y) eqn:E.
  - apply N.compare_eq in E. subst y. rewrite !mono_evalQ_cons, IHa, N2Nat.inj_add, Qcpower_add. ring.
  - rewrite !mono_evalQ_cons, IHa, mono_evalQ_cons. ring.
  - rewrite mono_evalQ_cons.
    change (mono_evalQ _) with (mono_evalQ (mono_mul ((x, e) :: a) b)) at 1.
    rewrite IHb, !mono_evalQ_cons. ring.
Qed.

Lemma evalQ_mul_term t q : mp_evalQ (mp_mul_term t q) = zq (snd t) * mono_evalQ (fst t) * mp_evalQ q.
Proof.
  unfold mp_mul_term. induction q as [|u q IH]; cbn [fold_right]; [enil; ring|].
  rewrite evalQ_add_term, IH, evalQ_cons. cbn [fst snd]. rewrite mono_evalQ_mul, zq_mul. ring.
Qed.

Lemma evalQ_mul p q : mp_evalQ (mp_mul p q) = mp_evalQ p * mp_evalQ q.
Proof.
  unfold mp_mul. induction p as [|t p IH]; cbn [fold_right]; [enil; ring|].
  rewrite evalQ_add, evalQ_mul_term, IH, evalQ_cons. ring.
Qed.

Lemma evalQ_var_pow x e : mp_evalQ (mp_var_pow x e) = Qcpower (rho x) (N.to_nat e).
Proof.
  unfold mp_var_pow, mono_var. rewrite evalQ_cons. enil. cbn [fst snd]. rewrite zq_1.
  destruct (N.eqb_spec e 0) as [->|He].
  - change (mono_evalQ []) with 1. cbn [N.to_nat Qcpower]. ring.
  - rewrite mono_evalQ_cons. change (mono_evalQ []) with 1. ring.
Qed.

(* weighted sum  sum_i l_i * r^(n+i) *)
Fixpoint wsum (l : list Qc) (r : Qc) (n : nat) : Qc :=
  match l with [] => 0 | a :: l' => a * Qcpower r n + wsum l' r (S n) end.

Lemma evalQ_of_coeffs_aux x l : forall acc n,
  mp_evalQ (fst (fold_left (fun (a : mpoly * N) c => (mp_add (fst a) (mp_mul c (mp_var_pow x (snd a))), (snd a + 1)%N)) l (acc, n)))
  = mp_evalQ acc + wsum (map mp_evalQ l) (rho x) (N.to_nat n).
Proof.
  induction l as [|c l IH]; intros acc n; cbn [fold_left map wsum fst snd]; [ring|].
  rewrite IH, evalQ_add, evalQ_mul, evalQ_var_pow.
  replace (N.to_nat (n + 1)) with (S (N.to_nat n)) by lia. ring.
Qed.

Lemma evalQ_of_coeffs x l : mp_evalQ (mp_of_coeffs x l) = wsum (map mp_evalQ l) (rho x) 0.
Proof. unfold mp_of_coeffs. rewrite evalQ_of_coeffs_aux. enil. cbn [N.to_nat]. ring. Qed.

(* ---- a monomial in which every variable occurs at most once factors as (rest) * x^deg *)
Definition mono_ok (m : mono) : Prop := NoDup (map fst m).

Lemma mono_deg_notin x m : ~ In x (map fst m) -> mono_deg x m = 0%N.
Proof.
  unfold mono_deg. induction m as [|[y e] m IH]; cbn [map fold_right fst snd In]; [reflexivity|].
  intros H. destruct (N.eqb_spec y x) as [->|Hne]; [tauto|]. apply IH. tauto.
Qed.

Lemma mono_factor x m : mono_ok m ->
  mono_evalQ m = mono_evalQ (mono_remove x m) * Qcpower (rho x) (N.to_nat (mono_deg x m)).
Proof.
  unfold mono_ok, mono_remove. induction m as [|[y e] m IH]; intros Hok.
  - cbn. ring.
  - cbn [map fst] in Hok. inversion Hok as [|? ? Hnotin Hok']; subst.
    change (mono_deg x ((y, e) :: m)) with (if N.eqb y x then e else mono_deg x m).
    cbn [filter fst]. destruct (N.eqb_spec y x) as [->|Hne]; cbn [negb].
    + rewrite mono_evalQ_cons, (IH Hok'), (mono_deg_notin x m Hnotin). cbn [N.to_nat Qcpower]. ring.
    + rewrite !mono_evalQ_cons, (IH Hok'). ring.
Qed.

Definition monos_ok (p : mpoly) : Prop := forall t, In t p -> mono_ok (fst t).

(* value of the coefficient of x^k, as a sum over the terms of p *)
Lemma evalQ_coeff x k p :
  mp_evalQ (mp_coeff x k p) =
  fold_right (fun t acc => (if N.eqb (mono_deg x (fst t)) k then zq (snd t) * mono_evalQ (mono_remove x (fst t)) else 0) + acc) 0 p.
Proof.
  unfold mp_coeff. rewrite evalQ_of_terms.
  induction p as [|t p IH]; cbn [filter map fold_right]; [reflexivity|].
  destruct (N.eqb (mono_deg x (fst t)) k); cbn [map]; [rewrite evalQ_cons, IH; cbn [fst snd]; ring|rewrite IH; ring].
Qed.

Lemma wsum_map_add (f g : nat -> Qc) r : forall ks n,
  wsum (map (fun k => f k + g k) ks) r n = wsum (map f ks) r n + wsum (map g ks) r n.
Proof. induction ks as [|k ks IH]; intros n; cbn [map wsum]; [ring|]. rewrite IH. ring. Qed.

(* a single "delta" column: only the entry with index d contributes *)
Lemma wsum_delta (a : Qc) r d : forall len s, (s <= d < s + len)%nat ->
  wsum (map (fun k => if N.eqb (N.of_nat d) (N.of_nat k) then a else 0) (seq s len)) r s = a * Qcpower r d.
Proof.
  induction len as [|len IH]; intros s Hs; [lia|].
  cbn [seq map wsum]. destruct (N.eqb_spec (N.of_nat d) (N.of_nat s)) as [E|E].
  - apply Nat2N.inj in E. subst s.
    assert (Hz : forall len' s', (d < s')%nat ->
       wsum (map (fun k => if N.eqb (N.of_nat d) (N.of_nat k) then a else 0) (seq s' len')) r s' = 0).
    { induction len' as [|len' IH']; intros s' Hlt; cbn [seq map wsum]; [reflexivity|].
      destruct (N.eqb_spec (N.of_nat d) (N.of_nat s')) as [E'|E']; [apply Nat2N.inj in E'; lia|].
      rewrite IH' by lia. ring. }
    rewrite Hz by lia. ring.
  - assert (d <> s) by (intros ->; apply E; reflexivity).
    rewrite IH by lia. ring.
Qed.

Lemma wsum_zero r : forall (ks : list nat) n, wsum (map (fun _ => 0) ks) r n = 0.
Proof. induction ks as [|k ks IH]; intros n; cbn [map wsum]; [reflexivity|]. rewrite IH. ring. Qed.

Lemma mp_degree_cons x t p : mp_degree x (t :: p) = N.max (mono_deg x (fst t)) (mp_degree x p).
Proof. reflexivity. Qed.

(* the polynomial is the sum of its coefficients times the powers of x *)
Lemma evalQ_decompose x p D : monos_ok p -> (N.to_nat (mp_degree x p) <= D)%nat ->
  mp_evalQ p = wsum (map (fun k => mp_evalQ (mp_coeff x (N.of_nat k) p)) (seq 0 (S D))) (rho x) 0.
Proof.
  intros Hok HD.
  rewrite (map_ext _ _ (fun k => evalQ_coeff x (N.of_nat k) p)).
  induction p as [|t p IH].
  - cbn [fold_right]. rewrite wsum_zero. reflexivity.
  - cbn [fold_right].
    rewrite (wsum_map_add (fun k => if N.eqb (mono_deg x (fst t)) (N.of_nat k) then zq (snd t) * mono_evalQ (mono_remove x (fst t)) else 0)).
    rewrite mp_degree_cons in HD.
    rewrite <- IH; [|intros u Hu; apply Hok; right; exact Hu|lia].
    rewrite evalQ_cons. f_equal.
    rewrite <- (N2Nat.id (mono_deg x (fst t))).
    rewrite (wsum_delta _ _ (N.to_nat (mono_deg x (fst t)))) by lia.
    rewrite (mono_factor x (fst t)) by (apply Hok; left; reflexivity). apply Qcmult_assoc.
Qed.
End EvalQ.

(* ---- independence of the value from variables that do not occur *)
Lemma evalQ_ext rho1 rho2 p : (forall y, rho1 y = rho2 y) -> mp_evalQ rho1 p = mp_evalQ rho2 p.
Proof.
  intros H. induction p as [|t p IH]; [reflexivity|]. rewrite !evalQ_cons, IH. f_equal. f_equal.
  induction (fst t) as [|[y e] m IHm]; [reflexivity|]. rewrite !mono_evalQ_cons, IHm, H. reflexivity.
Qed.

Lemma mono_evalQ_remove_indep rho1 rho2 x m : (forall y, y <> x -> rho1 y = rho2 y) ->
  mono_evalQ rho1 (mono_remove x m) = mono_evalQ rho2 (mono_remove x m).
Proof.
  intros H. unfold mono_remove. induction m as [|[y e] m IH]; [reflexivity|].
  cbn [filter fst]. destruct (N.eqb_spec y x) as [->|Hne]; cbn [negb]; [exact IH|].
  rewrite !mono_evalQ_cons, IH, (H y Hne). reflexivity.
Qed.

Lemma evalQ_coeff_indep rho1 rho2 x k p : (forall y, y <> x -> rho1 y = rho2 y) ->
  mp_evalQ rho1 (mp_coeff x k p) = mp_evalQ rho2 (mp_coeff x k p).
Proof.
  intros H. rewrite !evalQ_coeff. induction p as [|t p IH]; [reflexivity|]. cbn [fold_right].
  rewrite IH, (mono_evalQ_remove_indep rho1 rho2 x (fst t) H). reflexivity.
Qed.

Lemma evalQ_deg0_indep rho1 rho2 x p : monos_ok p -> mp_degree x p = 0%N -> (forall y, y <> x -> rho1 y = rho2 y) ->
  mp_evalQ rho1 p = mp_evalQ rho2 p.
Proof.
  intros Hok Hd H.
  rewrite (evalQ_decompose rho1 x p 0 Hok) by (rewrite Hd; cbn; lia).
  rewrite (evalQ_decompose rho2 x p 0 Hok) by (rewrite Hd; cbn; lia).
  cbn [seq map wsum Qcpower]. rewrite (evalQ_coeff_indep rho1 rho2 x _ p H). reflexivity.
Qed.

(* ---- the canonical-form side condition is inherited by the coefficients *)
Lemma in_add_term t u p : In t (mp_add_term u p) -> fst t = fst u \/ exists t', In t' p /\ fst t' = fst t.
Proof.
  destruct u as [m c]. induction p as [|[m' c'] p IH]; cbn [mp_add_term].
  - destruct (c =? 0)%Z; [intros []|]. intros [<-|[]]. left; reflexivity.
  - destruct (c =? 0)%Z; [intros H; right; exists t; split; [exact H|reflexivity]|].
    destruct (mono_cmp m m') eqn:E.
    + apply mono_cmp_eq in E. subst m'. destruct (c + c' =? 0)%Z.
      * intros H. right. exists t. split; [right; exact H|reflexivity].
      * intros [<-|H]; [left; reflexivity|]. right. exists t. split; [right; exact H|reflexivity].
    + intros [<-|H]; [right; exists (m', c'); split; [left; reflexivity|reflexivity]|].
      destruct (IH H) as [Hl|[t' [Hin Heq]]]; [left; exact Hl|]. right. exists t'. split; [right; exact Hin|exact Heq].
    + intros [<-|H]; [left; reflexivity|]. right. exists t. split; [exact H|reflexivity].
Qed.

Lemma in_of_terms t l : In t (mp_of_terms l) -> exists u, In u l /\ fst u = fst t.
Proof.
  unfold mp_of_terms. revert t. induction l as [|u l IH]; intros t; cbn [fold_right]; [intros []|].
  intros H. destruct (in_add_term _ _ _ H) as [Heq|[t' [Hin Heq]]].
  - exists u. split; [left; reflexivity|symmetry; exact Heq].
  - destruct (IH t' Hin) as [u' [Hu' Hf]]. exists u'. split; [right; exact Hu'|congruence].
Qed.

Lemma mono_ok_remove x m : mono_ok m -> mono_ok (mono_remove x m).
Proof.
  unfold mono_ok, mono_remove. induction m as [|[y e] m IH]; intros H; [exact H|].
  cbn [map fst] in H. inversion H as [|? ? Hn Hok]; subst.
  cbn [filter fst]. destruct (negb (N.eqb y x)); [|exact (IH Hok)].
  cbn [map fst]. constructor; [|exact (IH Hok)].
  intros Hin. apply Hn. apply in_map_iff in Hin. destruct Hin as [ve [Hf Hin]]. apply filter_In in Hin.
  apply in_map_iff. exists ve. tauto.
Qed.

Lemma monos_ok_coeff x k p : monos_ok p -> monos_ok (mp_coeff x k p).
Proof.
  intros Hok t Hin. unfold mp_coeff in Hin. apply in_of_terms in Hin. destruct Hin as [u [Hu Hf]].
  apply in_map_iff in Hu. destruct Hu as [w [Hw Hin]]. apply filter_In in Hin. subst u. cbn [fst] in Hf.
  rewrite <- Hf. apply mono_ok_remove. apply Hok. tauto.
Qed.

(* ---- lcm of positive multipliers *)
Lemma lcm_fold_pos ms : forall a, (0 < a)%Z -> (forall m, In m ms -> (0 < m)%Z) ->
  (0 < fold_left Z.lcm ms a)%Z /\ (a | fold_left Z.lcm ms a)%Z /\ (forall m, In m ms -> (m | fold_left Z.lcm ms a))%Z.
Proof.
  induction ms as [|m ms IH]; intros a Ha Hpos; cbn [fold_left].
  - split; [exact Ha|]. split; [apply Z.divide_refl|intros ? []].
  - assert (Hm : (0 < m)%Z) by (apply Hpos; left; reflexivity).
    assert (Hl : (0 < Z.lcm a m)%Z).
    { pose proof (Z.lcm_nonneg a m). assert (Z.lcm a m <> 0)%Z by (rewrite Z.lcm_eq_0; lia). lia. }
    destruct (IH (Z.lcm a m) Hl (fun m' H => Hpos m' (or_intror H))) as [H1 [H2 H3]].
    split; [exact H1|]. split.
    + eapply Z.divide_trans; [apply Z.divide_lcm_l|exact H2].
    + intros m' [<-|Hin]; [eapply Z.divide_trans; [apply Z.divide_lcm_r|exact H2]|apply H3, Hin].
Qed.

Lemma lcm_list_pos ms : ms <> [] -> (forall m, In m ms -> (0 < m)%Z) ->
  (0 < lcm_list ms)%Z /\ (forall m, In m ms -> (m | lcm_list ms))%Z.
Proof.
  destruct ms as [|a ms]; [congruence|]. intros _ Hpos. unfold lcm_list.
  destruct (lcm_fold_pos ms a (Hpos a (or_introl eq_refl)) (fun m H => Hpos m (or_intror H))) as [H1 [H2 H3]].
  split; [exact H1|]. intros m [<-|Hin]; [exact H2|apply H3, Hin].
Qed.

Lemma zq_div_exact a b : (b | a)%Z -> (b <> 0)%Z -> zq (a / b) * zq b = zq a.
Proof. intros [k ->] Hb. rewrite Z.div_mul by exact Hb. rewrite zq_mul. reflexivity. Qed.

Lemma wsum_scale c r : forall l n, wsum (map (fun a => c * a) l) r n = c * wsum l r n.
Proof. induction l as [|a l IH]; intros n; cbn [map wsum]; [ring|]. rewrite IH. ring. Qed.

Lemma Qcpower_div (a b : Qc) n : b <> 0 -> Qcpower (a / b) n = Qcpower a n / Qcpower b n.
Proof.
  intros Hb. assert (Hbn : forall k, Qcpower b k <> 0).
  { induction k as [|k IHk]; cbn [Qcpower]; [discriminate|]. intros H. apply Qcmult_integral in H. tauto. }
  induction n as [|n IH]; cbn [Qcpower]; [field; discriminate|]. rewrite IH. field. split; [apply Hbn|exact Hb].
Qed.

(* ================================================================ (a) coefficient_evaluate_rationals *)
(* the point at which C is evaluated: variables of `order` with a rational value p/q get that value *)
Definition subst_rho (order : list var) (M : var -> option rat) (rho : var -> Qc) (x : var) : Qc :=
  if existsb (N.eqb x) order then
    match M x with Some (p, q) => zq p / zq q | None => rho x end
  else rho x.

Lemma subst_rho_nil M rho x : subst_rho [] M rho x = rho x.
Proof. reflexivity. Qed.

Lemma subst_rho_cons_other x rest M rho y : y <> x -> subst_rho (x :: rest) M rho y = subst_rho rest M rho y.
Proof.
  intros H. unfold subst_rho. cbn [existsb]. destruct (N.eqb_spec y x) as [E|_]; [contradiction|]. reflexivity.
Qed.

Lemma evalQ_sum_scaled rho brs : forall acc,
  mp_evalQ rho (fold_left (fun acc br => mp_add acc (mp_scale (snd br) (fst br))) brs acc)
  = mp_evalQ rho acc + fold_right (fun br s => zq (snd br) * mp_evalQ rho (fst br) + s) 0 brs.
Proof.
  induction brs as [|br brs IH]; intros acc; cbn [fold_left fold_right]; [ring|].
  rewrite IH, evalQ_add, evalQ_scale. ring.
Qed.

(* the substitution loop: with b_i = m_i * E_i and m_i | m_lcm,
   sum_i R_i b_i = q^n m_lcm * sum_i E_i (p/q)^i   for the indices i .. n *)
Lemma subst_terms_sum rho (rest : list var) M (E : mpoly -> Qc) m_lcm p q n :
  (0 < q)%Z ->
  forall cs i, (i + length cs = S n)%nat ->
  (forall c, In c cs -> (0 < snd (eval_rat rest M c))%Z /\ (snd (eval_rat rest M c) | m_lcm)%Z /\
                         mp_evalQ rho (fst (eval_rat rest M c)) = zq (snd (eval_rat rest M c)) * E c) ->
  fold_right (fun br s => zq (snd br) * mp_evalQ rho (fst br) + s) 0
             (subst_terms (map (eval_rat rest M) cs) m_lcm p q i n)
  = zq (z_pow_nat q n * m_lcm) * wsum (map E cs) (zq p / zq q) i.
Proof.
  intros Hq. assert (Hq0 : zq q <> 0) by (intros H; apply zq_eq0 in H; lia).
  induction cs as [|c cs IH]; intros i Hlen Hcs; cbn [map subst_terms fold_right wsum]; [ring|].
  cbn [length] in Hlen.
  destruct (Hcs c (or_introl eq_refl)) as [Hm [Hdiv Hval]].
  rewrite IH; [|lia|intros c' Hc'; apply Hcs; right; exact Hc'].
  cbn [fst snd]. rewrite Hval.
  unfold z_pow_nat. rewrite !zq_mul, !zq_pow.
  rewrite <- (zq_div_exact m_lcm (snd (eval_rat rest M c)) Hdiv) by lia.
  rewrite Qcpower_div by exact Hq0.
  assert (Hn : Qcpower (zq q) n = Qcpower (zq q) i * Qcpower (zq q) (n - i)).
  { rewrite <- Qcpower_add. f_equal. lia. }
  rewrite Hn.
  assert (Hqi : Qcpower (zq q) i <> 0).
  { clear -Hq0. induction i as [|i IHi]; cbn [Qcpower]; [discriminate|]. intros H. apply Qcmult_integral in H. tauto. }
  generalize dependent (Qcpower (zq q) i). intros A _ HA.
  generalize (Qcpower (zq q) (n - i)) (Qcpower (zq p) i) (wsum (map E cs) (zq p / zq q) (S i)).
  intros B P W. field. exact HA.
Qed.

Theorem eval_rat_correct_lemma : forall order M rho,
  (forall x p q, M x = Some (p, q) -> (0 < q)%Z) ->
  forall C, monos_ok C ->
  (0 < snd (eval_rat order M C))%Z /\
  mp_evalQ rho (fst (eval_rat order M C)) = zq (snd (eval_rat order M C)) * mp_evalQ (subst_rho order M rho) C.
Proof.
  intros order M rho HM. induction order as [|x rest IH]; intros C Hok.
  - cbn [eval_rat fst snd]. split; [lia|]. rewrite zq_1, (evalQ_ext (subst_rho [] M rho) rho C (subst_rho_nil M rho)). ring.
  - cbn [eval_rat]. destruct (N.eqb_spec (mp_degree x C) 0) as [Hd|Hd].
    + destruct (IH C Hok) as [H1 H2]. split; [exact H1|]. rewrite H2. f_equal.
      apply (evalQ_deg0_indep _ _ x C Hok Hd). intros y Hy. symmetry. apply subst_rho_cons_other, Hy.
    + set (rho' := subst_rho (x :: rest) M rho).
      set (D := N.to_nat (mp_degree x C)).
      assert (HC : mp_coeffs x C = map (fun k => mp_coeff x (N.of_nat k) C) (seq 0 (S D))).
      { unfold mp_coeffs. destruct C; [contradiction Hd; reflexivity|reflexivity]. }
      rewrite HC. set (cs := map (fun k => mp_coeff x (N.of_nat k) C) (seq 0 (S D))).
      set (rs := map (eval_rat rest M) cs). set (m_lcm := lcm_list (map snd rs)).
      (* facts about every coefficient *)
      assert (Hcs : forall c, In c cs -> (0 < snd (eval_rat rest M c))%Z /\
                     mp_evalQ rho (fst (eval_rat rest M c)) = zq (snd (eval_rat rest M c)) * mp_evalQ rho' c).
      { intros c Hc. unfold cs in Hc. apply in_map_iff in Hc. destruct Hc as [k [<- _]].
        destruct (IH _ (monos_ok_coeff x (N.of_nat k) C Hok)) as [H1 H2]. split; [exact H1|]. rewrite H2. f_equal.
        apply evalQ_coeff_indep. intros y Hy. symmetry. apply subst_rho_cons_other, Hy. }
      assert (Hne : map snd rs <> []) by (unfold rs, cs; cbn; discriminate).
      assert (Hpos : forall m, In m (map snd rs) -> (0 < m)%Z).
      { intros m Hm. unfold rs in Hm. rewrite map_map in Hm. apply in_map_iff in Hm. destruct Hm as [c [<- Hc]]. apply Hcs, Hc. }
      destruct (lcm_list_pos _ Hne Hpos) as [Hlpos Hldiv]. fold m_lcm in Hlpos, Hldiv.
      assert (Hdiv : forall c, In c cs -> (snd (eval_rat rest M c) | m_lcm)%Z).
      { intros c Hc. apply Hldiv. unfold rs. rewrite map_map. apply in_map_iff. exists c. split; [reflexivity|exact Hc]. }
      assert (Hdec : mp_evalQ rho' C = wsum (map (mp_evalQ rho') cs) (rho' x) 0).
      { unfold cs. rewrite map_map. apply (evalQ_decompose rho' x C D Hok). unfold D. lia. }
      assert (Hx : existsb (N.eqb x) (x :: rest) = true) by (cbn [existsb]; rewrite N.eqb_refl; reflexivity).
      destruct (M x) as [[p q]|] eqn:EM.
      * (* rational value: substitute *)
        assert (Hq : (0 < q)%Z) by (eapply HM; exact EM).
        cbn [fst snd]. split.
        { unfold z_pow_nat. apply Z.mul_pos_pos; [apply Z.pow_pos_nonneg; lia|exact Hlpos]. }
        unfold sum_scaled. rewrite evalQ_sum_scaled. change (mp_evalQ rho []) with (Q2Qc 0).
        assert (Hlen : Nat.pred (length cs) = D) by (unfold cs; rewrite map_length, seq_length; reflexivity).
        rewrite Hlen.
        unfold rs. rewrite (subst_terms_sum rho rest M (mp_evalQ rho') m_lcm p q D Hq cs 0).
        -- assert (Hrx : rho' x = zq p / zq q) by (unfold rho', subst_rho; rewrite Hx, EM; reflexivity).
           rewrite Hdec, Hrx. ring.
        -- unfold cs. rewrite map_length, seq_length. lia.
        -- intros c Hc. destruct (Hcs c Hc) as [H1 H2]. split; [exact H1|]. split; [apply Hdiv, Hc|exact H2].
      * (* proper algebraic value: x stays *)
        cbn [fst snd]. split; [exact Hlpos|].
        assert (Hrx : rho' x = rho x) by (unfold rho', subst_rho; rewrite Hx, EM; reflexivity).
        rewrite evalQ_of_coeffs, Hdec, Hrx.
        rewrite <- wsum_scale. f_equal. unfold rs. rewrite !map_map. apply map_ext_in. intros c Hc.
        cbn [fst snd]. rewrite evalQ_scale. destruct (Hcs c Hc) as [H1 H2]. rewrite H2.
        rewrite <- (zq_div_exact m_lcm (snd (eval_rat rest M c)) (Hdiv c Hc)) by lia. ring.
Qed.

(* mp_evalQ extends MPoly.mp_eval *)
Lemma evalQ_of_Z (rho : var -> Z) p : mp_evalQ (fun x => zq (rho x)) p = zq (mp_eval rho p).
Proof.
  unfold mp_eval. induction p as [|t p IH]; [reflexivity|].
  rewrite evalQ_cons, IH. cbn [fold_right]. rewrite zq_add, zq_mul. f_equal. f_equal.
  unfold mono_eval. induction (fst t) as [|[y e] m IHm]; [reflexivity|].
  rewrite mono_evalQ_cons, IHm. cbn [fold_right fst snd]. rewrite zq_mul, <- zq_pow, N_nat_Z. reflexivity.
Qed.

(* canonical polynomials satisfy the side condition *)
Lemma mono_wf_from_ok m : forall lo, mono_wf_from lo m = true ->
  NoDup (map fst m) /\ forall y, In y (map fst m) -> match lo with Some l => (l < y)%N | None => True end.
Proof.
  induction m as [|[x e] m IH]; intros lo H; cbn [map fst].
  - split; [constructor|intros ? []].
  - cbn [mono_wf_from] in H. apply andb_prop in H. destruct H as [H H3]. apply andb_prop in H. destruct H as [_ H2].
    destruct (IH (Some x) H3) as [Hnd Hgt]. split.
    + constructor; [|exact Hnd]. intros Hin. specialize (Hgt x Hin). cbn in Hgt. lia.
    + intros y [<-|Hin].
      * destruct lo as [l|]; [apply N.ltb_lt; exact H2|exact I].
      * specialize (Hgt y Hin). cbn in Hgt. destruct lo as [l|]; [apply N.ltb_lt in H2; lia|exact I].
Qed.

Lemma mp_wf_monos_ok p : mp_wf p = true -> monos_ok p.
Proof.
  induction p as [|[m c] p IH]; intros H t Hin; [destruct Hin|].
  cbn [mp_wf] in H. apply andb_prop in H. destruct H as [H H4]. apply andb_prop in H. destruct H as [H _].
  apply andb_prop in H. destruct H as [H1 _].
  destruct Hin as [<-|Hin]; [|exact (IH H4 t Hin)].
  cbn [fst]. unfold mono_ok. apply (mono_wf_from_ok m None). exact H1.
Qed.

Theorem eval_rat_correct : forall order M rho C,
  (forall x p q, M x = Some (p, q) -> (0 < q)%Z) -> mp_wf C = true ->
  (0 < snd (eval_rat order M C))%Z /\
  mp_evalQ rho (fst (eval_rat order M C)) = zq (snd (eval_rat order M C)) * mp_evalQ (subst_rho order M rho) C.
Proof. intros order M rho C HM Hwf. apply eval_rat_correct_lemma; [exact HM|apply mp_wf_monos_ok, Hwf]. Qed.

(* with integer values for the remaining variables: the statement in terms of MPoly.mp_eval *)
Corollary eval_rat_correct_Z : forall order M (rho : var -> Z) C,
  (forall x p q, M x = Some (p, q) -> (0 < q)%Z) -> mp_wf C = true ->
  let '(C_rat, mult) := eval_rat order M C in
  (0 < mult)%Z /\ zq (mp_eval rho C_rat) = zq mult * mp_evalQ (subst_rho order M (fun x => zq (rho x))) C.
Proof.
  intros order M rho C HM Hwf. destruct (eval_rat_correct order M (fun x => zq (rho x)) C HM Hwf) as [H1 H2].
  destruct (eval_rat order M C) as [Cr m]. cbn [fst snd] in *. split; [exact H1|]. rewrite <- evalQ_of_Z. exact H2.
Qed.

(* ================================================================ the numeric exits of coefficient_sgn *)
Definition qc_sgn (q : Qc) : Z := Z.sgn (Qnum (this q)).

Lemma Qnum_sgn_compat (a b : Q) : (a == b)%Q -> Z.sgn (Qnum a) = Z.sgn (Qnum b).
Proof.
  unfold Qeq. destruct a as [na da], b as [nb db]. cbn [Qnum Qden]. intros H.
  destruct na, nb; cbn in *; try reflexivity; try discriminate; lia.
Qed.

Lemma qc_sgn_zq c : qc_sgn (zq c) = Z.sgn c.
Proof.
  unfold qc_sgn, zq, Q2Qc, this. rewrite (Qnum_sgn_compat _ (inject_Z c) (Qred_correct _)). reflexivity.
Qed.

Lemma qc_sgn_scale m v : (0 < m)%Z -> qc_sgn (zq m * v) = qc_sgn v.
Proof.
  intros Hm. unfold qc_sgn, zq, Qcmult, Q2Qc, this at 1.
  rewrite (Qnum_sgn_compat _ (inject_Z m * this v)%Q).
  2:{ rewrite Qred_correct. apply Qmult_comp; [apply Qred_correct|reflexivity]. }
  destruct (this v) as [n d]. cbn [Qnum Qmult inject_Z]. rewrite Z.sgn_mul. destruct m; lia.
Qed.

Lemma evalQ_numeric rho p c : mp_numeric p = Some c -> mp_evalQ rho p = zq c.
Proof.
  destruct p as [|[[|ve m] c'] [|t p]]; cbn [mp_numeric]; try discriminate; intros H; injection H as <-.
  - reflexivity.
  - rewrite evalQ_cons. change (mp_evalQ rho []) with (Q2Qc 0). cbn [fst snd]. change (mono_evalQ rho []) with 1. ring.
Qed.

(* whenever coefficient_sgn returns through one of its two numeric exits, it returns the sign of the exact value of
   C at the point where the rational values are substituted (whatever the other variables are) *)
Theorem coef_sgn_numeric_correct order M rho C s :
  (forall x p q, M x = Some (p, q) -> (0 < q)%Z) -> mp_wf C = true ->
  coef_sgn_numeric order M C = Some s -> s = qc_sgn (mp_evalQ (subst_rho order M rho) C).
Proof.
  intros HM Hwf. unfold coef_sgn_numeric.
  destruct (mp_numeric C) as [c|] eqn:EC.
  - intros H; injection H as <-. rewrite (evalQ_numeric _ C c EC). symmetry. apply qc_sgn_zq.
  - destruct (mp_numeric (fst (eval_rat order M C))) as [c|] eqn:ER; [|discriminate].
    intros H; injection H as <-.
    destruct (eval_rat_correct order M rho C HM Hwf) as [Hpos Hval].
    rewrite (evalQ_numeric rho _ c ER) in Hval.
    rewrite <- (qc_sgn_scale _ _ Hpos), <- Hval. symmetry. apply qc_sgn_zq.
Qed.
