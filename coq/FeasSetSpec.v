(* C13 - what the theorems talk about: the order axioms of the carrier, the denotation of intervals and
   feasibility sets, the normal form, and the defining conditions of the nine interval relations.
   Definitions only (the lemmas are in FeasSetProofs.v). *)
From Coq Require Import ZArith List Bool Sorted.
From LP Require Import FeasSet.
Import ListNotations.

(* A three-valued comparison that is a total order with Leibniz equality (lp_value_cmp on the denoted numbers). *)
Record total_order {T : Type} (cmp : T -> T -> comparison) : Prop := mkTO {
  to_eq : forall x y, cmp x y = Eq <-> x = y;
  to_antisym : forall x y, cmp y x = CompOpp (cmp x y);
  to_trans : forall x y z, cmp x y = Lt -> cmp y z = Lt -> cmp x z = Lt }.

(* between any two carrier values there is a third one (true of the real line, false of ranks) *)
Definition dense {T : Type} (cmp : T -> T -> comparison) : Prop :=
  forall x y, cmp x y = Lt -> exists z, cmp x z = Lt /\ cmp z y = Lt.

(* minf / pinf are the least / greatest elements and the finite part has no least or greatest element *)
Record bounds {T : Type} (cmp : T -> T -> comparison) (minf pinf : T) : Prop := mkBounds {
  bd_min : forall x, cmp minf x <> Gt;
  bd_max : forall x, cmp x pinf <> Gt;
  bd_ne : minf <> pinf;
  bd_below : forall x, x <> minf -> exists y, y <> minf /\ cmp y x = Lt;
  bd_above : forall x, x <> pinf -> exists y, y <> pinf /\ cmp x y = Lt }.

Section Spec.
Variable T : Type.
Variable cmp : T -> T -> comparison.

Definition lt (x y : T) : Prop := cmp x y = Lt.
Definition le (x y : T) : Prop := cmp x y <> Gt.

(* the invariant of lp_interval_t: a point is closed on both sides (its b is not used; the model keeps b = a),
   otherwise a < b *)
Definition WF (X : itv T) : Prop :=
  if ipt X then ia_open X = false /\ ib_open X = false /\ ib X = ia X
  else lt (ia X) (ib X).

(* v belongs to the interval *)
Definition mem (v : T) (X : itv T) : Prop :=
  (if ia_open X then lt (ia X) v else le (ia X) v) /\
  (if ib_open X then lt v (get_ub X) else le v (get_ub X)).

(* v belongs to the set denoted by the list *)
Definition mem_set (v : T) (s : list (itv T)) : Prop := exists X, In X s /\ mem v X.

(* X lies entirely to the left of Y and the two cannot be merged into one interval:
   ub X < lb Y, or they meet in a value that belongs to neither *)
Definition sep (X Y : itv T) : Prop :=
  lt (get_ub X) (ia Y) \/ (get_ub X = ia Y /\ ib_open X = true /\ ia_open Y = true).

(* normal form: well-formed (non-empty) intervals, increasing, pairwise disjoint and not mergeable *)
Fixpoint NF (s : list (itv T)) : Prop :=
  match s with
  | [] => True
  | X :: t => WF X /\ match t with [] => True | Y :: _ => sep X Y end /\ NF t
  end.

(* ---- order of lower bounds / upper bounds, as conditions on the end points and flags *)
Definition lb_lt (X Y : itv T) : Prop :=
  lt (ia X) (ia Y) \/ (ia X = ia Y /\ ia_open X = false /\ ia_open Y = true).     (* [a.. starts before (a.. *)
Definition lb_eq (X Y : itv T) : Prop := ia X = ia Y /\ ia_open X = ia_open Y.
Definition ub_lt (X Y : itv T) : Prop :=
  lt (get_ub X) (get_ub Y) \/ (get_ub X = get_ub Y /\ ib_open X = true /\ ib_open Y = false).   (* ..b) ends before ..b] *)
Definition ub_eq (X Y : itv T) : Prop := get_ub X = get_ub Y /\ ib_open X = ib_open Y.
(* all of X is below all of Y: no common point *)
Definition below (X Y : itv T) : Prop :=
  lt (get_ub X) (ia Y) \/ (get_ub X = ia Y /\ (ib_open X = true \/ ia_open Y = true)).

(* the defining condition of each lp_interval_cmp_t value *)
Definition rel_spec (r : rel) (X Y : itv T) : Prop :=
  match r with
  | LT_NO     => below X Y
  | LT_WI     => lb_lt X Y /\ ub_lt X Y /\ ~ below X Y
  | LT_WI_I1  => (lb_eq X Y \/ lb_lt Y X) /\ ub_lt X Y
  | LEQ_WI_I2 => lb_lt X Y /\ ub_eq X Y
  | REQ       => lb_eq X Y /\ ub_eq X Y
  | GEQ_WI_I1 => lb_lt Y X /\ ub_eq X Y
  | GT_WI_I2  => (lb_eq X Y \/ lb_lt X Y) /\ ub_lt Y X
  | GT_WI     => lb_lt Y X /\ ub_lt Y X /\ ~ below Y X
  | GT_NO     => below Y X
  end.

(* what lp_interval_cmp_with_intersect must leave in P *)
Definition P_spec (r : rel) (P : option (itv T)) (X Y : itv T) : Prop :=
  match r with
  | LT_NO | GT_NO => P = None /\ forall v, ~ (mem v X /\ mem v Y)
  | _ => exists p, P = Some p /\ WF p /\ (forall v, mem v p <-> mem v X /\ mem v Y) /\
                   match r with
                   | LT_WI_I1 | REQ | GEQ_WI_I1 => p = X
                   | LEQ_WI_I2 | GT_WI_I2 => p = Y
                   | _ => True
                   end
  end.

(* the status of lp_feasibility_set_intersect_with_status *)
Definition status_spec (st : status) (s1 s2 r : list (itv T)) : Prop :=
  match s1, s2 with
  | [], _ | _, [] => st = ST_EMPTY
  | _, _ =>
    match st with
    | ST_S1 => r = s1
    | ST_S2 => r = s2 /\ r <> s1
    | ST_EMPTY => r = [] /\ r <> s1 /\ r <> s2
    | ST_NEW => r <> [] /\ r <> s1 /\ r <> s2
    end
  end.

(* the order qsort sorts by in lp_feasibility_set_add: lower bound ascending, then upper bound descending *)
Definition union_le (X Y : itv T) : Prop :=
  lb_lt X Y \/ (lb_eq X Y /\ (ub_eq X Y \/ ub_lt Y X)).

(* v is a real number: strictly between the two infinities *)
Definition finite (minf pinf v : T) : Prop := lt minf v /\ lt v pinf.

(* the postcondition of qsort(…, interval_sort_for_union): for i < j the comparator does not answer "greater" *)
Definition qsorted (l : list (itv T)) : Prop :=
  Sorted.StronglySorted (fun X Y => exists c, sort_for_union cmp X Y = Some c /\ c <> Gt) l.

End Spec.

Arguments lt {T}. Arguments le {T}. Arguments WF {T}. Arguments mem {T}. Arguments mem_set {T}.
Arguments sep {T}. Arguments NF {T}. Arguments lb_lt {T}. Arguments lb_eq {T}. Arguments ub_lt {T}.
Arguments ub_eq {T}. Arguments below {T}. Arguments rel_spec {T}. Arguments P_spec {T}.
Arguments status_spec {T}. Arguments union_le {T}. Arguments finite {T}. Arguments qsorted {T}.

(* ---- sets with rational end points (integer queries) *)
Local Open Scope Z_scope.
(* a rational in lowest terms with positive denominator (what mpq_t / the value kinds hold) *)
Definition xq_ok (x : xq) : Prop :=
  match x with XQFin q => 0 < snd q /\ Z.gcd (fst q) (snd q) = 1 | _ => True end.
Definition xq_finite (x : xq) : Prop := match x with XQFin _ => True | _ => False end.
(* well-formed interval with canonical end points; a point is a finite number *)
Definition WFx (X : itv xq) : Prop :=
  WF xq_cmp X /\ xq_ok (ia X) /\ xq_ok (ib X) /\ (ipt X = true -> xq_finite (ia X)).
(* the integer z as a carrier value *)
Definition zq (z : Z) : xq := XQFin (z, 1).
Definition int_mem (z : Z) (X : itv xq) : Prop := mem xq_cmp (zq z) X.
Definition int_mem_set (z : Z) (s : list (itv xq)) : Prop := mem_set xq_cmp (zq z) s.
(* the sum of the per-interval integer counts *)
Definition sum_counts (s : list (itv xq)) : Z := fold_right (fun X acc => itv_count_int X + acc) 0 s.

(* ---- the integer members of an interval, read off the (is_infinity, is_integer, floor, ceiling) view of its ends *)
Definition epi_low (e : epi) (o : bool) (z : Z) : Prop :=
  match e with EPInf => True | EPFin b fl ce => (if b then fl + (if o then 1 else 0) else ce) <= z end.
Definition epi_up (e : epi) (o : bool) (z : Z) : Prop :=
  match e with EPInf => True | EPFin b fl ce => z <= (if b then fl - (if o then 1 else 0) else fl) end.
Definition ei_mem (z : Z) (X : itv epi) : Prop :=
  epi_low (ia X) (ia_open X) z /\ epi_up (if ipt X then ia X else ib X) (ib_open X) z.
(* consistency of a view: ceiling = floor for an integer, floor + 1 otherwise *)
Definition epi_wf (e : epi) : Prop :=
  match e with EPInf => True | EPFin b fl ce => if b then ce = fl else ce = fl + 1 end.
(* consistency of the views of an interval a < b (or a point): the least integer above a is at most one more
   than the greatest integer below b *)
Definition view_wf (X : itv epi) : Prop :=
  epi_wf (ia X) /\ epi_wf (ib X) /\
  if ipt X then ia_open X = false /\ ib_open X = false /\ ia X <> EPInf
  else match ia X, ib X with
       | EPFin ba fa ca, EPFin bb fb cb => (if ba then fa + 1 else ca) <= (if bb then fb - 1 else fb) + 1
       | _, _ => True
       end.
