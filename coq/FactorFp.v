(* C05: bridge from coefficient lists read modulo a prime p to MathComp's {poly 'F_p}, and soundness of the
   Z_p[x] checkers of FactorCheck.v (multiply back, coprimality / square-freeness certificates,
   irreducibility by exhaustive trial division). *)
From Coq Require Import ZArith List.
From LP Require Import UPoly FactorCheck.
Set Warnings "-notation-overridden,-ambiguous-paths".
From mathcomp Require Import all_ssreflect all_algebra separable.
From mathcomp Require Import ssrZ zify.
Set Warnings "notation-overridden,ambiguous-paths".
From LP Require Import UPolySpec FactorCheckProofs.
Import GRing.Theory.
Set Implicit Arguments.
Unset Strict Implicit.
Unset Printing Implicit Defensive.
Local Open Scope ring_scope.
Delimit Scope Z_scope with ZZ.
Ltac Zify.zify_post_hook ::= Z.div_mod_to_equations.

Lemma ZtoR_nat (R : ringType) (n : nat) : ZtoR R (Z.of_nat n) = n%:R.
Proof.
rewrite /= /comp; have -> : int_of_Z (Z.of_nat n) = Posz n by lia.
by [].
Qed.

Lemma Zmod_eq_sub (x y m : Z) : (0 < m)%ZZ -> ((x - y) mod m = 0 <-> x mod m = y mod m)%ZZ.
Proof.
move=> m0; split => [H|H].
  have [k Hk] : (m | x - y)%ZZ by apply/Z.mod_divide => //; lia.
  have -> : x = (y + k * m)%ZZ by lia.
  by rewrite Z_mod_plus_full.
rewrite Zminus_mod H Z.sub_diag Z.mod_0_l //; lia.
Qed.

Section Fp.
Variable p : nat.
Hypothesis pr : prime p.
Let pz : Z := Z.of_nat p.

Definition toFp : {rmorphism Z -> 'F_p} := ZtoR _.
Definition PF (l : seq Z) : {poly 'F_p} := map_poly toFp (Poly l).

Lemma toFp_p : toFp pz = 0.
Proof. by rewrite /toFp ZtoR_nat char_Fp_0. Qed.

Lemma pz_gt0 : (0 < pz)%ZZ.
Proof. by have := prime_gt0 pr; rewrite /pz; lia. Qed.

Lemma toFp_mod (z : Z) : toFp (z mod pz)%ZZ = toFp z.
Proof.
have E : z = (pz * (z / pz)%ZZ + (z mod pz)%ZZ) by apply: Z.div_mod; have := pz_gt0; lia.
by rewrite {2}E rmorphD rmorphM toFp_p mul0r add0r.
Qed.

Lemma toFp_small_eq0 (r : Z) : (0 <= r < pz)%ZZ -> (toFp r == 0) = (Z.eqb r 0).
Proof.
move=> rb; have -> : r = Z.of_nat (Z.to_nat r) by lia.
rewrite /toFp ZtoR_nat -(dvdn_charf (char_Fp pr)).
have : (Z.to_nat r < p)%N by rewrite /pz in rb; lia.
case: (Z.to_nat r) => [|n] np; first by rewrite dvdn0.
by rewrite gtnNdvd //; lia.
Qed.

Lemma toFp_eq0 (z : Z) : (toFp z == 0) = (Z.eqb (z mod pz)%ZZ 0).
Proof.
rewrite -toFp_mod toFp_small_eq0 //.
by apply: Z.mod_pos_bound; exact: pz_gt0.
Qed.

Lemma toFp_eq (x y : Z) : (toFp x == toFp y) = (Z.eqb (x mod pz)%ZZ (y mod pz)%ZZ).
Proof.
rewrite -subr_eq0 -rmorphB toFp_eq0.
have H := @Zmod_eq_sub x y pz pz_gt0.
by apply/idP/idP => /Z.eqb_eq E; apply/Z.eqb_eq; apply/H.
Qed.

(* ---- polynomials *)
Lemma PF_Poly l : PF l = Poly (map toFp l).
Proof. by rewrite /PF map_Poly_id0 ?rmorph0. Qed.

Lemma PF_pmodp l : PF (pmodp pz l) = PF l.
Proof.
rewrite !PF_Poly /pmodp -map_comp; congr (Poly _).
by apply: eq_map => z; rewrite /comp toFp_mod.
Qed.

Lemma PF_pnorm l : PF (pnorm l) = PF l.
Proof. by rewrite /PF Poly_pnorm. Qed.

Lemma PF_add a b : PF (padd a b) = PF a + PF b.
Proof. by rewrite /PF Poly_padd rmorphD. Qed.
Lemma PF_mul a b : PF (pmul a b) = PF a * PF b.
Proof. by rewrite /PF Poly_pmul rmorphM. Qed.
Lemma PF_sub a b : PF (psub a b) = PF a - PF b.
Proof. by rewrite /PF Poly_psub rmorphB. Qed.
Lemma PF_scale c a : PF (pscale c a) = toFp c *: PF a.
Proof. by rewrite /PF Poly_pscale map_polyZ. Qed.
Lemma PF_deriv a : PF (pderiv a) = (PF a)^`().
Proof. by rewrite /PF Poly_pderiv deriv_map. Qed.
Lemma PF_C c : PF [:: c] = (toFp c)%:P.
Proof. by rewrite /PF PolyC map_polyC. Qed.
Lemma PF_1 : PF [:: Zpos xH] = 1.
Proof. by rewrite PF_C rmorph1. Qed.

Lemma all_pnorm (P : pred Z) l : all P l -> all P (pnorm l).
Proof.
elim: l => [|c q IH] //= /andP[Pc /IH].
case: (pnorm q) => [|d q'] /=; last by move=> ->; rewrite Pc.
by case: ifP => //=; rewrite Pc.
Qed.

(* size of the polynomial over F_p = length of the normal form of the reduced list *)
Lemma size_PF l : size (PF l) = psize_p pz l.
Proof.
rewrite /psize_p -PF_pmodp -PF_pnorm PF_Poly.
set l' := pnorm _.
have Hall : all (fun z => Z.eqb (z mod pz)%ZZ z) l'.
  apply: all_pnorm; apply/allP => z /mapP[x _ ->].
  by apply/Z.eqb_eq; rewrite Z.mod_mod //; have := pz_gt0; lia.
have Hlast : last 1 (map toFp l') != 0.
  have := last_pnorm_neq0 (pmodp pz l); rewrite -/l'.
  case: l' Hall => [|c t] //.
  move=> Hall; rewrite map_cons !last_cons last_map toFp_eq0.
  have /allP /(_ (last c t)) := Hall; rewrite mem_last => /(_ isT) /Z.eqb_eq -> H.
  by apply/negP => /Z.eqb_eq E; rewrite E eqxx in H.
by rewrite (PolyK Hlast) size_map.
Qed.

Lemma nth_map0 (A B : Type) (f : A -> B) (x0 : A) (y0 : B) (s : seq A) i :
  f x0 = y0 -> nth y0 (map f s) i = f (nth x0 s i).
Proof.
move=> E; case: (ltnP i (size s)) => H; first by rewrite (nth_map x0).
by rewrite !nth_default ?size_map.
Qed.

Lemma peqb_pP a b : reflect (PF a = PF b) (peqb_p pz a b).
Proof.
apply: (iffP idP) => [/peqbP E|E].
  by rewrite -(PF_pmodp a) -(PF_pmodp b) /PF E.
apply/peqbP/polyP => i; rewrite !coef_Poly_nth.
have /polyP /(_ i) := E; rewrite !PF_Poly !coef_Poly.
rewrite !(@nth_map0 _ _ toFp 0 0) ?rmorph0 // /pmodp.
rewrite !(@nth_map0 _ _ (fun z => Z.modulo z pz) 0 0) ?Zmod_0_l //.
by move=> /eqP; rewrite toFp_eq => /Z.eqb_eq.
Qed.

(* ------------------------------------------------------------------ (a) multiply back over Z_p[x] *)
Definition uprodF (fs : seq (seq Z * nat)) : {poly 'F_p} := \prod_(fm <- fs) PF fm.1 ^+ fm.2.

Lemma PF_pmul_p a b : PF (pmul_p pz a b) = PF a * PF b.
Proof. by rewrite /pmul_p PF_pmodp PF_mul. Qed.

Lemma PF_ppow_p a n : PF (ppow_p pz a n) = PF a ^+ n.
Proof. by elim: n => [|n IH] /=; rewrite ?PF_1 ?expr0 // PF_pmul_p IH exprS. Qed.

Lemma PF_uprod_p fs : PF (uprod_p pz fs) = uprodF fs.
Proof.
rewrite /uprodF; elim: fs => [|[f m] fs IH] /=; first by rewrite big_nil PF_1.
by rewrite big_cons -IH PF_pmul_p PF_ppow_p.
Qed.

Theorem mulback_Zp_spec (c : Z) fs input :
  mulback_Zp pz c fs input = true <-> toFp c *: uprodF fs = PF input.
Proof.
rewrite /mulback_Zp -PF_uprod_p -PF_scale.
by split => [/peqb_pP|H]; last apply/peqb_pP.
Qed.

(* ------------------------------------------------------------------ (b) coprimality / square-freeness over F_p *)
Theorem coprime_cert_Zp_sound f g u v :
  coprime_cert_Zp pz f g u v = true -> coprimep (PF f) (PF g).
Proof.
rewrite /coprime_cert_Zp => /peqb_pP; rewrite PF_add !PF_mul PF_1 => E.
by apply/Bezout_coprimepP; exists (PF u, PF v); rewrite /= E eqpxx.
Qed.

Theorem common_factor_cert_Zp_sound f g d qf qg :
  common_factor_cert_Zp pz f g d qf qg = true -> ~~ coprimep (PF f) (PF g).
Proof.
rewrite /common_factor_cert_Zp => /andP[/andP[/Nat.ltb_lt dd /peqb_pP Ef] /peqb_pP Eg].
apply/negP => /coprimepP /(_ (PF d)).
have -> : PF d %| PF f by rewrite -Ef PF_mul dvdp_mulr.
have -> : PF d %| PF g by rewrite -Eg PF_mul dvdp_mulr.
move=> /(_ isT isT) /eqp_size; rewrite size_PF size_poly1 => sz.
by move: dd; rewrite sz => /Nat.lt_irrefl.
Qed.

Theorem coprime_decide_Zp_true f g : coprime_decide_Zp pz f g = Some true -> coprimep (PF f) (PF g).
Proof.
rewrite /coprime_decide_Zp; case: (bezout_Zp pz f g) => [[r u] v].
case: (pnorm _) => [|c [|c' l]].
- by case: (pdivmod_monic _ _ _) => qf _; case: (pdivmod_monic _ _ _) => qg _; case: ifP.
- by case: ifP => // /coprime_cert_Zp_sound.
- by case: (pdivmod_monic _ _ _) => qf _; case: (pdivmod_monic _ _ _) => qg _; case: ifP.
Qed.

Theorem coprime_decide_Zp_false f g : coprime_decide_Zp pz f g = Some false -> ~~ coprimep (PF f) (PF g).
Proof.
rewrite /coprime_decide_Zp; case: (bezout_Zp pz f g) => [[r u] v].
case: (pnorm _) => [|c [|c' l]].
- case: (pdivmod_monic _ _ _) => qf _; case: (pdivmod_monic _ _ _) => qg _.
  by case: ifP => // /common_factor_cert_Zp_sound.
- by case: ifP.
- case: (pdivmod_monic _ _ _) => qf _; case: (pdivmod_monic _ _ _) => qg _.
  by case: ifP => // /common_factor_cert_Zp_sound.
Qed.

Theorem sqfree_decide_Zp_true f : sqfree_decide_Zp pz f = Some true -> separable_poly (PF f).
Proof. by move=> /coprime_decide_Zp_true; rewrite PF_deriv. Qed.
Theorem sqfree_decide_Zp_false f : sqfree_decide_Zp pz f = Some false -> ~~ separable_poly (PF f).
Proof. by move=> /coprime_decide_Zp_false; rewrite PF_deriv. Qed.

(* ------------------------------------------------------------------ (c) irreducibility by exhaustive trial division *)
(* certificate of NON-divisibility *)
Lemma nodiv_cert_sound f q : nodiv_cert pz f q = true -> ~~ (PF q %| PF f).
Proof.
rewrite /nodiv_cert; case: (pdivmod_monic pz f q) => quot r.
move=> /andP[/andP[/peqb_pP E /Nat.ltb_lt sz] /Nat.ltb_lt r0].
rewrite -!size_PF in sz r0.
rewrite /dvdp E PF_add PF_mul modp_addl_mul_small; last by apply/ltP.
by rewrite -size_poly_eq0; case: (size (PF r)) r0 => // /Nat.lt_irrefl.
Qed.

(* the enumeration visits every list of k coefficients taken from cs *)
Lemma all_ext_complete cs k suf test :
  all_ext cs k suf test = true ->
  forall pre, size pre = k -> (forall c, List.In c pre -> List.In c cs) -> test (pre ++ suf) = true.
Proof.
elim: k suf => [|k IH] suf /=.
  by move=> H [|//] _ _.
move=> /forallb_forall H pre; case/lastP: pre => [//|pre c].
rewrite size_rcons => -[sz] Hin; rewrite cat_rcons.
apply: IH => //.
  by apply: H; apply: Hin; rewrite -cats1; apply/in_or_app; right; left.
by move=> x Hx; apply: Hin; rewrite -cats1; apply/in_or_app; left.
Qed.

Lemma val_Fp_lt (c : 'F_p) : (val c < p)%N.
Proof. by have := ltn_ord c; rewrite [X in (_ < X)%N -> _]Fp_cast. Qed.

Lemma toFp_val (c : 'F_p) : toFp (Z.of_nat (val c)) = c.
Proof. by rewrite /toFp ZtoR_nat natr_Zp. Qed.

Lemma val_Fp1 : val (1 : 'F_p) = 1%N.
Proof.
by have := val_Fp_nat pr 1; rewrite mulr1n modn_small ?prime_gt1.
Qed.

(* the list of canonical representatives of the coefficients of a polynomial over F_p *)
Definition reprs (s : {poly 'F_p}) : seq Z := map (fun c : 'F_p => Z.of_nat (val c)) s.

Lemma PF_reprs s : PF (reprs s) = s.
Proof.
rewrite PF_Poly /reprs -map_comp -[RHS]polyseqK; congr (Poly _).
by rewrite -[RHS]map_id; apply: eq_map => c; rewrite /comp toFp_val.
Qed.

Lemma reprs_in_range s c : List.In c (reprs s) -> List.In c (zrange pz).
Proof.
rewrite /reprs /zrange => /in_map_iff [x [<- _]].
apply/in_map_iff; exists (val x); split => //.
apply/in_seq; rewrite /pz Nat2Z.id; have := val_Fp_lt x; lia.
Qed.

Lemma In_take (A : Type) k (l : seq A) c : List.In c (take k l) -> List.In c l.
Proof. by elim: l k => [|x l IH] [|k] //= [->|/IH H]; [left | right]. Qed.

Lemma split_last (t : seq Z) k : size t = k.+1 -> t = take k t ++ [:: nth 0 t k].
Proof.
move=> sz; rewrite cats1 -take_nth ?sz // take_oversize // sz //.
Qed.

(* (c) exhaustive trial division: no monic divisor of degree 1..d/2 => irreducible over F_p *)
Theorem irreducible_Zp_check_sound f : irreducible_Zp_check pz f = true -> irreducible_poly (PF f).
Proof.
rewrite /irreducible_Zp_check.
set fn := pnorm (pmodp pz f).
have EF : PF fn = PF f by rewrite PF_pnorm PF_pmodp.
have szF : size (PF f) = length fn by rewrite size_PF.
move=> /andP[/Nat.leb_le d1 /forallb_forall Hall].
have F2 : (1 < size (PF f))%N by rewrite szF; move: d1; case: (length fn) => [|[|n]] //=; lia.
split => // q q1 qF.
rewrite -dvdp_size_eqp //.
case: (eqVneq (size q) (size (PF f))) => [//|neq]; exfalso.
have F0 : PF f != 0 by rewrite -size_poly_gt0; apply: ltn_trans F2.
have q0 : q != 0 by apply: contraTneq qF => ->; rewrite dvd0p.
have qle := dvdp_leq F0 qF.
have E := divpK qF.
move: (PF f %/ q) E => r E.
have r0 : r != 0 by apply: contraNneq F0 => r0; rewrite -E r0 mul0r.
have szE : size (PF f) = (size r + size q).-1 by rewrite -E size_mul.
have q2 : (1 < size q)%N by move: q0 q1; rewrite -size_poly_gt0; case: (size q) => [|[|n]].
have r2 : (1 < size r)%N by move: neq qle q2; rewrite szE; case: (size r) r0 => [|[|n]] //; rewrite -?size_poly_eq0 ?eqxx //; lia.
have [s [sF s2 sd]] : exists s, [/\ s %| PF f, (1 < size s)%N & (2 * (size s).-1 <= (size (PF f)).-1)%N].
  case: (leqP (size q) (size r)) => H.
    exists q; split => //; rewrite szE; move: (size r) (size q) q2 H => a b; clear; lia.
  exists r; split => //; first by rewrite -E dvdp_mulr.
  rewrite szE; move: (size r) (size q) r2 H => a b; clear; lia.
have s0 : s != 0 by rewrite -size_poly_gt0; apply: ltn_trans s2.
have lc0 : (lead_coef s)^-1 != 0 by rewrite invr_eq0 lead_coef_eq0.
pose s' := (lead_coef s)^-1 *: s.
have s'F : s' %| PF f by rewrite dvdpZl.
have szs' : size s' = size s by rewrite size_scale.
have lcs' : lead_coef s' = 1 by rewrite lead_coefZ mulVf // lead_coef_eq0.
pose k := (size s).-1.
have szr : size (reprs s') = k.+1 by rewrite /reprs size_map szs' /k; case: (size s) s2.
have Hk : List.In k (List.seq 1 (Nat.div2 (Nat.pred (length fn)))).
  apply/in_seq; rewrite -szF Nat.div2_div; move: sd s2; rewrite -/k => sd s2.
  have k1 : (0 < k)%N by rewrite /k; case: (size s) s2 => [|[|n]].
  have: (0 < k /\ 2 * k <= (size (PF f)).-1)%coq_nat by split; [apply/ltP | apply/leP].
  move: (k) ((size (PF f)).-1) => a n; clear => -[a0 an].
  have := @Nat.div_le_lower_bound n 2 a (fun H => match H with end) an.
  rewrite /addn /addn_rec /leq /subn /subn_rec /=.
  by lia.
have /all_ext_complete := Hall _ Hk => /(_ (take k (reprs s'))).
rewrite size_take szr ltnSn => /(_ erefl).
have -> : take k (reprs s') ++ [:: Zpos xH] = reprs s'.
  rewrite [RHS](split_last szr); congr (_ ++ [:: _]).
  rewrite /reprs (nth_map 0) ?szs' /k; last by case: (size s) s2.
  by move: lcs'; rewrite lead_coefE szs' => ->; rewrite val_Fp1.
move=> H; have /nodiv_cert_sound : nodiv_cert pz fn (reprs s') = true.
  by apply: H => c Hc; apply: (@reprs_in_range s'); exact: In_take Hc.
by rewrite PF_reprs EF s'F.
Qed.

End Fp.
