(* Property C16 - bound inference and Fourier-Motzkin resolution only derive consequences.
   ONLY theorem statements, each closed by `exact` of a lemma from BoundsProofs.v, with Print Assumptions
   beneath, and non-vacuity examples.  Model: Bounds.v (on the reference polynomials of MPoly.v).

   Reading guide.  R ranges over every ordered field (MathComp realFieldType; rcfType = real closed, where the
   irrational end points exist).  `mp_evalR rho p` is the value of the integer polynomial p at the point rho,
   `constraint_holds c negated v` says that the value v satisfies "v c 0" (negated or not), `ord` is the variable
   order (top variable first).  An inferred interval `IbRange q o` / `IbPoint q` of a variable x is described
   by its quadratic q = (a, b, c) = a x^2 + b x + c: its end points are the real roots of q, `bound_holds`
   states membership through the sign of q, `in_interval` through the roots themselves. *)
From Coq Require Import ZArith NArith List Bool.
From LP Require Import Scalar MPoly Bounds.
Set Warnings "-notation-overridden,-ambiguous-paths".
From mathcomp Require Import all_ssreflect all_algebra.
Set Warnings "notation-overridden,ambiguous-paths".
From LP Require Import BoundsProofs BoundsCanon.
Import Order.Theory GRing.Theory Num.Theory.
Local Open Scope ring_scope.

(* 1. infer_bounds.  Return code 1: every point of R^n that satisfies the constraint satisfies the quadratic
      inequality of every inferred interval.  Code -1 (conflict): no point satisfies the constraint.
      Code 0: nothing is written.  No other code. *)
Theorem C16_infer_sound : forall (R : realFieldType) ord p c negated code w,
  mp_wf p = true -> infer_bounds ord p c negated = (code, w) ->
  [/\ code = 1%sZ -> forall rho : var -> R, constraint_holds c negated (mp_evalR rho p) ->
                     forall x b, In (x, b) w -> bound_holds b (rho x),
      code = (-1)%sZ -> forall rho : var -> R, ~~ constraint_holds c negated (mp_evalR rho p),
      code = 0%sZ -> w = [::] &
      code = 1%sZ \/ code = 0%sZ \/ code = (-1)%sZ].
Proof. exact: C16_infer_sound_pf. Qed.
Print Assumptions C16_infer_sound.

(* 2. Every inferred interval comes from a quadratic with positive leading coefficient that has two real roots
      (IbRange: discriminant > 0; open ends exactly for the strict conditions < and >) or one (IbPoint:
      discriminant = 0, only for the non-strict conditions). *)
Theorem C16_infer_interval_shape : forall ord p c negated code w,
  mp_wf p = true -> infer_bounds ord p c negated = (code, w) ->
  forall x b, In (x, b) w -> bound_wf (eff_strict c negated) b.
Proof. exact: C16_infer_shape_pf. Qed.
Print Assumptions C16_infer_interval_shape.

(* 3. Over a real closed field the end points exist: the quadratic of an inferred interval vanishes exactly at
      root_lo and root_hi = (-b -+ sqrt(b^2 - 4ac)) / 2a (equal for a point interval), ... *)
Theorem C16_infer_end_points_are_the_roots : forall (R : rcfType) strict b, bound_wf strict b ->
  forall v : R, (quadR (bound_quad b) v == 0) = (v == root_lo R (bound_quad b)) || (v == root_hi R (bound_quad b)).
Proof. exact: bound_roots. Qed.
Print Assumptions C16_infer_end_points_are_the_roots.

(*    ... the two end points of a range are distinct and in order, ... *)
Theorem C16_infer_range_nonempty : forall (R : rcfType) strict b, bound_wf strict b ->
  match b with IbPoint _ => True | IbRange q _ => root_lo R q < root_hi R q end.
Proof. exact: bound_nonempty. Qed.
Print Assumptions C16_infer_range_nonempty.

(*    ... the sign condition on the quadratic is membership in [r,r], (r0,r1) or [r0,r1], ... *)
Theorem C16_infer_quadratic_is_interval : forall (R : rcfType) strict b (v : R), bound_wf strict b ->
  bound_holds b v = in_interval b v.
Proof. exact: bound_holds_interval. Qed.
Print Assumptions C16_infer_quadratic_is_interval.

(*    ... and so: when bounds are reported, every real point satisfying the constraint lies inside the inferred
      intervals. *)
Theorem C16_infer_points_inside_intervals : forall (R : rcfType) ord p c negated w,
  mp_wf p = true -> infer_bounds ord p c negated = (1%sZ, w) ->
  forall rho : var -> R, constraint_holds c negated (mp_evalR rho p) ->
  forall x b, In (x, b) w -> in_interval b (rho x).
Proof. exact: C16_infer_inside_pf. Qed.
Print Assumptions C16_infer_points_inside_intervals.

(* 4. explain_infer_bounds returns, for a variable with an inferred interval, exactly the quadratic whose roots
      are the end points, as a polynomial in that variable. *)
Theorem C16_explain_is_the_quadratic : forall ord p c negated w x b,
  infer_bounds ord p c negated = (1%sZ, w) -> w_find x w = Some b ->
  explain_infer_bounds ord p c negated x = Some (quad_poly x (bound_quad b)).
Proof. exact: explain_infer_bounds_spec. Qed.
Print Assumptions C16_explain_is_the_quadratic.

Theorem C16_explain_value : forall (R : realFieldType) (rho : var -> R) x q,
  mp_evalR rho (quad_poly x q) = quadR q (rho x).
Proof. exact: evalR_quad_poly. Qed.
Print Assumptions C16_explain_value.

(* 5. resolve_fm (REPAIRED sign test, fixes/C16-resolve-fm-sign-test.patch; the pinned code is refuted in
      History_C16.v).  sgnM is whatever coefficient_sgn answered under the model for non-numeric coefficients
      (ANY function): on success, at every point where the recorded assumption polynomials have the signs that
      were reported under the model and both premises hold, the resolvent constraint holds. *)
Theorem C16_fm_sound : forall (R : realFieldType) sgnM ord p1 c1 p2 c2 R0 cR0 A0,
  mp_wf p1 = true -> mp_wf p2 = true ->
  let r := resolve_fm sgnM ord p1 c1 p2 c2 R0 cR0 A0 in
  fm_ok r = true ->
  forall rho : var -> R, assum_ok sgnM rho (fm_assum r) ->
    cond_sem c1 (mp_evalR rho p1) -> cond_sem c2 (mp_evalR rho p2) ->
    cond_sem (fm_cond r) (mp_evalR rho (fm_R r)).
Proof. exact: C16_fm_sound_pf. Qed.
Print Assumptions C16_fm_sound.

(* 6. The resolvent is free of the eliminated variable: the top variable x does not occur in R (and R is in
      canonical form), provided the reported signs are realised by some point of some ordered field - the model
      itself is one, and it may be irrational.  Proved through faithfulness of the canonical form
      (BoundsCanon.v: a canonical polynomial that vanishes at every rational point is the empty list). *)
Theorem C16_fm_eliminates : forall (R : realFieldType) sgnM ord p1 c1 p2 c2 R0 cR0 A0 x,
  mp_wf p1 = true -> mp_wf p2 = true ->
  let r := resolve_fm sgnM ord p1 c1 p2 c2 R0 cR0 A0 in
  fm_ok r = true -> bd_top_var ord p1 = Some x ->
  (exists rho0 : var -> R, assum_ok sgnM rho0 (fm_assum r)) ->
  mp_wf (fm_R r) = true /\ mp_degree x (fm_R r) = 0%num.
Proof. exact: resolve_fm_xfree. Qed.
Print Assumptions C16_fm_eliminates.

(*    Semantic form: the value of R does not depend on x, in every ordered field. *)
Theorem C16_fm_value_independent : forall (R R' : realFieldType) sgnM ord p1 c1 p2 c2 R0 cR0 A0 x,
  mp_wf p1 = true -> mp_wf p2 = true ->
  let r := resolve_fm sgnM ord p1 c1 p2 c2 R0 cR0 A0 in
  fm_ok r = true -> bd_top_var ord p1 = Some x ->
  (exists rho0 : var -> R, assum_ok sgnM rho0 (fm_assum r)) ->
  forall (rho : var -> R') v, mp_evalR (upd rho x v) (fm_R r) = mp_evalR rho (fm_R r).
Proof. exact: C16_fm_xindep_pf. Qed.
Print Assumptions C16_fm_value_independent.

(*    The tool behind 6, of independent use: if the value of a canonical polynomial does not depend on x at
      rational points, x does not occur in it. *)
Theorem C16_canonical_form_faithful : forall x p, mp_wf p = true ->
  (forall (rho : var -> rat) v, mp_evalR (upd rho x v) p = mp_evalR rho p) -> mp_degree x p = 0%num.
Proof. exact: xfree_of_indep. Qed.
Print Assumptions C16_canonical_form_faithful.

(* 7. The assumptions vector is only appended to. *)
Theorem C16_fm_assumptions_kept : forall sgnM ord p1 c1 p2 c2 R0 cR0 A0 a,
  In a A0 -> In a (fm_assum (resolve_fm sgnM ord p1 c1 p2 c2 R0 cR0 A0)).
Proof. exact: resolve_fm_assum_incl. Qed.
Print Assumptions C16_fm_assumptions_kept.

(* ------------------------------------------------------------------ non-vacuity *)
Local Open Scope Z_scope.
Definition ex_x0 : var := 0%num.
Definition ex_x1 : var := 1%num.
(* x0^2 - 2 < 0: code 1, the open interval between the roots of x0^2 - 2 (irrational end points) *)
Example C16_nonvacuous_infer :
  let p : mpoly := [:: ([:: (ex_x0, 2%num)], 1); ([::], -2)] in
  mp_wf p = true /\
  infer_bounds [:: ex_x1; ex_x0] p SgLT false = (1, [:: (ex_x0, IbRange (1, 0, -2) true)]) /\
  explain_infer_bounds [:: ex_x1; ex_x0] p SgLT false ex_x0 = Some p.
Proof. by vm_compute. Qed.
(* 2 x0^2 + 3 x0 + 3 x1^2 - x1 - 4 >= 0 negated (i.e. < 0): two variables, rational D = 53/12 *)
Example C16_nonvacuous_infer2 :
  let p : mpoly := [:: ([:: (ex_x1, 2%num)], 3); ([:: (ex_x1, 1%num)], -1); ([:: (ex_x0, 2%num)], 2); ([:: (ex_x0, 1%num)], 3); ([::], -4)] in
  mp_wf p = true /\
  infer_bounds [:: ex_x1; ex_x0] p SgGE true =
    (1, [:: (ex_x1, IbRange (24, -8, -41) true); (ex_x0, IbRange (24, 36, -49) true)]).
Proof. by vm_compute. Qed.
(* x0^2 + x1^2 + 1 <= 0 is a conflict; x0^2 + x1^2 <= 0 pins both variables to a point *)
Example C16_nonvacuous_conflict :
  infer_bounds [:: ex_x1; ex_x0] [:: ([:: (ex_x1, 2%num)], 1); ([:: (ex_x0, 2%num)], 1); ([::], 1)] SgLE false = (-1, [::]) /\
  infer_bounds [:: ex_x1; ex_x0] [:: ([:: (ex_x1, 2%num)], 1); ([:: (ex_x0, 2%num)], 1)] SgLE false =
    (1, [:: (ex_x1, IbPoint (1, 0, 0)); (ex_x0, IbPoint (1, 0, 0))]).
Proof. by vm_compute. Qed.
(* x0*x1 - 1 < 0 and -2 x1 - 3 < 0 with x0 > 0 under the model: R = -3 x0 - 2 < 0, assumptions x0 (twice) *)
Example C16_nonvacuous_fm :
  let p1 : mpoly := [:: ([:: (ex_x0, 1%num); (ex_x1, 1%num)], 1); ([::], -1)] in
  let p2 : mpoly := [:: ([:: (ex_x1, 1%num)], -2); ([::], -3)] in
  let r := resolve_fm (fun _ => 1) [:: ex_x1; ex_x0] p1 SgLT p2 SgLT [::] SgNE [::] in
  mp_wf p1 = true /\ mp_wf p2 = true /\ fm_ok r = true /\ fm_cond r = SgLT /\
  fm_R r = [:: ([:: (ex_x0, 1%num)], -3); ([::], -2)] /\
  fm_assum r = [:: [:: ([:: (ex_x0, 1%num)], 1)]; [:: ([:: (ex_x0, 1%num)], 1)]] /\
  mp_degree ex_x1 (fm_R r) = 0%num.
Proof. by vm_compute. Qed.
