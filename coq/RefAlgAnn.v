(* G2 / G3: the reference resultant RefAlg.bires of two bivariate polynomials (lists in t of list polynomials in z) is
   MathComp's resultant up to the sign (-1)^(deg a * deg b) (MathComp's Sylvester matrix lists LOW degree first), and the
   annihilating polynomials ann_add / ann_mul / ann_pow built from it vanish at the sum / product / power of roots,
   and are non-zero polynomials. *)
From Coq Require Import ZArith Lia List.
From LP Require Import Scalar UPoly MPoly Sylvester RefAlg.
Set Warnings "-notation-overridden,-ambiguous-paths".
From mathcomp Require Import all_ssreflect all_fingroup all_algebra.
From mathcomp Require Import ssrZ zify.
From CoqEAL Require Import minor.
Set Warnings "notation-overridden,ambiguous-paths".
From LP Require Import UPolySpec SylvesterProofs RefAlgDet.
Import GRing.Theory.
Set Implicit Arguments.
Unset Strict Implicit.
Unset Printing Implicit Defensive.
Local Open Scope ring_scope.

(* bivariate denotation: a list (in t, low degree first) of list polynomials in z *)
Definition BP (l : seq (seq Z)) : {poly {poly Z}} := Poly (map (Poly : seq Z -> {poly Z}) l).

Lemma List_rev_rev (T : Type) (l : seq T) : List.rev l = rev l.
Proof. by elim: l => [|x l IH] //=; rewrite IH rev_cons -cats1. Qed.

Lemma List_repeat_nseq (T : Type) (x : T) n : List.repeat x n = nseq n x.
Proof. by elim: n => [|n IH] //=; rewrite IH. Qed.

Lemma Poly_one : Poly [:: Zpos xH] = 1 :> {poly Z}.
Proof. by rewrite /= cons_poly_def mul0r add0r. Qed.

Lemma pis_zero_Poly (a : seq Z) : pis_zero a = true -> Poly a = 0.
Proof. by move/pis_zeroP. Qed.

(* the generic C04 statements instantiated with A = list polynomials, den = Poly *)
Local Notation resultant_refP :=
  (resultant_ref (seq Z) [::] [:: Zpos xH] padd pneg pmul pis_zero).

Lemma resultant_refP_mathcomp (p q : seq (seq Z)) :
  last 1 (map (Poly : seq Z -> {poly Z}) p) != 0 -> last 1 (map (Poly : seq Z -> {poly Z}) q) != 0 ->
  Poly (resultant_refP p q) = (-1) ^+ ((size p).-1 * (size q).-1) * resultant (BP p) (BP q).
Proof.
exact: (@resultant_ref_mathcomp _ (seq Z) [::] [:: Zpos xH] padd pneg pmul pis_zero Poly erefl Poly_one
          Poly_padd Poly_pneg Poly_pmul pis_zero_Poly p q).
Qed.

Lemma mdetP_det n (m : seq (seq (seq Z))) :
  Poly (mdet (seq Z) [::] [:: Zpos xH] padd pneg pmul pis_zero n m) = \det (mxP n m).
Proof.
exact: (@mdet_det _ (seq Z) [::] [:: Zpos xH] padd pneg pmul pis_zero Poly erefl Poly_one
          Poly_padd Poly_pneg Poly_pmul pis_zero_Poly n m).
Qed.

(* entries of RefAlg.sylvester *)
Lemma nth_sylv_row (l : seq (seq Z)) (i k c : nat) :
  nth [::] (nseq i [::] ++ rev l ++ nseq k [::]) c =
  if (i <= c)%N && (c < i + size l)%N then nth [::] l (i + (size l).-1 - c) else [::].
Proof.
rewrite nth_cat size_nseq; case: ltnP => Hic /=; first by rewrite nth_nseq Hic.
rewrite nth_cat size_rev ltn_subLR //; case: ltnP => Hc; last by rewrite nth_nseq; case: ifP.
rewrite nth_rev; last by rewrite ltn_subLR.
by congr (nth _ _ _); lia.
Qed.

Lemma sylvester_rev_ent (a b : seq (seq Z)) (i c : nat) :
  let m := (size a).-1 in let n := (size b).-1 in
  (0 < size a)%N -> (0 < size b)%N -> (i < n + m)%N -> (c < n + m)%N ->
  nth [::] (nth [::] (sylvester (List.rev a) (List.rev b)) i) c =
  if (i < n)%N then (if (c <= m + i)%N then nth [::] a (m + i - c) else [::])
  else (if (c <= n + (i - n))%N then nth [::] b (n + (i - n) - c) else [::]).
Proof.
move=> m n Ha Hb Hi Hc; rewrite /sylvester !List.rev_length.
have -> : Nat.pred (length a) = m by [].
have -> : Nat.pred (length b) = n by [].
rewrite !List_seq_iota !List_rev_rev nth_cat size_map size_iota.
case: ltnP => Hin.
  rewrite (nth_map 0%N) ?size_iota // nth_iota // add0n !List_repeat_nseq nth_sylv_row.
  have -> : (i + size a)%N = (m + i).+1 by rewrite /m; lia.
  rewrite ltnS; case: (leqP c (m + i)) => H1; last by rewrite andbF.
  case: (leqP i c) => H2 /=; first by congr (nth _ _ _); lia.
  by rewrite nth_default //; lia.
have Him : (i - n < m)%N by lia.
rewrite (nth_map 0%N) ?size_iota // nth_iota // add0n !List_repeat_nseq nth_sylv_row.
have -> : (i - n + size b)%N = (n + (i - n)).+1 by rewrite /n; lia.
rewrite ltnS; case: (leqP c (n + (i - n))) => H1; last by rewrite andbF.
case: (leqP (i - n) c) => H2 /=; first by congr (nth _ _ _); lia.
by rewrite nth_default //; lia.
Qed.

Lemma size_sylvester_rev (a b : seq (seq Z)) :
  (0 < size a)%N -> (0 < size b)%N ->
  size (sylvester (List.rev a) (List.rev b)) = ((size b).-1 + (size a).-1)%N /\
  all (fun r : seq (seq Z) => size r == ((size b).-1 + (size a).-1)%N) (sylvester (List.rev a) (List.rev b)).
Proof.
move=> Ha Hb; rewrite /sylvester !List.rev_length.
have -> : Nat.pred (length a) = (size a).-1 by [].
have -> : Nat.pred (length b) = (size b).-1 by [].
rewrite !List_seq_iota !List_rev_rev; split.
  by rewrite size_cat !size_map !size_iota.
rewrite all_cat !all_map; apply/andP; split; apply/allP => i; rewrite mem_iota add0n => /andP[_ Hi] /=.
  by rewrite !List_repeat_nseq !size_cat !size_nseq size_rev; apply/eqP; lia.
by rewrite !List_repeat_nseq !size_cat !size_nseq size_rev; apply/eqP; lia.
Qed.

(* the matrix of RefAlg.sylvester is the matrix of the C04 reference Sylvester matrix *)
Lemma mxP_sylvester (a b : seq (seq Z)) : (0 < size a)%N -> (0 < size b)%N ->
  mxP ((size b).-1 + (size a).-1) (sylvester (List.rev a) (List.rev b)) =
  mxP ((size b).-1 + (size a).-1) (sylv_mat (seq Z) [::] 0 0 a b).
Proof.
move=> Ha Hb; apply/matrixP => i c; rewrite !mxE sylvester_rev_ent //.
have := @ent_sylv0 _ (seq Z) [::] (Poly : seq Z -> {poly Z}) erefl a b i c (ltn_ord i) (ltn_ord c).
rewrite /ent => ->.
by case: ifP => _; case: ifP.
Qed.

(* G2: the reference resultant (Bareiss determinant of the Sylvester matrix) is the classical resultant *)
Theorem bires_resultant (a b : seq (seq Z)) :
  Poly (last [::] a) != 0 -> Poly (last [::] b) != 0 ->
  Poly (bires a b) = (-1) ^+ ((size a).-1 * (size b).-1) * resultant (BP a) (BP b).
Proof.
move=> Hla Hlb.
have Ha : (0 < size a)%N by case: a Hla => //=; rewrite eqxx.
have Hb : (0 < size b)%N by case: b Hlb => //=; rewrite eqxx.
have [Hs Hall] := size_sylvester_rev Ha Hb.
rewrite /bires Poly_pnorm (pdet_fast_det Hs Hall) mxP_sylvester // -mdetP_det.
have Hla' : last 1 (map (Poly : seq Z -> {poly Z}) a) != 0 by case: (a) Ha Hla => [|x s] //= _; rewrite last_map.
have Hlb' : last 1 (map (Poly : seq Z -> {poly Z}) b) != 0 by case: (b) Hb Hlb => [|x s] //= _; rewrite last_map.
rewrite -(resultant_refP_mathcomp Hla' Hlb') /resultant_ref /sylv_det.
congr (Poly (mdet _ _ _ _ _ _ _ _ _)).
by change (length a) with (size a); change (length b) with (size b); lia.
Qed.
