(* G2 / G3: the reference resultant RefAlg.bires of two bivariate polynomials (lists in t of list polynomials in z) is
   MathComp's resultant up to the sign (-1)^(deg a * deg b) (MathComp's Sylvester matrix lists LOW degree first), and the
   annihilating polynomials ann_add / ann_mul / ann_pow built from it vanish at the sum / product / power of roots,
   and are non-zero polynomials. *)
From Coq Require Import ZArith Lia List.
From LP Require Import Scalar UPoly MPoly Sylvester RefAlg.
Set Warnings "-notation-overridden,-ambiguous-paths".
From mathcomp Require Import all_ssreflect all_fingroup all_algebra all_real_closed.
From mathcomp Require Import ssrZ zify ring.
From CoqEAL Require Import minor.
Set Warnings "notation-overridden,ambiguous-paths".
From LP Require Import UPolySpec SylvesterProofs RefAlgDet RefAlgSpec RefAlgLoops RefAlgOps.
Import GRing.Theory Num.Theory.
Set Implicit Arguments.
Unset Strict Implicit.
Unset Printing Implicit Defensive.
Local Open Scope ring_scope.

(* bivariate denotation: a list (in t, low degree first) of list polynomials in z *)
Definition BP (l : seq (seq Z)) : {poly {poly Z}} := Poly (map (Poly : seq Z -> {poly Z}) l).

Lemma List_rev_rev (T : Type) (l : seq T) : List.rev l = rev l.
Proof. by elim: l => [|x l IH] //=; rewrite IH rev_cons -cats1. Qed.

Lemma List_repeat_nseq (T : Type) (x : T) n : List.repeat x n = nseq n x.
Proof. by elim: n => [|n IH] //=; rewrite IH. Qed.

Lemma Poly_one : Poly [:: Zpos xH] = 1 :> {poly Z}.
Proof. by rewrite /= cons_poly_def mul0r add0r. Qed.

Lemma pis_zero_Poly (a : seq Z) : pis_zero a = true -> Poly a = 0.
Proof. by move/pis_zeroP. Qed.

(* the generic C04 statements instantiated with A = list polynomials, den = Poly *)
Local Notation resultant_refP :=
  (resultant_ref (seq Z) [::] [:: Zpos xH] padd pneg pmul pis_zero).

Lemma resultant_refP_mathcomp (p q : seq (seq Z)) :
  last 1 (map (Poly : seq Z -> {poly Z}) p) != 0 -> last 1 (map (Poly : seq Z -> {poly Z}) q) != 0 ->
  Poly (resultant_refP p q) = (-1) ^+ ((size p).-1 * (size q).-1) * resultant (BP p) (BP q).
Proof.
exact: (@resultant_ref_mathcomp _ (seq Z) [::] [:: Zpos xH] padd pneg pmul pis_zero Poly erefl Poly_one
          Poly_padd Poly_pneg Poly_pmul pis_zero_Poly p q).
Qed.

Lemma mdetP_det n (m : seq (seq (seq Z))) :
  Poly (mdet (seq Z) [::] [:: Zpos xH] padd pneg pmul pis_zero n m) = \det (mxP n m).
Proof.
exact: (@mdet_det _ (seq Z) [::] [:: Zpos xH] padd pneg pmul pis_zero Poly erefl Poly_one
          Poly_padd Poly_pneg Poly_pmul pis_zero_Poly n m).
Qed.

(* entries of RefAlg.sylvester *)
Lemma nth_sylv_row (l : seq (seq Z)) (i k c : nat) :
  nth [::] (nseq i [::] ++ rev l ++ nseq k [::]) c =
  if (i <= c)%N && (c < i + size l)%N then nth [::] l (i + (size l).-1 - c) else [::].
Proof.
rewrite nth_cat size_nseq; case: ltnP => Hic /=; first by rewrite nth_nseq Hic.
rewrite nth_cat size_rev ltn_subLR //; case: ltnP => Hc; last by rewrite nth_nseq; case: ifP.
rewrite nth_rev; last by rewrite ltn_subLR.
by congr (nth _ _ _); lia.
Qed.

Lemma sylvester_rev_ent (a b : seq (seq Z)) (i c : nat) :
  let m := (size a).-1 in let n := (size b).-1 in
  (0 < size a)%N -> (0 < size b)%N -> (i < n + m)%N -> (c < n + m)%N ->
  nth [::] (nth [::] (sylvester (List.rev a) (List.rev b)) i) c =
  if (i < n)%N then (if (c <= m + i)%N then nth [::] a (m + i - c) else [::])
  else (if (c <= n + (i - n))%N then nth [::] b (n + (i - n) - c) else [::]).
Proof.
move=> m n Ha Hb Hi Hc; rewrite /sylvester !List.rev_length.
have -> : Nat.pred (length a) = m by [].
have -> : Nat.pred (length b) = n by [].
rewrite !List_seq_iota !List_rev_rev nth_cat size_map size_iota.
case: ltnP => Hin.
  rewrite (nth_map 0%N) ?size_iota // nth_iota // add0n !List_repeat_nseq nth_sylv_row.
  have -> : (i + size a)%N = (m + i).+1 by rewrite /m; lia.
  rewrite ltnS; case: (leqP c (m + i)) => H1; last by rewrite andbF.
  case: (leqP i c) => H2 /=; first by congr (nth _ _ _); lia.
  by rewrite nth_default //; lia.
have Him : (i - n < m)%N by lia.
rewrite (nth_map 0%N) ?size_iota // nth_iota // add0n !List_repeat_nseq nth_sylv_row.
have -> : (i - n + size b)%N = (n + (i - n)).+1 by rewrite /n; lia.
rewrite ltnS; case: (leqP c (n + (i - n))) => H1; last by rewrite andbF.
case: (leqP (i - n) c) => H2 /=; first by congr (nth _ _ _); lia.
by rewrite nth_default //; lia.
Qed.

Lemma size_sylvester_rev (a b : seq (seq Z)) :
  (0 < size a)%N -> (0 < size b)%N ->
  size (sylvester (List.rev a) (List.rev b)) = ((size b).-1 + (size a).-1)%N /\
  all (fun r : seq (seq Z) => size r == ((size b).-1 + (size a).-1)%N) (sylvester (List.rev a) (List.rev b)).
Proof.
move=> Ha Hb; rewrite /sylvester !List.rev_length.
have -> : Nat.pred (length a) = (size a).-1 by [].
have -> : Nat.pred (length b) = (size b).-1 by [].
rewrite !List_seq_iota !List_rev_rev; split.
  by rewrite size_cat !size_map !size_iota.
rewrite all_cat !all_map; apply/andP; split; apply/allP => i; rewrite mem_iota add0n => /andP[_ Hi] /=.
  by rewrite !List_repeat_nseq !size_cat !size_nseq size_rev; apply/eqP; lia.
by rewrite !List_repeat_nseq !size_cat !size_nseq size_rev; apply/eqP; lia.
Qed.

(* the matrix of RefAlg.sylvester is the matrix of the C04 reference Sylvester matrix *)
Lemma mxP_sylvester (a b : seq (seq Z)) : (0 < size a)%N -> (0 < size b)%N ->
  mxP ((size b).-1 + (size a).-1) (sylvester (List.rev a) (List.rev b)) =
  mxP ((size b).-1 + (size a).-1) (sylv_mat (seq Z) [::] 0 0 a b).
Proof.
move=> Ha Hb; apply/matrixP => i c; rewrite !mxE sylvester_rev_ent //.
have := @ent_sylv0 _ (seq Z) [::] (Poly : seq Z -> {poly Z}) erefl a b i c (ltn_ord i) (ltn_ord c).
rewrite /ent => ->.
by case: ifP => _; case: ifP.
Qed.

(* G2: the reference resultant (Bareiss determinant of the Sylvester matrix) is the classical resultant *)
Theorem bires_resultant (a b : seq (seq Z)) :
  Poly (last [::] a) != 0 -> Poly (last [::] b) != 0 ->
  Poly (bires a b) = (-1) ^+ ((size a).-1 * (size b).-1) * resultant (BP a) (BP b).
Proof.
move=> Hla Hlb.
have Ha : (0 < size a)%N by case: a Hla => //=; rewrite eqxx.
have Hb : (0 < size b)%N by case: b Hlb => //=; rewrite eqxx.
have [Hs Hall] := size_sylvester_rev Ha Hb.
rewrite /bires Poly_pnorm (pdet_fast_det Hs Hall) mxP_sylvester // -mdetP_det.
have Hla' : last 1 (map (Poly : seq Z -> {poly Z}) a) != 0 by case: (a) Ha Hla => [|x s] //= _; rewrite last_map.
have Hlb' : last 1 (map (Poly : seq Z -> {poly Z}) b) != 0 by case: (b) Hb Hlb => [|x s] //= _; rewrite last_map.
rewrite -(resultant_refP_mathcomp Hla' Hlb') /resultant_ref /sylv_det.
congr (Poly (mdet _ _ _ _ _ _ _ _ _)).
by change (length a) with (size a); change (length b) with (size b); lia.
Qed.

(* ---------------------------------------------------------------- resultants against a polynomial constant in z *)
Local Notation "p ^:P" := (map_poly polyC p) (at level 2, format "p ^:P") : ring_scope.
Local Notation "'Y" := 'X%:P : ring_scope.

Section ResultantConst.
Variable D : idomainType.

(* P(t) against B(t, z) whose leading coefficient as a polynomial in z is a non-zero constant: the resultant in t is a
   non-zero polynomial in z (same argument as MathComp's sub_annihilant_neq0) *)
Lemma resultant_constP_neq0 (P : {poly D}) (B : {poly {poly D}}) (c : D) :
  P != 0 -> c != 0 -> lead_coef (swapXY B) = c%:P -> resultant P^:P B != 0.
Proof.
move=> nzP nzc HB.
have nzB : B != 0 by rewrite -swapXY_eq0 -lead_coef_eq0 HB polyC_eq0.
have nzP1 : P^:P != 0 by rewrite map_polyC_eq0.
rewrite resultant_eq0 -leqNgt eq_leq //; apply/eqP/Bezout_coprimepPn => // [[[u v]]] /=.
rewrite !size_poly_gt0 -andbA => /and4P[nz_u ltu nz_v ltv] Duv.
have /eqP/= := congr1 (size \o (lead_coef \o swapXY)) Duv.
rewrite !rmorphM !lead_coefM /= swapXY_map_polyC lead_coefC HB.
rewrite gtn_eqF // [_ * c%:P]mulrC size_Cmul //.
apply: leq_ltn_trans (max_size_lead_coefXY _) _.
rewrite sizeYE swapXYK; apply: leq_trans ltv _.
rewrite size_map_polyC.
have nzl : lead_coef (swapXY u) != 0 by rewrite lead_coef_eq0 swapXY_eq0.
by rewrite size_mul // (polySpred nzl) addSn /= leq_addl.
Qed.

End ResultantConst.

Section ResultantRoot.
Variables (R : comRingType) (f : {rmorphism Z -> R}).
Local Notation ev s := (horner_eval s \o map_poly f).

Lemma ev_polyC (s : R) (c : Z) : ev s c%:P = f c.
Proof. by rewrite /= map_polyC /horner_eval hornerC. Qed.

Lemma map_ev_polyC (s : R) (P : {poly Z}) : map_poly (ev s) P^:P = map_poly f P.
Proof. by rewrite -map_poly_comp; apply: eq_map_poly => c; rewrite [LHS]ev_polyC. Qed.

(* a common root of P and of B(., s) is a root in s of the resultant *)
Lemma resultant_root (P : {poly Z}) (B : {poly {poly Z}}) (a s : R) :
  (1 < size P)%N -> (1 < size B)%N -> (map_poly f P).[a] = 0 -> (map_poly (ev s) B).[a] = 0 ->
  (map_poly f (resultant P^:P B)).[s] = 0.
Proof.
move=> sP sB Pa Ba.
have sP1 : (1 < size P^:P)%N by rewrite size_map_polyC.
have [uv _ Dr] := resultant_in_ideal sP1 sB.
have := congr1 (fun w => (map_poly (ev s) w).[a]) Dr.
rewrite map_polyC hornerC rmorphD !rmorphM hornerD !hornerM /= map_ev_polyC Pa Ba !mulr0 addr0.
by [].
Qed.

End ResultantRoot.

(* ---------------------------------------------------------------- denotation of the bivariate list operations *)
Lemma BP_nil : BP [::] = 0. Proof. by []. Qed.
Lemma BP_cons x l : BP (x :: l) = (Poly x)%:P + BP l * 'X.
Proof. by rewrite /BP /= cons_poly_def addrC. Qed.

Lemma BP_rcons l x : BP (rcons l x) = BP l + (Poly x)%:P * 'X^(size l).
Proof.
elim: l => [|y l IH] /=; first by rewrite !BP_cons BP_nil mul0r addr0 add0r expr0 mulr1.
by rewrite !BP_cons IH mulrDl addrA exprSr mulrA.
Qed.

Lemma bp_add_cons x a y b : bp_add (x :: a) (y :: b) = padd x y :: bp_add a b.
Proof. by []. Qed.

Lemma BP_bp_add a b : BP (bp_add a b) = BP a + BP b.
Proof.
elim: a b => [|x a IH] [|y b]; rewrite ?BP_nil ?add0r ?addr0 //.
by rewrite bp_add_cons !BP_cons IH Poly_padd polyCD mulrDl addrACA.
Qed.

Lemma BP_bp_scale c a : BP (bp_scale c a) = (Poly c)%:P * BP a.
Proof.
elim: a => [|x a IH]; first by rewrite /= BP_nil mulr0.
by rewrite /= !BP_cons IH Poly_pmul polyCM mulrDr mulrA.
Qed.

Lemma BP_bp_mul a b : BP (bp_mul a b) = BP a * BP b.
Proof.
elim: a => [|x a IH]; first by rewrite /= BP_nil mul0r.
rewrite /= BP_bp_add BP_bp_scale !BP_cons IH /= polyC0 add0r.
by rewrite mulrDl mulrAC.
Qed.

Lemma Poly_constz (c : Z) : Poly (if Z.eqb c Z0 then [::] else [:: c]) = c%:P.
Proof. by rewrite ZeqbP; case: eqP => [->|_] /=; rewrite ?polyC0 // cons_poly_def mul0r add0r. Qed.

Lemma bp_comp_cons c p s :
  bp_comp (c :: p) s = bp_add [:: if Z.eqb c Z0 then [::] else [:: c]] (bp_mul s (bp_comp p s)).
Proof. by []. Qed.

Lemma BP_bp_comp p s : BP (bp_comp p s) = (Poly p)^:P \Po BP s.
Proof.
elim: p => [|c p IH]; first by rewrite /= BP_nil rmorph0 comp_poly0.
rewrite bp_comp_cons BP_bp_add BP_bp_mul IH BP_cons BP_nil mul0r addr0 Poly_constz.
rewrite Poly_cons0 rmorphD rmorphM /= map_polyX map_polyC /= comp_polyD comp_polyM comp_polyX comp_polyC.
by rewrite mulrC.
Qed.

Lemma BP_bp_of_upoly p : BP (bp_of_upoly p) = (Poly p)^:P.
Proof.
rewrite /bp_of_upoly -(Poly_pnorm p); elim: (pnorm p) => [|c l IH]; first by rewrite BP_nil /= rmorph0.
by rewrite /= BP_cons IH Poly_constz cons_poly_def rmorphD rmorphM /= map_polyX map_polyC addrC.
Qed.

Lemma last_bp_of_upoly p : Poly p != 0 -> Poly (last [::] (bp_of_upoly p)) != 0.
Proof.
move=> p0; rewrite /bp_of_upoly.
have := last_pnorm_neq0 p.
have : pnorm p != [::] by apply/eqP => /pnorm_nilP/eqP; rewrite (negbTE p0).
case: (pnorm p) => [|c l] // _ /=.
by rewrite !last_map Poly_constz polyC_eq0.
Qed.

Fixpoint bdrop (l : seq (seq Z)) : seq (seq Z) :=
  match l with [::] => [::] | x :: l' => if pis_zero x then bdrop l' else l end.

Lemma bp_trimE a : bp_trim a = rev (bdrop (rev a)).
Proof. by rewrite /bp_trim !List_rev_rev. Qed.

Lemma BP_bp_trim a : BP (bp_trim a) = BP a.
Proof.
rewrite bp_trimE -{2}(revK a); elim: (rev a) => [|x r IH] //=.
case E: (pis_zero x) => //.
by rewrite IH rev_cons BP_rcons (pis_zeroP _ E) polyC0 mul0r addr0.
Qed.

Lemma last_bp_trim a : BP a != 0 -> Poly (last [::] (bp_trim a)) != 0.
Proof.
rewrite -BP_bp_trim bp_trimE; elim: (rev a) => [|x r IH] /=; first by rewrite BP_nil eqxx.
case E: (pis_zero x) => // _.
by rewrite rev_cons last_rcons; apply/negP => /eqP/pis_zeroP; rewrite E.
Qed.

(* ---------------------------------------------------------------- annihilator of a sum *)
Lemma Poly_X : Poly [:: Z0; Zpos xH] = 'X :> {poly Z}.
Proof. by rewrite !Poly_cons0 /= polyC0 add0r mul0r addr0 mul1r. Qed.
Lemma Poly_N1 : Poly [:: Zneg xH] = -1 :> {poly Z}.
Proof. by rewrite Poly_cons0 /= mul0r addr0 -polyCN. Qed.

Lemma BP_YmX : BP [:: [:: Z0; Zpos xH]; [:: Zneg xH]] = 'Y - 'X.
Proof. by rewrite !BP_cons BP_nil mul0r addr0 Poly_X Poly_N1 polyCN mulNr mul1r. Qed.

(* q(z - t) as a polynomial in t over Z[z] *)
Definition Badd (Q : {poly Z}) : {poly {poly Z}} := Q^:P \Po ('Y - 'X).

Lemma size_YmX : size ('Y - 'X : {poly {poly Z}}) = 2%N.
Proof. by rewrite -opprB size_opp size_XsubC. Qed.

Lemma size_Badd Q : size (Badd Q) = size Q.
Proof. by rewrite /Badd size_comp_poly2 ?size_YmX // size_map_polyC. Qed.

Lemma lead_swap_Badd Q : lead_coef (swapXY (Badd Q)) = (lead_coef Q)%:P.
Proof.
rewrite /Badd swapXY_comp_poly rmorphB /= swapXY_X swapXY_Y.
rewrite lead_coef_comp ?size_XsubC // lead_coefXsubC expr1n mulr1.
by rewrite lead_coef_map_inj //; apply: polyC_inj.
Qed.

Lemma ann_add_res (p q : seq Z) : Poly p != 0 -> Poly q != 0 ->
  exists k : nat, Poly (ann_add p q) = (-1) ^+ k * resultant (Poly p)^:P (Badd (Poly q)).
Proof.
move=> p0 q0; rewrite /ann_add.
have EB : BP (bp_trim (bp_comp (pnorm q) [:: [:: Z0; Zpos xH]; [:: Zneg xH]])) = Badd (Poly q).
  by rewrite BP_bp_trim BP_bp_comp BP_YmX Poly_pnorm.
have nzB : BP (bp_comp (pnorm q) [:: [:: Z0; Zpos xH]; [:: Zneg xH]]) != 0.
  by rewrite -BP_bp_trim EB -size_poly_eq0 size_Badd size_poly_eq0.
rewrite (bires_resultant (last_bp_of_upoly p0) (last_bp_trim nzB)) EB BP_bp_of_upoly.
by eexists.
Qed.

Theorem ann_add_neq0 (p q : seq Z) : Poly p != 0 -> Poly q != 0 -> Poly (ann_add p q) != 0.
Proof.
move=> p0 q0; have [k ->] := ann_add_res p0 q0.
rewrite mulf_neq0 ?signr_eq0 //.
apply: (@resultant_constP_neq0 _ _ _ (lead_coef (Poly q))) => //; first by rewrite lead_coef_eq0.
exact: lead_swap_Badd.
Qed.

(* ---- roots, in any real closed field *)
Section AnnRoots.
Variable R : rcfType.
Local Notation zr := (@zr R).
Local Notation pr := (@pr R).
Local Notation zrm := (zr_rmorphism R).
Local Notation ev s := (horner_eval s \o map_poly zrm).

Lemma size_pr (p : seq Z) : size (pr p) = size (Poly p).
Proof. by rewrite /RefAlgSpec.pr size_map_inj_poly ?zr0 //; exact: zr_inj. Qed.

Lemma root_size_Poly (p : seq Z) (a : R) : Poly p != 0 -> root (pr p) a -> (1 < size (Poly p))%N.
Proof. by move=> p0 ra; rewrite -size_pr; apply: root_size_gt1 ra; rewrite pr_eq0. Qed.

Lemma pr_sign_res (x : seq Z) (k : nat) (r : {poly Z}) (s : R) :
  Poly x = (-1) ^+ k * r -> (map_poly zrm r).[s] = 0 -> root (pr x) s.
Proof.
move=> Ex Hr; rewrite rootE /RefAlgSpec.pr Ex.
have -> : map_poly zr ((-1) ^+ k * r) = (-1) ^+ k * map_poly zrm r.
  by rewrite (rmorphM (map_poly_rmorphism zrm)) (rmorphX (map_poly_rmorphism zrm)) (rmorphN1 (map_poly_rmorphism zrm)).
by rewrite hornerM Hr mulr0.
Qed.

Lemma ev_X (s : R) : ev s 'X = s.
Proof. by rewrite /= map_polyX /horner_eval hornerX. Qed.

(* G3: a + b is a root of ann_add p q *)
Theorem ann_add_root (p q : seq Z) (a b : R) : Poly p != 0 -> Poly q != 0 ->
  root (pr p) a -> root (pr q) b -> root (pr (ann_add p q)) (a + b).
Proof.
move=> p0 q0 ra rb; have [k Ek] := ann_add_res p0 q0.
apply: pr_sign_res Ek _; apply: (@resultant_root _ zrm _ _ a).
- exact: root_size_Poly ra.
- by rewrite size_Badd; exact: root_size_Poly rb.
- exact/eqP.
rewrite /Badd poly.map_comp_poly map_ev_polyC rmorphB /= map_polyC map_polyX [X in X%:P]ev_X.
by rewrite horner_comp hornerD hornerN hornerC hornerX addrAC subrr add0r; exact/eqP.
Qed.

End AnnRoots.

(* ---------------------------------------------------------------- annihilator of a product *)
(* t^n q(z / t), n = deg q, as a polynomial in t over Z[z]: the coefficient of t^j is q_(n-j) z^(n-j) *)
Definition Bmul (Q : {poly Z}) : {poly {poly Z}} :=
  \poly_(j < size Q) (Q`_((size Q).-1 - j) *: 'X^((size Q).-1 - j)).

Lemma BP_map_iota (g : nat -> seq Z) m : BP (map g (iota 0 m)) = \poly_(j < m) Poly (g j).
Proof.
elim: m => [|m IH]; first by rewrite BP_nil poly_def big_ord0.
rewrite -[in iota _ _]addn1 iotaD add0n /= map_cat /= cats1 BP_rcons IH size_map size_iota.
by rewrite !poly_def big_ord_recr /= mul_polyC.
Qed.

Lemma BP_map_pnorm l : BP (map pnorm l) = BP l.
Proof. by rewrite /BP -map_comp; congr Poly; apply: eq_map => x /=; rewrite Poly_pnorm. Qed.

Lemma ann_mul_res (p q : seq Z) : Poly p != 0 -> Poly q != 0 -> Bmul (Poly q) != 0 ->
  exists k : nat, Poly (ann_mul p q) = (-1) ^+ k * resultant (Poly p)^:P (Bmul (Poly q)).
Proof.
move=> p0 q0 nzB; rewrite /ann_mul.
set b := List.map _ _.
have Eb : BP b = Bmul (Poly q).
  rewrite /b !List_map_map BP_map_pnorm List_seq_iota BP_map_iota /Bmul.
  have -> : (Nat.pred (length (pnorm q))).+1 = size (Poly q).
    by rewrite -size_Poly_pnorm prednK // size_poly_gt0.
  apply: eq_poly => j.
  rewrite Poly_pshift Poly_cons0 /= mul0r addr0 mul_polyC List_nth_nth -coef_Poly_nth Poly_pnorm.
  by rewrite size_Poly_pnorm.
have EB : BP (bp_trim b) = Bmul (Poly q) by rewrite BP_bp_trim.
have nzB' : BP b != 0 by rewrite Eb.
rewrite (bires_resultant (last_bp_of_upoly p0) (last_bp_trim nzB')) EB BP_bp_of_upoly.
by eexists.
Qed.

Lemma coef_swap_Bmul Q i :
  (swapXY (Bmul Q))`_i = if (i <= (size Q).-1)%N then Q`_i *: 'X^((size Q).-1 - i) else 0.
Proof.
apply/polyP => j; rewrite coef_swapXY coef_poly.
case: (ltnP j (size Q)) => Hj.
  rewrite coefZ coefXn; case: (leqP i (size Q).-1) => Hi; last first.
    by rewrite coef0 (_ : (i == _) = false) ?mulr0 //; apply/eqP; lia.
  rewrite coefZ coefXn; case: (altP (i =P _)) => [Ei|Hne].
    have -> : (j == ((size Q).-1 - i)%N) = true by apply/eqP; lia.
    by rewrite Ei.
  have -> : (j == ((size Q).-1 - i)%N) = false by apply/eqP => Ej; move/eqP: Hne; apply; lia.
  by rewrite !mulr0.
rewrite coef0; case: ifP => Hi; last by rewrite coef0.
rewrite coefZ coefXn.
case: (posnP (size Q)) => [s0|spos]; first by rewrite [Q`_i]nth_default ?s0 // scale0r coef0.
have -> : (j == ((size Q).-1 - i)%N) = false by apply/eqP; lia.
by rewrite mulr0.
Qed.

Lemma coef_neq0_size (D : ringType) (u : {poly D}) i : u`_i != 0 -> (i < size u)%N.
Proof. by move=> H; rewrite ltnNge; apply/negP => Hs; move/eqP: H; apply; exact: nth_default. Qed.

Lemma lead_swap_Bmul Q : Q != 0 -> lead_coef (swapXY (Bmul Q)) = (lead_coef Q)%:P.
Proof.
move=> Q0; set W := swapXY _.
have Wn : W`_(size Q).-1 = (lead_coef Q)%:P.
  by rewrite coef_swap_Bmul leqnn subnn expr0 alg_polyC lead_coefE.
have sW : size W = (size Q).-1.+1.
  apply/eqP; rewrite eqn_leq; apply/andP; split.
    by apply/leq_sizeP => i Hi; rewrite coef_swap_Bmul leqNgt Hi.
  by apply: coef_neq0_size; rewrite Wn polyC_eq0 lead_coef_eq0.
by rewrite lead_coefE sW.
Qed.

Lemma Bmul_neq0 Q : Q != 0 -> Bmul Q != 0.
Proof.
by move=> Q0; rewrite -swapXY_eq0 -lead_coef_eq0 lead_swap_Bmul // polyC_eq0 lead_coef_eq0.
Qed.

Theorem ann_mul_neq0 (p q : seq Z) : Poly p != 0 -> Poly q != 0 -> Poly (ann_mul p q) != 0.
Proof.
move=> p0 q0; have [k ->] := ann_mul_res p0 q0 (Bmul_neq0 q0).
rewrite mulf_neq0 ?signr_eq0 //.
apply: (@resultant_constP_neq0 _ _ _ (lead_coef (Poly q))) => //; first by rewrite lead_coef_eq0.
exact: lead_swap_Bmul.
Qed.

Section AnnRoots2.
Variable R : rcfType.
Local Notation zr := (@zr R).
Local Notation pr := (@pr R).
Local Notation zrm := (zr_rmorphism R).
Local Notation ev s := (horner_eval s \o map_poly zrm).

Lemma horner_pr_sum (Q : {poly Z}) (b : R) : (map_poly zr Q).[b] = \sum_(k < size Q) zr Q`_k * b ^+ k.
Proof. by rewrite /map_poly horner_poly. Qed.

Lemma map_ev_Bmul (s : R) (Q : {poly Z}) :
  map_poly (ev s) (Bmul Q) = \poly_(j < size Q) (zr Q`_((size Q).-1 - j) * s ^+ ((size Q).-1 - j)).
Proof.
apply/polyP => j; rewrite coef_map coef_poly /= [in RHS]coef_poly; case: ifP => _.
  by rewrite map_polyZ /= map_polyXn /horner_eval hornerZ hornerXn.
by rewrite rmorph0 /horner_eval horner0.
Qed.

Lemma horner_ev_Bmul (a b : R) (Q : {poly Z}) :
  (map_poly (ev (a * b)) (Bmul Q)).[a] = a ^+ (size Q).-1 * (map_poly zr Q).[b].
Proof.
rewrite map_ev_Bmul horner_poly horner_pr_sum mulr_sumr.
rewrite [RHS](reindex_inj rev_ord_inj) /=; apply: eq_bigr => j _.
have -> : (size Q - j.+1)%N = ((size Q).-1 - j)%N by lia.
have Hj : (j <= (size Q).-1)%N by rewrite -ltnS (leq_trans (ltn_ord j)) // leqSpred.
have -> : a ^+ (size Q).-1 = a ^+ ((size Q).-1 - j) * a ^+ j by rewrite -exprD subnK.
rewrite exprMn.
move: (zr _) (a ^+ (_ - _)) (b ^+ _) (a ^+ j) => x y z w; ring.
Qed.

Lemma size_Bmul_gt1 (Q : {poly Z}) (b : R) :
  Q != 0 -> b != 0 -> (map_poly zr Q).[b] = 0 -> (1 < size (Bmul Q))%N.
Proof.
move=> Q0 b0 Hb; rewrite ltnNge; apply/negP => Hs.
have sQ : size Q = (size Q).-1.+1 by rewrite prednK // size_poly_gt0.
have Hz (k : nat) : (k < (size Q).-1)%N -> Q`_k = 0.
  move=> Hk; have Hj : (0 < (size Q).-1 - k)%N by lia.
  have := leq_sizeP _ _ Hs _ Hj; rewrite coef_poly.
  have -> : ((size Q).-1 - k < size Q)%N by lia.
  have -> : ((size Q).-1 - ((size Q).-1 - k))%N = k by lia.
  by move/(congr1 (fun u : {poly Z} => u`_k)); rewrite coefZ coefXn eqxx mulr1 coef0.
move: Hb; rewrite horner_pr_sum sQ big_ord_recr /= big1 ?add0r; last first.
  by move=> k _; rewrite Hz ?zr0 ?mul0r.
move/eqP; rewrite mulf_eq0 expf_eq0 (negbTE b0) andbF orbF zr_eq0 ZeqbP -lead_coefE lead_coef_eq0.
by rewrite (negbTE Q0).
Qed.

(* G3: a * b is a root of ann_mul p q.  Extra hypothesis b <> 0: for q = c x^n (only root 0) the second operand of the
   resultant is constant in t and MathComp's resultant_in_ideal does not apply; the reference multiplies only non-zero
   numbers through ann_mul (rn_mul answers 0 directly when a factor is 0) *)
Theorem ann_mul_root (p q : seq Z) (a b : R) : Poly p != 0 -> Poly q != 0 -> b != 0 ->
  root (pr p) a -> root (pr q) b -> root (pr (ann_mul p q)) (a * b).
Proof.
move=> p0 q0 b0 ra rb; have [k Ek] := ann_mul_res p0 q0 (Bmul_neq0 q0).
have Hb : (map_poly zr (Poly q)).[b] = 0 by apply/eqP.
apply: pr_sign_res Ek _; apply: (@resultant_root _ zrm _ _ a).
- exact: root_size_Poly ra.
- exact: size_Bmul_gt1 Hb.
- exact/eqP.
by rewrite horner_ev_Bmul Hb mulr0.
Qed.

End AnnRoots2.

(* ---------------------------------------------------------------- annihilator of a power *)
Definition Bpow (n : nat) : {poly {poly Z}} := 'Y - 'X^n.

Lemma BP_nseq_cat k l : BP (nseq k [::] ++ l) = BP l * 'X^k.
Proof.
elim: k => [|k IH]; first by rewrite expr0 mulr1.
by rewrite /= BP_cons IH /= polyC0 add0r exprSr mulrA.
Qed.

Lemma BP_pow_list n : (0 < n)%N ->
  BP ([:: [:: Z0; Zpos xH]] ++ List.repeat [::] (Nat.pred n) ++ [:: [:: Zneg xH]]) = Bpow n.
Proof.
case: n => // n _; rewrite /= List_repeat_nseq BP_cons BP_nseq_cat !BP_cons BP_nil mul0r addr0.
by rewrite Poly_X Poly_N1 polyCN mulNr mul1r mulNr -exprSr.
Qed.

Lemma size_Bpow n : (0 < n)%N -> size (Bpow n) = n.+1.
Proof.
move=> Hn; rewrite /Bpow -opprB size_opp size_addl ?size_polyXn // size_opp size_polyC.
by case: eqP.
Qed.

Lemma lead_swap_Bpow n : lead_coef (swapXY (Bpow n)) = 1%:P.
Proof.
rewrite /Bpow rmorphB rmorphX /= swapXY_X swapXY_Y -rmorphX /= lead_coefXsubC.
by [].
Qed.

Lemma ann_pow_res (p : seq Z) n : Poly p != 0 -> (0 < n)%N ->
  exists k : nat, Poly (ann_pow p n) = (-1) ^+ k * resultant (Poly p)^:P (Bpow n).
Proof.
move=> p0 Hn; rewrite /ann_pow.
set l := (_ ++ _)%list.
have El : BP l = Bpow n by exact: BP_pow_list.
have nzB : BP l != 0 by rewrite El -size_poly_eq0 size_Bpow.
rewrite (bires_resultant (last_bp_of_upoly p0) (last_bp_trim nzB)) BP_bp_trim El BP_bp_of_upoly.
by eexists.
Qed.

Theorem ann_pow_neq0 (p : seq Z) n : Poly p != 0 -> (0 < n)%N -> Poly (ann_pow p n) != 0.
Proof.
move=> p0 Hn; have [k ->] := ann_pow_res p0 Hn.
rewrite mulf_neq0 ?signr_eq0 //.
apply: (@resultant_constP_neq0 _ _ _ 1) => //; exact: lead_swap_Bpow.
Qed.

Section AnnRoots3.
Variable R : rcfType.
Local Notation zr := (@zr R).
Local Notation pr := (@pr R).
Local Notation zrm := (zr_rmorphism R).
Local Notation ev s := (horner_eval s \o map_poly zrm).

Theorem ann_pow_root (p : seq Z) n (a : R) : Poly p != 0 -> (0 < n)%N ->
  root (pr p) a -> root (pr (ann_pow p n)) (a ^+ n).
Proof.
move=> p0 Hn ra; have [k Ek] := ann_pow_res p0 Hn.
apply: pr_sign_res Ek _; apply: (@resultant_root _ zrm _ _ a).
- exact: root_size_Poly ra.
- by rewrite size_Bpow.
- exact/eqP.
rewrite /Bpow rmorphB rmorphX /= map_polyC map_polyX [X in X%:P]ev_X.
by rewrite hornerD hornerN hornerC hornerXn subrr.
Qed.

End AnnRoots3.

(* ---------------------------------------------------------------- the slow reference: Laplace expansion (pdet, bires_ref) *)
Lemma remove_nth_drop (T : Type) (j : nat) (l : seq T) : remove_nth j l = sy_drop_nth T j l.
Proof. by elim: l j => [|x l IH] [|j] //=; rewrite IH. Qed.

Lemma size_remove_nth (T : Type) (j : nat) (l : seq T) : (j < size l)%N -> size (remove_nth j l) = (size l).-1.
Proof. by elim: l j => [|x l IH] [|j] //= Hj; rewrite IH //; case: (l) Hj. Qed.

Definition pdet_step (f : nat) (rest : seq (seq (seq Z))) (acc : nat * seq Z) (a : seq Z) : nat * seq Z :=
  let j := acc.1 in
  let minor := List.map (remove_nth j) rest in
  let t := if pis_zero a then [::] else pmul a (pdet f minor) in
  (j.+1, if Nat.even j then padd acc.2 t else psub acc.2 t).

Lemma pdet_S f row rest : pdet f.+1 (row :: rest) = (List.fold_left (pdet_step f rest) row (0%N, [::])).2.
Proof. by []. Qed.

Lemma pdet_fold f rest (l : seq (seq Z)) (j0 : nat) (acc : seq Z) :
  Poly (List.fold_left (pdet_step f rest) l (j0, acc)).2 =
  Poly acc + \sum_(k < size l) (-1) ^+ (j0 + k) * (Poly (nth [::] l k) * Poly (pdet f (map (remove_nth (j0 + k)) rest))).
Proof.
elim: l j0 acc => [|a l IH] j0 acc /=; first by rewrite big_ord0 addr0.
rewrite /pdet_step /= IH big_ord_recl /= addn0 addrA; congr (_ + _); last first.
  by apply: eq_bigr => k _; rewrite /bump /= add1n addnS addSn.
have Et : Poly (if pis_zero a then [::] else pmul a (pdet f (List.map (remove_nth j0) rest))) =
          Poly a * Poly (pdet f (map (remove_nth j0) rest)).
  by case E: (pis_zero a); rewrite ?Poly_pmul // (pis_zeroP _ E) mul0r.
rewrite Nat_even_odd -signr_odd; case: (odd j0) => /=.
  by rewrite Poly_psub Et expr1 mulN1r.
by rewrite Poly_padd Et expr0 mul1r.
Qed.

Theorem pdet_det n (m : seq (seq (seq Z))) :
  size m = n -> all (fun r : seq (seq Z) => size r == n) m -> Poly (pdet n m) = \det (mxP n m).
Proof.
elim: n m => [|n IH] m Hm Hall; first by rewrite det_mx00 /= cons_poly_def mul0r add0r.
case: m Hm Hall => [|row rest] // [Hrest]; rewrite [all _ _]/= => /andP[/eqP Hrow Hall].
rewrite pdet_S pdet_fold /= add0r Hrow (expand_det_row _ ord0).
apply: eq_bigr => j _; rewrite add0n /cofactor mxE /= add0n mulrCA; congr (_ * (_ * _)).
rewrite IH ?size_map //; last first.
  rewrite all_map; apply/allP => r Hr /=; have /eqP Hs := allP Hall r Hr.
  by rewrite size_remove_nth Hs.
congr (\det _); apply/matrixP => i k; rewrite !mxE /=.
rewrite (nth_map [::]) ?Hrest // remove_nth_drop nth_drop_nth.
by [].
Qed.

(* the Laplace-expansion resultant is the classical resultant as well, hence equals the Bareiss one *)
Theorem bires_ref_resultant (a b : seq (seq Z)) :
  Poly (last [::] a) != 0 -> Poly (last [::] b) != 0 ->
  Poly (bires_ref a b) = (-1) ^+ ((size a).-1 * (size b).-1) * resultant (BP a) (BP b).
Proof.
move=> Hla Hlb.
have Ha : (0 < size a)%N by case: a Hla => //=; rewrite eqxx.
have Hb : (0 < size b)%N by case: b Hlb => //=; rewrite eqxx.
have [Hs Hall] := size_sylvester_rev Ha Hb.
rewrite /bires_ref Poly_pnorm [length _]Hs (pdet_det Hs Hall) -(pdet_fast_det Hs Hall) -[RHS]bires_resultant //.
by rewrite /bires Poly_pnorm.
Qed.

Theorem bires_ref_bires (a b : seq (seq Z)) :
  Poly (last [::] a) != 0 -> Poly (last [::] b) != 0 -> bires_ref a b = bires a b.
Proof.
move=> Hla Hlb.
have E : Poly (bires_ref a b) = Poly (bires a b) by rewrite bires_ref_resultant // bires_resultant.
by move/Poly_inj_norm: E; rewrite /bires_ref /bires !GcdSpec.pnorm_idem.
Qed.
