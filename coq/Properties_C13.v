(* Property C13 - real feasibility sets behave as sets of reals in normal form.
   ONLY theorem statements, each closed by `exact` of a lemma from FeasSetProofs.v, with Print Assumptions
   beneath, and non-vacuity examples.  Model: FeasSet.v; vocabulary (total_order, WF, mem, mem_set, NF,
   rel_spec, P_spec, status_spec, union_le, qsorted, finite, dense): FeasSetSpec.v.

   Every theorem is for ALL carriers T with a total order `cmp` (the sign of lp_value_cmp on the denoted
   numbers; -inf and +inf are the carrier values minf / pinf) and for lists of intervals of ANY length. *)
From Coq Require Import ZArith List Bool Permutation Sorted.
From Coq Require Import Qcanon.
From LP Require Import Scalar FeasSet FeasSetSpec FeasSetProofs FeasSetDense FeasSetTransfer.
Import ListNotations.

(* ---- 1. lp_interval_cmp / lp_interval_cmp_with_intersect classify every pair of intervals *)

(* no assertion fails; with and without P the same relation is returned; the relation's defining condition on
   the end points holds; P is written exactly in the seven WITH_INTERSECT cases, is a well-formed interval that
   denotes the intersection (is I1 / I2 itself in the _I1 / _I2 cases); in the two NO_INTERSECT cases the
   intervals have no common point *)
Theorem C13_cmp_classifies : forall (T : Type) (cmp : T -> T -> comparison), total_order cmp ->
  forall X Y : itv T, WF cmp X -> WF cmp Y ->
  exists (r : rel) (P : option (itv T)),
    cmp_with_intersect cmp true X Y = Some (r, P) /\ itv_cmp cmp X Y = Some r /\
    rel_spec cmp r X Y /\ P_spec cmp r P X Y.
Proof. exact @cmp_classifies. Qed.
Print Assumptions C13_cmp_classifies.

(* the nine defining conditions are mutually exclusive (and, by the theorem above, exhaustive) *)
Theorem C13_cmp_relations_exclusive : forall (T : Type) (cmp : T -> T -> comparison), total_order cmp ->
  forall (X Y : itv T) (r r' : rel), WF cmp X -> WF cmp Y ->
  rel_spec cmp r X Y -> rel_spec cmp r' X Y -> r = r'.
Proof. exact @rel_spec_exclusive. Qed.
Print Assumptions C13_cmp_relations_exclusive.

(* the condition of LT_NO_INTERSECT (GT_NO_INTERSECT with the roles swapped) says what the name says *)
Theorem C13_cmp_no_intersect_is_below : forall (T : Type) (cmp : T -> T -> comparison), total_order cmp ->
  forall X Y : itv T, below cmp X Y -> forall v w : T, mem cmp v X -> mem cmp w Y -> cmp v w = Lt.
Proof. exact @below_mem. Qed.
Print Assumptions C13_cmp_no_intersect_is_below.

(* lp_interval_cmp_value / lp_interval_contains: 0 iff v is in the interval, > 0 iff v is below all of it,
   < 0 iff v is above all of it *)
Theorem C13_cmp_value : forall (T : Type) (cmp : T -> T -> comparison), total_order cmp ->
  forall (X : itv T) (v : T), WF cmp X ->
  match itv_cmp_value cmp X v with
  | Eq => mem cmp v X
  | Lt => forall w : T, mem cmp w X -> cmp w v = Lt
  | Gt => forall w : T, mem cmp w X -> cmp v w = Lt
  end.
Proof. exact @cmp_value_spec. Qed.
Print Assumptions C13_cmp_value.

(* ---- 2. lp_feasibility_set_intersect_with_status *)
(* no assertion fails; the result is in normal form; it contains exactly the values contained in both
   operands; the status is EMPTY when an operand is empty and otherwise S1 iff the result is s1, S2 iff it is
   s2 and not s1, EMPTY iff it is empty (and neither operand), NEW otherwise *)
Theorem C13_intersect : forall (T : Type) (cmp : T -> T -> comparison), total_order cmp ->
  forall s1 s2 : list (itv T), NF cmp s1 -> NF cmp s2 ->
  exists (r : list (itv T)) (st : status),
    fs_intersect cmp s1 s2 = Some (r, st) /\ NF cmp r /\
    (forall v : T, mem_set cmp v r <-> mem_set cmp v s1 /\ mem_set cmp v s2) /\
    status_spec st s1 s2 r.
Proof. exact @fs_intersect_point. Qed.
Print Assumptions C13_intersect.

(* ---- 3. lp_feasibility_set_add *)
(* no assertion fails (the three assert(0) branches are unreachable); the result is in normal form and contains
   exactly the values contained in either operand.  `from` only needs well-formed intervals.  (When s is the
   full set the C code returns s unchanged: then the equation is for the real numbers, the values strictly
   between -inf and +inf.) *)
Theorem C13_union : forall (T : Type) (cmp : T -> T -> comparison), total_order cmp ->
  forall (minf pinf : T) (s from : list (itv T)), NF cmp s -> Forall (WF cmp) from ->
  exists r : list (itv T),
    fs_add cmp minf pinf s from = Some r /\ NF cmp r /\
    (forall v : T, (fs_is_full cmp minf pinf s = true -> finite cmp minf pinf v) ->
       (mem_set cmp v r <-> mem_set cmp v s \/ mem_set cmp v from)).
Proof. exact @fs_add_point. Qed.
Print Assumptions C13_union.

(* the qsort comparator is a total order (lower bound ascending, then upper bound descending) that answers 0
   only for identical intervals, and it is antisymmetric ... *)
Theorem C13_sort_comparator : forall (T : Type) (cmp : T -> T -> comparison), total_order cmp ->
  forall X Y : itv T, WF cmp X -> WF cmp Y ->
  exists c, sort_for_union cmp X Y = Some c /\ (c <> Gt <-> union_le cmp X Y) /\ (c = Eq <-> X = Y) /\
            sort_for_union cmp Y X = Some (CompOpp c).
Proof. exact @sort_comparator. Qed.
Print Assumptions C13_sort_comparator.

(* ... and transitive (what the C standard requires of a qsort comparator) *)
Theorem C13_sort_comparator_transitive : forall (T : Type) (cmp : T -> T -> comparison), total_order cmp ->
  forall X Y Z : itv T, WF cmp X -> WF cmp Y -> WF cmp Z ->
  sort_for_union cmp X Y = Some Lt -> sort_for_union cmp Y Z = Some Lt -> sort_for_union cmp X Z = Some Lt.
Proof. exact @sort_comparator_trans. Qed.
Print Assumptions C13_sort_comparator_transitive.

(* so the result of lp_feasibility_set_add does not depend on qsort: whatever comparator-sorted arrangement
   l of the concatenated intervals the library's qsort produces, the fusing scan on l gives what the model
   (insertion sort) gives *)
Theorem C13_union_sort_independent : forall (T : Type) (cmp : T -> T -> comparison), total_order cmp ->
  forall (minf pinf : T) (s from l : list (itv T)), NF cmp s -> Forall (WF cmp) from ->
  from <> [] -> fs_is_full cmp minf pinf s = false ->
  Permutation l (s ++ from) -> qsorted cmp l ->
  fuse_sorted cmp l = fs_add cmp minf pinf s from.
Proof. exact @fs_add_any_sort. Qed.
Print Assumptions C13_union_sort_independent.

(* ---- 4. lp_feasibility_set_contains: the binary search never leaves the array, terminates within size+1
   iterations, and answers membership *)
Theorem C13_contains : forall (T : Type) (cmp : T -> T -> comparison), total_order cmp ->
  forall (s : list (itv T)) (v : T), NF cmp s ->
  exists b : bool, fs_contains cmp s v = Some b /\ (b = true <-> mem_set cmp v s).
Proof. exact @fs_contains_spec. Qed.
Print Assumptions C13_contains.

(* ---- 5. is_empty / is_full / is_point / to_interval *)
Theorem C13_is_empty_sound : forall (T : Type) (cmp : T -> T -> comparison),
  forall s : list (itv T), fs_is_empty s = true -> forall v : T, ~ mem_set cmp v s.
Proof. exact @is_empty_spec. Qed.
Print Assumptions C13_is_empty_sound.

(* on a dense carrier (the real line) a normal-form list that denotes the empty set is the empty list *)
Theorem C13_is_empty_complete : forall (T : Type) (cmp : T -> T -> comparison), total_order cmp ->
  forall s : list (itv T), dense cmp -> NF cmp s -> (forall v : T, ~ mem_set cmp v s) -> fs_is_empty s = true.
Proof. exact @is_empty_dense. Qed.
Print Assumptions C13_is_empty_complete.

(* is_full: every real number (value strictly between the infinities) is a member ... *)
Theorem C13_is_full_sound : forall (T : Type) (cmp : T -> T -> comparison), total_order cmp ->
  forall (minf pinf : T) (s : list (itv T)), fs_is_full cmp minf pinf s = true ->
  forall v : T, finite cmp minf pinf v -> mem_set cmp v s.
Proof. exact @is_full_mem. Qed.
Print Assumptions C13_is_full_sound.
(* ... and conversely on a dense carrier with -inf least, +inf greatest and no least / greatest finite value
   (the real line; C13_dense_bounded_carrier_exists), a normal-form list containing every real is (-inf, +inf) *)
Theorem C13_is_full_complete : forall (T : Type) (cmp : T -> T -> comparison), total_order cmp ->
  forall (minf pinf : T) (s : list (itv T)), dense cmp -> bounds cmp minf pinf -> NF cmp s ->
  (forall v : T, finite cmp minf pinf v -> mem_set cmp v s) -> fs_is_full cmp minf pinf s = true.
Proof. exact @is_full_dense. Qed.
Print Assumptions C13_is_full_complete.

(* is_point: the set is a singleton ... *)
Theorem C13_is_point_sound : forall (T : Type) (cmp : T -> T -> comparison), total_order cmp ->
  forall s : list (itv T), NF cmp s -> fs_is_point s = true ->
  exists a : T, forall v : T, mem_set cmp v s <-> v = a.
Proof. exact @is_point_spec. Qed.
Print Assumptions C13_is_point_sound.
(* ... and conversely on a dense carrier *)
Theorem C13_is_point_complete : forall (T : Type) (cmp : T -> T -> comparison), total_order cmp ->
  forall s : list (itv T), dense cmp -> NF cmp s ->
  (exists a : T, forall v : T, mem_set cmp v s <-> v = a) -> fs_is_point s = true.
Proof. exact @is_point_dense. Qed.
Print Assumptions C13_is_point_complete.

(* lp_feasibility_set_to_interval: no assertion fails on a non-empty set, the result is a well-formed
   interval that contains the whole set and starts exactly where the set starts *)
Theorem C13_to_interval : forall (T : Type) (cmp : T -> T -> comparison), total_order cmp ->
  forall s : list (itv T), NF cmp s -> s <> [] ->
  exists J : itv T, fs_to_interval cmp s = Some J /\ WF cmp J /\
    (forall v : T, mem_set cmp v s -> mem cmp v J) /\ (exists X : itv T, In X s /\ lb_eq J X).
Proof. exact @to_interval_spec. Qed.
Print Assumptions C13_to_interval.

(* ---- 6. integer queries (end points: rationals in lowest terms, -inf, +inf) *)
(* lp_interval_contains_int answers whether some integer belongs to the interval *)
Theorem C13_contains_int : forall X : itv xq, WFx X ->
  (itv_contains_int X = true <-> exists z : Z, int_mem z X).
Proof. exact itv_contains_int_spec. Qed.
Print Assumptions C13_contains_int.

(* lp_interval_count_int: a value below LONG_MAX is the exact number of integers in the interval (they form the
   range lo .. lo+count-1); LONG_MAX means that there are at least LONG_MAX of them (model of the code with
   fixes/C13-count-int-signed-overflow.patch, which computes the same values without signed overflow) *)
Theorem C13_count_int : forall X : itv xq, WFx X ->
  (0 <= itv_count_int X <= LONG_MAX)%Z /\
  ((itv_count_int X < LONG_MAX)%Z -> exists lo : Z, forall z : Z, int_mem z X <-> (lo <= z < lo + itv_count_int X)%Z) /\
  (itv_count_int X = LONG_MAX -> exists lo : Z, forall z : Z, (lo <= z < lo + LONG_MAX)%Z -> int_mem z X).
Proof. exact itv_count_int_spec. Qed.
Print Assumptions C13_count_int.

(* lp_feasibility_set_contains_int *)
Theorem C13_contains_int_set : forall s : list (itv xq), Forall WFx s ->
  (xs_contains_int s = true <-> exists z : Z, int_mem_set z s).
Proof. exact xs_contains_int_spec. Qed.
Print Assumptions C13_contains_int_set.

(* lp_feasibility_set_count_int: the running sum saturates at LONG_MAX ... *)
Theorem C13_count_int_set_sum : forall s : list (itv xq), Forall WFx s ->
  (0 <= xs_count_int s <= LONG_MAX)%Z /\
  ((xs_count_int s < LONG_MAX)%Z -> xs_count_int s = sum_counts s) /\
  (xs_count_int s = LONG_MAX -> (LONG_MAX <= sum_counts s)%Z).
Proof. exact xs_count_int_sum. Qed.
Print Assumptions C13_count_int_set_sum.

(* ... and, the intervals of a normal-form set being pairwise disjoint, a result below LONG_MAX is the CARDINALITY of
   the set of integers that belong to the set: there is a duplicate-free list of exactly the integer members, of
   that length *)
Theorem C13_count_int_set : forall s : list (itv xq), NF xq_cmp s -> Forall WFx s -> (xs_count_int s < LONG_MAX)%Z ->
  exists l : list Z, NoDup l /\ (forall z, In z l <-> int_mem_set z s) /\ Z.of_nat (length l) = xs_count_int s.
Proof. exact xs_count_int_card. Qed.
Print Assumptions C13_count_int_set.

(* LONG_MAX: at least LONG_MAX distinct integers belong to the set *)
Theorem C13_count_int_set_saturated : forall s : list (itv xq), NF xq_cmp s -> Forall WFx s -> xs_count_int s = LONG_MAX ->
  exists l : list Z, NoDup l /\ (forall z, In z l -> int_mem_set z s) /\ Z.of_nat (length l) = LONG_MAX.
Proof. exact xs_count_int_saturated. Qed.
Print Assumptions C13_count_int_set_saturated.

(* an interval with an infinite end makes the answer LONG_MAX *)
Theorem C13_count_int_set_infinite_end : forall s : list (itv xq), Forall WFx s ->
  (exists X, In X s /\ (ia X = XQMinf \/ ib X = XQPinf)) -> xs_count_int s = LONG_MAX.
Proof. exact xs_count_int_infinite. Qed.
Print Assumptions C13_count_int_set_infinite_end.

(* lp_feasibility_set_is_point_int: exactly one integer belongs to the set *)
Theorem C13_is_point_int : forall s : list (itv xq), NF xq_cmp s -> Forall WFx s ->
  (xs_is_point_int s = true <-> exists z, int_mem_set z s /\ forall z', int_mem_set z' s -> z' = z).
Proof. exact xs_is_point_int_card. Qed.
Print Assumptions C13_is_point_int.

(* the integer queries see an end point only through (is_infinity, is_integer, floor, ceiling): on rational end
   points they are the [epi] programs that the model driver also runs on ALGEBRAIC end points, with that view
   computed exactly by the reference RefAlg (rn_is_integer / rn_floor / rn_ceiling) *)
Theorem C13_int_queries_by_floor_ceiling : forall s : list (itv xq),
  (forall X, itv_contains_int X = ei_contains_int (epi_itv X)) /\
  (forall X, itv_count_int X = ei_count_int (epi_itv X)) /\
  xs_contains_int s = es_contains_int (map epi_itv s) /\
  xs_count_int s = es_count_int (map epi_itv s) /\
  xs_is_point_int s = es_is_point_int (map epi_itv s).
Proof. exact (fun s => conj itv_contains_int_epi (conj itv_count_int_epi (xs_int_queries_epi s))). Qed.
Print Assumptions C13_int_queries_by_floor_ceiling.

(* the [epi] programs answer for the integers that the views admit (ei_mem: an integer-only reading of the views),
   whatever kind of number the end points are, provided the views are consistent (view_wf) *)
Theorem C13_contains_int_view : forall X : itv epi, view_wf X ->
  (ei_contains_int X = true <-> exists z : Z, ei_mem z X).
Proof. exact ei_contains_int_core. Qed.
Print Assumptions C13_contains_int_view.

Theorem C13_count_int_view : forall X : itv epi, view_wf X ->
  (0 <= ei_count_int X <= LONG_MAX)%Z /\
  ((ei_count_int X < LONG_MAX)%Z -> exists lo : Z, forall z : Z, ei_mem z X <-> (lo <= z < lo + ei_count_int X)%Z) /\
  (ei_count_int X = LONG_MAX -> exists lo : Z, forall z : Z, (lo <= z < lo + LONG_MAX)%Z -> ei_mem z X).
Proof. exact ei_count_int_core. Qed.
Print Assumptions C13_count_int_view.

(* lp_feasibility_set_pick_value / lp_interval_pick_value are not modelled (any member will do): the
   implementation's value is CHECKED by xs_pick_ok, and the checker accepts exactly the members of the set that
   are integers whenever the set contains an integer *)
Theorem C13_pick_value_checker : forall (s : list (itv xq)) (v : xq), Forall WFx s ->
  (xs_pick_ok s v = true <->
   mem_set xq_cmp v s /\ ((exists z : Z, int_mem_set z s) -> xq_is_integer v = true)).
Proof. exact xs_pick_ok_spec. Qed.
Print Assumptions C13_pick_value_checker.

(* the membership checker used on the mixed-kind pool (ranks) *)
Theorem C13_pick_value_checker_ranks : forall (s : list (itv Z)) (v : Z), NF Z.compare s ->
  (rk_pick_ok s v = true <-> mem_set Z.compare v s).
Proof. exact rk_pick_ok_spec. Qed.
Print Assumptions C13_pick_value_checker_ranks.

(* ---- 7. the carrier the drivers run the model on *)
Theorem C13_ranks_total_order : total_order Z.compare.
Proof. exact Z_total_order. Qed.
Print Assumptions C13_ranks_total_order.

(* ---- 8. why ranks suffice: every order-only operation commutes with any comparison-preserving map f between
   carriers (COND: the premise is spelled out; for f = "pool rank -> pool value" it is property C08's claim
   that lp_value_cmp is the order of the denoted numbers, asserted by the harness for the pool at start-up).
   Hence the interval lists, statuses and membership answers computed on ranks are the images of those
   computed on the values themselves. *)
Theorem C13_rank_transfer_cmp_cond : forall (T T' : Type) (cmp : T -> T -> comparison) (cmp' : T' -> T' -> comparison)
  (f : T -> T'), (forall x y, cmp' (f x) (f y) = cmp x y) ->
  forall (w : bool) (X Y : itv T),
  cmp_with_intersect cmp' w (map_itv f X) (map_itv f Y) = map_res f (cmp_with_intersect cmp w X Y).
Proof. exact @tr_cmp_with_intersect. Qed.
Print Assumptions C13_rank_transfer_cmp_cond.

Theorem C13_rank_transfer_intersect_cond : forall (T T' : Type) (cmp : T -> T -> comparison) (cmp' : T' -> T' -> comparison)
  (f : T -> T'), (forall x y, cmp' (f x) (f y) = cmp x y) ->
  forall s1 s2 : list (itv T),
  fs_intersect cmp' (map (map_itv f) s1) (map (map_itv f) s2) = map_isect f (fs_intersect cmp s1 s2).
Proof. exact @tr_intersect. Qed.
Print Assumptions C13_rank_transfer_intersect_cond.

Theorem C13_rank_transfer_union_cond : forall (T T' : Type) (cmp : T -> T -> comparison) (cmp' : T' -> T' -> comparison)
  (f : T -> T'), (forall x y, cmp' (f x) (f y) = cmp x y) ->
  forall (minf pinf : T) (s from : list (itv T)),
  fs_add cmp' (f minf) (f pinf) (map (map_itv f) s) (map (map_itv f) from) =
  option_map (map (map_itv f)) (fs_add cmp minf pinf s from).
Proof. exact @tr_add. Qed.
Print Assumptions C13_rank_transfer_union_cond.

Theorem C13_rank_transfer_contains_cond : forall (T T' : Type) (cmp : T -> T -> comparison) (cmp' : T' -> T' -> comparison)
  (f : T -> T'), (forall x y, cmp' (f x) (f y) = cmp x y) ->
  forall (s : list (itv T)) (v : T),
  fs_contains cmp' (map (map_itv f) s) (f v) = fs_contains cmp s v.
Proof. exact @tr_contains. Qed.
Print Assumptions C13_rank_transfer_contains_cond.

(* a dense carrier exists (the `dense` premise of C13_is_empty_complete is satisfiable): canonical rationals *)
Theorem C13_dense_carrier_exists : total_order Qccompare /\ dense Qccompare.
Proof. exact (conj Qc_total_order Qc_dense). Qed.
Print Assumptions C13_dense_carrier_exists.

(* ... and one with -inf / +inf (the premises of C13_is_full_complete are satisfiable) *)
Theorem C13_dense_bounded_carrier_exists : total_order xqc_cmp /\ dense xqc_cmp /\ bounds xqc_cmp CMinf CPinf.
Proof. exact (conj xqc_total_order (conj xqc_dense xqc_bounds)). Qed.
Print Assumptions C13_dense_bounded_carrier_exists.

(* ---- non-vacuity: concrete well-formed intervals and normal-form sets on ranks, and what the model computes *)
Definition ex_s1 : list (itv Z) := [mkItv 0%Z 3%Z true false false; mkItv 5%Z 5%Z false false true; mkItv 7%Z 9%Z false true false].
Definition ex_s2 : list (itv Z) := [mkItv 3%Z 5%Z false true false; mkItv 5%Z 8%Z true false false].
Example ex_s1_NF : NF Z.compare ex_s1.
Proof. cbn. unfold WF, sep, lt; cbn. intuition. Qed.
Example ex_s2_NF : NF Z.compare ex_s2.
Proof. cbn. unfold WF, sep, lt; cbn. intuition. Qed.
(* (0,3] {5} [7,9)  /\  [3,5) (5,8]  =  {3} [7,8], a NEW set *)
Example ex_intersect : fs_intersect Z.compare ex_s1 ex_s2 =
  Some ([mkItv 3%Z 3%Z false false true; mkItv 7%Z 8%Z false false false], ST_NEW).
Proof. vm_compute. reflexivity. Qed.
(* (0,3] {5} [7,9)  \/  [3,5) (5,8]  =  (0,9): touching ends with one closed side are fused *)
Example ex_union : fs_add Z.compare 0%Z 10%Z ex_s1 ex_s2 = Some [mkItv 0%Z 9%Z true true false].
Proof. vm_compute. reflexivity. Qed.
Example ex_contains : fs_contains Z.compare ex_s1 5%Z = Some true /\ fs_contains Z.compare ex_s1 6%Z = Some false.
Proof. vm_compute. auto. Qed.
Example ex_cmp : cmp_with_intersect Z.compare true (mkItv 0%Z 3%Z true false false) (mkItv 3%Z 5%Z false true false)
                 = Some (LT_WI, Some (mkItv 3%Z 3%Z false false true)).
Proof. vm_compute. reflexivity. Qed.
Example ex_status_s1 : exists r, fs_intersect Z.compare ex_s2 (ex_s2 ++ [mkItv 9%Z 9%Z false false true]) = Some (r, ST_S1) /\ r = ex_s2.
Proof. eexists. vm_compute. split; reflexivity. Qed.
Example ex_qsorted : qsorted Z.compare [mkItv 3%Z 5%Z false true false; mkItv 3%Z 4%Z false true false; mkItv 4%Z 4%Z false false true].
Proof.
  unfold qsorted. repeat constructor; eexists; (split; [vm_compute; reflexivity | discriminate]).
Qed.

(* rational end points: [0, 7/3) {5/2} (7/2, +inf) *)
Definition ex_q : list (itv xq) :=
  [mkItv (XQFin (0, 1)%Z) (XQFin (7, 3)%Z) false true false; mkItv (XQFin (5, 2)%Z) (XQFin (5, 2)%Z) false false true;
   mkItv (XQFin (7, 2)%Z) XQPinf true true false].
Example ex_q_WFx : Forall WFx ex_q.
Proof. repeat constructor; cbn; auto; try discriminate. Qed.
Example ex_q_NF : NF xq_cmp ex_q.
Proof. cbn. unfold WF, sep, lt; cbn. intuition. Qed.
Example ex_q_counts : map itv_count_int ex_q = [3%Z; 0%Z; LONG_MAX] /\ xs_contains_int ex_q = true /\
                      xs_pick_ok ex_q (XQFin (5, 1)%Z) = true /\ xs_pick_ok ex_q (XQFin (5, 2)%Z) = false.
Proof. vm_compute. auto. Qed.

(* the premise of the rank-transfer theorems is satisfiable: doubling ranks (what the model driver does to give
   values strictly between two pool values a rank of their own) *)
Example ex_transfer_premise : forall x y : Z, Z.compare (2 * x) (2 * y) = Z.compare x y.
Proof. intros x y. destruct x, y; reflexivity. Qed.

(* ---- 9. REAL end points (any real closed field R; mathcomp).  An end is -inf, +inf or a real v; a view
   (is_integer, floor, ceiling) of v is correct (view_of) when is_integer <-> v is an integer, floor <= v < floor+1,
   ceiling-1 < v <= ceiling - which is what the base theorems Base_rn_is_integer / Base_rn_floor / Base_rn_ceiling prove
   of the reference computations the model driver uses for algebraic end points (C13_reference_view_is_correct).
   Then lp_interval_contains_int / _count_int, as run on the views, answer for the integers z with
   a (< | <=) z (< | <=) b in R. *)
Set Warnings "-notation-overridden,-ambiguous-paths".
From mathcomp Require Import all_ssreflect all_algebra all_real_closed.
Set Warnings "notation-overridden,ambiguous-paths".
From LP Require Import RefAlg RefAlgSpec FeasSetReal.

Theorem C13_reference_view_is_correct : forall (R : rcfType) (fuel : nat) (x : rnum) (v : R) (b : bool) (fl ce : Z),
  rn_denotes x v -> rn_is_integer fuel x = Some b -> rn_floor fuel x = Some fl -> rn_ceiling fuel x = Some ce ->
  view_of (EPFin b fl ce) (RFin v).
Proof. exact: ref_view_of. Qed.
Print Assumptions C13_reference_view_is_correct.

Theorem C13_contains_int_real : forall (R : rcfType) (X : itv epi) (a b : rend R), real_ends_ok X a b ->
  (ei_contains_int X = true <-> exists z : Z, rmem z a (ia_open X) b (ib_open X)).
Proof. exact: real_contains_int. Qed.
Print Assumptions C13_contains_int_real.

Theorem C13_count_int_real : forall (R : rcfType) (X : itv epi) (a b : rend R), real_ends_ok X a b ->
  [/\ Z.le Z0 (ei_count_int X) /\ Z.le (ei_count_int X) LONG_MAX,
      (Z.lt (ei_count_int X) LONG_MAX -> exists lo : Z, forall z : Z,
         rmem z a (ia_open X) b (ib_open X) <-> Z.le lo z /\ Z.lt z (Z.add lo (ei_count_int X)))
    & (ei_count_int X = LONG_MAX -> exists lo : Z, forall z : Z,
         Z.le lo z /\ Z.lt z (Z.add lo LONG_MAX) -> rmem z a (ia_open X) b (ib_open X))].
Proof. exact: real_count_int. Qed.
Print Assumptions C13_count_int_real.

(* non-vacuity: (0, 3) in every real closed field *)
Example ex_real_ends : forall R : rcfType,
  real_ends_ok (mkItv (EPFin true Z0 Z0) (EPFin true (Zpos 3) (Zpos 3)) true true false) (RFin (zr Z0)) (RFin (@zr R (Zpos 3))).
Proof. exact: real_ends_example. Qed.
