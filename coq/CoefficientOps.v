(* Property C01: operation sequences on a pool of polynomials, (1) in the reference model MPoly.v
   (the mathematical object: canonical sparse polynomials over Z, reduced into Z_m by ring_norm) and
   (2) in the faithful model Coefficient.v of libpoly's recursive representation, with the aliasing
   patterns of the lp_polynomial_* entry points.  Executable, no proofs in this file. *)
From Coq Require Import ZArith NArith List Bool.
From LP Require Import Scalar MPoly Coefficient.
Import ListNotations.
Local Open Scope Z_scope.

(* lp_variable_order_t as the list of its variables, bottom first; a variable that is not listed is above
   every listed one, unlisted ones are ordered by their id *)
Fixpoint index_of (x : var) (l : list var) (i : nat) : option nat :=
  match l with
  | [] => None
  | y :: l' => if N.eqb x y then Some i else index_of x l' (S i)
  end.
Definition rk_of (ord : list var) (x : var) : N :=
  match index_of x ord 0 with
  | Some i => N.of_nat i
  | None => (N.of_nat (length ord) + x)%N
  end.

Inductive op : Type :=
| OAdd (d a b : nat) | OSub (d a b : nat) | OMul (d a b : nat)
| OAddMul (d a b : nat) | OSubMul (d a b : nat)
| ONeg (d a : nat) | OAsg (d a : nat) | ODer (d a : nat)
| OMulC (d a : nat) (c : Z) | OPow (d a : nat) (n : N) | OShl (d a : nat) (n : nat)
| OAddMon (d : nat) (m : list (var * nat)) (c : Z)
| OOrd (ord : list var).

Fixpoint set_nth {A : Type} (i : nat) (v : A) (l : list A) : list A :=
  match l, i with
  | [], _ => []
  | _ :: t, O => v :: t
  | h :: t, S j => h :: set_nth j v t
  end.

(* ------------------------------------------------------------------ reference semantics *)
Definition mp_reduce (K : ring) (p : mpoly) : mpoly := mp_map_coeff (ring_norm K) p.

(* main variable of p under the order: the variable of p with the largest rank *)
Definition mp_top (rk : var -> N) (p : mpoly) : option var :=
  fold_right (fun x acc => match acc with
                           | None => Some x
                           | Some y => if (rk y <? rk x)%N then Some x else Some y
                           end) None (mp_vars p).

Definition ref_state := (list var * list mpoly)%type.
Definition ref_get (s : ref_state) (i : nat) : mpoly := nth i (snd s) [].

Definition ref_step (K : ring) (s : ref_state) (o : op) : ref_state :=
  let rk := rk_of (fst s) in
  let put d p := (fst s, set_nth d (mp_reduce K p) (snd s)) in
  let g := ref_get s in
  match o with
  | OAdd d a b => put d (mp_add (g a) (g b))
  | OSub d a b => put d (mp_sub (g a) (g b))
  | OMul d a b => put d (mp_mul (g a) (g b))
  | OAddMul d a b => put d (mp_add (g d) (mp_mul (g a) (g b)))
  | OSubMul d a b => put d (mp_sub (g d) (mp_mul (g a) (g b)))
  | ONeg d a => put d (mp_neg (g a))
  | OAsg d a => put d (g a)
  | ODer d a => match mp_top rk (g a) with None => put d [] | Some x => put d (mp_deriv x (g a)) end
  | OMulC d a c => put d (mp_scale c (g a))
  | OPow d a n => put d (mp_pow (g a) (N.to_nat n))
  | OShl d a n => match mp_top rk (g a) with
                  | None => s                                   (* documented for non-constant operands only *)
                  | Some x => put d (mp_mul (g a) (mp_var_pow x (N.of_nat n)))
                  end
  | OAddMon d m c => put d (mp_add_term (mono_of_powers m, c) (g d))
  | OOrd ord => (ord, snd s)
  end.

(* ------------------------------------------------------------------ faithful semantics *)
Definition c_state := (list var * list coef)%type.
Definition c_get (s : c_state) (i : nat) : coef := nth i (snd s) c_zero.

Definition c_step_gen (K : ring)
    (ens : var -> nat -> coef -> coef)      (* coefficient_ensure_capacity *)
    (F : nat) (s : c_state) (o : op) : option c_state :=
  let rk := rk_of (fst s) in
  let put d (r : option coef) := match r with None => None | Some c => Some (fst s, set_nth d c (snd s)) end in
  let g := c_get s in
  match o with
  | OAdd d a b => put d (c_add K rk F (g a) (g b))
  | OSub d a b => put d (c_sub K rk F (g a) (g b))
  | OMul d a b => put d (c_mul K rk F F (g a) (g b))
  | OAddMul d a b => put d (c_add_mul K rk F (g d) (g a) (g b))
  | OSubMul d a b => put d (c_sub_mul K rk F (g d) (g a) (g b))
  | ONeg d a => put d (Some (c_neg K (Nat.eqb d a) (g a)))
  | OAsg d a => if Nat.eqb d a then Some s else put d (Some (c_assign K (g a)))
  | ODer d a => put d (Some (c_derivative K (g a)))
  | OMulC d a c => put d (Some (c_mul_integer K c (g a)))
  | OPow d a n => if Nat.eqb d a && N.eqb n 1 then Some s else put d (c_pow K rk F (g a) n)
  | OShl d a n =>
    match g a with
    | CNum _ => Some s
    | CRec x _ _ =>
      let s0 := if Nat.eqb d a then g d else c_assign K (g a) in
      put d (Some (c_shl_gen K ens s0 x n))
    end
  | OAddMon d m c => put d (c_add_om_gen K rk ens F (mono_sort rk m) (int_assign K c) (g d))
  | OOrd ord =>
    match opt_map (c_order K (rk_of ord) F) (snd s) with
    | None => None
    | Some l => Some (ord, l)
    end
  end.
Definition c_step (K : ring) := c_step_gen K c_ensure_capacity.

Fixpoint c_run_gen (K : ring) ens (F : nat) (s : c_state) (l : list op) : option c_state :=
  match l with
  | [] => Some s
  | o :: l' => match c_step_gen K ens F s o with None => None | Some s' => c_run_gen K ens F s' l' end
  end.
Definition c_run (K : ring) := c_run_gen K c_ensure_capacity.
Definition ref_run (K : ring) (s : ref_state) (l : list op) : ref_state := fold_left (ref_step K) l s.

(* what the harness observes of one pool object *)
Definition ref_obs (rk : var -> N) (p : mpoly) : mpoly * N * option var :=
  match mp_top rk p with
  | None => (p, 0%N, None)
  | Some x => (p, mp_degree x p, Some x)
  end.
Definition c_obs (K : ring) (c : coef) : mpoly * N * option var :=
  (to_mpoly K c, N.of_nat (c_degree c), c_top c).
Definition c_canonical (K : ring) (rk : var -> N) (c : coef) : bool := c_slack_ok K c && c_normal K rk c.
