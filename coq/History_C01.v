(* Regression memory for property C01 (DESIGN 2.4): the pre-repair functions of the pinned tree, each with a
   machine-checked refutation of the property on the faithful model.  The witnesses are in corpus/C01.txt and
   are replayed against the real library on every run; the repairs are fixes/C01-*.patch. *)
From Coq Require Import ZArith NArith List Bool.
From LP Require Import Scalar MPoly UPoly Coefficient CoefficientOps.
Import ListNotations.
Local Open Scope Z_scope.

(* ---- 1. coefficient_ensure_capacity of the pinned tree: when the capacity is already there (size < wanted <=
   capacity, i.e. the polynomial shrank earlier by cancellation) `size` is NOT raised *)
Definition c_ensure_capacity_prefix (x : var) (cap : nat) (c : coef) : coef :=
  match c with
  | CNum _ => CRec x cap (c :: repeat c_zero (Nat.pred cap))
  | CRec y size cs =>
    if negb (N.eqb x y) then CRec x cap (c :: repeat c_zero (Nat.pred cap))
    else if Nat.ltb (length cs) cap then CRec y cap (cs ++ repeat c_zero (cap - length cs))
    else c
  end.
Definition c_run_prefix := c_run_gen None c_ensure_capacity_prefix.

Definition x0 : var := 0%N.
Definition F : nat := 50%nat.
(* x0^3 + x0 + 1 built as the drivers build it (add_monomial from 0) *)
Definition p_x3_x_1 : option coef :=
  c_of_terms None (rk_of [x0]) F [([(x0, 3%nat)], 1); ([(x0, 1%nat)], 1); ([], 1)].

(* C01 (add_monomial): x^3+x+1, add -x^3, add x^2  ==> the library (and the faithful model) answer x+1:
   the term x^2 is stored above `size`.  Reference model: x^2+x+1. *)
Theorem C01_ensure_capacity_prefix_refuted :
  exists c0 ops s',
    p_x3_x_1 = Some c0 /\ c_slack_ok None c0 = true /\
    c_run_prefix F ([x0], [c0]) ops = Some s' /\
    (* the stored representation left the invariant ... *)
    existsb (fun c => negb (c_slack_ok None c)) (snd s') = true /\
    (* ... and the polynomial denoted differs from the mathematical result *)
    map (to_mpoly None) (snd s') <> snd (ref_run None ([x0], [to_mpoly None c0]) ops) /\
    map (to_mpoly None) (snd s') = [[([(x0, 1%N)], 1); ([], 1)]].
Proof.
  eexists. exists [OAddMon 0 [(x0, 3%nat)] (-1); OAddMon 0 [(x0, 2%nat)] 1]. eexists.
  split; [vm_compute; reflexivity|]. split; [vm_compute; reflexivity|].
  split; [vm_compute; reflexivity|]. split; [vm_compute; reflexivity|].
  split; [vm_compute; discriminate|vm_compute; reflexivity].
Qed.

(* the lost term is still in memory: a later add_monomial of 5x^5 grows the array and x^2 is back *)
Theorem C01_ensure_capacity_prefix_ghost_term :
  exists c0 s',
    p_x3_x_1 = Some c0 /\
    c_run_prefix F ([x0], [c0]) [OAddMon 0 [(x0, 3%nat)] (-1); OAddMon 0 [(x0, 2%nat)] 1; OAddMon 0 [(x0, 5%nat)] 5] = Some s' /\
    map (to_mpoly None) (snd s') = [[([(x0, 5%N)], 5); ([(x0, 2%N)], 1); ([(x0, 1%N)], 1); ([], 1)]].
Proof. eexists. eexists. split; [vm_compute; reflexivity|]. split; vm_compute; reflexivity. Qed.

(* C01 (shl in place): p = x^3+x+1, q = -x^3; p := p + q (= x+1, capacity 4, size 2); p := p << 1 in place
   ==> x (the term x^2 is moved above `size`).  Reference: x^2+x. *)
Theorem C01_shl_in_place_prefix_refuted :
  exists c0 c1 s',
    p_x3_x_1 = Some c0 /\ c_of_terms None (rk_of [x0]) F [([(x0, 3%nat)], -1)] = Some c1 /\
    c_run_prefix F ([x0], [c0; c1]) [OAdd 0 0 1; OShl 0 0 1] = Some s' /\
    map (to_mpoly None) (snd s') = [[([(x0, 1%N)], 1)]; [([(x0, 3%N)], -1)]] /\
    snd (ref_run None ([x0], [to_mpoly None c0; to_mpoly None c1]) [OAdd 0 0 1; OShl 0 0 1])
      = [[([(x0, 2%N)], 1); ([(x0, 1%N)], 1)]; [([(x0, 3%N)], -1)]].
Proof.
  eexists. eexists. eexists. split; [vm_compute; reflexivity|]. split; [vm_compute; reflexivity|].
  split; [vm_compute; reflexivity|]. split; vm_compute; reflexivity.
Qed.

(* the repaired function on the same inputs keeps the invariant and agrees with the reference *)
Example C01_ensure_capacity_repaired_witness :
  exists c0 s', p_x3_x_1 = Some c0 /\
    c_run None F ([x0], [c0]) [OAddMon 0 [(x0, 3%nat)] (-1); OAddMon 0 [(x0, 2%nat)] 1] = Some s' /\
    forallb (c_slack_ok None) (snd s') = true /\
    map (to_mpoly None) (snd s') = [[([(x0, 2%N)], 1); ([(x0, 1%N)], 1); ([], 1)]].
Proof. eexists. eexists. split; [vm_compute; reflexivity|]. split; [vm_compute; reflexivity|]. split; vm_compute; reflexivity. Qed.

(* ---- 2. coefficient_add / _sub / _mul of the pinned tree, both operands numeric: the result is written with
   integer_add(K, &S->value.num, ..) WHATEVER S currently is.  When S holds a polynomial this writes an mpz
   through the `rec` member of the union (alloc/size/limb pointer overlay size/capacity): undefined behaviour,
   in practice a SEGV in GMP.  Modelled as "no result".  (Repaired in /repo by commit 6f8f93f.) *)
Definition c_num_op_prefix (op : Z -> Z -> Z) (S a b : coef) : option coef :=
  match a, b with
  | CNum z1, CNum z2 => match S with CNum _ => Some (CNum (op z1 z2)) | CRec _ _ _ => None end
  | _, _ => None
  end.
Theorem C01_numeric_into_polynomial_output_prefix_refuted :
  exists S a b, c_slack_ok None S = true /\ c_num_op_prefix Z.add S a b = None /\
                c_add None (rk_of [x0]) F a b = Some (CNum 12).
Proof.
  exists (CRec x0 2 [CNum 1; CNum 1]), (CNum 5), (CNum 7).
  split; [reflexivity|]. split; reflexivity.
Qed.

(* ---- 3. lp_upolynomial_multiply_simple / lp_upolynomial_pow of the pinned tree keep vanishing products *)
Definition u_multiply_simple_prefix (K : ring) (md : nat) (mc : Z) (q : upoly) : upoly :=
  map (fun m => ((fst m + md)%nat, int_mul K mc (snd m))) q.
Definition u_mul_c_prefix (K : ring) (p : upoly) (c : Z) : upoly := u_multiply_simple_prefix K 0 (int_assign K c) p.
Definition u_pow_mono_prefix (K : ring) (d : nat) (c : Z) (n : N) : upoly :=
  [((d * N.to_nat n)%nat, int_pow K c n)].

(* (2x^2 + x) * 0 over Z is reported with degree 2 and two stored zero terms *)
Theorem C01_upolynomial_mul_c_prefix_refuted :
  let r := u_mul_c_prefix None (u_construct None [0; 1; 2]) 0 in
  r = [(1%nat, 0); (2%nat, 0)] /\ u_degree r = 2%nat /\
  u_mul_c None (u_construct None [0; 1; 2]) 0 = [(0%nat, 0)].
Proof. vm_compute. repeat split; reflexivity. Qed.

(* (2x)^2 in Z_4 is reported as 0*x^2 *)
Theorem C01_upolynomial_pow_prefix_refuted :
  u_pow_mono_prefix (Some 4) 1 2 2 = [(2%nat, 0)] /\
  u_pow (Some 4) F (u_construct (Some 4) [0; 2]) 2 = Some [(0%nat, 0)].
Proof. vm_compute. split; reflexivity. Qed.

(* ---- 4. lp_upolynomial_construct_power(K, degree, c) of the pinned tree stores 0*x^degree when c is zero in K *)
Definition u_construct_power_prefix (K : ring) (d : nat) (c : Z) : upoly := [(d, int_assign K c)].
Theorem C01_upolynomial_construct_power_prefix_refuted :
  u_degree (u_construct_power_prefix None 3 0) = 3%nat /\
  u_degree (u_construct_power_prefix (Some 7) 4 14) = 4%nat /\
  u_construct None (repeat 0 3 ++ [0]) = [(0%nat, 0)].
Proof. vm_compute. repeat split; reflexivity. Qed.
