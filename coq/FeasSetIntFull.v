(* Final assembly for property C14: the premises "Fermat's little theorem holds for M" of
   FeasSetIntPolyProofs.v are discharged for every prime M (FeasSetIntFermat.v), and the statements are
   put in the form quoted by Properties_C14.v. *)
From Coq Require Import ZArith List Bool Lia Znumtheory.
From LP Require Import Scalar ScalarProofs FeasSetInt FeasSetIntProofs FeasSetIntPolyProofs.
From LP Require FeasSetIntFermat.
Import ListNotations.
Local Open Scope Z_scope.

Lemma fermat_prime M : prime M -> fermat_holds M.
Proof. intros HP a. apply FeasSetIntFermat.fermat_Z. assumption. Qed.

Lemma fs_from_integers_mem M l inv x : 0 < M ->
  (mem (fs_from_integers M l inv) x <->
   InK M x /\ (if inv then ~ (exists y, In y l /\ x mod M = y mod M) else exists y, In y l /\ x mod M = y mod M)).
Proof.
  intros HM. destruct (fs_from_integers_spec M l inv HM) as [_ HI].
  unfold mem. change (fs_M (fs_from_integers M l inv)) with M. change (fs_inv (fs_from_integers M l inv)) with inv.
  assert (E: forall x, InK M x -> (In x (fs_el (fs_from_integers M l inv)) <-> exists y, In y l /\ x mod M = y mod M)).
  { intros z Hz. rewrite HI. split; intros [y [H1 H2]]; exists y; (split; [assumption|]).
    - subst z. apply ring_norm_cong. assumption.
    - symmetry. apply ring_norm_char; assumption. }
  destruct inv; split; intros [Hk H]; (split; [assumption|]); specialize (E x Hk); tauto.
Qed.

Lemma roots_brute_force_full M cs d : prime M -> deg_spec M cs d ->
  let r := roots_brute_force M (upoly_construct (Some M) cs) in
  ssorted r /\ forall a, In a r <-> InK M a /\ peval cs a mod M = 0.
Proof.
  intros HP Hd. cbn zeta. rewrite (roots_brute_force_reference M cs d HP Hd).
  apply roots_reference_spec. pose proof (prime_ge_2 M HP). lia.
Qed.

Lemma roots_find_Zp_small M cs d rs : prime M -> deg_spec M cs d ->
  roots_find_Zp M (upoly_construct (Some M) cs) = Some rs ->
  ssorted rs /\ forall a, In a rs <-> InK M a /\ peval cs a mod M = 0.
Proof.
  intros HP Hd. unfold roots_find_Zp. destruct (M <? field_order_limit); [|discriminate].
  intros H. inversion H. apply (roots_brute_force_full M cs d HP Hd).
Qed.

Lemma lagrange_bound M cs d rs : prime M -> deg_spec M cs d ->
  NoDup rs -> Forall (fun a => InK M a /\ peval cs a mod M = 0) rs -> (length rs <= d)%nat.
Proof.
  intros HP Hd Hn Hr. pose proof (prime_ge_2 M HP) as HM2. assert (HM: 0 < M) by lia.
  destruct (peval_truncate M cs d 0 Hd) as (_ & TL & TLast).
  apply (lagrange M HP d (firstn (S d) cs) TL).
  - rewrite TLast. destruct Hd; assumption.
  - clear TL TLast. induction rs as [|x t IH]; [exact I|].
    inversion Hn as [|? ? Hx Ht]; subst. inversion Hr as [|? ? Hx2 Ht2]; subst.
    split; [|apply IH; assumption].
    rewrite Forall_forall in *. intros b Hb E. destruct (Ht2 b Hb) as [Kb _]. destruct Hx2 as [Kx _].
    assert (b = x) by (apply (ring_range_unique M); assumption). subst. contradiction.
  - rewrite Forall_forall in *. intros a Ha. destruct (Hr a Ha) as [_ H0].
    destruct (peval_truncate M cs d a Hd) as (TE & _ & _).
    apply eqm_zero_iff. rewrite <- TE. apply eqm_zero_iff. exact H0.
Qed.

Lemma cert_complete_prime M f lc rs qs : prime M -> cert_ok M f lc rs qs = true ->
  ssorted (cert_roots M rs) /\ Forall (InK M) (cert_roots M rs) /\
  forall a, InK M a -> (peval f a mod M = 0 <-> In a (cert_roots M rs)).
Proof.
  intros HP H. pose proof (prime_ge_2 M HP) as HM2.
  destruct (cert_roots_spec M rs ltac:(lia)) as (A & B & _).
  split; [assumption|]. split; [assumption|].
  apply (cert_ok_complete M f lc rs qs HP (fermat_prime M HP) H).
Qed.

Lemma reduce_degree_prime M fuel cs : prime M -> (2 <= fuel)%nat ->
  exists r, reduce_degree_Zp_uni fuel M cs = Some r /\
            (forall a, peval r a mod M = peval cs a mod M) /\ zlen r <= Z.max M (zlen (dense_norm M cs)) /\
            (M < zlen (dense_norm M cs) -> zlen r <= M).
Proof.
  intros HP Hf. pose proof (prime_ge_2 M HP) as HM2. pose proof (fermat_prime M HP) as HF.
  destruct (reduce_loop_total M (dense_norm M cs) fuel HM2 HF Hf) as [r Hr].
  exists r. split; [exact Hr|].
  destruct (reduce_degree_spec M fuel cs r HM2 HF Hr) as (A & B & C). split; [assumption|]. split; assumption.
Qed.

Lemma reduce_degree_sound_prime M fuel cs r : prime M -> reduce_degree_Zp_uni fuel M cs = Some r ->
  (forall a, peval r a mod M = peval cs a mod M) /\ (M < zlen (dense_norm M cs) -> zlen r <= M).
Proof.
  intros HP Hr. pose proof (prime_ge_2 M HP) as HM2. pose proof (fermat_prime M HP) as HF.
  destruct (reduce_degree_spec M fuel cs r HM2 HF Hr) as (A & B & C). split; assumption.
Qed.

(* constraint sets: the implementation's branch (prime field below the brute-force limit) *)
Lemma constraint_set_full M top m cs cond (negated : bool) s : prime M -> existsb (has_var top) cs = false ->
  constraint_feasible_set_Zp M top m (CPoly top cs) cond negated = Some s ->
  wf s /\ fs_M s = M /\
  forall a, mem s a <-> InK M a /\
    constraint_evaluate_Zp M (assign_set m top a) (CPoly top cs) (if negated then zp_negate cond else cond) = true.
Proof.
  intros HP Hnv H. pose proof (prime_ge_2 M HP) as HM2.
  rewrite (constraint_set_is_reference M top m _ cond negated s HP H).
  apply (constraint_reference_spec M top m cs cond negated ltac:(lia) Hnv).
Qed.

(* boolean well-formedness test (used for concrete witnesses) *)
Fixpoint ssorted_b (l : list Z) : bool :=
  match l with
  | [] => true
  | x :: t => match t with [] => true | y :: _ => (x <? y) && ssorted_b t end
  end.
Definition wf_b (s : fset) : bool :=
  (0 <? fs_M s) && ssorted_b (fs_el s) && forallb (in_ring (Some (fs_M s))) (fs_el s).

Lemma ssorted_b_spec l : ssorted_b l = true -> ssorted l.
Proof.
  induction l as [|x t IH]; intros H; [exact I|].
  destruct t as [|y t2]; [split; [constructor|exact I]|].
  cbn [ssorted_b] in H. apply andb_true_iff in H. destruct H as [H1 H2]. apply Z.ltb_lt in H1.
  specialize (IH H2). split; [|exact IH].
  destruct IH as [IH1 _]. constructor; [assumption|].
  rewrite Forall_forall in *. intros z Hz. specialize (IH1 z Hz). lia.
Qed.
Lemma wf_b_spec s : wf_b s = true -> wf s.
Proof.
  unfold wf_b. rewrite !andb_true_iff. intros [[H1 H2] H3]. apply Z.ltb_lt in H1.
  split; [assumption|]. split; [apply ssorted_b_spec; assumption|].
  rewrite forallb_forall in H3. apply Forall_forall. intros x Hx.
  apply (in_ring_spec (fs_M s) x H1). apply H3. assumption.
Qed.
