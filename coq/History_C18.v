(* C18 regression memory: the behaviour of the PINNED code where it differs from the repaired model, each with a
   machine-checked refutation of the property on the faithful model.  The witnesses are in corpus/C18.txt and are
   replayed against the library on every run.

   (1) lp_polynomial_hash caches the hash in the object and no public operation that overwrites the object's data
       resets the cache (pinned code = `write_keep`).
   (2) lp_variable_order_reverse swaps the entries of the list but leaves var_to_index_map - the table
       lp_variable_order_cmp and pop consult - as it was. *)
From Coq Require Import ZArith NArith List Bool Lia.
From LP Require Import MPoly VarOrder VarOrderInv.
Import ListNotations.
Local Open Scope Z_scope.

(* concrete stand-ins for integer_hash / hash_pair (any functions with hz 1 <> hz 2 do) *)
Definition hz0 (a : Z) : N := Z.to_N (Z.abs a).
Definition hp0 (x : var) (d : N) : N := (x * 64 + d + 1000)%N.

(* the cache invariant: VarOrderInv.cache_ok hz hp p := pcache p = 0 \/ pcache p = nz (coef_hash hz hp (pdata p)) *)

(* x0 + 1, hashed, then x0 added in place: the object is 2*x0 + 1 but still carries the hash of x0 + 1 *)
Definition stale_history : list op :=
  [PNew [([(0%N, 1%N)], 1); ([], 1)]; PHash 0; PAddMono 0 [(0%N, 1%N)] 1].

Theorem C18_hash_cache_inv_prefix_refuted :
  exists hz hp h i, ~ cache_ok hz hp (get (run hz hp write_keep state0 h) i).
Proof.
  exists hz0, hp0, stale_history, O. vm_compute. intros [H|H]; discriminate H.
Qed.

(* ... and lp_polynomial_eq with a freshly built 2*x0 + 1 answers 0 although both denote the same polynomial *)
Theorem C18_eq_prefix_refuted :
  exists hz hp h,
    let s := run hz hp write_keep state0 h in
    nth 0 (dens s) [] = nth 1 (dens s) [] /\ enabled s (PEq 0 1) = true /\
    snd (step hz hp write_keep s (PEq 0 1)) = OBool false.
Proof.
  exists hz0, hp0, (stale_history ++ [PNew [([(0%N, 1%N)], 2); ([], 1)]]). vm_compute. repeat split.
Qed.

(* the repaired writers on the same histories *)
Example C18_hash_cache_repaired_witness :
  cache_ok hz0 hp0 (get (run hz0 hp0 write_reset state0 stale_history) 0) /\
  snd (step hz0 hp0 write_reset (run hz0 hp0 write_reset state0 (stale_history ++ [PNew [([(0%N, 1%N)], 2); ([], 1)]])) (PEq 0 1))
  = OBool true.
Proof. vm_compute. split; [now left|reflexivity]. Qed.

(* ---------------------------------------------------------------------------------------------- *)
(* (2) the pinned variable order: the list AND the index table *)
Record order_px := mkOrderPx { xlist : list var; xmap : list (var * Z) }.
Definition px_new : order_px := mkOrderPx [] [].
Fixpoint px_lookup (m : list (var * Z)) (x : var) : Z :=
  match m with [] => -1 | (y, i) :: m' => if N.eqb x y then i else px_lookup m' x end.
(* lp_variable_list_push: var_to_index_map[var] = list_size; list[list_size++] = var *)
Definition px_push (o : order_px) (x : var) : order_px :=
  mkOrderPx (xlist o ++ [x]) ((x, Z.of_nat (length (xlist o))) :: xmap o).
(* lp_variable_list_pop: var = list[--list_size]; var_to_index_map[var] = -1 *)
Definition px_pop (o : order_px) : order_px :=
  match rev (xlist o) with [] => o | v :: r => mkOrderPx (rev r) ((v, -1) :: xmap o) end.
(* lp_variable_order_reverse of the pinned tree: only the array is reversed *)
Definition px_reverse_prefix (o : order_px) : order_px := mkOrderPx (rev (xlist o)) (xmap o).
(* lp_variable_order_cmp without special top / bottom variables *)
Definition px_cmp (o : order_px) (x y : var) : Z :=
  if N.eqb x y then 0 else
  let xi := px_lookup (xmap o) x in
  let yi := px_lookup (xmap o) y in
  if xi =? yi then Z.of_N x - Z.of_N y
  else if xi =? -1 then 1 else if yi =? -1 then -1 else xi - yi.

(* the property: a variable listed EARLIER is smaller.  After reversing [x0, x1, x2] the list reads [x2, x1, x0],
   yet x2 still compares above x0 *)
Theorem C18_reverse_prefix_refuted :
  exists o l1 l2 l3 x y,
    xlist (px_reverse_prefix o) = l1 ++ x :: l2 ++ y :: l3 /\ ~ px_cmp (px_reverse_prefix o) x y < 0.
Proof.
  exists (px_push (px_push (px_push px_new 0%N) 1%N) 2%N), [], [1%N], [], 2%N, 0%N. vm_compute. split; [reflexivity|].
  intros H; discriminate H.
Qed.

(* ... and after reverse; pop; push x3 two listed variables share an index, so they are compared by id, not by
   position: x2 is listed before x3 but also "index 2" *)
Theorem C18_reverse_pop_push_prefix_refuted :
  exists o, xlist o = [2%N; 1%N; 3%N] /\ px_lookup (xmap o) 2%N = px_lookup (xmap o) 3%N.
Proof.
  exists (px_push (px_pop (px_reverse_prefix (px_push (px_push (px_push px_new 0%N) 1%N) 2%N))) 3%N).
  vm_compute. split; reflexivity.
Qed.
