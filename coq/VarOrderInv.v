(* C18 proofs, part 9: invariants over all histories (repaired cache discipline `write_reset`): every object is
   in order under SOME order and in normal form, and its cached hash is either empty or the hash of its data.
   Under them lp_polynomial_eq / cmp decide equality of the denoted polynomials and equal polynomials hash equally. *)
From Coq Require Import ZArith NArith List Bool Lia Sorted Permutation.
From LP Require Import MPoly VarOrder VarOrderMPoly VarOrderProofs VarOrderDen VarOrderWf VarOrderNorm VarOrderHash VarOrderUniq VarOrderHist.
Import ListNotations.
Local Open Scope Z_scope.

Lemma nodupb_NoDup : forall l, nodupb l = true -> NoDup l.
Proof.
  induction l as [|x l IH]; intros H; [constructor|]. cbn in H. apply andb_true_iff in H as [H1 H2]. constructor; auto.
  intros Hin. apply negb_true_iff in H1. assert (existsb (N.eqb x) l = true); [|congruence].
  apply existsb_exists. exists x. split; auto. apply N.eqb_refl.
Qed.

Section Inv.
  Variable hz : Z -> N.
  Variable hp : var -> N -> N.

  Definition cache_ok (p : poly) : Prop := pcache p = 0%N \/ pcache p = nz (coef_hash hz hp (pdata p)).
  Definition laid_out (c : coef) : Prop := exists o0, good o0 c.
  Definition objinv (p : poly) : Prop := laid_out (pdata p) /\ cache_ok p.
  Definition Inv (s : state) : Prop := forall p, In p (sobjs s) -> objinv p.

  Lemma objinv_dummy : objinv dummy.
  Proof. split; [exists order_new; split; constructor|now left]. Qed.
  Lemma Inv_get : forall s i, Inv s -> objinv (get s i).
  Proof.
    intros s i H. unfold get. destruct (Nat.lt_ge_cases i (length (sobjs s))) as [Hi|Hi].
    - apply H. now apply nth_In.
    - rewrite nth_overflow by lia. apply objinv_dummy.
  Qed.
  Lemma In_set_nth : forall (A : Type) (l : list A) i p q, In q (set_nth l i p) -> q = p \/ In q l.
  Proof.
    induction l as [|a l IH]; intros [|i] p q H; cbn in *; try tauto.
    - destruct H as [<-|H]; auto.
    - destruct H as [<-|H]; auto. destruct (IH _ _ _ H); auto.
  Qed.
  Lemma Inv_put : forall s i p, Inv s -> objinv p -> Inv (put s i p).
  Proof. intros s i p Hs Hp q Hq. unfold put in Hq; cbn [sobjs] in Hq. apply In_set_nth in Hq as [->|Hq]; auto. Qed.
  Lemma Inv_app : forall o s p, Inv s -> objinv p -> Inv (mkState o (sobjs s ++ [p])).
  Proof. intros o s p Hs Hp q Hq. cbn [sobjs] in Hq. apply in_app_or in Hq as [Hq|[<-|[]]]; auto. Qed.

  Lemma laid_out_reorder : forall o c, laid_out c -> good o (coef_order o c).
  Proof. intros o c [o0 [Hw Hn]]. split; [eapply coef_order_wf; eauto|now apply coef_order_norm]. Qed.

  Lemma objinv_set_data_reorder : forall o p, objinv p -> objinv (set_data p (coef_order o (pdata p))).
  Proof.
    intros o p [Hl Hc]. split; [exists o; now apply laid_out_reorder|].
    destruct Hl as [o0 [Hw Hn]]. unfold cache_ok in *. cbn [set_data pcache pdata].
    now rewrite (coef_hash_coef_order hz hp o0 o (pdata p) Hw Hn).
  Qed.
  Lemma objinv_clean : forall o p, objinv p -> objinv (external_clean o p).
  Proof. intros o p H. unfold external_clean. destruct (pext p && negb (in_order o (pdata p))); auto. now apply objinv_set_data_reorder. Qed.
  Lemma objinv_hash : forall p, objinv p -> objinv (snd (poly_hash hz hp p)).
  Proof.
    intros p [Hl Hc]. unfold poly_hash. destruct (pcache p =? 0)%N; cbn [snd]; [|split; auto].
    split; [exact Hl|right; reflexivity].
  Qed.
  Lemma objinv_fresh : forall d b, laid_out d -> objinv (mkPoly d b 0%N).
  Proof. intros d b H. split; [exact H|now left]. Qed.
  Lemma objinv_reset : forall p d, laid_out d -> objinv (write_reset p d).
  Proof. intros p d H. now apply objinv_fresh. Qed.
  Lemma objinv_flags : forall p b, objinv p -> objinv (mkPoly (pdata p) b (pcache p)).
  Proof. intros p b H. exact H. Qed.

  Lemma laid_out_of_mpoly : forall o l, distinct_vars l -> laid_out (of_mpoly o l).
  Proof. intros o l H. exists o. split; [now apply of_mpoly_wf|apply of_mpoly_norm]. Qed.

  Lemma ready_good : forall o p, objinv p -> ready o p = true -> good o (pdata (external_clean o p)).
  Proof.
    intros o p H Hr. unfold ready in Hr. apply in_order_iff in Hr. split; auto.
    destruct (objinv_clean o p H) as [[o0 [_ Hn]] _]. exact Hn.
  Qed.

  (* the invariant holds after every step of every history *)
  Theorem Inv_step : forall s e, Inv s -> Inv (fst (step hz hp write_reset s e)).
  Proof.
    intros s e Hs. unfold step. destruct (enabled s e) eqn:En; [|exact Hs].
    destruct e; cbn [exec fst]; try exact Hs.
    - (* PNew *) apply Inv_app; auto. apply objinv_fresh. cbn [enabled] in En. apply laid_out_of_mpoly.
      apply Forall_forall. intros t Ht. rewrite forallb_forall in En. apply nodupb_NoDup. exact (En t Ht).
    - (* PCopy *) apply Inv_app; auto. exact (Inv_get s i Hs).
    - (* PSetExt *) apply Inv_put; auto. exact (Inv_get s i Hs).
    - (* PAssign *) destruct (i =? j)%nat; cbn [fst]; auto. apply Inv_put; auto. apply objinv_reset. exact (proj1 (Inv_get s j Hs)).
    - (* PSwap *) apply Inv_put; [apply Inv_put; auto|]; [exact (Inv_get s j Hs)|exact (Inv_get s i Hs)].
    - (* PUn *) apply Inv_put; [apply Inv_put; auto; apply objinv_clean, Inv_get, Hs|].
      apply objinv_reset, laid_out_of_mpoly, mp_norm_distinct.
    - (* PBin *) apply Inv_put; [apply Inv_put; [apply Inv_put; auto|]; apply objinv_clean, Inv_get, Hs|].
      apply objinv_reset, laid_out_of_mpoly, mp_norm_distinct.
    - (* PAddMono *) cbn [enabled] in En. rewrite !andb_true_iff in En. destruct En as [[_ Hr] Hm].
      apply Inv_put; auto. apply objinv_reset. exists (sord s).
      destruct (ready_good (sord s) (get s i) (Inv_get s i Hs) Hr) as [Hw Hn]. split.
      + apply add_monomial_wf; auto. apply nodupb_NoDup. exact Hm.
      + now apply add_monomial_norm.
    - (* PMoveOut *) apply Inv_put; auto. apply objinv_reset. exists order_new; split; constructor.
    - (* PHash *) pose proof (objinv_hash (get s i) (Inv_get s i Hs)) as H.
      destruct (poly_hash hz hp (get s i)) as [h p]. cbn [fst snd] in *. now apply Inv_put.
    - (* PEq *) unfold poly_eq, poly_cmp.
      pose proof (objinv_hash (get s i) (Inv_get s i Hs)) as Hi. pose proof (objinv_hash (get s j) (Inv_get s j Hs)) as Hj.
      destruct (poly_hash hz hp (get s i)) as [h1 p1]. destruct (poly_hash hz hp (get s j)) as [h2 q1]. cbn [snd] in *.
      destruct (negb (h1 =? h2)%N); cbn [fst]; (apply Inv_put; [apply Inv_put; auto|]); auto; now apply objinv_clean.
    - (* PCmp *) unfold poly_cmp. cbn [fst]. apply Inv_put; [apply Inv_put; auto|]; apply objinv_clean, Inv_get, Hs.
    - (* PEnsure *) apply Inv_put; auto. unfold ensure_order. apply objinv_set_data_reorder, Inv_get, Hs.
  Qed.

  Lemma Inv_state0 : Inv state0.
  Proof. intros p []. Qed.

  Theorem Inv_run : forall h s, Inv s -> Inv (run hz hp write_reset s h).
  Proof. induction h as [|e h IH]; intros s Hs; cbn [run fold_left]; auto. apply IH. now apply Inv_step. Qed.

  (* ---------------------------------------------------------------- what eq / cmp / hash observe *)
  Lemma hash_value : forall p, cache_ok p -> fst (poly_hash hz hp p) = nz (coef_hash hz hp (pdata p)).
  Proof.
    intros p Hc. unfold poly_hash. destruct (N.eqb_spec (pcache p) 0) as [E|E]; cbn [fst]; [reflexivity|].
    destruct Hc as [Hc|Hc]; [contradiction|exact Hc].
  Qed.
  Lemma hash_data : forall p, pdata (snd (poly_hash hz hp p)) = pdata p /\ pext (snd (poly_hash hz hp p)) = pext p.
  Proof. intros p. unfold poly_hash. destruct (pcache p =? 0)%N; cbn; auto. Qed.

  Lemma clean_depends : forall o p q, pdata p = pdata q -> pext p = pext q -> pdata (external_clean o p) = pdata (external_clean o q).
  Proof. intros o p q Hd He. unfold external_clean. rewrite Hd, He. destruct (pext q && negb (in_order o (pdata q))); cbn; auto. Qed.

  (* equal denotations hash equally, whatever the layouts *)
  Theorem hash_equal : forall p q, objinv p -> objinv q -> to_mpoly (pdata p) = to_mpoly (pdata q) ->
    fst (poly_hash hz hp p) = fst (poly_hash hz hp q).
  Proof.
    intros p q [[o1 [Hw1 Hn1]] Hc1] [[o2 [Hw2 Hn2]] Hc2] He. rewrite !hash_value by auto. f_equal.
    now apply (coef_hash_denotation hz hp o1 o2).
  Qed.

  Theorem poly_cmp_correct : forall o p q, objinv p -> objinv q -> ready o p = true -> ready o q = true ->
    (fst (fst (poly_cmp o p q)) = 0 <-> to_mpoly (pdata p) = to_mpoly (pdata q)).
  Proof.
    intros o p q Hp Hq Hrp Hrq. unfold poly_cmp. cbn [fst].
    rewrite (coef_cmp_den o _ _ (ready_good o p Hp Hrp) (ready_good o q Hq Hrq)).
    unfold external_clean. destruct (pext p && negb (in_order o (pdata p))); destruct (pext q && negb (in_order o (pdata q)));
      cbn [set_data pdata]; rewrite ?to_mpoly_coef_order; reflexivity.
  Qed.

  Theorem poly_eq_correct : forall o p q, objinv p -> objinv q -> ready o p = true -> ready o q = true ->
    (fst (fst (poly_eq hz hp o p q)) = true <-> to_mpoly (pdata p) = to_mpoly (pdata q)).
  Proof.
    intros o p q Hp Hq Hrp Hrq. unfold poly_eq.
    pose proof (hash_equal p q Hp Hq) as Hh. pose proof (hash_data p) as [Dp Ep]. pose proof (hash_data q) as [Dq Eq].
    pose proof (objinv_hash p Hp) as Hp1. pose proof (objinv_hash q Hq) as Hq1.
    destruct (poly_hash hz hp p) as [h1 p1]. destruct (poly_hash hz hp q) as [h2 q1]. cbn [fst snd] in *.
    assert (Hrp1 : ready o p1 = true) by (unfold ready in *; now rewrite (clean_depends o p1 p Dp Ep)).
    assert (Hrq1 : ready o q1 = true) by (unfold ready in *; now rewrite (clean_depends o q1 q Dq Eq)).
    destruct (N.eqb_spec h1 h2) as [E|E]; cbn [negb].
    - pose proof (poly_cmp_correct o p1 q1 Hp1 Hq1 Hrp1 Hrq1) as Hc. rewrite Dp, Dq in Hc.
      destruct (poly_cmp o p1 q1) as [[c p2] q2]. cbn [fst] in *. rewrite Z.eqb_eq. exact Hc.
    - cbn [fst]. split; [discriminate|]. intros He. exfalso. apply E. now apply Hh.
  Qed.

  (* over all histories: the answer of lp_polynomial_eq is equality of the denoted polynomials *)
  Theorem history_eq_correct : forall h i j,
    let s := run hz hp write_reset state0 h in
    enabled s (PEq i j) = true ->
    (snd (step hz hp write_reset s (PEq i j)) = OBool true <-> nth i (dens s) [] = nth j (dens s) []) /\
    (snd (step hz hp write_reset s (PEq i j)) = OBool false <-> nth i (dens s) [] <> nth j (dens s) []).
  Proof.
    intros h i j s En. pose proof (Inv_run h state0 Inv_state0) as Hs. fold s in Hs.
    unfold step. rewrite En. cbn [exec]. cbn [enabled] in En. rewrite !andb_true_iff in En. destruct En as [[_ Hri] Hrj].
    rewrite !dens_nth.
    pose proof (poly_eq_correct (sord s) (get s i) (get s j) (Inv_get s i Hs) (Inv_get s j Hs) Hri Hrj) as Hc.
    destruct (poly_eq hz hp (sord s) (get s i) (get s j)) as [[r p] q]. cbn [fst snd] in *.
    destruct r.
    - split; [split; intros _; [now apply Hc|reflexivity]|split; [discriminate|intros H; exfalso; apply H; now apply Hc]].
    - split; [split; [discriminate|intros H; apply Hc in H; discriminate]|split; [intros _ E; apply Hc in E; discriminate|reflexivity]].
  Qed.

  Theorem history_cmp_correct : forall h i j,
    let s := run hz hp write_reset state0 h in
    enabled s (PCmp i j) = true ->
    (snd (step hz hp write_reset s (PCmp i j)) = OBool true <-> nth i (dens s) [] = nth j (dens s) []).
  Proof.
    intros h i j s En. pose proof (Inv_run h state0 Inv_state0) as Hs. fold s in Hs.
    unfold step. rewrite En. cbn [exec]. cbn [enabled] in En. rewrite !andb_true_iff in En. destruct En as [[_ Hri] Hrj].
    rewrite !dens_nth.
    pose proof (poly_cmp_correct (sord s) (get s i) (get s j) (Inv_get s i Hs) (Inv_get s j Hs) Hri Hrj) as Hc.
    destruct (poly_cmp (sord s) (get s i) (get s j)) as [[c p] q]. cbn [fst snd] in *.
    rewrite <- Hc. split; [intros H; inversion H as [E]; now apply Z.eqb_eq in E|intros ->; reflexivity].
  Qed.

  Theorem history_hash_equal : forall h i j,
    let s := run hz hp write_reset state0 h in
    nth i (dens s) [] = nth j (dens s) [] ->
    fst (poly_hash hz hp (get s i)) = fst (poly_hash hz hp (get s j)).
  Proof.
    intros h i j s He. pose proof (Inv_run h state0 Inv_state0) as Hs. fold s in Hs.
    rewrite !dens_nth in He. apply hash_equal; auto; apply Inv_get; exact Hs.
  Qed.

  Theorem history_cache_inv : forall h i, cache_ok (get (run hz hp write_reset state0 h) i).
  Proof. intros h i. apply Inv_get. apply Inv_run, Inv_state0. Qed.

  Theorem history_laid_out : forall h i, laid_out (pdata (get (run hz hp write_reset state0 h) i)).
  Proof. intros h i. apply Inv_get. apply Inv_run, Inv_state0. Qed.
End Inv.
