(* Property C11 - root isolation under a partial assignment is exact.
   ONLY theorem statements, each closed by `exact` of a lemma from FeasSweepProofs.v, with Print Assumptions
   beneath.  Model: FeasSweep.v, part (b): the assembly of lp_polynomial_roots_isolate (per-factor roots, the
   "factor without y of sign 0" exit, qsort, removal of duplicates) and the candidate filter of
   coefficient_roots_isolate.  The per-factor isolation itself (resultants, univariate isolation, exact sign) is
   NOT proved here: it is validated against an independent exact reference on every run (translation
   validation), see docs/C11.md.

   The carrier T is any totally ordered type: it stands for the real numbers denoted by the lp_value_t's, so
   "duplicates" are equal numbers whatever their representation. *)
From Coq Require Import ZArith List Bool.
From LP Require Import FeasSweep FeasSweepProofs.
Import ListNotations.
Local Open Scope Z_scope.

(* 1. qsort + removal of duplicates: strictly increasing, and the same set of numbers as the input *)
Theorem C11_sort_dedup :
  forall (T : Type) (cmp : T -> T -> comparison), total_order cmp ->
  forall l,
  let res := dedup_sorted T cmp (sort_values T cmp l) in
  increasing T cmp res /\ (forall v, In v res <-> In v l).
Proof. exact sort_dedup_exact. Qed.
Print Assumptions C11_sort_dedup.

(* 2. the whole assembly.  Each square-free factor comes with the sign function of that factor of the
      specialised polynomial: a factor in y reports exactly its zeros (FRoots), a factor without y has constant
      sign (FConst).  The specialisation vanishes where the product does.  Then
        - if a factor without y has sign 0, no root is returned - and the specialisation vanishes identically;
        - otherwise the result is strictly increasing and lists exactly the zeros of the specialisation. *)
Theorem C11_assemble_exact :
  forall (T : Type) (cmp : T -> T -> comparison), total_order cmp ->
  forall sem : list (factor_result T * (T -> Z)),
  Forall (factor_ok T) sem ->
  let fs := map fst sem in
  let res := roots_isolate_assemble T cmp fs in
  (has_zero_const T fs -> res = [] /\ forall v, product_sign T sem v = 0) /\
  (~ has_zero_const T fs -> increasing T cmp res /\ forall v, In v res <-> product_sign T sem v = 0).
Proof. exact roots_isolate_assemble_exact. Qed.
Print Assumptions C11_assemble_exact.

(* 3. degenerate specialisations: no factor contains y (non-zero constant, or zero) => no roots;
      a content factor vanishes (identically zero) => no roots even if other factors have some *)
Theorem C11_degenerate_constant :
  forall (T : Type) (cmp : T -> T -> comparison) (fs : list (factor_result T)),
  (forall f, In f fs -> exists s, f = FConst s) -> roots_isolate_assemble T cmp fs = [].
Proof. exact roots_isolate_assemble_const. Qed.
Print Assumptions C11_degenerate_constant.

Theorem C11_degenerate_zero :
  forall (T : Type) (cmp : T -> T -> comparison) (fs : list (factor_result T)),
  has_zero_const T fs -> roots_isolate_assemble T cmp fs = [].
Proof. exact roots_isolate_assemble_zero. Qed.
Print Assumptions C11_degenerate_zero.

(* 4. COND: the candidate filter of coefficient_roots_isolate.  Premises (named, not proved here):
        exact_sign   : on the candidates, sgn_at r = 0 exactly when r is a root of the specialisation (C10)
        covers       : every root of the specialisation is a root of the eliminant (resultant property, C04)
      Then the surviving candidates are exactly the roots, still strictly increasing. *)
Theorem C11_filter_exact_cond :
  forall (T : Type) (cmp : T -> T -> comparison) (sgn_at : T -> Z) (is_root : T -> Prop) candidates,
  increasing T cmp candidates ->
  (forall r, In r candidates -> (sgn_at r = 0 <-> is_root r)) ->
  (forall r, is_root r -> In r candidates) ->
  let res := filter_candidates T sgn_at candidates in
  increasing T cmp res /\ (forall v, In v res <-> is_root v).
Proof. exact filter_candidates_exact. Qed.
Print Assumptions C11_filter_exact_cond.

(* ---- non-vacuity / behaviour on concrete data *)
Example C11_assemble_example :
  z_roots_isolate_assemble [FRoots [30; 10]; FConst 5; FRoots [20; 10; 30]] = [10; 20; 30] /\
  z_roots_isolate_assemble [FRoots [30; 10]; FConst 0; FRoots [20]] = [] /\
  z_roots_isolate_assemble [FConst 3; FConst (-1)] = [].
Proof. vm_compute. repeat split. Qed.
Example C11_factor_ok_inhabited :
  Forall (factor_ok Z) [(FRoots [30; 10], fun v => (v - 10) * (v - 30)); (FConst 5, fun _ => 5)].
Proof. exact ex_factor_ok. Qed.

(* ================================================================================================================
   6. THE VERIFIED ACCEPTANCE TEST.  The model driver does not compare libpoly's roots with an unverified reference
      any more where the checker applies: it runs the extracted boolean function RootCheck.accept_roots on the root
      list read from the implementation, and acceptance is PROVED to imply exactness in every real closed field.

      accept_roots fuel a y p rs = Accept, where a assigns validated representations (rn_valid) to the lower
      variables, rho is ANY valuation in a real closed field R under which the (normalised) representations of a
      denote the values rho v, means: the normalised representations in rs denote a strictly increasing list vs
      of elements of R which is exactly the set of real zeros of  t |-> p(rho, y := t)  - and vs = [] when that
      function vanishes identically.  Scope of the checker: all assigned values rational, or exactly one irrational
      value and a square-free specialisation; otherwise it answers NotApplicable (never Accept). *)
Set Warnings "-notation-overridden,-ambiguous-paths".
From mathcomp Require Import all_ssreflect all_algebra all_real_closed.
Set Warnings "notation-overridden,ambiguous-paths".
From LP Require Import Scalar UPoly MPoly RefAlg RootCheck RefAlgSpec RefAlgRoots RefAlgArith RootCheckBase RootCheckTop.
Local Close Scope Z_scope.
Local Open Scope ring_scope.

Theorem C11_accept_roots_exact :
  forall (R : rcfType) (fuel : nat) (a : asg) (y : MPoly.var) (p : mpoly) (rs : seq rnum) (rho : MPoly.var -> R),
  (forall v r, List.In (v, r) a -> rn_denotes (rn_norm r) (rho v)) ->
  accept_roots fuel a y p rs = Accept ->
  exists vs : seq R,
    [/\ dens (List.map rn_norm rs) vs, sorted <%R vs
      & ((forall t, mp_evalR (RootCheckBase.upd rho y t) p = 0) /\ vs = [::]) \/
        ((exists t, mp_evalR (RootCheckBase.upd rho y t) p != 0) /\
         forall t, (t \in vs) = (mp_evalR (RootCheckBase.upd rho y t) p == 0)) ].
Proof. exact accept_roots_exact. Qed.
Print Assumptions C11_accept_roots_exact.

(* the exact primitives of the checker: sign of an integer polynomial at a real algebraic number (gcd + Sturm +
   refinement), and substitution of rational values with one positive multiplier *)
Theorem C11_sign_alg : forall (R : rcfType) (fuel : nat) (p : seq Z) (x : rnum) (a : R) (s : Z),
  rn_denotes x a -> sign_alg fuel p x = Some s -> @zr R s = Num.sg (@pr R p).[a].
Proof. exact sign_alg_spec. Qed.
Print Assumptions C11_sign_alg.

(* the heart of the one-irrational-parameter regime, on the dense bivariate view By (polynomials in x, low y-degree
   first) at the number a denoted by alpha: eliminant by resultant covers the roots, ALL its real roots are the
   candidates, the discriminant certifies square-freeness, sign changes across isolating intervals decide *)
Theorem C11_accept_bv_exact :
  forall (R : rcfType) (fuel : nat) (alpha : rnum) (By : seq (seq Z)) (rs : seq rnum) (a : R),
  rn_denotes alpha a ->
  (forall r, List.In r rs -> exists v : R, rn_denotes r v) ->
  accept_bv fuel alpha By rs = Accept ->
  exists vs : seq R,
    [/\ dens rs vs, sorted <%R vs
      & (RootCheckAlg.spec_poly By a = 0 /\ vs = [::]) \/
        (RootCheckAlg.spec_poly By a != 0 /\ forall t, (t \in vs) = root (RootCheckAlg.spec_poly By a) t)].
Proof. exact (fun R => @RootCheckAlg.accept_bv_exact R (@sign_alg_spec R)). Qed.
Print Assumptions C11_accept_bv_exact.
