(* C16 reference side (not a model of libpoly): exact sign of an integer univariate polynomial at a reference
   real algebraic number (RefAlg.rnum).  Used by the correspondence monitors to evaluate constraints at sample
   points with at most one irrational coordinate without general algebraic arithmetic.  Executable, stdlib
   only, no proofs. *)
From Coq Require Import ZArith NArith List Bool.
From LP Require Import Scalar UPoly RefAlg.
Import ListNotations.
Local Open Scope Z_scope.

(* g(x) <> 0 is known: refine x until the square-free part gs of g has no root in [lo, hi]; g has then the sign
   it has at the mid point *)
Fixpoint psgn_rn_loop (fuel : nat) (g gs : poly) (x : rnum) : option Z :=
  match fuel with
  | O => None
  | S f =>
    match x with
    | RQ q => Some (psgn_q g q)
    | RA p lo hi =>
      if (psgn_q g lo =? 0) || (psgn_q g hi =? 0) || negb (Nat.eqb (count_open gs lo hi) 0)
      then psgn_rn_loop f g gs (rn_refine x)
      else Some (psgn_q g (q_mid lo hi))
    end
  end.

(* sign of g at x (x valid and normalised: square-free defining polynomial) *)
Definition psgn_rn (fuel : nat) (g : poly) (x : rnum) : option Z :=
  match x with
  | RQ q => Some (psgn_q g q)
  | RA p lo hi =>
    if pis_zero g then Some 0 else
    let d := pgcd p g in
    if Nat.leb 1 (pdeg d) && Nat.ltb 0 (count_open (psqfree d) lo hi) then Some 0
    else psgn_rn_loop fuel g (psqfree g) x
  end.
