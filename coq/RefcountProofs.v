(* Proofs about the reference-counting state machine (Refcount.v). *)
From Coq Require Import Arith List Bool Lia.
From LP Require Import Refcount.
Import ListNotations.

(* contribution of the parents numbered below n to the counter of x *)
Fixpoint psum (s : rstate) (x : nat) (n : nat) : nat :=
  match n with
  | O => 0
  | S m => count_occ Nat.eq_dec (kids s m) x * cnt s m + psum s x m
  end.

Record Inv (s : rstate) (h : holds) : Prop := {
  inv_cnt : forall x, x < nxt s -> cnt s x = h x + psum s x (nxt s);
  inv_live : forall x, x < nxt s -> live s x = Nat.ltb 0 (cnt s x);
  inv_out : forall x, nxt s <= x -> cnt s x = 0 /\ live s x = false /\ kids s x = [] /\ h x = 0;
  inv_kids : forall c k, In k (kids s c) -> k < c /\ kids s k = [];
}.

Lemma upd_same {A} (f : nat -> A) i v : upd f i v i = v.
Proof. unfold upd. rewrite Nat.eqb_refl. reflexivity. Qed.
Lemma upd_other {A} (f : nat -> A) i j v : j <> i -> upd f i v j = f j.
Proof. intros H. unfold upd. destruct (Nat.eqb_spec j i); [contradiction|reflexivity]. Qed.

Ltac split_eq x a :=
  unfold upd; destruct (Nat.eq_dec a x) as [E|E];
  [subst; rewrite ?Nat.eqb_refl | rewrite ?(proj2 (Nat.eqb_neq x a)) by (intros E'; apply E; symmetry; exact E')].

(* ---- effect of folding inc / dec over a list of leaves *)
Lemma fold_inc_cnt l : forall s x, cnt (fold_left inc l s) x = cnt s x + count_occ Nat.eq_dec l x.
Proof.
  induction l as [|a l IH]; intros s x; cbn [fold_left count_occ]; [lia|].
  rewrite IH. unfold inc. cbn [cnt]. split_eq x a; lia.
Qed.
Lemma fold_inc_other l : forall s, nxt (fold_left inc l s) = nxt s /\ live (fold_left inc l s) = live s
                                   /\ kids (fold_left inc l s) = kids s.
Proof. induction l as [|a l IH]; intros s; cbn [fold_left]; [tauto|]. destruct (IH (inc s a)) as [A [B C]]. rewrite A, B, C. tauto. Qed.

Lemma fold_dec_other l : forall s, nxt (fold_left dec l s) = nxt s /\ kids (fold_left dec l s) = kids s.
Proof. induction l as [|a l IH]; intros s; cbn [fold_left]; [tauto|]. destruct (IH (dec s a)) as [A B]. rewrite A, B. tauto. Qed.

Lemma fold_dec_cnt l : forall s x, count_occ Nat.eq_dec l x <= cnt s x ->
  (forall y, count_occ Nat.eq_dec l y <= cnt s y) ->
  cnt (fold_left dec l s) x = cnt s x - count_occ Nat.eq_dec l x.
Proof.
  induction l as [|a l IH]; intros s x Hx Hall; cbn [fold_left count_occ] in *; [lia|].
  rewrite IH.
  - unfold dec. cbn [cnt]. split_eq x a; lia.
  - unfold dec. cbn [cnt]. specialize (Hall x). split_eq x a; lia.
  - intros y. specialize (Hall y). unfold dec. cbn [cnt]. split_eq y a; lia.
Qed.

(* liveness after folding dec: an object stays live iff its counter stays positive, provided liveness
   agreed with positivity before and counters suffice *)
Lemma fold_dec_live l : forall s, (forall y, count_occ Nat.eq_dec l y <= cnt s y) ->
  (forall y, live s y = Nat.ltb 0 (cnt s y)) ->
  forall x, live (fold_left dec l s) x = Nat.ltb 0 (cnt s x - count_occ Nat.eq_dec l x).
Proof.
  induction l as [|a l IH]; intros s Hall Hl x; cbn [fold_left count_occ].
  - rewrite Hl. f_equal. lia.
  - rewrite IH.
    + unfold dec. cbn [cnt]. specialize (Hall x). cbn [count_occ] in Hall.
      split_eq x a; f_equal; lia.
    + intros y. specialize (Hall y). cbn [count_occ] in Hall. unfold dec. cbn [cnt]. split_eq y a; lia.
    + intros y. unfold dec. cbn [cnt live]. unfold upd.
      destruct (Nat.eqb_spec (pred (cnt s a)) 0) as [E0|E0].
      * destruct (Nat.eqb_spec y a) as [->|Hne]; [rewrite E0; reflexivity|apply Hl].
      * destruct (Nat.eqb_spec y a) as [->|Hne]; [|apply Hl].
        rewrite Hl. destruct (cnt s a) as [|[|n]]; cbn in *; try reflexivity; lia.
Qed.

(* psum only depends on cnt/kids below n *)
Lemma psum_ext s s' x n : (forall c, c < n -> cnt s' c = cnt s c /\ kids s' c = kids s c) -> psum s' x n = psum s x n.
Proof.
  induction n as [|m IH]; intros H; cbn [psum]; [reflexivity|].
  destruct (H m ltac:(lia)) as [A B]. rewrite A, B, IH; [reflexivity|]. intros c Hc. apply H. lia.
Qed.

(* if x is not a kid of anybody below n the sum is 0 *)
Lemma psum_zero s x n : (forall c, c < n -> ~ In x (kids s c)) -> psum s x n = 0.
Proof.
  induction n as [|m IH]; intros H; cbn [psum]; [reflexivity|].
  rewrite IH by (intros c Hc; apply H; lia).
  rewrite (proj1 (count_occ_not_In Nat.eq_dec (kids s m) x)); [lia|apply H; lia].
Qed.

(* changing the counter of one parent p < n changes the sum by occ(kids p, x) * difference; counters of
   objects without kids do not matter *)
Lemma psum_cnt_change s s' x n p :
  p < n -> kids s' = kids s -> (forall c, c <> p -> kids s c <> [] -> cnt s' c = cnt s c) ->
  psum s' x n + count_occ Nat.eq_dec (kids s p) x * cnt s p = psum s x n + count_occ Nat.eq_dec (kids s p) x * cnt s' p.
Proof.
  intros Hp Hk Hc.
  assert (Hbelow : forall m, m <= p -> psum s' x m = psum s x m).
  { induction m as [|m IH]; intros Hm; cbn [psum]; [reflexivity|]. rewrite Hk, IH by lia.
    destruct (kids s m) as [|k ks] eqn:Ek; [reflexivity|]. rewrite (Hc m); [reflexivity|lia|rewrite Ek; discriminate]. }
  induction n as [|m IH]; [lia|]. cbn [psum]. rewrite Hk.
  destruct (Nat.eq_dec m p) as [->|Hne].
  - rewrite (Hbelow p) by lia. lia.
  - assert (Hpm : p < m) by lia. specialize (IH Hpm).
    destruct (kids s m) as [|k ks] eqn:Ek; [cbn [count_occ]; lia|].
    rewrite (Hc m); [lia|assumption|rewrite Ek; discriminate].
Qed.

Lemma psum_same s s' x n :
  kids s' = kids s -> (forall c, c < n -> kids s c <> [] -> cnt s' c = cnt s c) -> psum s' x n = psum s x n.
Proof.
  intros Hk Hc. induction n as [|m IH]; cbn [psum]; [reflexivity|]. rewrite Hk, IH by (intros c Hlt; apply Hc; lia).
  destruct (kids s m) as [|k ks] eqn:Ek; [reflexivity|]. rewrite (Hc m); [reflexivity|lia|rewrite Ek; discriminate].
Qed.

(* lower bound: a parent's counter is contained in the sum *)
Lemma psum_ge s x n p : p < n -> count_occ Nat.eq_dec (kids s p) x * cnt s p <= psum s x n.
Proof.
  intros Hp. induction n as [|m IH]; [lia|]. cbn [psum]. destruct (Nat.eq_dec m p) as [->|Hne]; [lia|].
  assert (p < m) by lia. specialize (IH H). lia.
Qed.

(* ---- effect of attach / detach on the fields *)
Lemma attach_fields s i :
  nxt (attach s i) = nxt s /\ live (attach s i) = live s /\ kids (attach s i) = kids s /\
  forall x, cnt (attach s i) x = cnt s x + count_occ Nat.eq_dec (kids s i) x + (if Nat.eqb x i then 1 else 0).
Proof.
  unfold attach. destruct (fold_inc_other (kids s i) s) as [A [B C]].
  cbn [inc nxt live kids cnt]. rewrite A, B, C. repeat split.
  intros x. unfold upd. rewrite !fold_inc_cnt. destruct (Nat.eqb_spec x i) as [->|Hne]; lia.
Qed.

Lemma detach_fields s i :
  (forall y, count_occ Nat.eq_dec (kids s i) y <= cnt s y) ->
  (forall y, live s y = Nat.ltb 0 (cnt s y)) ->
  nxt (detach s i) = nxt s /\ kids (detach s i) = kids s /\
  (forall x, cnt (detach s i) x = (cnt s x - count_occ Nat.eq_dec (kids s i) x) - (if Nat.eqb x i then 1 else 0)) /\
  (forall x, live (detach s i) x = Nat.ltb 0 (cnt (detach s i) x)).
Proof.
  intros Hall Hl. unfold detach. destruct (fold_dec_other (kids s i) s) as [A B].
  set (s1 := fold_left dec (kids s i) s) in *.
  assert (C1 : forall x, cnt s1 x = cnt s x - count_occ Nat.eq_dec (kids s i) x).
  { intros x. apply fold_dec_cnt; [apply Hall|exact Hall]. }
  assert (L1 : forall x, live s1 x = Nat.ltb 0 (cnt s1 x)).
  { intros x. rewrite C1. apply fold_dec_live; assumption. }
  cbn [dec nxt kids cnt live]. rewrite A, B. repeat split.
  - intros x. unfold upd. destruct (Nat.eqb_spec x i) as [->|Hne]; rewrite ?C1; lia.
  - intros x. unfold upd at 2.
    destruct (Nat.eqb_spec (pred (cnt s1 i)) 0) as [E0|E0].
    + unfold upd. destruct (Nat.eqb_spec x i) as [->|Hne]; [rewrite E0; reflexivity|apply L1].
    + destruct (Nat.eqb_spec x i) as [->|Hne]; [|apply L1].
      rewrite L1. destruct (cnt s1 i) as [|[|n]]; cbn in *; try reflexivity; lia.
Qed.

(* ---- the invariant is preserved by every permitted operation *)

Lemma inv_live_all s h : Inv s h -> forall y, live s y = Nat.ltb 0 (cnt s y).
Proof.
  intros I y. destruct (Nat.lt_ge_cases y (nxt s)) as [Hy|Hy]; [apply (inv_live _ _ I); assumption|].
  destruct (inv_out _ _ I y Hy) as [A [B _]]. rewrite A, B. reflexivity.
Qed.

Lemma inv_kid_lt s h : Inv s h -> forall c k, In k (kids s c) -> c < nxt s /\ k < c.
Proof.
  intros I c k Hin. destruct (inv_kids _ _ I c k Hin) as [A _]. split; [|assumption].
  destruct (Nat.lt_ge_cases c (nxt s)) as [Hc|Hc]; [assumption|].
  destruct (inv_out _ _ I c Hc) as [_ [_ [K _]]]. rewrite K in Hin. destruct Hin.
Qed.

Lemma occ_zero_ge s h : Inv s h -> forall c x, c <= x -> count_occ Nat.eq_dec (kids s c) x = 0.
Proof.
  intros I c x Hcx. apply count_occ_not_In. intros Hin. destruct (inv_kids _ _ I c x Hin). lia.
Qed.

(* a parent with positive counter keeps its kids' counters at least as large as their multiplicity *)
Lemma kid_cnt_ge s h : Inv s h -> forall i y, i < nxt s -> 0 < cnt s i ->
  count_occ Nat.eq_dec (kids s i) y <= cnt s y.
Proof.
  intros I i y Hi Hc.
  destruct (Nat.eq_dec (count_occ Nat.eq_dec (kids s i) y) 0) as [E|E]; [lia|].
  assert (Hin : In y (kids s i)) by (apply (count_occ_In Nat.eq_dec); lia).
  destruct (inv_kid_lt _ _ I i y Hin) as [_ Hy].
  rewrite (inv_cnt _ _ I y) by lia.
  pose proof (psum_ge s y (nxt s) i Hi). nia.
Qed.

Lemma attach_inv s h i : Inv s h -> i < nxt s -> live s i = true ->
  Inv (attach s i) (upd h i (S (h i))).
Proof.
  intros I Hi Hl.
  destruct (attach_fields s i) as [An [Al [Ak Ac]]].
  assert (Hci : 0 < cnt s i) by (rewrite (inv_live _ _ I i Hi) in Hl; apply Nat.ltb_lt; exact Hl).
  assert (Hps : forall x, psum (attach s i) x (nxt s) = psum s x (nxt s) + count_occ Nat.eq_dec (kids s i) x).
  { intros x. pose proof (psum_cnt_change s (attach s i) x (nxt s) i Hi Ak) as P.
    rewrite Ac, Nat.eqb_refl, (occ_zero_ge _ _ I i i (le_n _)) in P.
    assert (Hoth : forall c, c <> i -> kids s c <> [] -> cnt (attach s i) c = cnt s c).
    { intros c Hne Hk. rewrite Ac. destruct (Nat.eqb_spec c i); [contradiction|].
      rewrite (proj1 (count_occ_not_In Nat.eq_dec (kids s i) c)); [lia|].
      intros Hin. destruct (inv_kids _ _ I i c Hin) as [_ K]. contradiction. }
    specialize (P Hoth). nia. }
  constructor.
  - intros x Hx. rewrite An in *. rewrite Ac, Hps. unfold upd. rewrite (inv_cnt _ _ I x Hx).
    destruct (Nat.eqb_spec x i) as [->|Hne]; lia.
  - intros x Hx. rewrite An in Hx. rewrite Al, Ac, (inv_live _ _ I x Hx).
    destruct (Nat.ltb_spec 0 (cnt s x)) as [P|P].
    + symmetry. apply Nat.ltb_lt. lia.
    + assert (cnt s x = 0) by lia.
      pose proof (kid_cnt_ge _ _ I i x Hi Hci).
      destruct (Nat.eqb_spec x i) as [->|Hne]; [lia|].
      symmetry. apply Nat.ltb_ge. lia.
  - intros x Hx. rewrite An in Hx. destruct (inv_out _ _ I x Hx) as [A [B [C D]]].
    rewrite Ac, Al, Ak, A, B, C. unfold upd.
    destruct (Nat.eqb_spec x i) as [->|Hne]; [lia|].
    rewrite (proj1 (count_occ_not_In Nat.eq_dec (kids s i) x)); [tauto|].
    intros Hin. destruct (inv_kid_lt _ _ I i x Hin). lia.
  - intros c k. rewrite Ak. apply (inv_kids _ _ I).
Qed.

Lemma detach_inv s h i : Inv s h -> i < nxt s -> 0 < h i ->
  Inv (detach s i) (upd h i (pred (h i))).
Proof.
  intros I Hi Hh.
  assert (Hci : 0 < cnt s i) by (rewrite (inv_cnt _ _ I i Hi); lia).
  destruct (detach_fields s i (fun y => kid_cnt_ge _ _ I i y Hi Hci) (inv_live_all _ _ I)) as [Dn [Dk [Dc Dl]]].
  assert (Hps : forall x, psum (detach s i) x (nxt s) + count_occ Nat.eq_dec (kids s i) x = psum s x (nxt s)).
  { intros x. pose proof (psum_cnt_change s (detach s i) x (nxt s) i Hi Dk) as P.
    rewrite Dc, Nat.eqb_refl, (occ_zero_ge _ _ I i i (le_n _)) in P.
    assert (Hoth : forall c, c <> i -> kids s c <> [] -> cnt (detach s i) c = cnt s c).
    { intros c Hne Hk. rewrite Dc. destruct (Nat.eqb_spec c i); [contradiction|].
      rewrite (proj1 (count_occ_not_In Nat.eq_dec (kids s i) c)); [lia|].
      intros Hin. destruct (inv_kids _ _ I i c Hin) as [_ K]. contradiction. }
    specialize (P Hoth). nia. }
  constructor.
  - intros x Hx. rewrite Dn in *. rewrite Dc. unfold upd. specialize (Hps x).
    pose proof (inv_cnt _ _ I x Hx). pose proof (kid_cnt_ge _ _ I i x Hi Hci).
    pose proof (psum_ge s x (nxt s) i Hi).
    destruct (Nat.eqb_spec x i) as [->|Hne].
    + rewrite (occ_zero_ge _ _ I i i (le_n _)) in *. lia.
    + nia.
  - intros x _. apply Dl.
  - intros x Hx. rewrite Dn in Hx. destruct (inv_out _ _ I x Hx) as [A [B [C D]]].
    rewrite Dl, Dc, Dk, A, C. unfold upd.
    destruct (Nat.eqb_spec x i) as [->|Hne]; [lia|]. cbn. tauto.
  - intros c k. rewrite Dk. apply (inv_kids _ _ I).
Qed.

Lemma create_inv s h ks : Inv s h ->
  (forall k, In k ks -> k < nxt s /\ live s k = true /\ kids s k = []) ->
  Inv (create s ks) (upd h (nxt s) 1).
Proof.
  intros I Hks. unfold create.
  set (i := nxt s).
  set (s0 := {| nxt := S i; cnt := upd (cnt s) i 0; live := upd (live s) i true; kids := upd (kids s) i ks |}).
  destruct (attach_fields s0 i) as [An [Al [Ak Ac]]].
  assert (K0 : kids s0 i = ks) by (cbn; apply upd_same).
  assert (Kc : forall c, c <> i -> kids s0 c = kids s c) by (intros c Hc; cbn; apply upd_other; assumption).
  assert (C0 : forall c, c <> i -> cnt s0 c = cnt s c) by (intros c Hc; cbn; apply upd_other; assumption).
  assert (Ci : cnt s0 i = 0) by (cbn; apply upd_same).
  assert (Hocc_i : count_occ Nat.eq_dec ks i = 0).
  { apply count_occ_not_In. intros Hin. destruct (Hks i Hin). unfold i in *. lia. }
  assert (Hocc_ge : forall x, i <= x -> count_occ Nat.eq_dec ks x = 0).
  { intros x Hx. apply count_occ_not_In. intros Hin. destruct (Hks x Hin). unfold i in *. lia. }
  (* sums over the old objects are unchanged: only leaves and the new object changed counters *)
  assert (Hps : forall x, psum (attach s0 i) x i = psum s x i).
  { intros x.
    assert (G : forall n, n <= i -> psum (attach s0 i) x n = psum s x n).
    { induction n as [|n IHn]; intros Hn; cbn [psum]; [reflexivity|].
      rewrite IHn by lia. rewrite Ak. rewrite (Kc n) by lia.
      destruct (kids s n) as [|k kk] eqn:Ek; [reflexivity|].
      rewrite Ac, K0. rewrite (C0 n) by lia.
      destruct (Nat.eqb_spec n i); [lia|].
      rewrite (proj1 (count_occ_not_In Nat.eq_dec ks n)); [lia|].
      intros Hin. destruct (Hks n Hin) as [_ [_ K]]. rewrite Ek in K. discriminate. }
    apply G. lia. }
  constructor.
  - assert (Hci' : cnt (attach s0 i) i = 1) by (rewrite Ac, K0, Ci, Hocc_i, Nat.eqb_refl; lia).
    intros x Hx. rewrite An in *. cbn [nxt s0] in *. cbn [psum]. rewrite Hps, Ak, K0, Hci', Ac, K0.
    unfold upd at 1.
    destruct (Nat.eqb_spec x i) as [->|Hne].
    + rewrite Ci, Hocc_i.
      rewrite (psum_zero s i i); [lia|]. intros c Hc Hin. destruct (inv_kids _ _ I c i Hin). lia.
    + assert (Hxi : x < i) by lia. rewrite C0 by assumption. rewrite (inv_cnt _ _ I x Hxi).
      fold i. lia.
  - intros x Hx. rewrite An in Hx. cbn [nxt s0] in Hx. rewrite Al, Ac, K0. cbn [live s0]. unfold upd.
    destruct (Nat.eqb_spec x i) as [->|Hne].
    + rewrite Ci, Hocc_i. reflexivity.
    + assert (Hxi : x < i) by lia. rewrite C0 by assumption. rewrite (inv_live _ _ I x Hxi).
      destruct (Nat.ltb_spec 0 (cnt s x)) as [P|P]; symmetry; [apply Nat.ltb_lt; lia|].
      apply Nat.ltb_ge.
      destruct (Nat.eq_dec (count_occ Nat.eq_dec ks x) 0) as [E|E]; [lia|].
      assert (Hin : In x ks) by (apply (count_occ_In Nat.eq_dec); lia).
      destruct (Hks x Hin) as [_ [L _]]. rewrite (inv_live _ _ I x Hxi) in L. apply Nat.ltb_lt in L. lia.
  - intros x Hx. rewrite An in Hx. cbn [nxt s0] in Hx.
    assert (Hx' : nxt s <= x) by (fold i; lia).
    destruct (inv_out _ _ I x Hx') as [A [B [C D]]].
    rewrite Ac, Al, Ak, K0. cbn [live s0]. unfold upd.
    destruct (Nat.eqb_spec x i) as [->|Hne]; [lia|].
    rewrite C0 by assumption. rewrite (Hocc_ge x) by lia. rewrite A, B, D.
    rewrite Kc by assumption. rewrite C. tauto.
  - intros c k. rewrite Ak. destruct (Nat.eq_dec c i) as [->|Hne].
    + rewrite K0. intros Hin. destruct (Hks k Hin) as [A [_ B]]. fold i in A. split; [assumption|].
      rewrite Kc by lia. assumption.
    + rewrite Kc by assumption. intros Hin. destruct (inv_kids _ _ I c k Hin) as [A B]. split; [assumption|].
      destruct (Nat.eq_dec k i) as [->|Hk]; [|rewrite Kc by assumption; assumption].
      destruct (inv_kid_lt _ _ I c i Hin). unfold i in *. lia.
Qed.

Lemma init_inv : Inv init (fun _ => 0).
Proof. constructor; cbn; intros; try lia; try tauto. Qed.

Lemma permitted_New s h ks : permitted s h (New ks) = true ->
  forall k, In k ks -> k < nxt s /\ live s k = true /\ kids s k = [].
Proof.
  cbn. rewrite forallb_forall. intros H k Hin. specialize (H k Hin).
  apply andb_prop in H. destruct H as [H1 H3]. apply andb_prop in H1. destruct H1 as [H1 H2].
  apply Nat.ltb_lt in H1. destruct (kids s k); [tauto|discriminate].
Qed.

Lemma step_inv s h o : Inv s h -> Inv (fst (step (s, h) o)) (snd (step (s, h) o)).
Proof.
  intros I. cbn [step]. destruct (permitted s h o) eqn:P; [|exact I].
  destruct o as [ks|i|i]; cbn [fst snd].
  - apply create_inv; [assumption|apply permitted_New with h; assumption].
  - unfold permitted in P. apply andb_prop in P. destruct P as [P1 P2]. apply Nat.ltb_lt in P1. apply attach_inv; assumption.
  - unfold permitted in P. apply andb_prop in P. destruct P as [P1 P2]. apply Nat.ltb_lt in P1, P2. apply detach_inv; assumption.
Qed.

Theorem run_inv ops : Inv (fst (run ops)) (snd (run ops)).
Proof.
  unfold run.
  assert (G : forall sh, Inv (fst sh) (snd sh) -> Inv (fst (fold_left step ops sh)) (snd (fold_left step ops sh))).
  { induction ops as [|o ops IH]; intros sh I; cbn [fold_left]; [exact I|].
    apply IH. destruct sh as [s h]. apply step_inv. exact I. }
  apply G. exact init_inv.
Qed.

(* an object is allocated exactly while somebody holds it: a user, or a context with a positive counter *)
Theorem live_iff_held ops x : let '(s, h) := run ops in x < nxt s ->
  (live s x = true <-> 0 < h x + psum s x (nxt s)).
Proof.
  pose proof (run_inv ops) as I. destruct (run ops) as [s h]. cbn [fst snd] in I. intros Hx.
  rewrite (inv_live _ _ I x Hx), <- (inv_cnt _ _ I x Hx). apply Nat.ltb_lt.
Qed.

(* when every user has given up all references, every counter is 0 *)
Lemma all_released_cnt s h : Inv s h -> (forall x, h x = 0) -> forall n x, x < nxt s -> nxt s - x <= n -> cnt s x = 0.
Proof.
  intros I Hh. induction n as [|n IH]; intros x Hx Hn; [lia|].
  rewrite (inv_cnt _ _ I x Hx), Hh. cbn [plus].
  (* every parent c of x has c > x, hence (induction) counter 0 *)
  assert (G : forall m, m <= nxt s -> psum s x m = 0).
  { induction m as [|m IHm]; intros Hm; cbn [psum]; [reflexivity|]. rewrite IHm by lia.
    destruct (Nat.le_gt_cases m x) as [L|L].
    - rewrite (occ_zero_ge _ _ I m x L). reflexivity.
    - rewrite (IH m) by lia. lia. }
  apply G. lia.
Qed.

Theorem all_released_nothing_live ops :
  let '(s, h) := run ops in (forall x, h x = 0) -> forall x, live s x = false.
Proof.
  pose proof (run_inv ops) as I. destruct (run ops) as [s h]. cbn [fst snd] in I. intros Hh x.
  rewrite (inv_live_all _ _ I x).
  destruct (Nat.lt_ge_cases x (nxt s)) as [Hx|Hx].
  - rewrite (all_released_cnt s h I Hh (nxt s) x Hx) by lia. reflexivity.
  - destruct (inv_out _ _ I x Hx) as [A _]. rewrite A. reflexivity.
Qed.

(* no use after free inside the modelled contract: a permitted attach / detach only touches live objects,
   and so do the counters it reaches through kids *)
Theorem permitted_targets_live ops o :
  let '(s, h) := run ops in permitted s h o = true ->
  match o with
  | New ks => forall k, In k ks -> live s k = true
  | Attach i => live s i = true /\ forall k, In k (kids s i) -> live s k = true
  | Detach i => live s i = true /\ forall k, In k (kids s i) -> live s k = true
  end.
Proof.
  pose proof (run_inv ops) as I. destruct (run ops) as [s h]. cbn [fst snd] in I. intros P.
  destruct o as [ks|i|i].
  - intros k Hin. apply (permitted_New s h ks P k Hin).
  - unfold permitted in P. apply andb_prop in P. destruct P as [P1 P2]. apply Nat.ltb_lt in P1. split; [assumption|].
    intros k Hin. destruct (inv_kid_lt _ _ I i k Hin) as [_ Hk].
    rewrite (inv_live _ _ I k) by lia. apply Nat.ltb_lt.
    assert (0 < cnt s i) by (rewrite (inv_live _ _ I i P1) in P2; apply Nat.ltb_lt; exact P2).
    pose proof (kid_cnt_ge _ _ I i k P1 H).
    assert (0 < count_occ Nat.eq_dec (kids s i) k) by (apply count_occ_In; assumption). lia.
  - unfold permitted in P. apply andb_prop in P. destruct P as [P1 P2]. apply Nat.ltb_lt in P1, P2.
    assert (Hc : 0 < cnt s i) by (rewrite (inv_cnt _ _ I i P1); lia).
    split; [rewrite (inv_live _ _ I i P1); apply Nat.ltb_lt; assumption|].
    intros k Hin. destruct (inv_kid_lt _ _ I i k Hin) as [_ Hk].
    rewrite (inv_live _ _ I k) by lia. apply Nat.ltb_lt.
    pose proof (kid_cnt_ge _ _ I i k P1 Hc).
    assert (0 < count_occ Nat.eq_dec (kids s i) k) by (apply count_occ_In; assumption). lia.
Qed.
