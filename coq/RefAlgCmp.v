(* Soundness of the reference equality test of two real algebraic numbers (gcd of the defining polynomials has a root in
   the intersection of the isolating intervals, decided by the Sturm count of its square-free part) and hence the full
   specification of the reference comparison rn_cmp, over every real closed field. *)
From Coq Require Import ZArith.
From LP Require Import Scalar UPoly RootIso RefAlg Gcd.
Set Warnings "-notation-overridden,-ambiguous-paths".
From mathcomp Require Import all_ssreflect all_algebra all_real_closed.
From mathcomp Require Import ssrZ zify.
Set Warnings "notation-overridden,ambiguous-paths".
From LP Require Import UPolySpec ScalarProofs GcdSpec FactorProofs RootIsoProofs SturmItv RefAlgSpec RefAlgLoops RefAlgOps RefAlgValid.
Import GRing.Theory Num.Theory Num.Def Order.TTheory.
Set Implicit Arguments.
Unset Strict Implicit.
Unset Printing Implicit Defensive.
Local Open Scope ring_scope.

Section Cmp.
Variable R : rcfType.
Local Notation PR := (PR R).
Local Notation QR := (QR R).
Local Notation qr := (@qr R).
Local Notation rn_denotes := (@rn_denotes R).

Lemma q_max_spec (a b : Z * Z) : qpos a -> qpos b ->
  [/\ qpos (q_max a b), qr a <= qr (q_max a b) & qr b <= qr (q_max a b)].
Proof.
move=> Ha Hb; rewrite /q_max (q_le_spec R Ha Hb).
by case: (leP (qr a) (qr b)) => [le|/ltW le]; split.
Qed.

Lemma q_min_spec (a b : Z * Z) : qpos a -> qpos b ->
  [/\ qpos (q_min a b), qr (q_min a b) <= qr a & qr (q_min a b) <= qr b].
Proof.
move=> Ha Hb; rewrite /q_min (q_le_spec R Ha Hb).
by case: (leP (qr a) (qr b)) => [le|/ltW le]; split.
Qed.

(* a positive open count of a polynomial with simple real roots exhibits a root strictly inside *)
Lemma count_open_gt0_root (f : seq Z) (l h : Z * Z) :
  ~~ pis_zero f -> (forall x : R, root (PR f) x -> \mu_x (PR f) = 1%N) ->
  qpos l -> qpos h -> qr l < qr h -> (0 < count_open f l h)%N ->
  exists2 w : R, qr l < w < qr h & root (PR f) w.
Proof.
move=> f0 simple Hl Hh lh.
have F0 : PR f != 0 by rewrite PR_eq0.
have nd x : root (PR f) x -> ~~ root (PR f)^`() x.
  move=> fx; have m0 := mu_deriv fx; rewrite (simple x fx) subnn in m0.
  have d0 : (PR f)^`() != 0.
    rewrite -size_poly_eq0 size_deriv; have := root_size_gt1 F0 fx.
    by case: (size (PR f)) => [|[|n]].
  by rewrite -mu_gt0 // m0.
rewrite /count_open.
have -> := count_roots_oc_fin_simple f0 nd (qpos_gt0 Hl) (qpos_gt0 Hh) lh.
set s := [seq x <- _ | _].
have ins x : x \in s = [&& qr l < x, x <= qr h & root (PR f) x].
  by rewrite mem_filter in_rootsR // !qr_QR andbA.
have us : uniq s by rewrite filter_uniq // uniq_roots.
rewrite (psgn_q_neq0 R f Hh).
case: ifP => [/eqP fh|/negbT fh].
  (* f(h) = 0: at least two roots in (l, h], one of them is below h *)
  case E: s us ins => [|x [|y t]] //= /andP[xy _] ins _.
  have /and3P[lx xh fx] : [&& qr l < x, x <= qr h & root (PR f) x] by rewrite -ins !inE eqxx.
  have /and3P[ly yh fy] : [&& qr l < y, y <= qr h & root (PR f) y] by rewrite -ins !inE eqxx orbT.
  move: xy; rewrite inE negb_or => /andP[xy _].
  have [xlt|xge] := ltP x (qr h); first by exists x => //; rewrite lx.
  have xeq : x = qr h by apply/eqP; rewrite eq_le xh xge.
  exists y => //; rewrite ly lt_neqAle yh andbT.
  by apply: contra xy => /eqP yeq; rewrite xeq yeq.
case E: s ins => [|x t] //= ins _.
have /and3P[lx xh fx] : [&& qr l < x, x <= qr h & root (PR f) x] by rewrite -ins !inE eqxx.
exists x => //; rewrite lx lt_neqAle xh andbT.
by apply: contraNneq fh => xeq; rewrite -(qr_QR R h) -xeq -rootE.
Qed.

(* ---- the equality test is sound *)
Theorem rn_eqb_sound (x y : rnum) (a b : R) :
  rn_denotes x a -> rn_denotes y b -> rn_eqb x y = true -> a = b.
Proof.
case: x => [qa|p lo hi] Hx; case: y => [qb|p' lo' hi'] Hy; try exact: (rn_eqb_sound_rational Hx Hy).
rewrite /rn_eqb.
have [[Hlo Hhi] /andP[loa ahi] ra uniqa _] := Hx.
have [[Hlo' Hhi'] /andP[lob bhi] rb uniqb _] := Hy.
have [Hl l1 l2] := q_max_spec Hlo Hlo'; have [Hh h1 h2] := q_min_spec Hhi Hhi'.
set l := q_max lo lo' in Hl l1 l2 *; set h := q_min hi hi' in Hh h1 h2 *.
rewrite (q_lt_spec R Hl Hh); case: ifP => // lh.
set g := pgcd p p'; case: ifP => // /Nat.ltb_ge dg cnt.
have G0 : Poly g != 0.
  by apply/eqP => E0; move: dg; rewrite pdeg_size E0 size_poly0 /=; lia.
have [F0 rf simple] := psqfree_spec R G0.
have f0 : ~~ pis_zero (psqfree g) by rewrite -(PR_eq0 R).
have /Nat.ltb_lt/ssrnat.ltP cnt' := cnt.
have [w /andP[lw wh] fw] := count_open_gt0_root f0 simple Hl Hh lh cnt'.
have gw : root (PR g) w := rf w fw.
have [dp dp'] := pgcd_dvd p p'.
have pw : root (PR p) w by rewrite -dvdp_XsubCl (dvdp_trans _ (rdvd_PR R dp)) // dvdp_XsubCl.
have pw' : root (PR p') w by rewrite -dvdp_XsubCl (dvdp_trans _ (rdvd_PR R dp')) // dvdp_XsubCl.
have Ea : w = a.
  by apply: uniqa => //; rewrite (le_lt_trans l1 lw) (lt_le_trans wh h1).
have Eb : w = b.
  by apply: uniqb => //; rewrite (le_lt_trans l2 lw) (lt_le_trans wh h2).
by rewrite -Ea -Eb.
Qed.

(* ---- the comparison of two reference numbers: the sign of a - b *)
Theorem rn_cmp_spec (fuel : nat) (x y : rnum) (a b : R) (s : Z) :
  rn_denotes x a -> rn_denotes y b -> rn_cmp fuel x y = Some s -> zr s = sgr (a - b).
Proof. by move=> Hx Hy; apply: rn_cmp_spec_cond => //; exact: rn_eqb_sound. Qed.

(* extended values: -inf < every number < +inf *)
Definition xv_denotes (v : xval) (a : R) : Prop := match v with XFin x => rn_denotes x a | _ => Logic.True end.
Theorem xv_cmp_spec (fuel : nat) (u v : xval) (a b : R) (s : Z) :
  xv_denotes u a -> xv_denotes v b -> xv_cmp fuel u v = Some s ->
  match u, v with
  | XFin _, XFin _ => zr s = sgr (a - b)
  | XMinf, XMinf | XPinf, XPinf => s = Z0
  | XMinf, _ | _, XPinf => s = Zneg xH
  | _, _ => s = Zpos xH
  end.
Proof.
case: u => [|x|]; case: v => [|y|] //=; try by move=> _ _ [<-].
exact: rn_cmp_spec.
Qed.

End Cmp.
