(* Extended values (-inf, finite reference numbers, +inf): the reference comparison xv_cmp, over every real closed field.
   (The comparison of two finite numbers is RefAlgFinal.rn_cmp_spec.) *)
From Coq Require Import ZArith.
From LP Require Import Scalar UPoly RefAlg.
Set Warnings "-notation-overridden,-ambiguous-paths".
From mathcomp Require Import all_ssreflect all_algebra all_real_closed.
From mathcomp Require Import ssrZ.
Set Warnings "notation-overridden,ambiguous-paths".
From LP Require Import UPolySpec RefAlgSpec RefAlgFinal.
Import GRing.Theory Num.Theory Num.Def.
Set Implicit Arguments.
Unset Strict Implicit.
Unset Printing Implicit Defensive.
Local Open Scope ring_scope.

Section XCmp.
Variable R : rcfType.

Definition xv_denotes (v : xval) (a : R) : Prop := match v with XFin x => rn_denotes x a | _ => Logic.True end.

Theorem xv_cmp_spec (fuel : nat) (u v : xval) (a b : R) (s : Z) :
  xv_denotes u a -> xv_denotes v b -> xv_cmp fuel u v = Some s ->
  match u, v with
  | XFin _, XFin _ => zr s = sgr (a - b)
  | XMinf, XMinf | XPinf, XPinf => s = Z0
  | XMinf, _ | _, XPinf => s = Zneg xH
  | _, _ => s = Zpos xH
  end.
Proof.
case: u => [|x|]; case: v => [|y|] //=; try by move=> _ _ [<-].
exact: rn_cmp_spec.
Qed.

End XCmp.
