(* Proofs about the binary max-heap model of Containers.v (property C20, heap part):
   heap order is preserved by every operation and every operation refines a multiset specification. *)
From Coq Require Import ZArith NArith List Bool Arith Lia ZifyNat Permutation.
From LP Require Import Containers.
Import ListNotations.

#[local] Ltac Zify.zify_post_hook ::= Z.div_mod_to_equations.

(* ------------------------------------------------------------------------------------------- *)
(** * Generic list lemmas *)

Lemma upd_length {A} (l : list A) i v : length (upd l i v) = length l.
Proof. revert i; induction l; intros [|i]; simpl; auto. Qed.

Lemma nth_error_upd_eq {A} (l : list A) i v : i < length l -> nth_error (upd l i v) i = Some v.
Proof.
  revert i; induction l; intros [|i] H; simpl in *; try lia; auto.
  apply IHl; lia.
Qed.

Lemma nth_error_upd_neq {A} (l : list A) i j v : i <> j -> nth_error (upd l i v) j = nth_error l j.
Proof.
  revert i j; induction l; intros [|i] [|j] H; simpl in *; try congruence; auto.
Qed.

Lemma upd_same {A} (l : list A) i v : nth_error l i = Some v -> upd l i v = l.
Proof.
  revert i; induction l; intros [|i] H; simpl in *; try congruence.
  f_equal; auto.
Qed.

Lemma upd_app1 {A} (l l' : list A) i v : i < length l -> upd (l ++ l') i v = upd l i v ++ l'.
Proof.
  revert i; induction l; intros [|i] H; simpl in *; try lia; auto.
  f_equal; apply IHl; lia.
Qed.

Lemma upd_perm1 {A} (r : list A) j x y :
  nth_error r j = Some y -> Permutation (y :: upd r j x) (x :: r).
Proof.
  revert j; induction r as [|z r IH]; intros [|j] H; simpl in *; try congruence.
  - inversion H; subst. apply perm_swap.
  - eapply perm_trans; [apply perm_swap|].
    eapply perm_trans; [apply perm_skip, IH, H|]. apply perm_swap.
Qed.

Lemma upd_swap_perm {A} (a : list A) i j x y :
  nth_error a i = Some x -> nth_error a j = Some y -> Permutation (upd (upd a i y) j x) a.
Proof.
  revert i j; induction a as [|z a IH]; intros [|i] [|j] Hi Hj; simpl in *; try congruence.
  - inversion Hi; subst; auto.
  - inversion Hi; subst. apply upd_perm1; auto.
  - inversion Hj; subst. apply upd_perm1; auto.
  - apply perm_skip. apply IH; auto.
Qed.

Lemma nth_error_ext' {A} (l l' : list A) :
  (forall k, nth_error l k = nth_error l' k) -> l = l'.
Proof.
  revert l'; induction l as [|x l IH]; intros [|y l'] H; auto.
  - specialize (H 0); discriminate.
  - specialize (H 0); discriminate.
  - f_equal. + specialize (H 0); simpl in H; congruence.
    + apply IH. intros k. apply (H (S k)).
Qed.

Lemma nth_error_skipn' {A} n (l : list A) k : nth_error (skipn n l) k = nth_error l (n + k).
Proof.
  revert l; induction n; intros [|x l]; simpl; auto. destruct k; auto.
Qed.

Lemma firstn_ext {A} n (l l' : list A) :
  (forall k, k < n -> nth_error l k = nth_error l' k) -> firstn n l = firstn n l'.
Proof.
  revert l l'; induction n; intros [|x l] [|y l'] H; simpl; auto.
  - specialize (H 0 ltac:(lia)); discriminate.
  - specialize (H 0 ltac:(lia)); discriminate.
  - f_equal. + specialize (H 0 ltac:(lia)); simpl in H; congruence.
    + apply IHn. intros k Hk. apply (H (S k)). lia.
Qed.

Lemma firstn_S_snoc {A} (l : list A) i x :
  nth_error l i = Some x -> firstn (S i) l = firstn i l ++ [x].
Proof.
  revert i; induction l; intros [|i] H; simpl in *; try congruence.
  f_equal; auto.
Qed.

Lemma Forall_firstn' {A} (P : A -> Prop) n (l : list A) : Forall P l -> Forall P (firstn n l).
Proof.
  revert l; induction n; intros l H; simpl; auto. destruct H; auto.
Qed.

Lemma perm_prefix {A} pos (a' a : list A) :
  Permutation a' a -> (forall k, pos <= k -> nth_error a' k = nth_error a k) ->
  Permutation (firstn pos a') (firstn pos a).
Proof.
  intros HP HK.
  assert (E : skipn pos a' = skipn pos a).
  { apply nth_error_ext'. intros k. rewrite !nth_error_skipn'. apply HK. lia. }
  rewrite <- (firstn_skipn pos a'), <- (firstn_skipn pos a), E in HP.
  eapply Permutation_app_inv_r; eauto.
Qed.

Lemma filter_perm {A} (f : A -> bool) (l l' : list A) :
  Permutation l l' -> Permutation (filter f l) (filter f l').
Proof.
  induction 1; simpl; auto.
  - destruct (f x); auto.
  - destruct (f x), (f y); auto. apply perm_swap.
  - eapply perm_trans; eauto.
Qed.

Lemma filter_all {A} (f : A -> bool) (l : list A) : Forall (fun x => f x = true) l -> filter f l = l.
Proof. induction 1; simpl; auto. rewrite H. f_equal; auto. Qed.

Lemma filter_none {A} (f : A -> bool) (l : list A) : Forall (fun x => f x = false) l -> filter f l = [].
Proof. induction 1; simpl; auto. rewrite H. auto. Qed.

(* ------------------------------------------------------------------------------------------- *)
Section HeapProofs.
Variable elem : Type.
Variable cmp : elem -> elem -> Z.
(* `eqb` (with `eqb_spec`) and `zero` are declared further down, where they are first needed, so that
   the theorems about push / pop / peek do not pick them up as spurious premises. *)

Definition hge (a b : elem) : Prop := (0 <= cmp a b)%Z.     (* "a is not below b" *)

Hypothesis cmp_total : forall a b, hge a b \/ hge b a.
Hypothesis cmp_trans : forall a b c, hge a b -> hge b c -> hge a c.

Local Notation hget := (Containers.hget elem).
Local Notation hcmp := (Containers.hcmp elem cmp).
Local Notation hswap := (Containers.hswap elem).
Local Notation sift_up := (Containers.sift_up elem cmp).
Local Notation sift_down := (Containers.sift_down elem cmp).
Local Notation heap_push := (Containers.heap_push elem cmp).
Local Notation heap_push_list := (Containers.heap_push_list elem cmp).
Local Notation take_last := (Containers.take_last elem).
Local Notation heap_pop := (Containers.heap_pop elem cmp).
Local Notation heap_peek := (Containers.heap_peek elem).
Local Notation heap_size := (Containers.heap_size elem).

Definition heap_ok (a : list elem) : Prop :=
  forall i x y, 2 <= i <= length a -> hget a (i / 2) = Some x -> hget a i = Some y -> hge x y.

Definition is_max (m : elem) (a : list elem) : Prop := forall x, In x a -> hge m x.

Lemma hge_refl x : hge x x.
Proof. destruct (cmp_total x x); auto. Qed.

Lemma not_hge x y : (cmp x y < 0)%Z -> hge y x.
Proof. intros H. destruct (cmp_total x y) as [G|G]; auto. unfold hge in G. lia. Qed.

(** ** hget / hswap *)

Lemma hget_some a k : 1 <= k <= length a -> exists x, hget a k = Some x.
Proof.
  intros H. unfold Containers.hget. destruct (nth_error a (k - 1)) eqn:E; eauto.
  apply nth_error_None in E. lia.
Qed.

Lemma hget_S a k : hget a (S k) = nth_error a k.
Proof. unfold Containers.hget. simpl. rewrite Nat.sub_0_r. reflexivity. Qed.

Lemma hget_range a k x : hget a k = Some x -> k <= length a.
Proof.
  unfold Containers.hget. intros H.
  assert (k - 1 < length a) by (apply nth_error_Some; congruence). lia.
Qed.

Lemma hswap_length a i j : length (hswap a i j) = length a.
Proof.
  unfold Containers.hswap. destruct (hget a i), (hget a j); auto. rewrite !upd_length. auto.
Qed.

Lemma hswap_perm a i j : Permutation (hswap a i j) a.
Proof.
  unfold Containers.hswap. destruct (hget a i) eqn:Ei; auto. destruct (hget a j) eqn:Ej; auto.
  apply upd_swap_perm; auto.
Qed.

Lemma hget_hswap a i j k x y :
  hget a i = Some x -> hget a j = Some y -> 1 <= i -> 1 <= j -> 1 <= k ->
  hget (hswap a i j) k = if k =? j then Some x else if k =? i then Some y else hget a k.
Proof.
  intros Hi Hj Li Lj Lk. unfold Containers.hswap. rewrite Hi, Hj.
  pose proof (hget_range _ _ _ Hi). pose proof (hget_range _ _ _ Hj).
  unfold Containers.hget.
  destruct (Nat.eqb_spec k j) as [->|N1].
  - apply nth_error_upd_eq. rewrite upd_length. lia.
  - rewrite nth_error_upd_neq by lia.
    destruct (Nat.eqb_spec k i) as [->|N2].
    + apply nth_error_upd_eq. lia.
    + apply nth_error_upd_neq. lia.
Qed.

(** ** sift_up *)

Lemma sift_up_S f a pos :
  sift_up (S f) a pos =
  if pos <=? 1 then Some a else
  match hcmp a (pos / 2) pos with
  | None => None
  | Some c => if (c <? 0)%Z then sift_up f (hswap a (pos / 2) pos) (pos / 2) else Some a
  end.
Proof. reflexivity. Qed.

Definition inv_up (a : list elem) (pos : nat) : Prop :=
  (forall i x y, 2 <= i <= length a -> i <> pos ->
                 hget a (i / 2) = Some x -> hget a i = Some y -> hge x y) /\
  (forall i x y, 2 <= pos -> 2 <= i <= length a -> i / 2 = pos ->
                 hget a (pos / 2) = Some x -> hget a i = Some y -> hge x y).

Ltac eqb_cases :=
  repeat match goal with
         | H : context[?a =? ?b] |- _ => destruct (Nat.eqb_spec a b)
         | |- context[?a =? ?b] => destruct (Nat.eqb_spec a b)
         end.

Lemma sift_up_ok : forall fuel a pos,
  pos <= fuel -> 1 <= pos <= length a -> inv_up a pos ->
  exists a', sift_up fuel a pos = Some a' /\ heap_ok a' /\ Permutation a' a /\
             (forall k, pos < k -> hget a' k = hget a k).
Proof.
  induction fuel as [|f IH]; intros a pos Hf Hp [HA HB]; [lia|].
  rewrite sift_up_S. destruct (Nat.leb_spec pos 1) as [L|L].
  - exists a. split; [reflexivity|]. split; [|split; auto].
    intros i x y Hi. apply HA; lia.
  - destruct (hget_some a (pos / 2)) as [x Hx]; [lia|].
    destruct (hget_some a pos) as [y Hy]; [lia|].
    unfold Containers.hcmp. rewrite Hx, Hy.
    destruct (Z.ltb_spec (cmp x y) 0) as [C|C].
    + pose proof (not_hge _ _ C) as Hyx.
      assert (Hsw : forall k, 1 <= k -> hget (hswap a (pos / 2) pos) k =
                 if k =? pos then Some x else if k =? pos / 2 then Some y else hget a k).
      { intros k Hk. apply hget_hswap; auto; lia. }
      destruct (IH (hswap a (pos / 2) pos) (pos / 2)) as [a' [E [Hok [Hperm Hk]]]].
      * lia.
      * rewrite hswap_length. lia.
      * split.
        -- intros i x' y'. rewrite hswap_length. intros Hi Hne.
           rewrite !Hsw by lia. intros Hx' Hy'. eqb_cases; try lia.
           ++ inversion Hx'; inversion Hy'; subst; auto.
           ++ inversion Hx'; subst. eapply HB; eauto; lia.
           ++ inversion Hx'; subst. apply cmp_trans with x; auto.
              apply (HA i); auto. congruence.
           ++ apply (HA i); auto.
        -- intros i x' y'. rewrite hswap_length. intros Hq Hi Hiq.
           rewrite !Hsw by lia. intros Hx' Hy'. eqb_cases; try lia.
           ++ inversion Hy'; subst. apply (HA (pos / 2)); auto; lia.
           ++ destruct (hget_some a (pos / 2 / 2)) as [z Hz]; [lia|].
              apply cmp_trans with x.
              ** apply (HA (pos / 2)); auto; lia.
              ** apply (HA i); auto. congruence.
      * exists a'. split; [exact E|]. split; [exact Hok|]. split.
        -- eapply perm_trans; [exact Hperm|apply hswap_perm].
        -- intros k Hk'. rewrite Hk by lia. rewrite Hsw by lia.
           eqb_cases; try lia. auto.
    + exists a. split; [reflexivity|]. split; [|split; auto].
      intros i x' y' Hi Hx' Hy'. destruct (Nat.eq_dec i pos) as [->|N].
      * rewrite Hx in Hx'. rewrite Hy in Hy'. inversion Hx'; inversion Hy'; subst. exact C.
      * apply (HA i); auto.
Qed.

Lemma sift_up_id f a pos : heap_ok a -> pos <= length a -> sift_up (S f) a pos = Some a.
Proof.
  intros Hok Hp. rewrite sift_up_S. destruct (Nat.leb_spec pos 1) as [L|L]; auto.
  destruct (hget_some a (pos / 2)) as [x Hx]; [lia|].
  destruct (hget_some a pos) as [y Hy]; [lia|].
  unfold Containers.hcmp. rewrite Hx, Hy.
  assert (G : hge x y) by (apply (Hok pos); auto; lia).
  destruct (Z.ltb_spec (cmp x y) 0) as [C|C]; auto. unfold hge in G. lia.
Qed.

(** ** sift_down *)

(* the child position chosen by heapify_down: the larger child (the left one on a tie / when alone) *)
Definition pick (a : list elem) (pos : nat) : option nat :=
  match (if 2 * pos + 1 <=? length a then hcmp a (2 * pos) (2 * pos + 1) else Some 0%Z) with
  | None => None
  | Some clr => Some (if (2 * pos + 1 <=? length a) && (clr <? 0)%Z then 2 * pos + 1 else 2 * pos)
  end.

Lemma sift_down_S f a pos :
  sift_down (S f) a pos =
  if length a <? 2 * pos then Some a else
  match pick a pos with
  | None => None
  | Some o =>
    match hcmp a pos o with
    | None => None
    | Some c => if (0 <=? c)%Z then Some a else sift_down f (hswap a pos o) o
    end
  end.
Proof.
  unfold pick. cbn [Containers.sift_down].
  destruct (length a <? 2 * pos); auto.
  destruct (if 2 * pos + 1 <=? length a then hcmp a (2 * pos) (2 * pos + 1) else Some 0%Z); auto.
Qed.

Lemma pick_child a pos :
  1 <= pos -> 2 * pos <= length a ->
  exists o xo, pick a pos = Some o /\ o / 2 = pos /\ 2 <= o <= length a /\ hget a o = Some xo /\
    forall c xc, c / 2 = pos -> 2 <= c <= length a -> hget a c = Some xc -> hge xo xc.
Proof.
  intros Hp Hl. unfold pick.
  destruct (hget_some a (2 * pos)) as [xl Hxl]; [lia|].
  destruct (Nat.leb_spec (2 * pos + 1) (length a)) as [Hr|Hr].
  - destruct (hget_some a (2 * pos + 1)) as [xr Hxr]; [lia|].
    unfold Containers.hcmp. rewrite Hxl, Hxr. cbn [andb].
    destruct (Z.ltb_spec (cmp xl xr) 0) as [C|C].
    + exists (2 * pos + 1), xr. split; [reflexivity|]. split; [lia|]. split; [lia|]. split; [auto|].
      intros c xc Hc1 Hc2 Hc.
      assert (c = 2 * pos \/ c = 2 * pos + 1) as [->| ->] by lia.
      * rewrite Hxl in Hc. inversion Hc; subst. apply not_hge; auto.
      * rewrite Hxr in Hc. inversion Hc; subst. apply hge_refl.
    + exists (2 * pos), xl. split; [reflexivity|]. split; [lia|]. split; [lia|]. split; [auto|].
      intros c xc Hc1 Hc2 Hc.
      assert (c = 2 * pos \/ c = 2 * pos + 1) as [->| ->] by lia.
      * rewrite Hxl in Hc. inversion Hc; subst. apply hge_refl.
      * rewrite Hxr in Hc. inversion Hc; subst. exact C.
  - cbn [andb]. exists (2 * pos), xl. split; [reflexivity|]. split; [lia|]. split; [lia|]. split; [auto|].
    intros c xc Hc1 Hc2 Hc.
    assert (c = 2 * pos) as -> by lia.
    rewrite Hxl in Hc. inversion Hc; subst. apply hge_refl.
Qed.

Definition inv_down (a : list elem) (pos : nat) : Prop :=
  (forall i x y, 2 <= i <= length a -> i / 2 <> pos ->
                 hget a (i / 2) = Some x -> hget a i = Some y -> hge x y) /\
  (forall i x y, 2 <= pos -> 2 <= i <= length a -> i / 2 = pos ->
                 hget a (pos / 2) = Some x -> hget a i = Some y -> hge x y).

Lemma sift_down_ok : forall fuel a pos,
  length a - pos < fuel -> 1 <= pos -> inv_down a pos ->
  exists a', sift_down fuel a pos = Some a' /\ heap_ok a' /\ Permutation a' a /\
             (forall k, 1 <= k < pos -> hget a' k = hget a k).
Proof.
  induction fuel as [|f IH]; intros a pos Hf Hp [HA HB]; [lia|].
  rewrite sift_down_S. destruct (Nat.ltb_spec (length a) (2 * pos)) as [L|L].
  - exists a. split; [reflexivity|]. split; [|split; auto].
    intros i x y Hi. apply HA; lia.
  - destruct (pick_child a pos Hp L) as [o [xo [Epick [Ho2 [Ho [Hxo Hmax]]]]]].
    rewrite Epick.
    destruct (hget_some a pos) as [xp Hxp]; [lia|].
    unfold Containers.hcmp. rewrite Hxp, Hxo.
    destruct (Z.leb_spec 0 (cmp xp xo)) as [C|C].
    + exists a. split; [reflexivity|]. split; [|split; auto].
      intros i x' y' Hi Hx' Hy'. destruct (Nat.eq_dec (i / 2) pos) as [E|N].
      * rewrite E, Hxp in Hx'. inversion Hx'; subst.
        apply cmp_trans with xo; [exact C|]. apply (Hmax i); auto.
      * apply (HA i); auto.
    + pose proof (not_hge _ _ C) as Hge.
      assert (Hsw : forall k, 1 <= k -> hget (hswap a pos o) k =
                 if k =? o then Some xp else if k =? pos then Some xo else hget a k).
      { intros k Hk. apply hget_hswap; auto; lia. }
      destruct (IH (hswap a pos o) o) as [a' [E [Hok [Hperm Hk]]]].
      * rewrite hswap_length. lia.
      * lia.
      * split.
        -- intros i x' y'. rewrite hswap_length. intros Hi Hne.
           rewrite !Hsw by lia. intros Hx' Hy'. eqb_cases; try lia.
           ++ inversion Hx'; inversion Hy'; subst; auto.
           ++ subst i. injection Hy' as <-. apply (HB o); auto; lia.
           ++ inversion Hx'; subst. apply (Hmax i); auto.
           ++ apply (HA i); auto.
        -- intros i x' y'. rewrite hswap_length. intros Hq Hi Hiq.
           rewrite !Hsw by lia. intros Hx' Hy'. eqb_cases; try lia.
           inversion Hx'; subst. apply (HA i); auto; try lia; congruence.
      * exists a'. split; [exact E|]. split; [exact Hok|]. split.
        -- eapply perm_trans; [exact Hperm|apply hswap_perm].
        -- intros k Hk'. rewrite Hk by lia. rewrite Hsw by lia.
           eqb_cases; try lia. auto.
Qed.

(* nothing moves when the element at pos is not below its children *)
Lemma sift_down_id f a pos :
  1 <= pos <= length a ->
  (forall c xp xc, c / 2 = pos -> 2 <= c <= length a ->
                   hget a pos = Some xp -> hget a c = Some xc -> hge xp xc) ->
  sift_down (S f) a pos = Some a.
Proof.
  intros Hp H. rewrite sift_down_S. destruct (Nat.ltb_spec (length a) (2 * pos)) as [L|L]; auto.
  destruct (pick_child a pos) as [o [xo [Epick [Ho2 [Ho [Hxo Hmax]]]]]]; try lia.
  rewrite Epick.
  destruct (hget_some a pos) as [xp Hxp]; [lia|].
  unfold Containers.hcmp. rewrite Hxp, Hxo.
  assert (G : hge xp xo) by (apply (H o); auto).
  destruct (Z.leb_spec 0 (cmp xp xo)) as [C|C]; auto. unfold hge in G. lia.
Qed.

(** ** heap order: basic facts *)

Theorem heap_ok_nil : heap_ok [].
Proof. intros i x y Hi. simpl in Hi. lia. Qed.

Lemma hget_app1 (a b : list elem) k : 1 <= k <= length a -> hget (a ++ b) k = hget a k.
Proof. intros H. unfold Containers.hget. apply nth_error_app1. lia. Qed.

Lemma heap_ok_prefix a b : heap_ok (a ++ b) -> heap_ok a.
Proof.
  intros H i x y Hi Hx Hy. apply (H i); try rewrite hget_app1; auto; try lia.
  rewrite app_length. lia.
Qed.

Lemma root_max a m : heap_ok a -> hget a 1 = Some m ->
  forall k x, 1 <= k -> hget a k = Some x -> hge m x.
Proof.
  intros Hok Hm k. induction k as [k IH] using (well_founded_induction lt_wf).
  intros x Hk Hx. destruct (Nat.eq_dec k 1) as [->|N].
  - rewrite Hm in Hx. inversion Hx; subst. apply hge_refl.
  - pose proof (hget_range _ _ _ Hx) as Hr.
    destruct (hget_some a (k / 2)) as [z Hz]; [lia|].
    apply cmp_trans with z.
    + apply (IH (k / 2)); auto; lia.
    + apply (Hok k); auto; lia.
Qed.

Theorem heap_peek_max a m : heap_ok a -> heap_peek a = Some m -> is_max m a.
Proof.
  intros Hok Hm x Hin. apply In_nth_error in Hin. destruct Hin as [n Hn].
  apply (root_max a m Hok Hm (S n)); [lia|].
  unfold Containers.hget. replace (S n - 1) with n by lia. exact Hn.
Qed.

Theorem heap_peek_nil : heap_peek [] = None.
Proof. reflexivity. Qed.

(** ** push *)

Theorem heap_push_ok a p : heap_ok a ->
  exists a', heap_push a p = Some a' /\ heap_ok a' /\ Permutation a' (p :: a).
Proof.
  intros Hok. unfold Containers.heap_push.
  destruct (sift_up_ok (length (a ++ [p])) (a ++ [p]) (length (a ++ [p]))) as [a' [E [Hok' [Hperm _]]]].
  - lia.
  - rewrite app_length; simpl; lia.
  - rewrite app_length; simpl. split.
    + intros i x y Hi Hne. rewrite app_length in Hi; simpl in Hi.
      rewrite !hget_app1 by lia. apply Hok. lia.
    + intros i x y H2 Hi Hi2. rewrite app_length in Hi; simpl in Hi. lia.
  - exists a'. split; [exact E|]. split; [exact Hok'|].
    eapply perm_trans; [exact Hperm|]. apply Permutation_sym, Permutation_cons_append.
Qed.

Theorem heap_push_list_ok l : forall a, heap_ok a ->
  exists a', heap_push_list a l = Some a' /\ heap_ok a' /\ Permutation a' (l ++ a).
Proof.
  induction l as [|p l IH]; intros a Hok.
  - exists a. simpl. auto.
  - destruct (heap_push_ok a p Hok) as [a1 [E1 [Hok1 Hp1]]].
    destruct (IH a1 Hok1) as [a2 [E2 [Hok2 Hp2]]].
    exists a2. cbn [Containers.heap_push_list]. rewrite E1. split; [exact E2|]. split; [exact Hok2|].
    eapply perm_trans; [exact Hp2|].
    eapply perm_trans; [apply Permutation_app_head; exact Hp1|].
    simpl. apply Permutation_sym, Permutation_middle.
Qed.

(** ** take_last, replacement of one position *)

Lemma take_last_snoc l lst i : i <= length l ->
  take_last (l ++ [lst]) i = Some (if i <? length l then upd l i lst else l).
Proof.
  intros Hi. unfold Containers.take_last.
  rewrite app_length; simpl. replace (length l + 1 - 1) with (length l) by lia.
  rewrite nth_error_app2 by lia. rewrite Nat.sub_diag. simpl. f_equal.
  destruct (Nat.ltb_spec i (length l)) as [L|L].
  - rewrite upd_app1 by lia. rewrite firstn_app. rewrite upd_length, Nat.sub_diag. simpl.
    rewrite app_nil_r. rewrite <- (upd_length l i lst) at 1. apply firstn_all.
  - assert (i = length l) as -> by lia.
    rewrite upd_same. + rewrite firstn_app, Nat.sub_diag, firstn_all. simpl. apply app_nil_r.
    + rewrite nth_error_app2 by lia. rewrite Nat.sub_diag. reflexivity.
Qed.

Lemma hget_upd_neq l i v k : 1 <= k -> k <> i + 1 -> hget (upd l i v) k = hget l k.
Proof. intros. unfold Containers.hget. apply nth_error_upd_neq. lia. Qed.

Lemma hget_upd_eq l i v : i < length l -> hget (upd l i v) (i + 1) = Some v.
Proof.
  intros. unfold Containers.hget. replace (i + 1 - 1) with i by lia. apply nth_error_upd_eq; auto.
Qed.

(* every pair not involving pos is ordered; the parent of pos is above the children of pos *)
Definition inv_repl (a : list elem) (pos : nat) : Prop :=
  (forall i x y, 2 <= i <= length a -> i <> pos -> i / 2 <> pos ->
                 hget a (i / 2) = Some x -> hget a i = Some y -> hge x y) /\
  (forall i x y, 2 <= pos -> 2 <= i <= length a -> i / 2 = pos ->
                 hget a (pos / 2) = Some x -> hget a i = Some y -> hge x y).

Lemma upd_inv_repl l i v : heap_ok l -> i < length l -> inv_repl (upd l i v) (i + 1).
Proof.
  intros Hok Hi. split.
  - intros k x y. rewrite upd_length. intros Hk N1 N2.
    rewrite !hget_upd_neq by lia. apply Hok; auto.
  - intros k x y Hp. rewrite upd_length. intros Hk E.
    rewrite !hget_upd_neq by lia. intros Hx Hy.
    destruct (hget_some l (i + 1)) as [z Hz]; [lia|].
    apply cmp_trans with z.
    + apply (Hok (i + 1)); auto; lia.
    + apply (Hok k); auto. congruence.
Qed.

Lemma repl_down a pos : inv_repl a pos -> 1 <= pos <= length a ->
  (pos = 1 \/ exists x y, hget a (pos / 2) = Some x /\ hget a pos = Some y /\ hge x y) ->
  inv_down a pos.
Proof.
  intros [HA HB] Hp Hc. split; auto.
  intros i x y Hi N Hx Hy. destruct (Nat.eq_dec i pos) as [->|N'].
  - destruct Hc as [->|[x' [y' [Hx' [Hy' G]]]]]; [lia|]. congruence.
  - apply (HA i); auto.
Qed.

Lemma repl_up a pos x y : inv_repl a pos -> 2 <= pos <= length a ->
  hget a (pos / 2) = Some x -> hget a pos = Some y -> hge y x ->
  inv_up a pos /\
  (forall c xp xc, c / 2 = pos -> 2 <= c <= length a ->
                   hget a pos = Some xp -> hget a c = Some xc -> hge xp xc).
Proof.
  intros [HA HB] Hp Hx Hy G.
  assert (HC : forall c xp xc, c / 2 = pos -> 2 <= c <= length a ->
                   hget a pos = Some xp -> hget a c = Some xc -> hge xp xc).
  { intros c xp xc Hc1 Hc2 Hxp Hxc. rewrite Hy in Hxp. inversion Hxp; subst xp.
    apply cmp_trans with x; auto. apply (HB c); auto; lia. }
  split; auto. split; auto.
  intros i x' y' Hi N Hx' Hy'. destruct (Nat.eq_dec (i / 2) pos) as [E|N'].
  - apply (HC i); auto. congruence.
  - apply (HA i); auto.
Qed.

Lemma replace_ok a pos f1 f2 :
  inv_repl a pos -> 1 <= pos <= length a -> length a - pos < f1 -> pos <= f2 ->
  exists a3,
    match sift_down f1 a pos with None => None | Some a2 => sift_up f2 a2 pos end = Some a3 /\
    heap_ok a3 /\ Permutation a3 a /\
    (forall P : elem -> Prop,
        Forall P (firstn (pos - 1) a) ->
        (forall x y, 2 <= pos -> hget a (pos / 2) = Some x -> hget a pos = Some y -> ~ hge x y -> P y) ->
        Forall P (firstn (pos - 1) a3)).
Proof.
  intros Hinv Hp Hf1 Hf2.
  destruct (hget_some a pos) as [y Hy]; [lia|].
  assert (Hcase : (pos = 1 \/ exists x y, hget a (pos / 2) = Some x /\ hget a pos = Some y /\ hge x y) \/
                  (2 <= pos /\ exists x, hget a (pos / 2) = Some x /\ (cmp x y < 0)%Z)).
  { destruct (Nat.eq_dec pos 1) as [->|N]; auto.
    destruct (hget_some a (pos / 2)) as [x Hx]; [lia|].
    destruct (Z.leb_spec 0 (cmp x y)) as [C|C].
    - left. right. exists x, y. auto.
    - right. split; [lia|]. exists x. auto. }
  destruct Hcase as [Hc|[Hp2 [x [Hx C]]]].
  - destruct (sift_down_ok f1 a pos) as [a2 [E [Hok [Hperm Hk]]]]; auto; try lia.
    { apply repl_down; auto. }
    rewrite E. exists a2. destruct f2 as [|f2]; [lia|]. rewrite sift_up_id; auto.
    2:{ rewrite (Permutation_length Hperm). lia. }
    split; [reflexivity|]. split; [exact Hok|]. split; [exact Hperm|].
    intros P HP _. erewrite firstn_ext; [exact HP|].
    intros k Hk'. rewrite <- !hget_S. apply (Hk (S k)). lia.
  - pose proof (not_hge _ _ C) as G.
    destruct (repl_up a pos x y Hinv) as [Hup Hch]; auto; try lia.
    destruct f1 as [|f1]; [lia|]. rewrite sift_down_id; auto.
    destruct (sift_up_ok f2 a pos) as [a3 [E [Hok [Hperm Hk]]]]; auto.
    exists a3. split; [exact E|]. split; [exact Hok|]. split; [exact Hperm|].
    intros P HP HPy.
    assert (HPp : Permutation (firstn pos a3) (firstn pos a)).
    { apply perm_prefix; auto. intros k Hk'. rewrite <- !hget_S. apply (Hk (S k)). lia. }
    assert (HF : Forall P (firstn pos a)).
    { replace pos with (S (pos - 1)) at 1 by lia.
      rewrite (firstn_S_snoc a (pos - 1) y Hy). apply Forall_app. split; auto.
      constructor; auto. apply (HPy x y); auto. unfold hge. lia. }
    rewrite <- HPp in HF.
    replace (firstn (pos - 1) a3) with (firstn (pos - 1) (firstn pos a3)).
    + apply Forall_firstn'; auto.
    + rewrite firstn_firstn. f_equal. lia.
Qed.

(** ** pop *)

Theorem heap_pop_nil : heap_pop [] = Some (None, []).
Proof. reflexivity. Qed.

Theorem heap_pop_ok a : heap_ok a -> a <> [] ->
  exists m a', heap_pop a = Some (Some m, a') /\ heap_ok a' /\ Permutation (m :: a') a /\ is_max m a.
Proof.
  intros Hok Hne. destruct (exists_last Hne) as [l [lst E]]. subst a.
  destruct l as [|top l].
  - exists lst, []. split; [reflexivity|]. split; [apply heap_ok_nil|]. split; auto.
    apply heap_peek_max; auto.
  - assert (Hmax : is_max top ((top :: l) ++ [lst])) by (apply heap_peek_max; auto).
    pose proof (heap_ok_prefix _ _ Hok) as Hokl.
    change (heap_pop ((top :: l) ++ [lst])) with
      (match take_last ((top :: l) ++ [lst]) 0 with
       | None => None
       | Some a1 => match sift_down (length ((top :: l) ++ [lst])) a1 1 with
                    | None => None
                    | Some a2 => Some (Some top, a2)
                    end
       end).
    rewrite take_last_snoc by (simpl; lia).
    change (0 <? length (top :: l)) with true. cbv iota.
    destruct (sift_down_ok (length ((top :: l) ++ [lst])) (upd (top :: l) 0 lst) 1)
      as [a2 [E [Hok2 [Hperm _]]]].
    + rewrite upd_length, app_length. simpl. lia.
    + lia.
    + apply repl_down.
      * apply (upd_inv_repl (top :: l) 0 lst); auto. simpl; lia.
      * rewrite upd_length. simpl. lia.
      * auto.
    + rewrite E. exists top, a2. split; [reflexivity|]. split; [exact Hok2|]. split; [|exact Hmax].
      eapply perm_trans; [apply perm_skip; exact Hperm|].
      simpl. apply perm_skip. apply Permutation_cons_append.
Qed.

(** ** remove *)

Variable eqb : elem -> elem -> bool.
Hypothesis eqb_spec : forall a b, eqb a b = true <-> a = b.
Local Notation remove_loop := (Containers.remove_loop elem eqb cmp).
Local Notation heap_remove := (Containers.heap_remove elem eqb cmp).

Lemma remove_loop_S f a p i cnt :
  remove_loop (S f) a p i cnt =
  if length a <=? i then Some (a, cnt) else
  match nth_error a i with
  | None => None
  | Some x =>
    if eqb p x then
      match take_last a i with
      | None => None
      | Some a1 =>
        if i <? length a1 then
          match sift_down (length a) a1 (i + 1) with
          | None => None
          | Some a2 =>
            match sift_up (length a) a2 (i + 1) with
            | None => None
            | Some a3 => remove_loop f a3 p i (S cnt)
            end
          end
        else remove_loop f a1 p i (S cnt)
      end
    else remove_loop f a p (S i) cnt
  end.
Proof. reflexivity. Qed.

Lemma filter_drop_one p a a3 : Permutation (p :: a3) a ->
  length (filter (eqb p) a) = S (length (filter (eqb p) a3)) /\
  Permutation (filter (fun x => negb (eqb p x)) a) (filter (fun x => negb (eqb p x)) a3).
Proof.
  intros HP. assert (Epp : eqb p p = true) by (apply eqb_spec; auto). split.
  - rewrite <- (Permutation_length (filter_perm (eqb p) _ _ HP)). simpl. rewrite Epp. reflexivity.
  - eapply perm_trans; [apply filter_perm, Permutation_sym, HP|]. simpl. rewrite Epp. simpl. auto.
Qed.

Lemma remove_loop_ok p : forall fuel a i cnt,
  2 * length a - i < fuel -> i <= length a -> heap_ok a ->
  Forall (fun x => eqb p x = false) (firstn i a) ->
  exists a', remove_loop fuel a p i cnt = Some (a', cnt + length (filter (eqb p) a)) /\
             heap_ok a' /\ Permutation a' (filter (fun x => negb (eqb p x)) a).
Proof.
  induction fuel as [|f IH]; intros a i cnt Hf Hi Hok Hno; [lia|].
  rewrite remove_loop_S. destruct (Nat.leb_spec (length a) i) as [L|L].
  - rewrite firstn_all2 in Hno by lia. exists a.
    rewrite (filter_none _ _ Hno). simpl. rewrite Nat.add_0_r.
    split; [reflexivity|]. split; [exact Hok|].
    rewrite filter_all; auto. eapply Forall_impl; [|exact Hno]. simpl. intros x Hx. rewrite Hx. auto.
  - destruct (nth_error a i) as [x|] eqn:Ex; [|apply nth_error_None in Ex; lia].
    destruct (eqb p x) eqn:Eq.
    + apply eqb_spec in Eq. subst x.
      assert (Hne : a <> []) by (intro; subst a; simpl in L; lia).
      destruct (exists_last Hne) as [l [lst E]]. subst a.
      rewrite app_length in *. simpl length in *.
      pose proof (heap_ok_prefix _ _ Hok) as Hokl.
      assert (Hpre : Forall (fun x => eqb p x = false) (firstn i l)).
      { erewrite firstn_ext; [exact Hno|]. intros k Hk. symmetry. apply nth_error_app1. lia. }
      rewrite take_last_snoc by lia.
      destruct (Nat.ltb_spec i (length l)) as [L'|L'].
      * rewrite upd_length. destruct (Nat.ltb_spec i (length l)) as [_|]; [|lia].
        rewrite nth_error_app1 in Ex by lia.
        destruct (replace_ok (upd l i lst) (i + 1) (length l + 1) (length l + 1))
          as [a3 [E3 [Hok3 [Hperm3 HP3]]]].
        -- apply upd_inv_repl; auto.
        -- rewrite upd_length. lia.
        -- rewrite upd_length. lia.
        -- lia.
        -- destruct (sift_down (length l + 1) (upd l i lst) (i + 1)) as [a2|]; [|discriminate].
           rewrite E3.
           pose proof (Permutation_length Hperm3) as Hlen. rewrite upd_length in Hlen.
           destruct (IH a3 i (S cnt)) as [a' [E' [Hok' Hperm']]]; auto; try lia.
           { replace (i + 1 - 1) with i in HP3 by lia. apply HP3.
             - erewrite firstn_ext; [exact Hpre|]. intros k Hk. apply nth_error_upd_neq. lia.
             - intros x y H2 Hx Hy Hnge.
               rewrite hget_upd_eq in Hy by lia. injection Hy as <-.
               rewrite hget_upd_neq in Hx by lia.
               destruct (eqb p lst) eqn:Eq; auto. exfalso. apply Hnge.
               apply eqb_spec in Eq. subst lst.
               apply (Hokl (i + 1)); auto; try lia.
               unfold Containers.hget. replace (i + 1 - 1) with i by lia. exact Ex. }
           assert (HP : Permutation (p :: a3) (l ++ [lst])).
           { eapply perm_trans; [apply perm_skip; exact Hperm3|].
             eapply perm_trans; [apply upd_perm1; exact Ex|]. apply Permutation_cons_append. }
           destruct (filter_drop_one p _ _ HP) as [Hc Hf'].
           exists a'. rewrite E', Hc. split; [f_equal; f_equal; lia|]. split; [exact Hok'|].
           eapply perm_trans; [exact Hperm'|]. apply Permutation_sym; exact Hf'.
      * assert (i = length l) by lia. subst i.
        destruct (Nat.ltb_spec (length l) (length l)) as [|_]; [lia|].
        rewrite nth_error_app2 in Ex by lia. rewrite Nat.sub_diag in Ex. simpl in Ex.
        injection Ex as ->.
        destruct (IH l (length l) (S cnt)) as [a' [E' [Hok' Hperm']]]; auto; try lia.
        assert (HP : Permutation (p :: l) (l ++ [p])) by apply Permutation_cons_append.
        destruct (filter_drop_one p _ _ HP) as [Hc Hf'].
        exists a'. rewrite E', Hc. split; [f_equal; f_equal; lia|]. split; [exact Hok'|].
        eapply perm_trans; [exact Hperm'|]. apply Permutation_sym; exact Hf'.
    + destruct (IH a (S i) cnt) as [a' [E' [Hok' Hperm']]]; auto; try lia.
      { rewrite (firstn_S_snoc _ _ _ Ex). apply Forall_app. split; auto. }
      exists a'. auto.
Qed.

Theorem heap_remove_ok a p : heap_ok a ->
  exists a', heap_remove a p = Some (a', length (filter (eqb p) a)) /\ heap_ok a' /\
             Permutation a' (filter (fun x => negb (eqb p x)) a).
Proof.
  intros Hok. unfold Containers.heap_remove.
  destruct (remove_loop_ok p (2 * length a + 1) a 0 0) as [a' H]; auto; try lia.
  { simpl. constructor. }
  exists a'. exact H.
Qed.

(** ** the multiset specification and the refinement theorems *)

Variable zero : elem.
Local Notation heap_push_move := (Containers.heap_push_move elem zero cmp).
Local Notation heap_step := (Containers.heap_step elem eqb zero cmp).
Local Notation heap_run := (Containers.heap_run elem eqb zero cmp).

(* one step of the specification; M, M' are the contents as lists, up to Permutation *)
Definition heap_spec_step (M : list elem) (o : heap_op elem) (r : heap_res elem) (M' : list elem) : Prop :=
  match o with
  | HPush _ p => r = HRUnit elem /\ Permutation M' (p :: M)
  | HPushMove _ p => r = HRMoved elem zero /\ Permutation M' (p :: M)
  | HPushVec _ l => r = HRUnit elem /\ Permutation M' (l ++ M)
  | HPop _ => (M = [] /\ r = HRElem elem None /\ M' = []) \/
              (exists m, r = HRElem elem (Some m) /\ Permutation (m :: M') M /\ is_max m M)
  | HPeek _ => Permutation M' M /\
               ((M = [] /\ r = HRElem elem None) \/
                (exists m, r = HRElem elem (Some m) /\ In m M /\ is_max m M))
  | HRemove _ p => r = HRNat elem (length (filter (eqb p) M)) /\
                   Permutation M' (filter (fun x => negb (eqb p x)) M)
  | HSize _ => r = HRNat elem (length M) /\ Permutation M' M
  | HClear _ => r = HRUnit elem /\ M' = []
  end.

Fixpoint heap_spec_run (M : list elem) (ops : list (heap_op elem)) (rs : list (heap_res elem))
         (M' : list elem) : Prop :=
  match ops, rs with
  | [], [] => Permutation M' M
  | o :: ops', r :: rs' => exists M1, heap_spec_step M o r M1 /\ heap_spec_run M1 ops' rs' M'
  | _, _ => False
  end.

Lemma is_max_perm m M1 M2 : Permutation M1 M2 -> is_max m M1 -> is_max m M2.
Proof. intros HP H x Hx. apply H. eapply Permutation_in; [apply Permutation_sym; exact HP|exact Hx]. Qed.

(* the specification only looks at the multisets *)
Lemma heap_spec_step_perm2 M1 M2 M1' M2' o r :
  Permutation M1 M2 -> Permutation M1' M2' -> heap_spec_step M1 o r M1' -> heap_spec_step M2 o r M2'.
Proof.
  intros HP HP'. pose proof (Permutation_sym HP') as HPs'.
  destruct o as [p|p|l| | |p| |]; simpl.
  - intros [-> H]. split; auto.
    eapply perm_trans; [exact HPs'|]. eapply perm_trans; [exact H|]. auto.
  - intros [-> H]. split; auto.
    eapply perm_trans; [exact HPs'|]. eapply perm_trans; [exact H|]. auto.
  - intros [-> H]. split; auto.
    eapply perm_trans; [exact HPs'|]. eapply perm_trans; [exact H|]. apply Permutation_app_head; auto.
  - intros [[-> [-> ->]]|[m [-> [H Hm]]]].
    + left. apply Permutation_nil in HP. apply Permutation_nil in HP'. auto.
    + right. exists m. split; auto. split.
      * eapply perm_trans; [apply perm_skip; exact HPs'|]. eapply perm_trans; [exact H|]. auto.
      * eapply is_max_perm; eauto.
  - intros [H Hr]. split.
    + eapply perm_trans; [exact HPs'|]. eapply perm_trans; [exact H|]. auto.
    + destruct Hr as [[-> ->]|[m [-> [Hin Hm]]]].
      * left. apply Permutation_nil in HP. auto.
      * right. exists m. split; auto. split.
        -- eapply Permutation_in; eauto.
        -- eapply is_max_perm; eauto.
  - intros [-> H]. split.
    + f_equal. apply Permutation_length, filter_perm; auto.
    + eapply perm_trans; [exact HPs'|]. eapply perm_trans; [exact H|]. apply filter_perm; auto.
  - intros [-> H]. split.
    + f_equal. apply Permutation_length; auto.
    + eapply perm_trans; [exact HPs'|]. eapply perm_trans; [exact H|]. auto.
  - intros [-> ->]. apply Permutation_nil in HP'. auto.
Qed.

Theorem heap_spec_step_perm M1 M2 M' o r :
  Permutation M1 M2 -> heap_spec_step M1 o r M' -> heap_spec_step M2 o r M'.
Proof. intros HP. apply heap_spec_step_perm2; auto. Qed.

Lemma heap_spec_run_perm ops : forall rs M1 M2 M1' M2',
  Permutation M1 M2 -> Permutation M1' M2' -> heap_spec_run M1 ops rs M1' -> heap_spec_run M2 ops rs M2'.
Proof.
  induction ops as [|o ops IH]; intros [|r rs] M1 M2 M1' M2' HP HP'; simpl; auto.
  - intros H. eapply perm_trans; [apply Permutation_sym; exact HP'|]. eapply perm_trans; [exact H|]. auto.
  - intros [M [Hs Hr]]. exists M. split.
    + eapply heap_spec_step_perm; eauto.
    + eapply IH; [apply Permutation_refl|exact HP'|exact Hr].
Qed.

Theorem heap_step_refines a o : heap_ok a ->
  exists a' r, heap_step a o = Some (a', r) /\ heap_ok a' /\ heap_spec_step a o r a'.
Proof.
  intros Hok. destruct o as [p|p|l| | |p| |]; cbn [Containers.heap_step heap_spec_step].
  - destruct (heap_push_ok a p Hok) as [a' [E [Hok' HP]]]. rewrite E. eauto 6.
  - unfold Containers.heap_push_move.
    destruct (heap_push_ok a p Hok) as [a' [E [Hok' HP]]]. rewrite E. eauto 6.
  - destruct (heap_push_list_ok l a Hok) as [a' [E [Hok' HP]]]. rewrite E. eauto 6.
  - destruct a as [|t a].
    + rewrite heap_pop_nil. exists [], (HRElem elem None). auto 6.
    + destruct (heap_pop_ok (t :: a) Hok) as [m [a' [E [Hok' [HP Hm]]]]]; [discriminate|].
      rewrite E. exists a', (HRElem elem (Some m)). split; auto. split; auto. right. eauto.
  - exists a, (HRElem elem (heap_peek a)). split; auto. split; auto. split; auto.
    destruct a as [|t a]; [left; auto|]. right. exists t. split; [reflexivity|]. split; [left; auto|].
    apply heap_peek_max; auto.
  - destruct (heap_remove_ok a p Hok) as [a' [E [Hok' HP]]]. rewrite E. eauto 6.
  - exists a, (HRNat elem (length a)). auto.
  - exists [], (HRUnit elem). split; auto. split; auto. apply heap_ok_nil.
Qed.

Theorem heap_run_refines ops : forall a, heap_ok a ->
  exists a' rs, heap_run a ops = Some (a', rs) /\ heap_ok a' /\ heap_spec_run a ops rs a'.
Proof.
  induction ops as [|o ops IH]; intros a Hok.
  - exists a, []. simpl. auto.
  - destruct (heap_step_refines a o Hok) as [a1 [r [E1 [Hok1 Hs1]]]].
    destruct (IH a1 Hok1) as [a2 [rs [E2 [Hok2 Hs2]]]].
    exists a2, (r :: rs). cbn [Containers.heap_run]. rewrite E1, E2.
    split; auto. split; auto. simpl. eauto.
Qed.

(* the executable acceptance test used by the model driver is sound for the specification *)
Lemma remove_one_perm x : forall l l', remove_one elem eqb x l = Some l' -> Permutation (x :: l') l.
Proof.
  induction l as [|y r IH]; intros l' H; cbn in H; [discriminate|].
  destruct (eqb x y) eqn:E.
  - apply eqb_spec in E. subst y. injection H as <-. reflexivity.
  - destruct (remove_one elem eqb x r) as [r'|]; [|discriminate]. injection H as <-.
    rewrite perm_swap. apply perm_skip. apply IH. reflexivity.
Qed.

Theorem heap_check_step_sound M o r M' :
  heap_check_step elem eqb zero cmp M o r = Some M' -> heap_spec_step M o r M'.
Proof.
  unfold heap_check_step.
  destruct o as [p|p|l| | |p| |]; destruct r as [|[m|]|n|z]; try discriminate; cbn [heap_spec_step].
  - intros H. injection H as <-. auto.
  - destruct (eqb z zero) eqn:E; [|discriminate]. apply eqb_spec in E. subst z.
    intros H. injection H as <-. auto.
  - intros H. injection H as <-. auto.
  - destruct (forallb (fun x => (0 <=? cmp m x)%Z) M) eqn:F; [|discriminate].
    intros H. right. exists m. split; auto. split; [apply remove_one_perm; auto|].
    intros x Hx. rewrite forallb_forall in F. specialize (F x Hx). unfold hge. apply Z.leb_le. exact F.
  - destruct M; [|discriminate]. intros H. injection H as <-. left. auto.
  - destruct (existsb (eqb m) M) eqn:Ex; [|discriminate].
    destruct (forallb (fun x => (0 <=? cmp m x)%Z) M) eqn:F; [|discriminate]. cbn [andb].
    intros H. injection H as <-. split; auto. right. exists m. split; auto. split.
    + apply existsb_exists in Ex. destruct Ex as (x & Hx & Ex). apply eqb_spec in Ex. subst x. auto.
    + intros x Hx. rewrite forallb_forall in F. specialize (F x Hx). unfold hge. apply Z.leb_le. exact F.
  - destruct M; [|discriminate]. intros H. injection H as <-. split; auto.
  - destruct (Nat.eqb_spec n (length (filter (eqb p) M))) as [->|]; [|discriminate].
    intros H. injection H as <-. auto.
  - destruct (Nat.eqb_spec n (length M)) as [->|]; [|discriminate].
    intros H. injection H as <-. auto.
  - intros H. injection H as <-. auto.
Qed.

(* HPeek / HSize leave the array itself (not only the multiset) unchanged *)
Lemma heap_step_peek_size_same a :
  heap_step a (HPeek elem) = Some (a, HRElem elem (heap_peek a)) /\
  heap_step a (HSize elem) = Some (a, HRNat elem (length a)).
Proof. split; reflexivity. Qed.

End HeapProofs.

(* ------------------------------------------------------------------------------------------- *)
(** * The same theorems with the premises packaged (used by Properties_C20.v) *)

Definition total_preorder {A : Type} (cmp : A -> A -> Z) : Prop :=
  (forall a b, hge A cmp a b \/ hge A cmp b a) /\
  (forall a b c, hge A cmp a b -> hge A cmp b c -> hge A cmp a c).
Definition decides_eq {A : Type} (eqb : A -> A -> bool) : Prop := forall a b, eqb a b = true <-> a = b.

Lemma heap_ok_empty : forall elem cmp, heap_ok elem cmp [].
Proof. intros elem cmp i x y Hi. cbn in Hi. lia. Qed.

Lemma heap_push_ok_tp : forall elem cmp, total_preorder cmp -> forall a p, heap_ok elem cmp a ->
  exists a', heap_push elem cmp a p = Some a' /\ heap_ok elem cmp a' /\ Permutation a' (p :: a).
Proof. intros elem cmp [Ht Htr]. exact (heap_push_ok elem cmp Ht Htr). Qed.

Lemma heap_push_list_ok_tp : forall elem cmp, total_preorder cmp -> forall l a, heap_ok elem cmp a ->
  exists a', heap_push_list elem cmp a l = Some a' /\ heap_ok elem cmp a' /\ Permutation a' (l ++ a).
Proof. intros elem cmp [Ht Htr]. exact (heap_push_list_ok elem cmp Ht Htr). Qed.

Lemma heap_peek_max_tp : forall elem cmp, total_preorder cmp -> forall a m, heap_ok elem cmp a ->
  heap_peek elem a = Some m -> is_max elem cmp m a.
Proof. intros elem cmp [Ht Htr]. exact (heap_peek_max elem cmp Ht Htr). Qed.

Lemma heap_pop_ok_tp : forall elem cmp, total_preorder cmp -> forall a, heap_ok elem cmp a -> a <> [] ->
  exists m a', heap_pop elem cmp a = Some (Some m, a') /\ heap_ok elem cmp a' /\
               Permutation (m :: a') a /\ is_max elem cmp m a.
Proof. intros elem cmp [Ht Htr]. exact (heap_pop_ok elem cmp Ht Htr). Qed.

Lemma heap_remove_ok_tp : forall elem cmp eqb, total_preorder cmp -> decides_eq eqb ->
  forall a p, heap_ok elem cmp a ->
  exists a', heap_remove elem eqb cmp a p = Some (a', length (filter (eqb p) a)) /\
             heap_ok elem cmp a' /\ Permutation a' (filter (fun x => negb (eqb p x)) a).
Proof. intros elem cmp eqb [Ht Htr] He. exact (heap_remove_ok elem cmp Ht Htr eqb He). Qed.

Lemma heap_run_refines_tp : forall elem cmp eqb zero, total_preorder cmp -> decides_eq eqb ->
  forall ops a, heap_ok elem cmp a ->
  exists a' rs, heap_run elem eqb zero cmp a ops = Some (a', rs) /\ heap_ok elem cmp a' /\
                heap_spec_run elem cmp eqb zero a ops rs a'.
Proof. intros elem cmp eqb zero [Ht Htr] He. exact (heap_run_refines elem cmp Ht Htr eqb He zero). Qed.

Lemma heap_run_from_empty_tp : forall elem cmp eqb zero, total_preorder cmp -> decides_eq eqb ->
  forall ops, exists a' rs, heap_run elem eqb zero cmp [] ops = Some (a', rs) /\ heap_ok elem cmp a' /\
                heap_spec_run elem cmp eqb zero [] ops rs a'.
Proof. intros elem cmp eqb zero Ht He ops. apply (heap_run_refines_tp elem cmp eqb zero Ht He ops []). intros i x y Hi. cbn in Hi. lia. Qed.

Lemma heap_check_step_sound_tp : forall elem cmp eqb zero, decides_eq eqb -> forall M o r M',
  heap_check_step elem eqb zero cmp M o r = Some M' -> heap_spec_step elem cmp eqb zero M o r M'.
Proof. intros elem cmp eqb zero He. exact (heap_check_step_sound elem cmp eqb He zero). Qed.

Lemma heap_push_move_zero : forall elem zero cmp a p a' src,
  heap_push_move elem zero cmp a p = Some (a', src) -> heap_push elem cmp a p = Some a' /\ src = zero.
Proof.
  intros elem zero cmp a p a' src. unfold heap_push_move.
  destruct (heap_push elem cmp a p); [|discriminate]. intros H. injection H as <- <-. auto.
Qed.

(* ------------------------------------------------------------------------------------------- *)
(** * Non-vacuity: the hypotheses are satisfiable (elem := Z, cmp := Z.sub) and a concrete heap *)

Definition zcmp (a b : Z) : Z := (a - b)%Z.

Lemma zcmp_total : forall a b, hge Z zcmp a b \/ hge Z zcmp b a.
Proof. unfold hge, zcmp. intros. lia. Qed.

Lemma zcmp_trans : forall a b c, hge Z zcmp a b -> hge Z zcmp b c -> hge Z zcmp a c.
Proof. unfold hge, zcmp. intros. lia. Qed.

Definition heap_step_refines_Z := heap_step_refines Z zcmp zcmp_total zcmp_trans Z.eqb Z.eqb_eq 0%Z.
Definition heap_run_refines_Z := heap_run_refines Z zcmp zcmp_total zcmp_trans Z.eqb Z.eqb_eq 0%Z.

Definition ex_heap : list Z := [100;10;90;5;4;80;70;1;2;3;3;60;50;40;30]%Z.

Example ex_heap_ok : heap_ok Z zcmp ex_heap.
Proof.
  intros i x y Hi Hx Hy. simpl in Hi.
  do 16 (destruct i as [|i];
         [first [lia | cbn in Hx, Hy; inversion Hx; inversion Hy; unfold hge, zcmp; lia]|]).
  lia.
Qed.

(* pop until empty *)
Fixpoint drain (fuel : nat) (a : list Z) : option (list Z) :=
  match fuel with
  | O => Some []
  | S f => match heap_pop Z zcmp a with
           | Some (Some m, a') => option_map (cons m) (drain f a')
           | Some (None, _) => Some []
           | None => None
           end
  end.

(* removing the single 1: one copy reported, the rest pops in non-increasing order *)
Example ex_remove_1 :
  heap_remove Z Z.eqb zcmp ex_heap 1%Z = Some ([100;30;90;10;4;80;70;5;2;3;3;60;50;40]%Z, 1) /\
  drain 20 [100;30;90;10;4;80;70;5;2;3;3;60;50;40]%Z = Some [100;90;80;70;60;50;40;30;10;5;4;3;3;2]%Z.
Proof. split; vm_compute; reflexivity. Qed.

(* removing 3 removes BOTH copies (the second one is moved into the scanned position by the first
   removal) and reports 2 *)
Example ex_remove_3 :
  heap_remove Z Z.eqb zcmp ex_heap 3%Z = Some ([100;40;90;5;30;80;70;1;2;4;10;60;50]%Z, 2) /\
  drain 20 [100;40;90;5;30;80;70;1;2;4;10;60;50]%Z = Some [100;90;80;70;60;50;40;30;10;5;4;2;1]%Z.
Proof. split; vm_compute; reflexivity. Qed.

(* the general theorem instantiated on the example *)
Example ex_remove_general p :
  exists a', heap_remove Z Z.eqb zcmp ex_heap p = Some (a', length (filter (Z.eqb p) ex_heap)) /\
             heap_ok Z zcmp a' /\ Permutation a' (filter (fun x => negb (Z.eqb p x)) ex_heap).
Proof. apply (heap_remove_ok Z zcmp zcmp_total zcmp_trans Z.eqb Z.eqb_eq). apply ex_heap_ok. Qed.
