(* Extraction of the executable models to OCaml (ExtrOcamlBasic only: bool, option, unit, list, prod,
   sumbool map to OCaml's; Z/positive/N/nat stay the extracted inductive types; no Extract Constant). *)
From Coq Require Import ZArith List Extraction ExtrOcamlBasic.
From LP Require Import Scalar.
Set Warnings "-extraction-opaque-accessed".
Extraction "model.ml"
  (* Scalar *)
  pow2 z_val2 z_bits z_cdiv egcd iroot
  ring_ub ring_lb in_ring ring_norm int_is_zero int_sgn int_cmp int_inc int_dec int_add int_sub int_neg
  int_abs int_mul int_mul_pow2 int_pow int_add_mul int_sub_mul int_inv int_divides int_div_exact
  int_div_exact_ok int_div_Z int_rem_Z int_gcd_Z int_lcm_Z int_sqrt_Z
  q_canon q_is_canon q_from_int q_from_integer q_add q_sub q_neg q_mul q_inv q_div q_mul_2exp q_div_2exp
  q_sgn q_cmp q_floor q_ceiling q_is_integer q_add_integer q_cmp_integer q_pow
  dy_normalize dy_is_normalized dy_from_int dy_from_integer dy_add dy_sub dy_add_integer dy_neg dy_mul
  dy_mul_2exp dy_div_2exp dy_pow dy_sgn dy_cmp dy_cmp_integer dy_get_num dy_get_den dy_is_integer
  dy_floor_int dy_ceiling_int q_from_dyadic q_cmp_dyadic dy_cmp_rational dy_root_approx dy_get_value_between.
