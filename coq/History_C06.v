(* Regression memory for property C06: the pre-repair behaviour of src/upolynomial/root_finding.c with
   machine-checked refutations of the property on the faithful model of the pinned code.  The witnesses are in
   corpus/C06.txt and are replayed against the real library on every run. *)
From Coq Require Import ZArith List Bool.
From LP Require Import UPoly RootIso.
Import ListNotations.
Local Open Scope Z_scope.

(* sturm_seqence_count_roots of the pinned tree: a CLOSED lower end adds one when the end is NOT a root
   ("... != 0) root_count ++"); the model is RootIso.lp_roots_count_gen with repaired := false. *)
Definition lp_roots_count_prefix (f : poly) (J : ri_itv) : Z := lp_roots_count_gen false f (Some J).

(* "The count over an interval is the number of distinct real roots in it" is false for the pinned code.
   The number of roots in the interval is computed by the PROVED route: an isolation list accepted by
   check_isolation (hence exactly the real roots, RootIsoProofs.check_isolation_exact) filtered by the proved
   count_in_itv (RootIsoProofs.count_in_itv_correct). *)

(* x^2 - 2 on [0, 2]: one root (sqrt 2), the pinned code answers 2; the repaired rule answers 1 *)
Theorem C06_count_closed_lower_end_refuted :
  exists f items J,
    check_isolation f items = true /\
    lp_roots_count_prefix f J <> Z.of_nat (count_in_itv items J) /\
    lp_roots_count f (Some J) = Z.of_nat (count_in_itv items J).
Proof.
  exists [-2; 0; 1], [IAlg [-2; 0; 1] (-3) 2 (-5) 4; IAlg [-2; 0; 1] 5 4 3 2], (mkRiItv 0 1 false 2 1 false).
  vm_compute. repeat split; discriminate.
Qed.

(* x^2 - 1 on [-1, 0]: one root (-1, the closed lower end itself), the pinned code answers 0 *)
Theorem C06_count_closed_lower_end_root_refuted :
  exists f items J,
    check_isolation f items = true /\
    lp_roots_count_prefix f J <> Z.of_nat (count_in_itv items J) /\
    lp_roots_count f (Some J) = Z.of_nat (count_in_itv items J).
Proof.
  exists [-1; 0; 1], [IPoint (-1) 1; IPoint 1 1], (mkRiItv (-1) 1 false 0 1 false).
  vm_compute. repeat split; discriminate.
Qed.

(* upolynomial_compute_sturm_sequence of the pinned tree: the remainder is made primitive unconditionally;
   upolynomial_dense_mk_primitive_Z asserts gcd > 0, which fails for the zero remainder of a polynomial with
   a multiple root (default build: assertions on).  None models the failed assertion. *)
Fixpoint lp_sturm_loop_prefix (fuel : nat) (prev cur : poly) : option (list poly) :=
  match fuel with
  | O => Some [cur]
  | S fuel' =>
    if Nat.leb (length (pnorm cur)) 1 then Some [cur]
    else
      let '(a, red) := lp_reduce_Z prev cur in
      if pis_zero red then None
      else
        let s := ppos_prim red in
        let s := if 0 <? a then pneg s else s in
        match lp_sturm_loop_prefix fuel' cur s with
        | Some l => Some (cur :: l)
        | None => None
        end
  end.
Definition lp_sturm_sequence_prefix (f : poly) : option (list poly) :=
  let s0 := ppp f in
  let s1 := ppp (pderiv s0) in
  match lp_sturm_loop_prefix (length s0) s0 s1 with Some l => Some (s0 :: l) | None => None end.

(* (x - 2)^2: no Sturm sequence is returned (assertion failure); the repaired code returns [x^2-4x+4; x-2],
   which the proved checker check_sturm accepts *)
Theorem C06_sturm_sequence_multiple_root_refuted :
  exists f, (1 < length (pnorm f))%nat /\ lp_sturm_sequence_prefix f = None /\
            check_sturm f (lp_sturm_sequence f) = true.
Proof. exists [4; -4; 1]. vm_compute. repeat split. repeat constructor. Qed.

(* on square-free input the pinned and the repaired sequence agree (example) *)
Example C06_sturm_prefix_same_on_squarefree :
  lp_sturm_sequence_prefix [-2; 0; 1] = Some (lp_sturm_sequence [-2; 0; 1]).
Proof. vm_compute. reflexivity. Qed.
