(* Property C06 - the last step of upolynomial_roots_isolate_sturm: the roots found factor by factor are sorted with
   lp_algebraic_number_cmp (number/algebraic_number.c), whose faithful model is AlgNum.an_cmp (property C07): gcd
   reduction for equal intervals, refinement race otherwise; the comparison REFINES its two operands in place and
   the sort continues with the refined numbers.
   libc's qsort is not modelled as an algorithm (implementation defined): the executable model is an insertion
   sort that threads the refined operands exactly like the in-place refinement does.  Every comparison sort driven
   by this comparator returns the same list of denoted reals (they are pairwise distinct); only the interval
   representations may differ by further refinement.
   Executable definitions only (stdlib + the models); proofs are in RootIsoEnd.v. *)
From Coq Require Import ZArith List Bool.
From LP Require Import Scalar UPoly RootIso AlgNum.
Import ListNotations.
Local Open Scope Z_scope.

(* the isolation model's numbers as lp_algebraic_number_t values of the C07 model *)
Definition dy_of_rd (q : rdy) : dyadic := mkDy (fst q) (snd q).
Definition anum_of_ri (x : ri_anum) : anum :=
  match x with
  | RPoint q => an_point (dy_of_rd q)
  | RItv p a b sa sb => mkAN (Some p) (dy_of_rd a) (dy_of_rd b) sa sb
  end.

(* insert x into the sorted list l, comparing with lp_algebraic_number_cmp; both operands are replaced by their
   refined versions; None when the comparison runs out of fuel *)
Fixpoint an_insert (fuel : nat) (x : anum) (l : list anum) : option (list anum) :=
  match l with
  | [] => Some [x]
  | y :: l' =>
    match an_cmp fuel an_ref_gcd x y with
    | None => None
    | Some (c, x', y') =>
      if c <=? 0 then Some (x' :: y' :: l')
      else match an_insert fuel x' l' with Some s => Some (y' :: s) | None => None end
    end
  end.

Fixpoint an_isort (fuel : nat) (l : list anum) : option (list anum) :=
  match l with
  | [] => Some []
  | x :: l' => match an_isort fuel l' with Some s => an_insert fuel x s | None => None end
  end.

(* lp_upolynomial_roots_isolate: isolation factor by factor, then the sort *)
Definition lp_roots_isolate_sorted (fuel : nat) (f : poly) : option (list anum) :=
  match lp_roots_isolate fuel f with
  | Some l => an_isort fuel (map anum_of_ri l)
  | None => None
  end.
