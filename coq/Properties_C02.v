(* Property C02 - division, pseudo-division and reduction satisfy their defining identities; divisibility.
   ONLY theorem statements, each closed by `exact` of a lemma of DivisionProofs.v / DivisionUProofs.v /
   History_C02.v, with Print Assumptions beneath.  Model: Division.v.

   Multivariate statements are about the univariate view `list mpoly` of the main variable (coefficients in
   the reference model MPoly.v); "equal as polynomials" is equality of the evaluations
       cp_eval rho xv l = sum_i mp_eval rho l_i * xv^i
   at EVERY valuation rho of the coefficient variables and every value xv of the main variable (Z is
   infinite, so this is polynomial identity over Z).  Univariate statements are in MathComp's {poly Z}
   (Poly l = denotation of the coefficient list), modulo M for Z_M:  peqM M a b := exists T, a = b + M *: T. *)
From Coq Require Import ZArith NArith List Bool.
From LP Require Import Scalar UPoly MPoly Division DivisionProofs DivisionUList History_C02.
Import ListNotations.

(* ================================================================== 0. the meaning of the reference operations *)
(* FULL: evaluation at any integer point is a ring homomorphism on the reference model - no
   well-formedness premise.  This is what makes the identities below identities of polynomials. *)
Theorem C02_eval_add : forall rho p q, mp_eval rho (mp_add p q) = (mp_eval rho p + mp_eval rho q)%Z.
Proof. exact mp_eval_add. Qed.
Print Assumptions C02_eval_add.
Theorem C02_eval_mul : forall rho p q, mp_eval rho (mp_mul p q) = (mp_eval rho p * mp_eval rho q)%Z.
Proof. exact mp_eval_mul. Qed.
Print Assumptions C02_eval_mul.
Theorem C02_eval_pow : forall rho p n, mp_eval rho (mp_pow p n) = (mp_eval rho p ^ Z.of_nat n)%Z.
Proof. exact mp_eval_pow. Qed.
Print Assumptions C02_eval_pow.

(* ================================================================== 1. coefficient_reduce, all four variants *)
(* FULL: whenever the loop returns (P, Q, R):  P*A = Q*B + R.  All remaindering variants, ANY
   exact-division oracle divf, ANY lcm oracle lcmf (the identity does not depend on the leading-coefficient
   divisions being exact), any missed-power rule. *)
Theorem C02_reduce_identity :
  forall divf lcmf missedf ty fuel A B P Q R,
  reduce divf lcmf missedf ty fuel A B = Some (P, Q, R) ->
  forall rho xv, (mp_eval rho P * cp_eval rho xv A = cp_eval rho xv Q * cp_eval rho xv B + cp_eval rho xv R)%Z.
Proof. exact reduce_identity. Qed.
Print Assumptions C02_reduce_identity.

(* FULL: the returned remainder is in canonical view and is zero or of lower degree in x than B *)
Theorem C02_reduce_remainder_degree :
  forall divf lcmf missedf ty fuel A B P Q R,
  reduce divf lcmf missedf ty fuel A B = Some (P, Q, R) ->
  cp_norm R = R /\ (cp_is_zero R = true \/ (cp_deg R < cp_deg B)%Z).
Proof. exact reduce_degree. Qed.
Print Assumptions C02_reduce_remainder_degree.

(* FULL (dense, sparse, exact variants): the multiplier P does not depend on x, when the coefficients of B
   do not (indep x p: the value of p is the same at any two valuations that agree off x) *)
Theorem C02_reduce_multiplier_free_of_x :
  forall divf lcmf missedf x ty fuel A B P Q R,
  ty <> LcmSparse -> Forall (indep x) B ->
  reduce divf lcmf missedf ty fuel A B = Some (P, Q, R) -> indep x P.
Proof. exact reduce_P_indep. Qed.
Print Assumptions C02_reduce_multiplier_free_of_x.

(* COND (lcm variant): premise = the multipliers r = lcm/lc(R) chosen by the oracles are free of x
   (coefficient_lcm / coefficient_div of x-free polynomials are x-free: properties C03 / C02-div of the oracles) *)
Theorem C02_reduce_multiplier_free_of_x_lcm_cond :
  forall divf lcmf missedf x fuel A B P Q R,
  Forall (indep x) B ->
  (forall lcR r b, step_mult divf lcmf LcmSparse lcR (cp_lc B) = Some (r, b) -> indep x r) ->
  reduce divf lcmf missedf LcmSparse fuel A B = Some (P, Q, R) -> indep x P.
Proof. exact reduce_P_indep_lcm_cond. Qed.
Print Assumptions C02_reduce_multiplier_free_of_x_lcm_cond.

(* FULL, with an explicit escape clause: in the dense variant (repaired missed-power rule)
   P = lc(B)^(deg A - deg B + 1) - or the reference arithmetic has exhibited a zero divisor (scaling a
   non-zero view by a power of lc(B) gave zero), which cannot happen in Z[x1..xn]; that last fact belongs
   to the canonical-form theory of MPoly.v (property C01) and is therefore not assumed here. *)
Theorem C02_reduce_dense_multiplier :
  forall divf lcmf fuel A B P Q R,
  reduce divf lcmf missed_power PseudoDense fuel A B = Some (P, Q, R) ->
  cp_is_zero A = false -> (cp_deg B <= cp_deg A)%Z ->
  forall rho, mp_eval rho P = (mp_eval rho (cp_lc B) ^ (cp_deg A - cp_deg B + 1))%Z \/ zero_divisor_witness (cp_lc B).
Proof. exact reduce_dense_power. Qed.
Print Assumptions C02_reduce_dense_multiplier.

(* FULL: fuel deg A + 2 is enough - with that much fuel the result no longer depends on the fuel, so a None
   is a failed assertion of the code (inexact leading-coefficient division), never exhaustion *)
Theorem C02_reduce_fuel_sufficient :
  forall divf lcmf missedf ty A B fuel fuel',
  (Z.to_nat (cp_deg A) + 2 <= fuel)%nat -> (fuel <= fuel')%nat ->
  reduce divf lcmf missedf ty fuel' A B = reduce divf lcmf missedf ty fuel A B.
Proof. exact reduce_fuel_sufficient. Qed.
Print Assumptions C02_reduce_fuel_sufficient.

(* FULL: the view is faithful - mp_coeffs x / mp_of_coeffs x preserve the value (canonical input), so the
   statements about views are statements about the multivariate polynomials themselves ... *)
Theorem C02_view_of_polynomial :
  forall rho x p, mp_wf p = true -> cp_eval rho (rho x) (mp_coeffs x p) = mp_eval rho p.
Proof. exact mp_coeffs_eval. Qed.
Print Assumptions C02_view_of_polynomial.
Theorem C02_polynomial_of_view :
  forall rho x l, mp_eval rho (mp_of_coeffs x l) = cp_eval rho (rho x) l.
Proof. exact mp_of_coeffs_eval. Qed.
Print Assumptions C02_polynomial_of_view.

(* FULL: ... in particular for the entry point the correspondence runs (coefficient_reduce on polynomials, all
   four variants): P*A = Q*B + R at every integer point, i.e. as polynomials in Z[x0, x1, ...] *)
Theorem C02_m_reduce_identity :
  forall lcmf fuel ty A B P Q R, mp_wf A = true -> mp_wf B = true ->
  m_reduce lcmf fuel ty A B = Some (P, Q, R) ->
  forall rho, (mp_eval rho P * mp_eval rho A = mp_eval rho Q * mp_eval rho B + mp_eval rho R)%Z.
Proof. exact m_reduce_identity. Qed.
Print Assumptions C02_m_reduce_identity.

(* ================================================================== 2. exact division / division with remainder *)
(* FULL: coefficient_rem / divrem (EXACT_SPARSE): A = Q*B + R, the multiplier being 1 *)
Theorem C02_divrem_identity :
  forall divf lcmf missedf fuel A B P Q R,
  reduce divf lcmf missedf ExactSparse fuel A B = Some (P, Q, R) ->
  forall rho xv, cp_eval rho xv A = (cp_eval rho xv Q * cp_eval rho xv B + cp_eval rho xv R)%Z.
Proof. exact reduce_exact_identity. Qed.
Print Assumptions C02_divrem_identity.

(* PARTIAL: the quotient times the divisor is the dividend WHEN THE REMAINDER CAME OUT ZERO.  That the
   remainder is zero whenever some quotient exists needs uniqueness of division in Z[y][x] (no zero divisors in
   the reference model: C01's canonical-form theory); the full statement is kept below. *)
Theorem C02_div_exact_partial :
  forall divf lcmf missedf fuel A B P Q R,
  reduce divf lcmf missedf ExactSparse fuel A B = Some (P, Q, R) -> cp_is_zero R = true ->
  forall rho xv, (cp_eval rho xv Q * cp_eval rho xv B)%Z = cp_eval rho xv A.
Proof. exact reduce_exact_quotient. Qed.
Print Assumptions C02_div_exact_partial.
Definition C02_div_exact_full_statement : Prop :=
  forall divf lcmf missedf fuel A B P Q R,
  reduce divf lcmf missedf ExactSparse fuel A B = Some (P, Q, R) ->
  (exists Q0, forall rho xv, cp_eval rho xv A = (cp_eval rho xv Q0 * cp_eval rho xv B)%Z) ->
  forall rho xv, (cp_eval rho xv Q * cp_eval rho xv B)%Z = cp_eval rho xv A.

(* ================================================================== 3. the checkers run on the implementation's output *)
(* FULL: a successful check_reduce IS the property for that output (sparse and lcm variants) *)
Theorem C02_check_reduce_sound :
  forall x A B P Q R, check_reduce x A B P Q R = true ->
  (forall rho, mp_eval rho P * mp_eval rho A = mp_eval rho Q * mp_eval rho B + mp_eval rho R)%Z
  /\ (R = nil \/ (mp_degree x R < mp_degree x B)%N)
  /\ mp_degree x P = 0%N /\ P <> nil.
Proof. exact check_reduce_sound. Qed.
Print Assumptions C02_check_reduce_sound.

Theorem C02_check_pow_reduce_sound :
  forall x A B lc Q R n P, check_pow_reduce x A B lc Q R P n = true ->
  exists (k : nat) (P' : mpoly), (k <= n)%nat /\ check_reduce x A B P' Q R = true /\
    forall rho, mp_eval rho P' = (mp_eval rho lc ^ Z.of_nat k * mp_eval rho P)%Z.
Proof. exact check_pow_reduce_sound. Qed.
Print Assumptions C02_check_pow_reduce_sound.

(* REFUTED on the faithful model of the pinned code (witnesses replayed against the library, corpus/C02.txt) *)
Theorem C02_divides_prefix_refuted :
  exists C1 C2, m_divides_prefix lcm_standin 20 C1 C2 = Some true /\
    ~ exists Q, forall rho, mp_eval rho C2 = (mp_eval rho Q * mp_eval rho C1)%Z.
Proof. exact History_C02.C02_divides_prefix_refuted. Qed.
Print Assumptions C02_divides_prefix_refuted.

Theorem C02_udivides_prefix_refuted :
  exists p q, udivides_prefix None false p q = Some true /\
    ~ exists d, forall x, peval q x = (peval d x * peval p x)%Z.
Proof. exact History_C02.C02_udivides_prefix_refuted. Qed.
Print Assumptions C02_udivides_prefix_refuted.

(* REFUTED - KNOWN FINDING udivides-composite-zero-divisors (not repaired; known_findings.txt): over a COMPOSITE modulus the
   faithful model of the CURRENT lp_upolynomial_divides answers false for a true multiple.  Z_6: (x+2)(x+3) = x^2 + 5x
   = x^2 - x; the lowest coefficient 2 of the divisor does not divide the lowest coefficient -1 of the product in Z_6
   (the early exits and the degree bookkeeping assume an integral domain). *)
Theorem C02_udivides_composite_refuted :
  exists (M : Z) (p q d : list Z),
    (exists a b : Z, 1 < a /\ 1 < b /\ M = a * b)%Z /\
    umul_ring (Some M) p d = q /\ udivides (Some M) false p q = Some false.
Proof.
  exists 6%Z, [2; 1]%Z, [0; -1; 1]%Z, [3; 1]%Z.
  split; [exists 2%Z, 3%Z; repeat split; reflexivity|]. split; vm_compute; reflexivity.
Qed.
Print Assumptions C02_udivides_composite_refuted.

Theorem C02_dense_power_prefix_refuted :
  exists A B P Q R,
    reduce (fun _ _ => None) (fun a _ => a) missed_power_prefix PseudoDense 20 A B = Some (P, Q, R) /\
    cp_is_zero A = false /\ (cp_deg B <= cp_deg A)%Z /\
    exists rho, mp_eval rho P <> (mp_eval rho (cp_lc B) ^ (cp_deg A - cp_deg B + 1))%Z.
Proof. exact History_C02.C02_dense_power_prefix_refuted. Qed.
Print Assumptions C02_dense_power_prefix_refuted.

Theorem C02_divrem_prefix_refuted :
  exists C1 C2 Q, mp_mul Q C2 = C1 /\ cmp_type C1 C2 = Gt /\ m_divrem_prefix lcm_standin 20 C1 C2 = None.
Proof. exact History_C02.C02_divrem_prefix_refuted. Qed.
Print Assumptions C02_divrem_prefix_refuted.

(* ================================================================== non-vacuity *)
(* a dense run with a missed power in the LAST step: A = x^3 + 1, B = y*x^2 + 1 (x = the view variable,
   y = x0): P = y^2 = lc(B)^(3-2+1), and the hypotheses of the theorems above hold *)
Example C02_ex_dense :
  let y : mpoly := cons (cons (0%N, 1%N) nil, 1%Z) nil in
  let A : cpoly := [mp_const 1; nil; nil; mp_const 1] in
  let B : cpoly := [mp_const 1; nil; y] in
  exists Q R, reduce (mp_div 20) lcm_standin missed_power PseudoDense 20 A B = Some (mp_mul y y, Q, R)
    /\ cp_is_zero A = false /\ (cp_deg B <= cp_deg A)%Z /\ cp_is_zero R = false.
Proof. do 2 eexists. vm_compute. repeat split; congruence. Qed.

(* the exact variant on an exact multiple: remainder zero *)
Example C02_ex_exact :
  let y : mpoly := cons (cons (0%N, 1%N) nil, 1%Z) nil in
  let B : cpoly := [mp_const 2; y] in
  let A : cpoly := [mp_const 4; mp_scale 4 y; mp_mul y y] in
  exists P Q R, reduce (mp_div 20) lcm_standin missed_power ExactSparse 20 A B = Some (P, Q, R) /\ cp_is_zero R = true.
Proof. do 3 eexists. vm_compute. split; reflexivity. Qed.

(* univariate: pseudo-division of x^3 + 3x^2 + 1 by 3x + 2 in Z_7[x] and over Z.  (Exact division in Z_7[x]
   goes through the certified extended Euclid of the standard library, which does not reduce under
   vm_compute; it is exercised by the extracted model on every run.) *)
Example C02_ex_u7 : udiv_pseudo (Some 7%Z) [1; 0; 3; 1]%Z [2; 3]%Z = Some ([0; 0; 2]%Z, [(-1)%Z]).
Proof. vm_compute. reflexivity. Qed.
Example C02_ex_uZ : udiv_pseudo None [1; 0; 3; 1]%Z [2; 3]%Z = Some ([-14; 21; 9]%Z, [55%Z]).
Proof. vm_compute. reflexivity. Qed.
(* the repaired divisibility predicate on the defect's witness, and on a true instance *)
Example C02_ex_udivides : udivides None false [4; 2]%Z [4; 4; 1]%Z = Some false
                       /\ udivides None false [2; 1]%Z [4; 4; 1]%Z = Some true.
Proof. vm_compute. split; reflexivity. Qed.

Set Warnings "-notation-overridden,-ambiguous-paths".
From mathcomp Require Import all_ssreflect all_algebra.
From mathcomp Require Import ssrZ zify.
Set Warnings "notation-overridden,ambiguous-paths".
From LP Require Import UPolySpec DivisionUProofs.
Import GRing.Theory.
Local Open Scope ring_scope.

(* ================================================================== 4. univariate Z[x] and Z_M[x] (dense div_general) *)
(* FULL: pseudo-division over Z:  lc(q)^(deg p - deg q + 1) * p = d*q + r  and  size r < size q *)
Theorem C02_udiv_pseudo_Z :
  forall p q d r : seq Z, pnorm q = q -> udiv_pseudo None p q = Some (d, r) ->
  plc q ^+ (udeg p - udeg q).+1 *: Poly p = Poly d * Poly q + Poly r /\ (size (Poly r) < size (Poly q))%N.
Proof. exact udiv_pseudo_Z. Qed.
Print Assumptions C02_udiv_pseudo_Z.

(* FULL: exact division over Z (every answer of the loop; None = an assertion of the code fails) *)
Theorem C02_udiv_exact_Z :
  forall p q d r : seq Z, pnorm q = q -> udiv_general None true p q = Some (d, r) ->
  Poly p = Poly d * Poly q + Poly r /\ (size (Poly r) < size (Poly q))%N.
Proof. exact udiv_exact_Z. Qed.
Print Assumptions C02_udiv_exact_Z.

(* FULL: the same in Z_M[x], for every modulus M > 0 (the loop answers whenever lc(q) is invertible) *)
Theorem C02_udiv_pseudo_ZM :
  forall (M : Z) (p q d r : seq Z), Z.lt 0 M -> pnorm q = q -> udiv_pseudo (Some M) p q = Some (d, r) ->
  peqM M (plc q ^+ (udeg p - udeg q).+1 *: Poly p) (Poly d * Poly q + Poly r) /\ (size (Poly r) < size (Poly q))%N.
Proof. exact udiv_pseudo_ZM. Qed.
Print Assumptions C02_udiv_pseudo_ZM.

Theorem C02_udiv_exact_ZM :
  forall (M : Z) (p q d r : seq Z), Z.lt 0 M -> pnorm q = q -> udiv_general (Some M) true p q = Some (d, r) ->
  peqM M (Poly p) (Poly d * Poly q + Poly r) /\ (size (Poly r) < size (Poly q))%N.
Proof. exact udiv_exact_ZM. Qed.
Print Assumptions C02_udiv_exact_ZM.

(* FULL: the entry point lp_upolynomial_div_rem_exact incl. its shortcut for deg p < deg q, any ring *)
Theorem C02_udiv_rem_exact :
  forall K, Kok K -> forall p q d r : seq Z, pnorm q = q -> udiv_rem_exact K p q = Some (d, r) ->
  peqM (modK K) (Poly p) (Poly d * Poly q + Poly r) /\ (size (Poly r) < size (Poly q))%N.
Proof. exact udiv_rem_exact_spec. Qed.
Print Assumptions C02_udiv_rem_exact.

(* ================================================================== 5. divisibility *)
(* FULL (the REPAIRED lp_upolynomial_divides over Z): for canonical operands, divisor non-zero, the predicate
   answers true EXACTLY when a quotient exists in Z[x].  (On the pinned code this is refuted below.) *)
Theorem C02_udivides_Z_iff :
  forall p q : seq Z, pnorm p = p -> pnorm q = q -> p <> nil ->
  (udivides None false p q = Some true <-> exists d : {poly Z}, Poly q = d * Poly p).
Proof. exact udivides_Z_iff. Qed.
Print Assumptions C02_udivides_Z_iff.

(* the repaired multivariate coefficient_divides has no theorem yet; the statement it should satisfy: *)
Definition C02_divides_iff_full_statement : Prop :=
  forall lcmf fuel C1 C2 b, m_divides lcmf fuel C1 C2 = Some b ->
  (b = true <-> exists Q, forall rho, mp_eval rho C2 = (mp_eval rho Q * mp_eval rho C1)%Z).


(* FULL (the field argument behind the case kind `pdivides`, Division.v Part III): in D[x] over an integral domain D
   (for lp_polynomial_divides in a Z_p context: D = F_p[all variables but the main variable of A]) a dividend
   B = A*Q + R with R of lower degree than A is a multiple of A EXACTLY when R = 0.  `pdivides_expected` is this
   decision on the reference representation (R reduced mod p is zero / has lower degree in A's main variable);
   that the reference representation denotes elements of D[x] is C01's canonical-form theory, not restated here. *)
Theorem C02_pdivides_decision :
  forall (D : idomainType) (A Q R : {poly D}), (size R < size A)%N ->
  ((exists S : {poly D}, A * Q + R = S * A) <-> R = 0).
Proof.
move=> D A Q R ltRA; split=> [[S eqS]|->]; last by exists Q; rewrite addr0 mulrC.
have eR : R = (S - Q) * A by rewrite mulrBl -eqS [Q * A]mulrC addrC addKr.
have [/eqP SQ0|SQn0] := boolP (S - Q == 0); first by rewrite eR SQ0 mul0r.
have An0 : A != 0 by apply: contraTneq ltRA => ->; rewrite size_poly0.
move: ltRA; rewrite eR size_mul // -subn1 -addnBA ?size_poly_gt0 // ltnNge.
have: (0 < size (S - Q)%R)%N by rewrite size_poly_gt0.
have: (0 < size A)%N by rewrite size_poly_gt0.
by case: (size A) => // n _; case: (size (S - Q)%R) => // m _; rewrite subn1 /= addSn ltnS leq_addl.
Qed.
Print Assumptions C02_pdivides_decision.
