(* L3 model: src/interval/arithmetic.c (+ the parts of interval.c and utils/sign_condition.c it uses)
   - property C15.  Executable Gallina, stdlib only, no proofs in this file.

   Conventions
   - lp_rational_interval_t / lp_dyadic_interval_t -> itv T  (T = rat / dyadic of Scalar.v).  The two
     families of C functions are textual copies of each other, so they are modelled ONCE, generically
     over the record `sops` of scalar operations, and instantiated twice (ri_xxx and di_xxx).
   - a point interval has is_point = 1 and its `b` field is not constructed.  The model keeps the field
     and writes the scalar 0 into it wherever the C code destructs or (re)constructs it, so that a
     well-formed point interval has ib = 0 and two equal intervals are equal records.
   - functions that write the output operand field by field take the PREVIOUS contents of the output
     (`P`/`S`/`N`) and an aliasing pattern, and re-read the inputs through irdA/irdB after every write,
     exactly where the C code reads them (as in Scalar.v).  Branches that compute into a local
     `result` and swap it into the output do not depend on the output, as in the C code.
   - lp_interval_t (value-level) -> vitv = itv value with value = -inf | integer | dyadic | rational |
     +inf | none.  ALGEBRAIC end points are NOT modelled (they need the algebraic-number layer).
   - this file describes the REPAIRED code (the patches under fixes/); the pinned versions of the repaired
     functions and the refutations of the property on them are in History_C15.v.                   *)
From Coq Require Import ZArith List Bool.
From LP Require Import Scalar.
Import ListNotations.
Local Open Scope Z_scope.

(* ------------------------------------------------------------------ scalar operations *)

Record sops (T : Type) := mkSops {
  s_zero : T;                 (* *_construct / *_assign_int(., 0, 1) *)
  s_one  : T;                 (* *_assign_int(., 1, ..) as repaired: the number 1 *)
  s_add  : T -> T -> T;
  s_neg  : T -> T;
  s_mul  : T -> T -> T;
  s_pow  : T -> N -> T;
  s_cmp  : T -> T -> Z;
  s_sgn  : T -> Z
}.
Arguments s_zero {T}. Arguments s_one {T}. Arguments s_add {T}. Arguments s_neg {T}.
Arguments s_mul {T}. Arguments s_pow {T}. Arguments s_cmp {T}. Arguments s_sgn {T}.

Record itv (T : Type) := mkI { ia : T; ib : T; ia_open : bool; ib_open : bool; ipt : bool }.
Arguments mkI {T}. Arguments ia {T}. Arguments ib {T}. Arguments ia_open {T}. Arguments ib_open {T}.
Arguments ipt {T}.

Section Generic.
Context {T : Type} (O : sops T).

Definition iset_a (I : itv T) (x : T) := mkI x (ib I) (ia_open I) (ib_open I) (ipt I).
Definition iset_b (I : itv T) (x : T) := mkI (ia I) x (ia_open I) (ib_open I) (ipt I).
Definition iset_ao (I : itv T) (o : bool) := mkI (ia I) (ib I) o (ib_open I) (ipt I).
Definition iset_bo (I : itv T) (o : bool) := mkI (ia I) (ib I) (ia_open I) o (ipt I).
Definition iset_pt (I : itv T) (p : bool) := mkI (ia I) (ib I) (ia_open I) (ib_open I) p.

(* aliasing of the output operand with the first / second input *)
Definition irdA (al : alias) (dst a : itv T) := match al with AliasA | AliasAB => dst | _ => a end.
Definition irdB (al : alias) (dst b : itv T) := match al with AliasB | AliasAB => dst | _ => b end.
Definition swap_alias (al : alias) := match al with AliasA => AliasB | AliasB => AliasA | x => x end.

(* *_interval_endpoint_lt: the order of LOWER end points (closed before open) *)
Definition endpoint_lt (a : T) (a_open : bool) (b : T) (b_open : bool) : bool :=
  let cmp := s_cmp O a b in
  if cmp =? 0 then negb a_open && b_open else cmp <? 0.

(* constructors (interval.c) *)
Definition gi_point (a : T) : itv T := mkI a (s_zero O) false false true.
Definition gi_construct (a : T) (a_open : bool) (b : T) (b_open : bool) : option (itv T) :=
  let cmp := s_cmp O a b in
  if 0 <? cmp then None                                   (* assert(cmp <= 0) *)
  else if negb (cmp =? 0) then Some (mkI a b a_open b_open false)
  else if a_open || b_open then None                      (* assert(!a_open && !b_open) *)
  else Some (gi_point a).

(* lp_rational_interval_sgn / lp_dyadic_interval_sgn *)
Definition gi_sgn (I : itv T) : Z :=
  let a_sgn := s_sgn O (ia I) in
  if ipt I then a_sgn else
  let b_sgn := s_sgn O (ib I) in
  if (a_sgn <? 0) && (0 <? b_sgn) then 0
  else if a_sgn =? 0 then (if negb (ia_open I) then 0 else 1)
  else if b_sgn =? 0 then (if negb (ib_open I) then 0 else -1)
  else if a_sgn <? 0 then -1
  else 1.

(* lp_*_interval_contains_zero *)
Definition gi_contains_zero (I : itv T) : bool :=
  let sgn_a := s_sgn O (ia I) in
  if ipt I then sgn_a =? 0
  else if ia_open I && (0 <=? sgn_a) then false
  else if negb (ia_open I) && (0 <? sgn_a) then false
  else
    let sgn_b := s_sgn O (ib I) in
    if ib_open I && (sgn_b <=? 0) then false
    else if negb (ib_open I) && (sgn_b <? 0) then false
    else true.

(* lp_rational_interval_contains_rational / lp_dyadic_interval_contains_dyadic_rational *)
Definition gi_contains (I : itv T) (q : T) : bool :=
  let cmp_a_q := s_cmp O (ia I) q in
  if ipt I then cmp_a_q =? 0
  else if ia_open I && (0 <=? cmp_a_q) then false
  else if negb (ia_open I) && (0 <? cmp_a_q) then false
  else
    let cmp_q_b := s_cmp O q (ib I) in
    if ib_open I && (0 <=? cmp_q_b) then false
    else if negb (ib_open I) && (0 <? cmp_q_b) then false
    else true.

(* ---- add *)
(* called with (I1, I2 both points) or (I2 not a point) *)
Definition gi_add_core (al : alias) (S I1 I2 : itv T) : itv T :=
  let r1 := irdA al S I1 in
  let r2 := irdB al S I2 in
  if ipt r1 && ipt r2 then
    let S1 := if negb (ipt S) then iset_b S (s_zero O) else S in             (* destruct(&S->b) *)
    let S2 := iset_a S1 (s_add O (ia (irdA al S1 I1)) (ia (irdB al S1 I2))) in
    let S3 := iset_ao (iset_bo S2 false) false in
    iset_pt S3 true
  else if ipt r1 then
    (* shift the copy of I2 by I1->a; swapped into S afterwards *)
    let res0 := r2 in
    let res1 := iset_a res0 (s_add O (ia res0) (ia r1)) in
    iset_b res1 (s_add O (ib res1) (ia r1))
  else
    mkI (s_add O (ia r1) (ia r2)) (s_add O (ib r1) (ib r2))
        (ia_open r1 || ia_open r2) (ib_open r1 || ib_open r2) false.

Definition gi_add (al : alias) (S I1 I2 : itv T) : itv T :=
  let r1 := irdA al S I1 in
  let r2 := irdB al S I2 in
  if ipt r1 && ipt r2 then gi_add_core al S I1 I2
  else if ipt r2 then gi_add_core (swap_alias al) S I2 I1            (* "reuse symmetry" *)
  else gi_add_core al S I1 I2.

(* ---- neg: written in place, "doing swap in case I and N are the same" *)
Definition gi_neg (al : alias) (N I : itv T) : itv T :=
  if ipt (irdA al N I) then
    let N1 := if negb (ipt N) then iset_b N (s_zero O) else N in
    let N2 := iset_a N1 (s_neg O (ia (irdA al N1 I))) in
    iset_pt (iset_ao (iset_bo N2 false) false) true
  else
    let N1 := if ipt N then iset_pt (iset_b N (s_zero O)) false else N in     (* construct(&N->b) *)
    let N2 := iset_a N1 (s_neg O (ia (irdA al N1 I))) in
    let N3 := iset_b N2 (s_neg O (ib (irdA al N2 I))) in
    let N4 := iset_ao N3 (ia_open (irdA al N3 I)) in
    let N5 := iset_bo N4 (ib_open (irdA al N4 I)) in
    mkI (ib N5) (ia N5) (ib_open N5) (ia_open N5) (ipt N5).

(* ---- sub: neg of a local copy of I2, then add *)
Definition gi_sub (al : alias) (S I1 I2 : itv T) : itv T :=
  let neg0 := irdB al S I2 in
  let neg := gi_neg AliasA neg0 neg0 in
  gi_add (match al with AliasA | AliasAB => AliasA | _ => NoAlias end) S I1 neg.

(* ---- mul *)
(* one corner product `tmp` against the running result (a, a_open, b, b_open).  As repaired: the
   UPPER end point is compared with the flags negated, which turns the lower-end order of
   endpoint_lt (closed < open) into the upper-end order (open < closed). *)
Definition corner_step (st : T * bool * T * bool) (tmp : T) (tmp_open : bool) : T * bool * T * bool :=
  let '(ra, rao, rb, rbo) := st in
  if endpoint_lt tmp tmp_open ra rao then (tmp, tmp_open, rb, rbo)
  else if endpoint_lt rb (negb rbo) tmp (negb tmp_open) then (ra, rao, tmp, tmp_open)
  else st.

(* "if an endpoint is 0, it must have come from another zero endpoint. If that endpoint is closed,
   then the resulting endpoint must be closed too" (as repaired: copied from lp_interval_mul) *)
Definition closed_zero_end (I1 I2 : itv T) : bool :=
  let c1_a := (s_sgn O (ia I1) =? 0) && negb (ia_open I1) in
  let c1_b := (s_sgn O (ib I1) =? 0) && negb (ib_open I1) in
  let c2_a := (s_sgn O (ia I2) =? 0) && negb (ia_open I2) in
  let c2_b := (s_sgn O (ib I2) =? 0) && negb (ib_open I2) in
  c1_a || c1_b || c2_a || c2_b.

(* called with (I1 a point) or (neither a point) *)
Definition gi_mul_core (al : alias) (P I1 I2 : itv T) : itv T :=
  let r1 := irdA al P I1 in
  let r2 := irdB al P I2 in
  if ipt r1 then
    if ipt r2 then
      let P1 := iset_a P (s_mul O (ia r1) (ia r2)) in
      let P2 := if negb (ipt P1) then iset_pt (iset_b P1 (s_zero O)) true else P1 in
      iset_bo (iset_ao P2 false) false
    else
      let a_sgn := s_sgn O (ia r1) in
      if a_sgn =? 0 then
        let P1 := if negb (ipt P) then iset_pt (iset_b P (s_zero O)) true else P in
        let P2 := iset_bo (iset_ao P1 false) false in
        iset_a P2 (s_zero O)
      else if 0 <? a_sgn then
        mkI (s_mul O (ia r1) (ia r2)) (s_mul O (ia r1) (ib r2)) (ia_open r2) (ib_open r2) false
      else
        (* as repaired for the rational version: the strictness flags are exchanged too *)
        mkI (s_mul O (ia r1) (ib r2)) (s_mul O (ia r1) (ia r2)) (ib_open r2) (ia_open r2) false
  else
    let c1 := s_mul O (ia r1) (ia r2) in
    let o1 := ia_open r1 || ia_open r2 in
    let st0 := (c1, o1, c1, o1) in
    let st1 := corner_step st0 (s_mul O (ia r1) (ib r2)) (ia_open r1 || ib_open r2) in
    let st2 := corner_step st1 (s_mul O (ib r1) (ia r2)) (ib_open r1 || ia_open r2) in
    let st3 := corner_step st2 (s_mul O (ib r1) (ib r2)) (ib_open r1 || ib_open r2) in
    let '(ra, rao, rb, rbo) := st3 in
    let cz := closed_zero_end r1 r2 in
    let rao' := if (s_sgn O ra =? 0) && cz then false else rao in
    let rbo' := if (s_sgn O rb =? 0) && cz then false else rbo in
    mkI ra rb rao' rbo' false.

Definition gi_mul (al : alias) (P I1 I2 : itv T) : itv T :=
  let r1 := irdA al P I1 in
  let r2 := irdB al P I2 in
  if ipt r1 then gi_mul_core al P I1 I2
  else if ipt r2 then gi_mul_core (swap_alias al) P I2 I1
  else gi_mul_core al P I1 I2.

(* ---- pow: written in place *)
Definition gi_pow (al : alias) (P I : itv T) (n : N) : itv T :=
  if (n =? 0)%N then
    let P1 := if negb (ipt P) then iset_b (iset_pt P true) (s_zero O) else P in
    let P2 := iset_a P1 (s_one O) in
    iset_bo (iset_ao P2 false) false
  else if ipt (irdA al P I) then
    let P1 := if negb (ipt P) then iset_bo (iset_ao (iset_pt (iset_b P (s_zero O)) true) false) false else P in
    iset_a P1 (s_pow O (ia (irdA al P1 I)) n)
  else
    let P1 := if ipt P then iset_b (iset_pt P false) (s_zero O) else P in
    if N.odd n then
      let P2 := iset_ao P1 (ia_open (irdA al P1 I)) in
      let P3 := iset_bo P2 (ib_open (irdA al P2 I)) in
      let P4 := iset_a P3 (s_pow O (ia (irdA al P3 I)) n) in
      iset_b P4 (s_pow O (ib (irdA al P4 I)) n)
    else
      let sgn := gi_sgn (irdA al P1 I) in
      let P2 := iset_a P1 (s_pow O (ia (irdA al P1 I)) n) in
      let P3 := iset_b P2 (s_pow O (ib (irdA al P2 I)) n) in
      if sgn =? 0 then
        (* as repaired: upper-end order = endpoint_lt with the flags negated *)
        let P5 :=
          if endpoint_lt (ib P3) (negb (ib_open (irdA al P3 I))) (ia P3) (negb (ia_open (irdA al P3 I))) then
            let P4 := mkI (ib P3) (ia P3) (ia_open P3) (ib_open P3) (ipt P3) in     (* swap(&P->b, &P->a) *)
            iset_bo P4 (ia_open (irdA al P4 I))
          else
            iset_bo P3 (ib_open (irdA al P3 I)) in
        iset_ao (iset_a P5 (s_zero O)) false
      else if 0 <? sgn then
        let P4 := iset_ao P3 (ia_open (irdA al P3 I)) in
        iset_bo P4 (ib_open (irdA al P4 I))
      else
        let P4 := mkI (ib P3) (ia P3) (ia_open P3) (ib_open P3) (ipt P3) in
        (* as repaired: I->a_open is read before P->a_open is written (P may be I) *)
        let a_open := ia_open (irdA al P4 I) in
        let P5 := iset_ao P4 (ib_open (irdA al P4 I)) in
        iset_bo P5 a_open.

End Generic.

(* ------------------------------------------------------------------ interval.c: set operations and updates
   (the dyadic versions; the value-level set_a / set_b / collapse_to have the same shape, see below) *)
Section GenericSets.
Context {T : Type} (O : sops T).

(* lp_dyadic_interval_construct_intersection; None = an assertion of the C code fails (disjoint operands) *)
Definition gi_intersection (I1 I2 : itv T) : option (itv T) :=
  if ipt I1 then (if gi_contains O I2 (ia I1) then Some I1 else None)
  else if ipt I2 then (if gi_contains O I1 (ia I2) then Some I2 else None)
  else
    let cmp_a := s_cmp O (ia I1) (ia I2) in
    let max_a := if cmp_a <? 0 then ia I2 else ia I1 in
    let a_open := if cmp_a =? 0 then ia_open I1 || ia_open I2
                  else if cmp_a <? 0 then ia_open I2 else ia_open I1 in
    let cmp_b := s_cmp O (ib I1) (ib I2) in
    let min_b := if cmp_b <? 0 then ib I1 else ib I2 in
    let b_open := if cmp_b =? 0 then ib_open I1 || ib_open I2
                  else if cmp_b <? 0 then ib_open I1 else ib_open I2 in
    gi_construct O max_a a_open min_b b_open.

(* lp_dyadic_interval_disjoint *)
Definition gi_disjoint (I1 I2 : itv T) : bool :=
  if ipt I1 then negb (gi_contains O I2 (ia I1))
  else if ipt I2 then negb (gi_contains O I1 (ia I2))
  else
    let cmp1 := s_cmp O (ib I1) (ia I2) in
    if cmp1 <? 0 then true
    else if (cmp1 =? 0) && (ib_open I1 || ia_open I2) then true
    else
      let cmp2 := s_cmp O (ib I2) (ia I1) in
      if cmp2 <? 0 then true
      else if (cmp2 =? 0) && (ib_open I2 || ia_open I1) then true
      else false.

(* lp_dyadic_interval_equals *)
Definition gi_equals (I1 I2 : itv T) : bool :=
  if ipt I1 && negb (ipt I2) then false
  else if negb (ipt I1) && ipt I2 then false
  else
    let cmp_a := s_cmp O (ia I1) (ia I2) in
    if ipt I1 then cmp_a =? 0
    else if negb (cmp_a =? 0) || negb (Bool.eqb (ia_open I1) (ia_open I2)) then false
    else
      let cmp_b := s_cmp O (ib I1) (ib I2) in
      if negb (cmp_b =? 0) || negb (Bool.eqb (ib_open I1) (ib_open I2)) then false else true.

(* lp_dyadic_interval_cmp_integer / _cmp_dyadic_rational / _cmp_rational: cmpf e = cmp(e, the number) *)
Definition gi_cmp_elem (cmpf : T -> Z) (I : itv T) : Z :=
  if ipt I then cmpf (ia I)
  else
    let cmp_lower := cmpf (ia I) in
    if 0 <? cmp_lower then 1
    else if cmp_lower =? 0 then (if ia_open I then 1 else 0)
    else
      let cmp_upper := cmpf (ib I) in
      if cmp_upper <? 0 then -1
      else if cmp_upper =? 0 then (if ib_open I then -1 else 0)
      else 0.

(* lp_dyadic_interval_collapse_to *)
Definition gi_collapse_to (I : itv T) (q : T) : itv T :=
  let I1 := iset_a I q in
  let I2 := if negb (ipt I1) then iset_b I1 (s_zero O) else I1 in
  iset_pt (iset_bo (iset_ao I2 false) false) true.

(* lp_dyadic_interval_set_a / _set_b; None = assertion *)
Definition gi_set_a (I : itv T) (a : T) (a_open : bool) : option (itv T) :=
  if ipt I then
    let cmp := s_cmp O a (ia I) in
    if 0 <? cmp then None
    else if cmp <? 0 then Some (mkI a (ia I) a_open false false)
    else Some I
  else
    let cmp := s_cmp O a (ib I) in
    if 0 <? cmp then None
    else if negb (cmp =? 0) then Some (iset_ao (iset_a I a) a_open)
    else if a_open || ib_open I then None
    else Some (gi_collapse_to I a).
Definition gi_set_b (I : itv T) (b : T) (b_open : bool) : option (itv T) :=
  let cmp := s_cmp O (ia I) b in
  if 0 <? cmp then None
  else if negb (cmp =? 0) then
    let I1 := if ipt I then iset_pt (iset_b I b) false else iset_b I b in
    Some (iset_bo I1 b_open)
  else if ia_open I || b_open then None
  else Some (gi_collapse_to I b).

(* lp_*_interval_assign (I != from) *)
Definition gi_assign (I from : itv T) : itv T :=
  if ipt I then
    if ipt from then iset_a I (ia from)
    else mkI (ia from) (ib from) (ia_open from) (ib_open from) false
  else
    if ipt from then iset_pt (iset_bo (iset_ao (iset_b (iset_a I (ia from)) (s_zero O)) false) false) true
    else mkI (ia from) (ib from) (ia_open from) (ib_open from) false.
End GenericSets.

(* ------------------------------------------------------------------ the two instances *)

Definition dy0 : dyadic := mkDy 0 0.
Definition rat_ops : sops rat :=
  mkSops rat (0, 1) (1, 1) q_add q_neg q_mul q_pow q_cmp q_sgn.
(* scalar outputs are fresh, pre-used or aliased in the C code; by C17_dy_*_dst_independent all of
   these compute the same function, so the model calls the scalar layer with a fresh output *)
Definition dy_ops : sops dyadic :=
  mkSops dyadic (dy_from_int 0 1) (dy_from_int 1 0)
         (dy_add NoAlias dy0) (dy_neg NoAlias dy0) (dy_mul NoAlias dy0)
         (fun a n => dy_pow NoAlias dy0 a n) dy_cmp dy_sgn.

Definition ritv := itv rat.
Definition ditv := itv dyadic.

Definition ri_construct := gi_construct rat_ops.
Definition ri_sgn := gi_sgn rat_ops.
Definition ri_contains_zero := gi_contains_zero rat_ops.
Definition ri_contains := gi_contains rat_ops.
Definition ri_add := gi_add rat_ops.
Definition ri_neg := gi_neg rat_ops.
Definition ri_sub := gi_sub rat_ops.
Definition ri_mul := gi_mul rat_ops.
Definition ri_pow := gi_pow rat_ops.

Definition di_construct := gi_construct dy_ops.
Definition di_sgn := gi_sgn dy_ops.
Definition di_contains_zero := gi_contains_zero dy_ops.
Definition di_contains := gi_contains dy_ops.
Definition di_add := gi_add dy_ops.
Definition di_neg := gi_neg dy_ops.
Definition di_sub := gi_sub dy_ops.
Definition di_mul := gi_mul dy_ops.
Definition di_pow := gi_pow dy_ops.

(* ---- dyadic intervals: the rest of dyadic_interval.h *)
Definition di_intersection := gi_intersection dy_ops.
Definition di_disjoint := gi_disjoint dy_ops.
Definition di_equals := gi_equals dy_ops.
Definition di_cmp_integer (I : ditv) (z : Z) : Z := gi_cmp_elem (fun e => dy_cmp_integer e z) I.
Definition di_cmp_dyadic (I : ditv) (q : dyadic) : Z := gi_cmp_elem (fun e => dy_cmp e q) I.
Definition di_cmp_rational (I : ditv) (q : rat) : Z := gi_cmp_elem (fun e => - q_cmp_dyadic q e) I.
Definition di_collapse_to := gi_collapse_to dy_ops.
Definition di_set_a := gi_set_a dy_ops.
Definition di_set_b := gi_set_b dy_ops.
Definition di_assign := gi_assign dy_ops.
Definition ri_assign := gi_assign rat_ops.

(* lp_dyadic_interval_construct_from_split: None = I is a point (assertion) *)
Definition di_from_split (I : ditv) (left_open right_open : bool) : option (ditv * ditv) :=
  if ipt I then None else
  let m0 := dy_add NoAlias dy0 (ia I) (ib I) in
  let m := dy_div_2exp AliasA m0 m0 1 in
  match di_construct (ia I) (ia_open I) m left_open, di_construct m right_open (ib I) (ib_open I) with
  | Some l, Some r => Some (l, r)
  | _, _ => None
  end.

(* lp_dyadic_interval_scale (in place); None = I is a point (assertion) *)
Definition di_scale (I : ditv) (n : Z) : option ditv :=
  if ipt I then None
  else if 0 <? n then
    let k := Z.to_N n in
    Some (iset_b (iset_a I (dy_mul_2exp AliasA (ia I) (ia I) k)) (dy_mul_2exp AliasA (ib I) (ib I) k))
  else
    let k := Z.to_N (- n) in
    Some (iset_b (iset_a I (dy_div_2exp AliasA (ia I) (ia I) k)) (dy_div_2exp AliasA (ib I) (ib I) k)).

(* dyadic_rational_get_distance_size / lp_dyadic_interval_size; None = point (INT_MIN) *)
Definition dy_distance_size (lower upper : dyadic) : Z :=
  if (dn lower =? dn upper)%N then z_bits (da upper - da lower) - Z.of_N (dn lower)
  else if (dn upper <? dn lower)%N then
    z_bits (da upper * pow2 (dn lower - dn upper) - da lower) - Z.of_N (dn lower)
  else
    z_bits (da upper - da lower * pow2 (dn upper - dn lower)) - Z.of_N (dn upper).
Definition di_size (I : ditv) : option Z := if ipt I then None else Some (dy_distance_size (ia I) (ib I)).

(* lp_dyadic_interval_construct_from_integer / lp_rational_interval_construct_from_integer *)
Definition di_from_integer (a : Z) (a_open : bool) (b : Z) (b_open : bool) : option ditv :=
  if b <? a then None
  else if negb (a =? b) then Some (mkI (dy_from_integer a) (dy_from_integer b) a_open b_open false)
  else if a_open || b_open then None
  else Some (gi_point dy_ops (dy_from_integer a)).
Definition ri_from_integer (a : Z) (a_open : bool) (b : Z) (b_open : bool) : option ritv :=
  if b <? a then None
  else if negb (a =? b) then Some (mkI (q_from_integer a) (q_from_integer b) a_open b_open false)
  else if a_open || b_open then None
  else Some (gi_point rat_ops (q_from_integer a)).

(* lp_rational_interval_construct_from_dyadic / _from_dyadic_interval *)
Definition ri_from_dyadic (a : dyadic) (a_open : bool) (b : dyadic) (b_open : bool) : option ritv :=
  let cmp := dy_cmp a b in
  if 0 <? cmp then None
  else if negb (cmp =? 0) then Some (mkI (q_from_dyadic a) (q_from_dyadic b) a_open b_open false)
  else if a_open || b_open then None
  else Some (gi_point rat_ops (q_from_dyadic a)).
Definition ri_from_dyadic_interval (from : ditv) : ritv :=
  mkI (q_from_dyadic (ia from)) (if ipt from then (0, 1) else q_from_dyadic (ib from))
      (ia_open from) (ib_open from) (ipt from).

(* ------------------------------------------------------------------ value level (lp_interval_t) *)

Inductive value := VNone | VMinf | VInt (z : Z) | VDy (d : dyadic) | VRat (q : rat) | VPinf.

Definition vitv := itv value.

(* lp_value_sgn *)
Definition value_sgn (v : value) : Z :=
  match v with
  | VNone => 0 | VPinf => 1 | VMinf => -1
  | VInt z => Z.sgn z | VRat q => q_sgn q | VDy d => dy_sgn d
  end.

(* rank of the type tag: LP_VALUE_INTEGER < DYADIC_RATIONAL < RATIONAL *)
Definition value_rank (v : value) : Z :=
  match v with VNone => 0 | VInt _ => 1 | VDy _ => 2 | VRat _ => 3 | VPinf => 5 | VMinf => 6 end.

(* lp_value_cmp *)
Definition value_cmp_ord (v1 v2 : value) : Z :=      (* v1's tag above v2's: the final switch *)
  match v1, v2 with
  | VDy d, VInt z => dy_cmp_integer d z
  | VRat q, VInt z => q_cmp_integer q z
  | VRat q, VDy d => q_cmp_dyadic q d
  | _, _ => 0
  end.
Definition value_cmp (v1 v2 : value) : Z :=
  match v1, v2 with
  | VNone, VNone | VPinf, VPinf | VMinf, VMinf => 0
  | VInt a, VInt b => cmp_to_Z (a ?= b)
  | VRat a, VRat b => q_cmp a b
  | VDy a, VDy b => dy_cmp a b
  | VMinf, _ => -1
  | _, VMinf => 1
  | VPinf, _ => 1
  | _, VPinf => -1
  | _, _ => if value_rank v1 <? value_rank v2 then - value_cmp_ord v2 v1 else value_cmp_ord v1 v2
  end.

(* lp_interval_endpoint_lt *)
Definition v_endpoint_lt (a : value) (a_open : bool) (b : value) (b_open : bool) : bool :=
  let cmp := value_cmp a b in
  if cmp =? 0 then negb a_open && b_open else cmp <? 0.

(* lp_value_to_same_type restricted to integer / dyadic / rational; None = "cast failed" *)
Definition value_to_same_type (v1 v2 : value) : option (value * value) :=
  match v1, v2 with
  | VInt a, VInt _ | VDy a, VDy _ | VRat a, VRat _ => Some (v1, v2)
  | VNone, VNone | VPinf, VPinf | VMinf, VMinf => Some (v1, v2)
  | VInt z, VDy _ => Some (VDy (dy_from_integer z), v2)
  | VInt z, VRat _ => Some (VRat (q_from_integer z), v2)
  | VDy _, VInt z => Some (v1, VDy (dy_from_integer z))
  | VDy d, VRat _ => Some (VRat (q_from_dyadic d), v2)
  | VRat _, VInt z => Some (v1, VRat (q_from_integer z))
  | VRat _, VDy d => Some (v1, VRat (q_from_dyadic d))
  | _, _ => None
  end.

(* lp_value_add_approx on non-algebraic values: the common value written to lb and/or ub; the
   returned is_point is 1 except for the undefined sum (value NONE, returns 0) *)
Definition value_add_same (v1 v2 : value) : value * bool :=
  match v1, v2 with
  | VMinf, VMinf => (VMinf, true)
  | VPinf, VPinf => (VPinf, true)
  | VInt a, VInt b => (VInt (int_add None a b), true)
  | VRat a, VRat b => (VRat (q_add a b), true)
  | VDy a, VDy b => (VDy (dy_add NoAlias dy0 a b), true)
  | _, _ => (VNone, true)
  end.
Definition value_add_approx (v1 v2 : value) : value * bool :=
  match value_to_same_type v1 v2 with
  | Some (w1, w2) => value_add_same w1 w2
  | None =>
    (* the four infinity tests, in the order of the C code; a later test overwrites an earlier result *)
    let '(r, u) := (VNone, false) in
    let '(r, u) := match v1 with VMinf => (match v2 with VPinf => (r, true) | _ => (VMinf, u) end) | _ => (r, u) end in
    let '(r, u) := match v1 with VPinf => (match v2 with VMinf => (r, true) | _ => (VPinf, u) end) | _ => (r, u) end in
    let '(r, u) := match v2 with VMinf => (match v1 with VPinf => (r, true) | _ => (VMinf, u) end) | _ => (r, u) end in
    let '(r, u) := match v2 with VPinf => (match v1 with VMinf => (r, true) | _ => (VPinf, u) end) | _ => (r, u) end in
    match r with
    | VNone => (VNone, false)            (* undefined (inf - inf); NONE operands are outside the domain *)
    | _ => (r, true)
    end
  end.

(* lp_interval_add *)
Definition vi_add (I1 I2 : vitv) : vitv :=
  if ipt I1 && ipt I2 then
    let '(v, is_point) := value_add_approx (ia I1) (ia I2) in
    if is_point then mkI v VNone false false true
    else mkI v v true true false
  else
    let I1_b := if ipt I1 then ia I1 else ib I1 in
    let I2_b := if ipt I2 then ia I2 else ib I2 in
    let '(ra, a_point) := value_add_approx (ia I1) (ia I2) in
    let '(rb, b_point) := value_add_approx I1_b I2_b in
    mkI ra rb (ia_open I1 || ia_open I2 || negb a_point) (ib_open I1 || ib_open I2 || negb b_point) false.

(* lp_value_mul_approx on non-algebraic values *)
Definition value_is_infinity (v : value) : bool := match v with VPinf | VMinf => true | _ => false end.
Definition value_mul_same (v1 v2 : value) : value :=
  match v1, v2 with
  | VMinf, VMinf | VPinf, VPinf => VPinf
  | VInt a, VInt b => VInt (int_mul None a b)
  | VRat a, VRat b => VRat (q_mul a b)
  | VDy a, VDy b => VDy (dy_mul NoAlias dy0 a b)
  | _, _ => VNone
  end.
Definition value_mul_approx (v1 v2 : value) : value :=
  match value_to_same_type v1 v2 with
  | Some (w1, w2) => value_mul_same w1 w2
  | None =>
    let v1_sgn := value_sgn v1 in
    let v2_sgn := value_sgn v2 in
    if (v1_sgn =? 0) || (v2_sgn =? 0) then VInt 0                    (* lp_value_assign_zero *)
    else if value_is_infinity v1 || value_is_infinity v2 then
      (if 0 <? v1_sgn * v2_sgn then VPinf else VMinf)
    else VNone                                                         (* algebraic: not modelled *)
  end.

Definition v_closed_zero_end (I1 I2 : vitv) : bool :=
  let c1_a := (value_sgn (ia I1) =? 0) && negb (ia_open I1) in
  let c1_b := (value_sgn (ib I1) =? 0) && negb (ib_open I1) in
  let c2_a := (value_sgn (ia I2) =? 0) && negb (ia_open I2) in
  let c2_b := (value_sgn (ib I2) =? 0) && negb (ib_open I2) in
  c1_a || c1_b || c2_a || c2_b.

(* lower and upper end are updated independently here (two `if`s); as repaired the upper comparison
   negates the flags *)
Definition v_corner_step (st : value * bool * value * bool) (tmp : value) (tmp_open : bool) :=
  let '(ra, rao, rb, rbo) := st in
  let '(ra1, rao1) := if v_endpoint_lt tmp tmp_open ra rao then (tmp, tmp_open) else (ra, rao) in
  let '(rb1, rbo1) := if v_endpoint_lt rb (negb rbo) tmp (negb tmp_open) then (tmp, tmp_open) else (rb, rbo) in
  (ra1, rao1, rb1, rbo1).

Definition vi_mul_core (I1 I2 : vitv) : vitv :=      (* I1 a point, or neither a point *)
  if ipt I1 then
    if ipt I2 then mkI (value_mul_approx (ia I1) (ia I2)) VNone false false true
    else
      let a_sgn := value_sgn (ia I1) in
      if a_sgn =? 0 then mkI (VInt 0) VNone false false true            (* lp_interval_construct_zero *)
      else if 0 <? a_sgn then
        mkI (value_mul_approx (ia I1) (ia I2)) (value_mul_approx (ia I1) (ib I2)) (ia_open I2) (ib_open I2) false
      else
        mkI (value_mul_approx (ia I1) (ib I2)) (value_mul_approx (ia I1) (ia I2)) (ib_open I2) (ia_open I2) false
  else
    let c1 := value_mul_approx (ia I1) (ia I2) in
    let o1 := ia_open I1 || ia_open I2 in
    let st0 := (c1, o1, c1, o1) in
    let st1 := v_corner_step st0 (value_mul_approx (ia I1) (ib I2)) (ia_open I1 || ib_open I2) in
    let st2 := v_corner_step st1 (value_mul_approx (ib I1) (ia I2)) (ib_open I1 || ia_open I2) in
    let st3 := v_corner_step st2 (value_mul_approx (ib I1) (ib I2)) (ib_open I1 || ib_open I2) in
    let '(ra, rao, rb, rbo) := st3 in
    let cz := v_closed_zero_end I1 I2 in
    let rao' := if (value_sgn ra =? 0) && cz then false else rao in
    let rbo' := if (value_sgn rb =? 0) && cz then false else rbo in
    mkI ra rb rao' rbo' false.

(* lp_interval_mul *)
Definition vi_mul (I1 I2 : vitv) : vitv :=
  if ipt I1 then vi_mul_core I1 I2
  else if ipt I2 then vi_mul_core I2 I1
  else vi_mul_core I1 I2.

(* lp_value_pow_approx, n > 0 *)
Definition value_pow_approx (v : value) (n : N) : value :=
  match v with
  | VInt z => VInt (int_pow None z n)
  | VRat q => VRat (q_pow q n)
  | VDy d => VDy (dy_pow NoAlias dy0 d n)
  | VMinf | VPinf =>
    let sgn := if N.odd n then value_sgn v else 1 in
    if 0 <? sgn then VPinf else VMinf
  | VNone => VNone
  end.

(* lp_interval_sgn *)
Definition vi_sgn (I : vitv) : Z :=
  let a_sgn := value_sgn (ia I) in
  if ipt I then a_sgn else
  let b_sgn := value_sgn (ib I) in
  if (a_sgn <? 0) && (0 <? b_sgn) then 0
  else if a_sgn =? 0 then (if negb (ia_open I) then 0 else 1)
  else if b_sgn =? 0 then (if negb (ib_open I) then 0 else -1)
  else if a_sgn <? 0 then -1
  else 1.

(* lp_interval_pow *)
Definition vi_pow (I : vitv) (n : N) : vitv :=
  if (n =? 0)%N then mkI (VInt 1) VNone false false true
  else if ipt I then mkI (value_pow_approx (ia I) n) VNone false false true
  else if N.odd n then
    mkI (value_pow_approx (ia I) n) (value_pow_approx (ib I) n) (ia_open I) (ib_open I) false
  else
    let sgn := vi_sgn I in
    if sgn =? 0 then
      let ra := value_pow_approx (ia I) n in
      let rb := value_pow_approx (ib I) n in
      (* as repaired: upper-end order *)
      if v_endpoint_lt rb (negb (ib_open I)) ra (negb (ia_open I))
      then mkI (VInt 0) ra false (ia_open I) false
      else mkI (VInt 0) rb false (ib_open I) false
    else if 0 <? sgn then
      mkI (value_pow_approx (ia I) n) (value_pow_approx (ib I) n) (ia_open I) (ib_open I) false
    else
      mkI (value_pow_approx (ib I) n) (value_pow_approx (ia I) n) (ib_open I) (ia_open I) false.

(* lp_interval_cmp_value / lp_interval_contains *)
Definition vi_cmp_value (I : vitv) (v : value) : Z :=
  let cmp_a_v := value_cmp (ia I) v in
  if ipt I then cmp_a_v
  else if ia_open I && (0 <=? cmp_a_v) then 1
  else if negb (ia_open I) && (0 <? cmp_a_v) then 1
  else
    let cmp_v_b := value_cmp v (ib I) in
    if ib_open I && (0 <=? cmp_v_b) then -1
    else if negb (ib_open I) && (0 <? cmp_v_b) then -1
    else 0.
Definition vi_contains (I : vitv) (v : value) : bool := vi_cmp_value I v =? 0.

(* lp_value_cmp_rational(v, q) *)
Definition value_cmp_rational (v : value) (q : rat) : Z :=
  match v with
  | VPinf => 1 | VMinf => -1
  | VInt z => - q_cmp_integer q z
  | VDy d => - q_cmp_dyadic q d
  | VRat r => q_cmp r q
  | VNone => 0
  end.
(* lp_rational_interval_contains_value *)
Definition ri_contains_value (I : ritv) (v : value) : bool :=
  let cmp_a_v := - value_cmp_rational v (ia I) in
  if ipt I then cmp_a_v =? 0
  else if ia_open I && (0 <=? cmp_a_v) then false
  else if negb (ia_open I) && (0 <? cmp_a_v) then false
  else
    let cmp_v_b := value_cmp_rational v (ib I) in
    if ib_open I && (0 <=? cmp_v_b) then false
    else if negb (ib_open I) && (0 <? cmp_v_b) then false
    else true.
(* lp_rational_interval_contains_integer / _dyadic_rational, as repaired (the pinned functions are `assert(0)`) *)
Definition ri_contains_integer (I : ritv) (z : Z) : bool := ri_contains I (q_from_integer z).
Definition ri_contains_dyadic (I : ritv) (d : dyadic) : bool := ri_contains I (q_from_dyadic d).

(* lp_interval_collapse_to / _set_a / _set_b (a point's b is VNone in the model) *)
Definition vi_collapse_to (I : vitv) (v : value) : vitv := mkI v VNone false false true.
Definition vi_set_a (I : vitv) (a : value) (a_open : bool) : option vitv :=
  if ipt I then
    let cmp := value_cmp a (ia I) in
    if 0 <? cmp then None
    else if cmp <? 0 then Some (mkI a (ia I) a_open false false)
    else Some I
  else
    let cmp := value_cmp a (ib I) in
    if 0 <? cmp then None
    else if negb (cmp =? 0) then Some (iset_ao (iset_a I a) a_open)
    else if a_open || ib_open I then None
    else Some (vi_collapse_to I a).
Definition vi_set_b (I : vitv) (b : value) (b_open : bool) : option vitv :=
  let cmp := value_cmp (ia I) b in
  if 0 <? cmp then None
  else if negb (cmp =? 0) then
    let I1 := if ipt I then iset_pt (iset_b I b) false else iset_b I b in
    Some (iset_bo I1 b_open)
  else if ia_open I || b_open then None
  else Some (vi_collapse_to I b).
(* lp_interval_is_full: looks at the types of a and b only (b of a point is not constructed: VNone here) *)
Definition vi_is_full (I : vitv) : bool :=
  match ia I, ib I with VMinf, VPinf => true | _, _ => false end.
(* lp_interval_size_approx on non-algebraic end points: None = point (INT_MIN), Some None = INT_MAX *)
Definition value_to_rat (v : value) : option rat :=
  match v with VInt z => Some (q_from_integer z) | VDy d => Some (q_from_dyadic d) | VRat q => Some q | _ => None end.
Definition vi_size_approx (I : vitv) : option (option Z) :=
  if ipt I then None
  else match ia I, ib I with
       | VMinf, _ => Some None
       | _, VPinf => Some None
       | a, b =>
         match value_to_rat a, value_to_rat b with
         | Some l, Some u => let m := q_sub u l in Some (Some (z_bits (fst m) - z_bits (snd m) + 1))
         | _, _ => Some None
         end
       end.

(* ------------------------------------------------------------------ utils/sign_condition.c *)

Inductive sign_condition := SGN_LT_0 | SGN_LE_0 | SGN_EQ_0 | SGN_NE_0 | SGN_GT_0 | SGN_GE_0.

Definition sc_consistent (c : sign_condition) (sign : Z) : bool :=
  match c with
  | SGN_LT_0 => sign <? 0
  | SGN_LE_0 => sign <=? 0
  | SGN_EQ_0 => sign =? 0
  | SGN_NE_0 => negb (sign =? 0)
  | SGN_GT_0 => 0 <? sign
  | SGN_GE_0 => 0 <=? sign
  end.

Definition sc_consistent_interval (c : sign_condition) (I : vitv) : bool :=
  if ipt I then sc_consistent c (value_sgn (ia I))
  else
    match c with
    | SGN_LT_0 => let sgn := value_sgn (ib I) in (sgn <? 0) || ((sgn =? 0) && ib_open I)
    | SGN_LE_0 => let sgn := value_sgn (ib I) in sgn <=? 0
    | SGN_EQ_0 => false
    | SGN_NE_0 =>
      let sgn := value_sgn (ib I) in
      if (sgn <? 0) || ((sgn =? 0) && ib_open I) then true
      else
        let sgn := value_sgn (ia I) in
        if (0 <? sgn) || ((sgn =? 0) && ia_open I) then true else false
    | SGN_GT_0 => let sgn := value_sgn (ia I) in (0 <? sgn) || ((sgn =? 0) && ia_open I)
    | SGN_GE_0 => let sgn := value_sgn (ia I) in 0 <=? sgn
    end.

(* ------------------------------------------------------------------ polynomial/coefficient.c *)

(* coefficient_t: numeric leaf, or polynomial in variable x with coefficient list (constant first) *)
Inductive coef := CNum (z : Z) | CRec (x : nat) (cs : list coef).

Definition coef_is_zero (c : coef) : bool := match c with CNum z => z =? 0 | _ => false end.

(* coefficient_interval_value: result += value(coeff_i) * x^i, skipping zero coefficients *)
Fixpoint coef_interval_value (m : nat -> vitv) (c : coef) : vitv :=
  match c with
  | CNum z => mkI (VInt z) VNone false false true
  | CRec x cs =>
    let x_value := m x in
    (fix loop (cs : list coef) (i : N) (result : vitv) : vitv :=
       match cs with
       | [] => result
       | ci :: rest =>
         let result' :=
           if coef_is_zero ci then result
           else
             let tmp1 := coef_interval_value m ci in
             let tmp2 := vi_pow x_value i in
             let tmp2 := vi_mul tmp2 tmp1 in
             vi_add result tmp2 in
         loop rest (N.succ i) result'
       end) cs 0%N (mkI (VInt 0) VNone false false true)
  end.
