(* C04: what is proved about the faithful model Subres.v.  Only the argument swap of coefficient_resultant
   (`if (A_deg < B_deg) { resultant(B, A); if ((A_deg % 2) && (B_deg % 2)) neg }`) is tied to the proved swap law
   of the reference; the chain itself (Ducos) is validated by correspondence only. *)
From Coq Require Import ZArith List.
From LP Require Import UPoly MPoly Sylvester SylvesterEval Subres.
Set Warnings "-notation-overridden,-ambiguous-paths".
From mathcomp Require Import all_ssreflect all_fingroup all_algebra.
From mathcomp Require Import ssrZ zify.
From LP Require Import UPolySpec SylvesterProofs.
Set Warnings "notation-overridden,ambiguous-paths".
Import GRing.Theory.
Set Implicit Arguments.
Unset Strict Implicit.
Unset Printing Implicit Defensive.
Local Open Scope ring_scope.

Lemma Nat_odd_odd (n : nat) : Nat.odd n = odd n.
Proof. by rewrite /Nat.odd Nat_even_odd negbK. Qed.

Lemma Nat_ltb_ltn (a b : nat) : Nat.ltb a b = (a < b)%N.
Proof. by rewrite /Nat.ltb Nat_leb_leq. Qed.

(* the model's swap branch, unfolded *)
Lemma sr_lp_resultant_swap_branch (fuel : nat) (A B r : srpoly) :
  (cp_deg A < cp_deg B)%N ->
  sr_lp_resultant fuel B A = SrOk r ->
  sr_lp_resultant fuel A B = SrOk (if odd (cp_deg A) && odd (cp_deg B) then cp_neg r else r).
Proof.
move=> Hlt; rewrite /sr_lp_resultant !Nat_ltb_ltn Hlt ltnNge (ltnW Hlt) /= !Nat_odd_odd.
by case: (sr_subres _ _ _ _ _) => //= psc [<-].
Qed.

Lemma eval_cp_neg0 (rho : var -> Z) (r : srpoly) :
  mp_eval rho (cp_coeff (cp_neg r) 0) = - mp_eval rho (cp_coeff r 0).
Proof.
rewrite /cp_coeff /cp_neg !List_nth_nth (@nth_map_default _ _ mp_neg [::] [::]) //.
exact: sy_eval_neg.
Qed.

(* COND: IF the unswapped computation returns (a polynomial with the values of) the reference resultant of (B, A),
   THEN the swap branch returns the reference resultant of (A, B): the parity rule is the proved swap law *)
Theorem sr_lp_resultant_swap_cond (fuel : nat) (A B r : srpoly) :
  (cp_deg A < cp_deg B)%N ->
  sr_lp_resultant fuel B A = SrOk r ->
  (forall rho, mp_eval rho (cp_coeff r 0) = mp_eval rho (resultant_mp B A)) ->
  exists r', sr_lp_resultant fuel A B = SrOk r' /\
             forall rho, mp_eval rho (cp_coeff r' 0) = mp_eval rho (resultant_mp A B).
Proof.
move=> Hlt Hr Hval; exists (if odd (cp_deg A) && odd (cp_deg B) then cp_neg r else r).
split; first exact: sr_lp_resultant_swap_branch.
move=> rho; rewrite (resultant_mp_swap rho B A) -signr_odd oddM andbC.
have -> : (size B).-1 = cp_deg B by [].
have -> : (size A).-1 = cp_deg A by [].
case: (odd (cp_deg B) && odd (cp_deg A)); rewrite /= ?expr1 ?expr0 ?mulN1r ?mul1r ?eval_cp_neg0 Hval //.
Qed.
