(* C10 proofs over the reals.  No stdlib Reals (they come with axioms): every statement quantifies over an
   arbitrary  R : realFieldType  of MathComp (ordered field; rcfType / realalg are instances), which is all the
   Cauchy bound and the exit logic need.  Integers enter through  zR : Z -> R, rationals (num, den) through qR.
     (d) root_lower_bound_real : every non-zero root r of B in R satisfies  2^-(root_lower_bound B) <= |r|
     (c) coef_sgn_core_correct : the exit logic of coefficient_sgn reports the sign of the value, premises
         `encloses` and `annihilates`;  constraint_evaluate_correct : the sign-condition table on the true sign. *)
From Coq Require Import ZArith.
From LP Require Import Scalar UPoly MPoly EvalSgn EvalSgnProofs UPolySpec.
Set Warnings "-notation-overridden,-ambiguous-paths".
From mathcomp Require Import all_ssreflect all_algebra all_real_closed.
From mathcomp Require Import ssrZ zify ring.
Set Warnings "notation-overridden,ambiguous-paths".
Import Order.TTheory GRing.Theory Num.Theory.
Set Implicit Arguments.
Unset Strict Implicit.
Unset Printing Implicit Defensive.
Local Open Scope ring_scope.

Section S.
Variable R : realFieldType.
Definition zR (z : Z) : R := (int_of_Z z)%:~R.

Lemma zR_le a b : (zR a <= zR b) = (Z.leb a b).
Proof. rewrite /zR ler_int. lia. Qed.
Lemma zR_lt a b : (zR a < zR b) = (Z.ltb a b).
Proof. rewrite /zR ltr_int. lia. Qed.
Lemma zR_eq a b : (zR a == zR b) = (Z.eqb a b).
Proof. rewrite /zR eqr_int. lia. Qed.
Lemma zRM a b : zR (Z.mul a b) = zR a * zR b.
Proof. by rewrite /zR -intrM; congr (_%:~R); lia. Qed.
Lemma zRD a b : zR (Z.add a b) = zR a + zR b.
Proof. by rewrite /zR -intrD; congr (_%:~R); lia. Qed.
Lemma zR0 : zR 0 = 0. Proof. by []. Qed.
Lemma zR1 : zR 1 = 1. Proof. by []. Qed.
Lemma zR_abs a : zR (Z.abs a) = `|zR a|.
Proof. rewrite /zR -intr_norm; congr (_%:~R); lia. Qed.
Lemma zR_pow2n n : zR (Z.pow 2 (Z.of_nat n)) = 2%:R ^+ n.
Proof.
elim: n => [|n IH]; first by [].
rewrite Nat2Z.inj_succ Z.pow_succ_r; last by apply: Nat2Z.is_nonneg.
by rewrite zRM IH exprS.
Qed.

Fixpoint hornerR (l : seq Z) (r : R) : R := if l is c :: l' then zR c + r * hornerR l' r else 0.

Lemma hornerRE l r : hornerR l r = (map_poly (intr \o int_of_Z) (Poly l)).[r].
Proof.
elim: l => [|c l IH] /=; first by rewrite map_poly0 horner0.
rewrite cons_poly_def rmorphD rmorphM /= map_polyX map_polyC hornerD hornerMX hornerC -IH /zR /=.
by rewrite addrC mulrC.
Qed.

Lemma horner_bound (M : R) l r : `|r| < 1 -> all (fun c => `|zR c| <= M) l -> 0 <= M ->
  `|hornerR l r| * (1 - `|r|) <= M.
Proof.
move=> r1 + M0; elim: l => [_|c l IH /= /andP [cM lM]]; first by rewrite /= normr0 mul0r.
have t0 : 0 <= 1 - `|r| by rewrite subr_ge0 ltW.
apply: (@le_trans _ _ ((`|zR c| + `|r| * `|hornerR l r|) * (1 - `|r|))).
  by apply: ler_wpmul2r => //; apply: (le_trans (ler_norm_add _ _)); rewrite normrM.
rewrite mulrDl -mulrA.
apply: (@le_trans _ _ (M * (1 - `|r|) + `|r| * M)).
  apply: ler_add; first exact: ler_wpmul2r.
  by apply: ler_wpmul2l => //; apply: IH.
by rewrite mulrBr mulr1 mulrC subrK.
Qed.

(* Cauchy: a non-zero root r of c0 + c1 x + ... with c0 <> 0 satisfies |c0| <= |r| (|c0| + max|c_i|) *)
Lemma cauchy_lower (c0 : Z) rest (r M : R) :
  all (fun c => `|zR c| <= M) rest -> 0 <= M -> hornerR (c0 :: rest) r = 0 ->
  `|zR c0| <= `|r| * (`|zR c0| + M).
Proof.
move=> lM M0 /= /eqP; rewrite addr_eq0 => /eqP c0E.
case: (ltP `|r| 1) => [r1|r1]; last first.
  apply: (@le_trans _ _ (1 * (`|zR c0| + M))); first by rewrite mul1r ler_addl.
  by apply: ler_wpmul2r => //; apply: addr_ge0.
have h := horner_bound r1 lM M0.
have -> : `|zR c0| = `|r| * `|hornerR rest r| by rewrite c0E normrN normrM.
apply: ler_wpmul2l => //; rewrite -ler_subl_addl.
by move: h; rewrite mulrBr mulr1 [_ * `|r|]mulrC.
Qed.

Lemma pmaxabs_nonneg rest : Z.le 0 (pmaxabs rest).
Proof. by elim: rest => [|c l IH] //=; apply: Z.le_trans (Z.le_max_r _ _). Qed.

Lemma all_pmaxabs rest : all (fun c => `|zR c| <= zR (pmaxabs rest)) rest.
Proof.
have: forall c, List.In c rest -> Z.le (Z.abs c) (pmaxabs rest) by move=> c; apply: (pmaxabs_ge rest c).
elim: rest (pmaxabs rest) => [|d l IH] m H //=; apply/andP; split.
  by rewrite -zR_abs zR_le; apply/Z.leb_le; apply: H; left.
by apply: IH => c Hc; apply: H; right.
Qed.

Lemma hornerR_strip B r : r != 0 -> hornerR B r = 0 -> hornerR (strip_zeros B) r = 0.
Proof.
move=> r0; elim: B => [|c l IH] //=.
case: (Z.eqb_spec c 0) => [->|//].
by rewrite zR0 add0r => /eqP; rewrite mulf_eq0 (negbTE r0) /= => /eqP; exact: IH.
Qed.

(* (d) every non-zero root of B (in any real field) is at least 2^-(root_lower_bound B) away from 0 *)
Theorem root_lower_bound_real B r : strip_zeros B <> [::] -> hornerR B r = 0 -> r != 0 ->
  2%:R ^- (Z.to_nat (root_lower_bound B)) <= `|r|.
Proof.
case E: (strip_zeros B) => [|c0 rest] // _ hB r0.
have [k2 kint] := root_lower_bound_int B c0 rest E.
have c0n := strip_zeros_head B c0 rest E.
have h0 := hornerR_strip r0 hB; rewrite E in h0.
have M0 : 0 <= zR (pmaxabs rest) by rewrite -zR0 zR_le; apply/Z.leb_le; exact: pmaxabs_nonneg.
have h1 := cauchy_lower (all_pmaxabs rest) M0 h0.
set k := Z.to_nat (root_lower_bound B).
have h2 : `|zR c0| + zR (pmaxabs rest) <= 2%:R ^+ k * `|zR c0|.
  rewrite -zR_abs -zRD -zR_pow2n -zRM zR_le; apply/Z.leb_le.
  by rewrite /k Z2Nat.id //; apply: Z.le_trans k2.
have c0pos : 0 < `|zR c0|.
  by rewrite normr_gt0 -zR0 zR_eq; apply/negP => /Z.eqb_eq.
have h3 : `|zR c0| <= `|r| * (2%:R ^+ k * `|zR c0|).
  by apply: (le_trans h1); apply: ler_wpmul2l.
have p2 : 0 < (2%:R : R) ^+ k by rewrite exprn_gt0 // ltr0n.
rewrite -[_ ^- _]mul1r ler_pdivr_mulr //.
by move: h3; rewrite mulrA -{1}[`|zR c0|]mul1r ler_pmul2r.
Qed.

(* ================================================================ (c) exit logic of coefficient_sgn *)
Definition qR (q : Scalar.rat) : R := zR q.1 / zR q.2.
Definition rsgn (v : R) : Z := if v < 0 then Z.opp 1 else if v == 0 then Z0 else Zpos xH.
Definition qpos (q : Scalar.rat) : Prop := Z.lt 0 q.2.
Definition rint_wf (I : rint) : Prop := qpos (ri_a I) /\ qpos (ri_b I).
Definition in_rint (I : rint) (v : R) : bool :=
  if ri_point I then v == qR (ri_a I)
  else (if ri_aopen I then qR (ri_a I) < v else qR (ri_a I) <= v) &&
       (if ri_bopen I then v < qR (ri_b I) else v <= qR (ri_b I)).

Lemma zR_gt0 d : Z.lt 0 d -> 0 < zR d.
Proof. by move=> d0; rewrite -zR0 zR_lt; apply/Z.ltb_lt. Qed.

Lemma qR_lt0 q : qpos q -> (qR q < 0) = (Z.ltb q.1 0).
Proof. by move=> /zR_gt0 d0; rewrite /qR pmulr_llt0 ?invr_gt0 // -zR0 zR_lt. Qed.
Lemma qR_gt0 q : qpos q -> (0 < qR q) = (Z.ltb 0 q.1).
Proof. by move=> /zR_gt0 d0; rewrite /qR pmulr_lgt0 ?invr_gt0 // -zR0 zR_lt. Qed.
Lemma qR_eq0 q : qpos q -> (qR q == 0) = (Z.eqb q.1 0).
Proof.
move=> /zR_gt0 d0; rewrite /qR mulf_eq0 invr_eq0 (gt_eqF d0) orbF -zR0 zR_eq //.
Qed.

Lemma q_sgn_rsgn q : qpos q -> q_sgn q = rsgn (qR q).
Proof.
move=> qp; rewrite /rsgn qR_lt0 // qR_eq0 // /q_sgn.
by case: q.1 {qp}.
Qed.

Lemma rsgn_lt0 v : v < 0 -> rsgn v = Z.opp 1. Proof. by rewrite /rsgn => ->. Qed.
Lemma rsgn_gt0 v : 0 < v -> rsgn v = Zpos xH.
Proof. by move=> v0; rewrite /rsgn (gt_eqF v0) ltNge (ltW v0). Qed.
Lemma rsgn0 : rsgn 0 = Z0. Proof. by rewrite /rsgn ltxx eqxx. Qed.

Lemma lt_le_tr (x y z : R) : x < y -> y <= z -> x < z. Proof. exact: lt_le_trans. Qed.
Lemma le_lt_tr (x y z : R) : x <= y -> y < z -> x < z. Proof. exact: le_lt_trans. Qed.
Lemma lt_tr (x y z : R) : x < y -> y < z -> x < z. Proof. exact: lt_trans. Qed.
Lemma le_tr (x y z : R) : x <= y -> y <= z -> x <= z. Proof. exact: le_trans. Qed.
Lemma lt_W (x y : R) : x < y -> x <= y. Proof. exact: ltW. Qed.
Ltac ordt := solve [eauto 4 using lt_le_tr, le_lt_tr, lt_tr, le_tr, lt_W].
Ltac absurd_ord := exfalso; (have: (0 : R) < 0 by ordt); by rewrite ltxx.

Lemma qsgn_lt0 q : qpos q -> (Z.ltb (q_sgn q) 0) = (qR q < 0).
Proof. by move=> qp; rewrite qR_lt0 // /q_sgn; case: q.1. Qed.
Lemma qsgn_gt0 q : qpos q -> (Z.gtb (q_sgn q) 0) = (0 < qR q).
Proof. by move=> qp; rewrite qR_gt0 // /q_sgn; case: q.1. Qed.
Lemma qsgn_eq0 q : qpos q -> (Z.eqb (q_sgn q) 0) = (qR q == 0).
Proof. by move=> qp; rewrite qR_eq0 // /q_sgn; case: q.1. Qed.
Lemma qsgn_ge0 q : qpos q -> (Z.geb (q_sgn q) 0) = (0 <= qR q).
Proof. by move=> qp; rewrite le_eqVlt eq_sym qR_eq0 // qR_gt0 // /q_sgn; case: q.1. Qed.
Lemma qsgn_le0 q : qpos q -> (Z.leb (q_sgn q) 0) = (qR q <= 0).
Proof. by move=> qp; rewrite le_eqVlt qR_eq0 // qR_lt0 // /q_sgn; case: q.1. Qed.

(* lp_rational_interval_contains_zero decides membership of 0 *)
Lemma ri_contains_zeroE I : rint_wf I -> ri_contains_zero I = in_rint I 0.
Proof.
case=> wa wb; rewrite /ri_contains_zero /in_rint.
rewrite qsgn_eq0 // qsgn_ge0 // qsgn_gt0 // qsgn_le0 // qsgn_lt0 // [0 == _]eq_sym.
case: (ri_point I) => //.
rewrite [0 <= qR (ri_a I)]leNgt [0 < qR (ri_a I)]ltNge [qR (ri_b I) <= 0]leNgt [qR (ri_b I) < 0]ltNge.
by case: (ri_aopen I); case: (ri_bopen I) => /=;
   case: (qR (ri_a I) < 0); case: (qR (ri_a I) <= 0); case: (0 < qR (ri_b I)); case: (0 <= qR (ri_b I)).
Qed.

(* lp_rational_interval_sgn: the sign of every point of an interval that does not contain 0, and 0 otherwise *)
Lemma ri_sgn_correct I v : rint_wf I -> in_rint I v -> (in_rint I 0 -> v = 0) -> ri_sgn I = rsgn v.
Proof.
case=> wa wb; rewrite /ri_sgn /in_rint.
rewrite qsgn_lt0 // qsgn_gt0 // !qsgn_eq0 // !q_sgn_rsgn //.
case: (ri_point I); first by move=> /eqP ->.
set A := qR (ri_a I); set B := qR (ri_b I).
have r0 := rsgn0.
case: (ltgtP A 0) => [A0|A0|A0]; case: (ltgtP B 0) => [B0|B0|B0] /=;
  case: (ri_aopen I); case: (ri_bopen I) => /= /andP [Hav Hvb] H0;
  rewrite ?A0 ?B0 in Hav Hvb H0;
  try (by rewrite H0 ?r0 //; apply/andP; split; ordt);
  try (by rewrite rsgn_lt0 //; ordt);
  try (by rewrite rsgn_gt0 //; ordt);
  try absurd_ord.
Qed.

Lemma contains_L k q : Z.le 0 k -> qpos q -> ri_contains_q (L_interval k) q ->
  `|qR q| < 2%:R ^- (Z.to_nat k).
Proof.
move=> k0 qp /contains_L_int H.
have d0 := zR_gt0 qp.
have p2 : 0 < (2%:R : R) ^+ (Z.to_nat k) by rewrite exprn_gt0 // ltr0n.
rewrite /qR normrM normfV (gtr0_norm d0) ltr_pdivr_mulr // -[_ ^- _]mul1r mulrAC ltr_pdivl_mulr // mul1r.
rewrite -zR_abs -zR_pow2n -zRM zR_lt Z2Nat.id //.
exact/Z.ltb_lt.
Qed.

(* one pass of the loop of coefficient_sgn: whenever it exits, the reported sign is the sign of the value *)
Lemma sgn_exit_correct I k v s :
  rint_wf I -> in_rint I v -> Z.le 0 k ->
  (v != 0 -> 2%:R ^- (Z.to_nat k) <= `|v|) ->       (* bound_correct *)
  sgn_exit I k = Some s -> s = rsgn v.
Proof.
move=> wf Iv k0 bound; rewrite /sgn_exit.
case P: (ri_point I).
  case=> <-; apply: ri_sgn_correct => //.
  by move: Iv; rewrite /in_rint P => /eqP -> /eqP ->.
case Z: (ri_contains_zero I) => /=; last first.
  by case=> <-; apply: ri_sgn_correct => //; rewrite -ri_contains_zeroE // Z.
case La: (ri_contains_q _ _) => //=; case Lb: (ri_contains_q _ _) => //=.
case=> <-; apply: ri_sgn_correct => // _.
case: wf => wa wb.
have ha := contains_L k0 wa La; have hb := contains_L k0 wb Lb.
apply/eqP; apply/negPn/negP => /bound; apply/negP; rewrite -ltNge.
move: Iv; rewrite /in_rint P => /andP [Hav Hvb].
have Av : qR (ri_a I) <= v by case: (ri_aopen I) Hav => // /ltW.
have vB : v <= qR (ri_b I) by case: (ri_bopen I) Hvb => // /ltW.
move: ha hb; rewrite !ltr_norml => /andP [a1 a2] /andP [b1 b2].
by apply/andP; split; ordt.
Qed.

Lemma sgn_first_correct I v s : rint_wf I -> in_rint I v -> sgn_first I = Some s -> s = rsgn v.
Proof.
move=> wf Iv; rewrite /sgn_first.
case P: (ri_point I) => /=.
  case=> <-; apply: ri_sgn_correct => //.
  by move: Iv; rewrite /in_rint P => /eqP -> /eqP ->.
case Z: (ri_contains_zero I) => //=.
by case=> <-; apply: ri_sgn_correct => //; rewrite -ri_contains_zeroE // Z.
Qed.

Lemma sgn_loop_correct fuel (approx : nat -> rint) k v s i :
  (forall j, rint_wf (approx j)) -> (forall j, in_rint (approx j) v) -> Z.le 0 k ->
  (v != 0 -> 2%:R ^- (Z.to_nat k) <= `|v|) ->
  sgn_loop fuel approx k i = Some s -> s = rsgn v.
Proof.
move=> wf enc k0 bound; elim: fuel i => [|f IH] i //=.
case E: (sgn_exit (approx i) k) => [s'|]; last exact: IH.
by case=> <-; apply: (sgn_exit_correct (wf i) (enc i) k0 bound E).
Qed.

(* (c) exit logic of coefficient_sgn: premises  encloses  (every computed interval contains the value; C15 /
   coefficient_value_approx) and  annihilates  (the value is a root of the non-zero eliminant B; resultants) *)
Theorem coef_sgn_core_correct fuel (approx : nat -> rint) (B : seq Z) v s :
  (forall j, rint_wf (approx j)) ->
  (forall j, in_rint (approx j) v) ->                    (* encloses *)
  strip_zeros B <> [::] -> hornerR B v = 0 ->            (* annihilates *)
  coef_sgn_core fuel approx B = Some s -> s = rsgn v /\ sgn_norm s = rsgn v.
Proof.
move=> wf enc B0 Bv; rewrite /coef_sgn_core.
have norm : forall s, s = rsgn v -> s = rsgn v /\ sgn_norm s = rsgn v.
  by move=> s' ->; split => //; rewrite /rsgn /sgn_norm; case: (v < 0) => //; case: (v == 0).
case E: (sgn_first (approx 0%N)) => [s'|].
  by case=> <-; apply: norm; apply: (sgn_first_correct (wf 0%N) (enc 0%N) E).
move=> L; apply: norm.
case E0: (strip_zeros B) B0 => [|c0 rest] // _.
have [k2 _] := root_lower_bound_int B c0 rest E0.
apply: (sgn_loop_correct wf enc _ _ L); first by apply: Z.le_trans k2.
by move=> v0; apply: root_lower_bound_real => //; rewrite E0.
Qed.

(* the meaning of the six sign conditions for a real value, and lp_polynomial_constraint_evaluate on the true sign *)
Definition sc_sem (c : sign_condition) (v : R) : bool :=
  match c with
  | SGN_LT_0 => v < 0 | SGN_LE_0 => v <= 0 | SGN_EQ_0 => v == 0
  | SGN_NE_0 => v != 0 | SGN_GT_0 => 0 < v | SGN_GE_0 => 0 <= v
  end.

Lemma constraint_evaluate_correct c v : constraint_evaluate c (rsgn v) = sc_sem c v.
Proof.
rewrite /constraint_evaluate /rsgn.
by case: c => /=; case: (ltgtP v 0) => //=.
Qed.
End S.

(* ================================================================ the pinned bound is refuted in every real closed field *)
Section RCF.
Variable R : rcfType.
Definition Bw : seq Z := [:: Zpos 2; Zneg 7; Zneg 7; Zneg 7; Zneg 7].

Lemma Bw_at_5 : hornerR Bw (5%:R^-1 : R) = 158%:R / 625%:R.
Proof.
rewrite /hornerR /Bw.
have -> : zR R (Zpos 2) = 2%:R by [].
have -> : zR R (Zneg 7) = - 7%:R by [].
by field.
Qed.
Lemma Bw_at_4 : hornerR Bw (4%:R^-1 : R) = - (83%:R / 256%:R).
Proof.
rewrite /hornerR /Bw.
have -> : zR R (Zpos 2) = 2%:R by [].
have -> : zR R (Zneg 7) = - 7%:R by [].
by field.
Qed.

Theorem root_lower_bound_prefix_refuted_real :
  exists (B : seq Z) (r : R),
    [/\ strip_zeros B <> [::], hornerR B r = 0, r != 0 & `|r| < 2%:R ^- (Z.to_nat (root_lower_bound_off (Zpos 1) B))].
Proof.
exists Bw.
pose p : {poly R} := map_poly (intr \o int_of_Z) (Poly Bw).
have pE x : (- p).[x] = - hornerR Bw x by rewrite hornerN /p -hornerRE.
have le54 : (5%:R^-1 : R) <= 4%:R^-1 by rewrite lef_pinv ?posrE ?ltr0n // ler_nat.
have ivt : 0 \in `[(- p).[5%:R^-1], (- p).[4%:R^-1]].
  rewrite in_itv /= !pE Bw_at_5 Bw_at_4 opprK oppr_le0; apply/andP; split.
    by rewrite divr_ge0 // ler0n.
  by rewrite divr_ge0 // ler0n.
have [x /andP [x5 x4] xr] := poly_ivt le54 ivt.
exists x.
have x0 : 0 < x by apply: lt_le_trans x5; rewrite invr_gt0 ltr0n.
have hx : hornerR Bw x = 0 by apply/eqP; rewrite -oppr_eq0 -pE; exact: xr.
split => //.
  by rewrite gt_eqF.
have -> : Z.to_nat (root_lower_bound_off (Zpos 1) Bw) = 2%N by [].
rewrite gtr0_norm // lt_neqAle; apply/andP; split; last first.
  by apply: (le_trans x4); rewrite lef_pinv ?posrE ?exprn_gt0 ?ltr0n // -natrX ler_nat.
apply/eqP => xE.
have : hornerR Bw (4%:R^-1 : R) = 0.
  by rewrite -hx xE; congr (hornerR _ _^-1); rewrite -natrX.
rewrite Bw_at_4 => /eqP; rewrite oppr_eq0 mulf_eq0 invr_eq0 !pnatr_eq0.
by [].
Qed.
End RCF.
