(* G1: the fraction-free (Bareiss) determinant of the reference (RefAlg.pdet_fast, row pivoting, exact divisions by the
   previous pivot) is the determinant over Z[z]; the Laplace determinant RefAlg.pdet too.
   The algebraic core (Sylvester / Desnanot-Jacobi style identity) is CoqEAL's bareiss_block_key_lemma_sub; the
   invariant carried along the recursion is  "a^k divides every (k+1)-minor"  (a = previous pivot), which is stable
   under row permutations, so that - unlike CoqEAL's bareiss_recE - no hypothesis on the principal minors is needed:
   the pivot search supplies a non-zero pivot or a zero column. *)
From Coq Require Import ZArith Lia.
From LP Require Import Scalar UPoly RefAlg.
Set Warnings "-notation-overridden,-ambiguous-paths".
From mathcomp Require Import all_ssreflect all_fingroup all_algebra.
From mathcomp Require Import ssrZ zify.
From CoqEAL Require Import minor bareiss.
Set Warnings "notation-overridden,ambiguous-paths".
From LP Require Import UPolySpec.
Import GRing.Theory.
Set Implicit Arguments.
Unset Strict Implicit.
Unset Printing Implicit Defensive.
Local Open Scope ring_scope.

(* ---------------------------------------------------------------- matrix level, any integral domain *)
Section BareissMx.
Variable D : idomainType.

(* a^k divides every minor of order k+1 *)
Definition minors_dvd (a : D) n (M : 'M[D]_n) : Prop :=
  forall k (f g : 'I_k.+1 -> 'I_n), exists q, minor f g M = a ^+ k * q.

Lemma minors_dvd1 n (M : 'M[D]_n) : minors_dvd 1 M.
Proof. by move=> k f g; exists (minor f g M); rewrite expr1n mul1r. Qed.

Lemma minors_dvd_row_perm a n (s : 'S_n) (M : 'M[D]_n) : minors_dvd a M -> minors_dvd a (row_perm s M).
Proof.
move=> H k f g; have [q Hq] := H k (s \o f) g; exists q; rewrite -Hq /minor.
by congr (\det _); apply/matrixP => i j; rewrite !mxE.
Qed.

Lemma det_row_perm_lift n (i0 : 'I_n.+1) (M : 'M[D]_n.+1) :
  \det (row_perm (lift_perm 0 i0 1) M) = (-1) ^+ odd i0 * \det M.
Proof.
rewrite row_permE det_mulmx det_perm odd_lift_perm odd_perm1 /= addbF.
by [].
Qed.

Section Step.
Variables (m : nat) (a : D) (M : 'M[D]_(1 + m)).
Hypothesis a0 : a != 0.
Hypothesis HM : minors_dvd a M.
Hypothesis d0 : M 0 0 != 0.
Let d := M 0 0.
Let M' := d *: drsubmx M - dlsubmx M *m ursubmx M.

Lemma bareiss_step_entry i j :
  M' i j = d * M (rshift 1 i) (rshift 1 j) - M (rshift 1 i) 0 * M 0 (rshift 1 j).
Proof. by rewrite !mxE big_ord1 !mxE !lshift0. Qed.

Lemma bareiss_step_dvd i j : exists q, M' i j = a * q.
Proof.
have := bareiss_block_key_lemma_sub M (fun _ : 'I_1 => i) (fun _ : 'I_1 => j).
rewrite minor1 -/d -/M' expr1 => /(mulfI d0) ->.
by have [q ->] := HM (lift_pred (fun _ : 'I_1 => i)) (lift_pred (fun _ : 'I_1 => j)); exists q; rewrite expr1.
Qed.

Variable M'' : 'M[D]_m.
Hypothesis HM'' : M' = a *: M''.

Lemma bareiss_step_minors : minors_dvd d M''.
Proof.
move=> k f g.
have [q Hq] := HM (lift_pred f) (lift_pred g).
exists q.
have ak : a ^+ k.+1 != 0 by rewrite expf_neq0.
apply: (mulfI ak); apply: (mulfI d0).
have -> : a ^+ k.+1 * minor f g M'' = minor f g M'.
  by rewrite HM'' /minor submatrix_scale detZ.
rewrite bareiss_block_key_lemma_sub Hq -/d exprS.
by rewrite !mulrA; congr (_ * _); rewrite -!mulrA; congr (_ * _); rewrite mulrC.
Qed.

Lemma bareiss_step_det : d ^+ m * \det M = d * (a ^+ m * \det M'').
Proof.
rewrite -detZ -HM'' /M' -bareiss_key_lemma.
have -> : d%:M = ulsubmx M by apply/matrixP => i j; rewrite !mxE !ord1 lshift0.
by rewrite submxK.
Qed.

End Step.

(* one full step: from the recursive result r on M'' to the result on M *)
Lemma bareiss_step_result m (a : D) (M : 'M[D]_(1 + (1 + m))) (M'' : 'M[D]_(1 + m)) (r : D) :
  M 0 0 != 0 -> M 0 0 *: drsubmx M - dlsubmx M *m ursubmx M = a *: M'' ->
  M 0 0 ^+ m * r = \det M'' -> a ^+ m.+1 * r = \det M.
Proof.
move=> d0 HM'' Hr.
have dm : M 0 0 ^+ m.+1 != 0 by rewrite expf_neq0.
apply: (mulfI dm).
rewrite (bareiss_step_det HM'') -Hr exprS -!mulrA; congr (_ * _).
by rewrite mulrCA.
Qed.

End BareissMx.

(* ---------------------------------------------------------------- exact division of list polynomials *)
Lemma size_sub_lead (Q : {poly Z}) : Q != 0 -> (size (Q - lead_coef Q *: 'X^((size Q).-1))%R < size Q)%N.
Proof.
move=> Q0; have sQ : (0 < size Q)%N by rewrite size_poly_gt0.
rewrite -[X in (_ < X)%N](prednK sQ) ltnS; apply/leq_sizeP => j Hj.
rewrite coefB coefZ coefXn; case: eqP => [->|Hne].
  by rewrite mulr1 lead_coefE subrr.
rewrite mulr0 subr0; apply/(leq_sizeP _ _ (leqnn _)).
by rewrite -(prednK sQ) ltn_neqAle eq_sym Hj andbT; apply/eqP.
Qed.

Lemma pnorm_nilP (r : seq Z) : (pnorm r = [::]) <-> (Poly r = 0).
Proof.
split=> [E|E]; first by rewrite -(Poly_pnorm r) E.
by rewrite -polyseq_Poly_pnorm E polyseq0.
Qed.

Lemma pdiv_exact_aux_complete fuel (q r b : seq Z) (Q : {poly Z}) :
  pnorm b = b -> Poly b != 0 -> Poly r = Poly b * Q -> (size (Poly r) <= fuel)%N ->
  exists q', pdiv_exact_aux fuel q r b (Nat.pred (length b)) (List.last b Z0) = Some q'.
Proof.
move=> bn b0; elim: fuel q r Q => [|f IH] q r Q Hr Hs /=.
  move: Hs; rewrite leqn0 size_poly_eq0 => /eqP/pnorm_nilP ->; by exists q.
case E: (pnorm r) => [|c t]; first by exists q.
have r0 : Poly r != 0 by apply/eqP => /pnorm_nilP; rewrite E.
have Q0 : Q != 0 by apply/eqP => Q0; move: r0; rewrite Hr Q0 mulr0 eqxx.
have Es : size (Poly r) = (size (Poly b) + size Q).-1 by rewrite Hr size_mul.
have sQ : (0 < size Q)%N by rewrite size_poly_gt0.
have sb : (0 < size (Poly b))%N by rewrite size_poly_gt0.
have Elen : length (c :: t) = size (Poly r) by rewrite size_Poly_pnorm E.
have Elb : length b = size (Poly b) by rewrite size_Poly_pnorm bn.
rewrite Elen Elb.
have -> : Nat.ltb (size (Poly r)).-1 (size (Poly b)).-1 = false.
  by apply/Nat.ltb_ge; rewrite Es; lia.
have Elr : List.last (c :: t) Z0 = lead_coef (Poly r) by rewrite lead_coef_plc /plc E.
have Elbb : List.last b Z0 = lead_coef (Poly b) by rewrite lead_coef_plc /plc bn.
have lb0 : lead_coef (Poly b) != 0 by rewrite lead_coef_eq0.
rewrite Elr Elbb Hr lead_coefM.
have Emul : (lead_coef (Poly b) * lead_coef Q)%R = Z.mul (lead_coef Q) (lead_coef (Poly b)) by rewrite mulrC.
rewrite Emul.
have -> : Z.eqb (Z.modulo (Z.mul (lead_coef Q) (lead_coef (Poly b))) (lead_coef (Poly b))) Z0 = true.
  by apply/Z.eqb_eq; apply: Z.mod_mul; apply/eqP.
have -> : Z.div (Z.mul (lead_coef Q) (lead_coef (Poly b))) (lead_coef (Poly b)) = lead_coef Q.
  by apply: Z.div_mul; apply/eqP.
have Ed : ((size (Poly b * Q)%R).-1 - (size (Poly b)).-1)%coq_nat = (size Q).-1.
  by rewrite -Hr Es; lia.
rewrite Ed.
have H1 : Poly (psub (c :: t) (pmul (pshift (size Q).-1 [:: lead_coef Q]) b)) =
          Poly b * (Q - lead_coef Q *: 'X^((size Q).-1)).
  rewrite Poly_psub Poly_pmul Poly_pshift -E Poly_pnorm Hr /= cons_poly_def mul0r add0r.
  by rewrite mulrBr mul_polyC [_ * Poly b]mulrC.
have H2 : (size (Poly (psub (c :: t) (pmul (pshift (size Q).-1 [:: lead_coef Q]) b))) <= f)%N.
  rewrite H1 -ltnS; apply: leq_trans Hs.
  case: (altP (Q - lead_coef Q *: 'X^((size Q).-1) =P 0)) => [->|nz].
    by rewrite mulr0 size_poly0 size_poly_gt0.
  have sz : (0 < size (Q - lead_coef Q *: 'X^((size Q).-1))%R)%N by rewrite size_poly_gt0.
  rewrite Es size_mul //; have := size_sub_lead Q0; move: sz sb sQ.
  have Hgen : forall x y z : nat, (0 < x -> 0 < z -> 0 < y -> x < y -> (z + x).-1 < (z + y).-1)%N by clear; lia.
  exact: Hgen.
have [q' Hq'] := IH (padd q (pshift (size Q).-1 [:: lead_coef Q])) _ _ H1 H2.
by exists q'; rewrite -Elb -Elbb.
Qed.

Lemma pdiv_exact_aux_sound fuel (q r b : seq Z) db lb q' :
  pdiv_exact_aux fuel q r b db lb = Some q' -> Poly q' * Poly b = Poly q * Poly b + Poly r.
Proof.
elim: fuel q r => [|fuel IH] q r /=.
  case E: (pnorm r) => [|c t] // [<-].
  by rewrite -(Poly_pnorm r) E /= addr0.
case E: (pnorm r) => [|c t]; first by case=> <-; rewrite -(Poly_pnorm r) E /= addr0.
case: ifP => // _; case: ifP => // _ /IH ->.
rewrite Poly_padd Poly_psub Poly_pmul -E Poly_pnorm mulrDl.
by rewrite -addrA; congr (_ + _); rewrite addrCA subrr addr0.
Qed.

(* exact division: when b <> 0 divides a, pdivx a b is THE quotient *)
Lemma pdivx_spec (a b : seq Z) (Q : {poly Z}) : Poly b != 0 -> Poly a = Poly b * Q -> Poly (pdivx a b) = Q.
Proof.
move=> b0 Ha; rewrite /pdivx /pdiv_exact.
have bn0 : pnorm b <> [::] by move/pnorm_nilP/eqP; rewrite (negbTE b0).
case Eb: (pnorm b) bn0 => [|c t] // _; rewrite -Eb.
have Hn : pnorm (pnorm b) = pnorm b by rewrite -polyseq_Poly_pnorm Poly_pnorm polyseq_Poly_pnorm.
have b0' : Poly (pnorm b) != 0 by rewrite Poly_pnorm.
have Ha' : Poly (pnorm a) = Poly (pnorm b) * Q by rewrite !Poly_pnorm.
have Hs : (size (Poly (pnorm a)) <= (length (pnorm a)).+1)%N by rewrite Poly_pnorm size_Poly_pnorm.
have [q' Eq] := pdiv_exact_aux_complete [::] Hn b0' Ha' Hs.
rewrite Eq Poly_pnorm.
move/pdiv_exact_aux_sound: Eq; rewrite Ha' /= mul0r add0r mulrC => /(mulfI b0').
by [].
Qed.

(* ---------------------------------------------------------------- the list algorithm *)
(* the matrix denoted by a list of rows of list polynomials (missing entries read as 0) *)
Definition mxP (n : nat) (m : seq (seq (seq Z))) : 'M[{poly Z}]_n :=
  \matrix_(i, j) Poly (nth [::] (nth [::] m i) j).

(* the local pivot search and elimination of pdet_bareiss, as top-level functions *)
Fixpoint bfind (before after : pmat) : option (pmat * seq (seq Z) * pmat) :=
  match after with
  | [::] => None
  | r :: after' =>
    match r with
    | [::] => None
    | h :: _ => if pis_zero h then bfind (before ++ [:: r]) after' else Some (before, r, after')
    end
  end.
Definition belim (piv : seq Z) (ptl : seq (seq Z)) (prev : seq Z) (r : seq (seq Z)) : seq (seq Z) :=
  match r with
  | [::] => [::]
  | h :: tl => map (fun ab => pdivx (psub (pmul (fst ab) piv) (pmul h (snd ab))) prev) (List.combine tl ptl)
  end.

Lemma pdet_bareiss_S f m prev neg :
  pdet_bareiss f.+1 m prev neg =
  match m with
  | [::] => if neg then pneg prev else prev
  | _ =>
    match bfind [::] m with
    | None => [::]
    | Some (before, prow, after) =>
      let neg' := if Nat.odd (length before) then negb neg else neg in
      match prow with
      | [::] => [::]
      | piv :: ptl =>
        match before ++ after with
        | [::] => if neg' then pneg piv else piv
        | rest => pdet_bareiss f (map (belim piv ptl prev) rest) piv neg'
        end
      end
    end
  end.
Proof. by []. Qed.

Definition hd0 (r : seq (seq Z)) : bool := pis_zero (head [::] r).

Lemma bfindP acc m : all (fun r : seq (seq Z) => r != [::]) m ->
  match bfind acc m with
  | None => all hd0 m
  | Some (b, r, a) => exists b', [/\ b = acc ++ b', m = b' ++ r :: a, all hd0 b' & ~~ hd0 r]
  end.
Proof.
elim: m acc => [|r m IH] acc //= /andP[r0 Hm].
case: r r0 => [|h tl] // _.
case E: (pis_zero h).
  have := IH (acc ++ [:: h :: tl]) Hm.
  case: (bfind _ m) => [[[b r'] a]|]; last by rewrite /hd0 /= E.
  case=> b' [-> -> Hb' Hr']; exists ((h :: tl) :: b'); split=> //; first by rewrite -catA.
  by rewrite /= {1}/hd0 /= E.
by exists [::]; rewrite cats0; split=> //; rewrite /hd0 /= E.
Qed.

Lemma combine_zip (T U : Type) (s : seq T) (t : seq U) : List.combine s t = zip s t.
Proof. by elim: s t => [|x s IH] [|y t] //=; rewrite IH. Qed.

Lemma nth_belim piv ptl prev h tl j : (j < size tl)%N -> (j < size ptl)%N ->
  nth [::] (belim piv ptl prev (h :: tl)) j =
  pdivx (psub (pmul (nth [::] tl j) piv) (pmul h (nth [::] ptl j))) prev.
Proof.
move=> H1 H2; rewrite /belim combine_zip.
rewrite (nth_map ([::], [::])) ?size_zip ?leq_min ?H1 ?H2 //.
by rewrite nth_zip_cond size_zip leq_min H1 H2.
Qed.

Lemma size_belim piv ptl prev h tl : size (belim piv ptl prev (h :: tl)) = minn (size tl) (size ptl).
Proof. by rewrite /belim combine_zip size_map size_zip. Qed.

(* moving row i0 to the top, keeping the order of the others *)
Lemma mxP_row_move n (b : seq (seq (seq Z))) r a (i0 : 'I_n.+1) : size b = i0 ->
  mxP n.+1 (r :: b ++ a) = row_perm (lift_perm 0 i0 1) (mxP n.+1 (b ++ r :: a)).
Proof.
move=> Hb; apply/matrixP => i j; rewrite !mxE.
case: (unliftP 0 i) => [i'|] ->.
  rewrite lift_perm_lift perm1 /= !nth_cat Hb /bump /=.
  case: (ltnP i' i0) => H.
    by rewrite add0n H.
  by rewrite add1n ltnNge (leq_trans H (leqnSn _)) /= subSn.
by rewrite lift_perm_id /= nth_cat Hb ltnn subnn.
Qed.

Lemma mxP_elim n (piv : seq Z) ptl rest prev :
  size ptl = n -> size rest = n -> all (fun r : seq (seq Z) => size r == n.+1) rest ->
  Poly prev != 0 -> Poly piv != 0 ->
  minors_dvd (Poly prev) (mxP (1 + n) ((piv :: ptl) :: rest)) ->
  let M := mxP (1 + n) ((piv :: ptl) :: rest) in
  M 0 0 *: drsubmx M - dlsubmx M *m ursubmx M = Poly prev *: mxP n (map (belim piv ptl prev) rest).
Proof.
move=> Hptl Hrest Hall a0 d0 HM M.
have M00 : M 0 0 = Poly piv by rewrite mxE.
have d0' : M 0 0 != 0 by rewrite M00.
apply/matrixP => i j.
have [q Hq] := bareiss_step_dvd HM d0' i j.
rewrite Hq; move: Hq; rewrite bareiss_step_entry => Hq.
rewrite [in RHS]mxE [in X in _ = _ * X]mxE; congr (_ * _).
have Hi : (i < size rest)%N by rewrite Hrest.
rewrite (nth_map [::]) //.
have /eqP := all_nthP [::] Hall i Hi.
case Er : (nth [::] rest i) => [|h tl] //= [Htl].
rewrite nth_belim ?Htl ?Hptl //.
symmetry; apply: pdivx_spec => //.
rewrite -Hq Poly_psub !Poly_pmul !mxE /= Er /= mulrC.
by [].
Qed.

Lemma det_col0 (D : comRingType) n (M : 'M[D]_n.+1) : (forall i, M i 0 = 0) -> \det M = 0.
Proof.
move=> H; rewrite (expand_det_col M 0); apply: big1 => i _.
by rewrite H mul0r.
Qed.

Lemma signr_addb_odd (D : comRingType) (neg : bool) (i0 : nat) (x y : D) :
  x = (-1) ^+ (if Nat.odd i0 then ~~ neg else neg) * ((-1) ^+ odd i0 * y) -> x = (-1) ^+ neg * y.
Proof.
have -> : Nat.odd i0 = odd i0.
  by rewrite -Nat.negb_even; elim: i0 => [|k IH] //; rewrite Nat.even_succ -Nat.negb_even /= IH.
move=> ->; rewrite mulrA; congr (_ * _).
by case: (odd i0); case: neg; rewrite /= ?expr1 ?expr0 ?mulN1r ?opprK ?mul1r.
Qed.

Theorem pdet_bareiss_spec n : forall fuel (m : seq (seq (seq Z))) (prev : seq Z) (neg : bool),
  (n < fuel)%N -> size m = n.+1 -> all (fun r : seq (seq Z) => size r == n.+1) m ->
  Poly prev != 0 -> minors_dvd (Poly prev) (mxP n.+1 m) ->
  Poly prev ^+ n * Poly (pdet_bareiss fuel m prev neg) = (-1) ^+ neg * \det (mxP n.+1 m).
Proof.
elim: n => [|n IH] fuel m prev neg; case: fuel => // f Hf Hm Hall a0 HM.
- (* 1 x 1 *)
  rewrite pdet_bareiss_S expr0 mul1r.
  case: m Hm Hall HM => [|r0 [|r1 m']] // _ /= /andP[Hr0 _] HM.
  case: r0 Hr0 HM => [|h [|h' tl]] //= _ HM.
  have -> : \det (mxP 1 [:: [:: h]]) = Poly h.
    by rewrite {1}[mxP 1 _]mx11_scalar det_scalar1 mxE.
  case E: (pis_zero h).
    by rewrite (pis_zeroP _ E) mulr0.
  by case: neg => /=; rewrite ?Poly_pneg ?expr1 ?expr0 ?mulN1r ?mul1r.
- rewrite pdet_bareiss_S.
  have Hne : all (fun r : seq (seq Z) => r != [::]) m.
    by apply: sub_all Hall => r /eqP; case: r.
  case: m Hm Hall HM Hne => [|r0 m'] // Hm Hall HM Hne.
  have := bfindP [::] Hne.
  case: (bfind _ _) => [[[b r] a]|]; last first.
    (* zero column *)
    move=> Hz; rewrite mulr0 det_col0 ?mulr0 // => i; rewrite mxE.
    have Hi : (i < size (r0 :: m'))%N by rewrite Hm.
    have := all_nthP [::] Hz i Hi; rewrite /hd0 => /pis_zeroP.
    by case: (nth [::] (r0 :: m') i).
  case=> b' [-> Em Hb' Hr]; rewrite cat0s.
  case: r Hr Em => [|piv ptl]; first by rewrite /hd0.
  rewrite /hd0 /= => /pis_zeroP/eqP d0 Em.
  have Hi0 : (size b' < n.+2)%N by rewrite -Hm Em size_cat /= addnS ltnS leq_addr.
  pose i0 := Ordinal Hi0.
  set M := mxP n.+2 (r0 :: m') in HM *.
  have EM1 : mxP n.+2 ((piv :: ptl) :: b' ++ a) = row_perm (lift_perm 0 i0 1) M.
    by rewrite /M Em; apply: mxP_row_move.
  have HM1 : minors_dvd (Poly prev) (mxP n.+2 ((piv :: ptl) :: b' ++ a)).
    by rewrite EM1; apply: minors_dvd_row_perm.
  have dM1 : \det (mxP n.+2 ((piv :: ptl) :: b' ++ a)) = (-1) ^+ odd i0 * \det M.
    by rewrite EM1 det_row_perm_lift.
  have : all (fun r : seq (seq Z) => size r == n.+2) ((piv :: ptl) :: b' ++ a).
    by move: Hall; rewrite Em /= !all_cat /= => /and3P[-> -> ->].
  move=> /= /andP[/eqP[Hptl] Hrest].
  have Hsz : size (b' ++ a) = n.+1.
    by move: Hm; rewrite Em !size_cat /= addnS => -[].
  case Erest : (b' ++ a) (Hsz) => [|c rest'] // _.
  rewrite -[_ :: map _ _]/(map (belim piv ptl prev) (c :: rest')) -Erest.
  set neg' := if Nat.odd _ then _ else _.
  set rest := b' ++ a in Hsz HM1 dM1 EM1 Hrest *.
  set M1 := mxP n.+2 ((piv :: ptl) :: rest) in HM1 dM1 EM1.
  have HE := mxP_elim Hptl Hsz Hrest a0 d0 HM1.
  have M00 : M1 0 0 = Poly piv by rewrite mxE.
  have d0' : M1 0 0 != 0 by rewrite M00.
  have Hmin := bareiss_step_minors a0 HM1 d0' HE.
  rewrite M00 in Hmin.
  have Hsz' : size (map (belim piv ptl prev) rest) = n.+1 by rewrite size_map.
  have Hall' : all (fun r : seq (seq Z) => size r == n.+1) (map (belim piv ptl prev) rest).
    rewrite all_map; apply/allP => x Hx /=; have /eqP := allP Hrest x Hx.
    by case: x {Hx} => [|h tl] //= [Htl]; rewrite size_belim Htl Hptl minnn.
  have Hf' : (n < f)%N by [].
  have := IH f _ piv neg' Hf' Hsz' Hall' d0 Hmin.
  set res := Poly (pdet_bareiss _ _ _ _) => Hres.
  apply: (@signr_addb_odd _ neg (size b')); rewrite -/neg' -[odd (size b')]/(odd i0) -dM1.
  have Hr2 : M1 0 0 ^+ n * ((-1) ^+ neg' * res) = \det (mxP n.+1 (map (belim piv ptl prev) rest)).
    by rewrite M00 mulrCA Hres mulrA -expr2 sqrr_sign mul1r.
  rewrite -(bareiss_step_result d0' HE Hr2) [in RHS]mulrCA; congr (_ * _).
  by rewrite mulrA -expr2 sqrr_sign mul1r.
Qed.

(* G1: the fraction-free determinant with row pivoting is the determinant *)
Theorem pdet_fast_det n (m : seq (seq (seq Z))) :
  size m = n -> all (fun r : seq (seq Z) => size r == n) m ->
  Poly (pdet_fast m) = \det (mxP n m).
Proof.
case: n => [|n] Hm Hall; rewrite /pdet_fast.
  by case: m Hm Hall => // _ _; rewrite det_mx00 /= cons_poly_def mul0r add0r.
have H1 : Poly [:: Zpos xH] = 1 :> {poly Z} by rewrite /= cons_poly_def mul0r add0r.
have a0 : Poly [:: Zpos xH] != 0 :> {poly Z} by rewrite H1 oner_neq0.
have HM : minors_dvd (Poly [:: Zpos xH]) (mxP n.+1 m) by rewrite H1; exact: minors_dvd1.
have Hf : (n < (length m).+1)%N by rewrite [length m]Hm.
have := pdet_bareiss_spec false Hf Hm Hall a0 HM.
by rewrite H1 expr1n mul1r expr0 mul1r.
Qed.
