(* C11 / C12 shared model (stdlib only, no proofs here).

   (a) The order-theoretic half of
         lp_polynomial_constraint_get_feasible_set        (src/polynomial/polynomial.c)
         lp_polynomial_root_constraint_get_feasible_set
         lp_polynomial_constraint_evaluate / lp_polynomial_root_constraint_evaluate
         poly::infeasible_regions                          (src/polyxx/polynomial.cpp)
       parametrised by an ORACLE for the analytic half: the isolated roots, the degree under the model
       (coefficient_degree_m), the sign of the first non-vanishing coefficient and the sign of the
       polynomial at a point between consecutive roots (coefficient_sgn).
   (b) The assembly of lp_polynomial_roots_isolate: per-factor root lists, the "constant factor of
       sign 0" exit, qsort + removal of duplicates; and the candidate filter of coefficient_roots_isolate.

   The carrier T of values is abstract (Section variable with a three-way comparison); the checks run
   the extracted functions on Z ranks, the theorems hold for every totally ordered carrier. *)
From Coq Require Import ZArith List Bool Arith.
Import ListNotations.
Local Open Scope Z_scope.

(* ---- sign conditions: src/utils/sign_condition.c *)
Inductive sign_condition := SC_LT | SC_LE | SC_EQ | SC_NE | SC_GT | SC_GE.

Definition sc_negate (sc : sign_condition) : sign_condition :=
  match sc with
  | SC_LT => SC_GE
  | SC_LE => SC_GT
  | SC_EQ => SC_NE
  | SC_NE => SC_EQ
  | SC_GT => SC_LE
  | SC_GE => SC_LT
  end.

Definition sc_consistent (sc : sign_condition) (sign : Z) : bool :=
  match sc with
  | SC_LT => sign <? 0
  | SC_LE => sign <=? 0
  | SC_EQ => sign =? 0
  | SC_NE => negb (sign =? 0)
  | SC_GT => 0 <? sign
  | SC_GE => 0 <=? sign
  end.

Definition Z_of_cmp (c : comparison) : Z := match c with Lt => -1 | Eq => 0 | Gt => 1 end.

Section Carrier.
Variable T : Type.
Variable cmp : T -> T -> comparison.

(* lp_value_t end points: a finite value or one of the infinities *)
Inductive ext := NegInf | Finite (t : T) | PosInf.

Definition ext_cmp (a b : ext) : comparison :=
  match a, b with
  | NegInf, NegInf => Eq
  | NegInf, _ => Lt
  | _, NegInf => Gt
  | PosInf, PosInf => Eq
  | PosInf, _ => Gt
  | _, PosInf => Lt
  | Finite x, Finite y => cmp x y
  end.

(* lp_interval_t: is_point intervals only carry `a` *)
Inductive interval := IPoint (a : ext) | IIv (a : ext) (a_open : bool) (b : ext) (b_open : bool).

(* lp_interval_construct: equal ends give a point.  The two asserts (cmp <= 0; closed ends when equal) are not
   executed in the model: an input violating them is returned as the ill-formed interval it describes, so that
   "the result is well formed" (part of the normal form) proves that the asserts cannot fire. *)
Definition mk_interval (a : ext) (a_open : bool) (b : ext) (b_open : bool) : interval :=
  match ext_cmp a b with
  | Eq => if a_open || b_open then IIv a a_open b b_open else IPoint a
  | _ => IIv a a_open b b_open
  end.
Definition mk_point (a : ext) : interval := IPoint a.
Definition full_interval : interval := mk_interval NegInf true PosInf true.   (* lp_feasibility_set_new_full *)

Definition iv_lower (i : interval) : ext := match i with IPoint a => a | IIv a _ _ _ => a end.
Definition iv_lower_open (i : interval) : bool := match i with IPoint _ => false | IIv _ ao _ _ => ao end.
Definition iv_upper (i : interval) : ext := match i with IPoint a => a | IIv _ _ b _ => b end.
Definition iv_upper_open (i : interval) : bool := match i with IPoint _ => false | IIv _ _ _ bo => bo end.

(* membership of a finite value (specification side; the library's binary search is C13's subject) *)
Definition above_lower (a : ext) (a_open : bool) (v : T) : bool :=
  match ext_cmp a (Finite v) with Lt => true | Eq => negb a_open | Gt => false end.
Definition below_upper (b : ext) (b_open : bool) (v : T) : bool :=
  match ext_cmp (Finite v) b with Lt => true | Eq => negb b_open | Gt => false end.
Definition iv_contains (i : interval) (v : T) : bool :=
  match i with
  | IPoint a => match ext_cmp a (Finite v) with Eq => true | _ => false end
  | IIv a ao b bo => above_lower a ao v && below_upper b bo v
  end.
Definition set_contains (s : list interval) (v : T) : bool := existsb (fun i => iv_contains i v) s.

(* normal form, as a boolean checker (run on the implementation's output) *)
Definition iv_wf (i : interval) : bool :=
  match i with
  | IPoint (Finite _) => true
  | IPoint _ => false
  | IIv a ao b bo =>
    match ext_cmp a b with Lt => true | _ => false end &&
    (match a with NegInf => ao | _ => true end) && (match b with PosInf => bo | _ => true end)
  end.
(* i strictly before j and not mergeable with it *)
Definition iv_before (i j : interval) : bool :=
  match ext_cmp (iv_upper i) (iv_lower j) with
  | Lt => true
  | Eq => iv_upper_open i && iv_lower_open j
  | Gt => false
  end.
Fixpoint set_nf (s : list interval) : bool :=
  match s with
  | [] => true
  | i :: s' => iv_wf i && (match s' with [] => true | j :: _ => iv_before i j end) && set_nf s'
  end.

(* ================================================================ lp_polynomial_constraint_get_feasible_set *)

Definition upd {A} (l : list A) (k : nat) (x : A) : list A :=
  firstn k l ++ match skipn k l with [] => [] | _ :: t => x :: t end.

(* the signs array; statement order of the C code:
     signs[0] = degree % 2 ? -sgn_lc : sgn_lc;  signs[signs_size-1] = sgn_lc;
     for i < roots_size: signs[2i+1] = 0; if (i+1 < roots_size) signs[2i+2] = sgn at a point between roots i, i+1 *)
Fixpoint signs_loop (n : nat) (i : nat) (k : nat) (sign_mid : nat -> Z) (signs : list Z) : list Z :=
  match k with
  | O => signs
  | S k' =>
    let signs := upd signs (2 * i + 1) 0 in
    let signs := if Nat.ltb (i + 1) n then upd signs (2 * i + 2) (sign_mid i) else signs in
    signs_loop n (S i) k' sign_mid signs
  end.
Definition build_signs (n degree : nat) (sgn_lc : Z) (sign_mid : nat -> Z) : list Z :=
  let signs_size := (2 * n + 1)%nat in
  let signs := repeat 0 signs_size in
  let signs := upd signs 0 (if Nat.odd degree then - sgn_lc else sgn_lc) in
  let signs := upd signs (signs_size - 1) sgn_lc in
  signs_loop n 0 n sign_mid signs.

(* for (; i < size && f(i); i++) {}   with at most k steps left *)
Fixpoint scan (f : nat -> bool) (i k : nat) : nat :=
  match k with
  | O => i
  | S k' => if f i then scan f (S i) k' else i
  end.

Definition root_at (roots : list T) (i : nat) : ext :=
  match nth_error roots i with Some r => Finite r | None => PosInf end.   (* out of range is never read *)

(* the body that builds one interval from the run [lb, ub) of consistent cells *)
Definition run_interval (roots : list T) (signs_size lb ub : nat) : interval :=
  if Nat.eqb lb (ub + 1) && Nat.odd lb then
    mk_point (root_at roots (lb / 2))                       (* never taken: lb < ub; kept as in the code *)
  else
    let '(lb_value, lb_strict) :=
      if Nat.eqb (lb mod 2) 1 then (root_at roots (lb / 2), false)
      else if Nat.eqb lb 0 then (NegInf, true)
      else (root_at roots ((lb - 1) / 2), true) in
    let '(ub_value, ub_strict) :=
      if Nat.eqb (ub mod 2) 0 then (root_at roots ((ub - 1) / 2), false)
      else if Nat.eqb ub signs_size then (PosInf, true)
      else (root_at roots (ub / 2), true) in
    mk_interval lb_value lb_strict ub_value ub_strict.

(* the collecting loop; fuel = signs_size + 1 always suffices (every round advances lb) *)
Fixpoint collect_runs (fuel : nat) (roots : list T) (cons : nat -> bool) (signs_size lb : nat) : list interval :=
  match fuel with
  | O => []
  | S f =>
    if Nat.ltb lb signs_size then
      let lb := scan (fun i => negb (cons i)) lb (signs_size - lb) in
      if Nat.ltb lb signs_size then
        let ub := scan cons (lb + 1) (signs_size - (lb + 1)) in
        run_interval roots signs_size lb ub :: collect_runs f roots cons signs_size ub
      else []
    else []
  end.
(* the counting loop that sizes the result (same control structure) *)
Fixpoint count_runs (fuel : nat) (cons : nat -> bool) (signs_size lb : nat) : nat :=
  match fuel with
  | O => O
  | S f =>
    if Nat.ltb lb signs_size then
      let lb := scan (fun i => negb (cons i)) lb (signs_size - lb) in
      if Nat.ltb lb signs_size then
        let ub := scan cons (lb + 1) (signs_size - (lb + 1)) in
        S (count_runs f cons signs_size ub)
      else O
    else O
  end.

(* degree = coefficient_degree_m; sgn_const = sign of the constant coefficient (read when degree = 0);
   sgn_lc = sign of the coefficient of y^degree; sign_mid i = sign between roots i and i+1 *)
Definition constraint_feasible_set (roots : list T) (degree : nat) (sgn_const sgn_lc : Z) (sign_mid : nat -> Z)
           (sc : sign_condition) (negated : bool) : list interval :=
  let sc := if negated then sc_negate sc else sc in
  if Nat.eqb degree 0 then
    if sc_consistent sc sgn_const then [full_interval] else []
  else
    let n := length roots in
    let signs_size := (2 * n + 1)%nat in
    let signs := build_signs n degree sgn_lc sign_mid in
    let cons := fun i => sc_consistent sc (nth i signs 0) in
    collect_runs (S signs_size) roots cons signs_size 0.

Definition constraint_feasible_count (n degree : nat) (sgn_lc : Z) (sign_mid : nat -> Z)
           (sc : sign_condition) (negated : bool) : nat :=
  let sc := if negated then sc_negate sc else sc in
  let signs_size := (2 * n + 1)%nat in
  let signs := build_signs n degree sgn_lc sign_mid in
  count_runs (S signs_size) (fun i => sc_consistent sc (nth i signs 0)) signs_size 0.

(* ================================================================ lp_polynomial_root_constraint_get_feasible_set *)
Definition root_constraint_feasible_set (roots : list T) (degree : nat) (root_index : nat)
           (sc : sign_condition) (negated : bool) : list interval :=
  if Nat.eqb degree 0 then
    if negb negated then [] else [full_interval]
  else if Nat.leb (length roots) root_index then
    if negb negated then [] else [full_interval]
  else
    let sc := if negated then sc_negate sc else sc in
    let r := root_at roots root_index in
    match sc with
    | SC_LT => [mk_interval NegInf true r true]
    | SC_LE => [mk_interval NegInf true r false]
    | SC_EQ => [mk_point r]
    | SC_NE => [mk_interval NegInf true r true; mk_interval r true PosInf true]
    | SC_GT => [mk_interval r true PosInf true]
    | SC_GE => [mk_interval r false PosInf true]
    end.

(* ================================================================ truth-value evaluators *)
(* lp_polynomial_constraint_evaluate: sign of A at the full assignment *)
Definition constraint_evaluate (sc : sign_condition) (sgn : Z) : bool := sc_consistent sc sgn.
(* lp_polynomial_root_constraint_evaluate: y compared with the k-th root; false when there are fewer roots *)
Definition root_constraint_evaluate (roots : list T) (root_index : nat) (sc : sign_condition) (y : T) : bool :=
  match nth_error roots root_index with
  | Some r => sc_consistent sc (Z_of_cmp (cmp y r))
  | None => false
  end.

(* ================================================================ poly::infeasible_regions (complement sweep) *)
Fixpoint infeasible_loop (feasible : list interval) (last_value : ext) (last_open : bool) : list interval :=
  match feasible with
  | [] =>
    match last_value with
    | PosInf => []
    | _ => [mk_interval last_value (negb last_open) PosInf true]
    end
  | cur :: rest =>
    let lower := iv_lower cur in
    let region :=
      match lower with
      | NegInf => []
      | _ =>
        match ext_cmp last_value lower with
        | Lt => [mk_interval last_value (negb last_open) lower (negb (iv_lower_open cur))]
        | Eq => if last_open && iv_lower_open cur then [mk_point last_value] else []
        | Gt => []
        end
      end in
    let '(lv, lo) := match cur with IPoint _ => (lower, false) | IIv _ _ b bo => (b, bo) end in
    region ++ infeasible_loop rest lv lo
  end.
Definition infeasible_regions (feasible : list interval) : list interval := infeasible_loop feasible NegInf false.

(* ================================================================ lp_polynomial_roots_isolate: assembly *)
(* what the per-factor loop sees: a factor in y with its isolated roots, or a factor without y with its sign *)
Inductive factor_result := FRoots (l : list T) | FConst (sgn : Z).

(* for (factor_i ...) { if top == x: append roots; else if sgn == 0 { clear; break; } } *)
Fixpoint gather_roots (fs : list factor_result) (tmp : list T) : list T :=
  match fs with
  | [] => tmp
  | FRoots l :: fs' => gather_roots fs' (tmp ++ l)
  | FConst s :: fs' => if s =? 0 then [] else gather_roots fs' tmp
  end.

(* qsort with lp_value_cmp: any correct sort gives the same list up to the order of equal elements, which the
   duplicate removal below erases; the model uses insertion sort *)
Fixpoint insert_sorted (x : T) (l : list T) : list T :=
  match l with
  | [] => [x]
  | y :: l' => match cmp x y with Gt => y :: insert_sorted x l' | _ => x :: l end
  end.
Definition sort_values (l : list T) : list T := fold_right insert_sorted [] l.

(* for (to_keep = 1, i = 1; i < size; ++i) if (cmp(roots[i], roots[to_keep-1]) != 0) roots[to_keep++] = roots[i]; *)
Fixpoint dedup_from (last : T) (l : list T) : list T :=
  match l with
  | [] => []
  | x :: l' => match cmp x last with Eq => dedup_from last l' | _ => x :: dedup_from x l' end
  end.
Definition dedup_sorted (l : list T) : list T :=
  match l with [] => [] | x :: l' => x :: dedup_from x l' end.

Definition roots_isolate_assemble (fs : list factor_result) : list T :=
  let tmp := gather_roots fs [] in
  match tmp with
  | [] => []
  | _ => dedup_sorted (sort_values tmp)
  end.

(* coefficient_roots_isolate, last regime: keep the candidates (roots of the eliminant) where sgn = 0 *)
Definition filter_candidates (sgn_at : T -> Z) (candidates : list T) : list T :=
  filter (fun r => sgn_at r =? 0) candidates.

(* the regimes of coefficient_roots_isolate as control flow over what the lower layers report *)
Record cri_view := {
  cv_deg_rat : nat;            (* degree in x of the rational evaluation A_rat *)
  cv_univariate : bool;        (* A_rat is univariate *)
  cv_uni_roots : list T;       (* ... then these are its roots *)
  cv_top_is_x : bool;          (* A_rat still has x on top *)
  cv_alg_zero : bool;          (* the eliminant A_alg vanished *)
  cv_norm_const : bool;        (* ... and A_rat normalised by the model is constant *)
  cv_rec_roots : list T;       (* ... else the roots found by the recursive call with a fresh leading coefficient *)
  cv_alg_const : bool;         (* the eliminant is a non-zero constant *)
  cv_candidates : list T;      (* roots of the eliminant *)
  cv_sgn_at : T -> Z           (* sign of A_rat at a candidate *)
}.
Definition coefficient_roots_isolate_flow (v : cri_view) : list T :=
  if Nat.eqb (cv_deg_rat v) 0 then []
  else if cv_univariate v then cv_uni_roots v
  else if negb (cv_top_is_x v) then []
  else if cv_alg_zero v then (if cv_norm_const v then [] else cv_rec_roots v)
  else if cv_alg_const v then []
  else filter_candidates (cv_sgn_at v) (cv_candidates v).

End Carrier.

Arguments NegInf {T}.
Arguments PosInf {T}.
Arguments Finite {T} t.
Arguments IPoint {T} a.
Arguments IIv {T} a a_open b b_open.
Arguments FRoots {T} l.
Arguments FConst {T} sgn.

(* ---- instances on Z ranks, used by the model drivers *)
Definition zcmp (a b : Z) : comparison := Z.compare a b.
Definition z_constraint_feasible_set := constraint_feasible_set Z zcmp.
Definition z_constraint_feasible_count := constraint_feasible_count.
Definition z_root_constraint_feasible_set := root_constraint_feasible_set Z zcmp.
Definition z_root_constraint_evaluate := root_constraint_evaluate Z zcmp.
Definition z_infeasible_regions := infeasible_regions Z zcmp.
Definition z_set_nf := set_nf Z zcmp.
Definition z_set_contains := set_contains Z zcmp.
Definition z_roots_isolate_assemble := roots_isolate_assemble Z zcmp.
