(* All real roots of a polynomial by the reference (RefAlg.rn_roots / rn_isolate: Cauchy bound, Sturm counts on
   half-open intervals, bisection, splitting off rational roots hit by a midpoint): WHEN it answers, the answer denotes
   exactly the real roots of the polynomial, in increasing order, in every real closed field. *)
From Coq Require Import ZArith Lia.
From LP Require Import Scalar UPoly RootIso RefAlg Gcd.
Set Warnings "-notation-overridden,-ambiguous-paths".
From mathcomp Require Import all_ssreflect all_algebra all_field all_real_closed.
From mathcomp Require Import ssrZ zify ring.
Set Warnings "notation-overridden,ambiguous-paths".
From LP Require Import UPolySpec ScalarProofs GcdSpec RefAlgSpec RefAlgLoops RefAlgOps RefAlgDet RefAlgAnn RefAlgArith RefAlgSqfree.
From LP Require RootIsoProofs SturmItv RefAlgValid.
Import GRing.Theory Num.Theory Num.Def Order.TTheory Pdiv.Field.
Set Implicit Arguments.
Unset Strict Implicit.
Unset Printing Implicit Defensive.
Local Open Scope ring_scope.
Ltac Zify.zify_post_hook ::= Z.div_mod_to_equations.

Section Cauchy.
Variable R : rcfType.
Local Notation zr := (@zr R).
Local Notation pr := (@pr R).

Lemma zr_abs (c : Z) : `|zr c| = zr (Z.abs c).
Proof.
case: (Z.abs_spec c) => [[H ->]|[H ->]].
  by rewrite ger0_norm // -(zr0 R) zr_le; apply/Z.leb_le.
by rewrite ltr0_norm ?zrN // -(zr0 R) zr_lt; apply/Z.ltb_lt.
Qed.

Lemma List_last_last (s : seq Z) : List.last s Z0 = last Z0 s.
Proof. by elim: s => [|a [|b s] IH]. Qed.

Lemma pmaxabs_ge (l : seq Z) (c : Z) : c \in l -> Z.le (Z.abs c) (pmaxabs l).
Proof.
elim: l => [|d l IH] //; rewrite inE /pmaxabs /= -/(pmaxabs l) => /orP[/eqP ->|/IH H]; lia.
Qed.

(* Horner from the top: beyond 1 + M/L the value stays at least L = |leading coefficient| *)
Lemma cauchy_horner (l : seq Z) (w L M : R) : l != [::] -> L = `|zr (last Z0 l)| ->
  (forall c, c \in l -> `|zr c| <= M) -> M <= (`|w| - 1) * L -> L <= `|(pr l).[w]|.
Proof.
move=> + EL; elim: l EL => [|c [|c' l] IH] // EL _ HM Hw.
  by rewrite pr_cons pr_nil mul0r addr0 hornerC EL.
have HM' d : d \in c' :: l -> `|zr d| <= M by move=> Hd; apply: HM; rewrite inE Hd orbT.
have IH' := IH EL isT HM' Hw.
rewrite pr_cons hornerD hornerC hornerMX.
have L0 : 0 <= L by rewrite EL.
have Hc : `|zr c| <= M by apply: HM; rewrite mem_head.
have H1 : L * `|w| <= `|(pr (c' :: l)).[w] * w|.
  by rewrite normrM ler_wpmul2r.
have H2 : `|(pr (c' :: l)).[w] * w| - `|zr c| <= `|zr c + (pr (c' :: l)).[w] * w|.
  by have := ler_sub_dist ((pr (c' :: l)).[w] * w) (- zr c); rewrite normrN opprK [_ * w + _]addrC.
apply: le_trans H2; rewrite ler_subr_addr; apply: le_trans H1.
rewrite -ler_subr_addl; apply: le_trans Hc _; apply: le_trans Hw _.
by rewrite mulrBl mul1r mulrC.
Qed.

Lemma root_bound_spec (p : seq Z) (w : R) : Poly p != 0 -> zr (root_bound p) <= `|w| -> ~~ root (pr p) w.
Proof.
move=> p0; rewrite /root_bound; set pn := pnorm p.
have Epn : pr pn = pr p by rewrite /RefAlgSpec.pr Poly_pnorm.
have pn0 : pn != [::] by apply/eqP => /pnorm_nilP/eqP; rewrite (negbTE p0).
have lc0 : plc pn != 0 by apply: GcdSpec.plc_neq0; rewrite Poly_pnorm.
have Elc : plc pn = last Z0 pn by rewrite /plc GcdSpec.pnorm_idem List_last_last.
set L := Z.abs (plc pn); set M := pmaxabs pn.
have Lpos : Z.lt 0 L by rewrite /L; move/eqP: lc0; lia.
have -> : Z.eqb L Z0 = false by apply/Z.eqb_neq; lia.
move=> Hw; rewrite rootE -Epn -normr_gt0.
have HB : Z.le M (Z.mul (Z.sub (Z.add (Zpos xH) (Z.div (Z.sub (Z.add M L) (Zpos xH)) L)) (Zpos xH)) L).
  have M0 : Z.le 0 M by rewrite /M; elim: (pn) => [|d s IHs] //=; lia.
  nia.
apply: (@lt_le_trans _ _ (zr L)); first by rewrite -(zr0 R) zr_lt; apply/Z.ltb_lt.
apply: (@cauchy_horner pn w (zr L) (zr M)) => //.
- by rewrite /L -zr_abs Elc.
- by move=> c Hc; rewrite zr_abs zr_le; apply/Z.leb_le; exact: pmaxabs_ge.
- apply: le_trans (_ : (zr (Z.add (Zpos xH) (Z.div (Z.sub (Z.add M L) (Zpos xH)) L)) - 1) * zr L <= _).
    by rewrite -zr1 -(rmorphB (zr_rmorphism R)) -zrM zr_le; apply/Z.leb_le.
  by rewrite ler_wpmul2r ?ler_sub // -(zr0 R) zr_le; apply/Z.leb_le; lia.
Qed.

Theorem root_bound_lt (p : seq Z) (w : R) : Poly p != 0 -> root (pr p) w -> `|w| < zr (root_bound p).
Proof. by move=> p0 rw; rewrite ltNge; apply: contraL rw; exact: root_bound_spec. Qed.

End Cauchy.

Section Isolate.
Variable R : rcfType.
Local Notation zr := (@zr R).
Local Notation pr := (@pr R).
Local Notation qr := (@qr R).
Local Notation rn_denotes := (@rn_denotes R).

(* the list of reference numbers rs denotes the list of reals vs, element by element *)
Fixpoint dens (rs : seq rnum) (vs : seq R) : Prop :=
  match rs, vs with
  | [::], [::] => Logic.True
  | x :: rs', v :: vs' => rn_denotes x v /\ dens rs' vs'
  | _, _ => Logic.False
  end.

Lemma dens_cat rs1 vs1 rs2 vs2 : dens rs1 vs1 -> dens rs2 vs2 -> dens (rs1 ++ rs2) (vs1 ++ vs2).
Proof. by elim: rs1 vs1 => [|x rs1 IH] [|v vs1] //= [Hx H1] H2; split=> //; exact: IH. Qed.

Lemma dens_filter (a : pred rnum) (b : pred R) rs vs :
  (forall x v, rn_denotes x v -> a x = b v) -> dens rs vs -> dens (filter a rs) (filter b vs).
Proof.
move=> Hab; elim: rs vs => [|x rs IH] [|v vs] //= [Hx H].
by rewrite (Hab _ _ Hx); case: (b v) => /=; [split=> //|]; exact: IH.
Qed.

Lemma dens_size rs vs : dens rs vs -> size rs = size vs.
Proof. by elim: rs vs => [|x rs IH] [|v vs] //= [_ /IH ->]. Qed.

(* vs lists, in increasing order, the roots of p in the half-open interval (lo, hi] *)
Definition isolated (p : seq Z) (lo hi : R) (vs : seq R) : Prop :=
  pairwise <%R vs /\ forall w, (w \in vs) = root (pr p) w && (lo < w <= hi).

Lemma simple_of_sep (P : {poly R}) : coprimep P P^`() -> forall x, root P x -> ~~ root P^`() x.
Proof. by move=> Hs x rx; rewrite rootE; exact: (Pdiv.Idomain.coprimep_root Hs rx). Qed.

Lemma isolated_filter (p : seq Z) (lo hi : Z * Z) : Poly p != 0 ->
  isolated p (qr lo) (qr hi) [seq x <- rootsR (pr p) | qr lo < x <= qr hi].
Proof.
move=> p0; have P0 : pr p != 0 by rewrite pr_eq0.
split; last by move=> w; rewrite mem_filter (RootIsoProofs.in_rootsR _ P0) andbC.
by rewrite -(sorted_pairwise lt_trans); apply: (sorted_filter lt_trans); exact: sorted_roots.
Qed.

Lemma count_oc_size (p : seq Z) (lo hi : Z * Z) : Poly p != 0 -> coprimep (pr p) (pr p)^`() ->
  qpos lo -> qpos hi -> qr lo < qr hi ->
  count_roots_oc p (xr lo) (xr hi) = size [seq x <- rootsR (pr p) | qr lo < x <= qr hi].
Proof.
move=> p0 Hsq Hlo Hhi lh.
have p0' : ~~ pis_zero p by apply/negP => /pis_zeroP/eqP; rewrite (negbTE p0).
exact: (SturmItv.count_roots_oc_fin_simple p0' (simple_of_sep Hsq) (RefAlgValid.qpos_gt0 Hlo) (RefAlgValid.qpos_gt0 Hhi) lh).
Qed.

Lemma isolated_mem_eq p lo hi vs vs' : isolated p lo hi vs -> isolated p lo hi vs' -> vs = vs'.
Proof.
move=> [s1 m1] [s2 m2]; apply: lt_sorted_eq; rewrite ?(sorted_pairwise lt_trans) //.
by move=> w; rewrite m1 m2.
Qed.

Lemma pdiv_exact_sound' (a b q : seq Z) : pdiv_exact a b = Some q -> Poly a = Poly b * Poly q.
Proof.
rewrite /pdiv_exact; case E: (pnorm b) => [|c t] //.
case E2: (pdiv_exact_aux _ _ _ _ _ _) => [q1|] // [<-].
move/pdiv_exact_aux_sound: E2; rewrite -E !Poly_pnorm /= mul0r add0r => <-.
by rewrite mulrC.
Qed.

Lemma root_lin (m : Z * Z) (w : R) : qpos m -> root (pr (ppp [:: Z.opp m.1; m.2])) w = (w == qr m).
Proof.
move=> Hm; rewrite (eqp_root (pr_ppp_eqp R _)) rootE !pr_cons pr_nil mul0r addr0 hornerD hornerC hornerMX hornerC.
have d0 : zr m.2 != 0 by rewrite gt_eqF // zr_gt0.
rewrite zrN addrC subr_eq0 /RefAlgSpec.qr.
by rewrite mulrC -[RHS](inj_eq (mulIf d0)) divfK.
Qed.

Lemma rn_cmp_q_lt (x : rnum) (m : Z * Z) (v : R) : rn_denotes x v -> qpos m ->
  Z.ltb (rn_cmp_q x m) Z0 = (v < qr m).
Proof. by move=> Hx Hm; rewrite -(zr_lt0 R) (rn_cmp_q_spec Hx Hm) sgr_lt0 subr_lt0. Qed.

Lemma rn_cmp_q_gt (x : rnum) (m : Z * Z) (v : R) : rn_denotes x v -> qpos m ->
  Z.ltb Z0 (rn_cmp_q x m) = (qr m < v).
Proof. by move=> Hx Hm; rewrite -(zr_lt R) zr0 (rn_cmp_q_spec Hx Hm) sgr_gt0 subr_gt0. Qed.

Lemma rn_isolate_S f p lo hi :
  rn_isolate f.+1 p lo hi =
  match count_roots_oc p (xr lo) (xr hi) with
  | O => Some [::]
  | S O => if Z.eqb (psgn_q p hi) Z0 then Some [:: RQ hi] else Some [:: RA p lo hi]
  | _ =>
    let m := q_mid lo hi in
    if Z.eqb (psgn_q p m) Z0 then
      match pdiv_exact p (ppp [:: Z.opp m.1; m.2]) with
      | Some p' =>
        match rn_isolate f p' lo hi with
        | Some rs => Some (filter (fun r => Z.ltb (rn_cmp_q r m) Z0) rs ++ [:: RQ m] ++
                           filter (fun r => Z.ltb Z0 (rn_cmp_q r m)) rs)
        | None => None
        end
      | None => None
      end
    else
      match rn_isolate f p lo m, rn_isolate f p m hi with
      | Some l, Some r => Some (l ++ r)
      | _, _ => None
      end
  end.
Proof. by []. Qed.

Theorem rn_isolate_spec fuel : forall (p : seq Z) (lo hi : Z * Z) (rs : seq rnum),
  Poly p != 0 -> coprimep (pr p) (pr p)^`() -> qpos lo -> qpos hi -> qr lo < qr hi -> (pr p).[qr lo] != 0 ->
  rn_isolate fuel p lo hi = Some rs -> exists2 vs, dens rs vs & isolated p (qr lo) (qr hi) vs.
Proof.
elim: fuel => [|f IH] p lo hi rs // p0 Hsq Hlo Hhi lh Pl.
rewrite rn_isolate_S (count_oc_size p0 Hsq Hlo Hhi lh).
have := isolated_filter lo hi p0.
case: [seq x <- rootsR _ | _] => [|v [|v2 S']] HS.
- by case=> <-; exists [::].
- (* exactly one root in (lo, hi] *)
  have [_ Hmem] := HS.
  rewrite (psgn_q_neq0 R p Hhi); case: (altP ((pr p).[qr hi] =P 0)) => [Ph|Ph] [<-]; exists [:: v] => //.
    have : qr hi \in [:: v] by rewrite Hmem rootE Ph eqxx lh lexx.
    by rewrite inE => /eqP <-.
  split=> //.
  have : v \in [:: v] by rewrite mem_head.
  rewrite Hmem => /andP[rv /andP[lov vhi]].
  have vhi' : v < qr hi.
    by rewrite lt_neqAle vhi andbT; apply: contraNneq Ph => <-; rewrite -rootE.
  apply: denotes_of_sqfree => //; first by rewrite lov vhi'.
  move=> w rw /andP[low whi].
  by have : w \in [:: v]; [rewrite Hmem rw low (ltW whi)|rewrite inE => /eqP].
(* at least two roots: bisect *)
have [Hm Em] := qr_mid R Hlo Hhi.
set m := q_mid lo hi in Hm Em *.
have lom : qr lo < qr m by rewrite Em ltr_pdivl_mulr ?ltr0n // mulr_natr mulr2n ltr_add2l.
have mhi : qr m < qr hi by rewrite Em ltr_pdivr_mulr ?ltr0n // mulr_natr mulr2n ltr_add2r.
rewrite [if _ then _ else _]/= (psgn_q_neq0 R p Hm); case: (altP ((pr p).[qr m] =P 0)) => [Pm|Pm].
- (* the midpoint is a root: split it off *)
  case Ed: (pdiv_exact p _) => [p'|] //; case Er: (rn_isolate f p' lo hi) => [rs'|] // [<-].
  have Ep := pdiv_exact_sound' Ed.
  set L := ppp [:: Z.opp m.1; m.2] in Ep.
  have EpR : pr p = pr L * pr p'.
    by rewrite /RefAlgSpec.pr Ep (rmorphM (map_poly_rmorphism (zr_rmorphism R))).
  have p'0 : Poly p' != 0 by apply: contraNneq p0 => E; rewrite Ep E mulr0.
  have sepLp : separable_poly (pr L * pr p') by rewrite -EpR.
  have /and3P[_ sep' copLp] : [&& separable_poly (pr L), separable_poly (pr p') & coprimep (pr L) (pr p')].
    by rewrite -separable_mul.
  have Pl' : (pr p').[qr lo] != 0.
    by apply: contraNneq Pl => E; rewrite EpR hornerM E mulr0.
  have [vs' Hd' [Hp' Hm']] := IH p' lo hi rs' p'0 sep' Hlo Hhi lh Pl' Er.
  have rootL w : root (pr L) w = (w == qr m) by exact: root_lin.
  have nrm : ~~ root (pr p') (qr m).
    by rewrite rootE; apply: (Pdiv.Idomain.coprimep_root copLp); rewrite rootL.
  have rootp w : root (pr p) w = (w == qr m) || root (pr p') w by rewrite EpR rootM rootL.
  exists ([seq w <- vs' | w < qr m] ++ qr m :: [seq w <- vs' | qr m < w]).
    apply: dens_cat; first by apply: dens_filter Hd' => x u Hx; exact: rn_cmp_q_lt.
    by split=> //; apply: dens_filter Hd' => x u Hx; exact: rn_cmp_q_gt.
  split.
    rewrite pairwise_cat pairwise_cons !pairwise_filter // andbT filter_all !andbT.
    apply/allrelP => x y; rewrite mem_filter inE => /andP[xm _] /orP[/eqP -> //|].
    by rewrite mem_filter => /andP[my _]; exact: lt_trans xm my.
  move=> w; rewrite mem_cat inE !mem_filter Hm' rootp.
  case: (ltgtP w (qr m)) => [wm|mw|->] /=; rewrite ?orbF //.
  by rewrite lom (ltW mhi).
(* the midpoint is not a root: isolate on both halves *)
case E1: (rn_isolate f p lo m) => [l|] //; case E2: (rn_isolate f p m hi) => [r|] // [<-].
have [vl Hdl [Hpl Hml]] := IH p lo m l p0 Hsq Hlo Hm lom Pl E1.
have [vr Hdr [Hpr Hmr]] := IH p m hi r p0 Hsq Hm Hhi mhi Pm E2.
exists (vl ++ vr); first exact: dens_cat.
split.
  rewrite pairwise_cat Hpl Hpr !andbT; apply/allrelP => x y.
  rewrite Hml Hmr => /andP[_ /andP[_ xm]] /andP[_ /andP[my _]].
  exact: le_lt_trans xm my.
move=> w; rewrite mem_cat Hml Hmr -andb_orr; congr (_ && _).
case: (lerP w (qr m)) => wm; rewrite ?andbT ?andbF ?orbF //=.
  by rewrite (le_trans wm (ltW mhi)) andbT.
by rewrite (lt_trans lom wm).
Qed.

Lemma root_bound_ge1 (p : seq Z) : Z.le (Zpos xH) (root_bound p).
Proof.
rewrite /root_bound; set pn := pnorm p; case: Z.eqb_spec => [_|Hl]; first by [].
have M0 : Z.le 0 (pmaxabs pn) by elim: (pn) => [|d s IHs] //=; lia.
have L0 : Z.lt 0 (Z.abs (plc pn)) by lia.
nia.
Qed.

(* G-roots: all real roots, increasing *)
Theorem rn_roots_spec (fuel : nat) (p : seq Z) (rs : seq rnum) : Poly p != 0 ->
  rn_roots fuel p = Some rs -> exists2 vs, dens rs vs & vs = rootsR (pr p).
Proof.
move=> p0; rewrite /rn_roots; set s := psqfree p.
have [s0 Hsq Hroot] := psqfree_correct R p0; rewrite -/s in s0 Hsq Hroot.
have P0 : pr p != 0 by rewrite pr_eq0.
have S0 : pr s != 0 by rewrite pr_eq0.
have Hfin (vs : seq R) : sorted <%R vs -> (forall w, (w \in vs) = root (pr s) w) -> vs = rootsR (pr p).
  move=> Hs Hm; apply: lt_sorted_eq => //; first exact: sorted_roots.
  by move=> w; rewrite Hm (RootIsoProofs.in_rootsR _ P0) Hroot.
case: ifP => [/Nat.ltb_lt Hd|_].
  case=> <-; exists [::] => //; apply: Hfin => // w; rewrite in_nil; apply/esym/negbTE.
  have Hs1 : (size (pr s) <= 1)%N by rewrite size_pr -ltnS; move: Hd; rewrite pdeg_size; lia.
  by move: S0; rewrite (size1_polyC Hs1) polyC_eq0 rootC => /negbTE ->.
set b := root_bound s; set lo := (Z.opp b, Zpos xH); set hi := (b, Zpos xH).
have b1 := @root_bound_ge1 s; rewrite -/b in b1.
have Hlo : qpos lo by []. have Hhi : qpos hi by [].
have Elo : qr lo = - zr b by rewrite /RefAlgSpec.qr /= zrN zr1 divr1.
have Ehi : qr hi = zr b by rewrite /RefAlgSpec.qr /= zr1 divr1.
have bpos : 0 < zr b by rewrite -(zr0 R) zr_lt; apply/Z.ltb_lt; lia.
have lh : qr lo < qr hi.
  by rewrite Elo Ehi; apply: (@lt_trans _ _ 0) => //; rewrite oppr_lt0.
have Pl : (pr s).[qr lo] != 0.
  by rewrite -rootE Elo; apply: root_bound_spec => //; rewrite normrN gtr0_norm.
move=> /(rn_isolate_spec s0 Hsq Hlo Hhi lh Pl) [vs Hd [Hp Hm]]; exists vs => //.
apply: Hfin; first by rewrite (sorted_pairwise lt_trans).
move=> w; rewrite Hm Elo Ehi; case rw: (root (pr s) w) => //=.
have : ~~ (zr b <= `|w|) by apply: contraL rw; exact: root_bound_spec.
by rewrite -ltNge ltr_norml => /andP[-> /ltW ->].
Qed.

Theorem rn_roots_correct (fuel : nat) (p : seq Z) (rs : seq rnum) : Poly p != 0 ->
  rn_roots fuel p = Some rs -> dens rs (rootsR (pr p)).
Proof. by move=> p0 /(rn_roots_spec p0) [vs Hd <-]. Qed.

End Isolate.
