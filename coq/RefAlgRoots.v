(* All real roots of a polynomial by the reference (RefAlg.rn_roots / rn_isolate: Cauchy bound, Sturm counts on
   half-open intervals, bisection, splitting off rational roots hit by a midpoint): WHEN it answers, the answer denotes
   exactly the real roots of the polynomial, in increasing order, in every real closed field. *)
From Coq Require Import ZArith Lia.
From LP Require Import Scalar UPoly RootIso RefAlg Gcd.
Set Warnings "-notation-overridden,-ambiguous-paths".
From mathcomp Require Import all_ssreflect all_algebra all_field all_real_closed.
From mathcomp Require Import ssrZ zify ring.
Set Warnings "notation-overridden,ambiguous-paths".
From LP Require Import UPolySpec ScalarProofs GcdSpec RefAlgSpec RefAlgLoops RefAlgOps RefAlgDet RefAlgArith RefAlgSqfree.
From LP Require RootIsoProofs SturmItv RefAlgValid.
Import GRing.Theory Num.Theory Num.Def Order.TTheory Pdiv.Field.
Set Implicit Arguments.
Unset Strict Implicit.
Unset Printing Implicit Defensive.
Local Open Scope ring_scope.
Ltac Zify.zify_post_hook ::= Z.div_mod_to_equations.

Section Cauchy.
Variable R : rcfType.
Local Notation zr := (@zr R).
Local Notation pr := (@pr R).

Lemma zr_abs (c : Z) : `|zr c| = zr (Z.abs c).
Proof.
case: (Z.abs_spec c) => [[H ->]|[H ->]].
  by rewrite ger0_norm // -(zr0 R) zr_le; apply/Z.leb_le.
by rewrite ltr0_norm ?zrN // -(zr0 R) zr_lt; apply/Z.ltb_lt.
Qed.

Lemma pmaxabs_ge (l : seq Z) (c : Z) : c \in l -> Z.le (Z.abs c) (pmaxabs l).
Proof.
elim: l => [|d l IH] //; rewrite inE /pmaxabs /= -/(pmaxabs l) => /orP[/eqP ->|/IH H]; lia.
Qed.

(* Horner from the top: beyond 1 + M/L the value stays at least L = |leading coefficient| *)
Lemma cauchy_horner (l : seq Z) (w L M : R) : l != [::] -> L = `|zr (last Z0 l)| ->
  (forall c, c \in l -> `|zr c| <= M) -> M <= (`|w| - 1) * L -> L <= `|(pr l).[w]|.
Proof.
move=> + EL; elim: l EL => [|c [|c' l] IH] // EL _ HM Hw.
  by rewrite pr_cons pr_nil mul0r addr0 hornerC EL.
have IH' := IH EL isT (fun d Hd => HM d (mem_behead Hd)) Hw.
rewrite pr_cons hornerD hornerC hornerMX.
have L0 : 0 <= L by rewrite EL.
have Hc : `|zr c| <= M by apply: HM; rewrite mem_head.
have H1 : L * `|w| <= `|(pr (c' :: l)).[w] * w|.
  by rewrite normrM ler_wpmul2r.
have H2 : `|(pr (c' :: l)).[w] * w| - `|zr c| <= `|zr c + (pr (c' :: l)).[w] * w|.
  by rewrite addrC -[zr c]opprK -(normrN (- zr c)) opprK; exact: ler_sub_dist.
apply: le_trans H2; rewrite ler_subr_addr; apply: le_trans H1.
rewrite -ler_subr_addl; apply: le_trans Hc _; apply: le_trans Hw _.
by rewrite mulrBl mul1r mulrC.
Qed.

Lemma root_bound_spec (p : seq Z) (w : R) : Poly p != 0 -> zr (root_bound p) <= `|w| -> ~~ root (pr p) w.
Proof.
move=> p0; rewrite /root_bound; set pn := pnorm p.
have Epn : pr pn = pr p by rewrite /RefAlgSpec.pr Poly_pnorm.
have pn0 : pn != [::] by apply/eqP => /pnorm_nilP/eqP; rewrite (negbTE p0).
have lc0 : plc pn != 0 by apply: GcdSpec.plc_neq0; rewrite Poly_pnorm.
have Elc : plc pn = last Z0 pn by rewrite /plc GcdSpec.pnorm_idem; case: (pn) => //= a s; elim: s a => //=.
set L := Z.abs (plc pn); set M := pmaxabs pn.
have Lpos : Z.lt 0 L by rewrite /L; move/eqP: lc0; lia.
have -> : Z.eqb L Z0 = false by apply/Z.eqb_neq; lia.
move=> Hw; rewrite rootE -Epn -normr_gt0.
have HB : Z.le M (Z.mul (Z.sub (Z.add (Zpos xH) (Z.div (Z.sub (Z.add M L) (Zpos xH)) L)) (Zpos xH)) L).
  have M0 : Z.le 0 M by rewrite /M; elim: (pn) => [|d s IHs] //=; lia.
  nia.
apply: (@lt_le_trans _ _ (zr L)); first by rewrite -(zr0 R) zr_lt; apply/Z.ltb_lt.
apply: (@cauchy_horner pn w (zr L) (zr M)) => //.
- by rewrite /L -zr_abs Elc.
- by move=> c Hc; rewrite zr_abs zr_le; apply/Z.leb_le; exact: pmaxabs_ge.
- apply: le_trans (_ : (zr (Z.add (Zpos xH) (Z.div (Z.sub (Z.add M L) (Zpos xH)) L)) - 1) * zr L <= _).
    by rewrite -zr1 -(rmorphB (zr_rmorphism R)) -zrM zr_le; apply/Z.leb_le.
  by rewrite ler_wpmul2r ?ler_sub // -(zr0 R) zr_le; apply/Z.leb_le; lia.
Qed.

End Cauchy.
