(* Property C08: the abstract line of ValueProofs.v instantiated with the REAL numbers.
   Carrier: an arbitrary real closed field R (MathComp rcfType).  Integers, dyadics and rationals are embedded by
   zr / qr of RefAlgSpec.v, an algebraic payload x denotes THE real number v with rn_denotes x v (RefAlgSpec.v), and
   every premise of `line_ok` about the payload operations is discharged from the proved reference
   (Properties_Base.v: Base_rn_cmp_q, Base_rn_cmp, Base_rn_add, Base_rn_mul, Base_rn_neg, Base_rn_inv,
   Base_rn_refine).  Hence every `_cond` theorem of Properties_C08.v becomes a closed theorem about real numbers. *)
From Coq Require Import ZArith QArith Lia.
From LP Require Import Scalar UPoly RefAlg Value.
Set Warnings "-notation-overridden,-ambiguous-paths".
From mathcomp Require Import all_ssreflect all_algebra all_real_closed.
From mathcomp Require Import ssrZ zify ring.
Set Warnings "notation-overridden,ambiguous-paths".
From LP Require Import UPolySpec ScalarProofs ValueProofs RefAlgSpec RefAlgLoops RefAlgOps RefAlgRat RefAlgSqfree RefAlgFinal.
Import GRing.Theory Num.Theory Num.Def Order.TTheory.
Set Implicit Arguments.
Unset Strict Implicit.
Unset Printing Implicit Defensive.
Local Open Scope ring_scope.

Section RealLine.
Variable R : rcfType.
Local Notation zr := (@zr R).
Local Notation pr := (@pr R).
Local Notation qr := (@qr R).
Local Notation rn_denotes := (@rn_denotes R).

(* three-way comparison in R *)
Definition rcmp (a b : R) : comparison :=
  if a < b then Datatypes.Lt else if a == b then Datatypes.Eq else Datatypes.Gt.

Lemma sg_rcmp (a b : R) : sgr (a - b) = zr (cmp_to_Z (rcmp a b)).
Proof.
rewrite /rcmp; case: (ltrgtP a b) => H /=.
- by rewrite ltr0_sg ?subr_lt0 // zrN zr1.
- by rewrite gtr0_sg ?subr_gt0 // zr1.
- by rewrite H subrr sgr0 zr0.
Qed.
Lemma rcmp_of_sg (a b : R) (s : Z) : zr s = sgr (a - b) -> s = cmp_to_Z (rcmp a b).
Proof. by rewrite sg_rcmp => /zr_inj. Qed.
Lemma rcmp_refl (a : R) : rcmp a a = Datatypes.Eq.
Proof. by rewrite /rcmp ltxx eqxx. Qed.
Lemma rcmp_eq (a b : R) : rcmp a b = Datatypes.Eq -> a = b.
Proof. by rewrite /rcmp; case: (ltrgtP a b). Qed.
Lemma rcmp_lt (a b : R) : rcmp a b = Datatypes.Lt <-> a < b.
Proof. by rewrite /rcmp; case: (ltrgtP a b). Qed.
Lemma rcmp_opp (a b : R) : rcmp b a = CompOpp (rcmp a b).
Proof. by rewrite /rcmp; case: (ltrgtP a b). Qed.

(* stdlib rationals in R *)
Definition LQR (q : Q) : R := qr (Qnum q, Zpos (Qden q)).
Lemma qpos_Q (q : Q) : qpos (Qnum q, Zpos (Qden q)). Proof. by []. Qed.
Lemma LQR_cmp (p q : Q) : rcmp (LQR p) (LQR q) = Qcompare p q.
Proof.
apply: cmp_to_Z_inj; symmetry; apply: rcmp_of_sg.
by rewrite /LQR -q_cmp_sgn.
Qed.
Lemma zr_pos_neq0 (p : positive) : zr (Zpos p) != 0.
Proof. by rewrite gt_eqF // zr_gt0. Qed.
Lemma LQR_add (p q : Q) : LQR (Qplus p q) = LQR p + LQR q.
Proof.
rewrite /LQR /RefAlgSpec.qr /= Pos2Z.inj_mul zrD !zrM.
by field; rewrite !zr_pos_neq0.
Qed.
Lemma LQR_mul (p q : Q) : LQR (Qmult p q) = LQR p * LQR q.
Proof.
rewrite /LQR /RefAlgSpec.qr /= Pos2Z.inj_mul !zrM.
by field; rewrite !zr_pos_neq0.
Qed.
Lemma LQR_opp (p : Q) : LQR (Qopp p) = - LQR p.
Proof. by rewrite /LQR /RefAlgSpec.qr /= zrN mulNr. Qed.
Lemma LQR_QofR (q : Z * Z) : qpos q -> LQR (QofR q) = qr q.
Proof.
case: q => n [|d|d] //= _.
by rewrite /LQR /QofR /RefAlgSpec.qr /= Z.mul_1_r.
Qed.
Lemma LQR_1 : LQR (Qmake 1 1) = 1.
Proof. by rewrite /LQR /RefAlgSpec.qr /= zr1 divr1. Qed.

(* the real number a reference representation stands for, as a FUNCTION: the rational, or the first root of the
   defining polynomial in the open isolating interval (rn_denotes makes it the only one) *)
Definition rden (x : rnum) : R :=
  match x with
  | RQ q => qr q
  | RA p lo hi => head 0 (roots (pr p) (qr lo) (qr hi))
  end.

Lemma denotes_rden (x : rnum) (v : R) : rn_denotes x v -> rden x = v.
Proof.
case: x => [q [_ ->] //|p lo hi] /= [[Hlo Hhi] Hv Hr Hu Hs].
have Hp : pr p != 0.
  apply/negP => /eqP Hp; move: Hs; rewrite Hp !horner0 sgr0 mulr0 => /eqP.
  by rewrite eq_sym oppr_eq0 oner_eq0.
have Hin : v \in roots (pr p) (qr lo) (qr hi) by apply: root_in_roots.
case E: (roots (pr p) (qr lo) (qr hi)) Hin => [//|w s] _ /=.
have Hw : w \in roots (pr p) (qr lo) (qr hi) by rewrite E mem_head.
by apply: Hu; [exact: (root_roots Hw)|have := roots_in Hw; rewrite in_itv].
Qed.

(* representation invariant of a payload: it denotes a real number and its rationals are canonical (what
   Io.value_of_token / rn_valid check on everything read from the implementation) *)
Definition rn_canon (x : rnum) : Prop :=
  match x with RQ q => q_wf q | RA _ lo hi => q_wf lo /\ q_wf hi end.
Definition rvalid (x : rnum) : Prop := rn_denotes x (rden x) /\ rn_canon x.

Definition RL : line := {|
  LR := R; Lcmp := rcmp; LQ := LQR;
  Ladd := fun a b => a + b; Lmul := fun a b => a * b; Lopp := fun a => - a;
  Lden := rden; LP := rvalid |}.

(* ---- the reference operations keep the rationals of a representation canonical *)
Lemma canon_mid (a b : Z * Z) : q_wf a -> q_wf b -> q_wf (q_mid a b).
Proof. by move=> Ha Hb; have [] := q_mid_spec _ _ Ha Hb. Qed.
Lemma canon_refine (x : rnum) : rn_canon x -> rn_canon (rn_refine x).
Proof.
case: x => [q //|p lo hi] /= [Hl Hh].
have Hm := canon_mid Hl Hh.
by case: ifP => _ //; case: ifP => _.
Qed.
Lemma canon_neg (x : rnum) : rn_canon x -> rn_canon (rn_neg x).
Proof.
case: x => [q|p lo hi] /=; first by move=> H; have [] := q_neg_spec _ H.
by case=> Hl Hh; split; [have [] := q_neg_spec _ Hh|have [] := q_neg_spec _ Hl].
Qed.
Lemma canon_lo_hi (x : rnum) : rn_canon x -> q_wf (rn_lo x) /\ q_wf (rn_hi x).
Proof. by case: x => [q|p lo hi] /=. Qed.
Lemma canon_min (a b : Z * Z) : q_wf a -> q_wf b -> q_wf (q_min a b).
Proof. by rewrite /q_min; case: ifP. Qed.
Lemma canon_max (a b : Z * Z) : q_wf a -> q_wf b -> q_wf (q_max a b).
Proof. by rewrite /q_max; case: ifP. Qed.

Definition encl_canon (encl : rnum -> rnum -> (Z * Z) * (Z * Z)) : Prop :=
  forall x y, rn_canon x -> rn_canon y -> q_wf (encl x y).1 /\ q_wf (encl x y).2.
Lemma canon_select (fuel : nat) (r : seq Z) encl (x y z : rnum) : encl_canon encl ->
  rn_canon x -> rn_canon y -> rn_select fuel r encl x y = Some z -> rn_canon z.
Proof.
move=> He; elim: fuel x y => [//|f IH] x y Hx Hy /=.
have := He x y Hx Hy; case: (encl x y) => l h /= [Hl Hh].
case: ifP => _; first by case=> <-.
case: ifP => _; first by case=> <-.
by apply: IH; apply: canon_refine.
Qed.
Lemma encl_canon_add : encl_canon (fun x y => iv_add (rn_lo x) (rn_hi x) (rn_lo y) (rn_hi y)).
Proof.
move=> x y /canon_lo_hi [Hxl Hxh] /canon_lo_hi [Hyl Hyh]; rewrite /iv_add /=.
by split; [have [] := q_add_spec _ _ Hxl Hyl|have [] := q_add_spec _ _ Hxh Hyh].
Qed.
Lemma encl_canon_mul : encl_canon (fun x y => iv_mul (rn_lo x) (rn_hi x) (rn_lo y) (rn_hi y)).
Proof.
move=> x y /canon_lo_hi [Hxl Hxh] /canon_lo_hi [Hyl Hyh]; rewrite /iv_mul /=.
have [H1 _] := q_mul_spec _ _ Hxl Hyl. have [H2 _] := q_mul_spec _ _ Hxl Hyh.
have [H3 _] := q_mul_spec _ _ Hxh Hyl. have [H4 _] := q_mul_spec _ _ Hxh Hyh.
by split; [do !apply: canon_min|do !apply: canon_max].
Qed.
Lemma canon_add (fuel : nat) (x y z : rnum) : rn_canon x -> rn_canon y -> rn_add fuel x y = Some z -> rn_canon z.
Proof.
move=> Hx Hy; rewrite /rn_add.
case: x Hx => [a|p lo hi] Hx; case: y Hy => [b|p' lo' hi'] Hy;
  try exact: (canon_select encl_canon_add).
by case=> <-; have [] := q_add_spec _ _ Hx Hy.
Qed.
Lemma canon_mul (fuel : nat) (x y z : rnum) : rn_canon x -> rn_canon y -> rn_mul fuel x y = Some z -> rn_canon z.
Proof.
move=> Hx Hy; rewrite /rn_mul.
have H0 : rn_canon (RQ (Z0, Zpos xH)) by exact: q_wf_zero.
case: x Hx => [a|p lo hi] Hx; case: y Hy => [b|p' lo' hi'] Hy;
  try (by case: ifP => _; [case=> <-|exact: (canon_select encl_canon_mul)]).
by case=> <-; have [] := q_mul_spec _ _ Hx Hy.
Qed.
Lemma canon_inv (fuel : nat) (x z : rnum) : rn_canon x -> rn_inv fuel x = Some z -> rn_canon z.
Proof.
rewrite /rn_inv; case: ifP => // _.
elim: fuel x => [//|f IH] [q|p lo hi] /=.
- by move=> Hq; case E: (q_inv q) => [i|] //; case=> <-; have [] := q_inv_spec _ _ Hq E.
- case=> Hl Hh; case: ifP => _; last by apply: IH; apply: (@canon_refine (RA p lo hi)).
  case E1: (q_inv hi) => [l|] //; case E2: (q_inv lo) => [h|] //; case=> <- /=.
  by split; [have [] := q_inv_spec _ _ Hh E1|have [] := q_inv_spec _ _ Hl E2].
Qed.

Lemma qpos_wf (q : Z * Z) : q_wf q -> qpos q. Proof. by case. Qed.
Lemma rvalid_intro (x : rnum) (v : R) : rn_denotes x v -> rn_canon x -> rvalid x /\ rden x = v.
Proof. by move=> Hd Hc; have E := denotes_rden Hd; rewrite /rvalid E. Qed.
Lemma Leq_RL (a b : R) : a = b -> Leq RL a b.
Proof. by move=> ->; exact: rcmp_refl. Qed.

Lemma lin_root_value (p : seq Z) (lo hi : Z * Z) (v : R) : rn_denotes (RA p lo hi) v -> pdeg p = 1%N ->
  qpos (va_lin_root p) /\ v = qr (va_lin_root p).
Proof.
move=> Hd Hdeg; have Hlc := denotes_lc_neq0 Hd.
case: Hd => _ _ Hr _ _.
have Hp : Poly p = Poly (pnorm p) :> {poly Z} by rewrite -polyseq_Poly_pnorm polyseqK.
move: Hdeg Hlc Hr; rewrite /pdeg /plc /va_lin_root /RefAlgSpec.pr Hp.
case: (pnorm p) => [//|c0 [//|c1 [|? ?]]] //= _ Hc1.
rewrite -/(RefAlgSpec.pr [:: c0; c1]) !pr_cons pr_nil mul0r addr0 rootE hornerD hornerC hornerMX hornerC => /eqP Hv.
have Hc1z : c1 <> Z0 by move=> E; move: Hc1; rewrite E zr0 eqxx.
have [Hq Eq] := qr_canon' R c0 Hc1z.
have [Hn En] := qr_neg R Hq; split=> //.
rewrite En Eq; apply: (mulfI Hc1); rewrite mulrN mulrCA divff // mulr1.
by apply/eqP; rewrite -addr_eq0 addrC Hv.
Qed.

Theorem RL_ok : line_ok RL.
Proof.
constructor; rewrite /Leq /Llt /=.
- exact: rcmp_refl.
- exact: rcmp_opp.
- by move=> a b c /rcmp_eq ->.
- by move=> a b c /rcmp_lt H1 /rcmp_lt H2; apply/rcmp_lt; exact: lt_trans H1 H2.
- exact: LQR_cmp.
- by move=> p q; rewrite LQR_add rcmp_refl.
- by move=> p q; rewrite LQR_mul rcmp_refl.
- by move=> p; rewrite LQR_opp rcmp_refl.
- by move=> a a' b b' /rcmp_eq -> /rcmp_eq ->; rewrite rcmp_refl.
- by move=> a a' b b' /rcmp_eq -> /rcmp_eq ->; rewrite rcmp_refl.
- by move=> a a' /rcmp_eq ->; rewrite rcmp_refl.
- by move=> q Hq; split=> //=; split=> //; exact: qpos_wf.
- by move=> q [].
- by move=> q Hq; rewrite LQR_QofR ?rcmp_refl //; exact: qpos_wf.
- move=> p lo hi [Hd [Hl Hh]]; split=> //; split=> //.
  have [_ _ /andP [H1 H2]] := rn_denotes_lo_hi Hd.
  by rewrite !LQR_QofR; [split; apply/rcmp_lt| |]; try exact: qpos_wf.
- move=> x q [Hd _] Hq; rewrite LQR_QofR; last exact: qpos_wf.
  by apply: rcmp_of_sg; apply: rn_cmp_q_spec => //; exact: qpos_wf.
- move=> fuel x y c [Hx _] [Hy _] H.
  by apply: rcmp_of_sg; exact: (rn_cmp_spec Hx Hy H).
- move=> fuel x y z [Hx Cx] [Hy Cy] H.
  have [Hv ->] := rvalid_intro (rn_add_spec Hx Hy H) (canon_add Cx Cy H).
  by split=> //; exact: rcmp_refl.
- move=> fuel x y z [Hx Cx] [Hy Cy] H.
  have [Hv ->] := rvalid_intro (rn_mul_spec Hx Hy H) (canon_mul Cx Cy H).
  by split=> //; exact: rcmp_refl.
- move=> x [Hx Cx].
  have [Hv ->] := rvalid_intro (rn_neg_spec Hx) (canon_neg Cx).
  by split=> //; exact: rcmp_refl.
- move=> fuel x z [Hx Cx] H.
  have [Hn0 Hz] := RefAlgSqfree.rn_inv_spec Hx H.
  have [Hv ->] := rvalid_intro Hz (canon_inv Cx H).
  by split=> //; rewrite LQR_1 mulVf // rcmp_refl.
- move=> x [Hx Cx].
  have [Hv ->] := rvalid_intro (rn_refine_spec Hx) (canon_refine Cx).
  by split=> //; exact: rcmp_refl.
- move=> p lo hi [Hd _] Hdeg.
  have [Hq E] := lin_root_value Hd Hdeg.
  by rewrite -/(rden (RA p lo hi)) E LQR_QofR // rcmp_refl.
Qed.

(* ---- reading the instance: what the six kinds denote, and the order of the line *)
Lemma LQR_inject (z : Z) : LQR (inject_Z z) = zr z.
Proof. by rewrite /LQR /RefAlgSpec.qr /= zr1 divr1. Qed.
Lemma real_den_alg (x : rnum) (v : R) : rn_denotes x v -> rn_canon x ->
  vok RL (VAlg x) /\ den RL (VAlg x) = EFin v.
Proof. by move=> Hd Hc; have [Hv E] := rvalid_intro Hd Hc; split=> //=; rewrite E. Qed.
Lemma real_valid (x : rnum) : rn_valid x = true -> vok RL (VAlg (rn_norm x)).
Proof.
move=> Hv; have [v Hd] := rn_valid_denotes R Hv.
suff Hc : rn_canon (rn_norm x) by have [] := real_den_alg Hd Hc.
case: x Hv {Hd} => [q|p lo hi] /=; first by move/q_is_canon_spec.
by do 6![case/andP] => /q_is_canon_spec Hl /q_is_canon_spec Hh *.
Qed.
Lemma real_den_int (z : Z) : den RL (VInt z) = EFin (zr z).
Proof. by rewrite /= LQR_inject. Qed.
Lemma real_den_rat (q : Z * Z) : q_wf q -> den RL (VRat q) = EFin (qr q).
Proof. by move=> Hq; rewrite /= LQR_QofR //; exact: qpos_wf. Qed.
Lemma real_order_lt (a b : R) : Lcmp RL a b = Datatypes.Lt <-> a < b.
Proof. exact: rcmp_lt. Qed.
Lemma real_order_eq (a b : R) : Lcmp RL a b = Datatypes.Eq <-> a = b.
Proof. by split; [exact: rcmp_eq|move=> ->; exact: rcmp_refl]. Qed.
End RealLine.

(* names usable without MathComp notations (Properties_C08.v states its theorems in plain Coq syntax) *)
Definition realfield : Type := rcfType.
Definition real_line (R : realfield) : line := RL R.
Definition real_denotes (R : realfield) (x : rnum) (v : LR (real_line R)) : Prop := @rn_denotes R x v.
Definition real_lt (R : realfield) (a b : LR (real_line R)) : Prop := (a : R) < b.
Definition real_of_Z (R : realfield) (z : Z) : LR (real_line R) := @zr R z.
Definition real_of_rat (R : realfield) (q : Z * Z) : LR (real_line R) := @qr R q.
Definition real_add (R : realfield) (a b : LR (real_line R)) : LR (real_line R) := (a : R) + b.
Definition real_mul (R : realfield) (a b : LR (real_line R)) : LR (real_line R) := (a : R) * b.
Definition real_opp (R : realfield) (a : LR (real_line R)) : LR (real_line R) := - (a : R).

Lemma real_line_ok (R : realfield) : line_ok (real_line R).
Proof. exact: RL_ok. Qed.
Lemma real_line_ops (R : realfield) (a b : LR (real_line R)) :
  Ladd (real_line R) a b = real_add a b /\ Lmul (real_line R) a b = real_mul a b /\ Lopp (real_line R) a = real_opp a.
Proof. by []. Qed.
Lemma real_line_lt (R : realfield) (a b : LR (real_line R)) : Lcmp (real_line R) a b = Datatypes.Lt <-> real_lt a b.
Proof. exact: real_order_lt. Qed.
Lemma real_line_eq (R : realfield) (a b : LR (real_line R)) : Lcmp (real_line R) a b = Datatypes.Eq <-> a = b.
Proof. exact: real_order_eq. Qed.
Lemma real_line_den_alg (R : realfield) (x : rnum) (v : LR (real_line R)) : real_denotes x v -> rn_canon x ->
  vok (real_line R) (VAlg x) /\ den (real_line R) (VAlg x) = EFin v.
Proof. exact: real_den_alg. Qed.
Lemma real_line_valid (R : realfield) (x : rnum) : rn_valid x = true -> vok (real_line R) (VAlg (rn_norm x)).
Proof. exact: real_valid. Qed.
Lemma real_line_den_int (R : realfield) (z : Z) : den (real_line R) (VInt z) = EFin (real_of_Z R z).
Proof. exact: real_den_int. Qed.
Lemma real_line_den_rat (R : realfield) (q : Z * Z) : q_wf q -> den (real_line R) (VRat q) = EFin (real_of_rat R q).
Proof. exact: real_den_rat. Qed.
