(* C07 on top of C03: the premise `gcd_divides` of the comparison theorems is discharged for the reference gcd
   UPoly.pgcd (GcdSpec.v / GcdProofs.v, property C03: pgcd divides both operands and is the greatest such).
   libpoly's own lp_upolynomial_gcd is tied to UPoly.pgcd by the C03 correspondence (every gcd the library returns is
   compared with the reference) and, inside C07's own correspondence, by the exact comparison of
   lp_algebraic_number_cmp's operands after the call with the model instantiated with ppp (pgcd p q). *)
From Coq Require Import ZArith NArith List.
From LP Require Import Scalar UPoly RefAlg AlgNum.
Set Warnings "-notation-overridden,-ambiguous-paths".
From mathcomp Require Import all_ssreflect all_algebra all_real_closed.
From mathcomp Require Import ssrZ zify.
From LP Require Import UPolySpec GcdSpec GcdProofs AlgNumProofs.
Set Warnings "notation-overridden,ambiguous-paths".
Import GRing.Theory Num.Theory Num.Def Order.TTheory.
Set Implicit Arguments.
Unset Strict Implicit.
Unset Printing Implicit Defensive.
Local Open Scope ring_scope.

Section GcdRoots.
Variable R : rcfType.
Implicit Types (p q d a : seq Z) (z : R).

Lemma rdvd_root d a z : rdvd (Poly d) (Poly a) -> root (polyR d) z -> root (polyR a : {poly R}) z.
Proof.
move=> [k E] rz; rewrite /polyR E rmorphM rootM; apply/orP; left; exact: rz.
Qed.

(* the reference gcd vanishes only at common roots *)
Lemma pgcd_common_roots p q z :
  root (polyR (pgcd p q)) z -> root (polyR p : {poly R}) z /\ root (polyR q : {poly R}) z.
Proof.
have [/pdividesP H1 /pdividesP H2] := pgcd_divides_both p q.
by move=> rz; split; [apply: rdvd_root H1 rz | apply: rdvd_root H2 rz].
Qed.

(* ... and so does its primitive part (the normal form lp_upolynomial_gcd returns) *)
Lemma ppp_pgcd_common_roots p q z :
  root (polyR (ppp (pgcd p q))) z -> root (polyR p : {poly R}) z /\ root (polyR q : {poly R}) z.
Proof.
by move=> rz; apply: pgcd_common_roots; apply: rdvd_root (ppp_dvd (pgcd p q)) rz.
Qed.

Notation ref_gcd := an_ref_gcd.

Theorem cmp_full fuel x y c x' y' (v w : R) :
  Den x v -> Den y w -> an_cmp fuel ref_gcd x y = Some (c, x', y') ->
  [/\ ZR (Z.sgn c) = sgr (v - w), Den x' v & Den y' w].
Proof. by apply: cmp_sound => p q z; exact: ppp_pgcd_common_roots. Qed.

Theorem cmp_full_pgcd fuel x y c x' y' (v w : R) :
  Den x v -> Den y w -> an_cmp fuel pgcd x y = Some (c, x', y') ->
  [/\ ZR (Z.sgn c) = sgr (v - w), Den x' v & Den y' w].
Proof. by apply: cmp_sound => p q z; exact: pgcd_common_roots. Qed.

Theorem cmp_equal_branch_full x y p q (v w : R) :
  let g := ref_gcd p q in
  an_f x = Some p -> an_f y = Some q -> Den x v -> Den y w ->
  dyR (an_a x) = dyR (an_a y) :> R -> dyR (an_b x) = dyR (an_b y) :> R ->
  Z.ltb (an_psgn_dy g (an_a x) * an_psgn_dy g (an_b x)) 0 ->
  [/\ v = w,
      Den (an_reduce_polynomial x g (an_psgn_dy g (an_a x)) (an_psgn_dy g (an_b x))) v &
      Den (an_reduce_polynomial y g (an_psgn_dy g (an_a x)) (an_psgn_dy g (an_b x))) w].
Proof.
move=> g Ex Ey Dx Dy ea eb ss.
exact: (cmp_gcd_branch_sound Ex Ey Dx Dy ea eb (fun z => @ppp_pgcd_common_roots p q z) ss).
Qed.

End GcdRoots.
