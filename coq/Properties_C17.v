(* Property C17 - scalar numbers compute exactly.  ONLY theorem statements, each closed by `exact`
   of a lemma from ScalarProofs.v, with Print Assumptions beneath.  Model: Scalar.v. *)
From Coq Require Import ZArith QArith List Bool Znumtheory.
From LP Require Import Scalar ScalarProofs.
Local Open Scope Z_scope.

(* 1. Z_m: the result of every ring operation is THE representative of the exact result in the
      symmetric range [-(floor((m-1)/2)), floor(m/2)], for every modulus m >= 1 (prime or not). *)
Theorem C17_ring_norm_range : forall M c, 0 < M ->
  - ((M - 1) / 2) <= ring_norm (Some M) c <= M / 2.
Proof. exact ring_norm_range_explicit. Qed.
Print Assumptions C17_ring_norm_range.

Theorem C17_ring_norm_congruent : forall M c, 0 < M -> (ring_norm (Some M) c) mod M = c mod M.
Proof. exact ring_norm_cong. Qed.
Print Assumptions C17_ring_norm_congruent.

Theorem C17_ring_norm_unique : forall M c r, 0 < M ->
  ring_lb M <= r <= ring_ub M -> r mod M = c mod M -> ring_norm (Some M) c = r.
Proof. exact ring_norm_char. Qed.
Print Assumptions C17_ring_norm_unique.

Theorem C17_ring_range_has_M_elements : forall M, 0 < M -> ring_ub M - ring_lb M + 1 = M.
Proof. exact ring_range_size. Qed.
Print Assumptions C17_ring_range_has_M_elements.

Theorem C17_ring_add : forall M, 0 < M -> forall a b, repr M (int_add (Some M) a b) (a + b).
Proof. exact int_add_spec. Qed.
Print Assumptions C17_ring_add.
Theorem C17_ring_sub : forall M, 0 < M -> forall a b, repr M (int_sub (Some M) a b) (a - b).
Proof. exact int_sub_spec. Qed.
Print Assumptions C17_ring_sub.
Theorem C17_ring_neg : forall M, 0 < M -> forall a, repr M (int_neg (Some M) a) (- a).
Proof. exact int_neg_spec. Qed.
Print Assumptions C17_ring_neg.
Theorem C17_ring_mul : forall M, 0 < M -> forall a b, repr M (int_mul (Some M) a b) (a * b).
Proof. exact int_mul_spec. Qed.
Print Assumptions C17_ring_mul.
Theorem C17_ring_pow : forall M, 0 < M -> forall a n, repr M (int_pow (Some M) a n) (a ^ Z.of_N n).
Proof. exact int_pow_spec. Qed.
Print Assumptions C17_ring_pow.
Theorem C17_ring_add_mul : forall M, 0 < M -> forall s a b, repr M (int_add_mul (Some M) s a b) (s + a * b).
Proof. exact int_add_mul_spec. Qed.
Print Assumptions C17_ring_add_mul.
Theorem C17_ring_sub_mul : forall M, 0 < M -> forall s a b, repr M (int_sub_mul (Some M) s a b) (s - a * b).
Proof. exact int_sub_mul_spec. Qed.
Print Assumptions C17_ring_sub_mul.
Theorem C17_ring_inc : forall M, 0 < M -> forall a, repr M (int_inc (Some M) a) (a + 1).
Proof. exact int_inc_spec. Qed.
Print Assumptions C17_ring_inc.
Theorem C17_ring_dec : forall M, 0 < M -> forall a, repr M (int_dec (Some M) a) (a - 1).
Proof. exact int_dec_spec. Qed.
Print Assumptions C17_ring_dec.
Theorem C17_ring_mul_pow2 : forall M, 0 < M -> forall a n, repr M (int_mul_pow2 (Some M) a n) (a * 2 ^ Z.of_N n).
Proof. exact int_mul_pow2_spec. Qed.
Print Assumptions C17_ring_mul_pow2.

(* comparison is defined on representatives; equality of representatives is congruence *)
Theorem C17_ring_cmp_eq_iff_congruent : forall M, 0 < M -> forall a b,
  int_cmp (Some M) a b = 0 <-> a mod M = b mod M.
Proof. exact int_cmp_eq_iff. Qed.
Print Assumptions C17_ring_cmp_eq_iff_congruent.

(* inverse: solves a*i = 1 (mod M); exists exactly when gcd(a, M) = 1 *)
Theorem C17_ring_inv_sound : forall M a i, 0 < M -> int_inv (Some M) a = Some i ->
  (ring_lb M <= i <= ring_ub M) /\ (a * i) mod M = 1 mod M.
Proof. exact int_inv_spec. Qed.
Print Assumptions C17_ring_inv_sound.
Theorem C17_ring_inv_complete : forall M a, 0 < M -> Z.gcd a M = 1 -> exists i, int_inv (Some M) a = Some i.
Proof. exact int_inv_complete. Qed.
Print Assumptions C17_ring_inv_complete.

(* exact division: the checker applied to the implementation's answer decides the congruence, and the
   model's own division satisfies it whenever a quotient exists *)
Theorem C17_ring_div_exact_checker : forall M a b d, 0 < M ->
  int_div_exact_ok (Some M) a b d = true <-> ((ring_lb M <= d <= ring_ub M) /\ (d * b) mod M = a mod M).
Proof. exact int_div_exact_ok_spec. Qed.
Print Assumptions C17_ring_div_exact_checker.
Theorem C17_ring_div_exact_sound : forall M a b d, 0 < M ->
  int_div_exact (Some M) a b = Some d -> int_div_exact_ok (Some M) a b d = true.
Proof. exact int_div_exact_sound. Qed.
Print Assumptions C17_ring_div_exact_sound.
Theorem C17_ring_div_exact_complete : forall M a b x, 0 < M ->
  (x * b) mod M = a mod M -> exists d, int_div_exact (Some M) a b = Some d.
Proof. exact int_div_exact_complete. Qed.
Print Assumptions C17_ring_div_exact_complete.

Theorem C17_divides_Z : forall a b, int_divides None false a b = true <-> (a | b).
Proof. exact int_divides_Z_spec. Qed.
Print Assumptions C17_divides_Z.
Theorem C17_divides_composite : forall M a b, 0 < M ->
  int_divides (Some M) false a b = true <-> exists x, (a * x) mod M = b mod M.
Proof. exact int_divides_ring_spec. Qed.
Print Assumptions C17_divides_composite.
Theorem C17_divides_prime_nonzero : forall M a b, prime M -> ring_lb M <= a <= ring_ub M -> a <> 0 ->
  int_divides (Some M) true a b = true /\ exists x, (a * x) mod M = b mod M.
Proof. exact int_divides_prime_spec. Qed.
Print Assumptions C17_divides_prime_nonzero.

(* 2. rationals: canonical in => canonical out, exact value in Q; canonical forms are unique, so the
      result is THE canonical form of the exact result *)
Theorem C17_rat_canonical_unique : forall a b, q_wf a -> q_wf b -> (QofR a == QofR b)%Q -> a = b.
Proof. exact q_wf_unique. Qed.
Print Assumptions C17_rat_canonical_unique.
Theorem C17_rat_construct : forall n d r, q_canon (n, d) = Some r -> q_wf r /\ fst r * d = n * snd r.
Proof. exact q_canon_spec. Qed.
Print Assumptions C17_rat_construct.
Theorem C17_rat_add : forall a b, q_wf a -> q_wf b -> q_wf (q_add a b) /\ (QofR (q_add a b) == QofR a + QofR b)%Q.
Proof. exact q_add_spec. Qed.
Print Assumptions C17_rat_add.
Theorem C17_rat_sub : forall a b, q_wf a -> q_wf b -> q_wf (q_sub a b) /\ (QofR (q_sub a b) == QofR a - QofR b)%Q.
Proof. exact q_sub_spec. Qed.
Print Assumptions C17_rat_sub.
Theorem C17_rat_mul : forall a b, q_wf a -> q_wf b -> q_wf (q_mul a b) /\ (QofR (q_mul a b) == QofR a * QofR b)%Q.
Proof. exact q_mul_spec. Qed.
Print Assumptions C17_rat_mul.
Theorem C17_rat_neg : forall a, q_wf a -> q_wf (q_neg a) /\ (QofR (q_neg a) == - QofR a)%Q.
Proof. exact q_neg_spec. Qed.
Print Assumptions C17_rat_neg.
Theorem C17_rat_div : forall a b, q_wf a -> q_wf b -> forall r, q_div a b = Some r -> q_wf r /\ (QofR r == QofR a / QofR b)%Q.
Proof. exact q_div_spec. Qed.
Print Assumptions C17_rat_div.
Theorem C17_rat_div_defined : forall a b, q_wf a -> q_wf b -> fst b <> 0 -> exists r, q_div a b = Some r.
Proof. intros a b Ha Hb. exact (q_div_some a b Ha). Qed.
Print Assumptions C17_rat_div_defined.
Theorem C17_rat_pow : forall a n, q_wf a -> q_wf (q_pow a n) /\ (QofR (q_pow a n) == QofR a ^ Z.of_N n)%Q.
Proof. exact q_pow_spec. Qed.
Print Assumptions C17_rat_pow.
Theorem C17_rat_mul_2exp : forall a n, q_wf a -> q_wf (q_mul_2exp a n) /\ (QofR (q_mul_2exp a n) == QofR a * inject_Z (2 ^ Z.of_N n))%Q.
Proof. exact q_mul_2exp_spec. Qed.
Print Assumptions C17_rat_mul_2exp.
Theorem C17_rat_div_2exp : forall a n, q_wf a -> q_wf (q_div_2exp a n) /\ (QofR (q_div_2exp a n) == QofR a / inject_Z (2 ^ Z.of_N n))%Q.
Proof. exact q_div_2exp_spec. Qed.
Print Assumptions C17_rat_div_2exp.
Theorem C17_rat_cmp : forall a b, q_wf a -> q_wf b -> q_cmp a b = cmp_to_Z (QofR a ?= QofR b)%Q.
Proof. exact q_cmp_spec. Qed.
Print Assumptions C17_rat_cmp.
Theorem C17_rat_sgn : forall a, q_wf a -> q_sgn a = cmp_to_Z (QofR a ?= 0)%Q.
Proof. exact q_sgn_spec. Qed.
Print Assumptions C17_rat_sgn.
Theorem C17_rat_floor : forall a, q_wf a -> (inject_Z (q_floor a) <= QofR a /\ QofR a < inject_Z (q_floor a + 1))%Q.
Proof. exact q_floor_spec. Qed.
Print Assumptions C17_rat_floor.
Theorem C17_rat_ceiling : forall a, q_wf a -> (inject_Z (q_ceiling a - 1) < QofR a /\ QofR a <= inject_Z (q_ceiling a))%Q.
Proof. exact q_ceiling_spec. Qed.
Print Assumptions C17_rat_ceiling.
Theorem C17_rat_is_integer : forall a, q_wf a -> (q_is_integer a = true <-> exists z, (QofR a == inject_Z z)%Q).
Proof. exact q_is_integer_spec. Qed.
Print Assumptions C17_rat_is_integer.

(* 3. dyadic rationals: normalised out, exact value, unique normal form *)
Theorem C17_dy_normal_form_unique : forall a b, dy_wf a -> dy_wf b -> (QofD a == QofD b)%Q -> a = b.
Proof. exact dy_wf_unique. Qed.
Print Assumptions C17_dy_normal_form_unique.
Theorem C17_dy_normalize : forall q, dy_wf (dy_normalize q) /\ (QofD (dy_normalize q) == QofD q)%Q.
Proof. exact dy_normalize_spec. Qed.
Print Assumptions C17_dy_normalize.
Theorem C17_dy_is_normalized : forall d, dy_is_normalized d = true <-> dy_wf d.
Proof. exact dy_is_normalized_spec. Qed.
Print Assumptions C17_dy_is_normalized.

(* 4. THE OUTPUT OPERAND: for every prior content `dst` of the output and every aliasing pattern that is
      consistent (the output IS the operand it aliases), the field-by-field program computes the
      dst-free function ... *)
Theorem C17_dy_add_dst_independent : forall al dst a b, alias_ok al dst a b -> dy_add al dst a b = dy_add_pure a b.
Proof. exact dy_add_dst. Qed.
Print Assumptions C17_dy_add_dst_independent.
Theorem C17_dy_sub_dst_independent : forall al dst a b, alias_ok al dst a b -> dy_sub al dst a b = dy_sub_pure a b.
Proof. exact dy_sub_dst. Qed.
Print Assumptions C17_dy_sub_dst_independent.
Theorem C17_dy_mul_dst_independent : forall al dst a b, alias_ok al dst a b -> dy_mul al dst a b = dy_mul_pure a b.
Proof. exact dy_mul_dst. Qed.
Print Assumptions C17_dy_mul_dst_independent.
Theorem C17_dy_add_integer_dst_independent : forall al dst a b, alias1_ok al dst a -> dy_add_integer al dst a b = dy_add_integer_pure a b.
Proof. exact dy_add_integer_dst. Qed.
Print Assumptions C17_dy_add_integer_dst_independent.
Theorem C17_dy_neg_dst_independent : forall al dst a, alias1_ok al dst a -> dy_neg al dst a = dy_neg_pure a.
Proof. exact dy_neg_dst. Qed.
Print Assumptions C17_dy_neg_dst_independent.
Theorem C17_dy_mul_2exp_dst_independent : forall al dst a n, alias1_ok al dst a -> dy_mul_2exp al dst a n = dy_mul_2exp_pure a n.
Proof. exact dy_mul_2exp_dst. Qed.
Print Assumptions C17_dy_mul_2exp_dst_independent.
Theorem C17_dy_div_2exp_dst_independent : forall al dst a n, alias1_ok al dst a -> dy_div_2exp al dst a n = dy_div_2exp_pure a n.
Proof. exact dy_div_2exp_dst. Qed.
Print Assumptions C17_dy_div_2exp_dst_independent.
Theorem C17_dy_pow_dst_independent : forall al dst a n, alias1_ok al dst a -> dy_pow al dst a n = dy_pow_pure a n.
Proof. exact dy_pow_dst. Qed.
Print Assumptions C17_dy_pow_dst_independent.

(*    ... and the dst-free function is exact and normalised *)
Theorem C17_dy_add : forall a b, dy_wf (dy_add_pure a b) /\ (QofD (dy_add_pure a b) == QofD a + QofD b)%Q.
Proof. exact dy_add_spec. Qed.
Print Assumptions C17_dy_add.
Theorem C17_dy_sub : forall a b, dy_wf (dy_sub_pure a b) /\ (QofD (dy_sub_pure a b) == QofD a - QofD b)%Q.
Proof. exact dy_sub_spec. Qed.
Print Assumptions C17_dy_sub.
Theorem C17_dy_mul : forall a b, dy_wf (dy_mul_pure a b) /\ (QofD (dy_mul_pure a b) == QofD a * QofD b)%Q.
Proof. exact dy_mul_spec. Qed.
Print Assumptions C17_dy_mul.
Theorem C17_dy_add_integer : forall a b, dy_wf (dy_add_integer_pure a b) /\ (QofD (dy_add_integer_pure a b) == QofD a + inject_Z b)%Q.
Proof. exact dy_add_integer_spec. Qed.
Print Assumptions C17_dy_add_integer.
Theorem C17_dy_neg : forall a, dy_wf a -> dy_wf (dy_neg_pure a) /\ (QofD (dy_neg_pure a) == - QofD a)%Q.
Proof. exact dy_neg_spec. Qed.
Print Assumptions C17_dy_neg.
Theorem C17_dy_mul_2exp : forall a n, dy_wf a -> dy_wf (dy_mul_2exp_pure a n) /\ (QofD (dy_mul_2exp_pure a n) == QofD a * inject_Z (2 ^ Z.of_N n))%Q.
Proof. exact dy_mul_2exp_spec. Qed.
Print Assumptions C17_dy_mul_2exp.
Theorem C17_dy_div_2exp : forall a n, dy_wf (dy_div_2exp_pure a n) /\ (QofD (dy_div_2exp_pure a n) == QofD a / inject_Z (2 ^ Z.of_N n))%Q.
Proof. exact dy_div_2exp_spec. Qed.
Print Assumptions C17_dy_div_2exp.
Theorem C17_dy_pow : forall a n, dy_wf a -> dy_wf (dy_pow_pure a n) /\ (QofD (dy_pow_pure a n) == QofD a ^ Z.of_N n)%Q.
Proof. exact dy_pow_spec. Qed.
Print Assumptions C17_dy_pow.
Theorem C17_dy_cmp : forall a b, Z.sgn (dy_cmp a b) = cmp_to_Z (QofD a ?= QofD b)%Q.
Proof. exact dy_cmp_spec. Qed.
Print Assumptions C17_dy_cmp.
Theorem C17_dy_sgn : forall a, dy_sgn a = cmp_to_Z (QofD a ?= 0)%Q.
Proof. exact dy_sgn_spec. Qed.
Print Assumptions C17_dy_sgn.
Theorem C17_dy_floor : forall a, (inject_Z (dy_floor_int a) <= QofD a /\ QofD a < inject_Z (dy_floor_int a + 1))%Q.
Proof. exact dy_floor_spec. Qed.
Print Assumptions C17_dy_floor.
Theorem C17_dy_ceiling : forall a, (inject_Z (dy_ceiling_int a - 1) < QofD a /\ QofD a <= inject_Z (dy_ceiling_int a))%Q.
Proof. exact dy_ceiling_spec. Qed.
Print Assumptions C17_dy_ceiling.
Theorem C17_dy_is_integer : forall a, dy_wf a -> (dy_is_integer a = true <-> exists z, (QofD a == inject_Z z)%Q).
Proof. exact dy_is_integer_spec. Qed.
Print Assumptions C17_dy_is_integer.
Theorem C17_dy_num_den : forall a, (QofD a == inject_Z (dy_get_num a) / inject_Z (dy_get_den a))%Q /\ 0 < dy_get_den a.
Proof. exact dy_num_den_spec. Qed.
Print Assumptions C17_dy_num_den.
Theorem C17_dy_to_rational : forall d, q_wf (q_from_dyadic d) /\ (QofR (q_from_dyadic d) == QofD d)%Q.
Proof. exact q_from_dyadic_spec. Qed.
Print Assumptions C17_dy_to_rational.
Theorem C17_dy_value_between : forall fuel a b m, q_wf a -> q_wf b -> (QofR a < QofR b)%Q ->
  dy_get_value_between fuel a b = Some m -> (QofR a < QofD m /\ QofD m < QofR b)%Q.
Proof. exact dy_get_value_between_sound. Qed.
Print Assumptions C17_dy_value_between.

(* 5. integer n-th root and the (repaired) dyadic root approximation used for lower/upper bounds of positive
      n-th roots (C07): floor results are below the root, ceiling results above, `exact` means exact *)
Theorem C17_iroot : forall n a, 0 < a -> (0 < n)%N ->
  iroot n a ^ Z.of_N n <= a < (iroot n a + 1) ^ Z.of_N n /\ 0 <= iroot n a.
Proof. exact iroot_spec. Qed.
Print Assumptions C17_iroot.
Theorem C17_dy_root_approx : forall a n prec ceil r ex, 0 < da a -> (0 < n)%N ->
  dy_root_approx a n prec ceil = (r, ex) ->
  dy_wf r /\
  (if ceil then (QofD a <= QofD r ^ Z.of_N n)%Q else (QofD r ^ Z.of_N n <= QofD a)%Q) /\
  (ex = true -> (QofD r ^ Z.of_N n == QofD a)%Q).
Proof. exact dy_root_approx_spec. Qed.
Print Assumptions C17_dy_root_approx.

(* non-vacuity: concrete non-trivial instances of the hypotheses *)
Example C17_nonvacuous_ring : 0 < 12 /\ ring_norm (Some 12) 6 = 6 /\ ring_norm (Some 12) 7 = -5 /\ ring_norm (Some 12) (-6) = 6.
Proof. vm_compute. repeat split; try reflexivity. Qed.
Example C17_nonvacuous_dy : dy_wf (mkDy 3 1) /\ dy_wf (mkDy (-5) 3) /\ alias_ok AliasAB (mkDy 3 1) (mkDy 3 1) (mkDy 3 1)
  /\ dy_add AliasAB (mkDy 3 1) (mkDy 3 1) (mkDy 3 1) = mkDy 3 0.
Proof. repeat split; try (right; left; reflexivity). Qed.
Example C17_nonvacuous_rat : q_wf (-3, 4) /\ q_div (-3, 4) (5, -7 + 9) = Some (-3, 10).
Proof. split; [split; reflexivity|reflexivity]. Qed.
