(* C08 model driver.  Input: the case tokens and, after "=>", what the C driver printed:
     <state of each input value> | <results>
   The model values are rebuilt from the STATES (value.c dispatches on the representation), after checking that
   every state is a valid representation of the number named in the case.  Output: CHECK ok / CHECK fail <why>
   (results are compared by denotation with the reference numbers of RefAlg.v, kinds and scalar observations
   exactly), FUEL, or SKIP. *)
open Model
open Io

exception Fail of string
exception Out_of_fuel

let fuel = nat_of_int 4000
let failf fmt = Printf.ksprintf (fun s -> raise (Fail s)) fmt

let sgn_int (x : z) = sgn_of_z x

(* ---- tokens *)
let token_cache : (string, xval) Hashtbl.t = Hashtbl.create 997
let xv_of_token tok : xval =
  match Hashtbl.find_opt token_cache tok with
  | Some x -> x
  | None ->
    let x = (try (if String.length tok > 2 && String.sub tok 0 2 = "P:"
                  then XFin (RQ (rat_of_dy_string (String.sub tok 2 (String.length tok - 2))))
                  else snd (value_of_token tok)) with
      | Bad_value m -> failf "invalid value %s (%s)" tok m
      | Failure m -> failf "unparsable value %s (%s)" tok m
      | Not_found -> failf "unparsable value %s" tok) in
    Hashtbl.replace token_cache tok x; x

let xcmp (a : xval) (b : xval) : int =
  match xv_cmp fuel a b with Some c -> sgn_int c | None -> raise Out_of_fuel
let same_number a b = xcmp a b = 0

let dy_of_string (s : string) : dyadic =
  let k = String.index s '/' in
  { da = z_of_string (String.sub s 0 k); dn = n_of_string (String.sub s (k + 1) (String.length s - k - 1)) }

(* the model value for a state token printed by the C driver; canonical forms are REQUIRED of the implementation *)
let value_of_state (tok : string) : value =
  let _ = xv_of_token tok in                     (* validates isolating interval, sign caches *)
  if tok = "+inf" then VPinf else if tok = "-inf" then VMinf else
  match String.split_on_char ':' tok with
  | ["z"; a] -> VInt (z_of_string a)
  | ["d"; s] ->
    let d = dy_of_string s in
    if not (dy_is_normalized d) then failf "dyadic %s is not normalised" tok;
    VDy d
  | ["q"; s] ->
    let k = String.index s '/' in
    let q = (z_of_string (String.sub s 0 k), z_of_string (String.sub s (k + 1) (String.length s - k - 1))) in
    if not (q_is_canon q) then failf "rational %s is not canonical" tok;
    VRat q
  | ["p"; s] ->
    let d = dy_of_string s in
    if not (dy_is_normalized d) then failf "point %s is not normalised" tok;
    VAlg (RQ (q_from_dyadic d))
  | "a" :: cs :: lo :: hi :: _ -> VAlg (RA (upoly_of_string cs, rat_of_dy_string lo, rat_of_dy_string hi))
  | _ -> failf "unexpected state token %s" tok

let kind_of_value (v : value) =
  match v with VInt _ -> "z" | VDy _ -> "d" | VRat _ -> "q" | VAlg _ -> "alg" | VPinf -> "+inf" | VMinf -> "-inf"
let kind_of_token (tok : string) =
  if tok = "+inf" || tok = "-inf" then tok else
  match tok.[0] with 'z' -> "z" | 'd' -> "d" | 'q' -> "q" | 'a' | 'p' -> "alg" | _ -> "?"

(* split the C output into states and results *)
let split_bar (cout : string list) : string list * string list =
  let rec go acc = function
    | [] -> failf "C output has no state part: %s" (String.concat " " cout)
    | "|" :: rest -> (List.rev acc, rest)
    | t :: rest -> go (t :: acc) rest in
  go [] cout

(* states must denote the numbers of the case *)
let load (case_toks : string list) (states : string list) : (xval * value) list =
  if List.length case_toks <> List.length states then failf "expected %d states" (List.length case_toks);
  List.map2 (fun ct st ->
    let x = xv_of_token ct in
    let v = value_of_state st in
    if not (same_number x (v_to_xval v)) then failf "state %s is not the number %s" st ct;
    (x, v)) case_toks states

let unres (what : string) (r : 'a vres) : 'a option =
  match r with ROk a -> Some a | RUndef -> None | RFuel -> raise Out_of_fuel

(* a result token of the implementation against the model's value: valid, same kind, same number, canonical *)
let check_result (what : string) (tok : string) (mv : value) =
  let x = xv_of_token tok in
  let _ = value_of_state tok in
  if kind_of_token tok <> kind_of_value mv then
    failf "%s: result %s has kind %s, the dispatch gives %s" what tok (kind_of_token tok) (kind_of_value mv);
  if not (same_number x (v_to_xval mv)) then
    failf "%s: result %s differs from %s" what tok (string_of_xval (v_to_xval mv))

let check_results what (toks : string list) (n : int) (r : value vres) =
  match unres what r with
  | None -> if toks <> ["UNDEF"] then failf "%s: unsupported by the documentation, implementation returned %s" what (String.concat " " toks)
  | Some mv ->
    if toks = ["UNDEF"] then failf "%s: driver refused a defined case, model gives %s" what (string_of_xval (v_to_xval mv));
    if List.length toks <> n then failf "%s: expected %d results" what n;
    List.iteri (fun i t -> check_result (Printf.sprintf "%s[output %d]" what i) t mv) toks

let expect_sign what (got : string) (r : z vres) =
  match unres what r with
  | None -> failf "%s: model undefined" what
  | Some c -> if string_of_int (sgn_int c) <> got then failf "%s: implementation %s, model %d" what got (sgn_int c)

(* reference integer tests on a finite number *)
let rfloor (x : rnum) = match rn_floor fuel x with Some f -> f | None -> raise Out_of_fuel
let rceil (x : rnum) = match rn_ceiling fuel x with Some f -> f | None -> raise Out_of_fuel
let ris_int (x : rnum) = match rn_is_integer fuel x with Some b -> b | None -> raise Out_of_fuel

let bool_of01 what s = if s = "1" then true else if s = "0" then false else failf "%s: expected 0/1, got %s" what s

(* is there an integer k with lo <|= k <|= hi ? *)
let integer_within (lo : xval) (slo : bool) (hi : xval) (shi : bool) : bool =
  match lo, hi with
  | XMinf, _ | _, XPinf -> true
  | XFin l, XFin h ->
    let k = if ris_int l && not slo then rfloor l else Z.add (rfloor l) (z_of_int 1) in
    let c = sgn_int (rn_cmp_q h (k, z_of_int 1)) in          (* h ? k *)
    c > 0 || (c = 0 && not shi)
  | _, _ -> false

let within (lo : xval) (slo : bool) (v : xval) (hi : xval) (shi : bool) : bool =
  let c1 = xcmp lo v and c2 = xcmp v hi in
  (c1 < 0 || (c1 = 0 && not slo)) && (c2 < 0 || (c2 = 0 && not shi))

let run_checked (toks : string list) (cout : string list) : string =
  let (states, res) = split_bar cout in
  (match res with "BADTOKEN" :: _ -> failf "driver could not build an input" | _ -> ());
  match toks with
  | ["cmp"; a; b] ->
    (match load [a; b] states, res with
     | [(xa, va); (xb, vb)], [ab; ba; aa; aa2] ->
       expect_sign "cmp(a,b)" ab (v_cmp fuel va vb);
       expect_sign "cmp(b,a)" ba (v_cmp fuel vb va);
       expect_sign "cmp(a,a) same object" aa (v_cmp_ptr true fuel va va);
       expect_sign "cmp(a,copy of a)" aa2 (v_cmp fuel va va);
       (* and against the reference order on the numbers named in the case *)
       if string_of_int (xcmp xa xb) <> ab then failf "cmp(a,b) = %s but the numbers compare %d" ab (xcmp xa xb);
       if string_of_int (xcmp xb xa) <> ba then failf "cmp(b,a) = %s but the numbers compare %d" ba (xcmp xb xa);
       "CHECK ok"
     | _ -> failf "malformed cmp output")
  | ["tri"; a; b; c] ->
    (match load [a; b; c] states with
     | [(x0, v0); (x1, v1); (x2, v2)] ->
       let xs = [| x0; x1; x2 |] and vs = [| v0; v1; v2 |] in
       let r = Array.make_matrix 3 3 0 in
       let rest = ref res in
       for i = 0 to 2 do for j = 0 to 2 do if i <> j then begin
         (match !rest with
          | t :: tl -> r.(i).(j) <- int_of_string t; rest := tl
          | [] -> failf "malformed tri output")
       end done done;
       for i = 0 to 2 do for j = 0 to 2 do if i <> j then begin
         expect_sign (Printf.sprintf "cmp(v%d,v%d)" i j) (string_of_int r.(i).(j)) (v_cmp fuel vs.(i) vs.(j));
         if xcmp xs.(i) xs.(j) <> r.(i).(j) then failf "cmp(v%d,v%d) = %d but the numbers compare %d" i j r.(i).(j) (xcmp xs.(i) xs.(j));
         if r.(i).(j) <> - r.(j).(i) then failf "monitor: cmp(v%d,v%d) = %d and cmp(v%d,v%d) = %d (antisymmetry)" i j r.(i).(j) j i r.(j).(i)
       end done done;
       (* monitor on the implementation's own answers: transitivity of <= over every permutation *)
       for i = 0 to 2 do for j = 0 to 2 do for k = 0 to 2 do
         if i <> j && j <> k && i <> k then begin
           if r.(i).(j) <= 0 && r.(j).(k) <= 0 && r.(i).(k) > 0 then failf "monitor: v%d<=v%d<=v%d but v%d>v%d (transitivity)" i j k i k;
           if r.(i).(j) = 0 && r.(i).(k) <> r.(j).(k) then failf "monitor: v%d=v%d but they compare differently with v%d" i j k
         end done done done;
       "CHECK ok"
     | _ -> failf "malformed tri output")
  | ["cmps"; a; x; p] ->
    (match load [a; x; p] states, res with
     | [(xa, va); (xx, vx); (xp, vp)], [ax; xa_; st2; ap; pa] ->
       expect_sign "cmp(a,x)" ax (v_cmp fuel va vx);
       expect_sign "cmp(x,a)" xa_ (v_cmp fuel vx va);
       if string_of_int (xcmp xa xx) <> ax then failf "cmp(a,x) = %s but the numbers compare %d" ax (xcmp xa xx);
       if string_of_int (xcmp xx xa) <> xa_ then failf "cmp(x,a) = %s but the numbers compare %d" xa_ (xcmp xx xa);
       (* the refined object must still be the same number; the second comparison starts from its state *)
       let va2 = value_of_state st2 in
       if not (same_number xa (v_to_xval va2)) then failf "after the first comparison the state %s is not the number %s" st2 a;
       expect_sign "cmp(a',p)" ap (v_cmp fuel va2 vp);
       expect_sign "cmp(p,a')" pa (v_cmp fuel vp va2);
       if string_of_int (xcmp xa xp) <> ap then failf "cmp(a',p) = %s but the numbers compare %d (a' = %s)" ap (xcmp xa xp) st2;
       if string_of_int (xcmp xp xa) <> pa then failf "cmp(p,a') = %s but the numbers compare %d (a' = %s)" pa (xcmp xp xa) st2;
       "CHECK ok"
     | _ -> failf "malformed cmps output")
  | ["cmpt"; a; b; c] ->
    (match load [a; b; c] states, res with
     | [(xa, va); (xb, vb); (xc, vc)], [ab1; ba1; ab2; ba2; sta; stb; ac; ca; bc; cb; ra; rb] ->
       let want what got x y = if string_of_int (xcmp x y) <> got then failf "%s = %s but the numbers compare %d" what got (xcmp x y) in
       expect_sign "cmp(a,b)" ab1 (v_cmp fuel va vb);
       expect_sign "cmp(b,a)" ba1 (v_cmp fuel vb va);
       want "cmp(a,b)" ab1 xa xb; want "cmp(b,a)" ba1 xb xa;
       want "second cmp(a,b)" ab2 xa xb; want "second cmp(b,a)" ba2 xb xa;
       (* what the two objects hold after being compared: still valid representations of the same numbers *)
       let va' = value_of_state sta and vb' = value_of_state stb in
       if not (same_number xa (v_to_xval va')) then failf "after the comparison the state %s is not the number %s" sta a;
       if not (same_number xb (v_to_xval vb')) then failf "after the comparison the state %s is not the number %s" stb b;
       expect_sign "cmp(a',c)" ac (v_cmp fuel va' vc); expect_sign "cmp(c,a')" ca (v_cmp fuel vc va');
       expect_sign "cmp(b',c)" bc (v_cmp fuel vb' vc); expect_sign "cmp(c,b')" cb (v_cmp fuel vc vb');
       want "cmp(a',c)" ac xa xc; want "cmp(c,a')" ca xc xa; want "cmp(b',c)" bc xb xc; want "cmp(c,b')" cb xc xb;
       (* a value that reports itself rational must be rational (is_rational is sound) *)
       let rational x = (match x with XFin r -> (match rn_is_rational fuel r with Some t -> t | None -> raise Out_of_fuel) | _ -> false) in
       if ra = "1" && not (rational xa) then failf "after the comparison %s reports itself rational" a;
       if rb = "1" && not (rational xb) then failf "after the comparison %s reports itself rational" b;
       "CHECK ok"
     | _ -> failf "malformed cmpt output")
  | ["cmpq"; a; q] ->
    (match load [a] states, res with
     | [(xa, va)], [c] ->
       let qq = (match xv_of_token q with XFin (RQ r) -> r | _ -> failf "cmpq: rational expected") in
       expect_sign "cmp_rational" c (v_cmp_rational va qq);
       if string_of_int (xcmp xa (XFin (RQ qq))) <> c then failf "cmp_rational = %s but the numbers compare %d" c (xcmp xa (XFin (RQ qq)));
       "CHECK ok"
     | _ -> failf "malformed cmpq output")
  | ["obs"; a; _] ->
    (match load [a] states, res with
     | [(xa, va)], [isint; israt; isinf; fl; ce; rat; num; den; sg] ->
       let isint = bool_of01 "is_integer" isint and israt = bool_of01 "is_rational" israt and isinf = bool_of01 "is_infinity" isinf in
       if isint <> v_is_integer va then failf "is_integer = %b, model %b" isint (v_is_integer va);
       (* is_rational is documented as incomplete for algebraic numbers: a sharper answer than the model's is
          accepted (and verified through the extracted value below); a weaker one is not *)
       if v_is_rational va && not israt then failf "is_rational = 0, the dispatch gives 1";
       if israt && not (v_is_rational va) && (match va with VAlg _ -> false | _ -> true) then failf "is_rational = 1 on %s" (kind_of_value va);
       if isinf <> v_is_infinity va then failf "is_infinity = %b, model %b" isinf (v_is_infinity va);
       expect_sign "sgn" sg (ROk (v_sgn va));
       if string_of_int (xcmp xa (XFin (RQ (z_of_int 0, z_of_int 1)))) <> sg then failf "sgn = %s but the number has another sign" sg;
       (match xa with
        | XFin x ->
          (match unres "floor" (v_floor va), unres "ceiling" (v_ceiling va) with
           | Some f, Some c ->
             if string_of_z f <> fl then failf "floor = %s, model %s" fl (string_of_z f);
             if string_of_z c <> ce then failf "ceiling = %s, model %s" ce (string_of_z c)
           | _ -> failf "model floor/ceiling undefined on a finite value");
          (* the semantic truth, independent of the representation *)
          if string_of_z (rfloor x) <> fl then failf "floor = %s but the number's floor is %s" fl (string_of_z (rfloor x));
          if string_of_z (rceil x) <> ce then failf "ceiling = %s but the number's ceiling is %s" ce (string_of_z (rceil x));
          if isint <> ris_int x then failf "is_integer = %b but the number is %san integer" isint (if ris_int x then "" else "not ");
          (* is_rational is documented as incomplete for algebraic numbers: checked one-sided, through the value *)
          if israt then begin
            (* semantic: the extracted rational is canonical and IS the number; num/den are its parts *)
            let q = (try rat_of_q_string rat with _ -> failf "get_rational: unparsable %s" rat) in
            if string_of_rat q <> rat then failf "get_rational %s is not canonical" rat;
            if not (same_number xa (XFin (RQ q))) then failf "get_rational = %s is not the number" rat;
            if string_of_z (fst q) <> num then failf "get_num = %s but the number is %s" num rat;
            if string_of_z (snd q) <> den then failf "get_den = %s but the number is %s" den rat;
            (* faithful: the model's extraction agrees whenever the model reports rational too *)
            (match v_get_rational va, v_get_num va, v_get_den va with
             | ROk q', ROk n, ROk d ->
               if string_of_rat q' <> rat then failf "get_rational = %s, model %s" rat (string_of_rat q');
               if string_of_z n <> num then failf "get_num = %s, model %s" num (string_of_z n);
               if string_of_z d <> den then failf "get_den = %s, model %s" den (string_of_z d)
             | RFuel, _, _ | _, RFuel, _ | _, _, RFuel -> raise Out_of_fuel
             | _ -> if v_is_rational va then failf "value reports itself rational, model extraction undefined")
          end else begin
            (match va with VAlg _ -> () | _ -> failf "is_rational = 0 on a value that is not algebraic");
            if rat <> "-" then failf "malformed obs output"
          end
        | _ ->
          if fl <> "-" || ce <> "-" then failf "malformed obs output";
          if israt || isint then failf "infinity reported rational/integer");
       "CHECK ok"
     | _ -> failf "malformed obs output")
  | [("add" | "sub" | "mul" | "div") as op; a; b; _] ->
    (match load [a; b] states with
     | [(_, va); (_, vb)] ->
       let r = (match op with "add" -> v_add fuel va vb | "sub" -> v_sub fuel va vb | "mul" -> v_mul fuel va vb | _ -> v_div fuel va vb) in
       check_results op res 4 r; "CHECK ok"
     | _ -> failf "malformed output")
  | ["neg"; a; _] ->
    (match load [a] states with
     | [(_, va)] -> check_results "neg" res 3 (ROk (v_neg va)); "CHECK ok"
     | _ -> failf "malformed output")
  | ["inv"; a; _] ->
    (match load [a] states with
     | [(_, va)] -> check_results "inv" res 3 (v_inv fuel va); "CHECK ok"
     | _ -> failf "malformed output")
  | ["pow"; a; n; _] when (a = "+inf" || a = "-inf") && n = "0" -> "SKIP"     (* inf^0: outside the documented domain *)
  | ["pow"; a; n; _] ->
    (match load [a] states with
     | [(_, va)] -> check_results "pow" res 3 (v_pow fuel va (n_of_string n)); "CHECK ok"
     | _ -> failf "malformed output")
  | ["btw"; a; sa; b; sb; _] ->
    (match load [a; b] states with
     | [(xa, va); (xb, vb)] ->
       let sa = (sa = "1") and sb = (sb = "1") in
       let r = v_between fuel va sa vb sb in
       (match unres "between" r with
        | None ->
          if res <> ["UNDEF"] then failf "between: equal bounds with a strict side are unsupported, implementation returned %s" (String.concat " " res)
        | Some mv ->
          if res = ["UNDEF"] then failf "between: driver refused a defined case";
          if List.length res <> 4 then failf "between: expected 4 results";
          let c = xcmp xa xb in
          let (lo, slo, hi, shi) = if c > 0 then (xb, sb, xa, sa) else (xa, sa, xb, sb) in
          let exact = (v_is_rational va || v_is_infinity va) && (v_is_rational vb || v_is_infinity vb) in
          List.iteri (fun i t ->
            let what = Printf.sprintf "between[output %d]" i in
            let x = xv_of_token t in
            let _ = value_of_state t in
            (* the property: within the bounds, respecting the strictness of each *)
            if not (within lo slo x hi shi) then
              failf "%s: %s is not within %s%s, %s%s" what t (if slo then "(" else "[") (string_of_xval lo) (string_of_xval hi) (if shi then ")" else "]");
            (* an integer whenever the bounds admit one *)
            (match x with
             | XFin r -> if c <> 0 && integer_within lo slo hi shi && not (ris_int r) then failf "%s: %s is not an integer although the bounds admit one" what t
             | _ -> if c <> 0 then failf "%s: infinite result" what);
            if kind_of_token t <> kind_of_value mv then failf "%s: result %s has kind %s, the dispatch gives %s" what t (kind_of_token t) (kind_of_value mv);
            (* when no isolating interval is involved the hulls are the bounds: the result is determined *)
            if exact && not (same_number x (v_to_xval mv)) then failf "%s: %s, model %s" what t (string_of_xval (v_to_xval mv))) res);
       "CHECK ok"
     | _ -> failf "malformed output")
  | "hash" :: a :: b :: _ :: precs ->
    (match states with
     | [sa; sb; sa2] ->
       let xa = xv_of_token a and xb = xv_of_token b in
       if not (same_number xa xb) then "SKIP" else begin
         let va = value_of_state sa and vb = value_of_state sb and va2 = value_of_state sa2 in
         List.iter (fun v -> if not (same_number xa (v_to_xval v)) then failf "a state is not the number %s" a) [va; vb; va2];
         let res = List.filter (fun t -> if t = "HASH0-DIFFERS" then failf "lp_value_hash differs from lp_value_hash_approx(.,0)" else true) res in
         if List.length res <> List.length precs then failf "malformed hash output";
         List.iter2 (fun p t ->
           (match String.split_on_char ':' t with
            | [ha; hb; ha2] ->
              if ha <> hb then failf "hash_approx(precision %s): %s for %s but %s for %s (equal numbers)" p ha sa hb sb;
              if ha <> ha2 then failf "hash_approx(precision %s): %s for %s but %s for %s (same number, refined)" p ha sa ha2 sa2
            | _ -> failf "malformed hash output");
           (* the modelled bisection paths agree as well (what the theorem states) *)
           let pn = n_of_string p in
           if v_hash_path pn va <> v_hash_path pn vb || v_hash_path pn va <> v_hash_path pn va2 then
             failf "model: hash paths differ at precision %s" p) precs res;
         "CHECK ok"
       end
     | _ -> failf "malformed hash output")
  | _ -> "UNKNOWN-OP"

let run (toks : string list) (cout : string list) : string =
  try run_checked toks cout with
  | Fail m -> "CHECK fail " ^ m
  | Out_of_fuel -> "FUEL"
  | Bad_value m -> "CHECK fail invalid value: " ^ m
