(* C06 model driver.  Case:  c06 <poly> <k> {lo_n lo_d lo_open hi_n hi_d hi_open}*k [nosturm]
   C output: N <n> C <c1..ck> I <m> {P num exp | A poly lnum lexp hnum hexp sa sb}*m S <l> <poly>*l
   The answer is CHECK ok / CHECK fail <why>: counts are compared with the certified / reference counts and
   with the faithful model, the isolation list is run through the proved checker check_isolation, the Sturm
   sequence through the proved checker check_sturm and compared with the faithful model's sequence. *)
open Model
open Io

let fuel = nat_of_int 4000

let rec take n l = if n <= 0 then [] else match l with [] -> [] | x :: r -> x :: take (n - 1) r
let rec drop n l = if n <= 0 then l else match l with [] -> [] | _ :: r -> drop (n - 1) r

let pow2z (e : string) : z = rd_pow (n_of_string e)

let parse_items (toks : string list) (m : int) : item list * string list =
  let rec go acc toks m =
    if m = 0 then (List.rev acc, toks) else
    match toks with
    | "P" :: a :: e :: rest -> go (IPoint (z_of_string a, pow2z e) :: acc) rest (m - 1)
    | "A" :: p :: la :: le :: ha :: he :: _sa :: _sb :: rest ->
        go (IAlg (upoly_of_string p, z_of_string la, pow2z le, z_of_string ha, pow2z he) :: acc) rest (m - 1)
    | _ -> failwith "bad item list" in
  go [] toks m

(* the recorded signs at the ends must be the signs of the item's polynomial *)
let rec signs_ok (toks : string list) (m : int) : bool =
  if m = 0 then true else
  match toks with
  | "P" :: _ :: _ :: rest -> signs_ok rest (m - 1)
  | "A" :: p :: la :: le :: ha :: he :: sa :: sb :: rest ->
      let p = upoly_of_string p in
      sgn_of_z (psgn_at_rat p (z_of_string la) (pow2z le)) = int_of_string sa
      && sgn_of_z (psgn_at_rat p (z_of_string ha) (pow2z he)) = int_of_string sb
      && signs_ok rest (m - 1)
  | _ -> false

let str_itv (j : ri_itv) =
  (if j.qlo_open then "(" else "[") ^ string_of_z j.qlo_n ^ "/" ^ string_of_z j.qlo_d ^ ", "
  ^ string_of_z j.qhi_n ^ "/" ^ string_of_z j.qhi_d ^ (if j.qhi_open then ")" else "]")

let str_item = function
  | IPoint (a, b) -> "P " ^ string_of_z a ^ "/" ^ string_of_z b
  | IAlg (p, la, lb, ha, hb) ->
      "A " ^ string_of_upoly p ^ " (" ^ string_of_z la ^ "/" ^ string_of_z lb ^ "," ^ string_of_z ha ^ "/" ^ string_of_z hb ^ ")"

(* ---- the SORTED faithful model (lp_roots_isolate_sorted: isolation + insertion sort over the comparison model of
   algebraic_number.c; theorem C06_libpoly_isolation_end_to_end) against the list the library printed.
   Equality of the intervals cannot be demanded: libc's qsort calls lp_algebraic_number_cmp (which refines both
   operands in place) in another order than the model's insertion sort, so the two lists can differ by the amount
   of refinement.  Demanded: same length; item by item the same kind; points equal; interval items with the SAME
   defining polynomial and OVERLAPPING intervals whose intersection still has the sign change of that polynomial
   (both isolate the same root of the same polynomial). *)
let q_lt (a, b) (c, d) = riq_lt a b c d
let q_eq (a, b) (c, d) = riq_le a b c d && riq_le c d a b
let item_of_sorted (x : anum) : item =
  match x.an_f with
  | None -> IPoint (x.an_a.da, rd_pow x.an_a.dn)
  | Some p -> IAlg (p, x.an_a.da, rd_pow x.an_a.dn, x.an_b.da, rd_pow x.an_b.dn)
let same_root (i : int) (c : item) (mo : item) : string option =
  match c, mo with
  | IPoint (a, b), IPoint (a', b') ->
      if q_eq (a, b) (a', b') then None
      else Some (Printf.sprintf "sorted model: root %d is the point %s, C has %s" i (str_item mo) (str_item c))
  | IAlg (p, la, lb, ha, hb), IAlg (p', la', lb', ha', hb') ->
      if string_of_upoly (pnorm p) <> string_of_upoly (pnorm p') then
        Some (Printf.sprintf "sorted model: root %d has polynomial %s, C has %s" i (string_of_upoly p') (string_of_upoly p))
      else
        let lo = if q_lt (la, lb) (la', lb') then (la', lb') else (la, lb) in
        let hi = if q_lt (ha, hb) (ha', hb') then (ha, hb) else (ha', hb') in
        if not (q_lt lo hi) then
          Some (Printf.sprintf "sorted model: root %d: intervals do not overlap: model %s, C %s" i (str_item mo) (str_item c))
        else if sgn_of_z (psgn_at_rat p (fst lo) (snd lo)) * sgn_of_z (psgn_at_rat p (fst hi) (snd hi)) >= 0 then
          Some (Printf.sprintf "sorted model: root %d: no sign change on the intersection: model %s, C %s" i (str_item mo) (str_item c))
        else None
  | _, _ -> Some (Printf.sprintf "sorted model: root %d: kinds differ: model %s, C %s" i (str_item mo) (str_item c))

let rec parse_itvs toks k =
  if k = 0 then [] else
  match toks with
  | a :: b :: ao :: c :: d :: bo :: rest ->
      { qlo_n = z_of_string a; qlo_d = z_of_string b; qlo_open = (ao = "1");
        qhi_n = z_of_string c; qhi_d = z_of_string d; qhi_open = (bo = "1") } :: parse_itvs rest (k - 1)
  | _ -> failwith "bad interval list"

let run (toks : string list) (cout : string list) : string =
  match toks with
  | "c06" :: ps :: ks :: rest ->
    let f = upoly_of_string ps in
    let k = int_of_string ks in
    let itvs = parse_itvs rest k in
    let nosturm = List.mem "nosturm" rest in
    (match cout with
     | "N" :: nall :: "C" :: more ->
       let counts = List.map int_of_string (take k more) in
       (match drop k more with
        | "I" :: ms :: more2 ->
          let m = int_of_string ms in
          let (items, more3) = parse_items more2 m in
          let sg_ok = signs_ok more2 m in
          (match more3 with
           | "S" :: ls :: spolys ->
             let l = int_of_string ls in
             let cseq = List.map upoly_of_string (take l spolys) in
             let errs = ref [] in
             let err s = errs := s :: !errs in
             (* shared computations: square-free part and its reference chain; libpoly's factors and sequences *)
             let g = psqfree f in
             let gch = sturm_chain g in
             let fseqs = lp_factor_seqs f in
             let seqs = List.map snd fseqs in
             let deg0 = List.length (pnorm f) <= 1 in
             let model_count j = if deg0 then 0 else int_of_z (lp_roots_count_seqs true seqs j) in
             (* 1. whole-line count against the certified count *)
             let nall = int_of_string nall in
             (match certified_count f with
              | None -> err "reference Sturm chain of the model was rejected by chain_ok (model problem)"
              | Some n -> if int_of_nat n <> nall then err (Printf.sprintf "whole-line count C=%d certified=%d" nall (int_of_nat n)));
             (* faithful model of the count *)
             let mall = model_count None in
             if mall <> nall then err (Printf.sprintf "whole-line count C=%d faithful-model=%d" nall mall);
             (* 2. isolation through the proved checker *)
             let iso_ok = check_isolation f items in
             if not iso_ok then begin
               let why =
                 if not (List.for_all item_wf items) then "ill-formed item"
                 else if not (items_sorted items) then "items not increasing/disjoint"
                 else (match List.filter (fun it -> not (item_ok f it)) items with
                       | it :: _ -> "item is not a root / has no sign change / polynomial does not divide f: " ^ str_item it
                       | [] -> "number of items " ^ string_of_int (List.length items) ^ " <> number of distinct real roots") in
               err ("check_isolation rejected: " ^ why)
             end;
             if not sg_ok then err "sgn_at_a / sgn_at_b of an item are not the signs of its polynomial at the ends";
             (* faithful model of the isolation: same number of roots, and its own output is accepted item-wise *)
             (match lp_roots_isolate_seqs fuel f fseqs with
              | None -> err "FUEL"
              | Some l ->
                if List.length l <> m then err (Printf.sprintf "number of isolated roots C=%d faithful-model=%d" m (List.length l));
                List.iter (fun x -> let it = item_of_anum x in
                            if not (item_wf it && item_ok f it) then err ("faithful model produced a bad item (model problem): " ^ str_item it)) l;
                (* the sorted model = lp_roots_isolate_sorted fuel f (same factor sequences, computed once) *)
                (match an_isort fuel (List.map anum_of_ri l) with
                 | None -> err "FUEL"
                 | Some s ->
                   let ms = List.map item_of_sorted s in
                   if List.length ms <> m then err (Printf.sprintf "number of isolated roots C=%d sorted-model=%d" m (List.length ms))
                   else List.iteri (fun i (c, mo) -> match same_root i c mo with None -> () | Some e -> err e)
                          (List.combine items ms)));
             (* 3. interval counts: items-derived (proved, when the isolation was accepted), reference Sturm, faithful model *)
             List.iteri (fun i j ->
               let c = List.nth counts i in
               let r = int_of_z (ref_count_itv_ch g gch j) in
               if c <> r then err (Printf.sprintf "count over %s C=%d reference=%d" (str_itv j) c r);
               if iso_ok then begin
                 let d = int_of_nat (count_in_itv items j) in
                 if c <> d then err (Printf.sprintf "count over %s C=%d but %d of the isolated roots lie in it" (str_itv j) c d)
               end;
               let mm = model_count (Some j) in
               if c <> mm then err (Printf.sprintf "count over %s C=%d faithful-model=%d" (str_itv j) c mm)) itvs;
             (* 4. Sturm sequence: proved whole-line checker, exact comparison with the faithful model (both primitive),
                   sign variations over the given intervals for square-free f *)
             if not nosturm then begin
               if not (check_sturm f cseq) then err "check_sturm rejected the returned Sturm sequence";
               let mseq = lp_sturm_sequence f in
               if List.map string_of_upoly mseq <> List.map string_of_upoly cseq then
                 err ("Sturm sequence differs from the faithful model: model " ^ String.concat " " (List.map string_of_upoly mseq));
               let v = int_of_nat (sturm_var cseq MInf) - int_of_nat (sturm_var cseq PInf) in
               if v <> nall then err (Printf.sprintf "V(-inf)-V(+inf)=%d of the returned sequence <> count %d" v nall);
               (* for a square-free f the chain ends in a constant: V(a)-V(b) counts the roots in (a,b] *)
               if List.length (pnorm g) = List.length (pnorm f) then
                 List.iter (fun j ->
                   let a = Fin (j.qlo_n, j.qlo_d) and b = Fin (j.qhi_n, j.qhi_d) in
                   let v = int_of_nat (sturm_var cseq a) - int_of_nat (sturm_var cseq b) in
                   let r = int_of_z (ref_count_itv_ch g gch { j with qlo_open = true; qhi_open = false }) in
                   if v <> r then err (Printf.sprintf "V(a)-V(b)=%d of the returned sequence over %s, roots in (a,b] = %d" v (str_itv j) r)) itvs
             end;
             (match List.rev !errs with
              | [] -> "CHECK ok"
              | "FUEL" :: _ -> "FUEL"
              | es -> if List.mem "FUEL" es then "FUEL" else "CHECK fail: " ^ String.concat "; " es)
           | _ -> "CHECK fail: malformed C output (S)")
        | _ -> "CHECK fail: malformed C output (I)")
     | _ -> "CHECK fail: malformed C output (N)")
  | _ -> "UNKNOWN-OP"
