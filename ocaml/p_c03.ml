(* C03 model driver.  Every line is answered with CHECK ok / CHECK fail <why> / FUEL / SKIP:
   the implementation's output is (1) run through the proved checkers of coq/Gcd.v (GcdSpec.v),
   (2) compared with the reference gcd after sign normalisation, (3) compared exactly with the faithful model of
   the univariate algorithms. *)
open Model
open Io

let up = upoly_of_string
let sup = string_of_upoly
let fuel = nat_of_int 200
let fail fmt = Printf.ksprintf (fun s -> "CHECK fail: " ^ s) fmt
let peq a b = peqb a b

let order_of (s : string) : n list =           (* "2,0,1" bottom first -> top first *)
  List.rev (List.map n_of_string (String.split_on_char ',' s))
let vars_of (ps : mpoly list) : n list =
  let vs = List.concat (List.map mp_vars ps) in
  List.sort_uniq (fun a b -> compare (int_of_n a) (int_of_n b)) vs
let all_same = function [] -> true | x :: r -> List.for_all (fun y -> y = x) r

let run (toks : string list) (cout : string list) : string =
  match toks, cout with
  | _, ["NOHOOK"] -> "SKIP"
  (* ------------------------------------------------------------ univariate gcd *)
  | ["ugcd"; "0"; mode; a; b], [g] ->
    let a = up a and b = up b and g = up g in
    let mode = z_of_string mode in
    if not (gcd_check_Z g a b) then
      fail "result is not a gcd of the operands in Z[x] (reference gcd %s)" (sup (pgcd a b))
    else if not (peq (pabs g) (pgcd a b)) then fail "differs from the reference gcd %s beyond sign" (sup (pgcd a b))
    else (match upoly_gcd_Z mode a b with
        | None -> "FUEL"
        | Some m -> if sup m = sup g then "CHECK ok" else fail "faithful model returns %s" (sup m))
  | ["ugcd"; p; _; a; b], [g] ->
    let p = z_of_string p in
    let a = up a and b = up b and g = up g in
    (match upoly_gcd_Zp p a b with
     | None -> "FUEL"
     | Some m ->
       if not (pdivides_mod_b p g a && pdivides_mod_b p g b) then fail "result does not divide both operands modulo p"
       else if not (is_monic_or_zero p g) then fail "gcd over a prime field is not monic (model %s)" (sup m)
       else if not (pdivides_mod_b p m g) then fail "the model gcd %s does not divide the result" (sup m)
       else if sup m = sup g then "CHECK ok" else fail "faithful model returns %s" (sup m))
  | ["ustrat"; a; b], [h; s] ->
    let a = up a and b = up b in
    let s = up s in
    let r = pgcd a b in
    if not (gcd_check_Z s a b && peq (pabs s) r) then fail "subresultant result is not the gcd %s" (sup r)
    else (match gcd_subresultant a b, gcd_heuristic (nat_of_int 2) a b with
        | None, _ | _, None -> "FUEL"
        | Some ms, Some mh ->
          if sup ms <> sup s then fail "faithful subresultant model returns %s" (sup ms)
          else (match mh with
              | None -> if h = "none" then "CHECK ok" else fail "model heuristic gives up, implementation returns %s" h
              | Some d ->
                if h = "none" then fail "model heuristic returns %s, implementation gives up" (sup d)
                else if sup d <> h then fail "faithful heuristic model returns %s" (sup d)
                else if not (gcd_check_Z (up h) a b) then fail "accepted heuristic candidate is not the gcd %s" (sup r)
                else "CHECK ok"))
  | ["ueuclid"; p; a; b], [g; u; v] | ["uext"; p; a; b], [g; u; v] ->
    let p = z_of_string p in
    let a = up a and b = up b and g = up g and u = up u and v = up v in
    let m = if List.hd toks = "ueuclid" then gcd_euclid p a b else upoly_extended_gcd p a b in
    if not (egcd_check_Zp p g u v a b) then
      fail "u*p + v*q = g, g | p, g | q, g monic does not hold modulo the prime"
    else (match m with
        | None -> "FUEL"
        | Some ((mg, mu), mv) ->
          if sup mg = sup g && sup mu = sup u && sup mv = sup v then "CHECK ok"
          else fail "faithful model returns %s %s %s" (sup mg) (sup mu) (sup mv))
  | ["ubez"; p; a; b; r], [u; v] ->
    let p = z_of_string p in
    let a = up a and b = up b and r = up r and u = up u and v = up v in
    if not (solve_bezout_check p u v a b r) then fail "u*p + v*q = r with deg u < deg q, deg v < deg p does not hold"
    else (match solve_bezout p a b r with
        | None -> "FUEL"
        | Some (mu, mv) ->
          if sup mu = sup u && sup mv = sup v then "CHECK ok" else fail "faithful model returns %s %s" (sup mu) (sup mv))
  | ["ucont"; a], [c; pp; pp2; prim] ->
    let a = up a and c = z_of_string c and pp = up pp and pp2 = up pp2 in
    if not (cont_pp_check_Z (Z.abs c) pp (pabs a)) then fail "content * pp <> input, or pp not primitive / not positive"
    else if not (peq (pscale c pp) a) then fail "signed content * pp <> input"
    else if string_of_z c <> string_of_z (content_Z a) then fail "model content %s" (string_of_z (content_Z a))
    else if sup pp <> sup (ppp a) then fail "model primitive part %s" (sup (ppp a))
    else if sup pp2 <> sup (make_primitive_Z a) then fail "model make_primitive_Z %s" (sup (make_primitive_Z a))
    else if prim <> string_of_bool01 (is_primitive_Z a) then fail "model is_primitive %b" (is_primitive_Z a)
    else "CHECK ok"
  (* ------------------------------------------------------------ multivariate *)
  | ["mgcd"; _; _; a; b; g0], gs when List.length gs = 4 ->
    if not (all_same gs) then fail "fresh / pre-used / aliased outputs differ"
    else
      let a = mpoly_of_string a and b = mpoly_of_string b and g0 = mpoly_of_string g0 and g = mpoly_of_string (List.hd gs) in
      let vars = vars_of [a; b; g; g0] in
      (match mgcd_check vars fuel g a b g0 with
       | None -> "FUEL"
       | Some true -> "CHECK ok"
       | Some false ->
         let r = match mp_gcd_ref vars fuel a b with Some r -> string_of_mpoly r | None -> "?" in
         fail "divides-both=%b/%b planted-divides=%b reference gcd %s"
           (mp_divides_b vars g a) (mp_divides_b vars g b) (mp_divides_b vars g0 g) r)
  | ["mlcm"; ord; _; a; b], ls when List.length ls = 3 ->
    if not (all_same ls) then fail "fresh / aliased outputs differ"
    else
      let a = mpoly_of_string a and b = mpoly_of_string b and l = mpoly_of_string (List.hd ls) in
      let vars = vars_of [a; b; l] in
      (match mlcm_check vars (order_of ord) fuel l a b with
       | None -> "FUEL"
       | Some true -> "CHECK ok"
       | Some false -> fail "lcm * gcd <> +- product, or lc_sgn(lcm) < 0")
  | ["mppc"; ord; a], [pp; ct; pp1; ct1; pp2] ->
    if not (pp = pp1 && pp = pp2 && ct = ct1) then fail "pp_cont / pp / cont / aliased outputs differ"
    else
      let a = mpoly_of_string a and pp = mpoly_of_string pp and ct = mpoly_of_string ct in
      let vars = vars_of [a; pp; ct] in
      (match mppc_check vars (order_of ord) fuel pp ct a with
       | None -> "FUEL"
       | Some true -> "CHECK ok"
       | Some false -> fail "cont*pp <> input, or cont not free of the main variable, or pp not primitive / lc_sgn <= 0")
  | _ -> if cout = [] then "UNKNOWN-OP" else fail "unexpected number of outputs"
