(* C02 model driver.  Input: tokens of the case and tokens of the C output.
   Determined results (dense pseudo-division incl. the multiplier, exact division, integer and univariate
   results, divisibility) are compared with the extracted model exactly; where the property leaves freedom
   (sparse / lcm variants) the proved checker is run on the implementation's output.  The answer is
   "CHECK ok ..." or "CHECK fail <why>", "SKIP" for a case outside the documented domain, "FUEL". *)
open Model
open Io

let fuel = nat_of_int 400
let sp = string_of_mpoly
let mp = mpoly_of_string
let ring_of s : z option = if s = "0" then None else Some (z_of_string s)
let is_prime_s (m : string) =
  m <> "0" && ZA.probab_prime (ZA.of_string m) 25 <> 0

exception Fail of string
let expect what want got = if want <> got then raise (Fail (what ^ ": expected " ^ want ^ " got " ^ got))
let need what b = if not b then raise (Fail what)

(* main variable of a non-constant polynomial *)
let top a = match mp_top a with Some x -> x | None -> N0

let red ty a b = m_reduce lcm_standin fuel ty a b

let str3 ((p, q), r) = sp p ^ " " ^ sp q ^ " " ^ sp r
let str2 (q, r) = sp q ^ " " ^ sp r

let opt_str f = function Some v -> f v | None -> "none"

let run (toks : string list) (cout : string list) : string =
  try
    match toks, cout with
    | ["pseudo"; a; b; _], [p; q; r; pr; pd; pdr; spr; spd; spdr; p0; q0; r0; p2; q2; r2; p3; q3; r3] ->
      let ma = mp a and mb = mp b in
      let x = top ma in
      (match red PseudoDense ma mb with
       | None -> "FUEL"
       | Some ((mP, mQ), mR) ->
         (* determined: dense multiplier, quotient, remainder - public reduce, internal reduce, prem, pdivrem *)
         expect "lp_polynomial_reduce" (str3 ((mP, mQ), mR)) (String.concat " " [p; q; r]);
         expect "coefficient_reduce(PSEUDO_DENSE)" (str3 ((mP, mQ), mR)) (String.concat " " [p0; q0; r0]);
         expect "prem" (opt_str sp (m_prem lcm_standin fuel ma mb)) pr;
         expect "pdivrem" (opt_str str2 (m_pdivrem lcm_standin fuel ma mb)) (pd ^ " " ^ pdr);
         (* free: sparse variants - checker on the implementation's output *)
         let lc = if mp_top mb = Some x then mp_lc x mb else mb in
         let kmax = nat_of_int (int_of_n (mp_degree x ma) + 2) in
         need "spdivrem: no power lc^k with lc^k*A = D*B + R, deg R < deg B"
           (check_pow_reduce x ma mb lc (mp spd) (mp spdr) (mp_const (z_of_int 1)) kmax);
         expect "sprem vs spdivrem remainder" spdr spr;
         need "coefficient_reduce(PSEUDO_SPARSE): P*A = Q*B + R, deg R < deg B, P free of x"
           (check_reduce x ma mb (mp p2) (mp q2) (mp r2));
         need "coefficient_reduce(LCM_SPARSE): P*A = Q*B + R, deg R < deg B, P free of x"
           (check_reduce x ma mb (mp p3) (mp q3) (mp r3));
         (* every step multiplier lcm/lc(R) is made positive, so their product P has a positive leading coefficient *)
         need "coefficient_reduce(LCM_SPARSE): multiplier not sign-normalised" (sgn_of_z (mp_lc_sgn (mp p3)) > 0);
         (* informational: does the faithful sparse / lcm model reproduce the implementation's choice? *)
         let same ty s = match red ty ma mb with Some t -> if str3 t = s then "same" else "other" | None -> "none" in
         "CHECK ok sparse=" ^ same PseudoSparse (String.concat " " [p2; q2; r2]) ^
         " lcm=" ^ same LcmSparse (String.concat " " [p3; q3; r3]))
    | ["cpseudo"; a; b; _], [pr; pd; pdr; spr; spd; spdr; rm; dd; dr] ->
      let ma = mp a and mb = mp b in
      expect "prem" (opt_str sp (m_prem lcm_standin fuel ma mb)) pr;
      expect "pdivrem" (opt_str str2 (m_pdivrem lcm_standin fuel ma mb)) (pd ^ " " ^ pdr);
      expect "sprem" (opt_str sp (m_sprem lcm_standin fuel ma mb)) spr;
      expect "spdivrem" (opt_str str2 (m_spdivrem lcm_standin fuel ma mb)) (spd ^ " " ^ spdr);
      expect "rem" (opt_str sp (m_rem lcm_standin fuel ma mb)) rm;
      expect "divrem" (opt_str str2 (m_divrem lcm_standin fuel ma mb)) (dd ^ " " ^ dr);
      "CHECK ok"
    | ["exact"; a; b; _], [d; r; dd; dr] ->
      let ma = mp a and mb = mp b in
      (match m_div fuel ma mb with
       | None -> "FUEL"
       | Some mD ->
         (* the quotient of an exact division is determined: compare, and multiply back *)
         need "model quotient times divisor is not the dividend (case outside the domain?)" (mp_eqb (mp_mul mD mb) ma);
         expect "div" (sp mD) d;
         need "div: D*B <> A" (mp_eqb (mp_mul (mp d) mb) ma);
         (match cmp_type ma mb with
          | Lt -> ()
          | _ ->
            expect "rem" (opt_str sp (m_rem lcm_standin fuel ma mb)) r;
            expect "divrem" (opt_str str2 (m_divrem lcm_standin fuel ma mb)) (dd ^ " " ^ dr));
         "CHECK ok")
    | ["exactr"; a; b; _], [r; dd; dr; p1; q1; r1] ->
      let ma = mp a and mb = mp b in
      let x = top ma in
      (match red ExactSparse ma mb with
       | None -> "FUEL"
       | Some ((mP, mQ), mR) ->
         expect "coefficient_reduce(EXACT_SPARSE)" (str3 ((mP, mQ), mR)) (String.concat " " [p1; q1; r1]);
         expect "rem" (sp mR) r;
         expect "divrem" (str2 (mQ, mR)) (dd ^ " " ^ dr);
         need "divrem: A = D*B + R, deg R < deg B" (check_reduce x ma mb (mp_const (z_of_int 1)) (mp dd) (mp dr));
         "CHECK ok")
    | ["divides"; a; b], [res] ->
      let ma = mp a and mb = mp b in
      (match m_divides lcm_standin fuel ma mb with
       | None -> "FUEL"
       | Some v ->
         expect "divides" (string_of_bool01 v) res;
         (* a `true` answer is certified: the exact-division model produces the quotient, multiplied back *)
         if v && not (mp_is_zero mb) then
           (match m_div fuel mb ma with
            | Some q -> need "divides answered true but quotient * divisor <> dividend" (mp_eqb (mp_mul q ma) mb)
            | None -> raise (Fail "divides answered true but the exact division finds no quotient"));
         "CHECK ok")
    | ["uexact"; m; p; q], [d; r; d2; r2] ->
      let k = ring_of m and p = upoly_of_string p and q = upoly_of_string q in
      let p = pnorm p and q = pnorm q in
      (match udiv_rem_exact k p q, udiv_exact k p q, urem_exact k p q with
       | Some (md, mr), Some md1, Some mr1 ->
         expect "div_exact" (string_of_upoly md1) d;
         expect "rem_exact" (string_of_upoly mr1) r;
         expect "div_rem_exact" (string_of_upoly md ^ " " ^ string_of_upoly mr) (d2 ^ " " ^ r2);
         "CHECK ok"
       | _ -> "SKIP")
    | ["upseudo"; m; p; q], [d; r] ->
      let k = ring_of m and p = pnorm (upoly_of_string p) and q = pnorm (upoly_of_string q) in
      (match udiv_pseudo k p q with
       | Some (md, mr) -> expect "div_pseudo" (string_of_upoly md ^ " " ^ string_of_upoly mr) (d ^ " " ^ r); "CHECK ok"
       | None -> "SKIP")
    | ["udense"; m; ex; p; q], d :: r :: rest ->
      let k = ring_of m and p = pnorm (upoly_of_string p) and q = pnorm (upoly_of_string q) in
      need ("dense_div_general: " ^ String.concat " " rest) (rest = []);
      (match udiv_general k (ex = "1") p q with
       | Some (md, mr) -> expect "dense_div_general" (string_of_upoly md ^ " " ^ string_of_upoly mr) (d ^ " " ^ r); "CHECK ok"
       | None -> "SKIP")
    | ["udivides"; m; p; q], [res] ->
      let k = ring_of m and p = pnorm (upoly_of_string p) and q = pnorm (upoly_of_string q) in
      (match udivides k (is_prime_s m) p q with
       | Some v -> expect "upolynomial_divides" (string_of_bool01 v) res; "CHECK ok"
       | None -> "SKIP")
    | ["udivides"; m; p; q; d], [res] ->
      (* a dividend with its cofactor d: q = d*p in Z_M[x] is recomputed here (Zarith, not the generator's word).
         The answer must be the model's; and whenever neither the leading nor the lowest term of the product vanishes
         (no zero-divisor effect on deg q and on q's lowest monomial) the code's early exits are sound and its
         pseudo-division reproduces lc^k * d, so the answer must be 1 - over EVERY modulus, composite ones included.
         Outside that class only agreement with the model is required; a `0` for a true multiple there is counted
         (composite moduli: the predicate is incomplete, see docs/C02.md). *)
      let zs s = List.map ZA.of_string (String.split_on_char ',' s) in
      let strip l = let rec go = function x :: r when ZA.equal x ZA.zero -> go r | l -> l in List.rev (go (List.rev l)) in
      let mm = ZA.of_string m in
      let red c = if ZA.equal mm ZA.zero then c else ZA.erem c mm in
      let zp = strip (List.map red (zs p)) and zq = strip (List.map red (zs q)) and zd = strip (List.map red (zs d)) in
      let prod = Array.make (max 0 (List.length zp + List.length zd - 1)) ZA.zero in
      List.iteri (fun i a -> List.iteri (fun j b -> prod.(i + j) <- ZA.add prod.(i + j) (ZA.mul a b)) zd) zp;
      let full = List.map red (Array.to_list prod) in
      need "udivides: the case's cofactor times the divisor is not the dividend (malformed case)" (strip full = zq && zp <> []);
      let low l = List.find (fun c -> not (ZA.equal c ZA.zero)) l in
      let keeps = zq <> [] && List.length zq = List.length full
                  && not (ZA.equal (red (ZA.mul (low zp) (low zd))) ZA.zero) in
      let k = ring_of m and p = pnorm (upoly_of_string p) and q = pnorm (upoly_of_string q) in
      (match udivides k (is_prime_s m) p q with
       | Some v ->
         expect "upolynomial_divides" (string_of_bool01 v) res;
         if keeps || zq = [] then expect "upolynomial_divides on a true multiple (degree and lowest term of the product kept)" "1" res;
         "CHECK ok multiple=" ^ (if keeps then "kept" else "dropped") ^ " answer=" ^ res
       | None -> "SKIP")
    | ["umultiple"; m; p; d], [res; q] ->
      (* decided by construction: the dividend is the product (Division.v umultiple_expected) *)
      let k = ring_of m and p = pnorm (upoly_of_string p) and d = pnorm (upoly_of_string d) in
      if p = [] then "SKIP" else begin
        let (mq, want) = umultiple_expected k p d in
        expect "lp_upolynomial_mul" (string_of_upoly mq) q;
        (* the faithful model of the current code, for the known finding over composite moduli (gen/C02.py finding_id) *)
        let faithful = match udivides k (is_prime_s m) p mq with Some v -> string_of_bool01 v | None -> "none" in
        if res <> string_of_bool01 want then
          raise (Fail ("umultiple: lp_upolynomial_divides(p, p*d) expected 1 got " ^ res ^ " faithful-model=" ^ faithful));
        "CHECK ok"
      end
    | ["pdivides"; pm; a; q; r; c], [b; dab; dcb; dcab; back] ->
      (* prime field context: decided by construction and the field argument (Division.v Part III) *)
      let p = z_of_string pm in
      need "pdivides: modulus not prime (malformed case)" (is_prime_s pm);
      let ma = mp a and mq = mp q and mr = mp r and mc = mp c in
      need "pdivides: constant c is zero mod p or not a constant (malformed case)"
        (mp_top mc = None && not (mp_is_zero (mp_modp p mc)));
      (match pdivides_expected p ma mr with
       | None -> "SKIP"
       | Some v ->
         expect "B = A*Q + R in the Z_p context" (sp (pdivides_dividend p ma mq mr)) b;
         expect "lp_polynomial_divides(A, A*Q+R) over Z_p" (string_of_bool01 v) dab;
         expect "lp_polynomial_divides(c, B) over Z_p, c a non-zero constant" "1" dcb;
         expect "lp_polynomial_divides(c*A, A*Q+R) over Z_p" (string_of_bool01 v) dcab;
         expect "lp_polynomial_div(B, A) multiplied back == B, quotient == Q" (if v then "11" else "-") back;
         "CHECK ok pdivides=" ^ string_of_bool01 v)
    | ["udivc"; m; p; c], [d] ->
      let k = ring_of m and p = pnorm (upoly_of_string p) in
      (match udiv_exact_c k p (z_of_string c) with
       | Some md -> expect "div_exact_c" (string_of_upoly md) d; "CHECK ok"
       | None -> "SKIP")
    | op :: _, _ when List.mem op ["pseudo"; "cpseudo"; "exact"; "exactr"; "divides"; "uexact"; "upseudo"; "udense"; "udivides"; "udivc"; "pdivides"; "umultiple"] ->
      "CHECK fail: the implementation's outputs disagree among fresh/pre-used/aliased output operands, or the line is malformed: " ^ String.concat " " cout
    | _ -> "UNKNOWN-OP"
  with Fail why -> "CHECK fail " ^ why
