(* Model driver: `mdriver <prop>` reads cases on stdin (one per line), prints one result line each.
   A case may carry the implementation's output after " => " (used by checker-style operations). *)
let () =
  let prop = if Array.length Sys.argv > 1 then Sys.argv.(1) else "" in
  let run =
    match prop with
    | "C17" -> P_c17.run
    | _ -> (fun _ _ -> "UNKNOWN-PROPERTY")
  in
  (try
    while true do
      let line = input_line stdin in
      let all = Io.split_ws line in
      let rec cut acc = function
        | [] -> (List.rev acc, [])
        | "=>" :: rest -> (List.rev acc, rest)
        | t :: rest -> cut (t :: acc) rest in
      let (toks, cout) = cut [] all in
      let out = try run toks cout with
        | Stack_overflow -> "MODEL-ERROR stack overflow"
        | e -> "MODEL-ERROR " ^ Printexc.to_string e in
      print_string out; print_newline ()
    done
  with End_of_file -> ())
