(* C04 model driver.  Three-way comparison per case:
     libpoly (tokens after "=>")  vs  REFERENCE Sylvester determinants (Sylvester.v)  vs  FAITHFUL model of subres.c (Subres.v).
   The reference decides: the results are uniquely determined, so any difference between libpoly and the reference is a
   failing input ("CHECK fail ...").  A difference between the faithful model and the reference is reported as well
   (it means the transcribed algorithm itself, or the transcription, is wrong). *)
open Model
open Io

let fuel = nat_of_int 100000
let str = string_of_mpoly
let max_dim = ref 13          (* largest Laplace determinant attempted (rows) *)
let laplace_upto = ref 11     (* with at most one parameter: beyond this dimension the determinants are computed by the
                                 fraction-free Bareiss elimination RefAlg.pdet_fast on the SAME matrices sylv_mat k j
                                 (proved equal to the determinant: Properties_Base.Base_pdet_fast_det,
                                 Properties_C04.C04_fast_det_is_det) *)
let max_dim_fast = ref 26
let () = match Sys.getenv_opt "C04_LAPLACE_UPTO" with Some v -> laplace_upto := int_of_string v | None -> ()

let rec last_default d = function [] -> d | [x] -> x | _ :: t -> last_default d t

(* mpoly (in the main variable xv and parameters) of a coefficient list *)
let of_coeffs xv (l : mpoly list) : mpoly = mp_of_coeffs xv l

let parse_assign (tok : string) : (n -> z) =
  (* "1:5,2:-3"  ->  x1 = 5, x2 = -3, every other variable 0 *)
  let l = List.map (fun s -> match String.split_on_char ':' s with
      | [v; a] -> (int_of_string v, z_of_string a) | _ -> failwith "bad assignment") (String.split_on_char ',' tok) in
  fun v -> (try List.assoc (int_of_n v) l with Not_found -> Z0)

let all_const (l : mpoly list) = List.for_all (fun c -> match c with [] -> true | [([], _)] -> true | _ -> false) l
let const_of (c : mpoly) : z = match c with [] -> Z0 | (_, a) :: _ -> a

(* split the C output "R a b c d PSC n .. PSCU n .. SUB n .. SUBU n .." *)
let parse_cout (c : string list) =
  let rec take k l acc = if k = 0 then (List.rev acc, l) else match l with x :: t -> take (k - 1) t (x :: acc) | [] -> failwith "short output" in
  match c with
  | "R" :: r1 :: r2 :: r3 :: r4 :: "PSC" :: n :: rest ->
    let n = int_of_string n in
    let (psc, rest) = take n rest [] in
    (match rest with
     | "PSCU" :: n2 :: rest ->
       let (pscu, rest) = take (int_of_string n2) rest [] in
       (match rest with
        | "SUB" :: n3 :: rest ->
          let (sub, rest) = take (int_of_string n3) rest [] in
          (match rest with
           | "SUBU" :: n4 :: rest ->
             let (subu, rest) = take (int_of_string n4) rest [] in
             if rest <> [] then failwith "trailing output";
             ([r1; r2; r3; r4], psc, pscu, sub, subu)
           | _ -> failwith "SUBU expected")
        | _ -> failwith "SUB expected")
     | _ -> failwith "PSCU expected")
  | _ -> failwith "R expected"

let sres_str f = function SrOk a -> f a | SrNoFuel -> "NOFUEL" | SrInexact -> "INEXACT-DIVISION"

(* modulus = None: context over Z.  modulus = Some M (prime): context over Z_M; operands and all reference results are
   reduced coefficientwise into the symmetric range (reduction Z[params] -> Z_M[params] is a ring morphism, so the reduced
   Sylvester determinants of the reduced operands ARE the determinants over Z_M: Properties_C04.C04_ring_morphism_commutes) *)
let run_sr (modulus : z option) v ptxt qtxt extra cout =
  let xv = n_of_int (int_of_string v) in
  let red (x : mpoly) : mpoly = match modulus with None -> x | Some _ -> mp_map_coeff (ring_norm modulus) x in
  let str x = string_of_mpoly (red x) in
  let pp = red (mpoly_of_string ptxt) and qq = red (mpoly_of_string qtxt) in
  let p = mp_coeffs xv pp and q = mp_coeffs xv qq in
  let m = List.length p - 1 and n = List.length q - 1 in
  if m < 1 || n < 1 then "SKIP constant operand" else
  (* parameters = variables other than the main one *)
  let pars = List.sort_uniq compare (List.filter (fun u -> u <> xv) (mp_vars pp @ mp_vars qq)) in
  let fast = (List.length pars <= 1) && (m + n > !laplace_upto) in
  if (not fast && m + n > !max_dim) || (fast && m + n > !max_dim_fast) then "SKIP determinant too large" else
  let (r4, psc, pscu, sub, subu) = parse_cout cout in
  let errs = ref [] in
  let err s = errs := s :: !errs in
  (* ---- reference *)
  let (hi, lo) = if m < n then (q, p) else (p, q) in
  let lo_deg = List.length lo - 1 and hi_deg = List.length hi - 1 in
  let zv = match pars with [u] -> u | _ -> (if int_of_n xv = 0 then n_of_int 1 else n_of_int 0) in
  let fast_det k j a b : mpoly =
    let up l = List.map (mp_to_upoly zv) l in
    mp_of_upoly zv (pnorm (pdet_fast (sylv_mat [] (nat_of_int k) (nat_of_int j) (up a) (up b)))) in
  let chain =
    if not fast then subres_chain_mp hi lo
    else List.init (lo_deg + 1) (fun k ->
        if k = lo_deg && hi_deg = lo_deg then lo else List.init (k + 1) (fun j -> fast_det k j hi lo)) in
  (* psc_k = coefficient of x^k of the k-th subresultant = sylv_det k k (Properties_C04.C04_psc_is_top_coefficient);
     taken from the chain instead of recomputing the determinant; the top entry for equal degrees is the empty determinant 1 *)
  let psc_ref = List.mapi (fun k l -> if k = lo_deg && hi_deg = lo_deg then str (psc_mp (nat_of_int k) hi lo)
                             else str (List.nth l k)) chain in
  let sub_ref = List.map (fun l -> str (of_coeffs xv l)) chain in
  let res_ref = if m < n then str (if fast then fast_det 0 0 p q else resultant_mp p q) else List.hd psc_ref in
  (* ---- libpoly vs reference *)
  List.iteri (fun i r -> if r <> res_ref then
                 err (Printf.sprintf "resultant[%s]: libpoly %s, Sylvester determinant %s"
                        (List.nth ["fresh"; "used"; "aliasA"; "aliasB"] i) r res_ref)) r4;
  let cmp_list name got want =
    if List.length got <> List.length want then err (Printf.sprintf "%s: %d entries, expected %d" name (List.length got) (List.length want))
    else List.iteri (fun k (g, w) -> if g <> w then err (Printf.sprintf "%s[%d]: libpoly %s, reference %s" name k g w)) (List.combine got want) in
  cmp_list "psc" psc psc_ref; cmp_list "psc(used outputs)" pscu psc_ref;
  cmp_list "subres" sub sub_ref; cmp_list "subres(used outputs)" subu sub_ref;
  (* ---- faithful model vs reference (the model is the integer-coefficient algorithm: contexts over Z only) *)
  if modulus = None then begin
  let cp_str (c : mpoly list) = str (of_coeffs xv c) in
  let m_res = sres_str cp_str (sr_lp_resultant fuel p q) in
  if m_res <> res_ref then err (Printf.sprintf "faithful model resultant %s, reference %s" m_res res_ref);
  (match sr_lp_psc fuel p q with
   | SrOk l -> let l = List.map cp_str l in
     if l <> psc_ref then err (Printf.sprintf "faithful model psc [%s], reference [%s]" (String.concat "; " l) (String.concat "; " psc_ref))
   | e -> err ("faithful model psc: " ^ sres_str (fun _ -> "") e));
  (match sr_lp_subres fuel p q with
   | SrOk l -> let l = List.map cp_str l in
     if l <> sub_ref then err (Printf.sprintf "faithful model subres [%s], reference [%s]" (String.concat "; " l) (String.concat "; " sub_ref))
   | e -> err ("faithful model subres: " ^ sres_str (fun _ -> "") e))
  end;
  (* ---- integer instance (the one tied to MathComp's resultant) on purely univariate inputs *)
  if modulus = None && all_const p && all_const q then begin
    let pz = List.map const_of p and qz = List.map const_of q in
    let (hz, lz) = if m < n then (qz, pz) else (pz, qz) in
    if not fast then begin
    if string_of_z (resultant_Z pz qz) <> res_ref then err "Z instance of the reference differs from the mpoly instance (resultant)";
    if List.map string_of_z (psc_chain_Z hz lz) <> psc_ref then err "Z instance of the reference differs from the mpoly instance (psc)";
    if List.map string_of_upoly (subres_chain_Z hz lz) <>
       List.map (fun l -> string_of_upoly (List.map const_of l)) chain
    then err "Z instance of the reference differs from the mpoly instance (subres)"
    end;
    (* the first k psc vanish exactly when the gcd has degree >= k *)
    let dg = List.length (pnorm (pgcd pz qz)) - 1 in
    let rec lead0 = function "0" :: t -> 1 + lead0 t | _ -> 0 in
    if lead0 psc <> dg then err (Printf.sprintf "psc: %d leading zero entries but deg gcd = %d" (lead0 psc) dg)
  end;
  (* ---- specialisation: res(rho) = 0  <->  common factor of the specialised polynomials or both lc vanish *)
  let rc = mpoly_of_string (List.hd r4) in
  List.iter (fun tok ->
      let rho = parse_assign tok in
      let ps = spec_coeffs rho p and qs = spec_coeffs rho q in
      let r = mp_eval rho rc in
      let lcp0 = (last_default Z0 ps = Z0) and lcq0 = (last_default Z0 qs = Z0) in
      let g = pgcd ps qs in
      let common = (match pnorm g with [] -> true | [_] -> false | _ -> true) in
      let expect_zero = (lcp0 && lcq0) || common in
      if (r = Z0) <> expect_zero then
        err (Printf.sprintf "specialisation %s: resultant value %s but both-lc-vanish=%b common-factor=%b (gcd %s)"
               tok (string_of_z r) (lcp0 && lcq0) common (string_of_upoly g));
      (* the determinant commutes with the specialisation (formal degrees kept) *)
      let rz = if fast then r else resultant_Z ps qs in
      if rz <> r then err (Printf.sprintf "specialisation %s: resultant value %s, Sylvester determinant of the specialised lists %s"
                             tok (string_of_z r) (string_of_z rz))) (if modulus = None then extra else []);
  match !errs with
  | [] -> "CHECK ok"
  | l -> "CHECK fail " ^ String.concat " | " (List.rev l)

let run_disc v ptxt cout =
  let xv = n_of_int (int_of_string v) in
  let pp = mpoly_of_string ptxt in
  let p = mp_coeffs xv pp in
  let m = List.length p - 1 in
  if m < 1 then "SKIP constant operand" else
  if 2 * m - 1 > !max_dim then "SKIP determinant too large" else
  let c = match cout with [c] -> c | _ -> failwith "one token expected" in
  let want =
    if m = 1 then "1" else
    match sr_mp_div_exact fuel (resultant_mp p (cp_deriv p)) (cp_lc p) with
    | SrOk d -> str d | _ -> "reference: lc does not divide res(p,p')" in
  let mdl = sres_str (fun d -> str (of_coeffs xv d)) (sr_lp_discriminant fuel p) in
  if c <> want then Printf.sprintf "CHECK fail discriminant: libpoly %s, res(p,p')/lc(p) by Sylvester determinant %s" c want
  else if mdl <> want then Printf.sprintf "CHECK fail faithful model discriminant %s, reference %s" mdl want
  else "CHECK ok"

let run (toks : string list) (cout : string list) : string =
  let toks = List.filter (fun t -> String.length t = 0 || t.[0] <> '#') toks in
  try
    match toks with
    | "sr" :: v :: p :: q :: extra -> run_sr None v p q extra cout
    | "srp" :: m :: v :: p :: q :: extra -> run_sr (Some (z_of_string m)) v p q extra cout
    | ["disc"; v; p] -> run_disc v p cout
    | _ -> "UNKNOWN case"
  with Failure s -> "CHECK fail malformed output: " ^ s
