(* C16 model driver: bound inference and Fourier-Motzkin resolution.
   Every case is answered with CHECK ok / CHECK fail <why>: the return codes, polynomials, conditions and
   assumption vectors are compared with the extracted model (Bounds.v), interval end points BY DENOTATION with
   the real roots of the model's quadratics (RefAlg), and the property itself is monitored on the
   implementation's output at sample points (exact evaluation with mp_eval_rn). *)
open Model
open Io

exception Fuel
exception Unassigned
exception Fail of string

let get = function Some x -> x | None -> raise Fuel
let failf fmt = Printf.ksprintf (fun s -> raise (Fail s)) fmt

let cond_of = function
  | "lt" -> SgLT | "le" -> SgLE | "eq" -> SgEQ | "ne" -> SgNE | "gt" -> SgGT | "ge" -> SgGE
  | s -> failwith ("bad condition " ^ s)
let name_of = function SgLT -> "lt" | SgLE -> "le" | SgEQ -> "eq" | SgNE -> "ne" | SgGT -> "gt" | SgGE -> "ge"

(* "3,1,0,..." bottom first -> top first *)
let ord_of s = List.rev (List.map n_of_string (String.split_on_char ',' s))

let cmp_rn a b = sgn_of_z (get (rn_cmp big_fuel a b))
let cmp_xv a b = sgn_of_z (get (xv_cmp big_fuel a b))

let zi = z_of_int
let rq_int i = RQ (zi i, zi 1)
let q_of_ints a b = match q_canon (zi a, zi b) with Some q -> q | None -> failwith "q_of_ints"

(* ---- exact sign of p at a point.
   No irrational coordinate among the variables of p: rational arithmetic (zarith Q).
   One irrational coordinate: p restricted to that variable is an integer univariate polynomial (denominators
   cleared by a positive factor); its sign at the algebraic number is BoundsRef.psgn_rn (gcd + Sturm counts).
   More: the general reference arithmetic RefAlg.mp_eval_rn. *)
let q_of_rat ((a, b) : rat) : Q.t = Q.make (zarith_of_z a) (zarith_of_z b)
let rat_of_q (q : Q.t) : rat = (z_of_zarith (Q.num q), z_of_zarith (Q.den q))
let rec qpow (b : Q.t) (e : int) : Q.t = if e = 0 then Q.one else Q.mul b (qpow b (e - 1))

let sign_at (rho : n -> rnum) (p : mpoly) : int =
  let vs = mp_vars p in
  let vals = List.map (fun v -> (int_of_n v, rho v)) vs in
  let irr = List.filter (fun (_, v) -> match v with RQ _ -> false | _ -> true) vals in
  match irr with
  | _ :: _ :: _ -> sgn_of_z (rn_sgn (get (mp_eval_rn big_fuel rho p)))
  | _ ->
    let k = match irr with [(k, _)] -> k | _ -> -1 in
    let qv = List.filter_map (fun (i, v) -> match v with RQ q -> Some (i, q_of_rat q) | _ -> None) vals in
    (* coefficients of the restriction to x_k, by degree *)
    let tbl = Hashtbl.create 8 in
    List.iter (fun (m, c) ->
        let d = ref 0 in
        let coef = List.fold_left (fun acc (v, e) ->
            let i = int_of_n v and e = int_of_n e in
            if i = k then (d := e; acc) else Q.mul acc (qpow (List.assoc i qv) e))
            (Q.of_bigint (zarith_of_z c)) m in
        Hashtbl.replace tbl !d (Q.add coef (try Hashtbl.find tbl !d with Not_found -> Q.zero)))
      p;
    if k < 0 then Q.sign (try Hashtbl.find tbl 0 with Not_found -> Q.zero)
    else begin
      let deg = Hashtbl.fold (fun d _ m -> max d m) tbl 0 in
      let cs = List.init (deg + 1) (fun d -> try Hashtbl.find tbl d with Not_found -> Q.zero) in
      let l = List.fold_left (fun acc c -> ZA.lcm acc (Q.den c)) ZA.one cs in
      let g = List.map (fun c -> z_of_zarith (ZA.div (ZA.mul (Q.num c) l) (Q.den c))) cs in
      sgn_of_z (get (psgn_rn big_fuel g (snd (List.hd irr))))
    end

(* polynomials with coefficients beyond 40 bits: the monitors sample fewer points (the comparison with the model,
   which is what exposes machine-word shortcuts, is unaffected) *)
let huge (p : mpoly) : bool = List.exists (fun (_, c) -> ZA.numbits (zarith_of_z c) > 40) p

(* a rational close to the value (for choosing sample points only) *)
let rec approx k (v : rnum) : rat = match v with RQ q -> q | RA (_, lo, hi) -> if k = 0 then q_mid lo hi else approx (k - 1) (rn_refine v)
let holds (c : sgn_cond) (s : int) = sc_holds c (zi s)

let nv = 8
let var i = n_of_int i

(* ---------------------------------------------------------------------------------------------- intervals *)
type civ = { ao : bool; lo : xval; hi : xval; bo : bool; txt : string }
let civ_of_token (t : string) : civ =
  match String.split_on_char '|' t with
  | [ao; lo; hi; bo] ->
    (try { ao = (ao = "1"); lo = snd (value_of_token lo); hi = snd (value_of_token hi); bo = (bo = "1"); txt = t }
     with Bad_value m -> failf "invalid value in interval %s: %s" t m)
  | _ -> failf "unparsable interval %s" t

let inside (v : rnum) (i : civ) : bool =
  let c1 = cmp_xv (XFin v) i.lo and c2 = cmp_xv (XFin v) i.hi in
  (if i.ao then c1 > 0 else c1 >= 0) && (if i.bo then c2 < 0 else c2 <= 0)

let quad_roots (((a, b), c) : (z * z) * z) : rnum list = get (rn_roots big_fuel [c; b; a])

(* expected interval of a variable: full, the pre-set [i, i+1], or a write of the model *)
type miv = MFull | MPre of int | MB of ib_bound

let check_interval (i : int) (m : miv) (c : civ) : unit =
  let same v x = cmp_xv v (XFin x) = 0 in
  match m with
  | MFull ->
    if not (c.ao && c.bo && c.lo = XMinf && c.hi = XPinf) then failf "x%d: expected the full interval, got %s" i c.txt
  | MPre k ->
    if not ((not c.ao) && (not c.bo) && same c.lo (rq_int k) && same c.hi (rq_int (k + 1))) then
      failf "x%d: the previous interval [%d,%d] should be untouched, got %s" i k (k + 1) c.txt
  | MB (IbPoint q) ->
    (match quad_roots q with
     | [r] ->
       if c.ao || c.bo || not (same c.lo r && same c.hi r) then
         failf "x%d: expected the point [r,r], r = %s, got %s" i (string_of_rnum r) c.txt
     | _ -> failf "x%d: model quadratic of a point interval does not have one root" i)
  | MB (IbRange (q, op)) ->
    (match quad_roots q with
     | [r0; r1] ->
       if c.ao <> op || c.bo <> op then failf "x%d: expected %s ends, got %s" i (if op then "open" else "closed") c.txt;
       if not (same c.lo r0 && same c.hi r1) then
         failf "x%d: end points are not the roots %s, %s of the model quadratic: %s" i (string_of_rnum r0) (string_of_rnum r1) c.txt
     | _ -> failf "x%d: model quadratic of a range does not have two roots" i)

(* e1 = lambda * e2 with lambda > 0 *)
let prop_pos (e1 : mpoly) (e2 : mpoly) : bool =
  match e1, e2 with
  | [], [] -> true
  | (_, c1) :: _, (_, c2) :: _ -> sgn_of_z c1 * sgn_of_z c2 > 0 && mp_eqb (mp_scale c2 e1) (mp_scale c1 e2)
  | _, _ -> false

(* ---------------------------------------------------------------------------------------------- infer_bounds *)
let rat_mid (a : rat) (b : rat) = q_mid a b

let run_ib order ps cs negs pres (cout : string list) : string =
  let ord = ord_of order in
  let p = mpoly_of_string ps in
  let c = cond_of cs in
  let neg = (negs = "1") and pre = (pres = "1") in
  if List.length cout <> 1 + 2 * nv then failf "malformed output (%d tokens)" (List.length cout);
  let cret = int_of_string (List.hd cout) in
  let civs = List.mapi (fun i t -> ignore i; civ_of_token t) (List.filteri (fun k _ -> k >= 1 && k <= nv) cout) in
  let cexp = List.filteri (fun k _ -> k > nv) cout in
  (* ---- the model *)
  let (mret, writes) = infer_bounds ord p c neg in
  let mret = int_of_z mret in
  let expected = Array.init nv (fun i -> if pre then MPre i else MFull) in
  List.iter (fun (x, b) -> expected.(int_of_n x) <- MB b) writes;
  (* ---- property monitor 1: the explaining polynomial has exactly the inferred end points as real roots *)
  if cret = 1 then
    List.iteri (fun i t ->
        if t <> "null" then begin
          let ce = mpoly_of_string t in
          if List.exists (fun y -> int_of_n y <> i) (mp_vars ce) then failf "explain x%d mentions other variables: %s" i t;
          let roots = get (rn_roots big_fuel (mp_to_upoly (var i) ce)) in
          let civ = List.nth civs i in
          let same v x = cmp_xv v (XFin x) = 0 in
          match roots with
          | [r] -> if not (same civ.lo r && same civ.hi r) then failf "explain x%d: its root is not the inferred point %s" i civ.txt
          | [r0; r1] -> if not (same civ.lo r0 && same civ.hi r1) then failf "explain x%d: its roots are not the inferred end points %s" i civ.txt
          | _ -> failf "explain x%d: %s has %d real roots but bounds were inferred" i t (List.length roots)
        end)
      cexp;
  (* ---- property monitor 2 (semantic): sample points satisfying the constraint lie inside the intervals the
     implementation returned (code 1); no sample point satisfies the constraint (code -1) *)
  let ceff = if neg then sc_negate c else c in
  let vars = List.sort compare (List.map int_of_n (mp_vars p)) in
  if cret <> 0 && vars <> [] then begin
    let centre i =
      let x = var i in
      match bd_as_const (mp_coeff x (n_of_int 2) p), bd_as_const (mp_coeff x (n_of_int 1) p) with
      | Some a, Some b when sgn_of_z a <> 0 ->
        (match q_canon (z_of_zarith (ZA.neg (zarith_of_z b)), z_of_zarith (ZA.mul (ZA.of_int 2) (zarith_of_z a))) with Some q -> q | None -> (zi 0, zi 1))
      | _, _ -> (zi 0, zi 1) in
    let roots_of i = match expected.(i) with MB (IbPoint q) | MB (IbRange (q, _)) -> quad_roots q | _ -> [] in
    let cands i : rnum list =
      let ctr = centre i in
      let rs = roots_of i in
      let rec refine k v = if k = 0 then v else refine (k - 1) (rn_refine v) in
      let near = List.concat_map (fun r ->
          let r = refine 16 r in
          let l = rn_lo r and h = rn_hi r in
          [RQ l; RQ h; RQ (q_sub l (q_of_ints 1 16)); RQ (q_add h (q_of_ints 1 16)); RQ (rat_mid ctr l); RQ (rat_mid ctr h)]) rs in
      if huge p then RQ ctr :: rs
      else (RQ ctr :: rs) @ near @ [RQ (q_add ctr (zi 1, zi 1)); RQ (q_sub ctr (zi 1, zi 1)); RQ (q_add ctr (zi 7, zi 1))] in
    let check_point (pt : (int * rnum) list) =
      let rho x = try List.assoc (int_of_n x) pt with Not_found -> raise Unassigned in
      let s = sign_at rho p in
      if holds ceff s then begin
        if cret = -1 then
          failf "conflict reported but the constraint holds at %s"
            (String.concat "," (List.map (fun (i, v) -> Printf.sprintf "x%d=%s" i (string_of_rnum v)) pt));
        List.iter (fun (i, v) ->
            if not (inside v (List.nth civs i)) then
              failf "the constraint holds at %s but x%d is outside the inferred interval %s"
                (String.concat "," (List.map (fun (i, v) -> Printf.sprintf "x%d=%s" i (string_of_rnum v)) pt)) i (List.nth civs i).txt)
          pt
      end in
    (* star: all centres, one variable moving over its candidates *)
    List.iter (fun k ->
        List.iter (fun v -> check_point (List.map (fun i -> (i, if i = k then v else RQ (centre i))) vars)) (cands k))
      vars;
    (* small rational product grid *)
    let grid i =
      let ctr = centre i in
      match roots_of i with
      | [r0; r1] -> [RQ ctr; RQ (rat_mid ctr (rn_hi r0)); RQ (rat_mid ctr (rn_lo r1)); RQ (rat_mid (rn_lo r0) (rat_mid ctr (rn_lo r0)))]
      | _ -> [RQ ctr; RQ (q_add ctr (q_of_ints 1 2))] in
    let rec prod = function
      | [] -> [[]]
      | i :: rest -> let tl = prod rest in List.concat_map (fun v -> List.map (fun t -> (i, v) :: t) tl) (grid i) in
    if List.length vars <= 3 && not (huge p) then List.iter check_point (prod vars)
  end;
  (* ---- comparison with the model *)
  if cret <> mret then failf "return code %d, model %d" cret mret;
  List.iteri (fun i civ -> check_interval i expected.(i) civ) civs;
  (* ---- explanations: equal to the model's up to a positive factor *)
  List.iteri (fun i t ->
      let me = explain_infer_bounds ord p c neg (var i) in
      match t, me with
      | "null", None -> ()
      | "null", Some e -> failf "explain x%d: null, model %s" i (string_of_mpoly e)
      | s, None -> failf "explain x%d: %s, model null" i s
      | s, Some e ->
        let ce = mpoly_of_string s in
        if not (prop_pos ce e) then failf "explain x%d: %s is not a positive multiple of the model's %s" i s (string_of_mpoly e))
    cexp;
  "CHECK ok"

(* ---------------------------------------------------------------------------------------------- resolve_fm *)
let run_fm order p1s c1s p2s c2s rmode (vals : string list) (cout : string list) : string =
  let ord = ord_of order in
  let p1 = mpoly_of_string p1s and p2 = mpoly_of_string p2s in
  let c1 = cond_of c1s and c2 = cond_of c2s in
  let mvals = Array.of_list (List.map (fun t -> if t = "none" then None else Some (rnum_of_token t)) vals) in
  let rhoM x = match mvals.(int_of_n x) with Some v -> v | None -> raise Unassigned in
  let sgnM q = zi (sign_at rhoM q) in
  let (r0, a0) = match rmode with
    | "1" -> (mpoly_of_string "1*x0^3+7", [mpoly_of_string "1*x1^1+-4"])
    | "2" -> (p1, []) | "3" -> (p2, []) | _ -> ([], []) in
  let out = resolve_fm sgnM ord p1 c1 p2 c2 r0 SgNE a0 in
  (* ---- parse the implementation's answer *)
  let (cok, cR, ccond, cas) = match cout with
    | ok :: r :: cnd :: n :: rest ->
      let n = int_of_string n in
      if List.length rest <> 2 * n then failf "malformed assumption list";
      let rec pairs = function a :: s :: tl -> (mpoly_of_string a, int_of_string s) :: pairs tl | _ -> [] in
      (ok = "1", (if ok = "1" then Some (mpoly_of_string r) else None), (if ok = "1" then Some (cond_of cnd) else None), pairs rest)
    | _ -> failf "malformed output" in
  let x = match bd_top_var ord p1 with Some x -> x | None -> var 0 in
  (match cR, ccond with
   | Some r, Some cnd ->
     (* ---- property monitor 1: the eliminated variable does not occur in R *)
     if int_of_n (mp_degree x r) <> 0 then failf "the resolvent %s still contains x%d" (string_of_mpoly r) (int_of_n x);
     (* ---- property monitor 2: R cond_R holds wherever both premises hold and the assumptions keep their signs *)
     let lower_vars = List.filter (fun i -> i <> int_of_n x && mvals.(i) <> None) (List.init nv (fun i -> i)) in
     let base = List.map (fun i -> (i, match mvals.(i) with Some v -> v | None -> rq_int 0)) lower_vars in
     let has_alg = List.exists (fun (_, v) -> match v with RQ _ -> false | _ -> true) base in
     let hg = huge p1 || huge p2 in
     let deltas = if hg then [] else if has_alg then [q_of_ints 1 1] else [q_of_ints 1 1; q_of_ints (-1) 1; q_of_ints 1 3; q_of_ints (-5) 2] in
     let perturb =
       List.concat_map (fun (i, v) ->
           match v with
           | RQ q -> List.map (fun d -> List.map (fun (j, w) -> if j = i then (j, RQ (q_add q d)) else (j, w)) base) deltas
           | _ -> [])
         base in
     let lowers = base :: perturb in
     (* p1, p2 as polynomials in x: coefficient polynomials over the lower variables *)
     let coeffs p = List.map (fun k -> mp_coeff x (n_of_int k) p) (List.init (int_of_n (mp_degree x p) + 1) (fun k -> k)) in
     let cs1 = coeffs p1 and cs2 = coeffs p2 in
     List.iter (fun lower ->
         let rho_l y = try List.assoc (int_of_n y) lower with Not_found -> raise Unassigned in
         (* the assumptions must have the recorded signs at this point *)
         if List.for_all (fun (ca, cs) -> sign_at rho_l ca = cs) cas then begin
           (* value at a rational x: exact sign through sign_at on the full point *)
           let sgn_p p (xq : rat) = sign_at (fun y -> if int_of_n y = int_of_n x then RQ xq else rho_l y) p in
           let rv = if int_of_n (mp_degree x r) = 0 then Some (sign_at rho_l r) else None in
           (* sample points around the boundaries -c0/lc of the two premises; the boundaries are exact when the
              lower values are rational, approximated (20 bisections) otherwise *)
           let rho_a y = RQ (approx 20 (rho_l y)) in
           let qval q = match get (mp_eval_rn big_fuel rho_a q) with RQ v -> q_of_rat v | _ -> Q.zero in
           let bnd cs = match cs with
             | [c0; lc] -> let l = qval lc in if Q.sign l = 0 then [] else [rat_of_q (Q.div (Q.neg (qval c0)) l)]
             | _ -> [] in
           let bs = bnd cs1 @ bnd cs2 in
           let rat_near b = [b; q_sub b (q_of_ints 1 4); q_add b (q_of_ints 1 4); q_sub b (q_of_ints 3 1); q_add b (q_of_ints 3 1);
                             q_sub b (q_of_ints 1 1024); q_add b (q_of_ints 1 1024)] in
           let mids = match bs with [b1; b2] -> [q_mid b1 b2] | _ -> [] in
           let xs = if hg then bs @ mids @ [q_of_ints 0 1]
             else List.concat_map rat_near bs @ mids @ [q_of_ints 0 1; q_of_ints 100 1; q_of_ints (-100) 1] in
           List.iter (fun xq ->
               let s1 = sgn_p p1 xq and s2 = sgn_p p2 xq in
               if holds c1 s1 && holds c2 s2 then begin
                 let sr = match rv with
                   | Some s -> s
                   | None -> sign_at (fun y -> if int_of_n y = int_of_n x then RQ xq else rho_l y) r in
                 if not (holds cnd sr) then
                   failf "both premises hold at x%d=%s (lower variables %s) but the resolvent %s %s 0 does not"
                     (int_of_n x) (string_of_rat xq)
                     (String.concat "," (List.map (fun (i, v) -> Printf.sprintf "x%d=%s" i (string_of_rnum v)) lower))
                     (string_of_mpoly r) (name_of cnd)
               end)
             xs
         end)
       lowers
   | _, _ -> ());
  (* ---- comparison with the model *)
  if cok <> out.fm_ok then failf "success flag %b, model %b%s" cok out.fm_ok
      (if out.fm_ok then " (model R = " ^ string_of_mpoly out.fm_R ^ " " ^ name_of out.fm_cond ^ ")" else "");
  let rec drop k l = if k = 0 then l else match l with [] -> [] | _ :: t -> drop (k - 1) t in
  let mas = drop (List.length a0) out.fm_assum in
  if List.length mas <> List.length cas then failf "%d assumptions recorded, model %d" (List.length cas) (List.length mas);
  List.iteri (fun i (ma, (ca, cs)) ->
      if not (mp_eqb ma ca) then failf "assumption %d is %s, model %s" i (string_of_mpoly ca) (string_of_mpoly ma);
      let ms = sign_at rhoM ma in
      if ms <> cs then failf "assumption %d (%s): sign under the model %d, exact %d" i (string_of_mpoly ca) cs ms)
    (List.combine mas cas);
  (match cR, ccond with
   | Some r, Some cnd ->
     if cnd <> out.fm_cond then failf "resolvent condition %s, model %s" (name_of cnd) (name_of out.fm_cond);
     if not (mp_eqb r out.fm_R) && not (out.fm_R <> [] && prop_pos r out.fm_R) then
       failf "resolvent %s, model %s" (string_of_mpoly r) (string_of_mpoly out.fm_R)
   | _, _ -> ());
  "CHECK ok"

let run (toks : string list) (cout : string list) : string =
  let toks = List.filter (fun t -> String.length t = 0 || t.[0] <> '#') toks in
  try
    match toks with
    | ["ib"; order; p; c; neg; pre] -> run_ib order p c neg pre cout
    | "fm" :: order :: p1 :: c1 :: p2 :: c2 :: rmode :: vals when List.length vals = nv -> run_fm order p1 c1 p2 c2 rmode vals cout
    | _ -> "UNKNOWN-OP"
  with
  | Fail m -> "CHECK fail " ^ m
  | Fuel -> "FUEL"
  | Unassigned -> "SKIP unassigned variable"
  | Bad_value m -> "CHECK fail invalid value printed by the implementation: " ^ m
