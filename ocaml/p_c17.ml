(* C17 model driver: one case per line -> one result line (what the C side must print). *)
open Model
open Io

let ring_of s : z option = if s = "0" then None else Some (z_of_string s)

let dy_of a n = { da = z_of_string a; dn = n_of_string n }
let str_dy d = string_of_z d.da ^ "/" ^ string_of_n d.dn
let str_q (q : rat) = string_of_z (fst q) ^ "/" ^ string_of_z (snd q)
let sg x = string_of_int (sgn_of_z x)

(* dyadic op on the four output situations: fresh (0/2^0), pre-used (given), alias a, alias b *)
let four2 f a b used =
  let fresh = { da = Z0; dn = N0 } in
  let r1 = f NoAlias fresh a b in
  let r2 = f NoAlias used a b in
  let r3 = f AliasA a a b in
  let r4 = f AliasB b a b in
  String.concat " " (List.map str_dy [r1; r2; r3; r4])
let four1 f a used =
  let fresh = { da = Z0; dn = N0 } in
  let r1 = f NoAlias fresh a in
  let r2 = f NoAlias used a in
  let r3 = f AliasA a a in
  String.concat " " (List.map str_dy [r1; r2; r3])

let run (toks : string list) (cout : string list) : string =
  match toks with
  (* ---- integers in a ring: "i<op> M args" ; results printed fresh/alias as the harness does *)
  | ["inorm"; m; a] -> string_of_z (ring_norm (ring_of m) (z_of_string a))
  | ["iadd"; m; a; b] -> string_of_z (int_add (ring_of m) (z_of_string a) (z_of_string b))
  | ["isub"; m; a; b] -> string_of_z (int_sub (ring_of m) (z_of_string a) (z_of_string b))
  | ["imul"; m; a; b] -> string_of_z (int_mul (ring_of m) (z_of_string a) (z_of_string b))
  | ["ineg"; m; a] -> string_of_z (int_neg (ring_of m) (z_of_string a))
  | ["iabs"; m; a] -> string_of_z (int_abs (ring_of m) (z_of_string a))
  | ["iinc"; m; a] -> string_of_z (int_inc (ring_of m) (z_of_string a))
  | ["idec"; m; a] -> string_of_z (int_dec (ring_of m) (z_of_string a))
  | ["ipow"; m; a; n] -> string_of_z (int_pow (ring_of m) (z_of_string a) (n_of_string n))
  | ["imulpow2"; m; a; n] -> string_of_z (int_mul_pow2 (ring_of m) (z_of_string a) (n_of_string n))
  | ["imulint"; m; a; b] -> string_of_z (int_mul (ring_of m) (z_of_string a) (z_of_string b))
  | ["iaddmul"; m; s; a; b] -> string_of_z (int_add_mul (ring_of m) (z_of_string s) (z_of_string a) (z_of_string b))
  | ["isubmul"; m; s; a; b] -> string_of_z (int_sub_mul (ring_of m) (z_of_string s) (z_of_string a) (z_of_string b))
  | ["iaddmulint"; m; s; a; b] -> string_of_z (int_add_mul (ring_of m) (z_of_string s) (z_of_string a) (z_of_string b))
  | ["isgn"; m; a] -> sg (int_sgn (ring_of m) (z_of_string a))
  | ["icmp"; m; a; b] -> sg (int_cmp (ring_of m) (z_of_string a) (z_of_string b))
  | ["icmpint"; m; a; b] -> sg (int_cmp (ring_of m) (z_of_string a) (z_of_string b))
  | ["iiszero"; m; a] -> string_of_bool01 (int_is_zero (ring_of m) (z_of_string a))
  | ["iinring"; m; a] -> string_of_bool01 (in_ring (ring_of m) (z_of_string a))
  | ["iinv"; m; a] -> (match int_inv (ring_of m) (z_of_string a) with Some i -> string_of_z i | None -> "none")
  | ["idivides"; m; pr; a; b] -> string_of_bool01 (int_divides (ring_of m) (pr = "1") (z_of_string a) (z_of_string b))
  | ["idivexact"; m; a; b] when (match cout with [_] -> true | _ -> false) ->
      let d = List.hd cout in
      (* checker on the implementation's answer *)
      if int_div_exact_ok (ring_of m) (z_of_string a) (z_of_string b) (z_of_string d) then "CHECK ok"
      else "CHECK fail: d*b <> a in the ring, model solution " ^
           (match int_div_exact (ring_of m) (z_of_string a) (z_of_string b) with Some x -> string_of_z x | None -> "none")
  | ["idivZ"; a; b] -> string_of_z (int_div_Z (z_of_string a) (z_of_string b)) ^ " " ^ string_of_z (int_rem_Z (z_of_string a) (z_of_string b))
  | ["igcd"; a; b] -> string_of_z (int_gcd_Z (z_of_string a) (z_of_string b)) ^ " " ^ string_of_z (int_lcm_Z (z_of_string a) (z_of_string b))
  | ["isqrt"; a] -> string_of_z (int_sqrt_Z (z_of_string a))
  | ["ringbounds"; m] -> string_of_z (ring_lb (z_of_string m)) ^ " " ^ string_of_z (ring_ub (z_of_string m))
  (* ---- rationals "q<op> n1 d1 [n2 d2]" inputs canonical *)
  | ["qcons"; a; b] -> (match q_from_int (z_of_string a) (z_of_string b) with Some q -> str_q q | None -> "none")
  | ["qadd"; a; b; c; d] -> str_q (q_add (z_of_string a, z_of_string b) (z_of_string c, z_of_string d))
  | ["qsub"; a; b; c; d] -> str_q (q_sub (z_of_string a, z_of_string b) (z_of_string c, z_of_string d))
  | ["qmul"; a; b; c; d] -> str_q (q_mul (z_of_string a, z_of_string b) (z_of_string c, z_of_string d))
  | ["qdiv"; a; b; c; d] -> (match q_div (z_of_string a, z_of_string b) (z_of_string c, z_of_string d) with Some q -> str_q q | None -> "none")
  | ["qneg"; a; b] -> str_q (q_neg (z_of_string a, z_of_string b))
  | ["qinv"; a; b] -> (match q_inv (z_of_string a, z_of_string b) with Some q -> str_q q | None -> "none")
  | ["qpow"; a; b; n] -> str_q (q_pow (z_of_string a, z_of_string b) (n_of_string n))
  | ["qmul2exp"; a; b; n] -> str_q (q_mul_2exp (z_of_string a, z_of_string b) (n_of_string n))
  | ["qdiv2exp"; a; b; n] -> str_q (q_div_2exp (z_of_string a, z_of_string b) (n_of_string n))
  | ["qaddint"; a; b; c] -> str_q (q_add_integer (z_of_string a, z_of_string b) (z_of_string c))
  | ["qobs"; a; b] ->
      let q = (z_of_string a, z_of_string b) in
      String.concat " " [sg (q_sgn q); string_of_z (q_floor q); string_of_z (q_ceiling q);
                         string_of_bool01 (q_is_integer q); string_of_z (fst q); string_of_z (snd q)]
  | ["qcmp"; a; b; c; d] -> sg (q_cmp (z_of_string a, z_of_string b) (z_of_string c, z_of_string d))
  | ["qcmpint"; a; b; c] -> sg (q_cmp_integer (z_of_string a, z_of_string b) (z_of_string c))
  | ["qcmpdy"; a; b; c; d] -> sg (q_cmp_dyadic (z_of_string a, z_of_string b) (dy_of c d))
  | ["qfromdy"; a; n] -> str_q (q_from_dyadic (dy_of a n))
  (* ---- dyadics: "d<op> a an b bn ua un" (u = pre-used output) *)
  | ["dfromd"; _; num; den] ->
      (* the generator passes the exact value num/den of the double (den a power of two): checked here *)
      let n = z_of_string num and d = z_of_string den in
      let k = z_val2 d in
      if not (Z.eqb d (pow2 k)) then "MODEL-ERROR denominator is not a power of two" else
      let dy = dy_normalize { da = n; dn = k } in
      (match q_canon (n, d) with
       | Some q -> str_dy dy ^ " " ^ str_q q ^ " 1 1"
       | None -> "MODEL-ERROR")
  | ["dcons"; a; n] -> str_dy (dy_from_int (z_of_string a) (n_of_string n))
  | ["dadd"; a; an; b; bn; u; un] -> four2 dy_add (dy_of a an) (dy_of b bn) (dy_of u un)
  | ["dsub"; a; an; b; bn; u; un] -> four2 dy_sub (dy_of a an) (dy_of b bn) (dy_of u un)
  | ["dmul"; a; an; b; bn; u; un] -> four2 dy_mul (dy_of a an) (dy_of b bn) (dy_of u un)
  | ["dneg"; a; an; u; un] -> four1 dy_neg (dy_of a an) (dy_of u un)
  | ["daddint"; a; an; b; u; un] -> four1 (fun al d x -> dy_add_integer al d x (z_of_string b)) (dy_of a an) (dy_of u un)
  | ["dmul2exp"; a; an; n; u; un] -> four1 (fun al d x -> dy_mul_2exp al d x (n_of_string n)) (dy_of a an) (dy_of u un)
  | ["ddiv2exp"; a; an; n; u; un] -> four1 (fun al d x -> dy_div_2exp al d x (n_of_string n)) (dy_of a an) (dy_of u un)
  | ["dpow"; a; an; n; u; un] -> four1 (fun al d x -> dy_pow al d x (n_of_string n)) (dy_of a an) (dy_of u un)
  | ["dobs"; a; an] ->
      let d = dy_of a an in
      String.concat " " [sg (dy_sgn d); string_of_z (dy_floor_int d); string_of_z (dy_ceiling_int d);
                         string_of_bool01 (dy_is_integer d); string_of_z (dy_get_num d); string_of_z (dy_get_den d);
                         string_of_bool01 (dy_is_normalized d)]
  | ["dcmp"; a; an; b; bn] -> sg (dy_cmp (dy_of a an) (dy_of b bn))
  | ["dcmpint"; a; an; b] -> sg (dy_cmp_integer (dy_of a an) (z_of_string b))
  | ["dcmprat"; a; an; c; d] -> sg (dy_cmp_rational (dy_of a an) (z_of_string c, z_of_string d))
  | ["droot"; a; an; n; prec; ceil] ->
      let (r, ex) = dy_root_approx (dy_of a an) (n_of_string n) (n_of_string prec) (ceil = "1") in
      str_dy r ^ " " ^ string_of_bool01 ex
  | ["dbetween"; a; b; c; d] ->
      (match dy_get_value_between (nat_of_int 100000) (z_of_string a, z_of_string b) (z_of_string c, z_of_string d) with
       | Some r -> str_dy r | None -> "FUEL")
  | "idivexact" :: _ -> "CHECK fail: implementation outputs disagree among fresh/used/aliased output operands"
  | _ -> "UNKNOWN-OP"
