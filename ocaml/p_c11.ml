(* C11 model driver: root isolation under a partial assignment.
   The implementation's root list is CHECKED against the reference real roots of the specialised polynomial
   (Feas_common.reference_roots: exact substitution / elimination by resultants + exact zero test, and the factor
   structure supplied by the generator after it has been multiplied back): strictly increasing, every claimed
   value is a root, nothing is missing.  *)
open Model
open Io
open Feas_common

let run (toks : string list) (cout : string list) : string =
  guard (fun () ->
    let c = parse_case toks in
    match cout with
    | ["NOT-MAIN"] -> "SKIP y is not the main variable"
    | ["BAD-VALUE"] -> "SKIP value token not constructible"
    | _ ->
    match c.op with
    | "iso" ->
      let (r1, rest) = read_values "R" cout in
      let (r2, rest) = read_values "R2" rest in
      let v1 = verified_roots c r1 in
      let st = structure c in
      let sp_refr = (try let sp = specialise_case c st in Some (sp, reference_roots c sp st) with Skip _ -> None) in
      (match sp_refr with
       | None ->
         (* no unverified reference for this case: the verified checker decides alone *)
         (match v1, rest with
          | Accept, ["Y"; n; restored] ->
            if verified_roots c r2 <> Accept then "CHECK fail: second call on the same assignment is not accepted"
            else if int_of_string n <> List.length r1 then "CHECK fail: different number of roots when y is assigned"
            else if restored <> "1" then "CHECK fail: the value of y was not restored in the assignment"
            else "CHECK ok verified"
          | Reject, _ -> "CHECK fail: rejected by the verified checker (no reference method applies)"
          | _, _ -> raise (Skip "no reference method applies"))
       | Some (sp, refr) ->
      let ref_ok = (check_roots refr r1 = None) in
      if v1 = Reject && ref_ok then "MODEL-ERROR the verified checker rejects a root list the reference accepts"
      else if v1 = Accept && not ref_ok then "MODEL-ERROR the verified checker accepts a root list the reference rejects"
      else
      let how = (if v1 = Accept && verified_roots c r2 = Accept then "verified" else "reference") in
      (match check_roots refr r1 with
       | Some w -> "CHECK fail: " ^ w ^ " (reference: " ^ String.concat " " (List.map string_of_rnum refr) ^ ")"
       | None ->
         match check_roots refr r2 with
         | Some w -> "CHECK fail: second call on the same assignment: " ^ w
         | None ->
           (match rest with
            | ["Y"; n; restored] ->
              if int_of_string n <> List.length refr then "CHECK fail: different number of roots when y is assigned"
              else if restored <> "1" then "CHECK fail: the value of y was not restored in the assignment"
              else if (sp.ident_zero || sp.degree = 0) && refr <> [] then "MODEL-ERROR degenerate specialisation with roots"
              else "CHECK ok " ^ how
            | _ -> "CHECK fail: malformed output")))
    | "isof" ->
      (* the per-factor lists the library computes are handed to the EXTRACTED assembly (gather, sort, de-duplicate)
         on the ranks of the reference roots; its result must be the list lp_polynomial_roots_isolate returned *)
      let st = structure c in
      let sp = specialise_case c st in
      let refr = reference_roots c sp st in
      let rank v = (match rank_of refr v with Some i -> zi i
                                          | None -> raise (Bad_value "a per-factor root is not a root of the specialisation")) in
      let rec parts toks acc =
        match toks with
        | "F" :: _ -> let (vs, rest) = read_values "F" toks in parts rest (FRoots (List.map rank vs) :: acc)
        | "K" :: s :: rest -> parts rest (FConst (zi (int_of_string s)) :: acc)
        | _ -> (List.rev acc, toks) in
      let (fs, rest) = parts cout [] in
      let (final, _) = read_values "R" rest in
      (match check_roots refr final with
       | Some w -> "CHECK fail: " ^ w
       | None ->
         let expected = z_roots_isolate_assemble fs in
         let got = List.map rank final in
         if expected <> got then
           "CHECK fail: assembly of the per-factor lists: model [" ^ String.concat " " (List.map string_of_z expected) ^
           "], implementation [" ^ String.concat " " (List.map string_of_z got) ^ "] (ranks among the reference roots)"
         else "CHECK ok " ^ (if verified_roots c final = Accept then "verified" else "reference"))
    | _ -> "UNKNOWN-OP")
